/-
  C04, `relocate`: moving a location that lives below one sequence chunk onto another chunk / the whole
  chromosome (`liftover_location_to_seq_chunk_parent`) is the base-by-base composition of every level, clipped
  to the target window, and the letters read on the target are the chromosome's letters.

  Section A: letters (slices, reverse complement, `extract_sequence` as a map over the bases).
-/
import BioCantor.Proofs.LiftMain
namespace BioCantor.Proofs.Reloc
open BioCantor BioCantor.Spec BioCantor.Model BioCantor.Proofs.Lift

/-! ### A. letters -/

/-- the letter a location of strand `st` reads at position `i` of `s` -/
def rdAt (s : List Char) (st : Strand) (i : Nat) : Char :=
  if st = .minus then complACGT (s.getD i 'N') else s.getD i 'N'

theorem mapM_eq_some_map {α β : Type} (f : α → Option β) (g : α → β) :
    ∀ (l : List α), (∀ x ∈ l, f x = some (g x)) → l.mapM f = some (l.map g) := by
  intro l
  induction l with
  | nil => intro _; rfl
  | cons a l ih =>
    intro h
    rw [List.mapM_cons, h a (by simp), ih (fun x hx => h x (by simp [hx]))]
    rfl

theorem readSeq_eq (s : List Char) (bs : List Nat) (st : Strand) (h : ∀ i ∈ bs, i < s.length) :
    readSeq s bs st = some (bs.map (rdAt s st)) := by
  unfold readSeq
  apply mapM_eq_some_map
  intro i hi
  have hlt := h i hi
  simp [rdAt, List.getD_eq_getElem?_getD, List.getElem?_eq_getElem hlt]

theorem complStrict_eq (c : Char) : complStrict c = complACGT c := by
  unfold complStrict complACGT
  split <;> simp_all

theorem seqSlice_eq (s : List Char) (b : Blk) (h : b.2 ≤ s.length) :
    seqSlice s b.1 b.2 = (blkAsc b).map (fun i => s.getD i 'N') := by
  unfold seqSlice
  apply List.ext_getElem
  · simp [blkAsc]; omega
  · intro i h1 h2
    simp only [blkAsc, List.length_map, List.length_range'] at h2
    simp [blkAsc, List.getD_eq_getElem?_getD]
    rw [List.getElem?_eq_getElem (by omega)]
    simp

theorem readBlock_plus (s : List Char) (b : Blk) (h : b.2 ≤ s.length) :
    readBlock s b .plus = .ok ((blkAsc b).map (rdAt s .plus)) := by
  simp only [readBlock, pure, Except.pure, seqSlice_eq s b h]
  congr 1

theorem readBlock_minus (s : List Char) (b : Blk) (h : b.2 ≤ s.length) :
    readBlock s b .minus = .ok ((blkDesc b).map (rdAt s .minus)) := by
  simp only [readBlock, pure, Except.pure, seqSlice_eq s b h, revCompStrict, blkDesc]
  congr 1
  rw [← List.map_reverse, List.map_map]
  apply List.map_congr_left
  intro i _
  simp [rdAt, complStrict_eq]

theorem readBlocks_plus (s : List Char) : ∀ (bs : List Blk), (∀ b ∈ bs, b.2 ≤ s.length) →
    readBlocks s .plus bs = .ok ((basesPlus bs).map (rdAt s .plus)) := by
  intro bs
  induction bs with
  | nil => intro _; rfl
  | cons b bs ih =>
    intro h
    simp only [readBlocks, bind, Except.bind, readBlock_plus s b (h b (by simp)),
      ih (fun x hx => h x (by simp [hx])), pure, Except.pure, basesPlus, List.map_append]

theorem readBlocks_minus (s : List Char) : ∀ (bs : List Blk), (∀ b ∈ bs, b.2 ≤ s.length) →
    readBlocks s .minus bs = .ok ((basesMinus bs).map (rdAt s .minus)) := by
  intro bs
  induction bs with
  | nil => intro _; rfl
  | cons b bs ih =>
    intro h
    simp only [readBlocks, bind, Except.bind, readBlock_minus s b (h b (by simp)),
      ih (fun x hx => h x (by simp [hx])), pure, Except.pure, basesMinus, List.map_append]

/-- `extract_sequence` reads the bases of the location, 5'→3', complemented on the minus strand -/
theorem readLocation_eq (s : List Char) (m : Location) (st : Strand) (hst : locationStrand? m = some st)
    (hdir : st ≠ .unstranded) (hfit : ∀ b ∈ locationBlocks m, b.2 ≤ s.length) :
    readLocation s m = .ok ((locationBases m).map (rdAt s st)) := by
  cases m with
  | empty => simp [locationStrand?] at hst
  | single b s' =>
    simp only [locationStrand?, Option.some.injEq] at hst
    subst hst
    have hb : b.2 ≤ s.length := hfit b (by simp [locationBlocks])
    cases s' with
    | plus =>
      simp only [readLocation, readBlock_plus s b hb, locationBases, bases, basesPlus, List.append_nil]
    | minus =>
      simp only [readLocation, readBlock_minus s b hb, locationBases, bases, basesMinus, List.reverse_cons,
        List.reverse_nil, List.nil_append, List.append_nil]
    | unstranded => exact absurd rfl hdir
  | compound l =>
    simp only [locationStrand?, Option.some.injEq] at hst
    simp only [locationBlocks] at hfit
    cases hl : l.strand with
    | plus =>
      rw [hl] at hst; subst hst
      simp only [readLocation, assertDirectional, hl, true_or, if_true, bind, Except.bind, pure, Except.pure,
        readBlocks_plus s l.blocks hfit, locationBases, bases]
    | minus =>
      rw [hl] at hst; subst hst
      have hfr : ∀ b ∈ l.blocks.reverse, b.2 ≤ s.length := fun b hb => hfit b (List.mem_reverse.mp hb)
      simp only [readLocation, assertDirectional, hl, or_true, if_true, bind, Except.bind, pure, Except.pure,
        reduceCtorEq, if_false, readBlocks_minus s l.blocks.reverse hfr, locationBases, bases]
    | unstranded => rw [hl] at hst; subst hst; exact absurd rfl hdir

theorem readLocation_unstranded (s : List Char) (m : Location) (hst : locationStrand? m = some .unstranded) :
    ans (readLocation s m) = none := by
  cases m with
  | empty => simp [locationStrand?] at hst
  | single b s' =>
    simp only [locationStrand?, Option.some.injEq] at hst
    subst hst
    simp [readLocation, readBlock, throw, throwThe, MonadExceptOf.throw]
  | compound l =>
    simp only [locationStrand?, Option.some.injEq] at hst
    simp [readLocation, assertDirectional, hst, bind, Except.bind, throw, throwThe, MonadExceptOf.throw]

theorem locationBases_length' (m : Location) : (locationBases m).length = blocksLen (locationBlocks m) := by
  rw [locationBases_length, locLen_eq]

/-! ### the chunk the harness cuts -/

theorem seqSlice_length (s : List Char) (a b : Nat) : (seqSlice s a b).length = min (b - a) (s.length - a) := by
  simp [seqSlice]

theorem revCompStrict_length (s : List Char) : (revCompStrict s).length = s.length := by simp [revCompStrict]

theorem cutChunk_fail (G : List Char) (w : Blk) (st : Strand) (h1 : w.1 < w.2) (h2 : G.length < w.2) :
    ans (cutChunk G w st) = none := by
  unfold cutChunk mkSingle
  have hlen : ¬ ((if st = Strand.plus then seqSlice G w.1 w.2 else revCompStrict (seqSlice G w.1 w.2)).length = w.len) := by
    split <;> simp only [revCompStrict_length, seqSlice_length, Blk.len] <;> omega
  simp only [bind, Except.bind, pure, Except.pure]
  split
  · rfl
  · rw [if_pos (by simpa using hlen)]
    rfl

/-- position of chromosome base `p` inside the chunk `w` on strand `s2` -/
def toT (w : Blk) (s2 : Strand) (p : Nat) : Nat := if s2 = Strand.minus then w.2 - 1 - p else p - w.1

theorem cutChunk_ok (G : List Char) (w : Blk) (st : Strand) (h1 : w.1 < w.2) (h2 : w.2 ≤ G.length) :
    ∃ sq, cutChunk G w st = .ok sq ∧ sq.length = w.2 - w.1 ∧
      (st ≠ .unstranded → sq = (bases ⟨[w], st⟩).map (rdAt G st)) := by
  have hlen : (if st = Strand.plus then seqSlice G w.1 w.2 else revCompStrict (seqSlice G w.1 w.2)).length = w.len := by
    split <;> simp only [revCompStrict_length, seqSlice_length, Blk.len] <;> omega
  refine ⟨if st = Strand.plus then seqSlice G w.1 w.2 else revCompStrict (seqSlice G w.1 w.2), ?_, hlen, ?_⟩
  · unfold cutChunk mkSingle
    simp only [bind, Except.bind, pure, Except.pure]
    rw [if_pos ⟨by omega, by omega⟩]
    simp only []
    rw [if_neg (by simpa using hlen)]
  · intro hdir
    cases st with
    | plus =>
      simp only [if_true, bases, basesPlus, List.append_nil, seqSlice_eq G w h2]
      apply List.map_congr_left
      intro i _; simp [rdAt]
    | minus =>
      simp only [reduceCtorEq, if_false, bases, basesMinus, List.reverse_cons, List.reverse_nil, List.nil_append,
        List.append_nil, seqSlice_eq G w h2, revCompStrict, blkDesc]
      rw [← List.map_reverse, List.map_map]
      apply List.map_congr_left
      intro i _
      simp [rdAt, complStrict_eq]
    | unstranded => exact absurd rfl hdir

theorem compose_compose_right (a b : Strand) (hb : b ≠ .unstranded) : compose (compose a b) b = a := by
  cases a <;> cases b <;> simp [compose] at hb ⊢

/-- reading the chunk's own sequence at the chunk position of `p`, on the strand relative to the chunk,
    gives the chromosome's letter at `p` on the composed strand -/
theorem rdAt_chunk (G : List Char) (w : Blk) (s2 : Strand) (hs2 : s2 ≠ .unstranded)
    (wst : Strand) (hw : wst ≠ .unstranded) (p : Nat) (hp1 : w.1 ≤ p) (hp2 : p < w.2) :
    rdAt ((bases ⟨[w], s2⟩).map (rdAt G s2)) (compose wst s2) (toT w s2 p) = rdAt G wst p := by
  have hidx : ((bases ⟨[w], s2⟩).map (rdAt G s2)).getD (toT w s2 p) 'N' = rdAt G s2 p := by
    cases s2 with
    | plus =>
      simp only [bases, basesPlus, List.append_nil, toT, reduceCtorEq, if_false,
        List.getD_eq_getElem?_getD, List.getElem?_map]
      rw [blkAsc_get w (p - w.1) (by unfold Blk.len; omega)]
      simp only [Option.map_some, Option.getD_some]
      congr 1; omega
    | minus =>
      simp only [bases, basesMinus, List.reverse_cons, List.reverse_nil, List.nil_append, List.append_nil, toT,
        if_true, List.getD_eq_getElem?_getD, List.getElem?_map]
      rw [blkDesc_get w (w.2 - 1 - p) (by unfold Blk.len; omega)]
      simp only [Option.map_some, Option.getD_some]
      congr 1; omega
    | unstranded => exact absurd rfl hs2
  unfold rdAt at hidx ⊢
  rw [hidx]
  cases wst <;> cases s2 <;> simp [compose, complACGT_invol] at hw hs2 ⊢

/-! ### B. the chunk-down map, explicitly -/

/-- the blocks of `l` that reach into the window -/
def hitsOf (w : Blk) (l : Location) : List Blk := (locationBlocks l).filter (fun b => overlapKernel w b)

theorem chunkDown_explicit (l : Location) (hl : WF l) (hne : l ≠ .empty) (w : Blk) (wst : Strand)
    (hw : wst = .plus ∨ wst = .minus) (hwl : w.1 < w.2) :
    ∃ m, chunkDown l w wst = .ok m ∧
      ((hitsOf w l = [] ∧ m = .empty) ∨
       (hitsOf w l ≠ [] ∧ m ≠ .empty ∧ wfLocation m = true ∧
        locationStrand? m = some (compose (strandOf l) wst) ∧
        (locationBlocks m).Perm ((hitsOf w l).map (relBlk w wst)))) := by
  have hlen : ¬ (w.len = 0) := by unfold Blk.len; omega
  unfold chunkDown
  rw [if_neg hlen]
  cases l with
  | empty => exact absurd rfl hne
  | single b st =>
    have hb : b.1 ≤ b.2 := hl
    simp only [relativeToSingle, hitsOf, locationBlocks, List.filter_cons, List.filter_nil]
    by_cases h : max w.1 b.1 < min w.2 b.2
    · have ho : overlapKernel b w = true := (overlapKernel_iff b w).mpr ⟨by omega, hwl, by omega⟩
      have ho' : overlapKernel w b = true := by rw [overlapKernel_comm]; exact ho
      rw [ho, if_pos rfl, singleRelativeToSingle_ok b st w wst hw h, ho']
      refine ⟨_, rfl, Or.inr ⟨by simp, by simp, ?_, ?_, ?_⟩⟩
      · have hp := relBlk_props w wst b h
        simp [wfLocation, hp.1]
      · simp [locationStrand?, strandOf, strandRelativeTo_eq_compose']
      · simp
    · have ho : overlapKernel b w = false := by
        rw [Bool.eq_false_iff]; intro hc
        have := ((overlapKernel_iff b w).mp hc).2.2; omega
      have ho' : overlapKernel w b = false := by rw [overlapKernel_comm]; exact ho
      rw [ho, ho']
      refine ⟨.empty, ?_, Or.inl ⟨by simp, rfl⟩⟩
      simp [throw, throwThe, MonadExceptOf.throw, pure, Except.pure]
  | compound l =>
    have hv : ∀ b ∈ l.blocks, b.1 ≤ b.2 := (blocksValid_iff _).mp hl.2.1
    simp only [relativeToSingle, hitsOf, locationBlocks]
    generalize hhits : l.blocks.filter (fun b => overlapKernel w b) = hits
    have hhv : ∀ b ∈ hits, max w.1 b.1 < min w.2 b.2 := by
      intro b hb
      rw [← hhits, List.mem_filter] at hb
      exact ((overlapKernel_iff w b).mp hb.2).2.2
    have hany : (l.blocks.any fun b => overlapKernel b w) = !hits.isEmpty := by
      rw [← hhits]
      simp only [overlapKernel_comm _ w]
      rw [Bool.eq_iff_iff]
      simp [List.filter_eq_nil_iff]
    rw [hany]
    cases hits with
    | nil =>
      refine ⟨.empty, ?_, Or.inl ⟨rfl, rfl⟩⟩
      simp [throw, throwThe, MonadExceptOf.throw, pure, Except.pure]
    | cons h0 hs =>
      generalize hH : h0 :: hs = H at *
      have hHne : H ≠ [] := by rw [← hH]; simp
      have hrel_ne : H.map (relBlk w wst) ≠ [] := by simpa using hHne
      have hrel_v : ∀ r ∈ H.map (relBlk w wst), r.1 ≤ r.2 := by
        intro r hr
        obtain ⟨b, hb, rfl⟩ := List.mem_map.mp hr
        exact (relBlk_props w wst b (hhv b hb)).1
      have he : H.isEmpty = false := by simpa using hHne
      refine ⟨.compound ⟨sortBlocks (strandRelativeTo l.strand wst) (H.map (relBlk w wst)),
        strandRelativeTo l.strand wst⟩, ?_, Or.inr ⟨hHne, by simp, ?_, ?_, ?_⟩⟩
      · simp only [he, Bool.not_false, not_true, if_false, bind, Except.bind,
          relGo_ok w wst l hw H hhv, mkCompoundLoc_ok (strandRelativeTo l.strand wst) hrel_ne hrel_v,
          Bool.false_eq_true, pure, Except.pure]
      · have hcan := canon_sortBlocks (strandRelativeTo l.strand wst) hrel_ne hrel_v
        simp [wfLocation, hcan]
      · simp [locationStrand?, strandOf, strandRelativeTo_eq_compose']
      · exact sortBlocks_perm _ _

/-- inside the window (the spec's filter) -/
def inW (w : Blk) (p : Nat) : Bool := decide (w.1 ≤ p) && decide (p < w.2)

theorem relBlk_pos (w : Blk) (wst : Strand) (b : Blk) (h : max w.1 b.1 < min w.2 b.2) :
    (relBlk w wst b).1 < (relBlk w wst b).2 := by
  unfold relBlk; split <;> simp <;> omega

theorem toT_inj (w : Blk) (wst : Strand) (p q : Nat) (hp : inW w p = true) (hq : inW w q = true)
    (h : toT w wst p = toT w wst q) : p = q := by
  simp only [inW, Bool.and_eq_true, decide_eq_true_eq] at hp hq
  unfold toT at h
  split at h <;> omega

theorem blk_hit (w : Blk) (wst : Strand) (hw : wst = .plus ∨ wst = .minus) (b : Blk)
    (h : max w.1 b.1 < min w.2 b.2) :
    (blkAsc (relBlk w wst b)).Perm (((blkAsc b).filter (inW w)).map (toT w wst)) := by
  apply (List.perm_ext_iff_of_nodup ?_ ?_).mpr
  · intro x
    simp only [mem_blkAsc, List.mem_map, List.mem_filter, inW, Bool.and_eq_true, decide_eq_true_eq]
    rcases hw with rfl | rfl
    · simp only [relBlk, toT, if_true, reduceCtorEq, if_false]
      constructor
      · intro hx; exact ⟨w.1 + x, ⟨⟨by omega, by omega⟩, by omega, by omega⟩, by omega⟩
      · rintro ⟨p, ⟨⟨h1, h2⟩, h3, h4⟩, rfl⟩; omega
    · simp only [relBlk, toT, if_true, reduceCtorEq, if_false]
      constructor
      · intro hx; exact ⟨w.2 - 1 - x, ⟨⟨by omega, by omega⟩, by omega, by omega⟩, by omega⟩
      · rintro ⟨p, ⟨⟨h1, h2⟩, h3, h4⟩, rfl⟩; omega
  · exact List.nodup_range' ..
  · have hnd : ((blkAsc b).filter (inW w)).Pairwise (· ≠ ·) := List.Pairwise.filter _ (List.nodup_range' ..)
    rw [List.Nodup, List.pairwise_map]
    exact hnd.imp_of_mem (fun {p q} hp hq hne heq =>
      hne (toT_inj w wst p q (List.mem_filter.mp hp).2 (List.mem_filter.mp hq).2 heq))

theorem blk_miss (w : Blk) (b : Blk) (h : ¬ max w.1 b.1 < min w.2 b.2) : (blkAsc b).filter (inW w) = [] := by
  rw [List.filter_eq_nil_iff]
  intro p hp
  rw [mem_blkAsc] at hp
  simp only [inW, Bool.and_eq_true, decide_eq_true_eq]
  omega

/-- the bases of the chunk-relative blocks are the bases inside the window, in chunk coordinates -/
theorem hits_bases (w : Blk) (wst : Strand) (hw : wst = .plus ∨ wst = .minus) (hwl : w.1 < w.2) :
    ∀ (L : List Blk), (∀ b ∈ L, b.1 ≤ b.2) →
    (basesPlus ((L.filter (fun b => overlapKernel w b)).map (relBlk w wst))).Perm
      (((basesPlus L).filter (inW w)).map (toT w wst)) := by
  intro L
  induction L with
  | nil => intro _; simp [basesPlus]
  | cons b L ih =>
    intro hv
    have hb := hv b (by simp)
    have ih' := ih (fun x hx => hv x (by simp [hx]))
    simp only [basesPlus, List.filter_append, List.map_append, List.filter_cons]
    by_cases h : max w.1 b.1 < min w.2 b.2
    · have ho : overlapKernel w b = true := (overlapKernel_iff w b).mpr ⟨hwl, by omega, h⟩
      simp only [ho, if_true, List.map_cons, basesPlus]
      exact (blk_hit w wst hw b h).append ih'
    · have ho : overlapKernel w b = false := by
        rw [Bool.eq_false_iff]; intro hc; exact h ((overlapKernel_iff w b).mp hc).2.2
      simp only [ho, Bool.false_eq_true, if_false, blk_miss w b h, List.map_nil, List.nil_append]
      exact ih'

/-- a canonical location whose blocks are non-empty and whose bases are a permutation of a list that is
    strictly monotone in the location's reading direction reads exactly that list -/
theorem exact_of_perm (m : Location) (st : Strand) (hst : locationStrand? m = some st)
    (hwf : wfLocation m = true) (hpos : ∀ x ∈ locationBlocks m, x.1 < x.2) (ys : List Nat)
    (hperm : (basesPlus (locationBlocks m)).Perm ys) (hmono : if st = .minus then Desc ys else Asc ys) :
    locationBases m = ys ∧ nonOverlap (locationBlocks m) = true := by
  have hmb := locationBases_eq m _ hst
  have hnd : (basesPlus (locationBlocks m)).Nodup := by
    apply hperm.symm.nodup
    split at hmono
    · exact nodup_of_desc _ hmono
    · exact nodup_of_asc _ hmono
  have hsorted := sorted_of_wf m _ hst hwf
  have hpw := nonoverlap_of_sorted_nodup _ _ hsorted hpos hnd
  have hasc := asc_basesPlus _ hpw
  refine ⟨?_, nonOverlap_of_pairwise _ hpw⟩
  rw [hmb, bases_mk]
  split
  · rename_i hmin
    rw [if_pos hmin] at hmono
    exact eq_of_perm_desc ((List.reverse_perm _).trans hperm) (desc_reverse _ hasc) hmono
  · rename_i hmin
    rw [if_neg hmin] at hmono
    exact eq_of_perm_asc hperm hasc hmono

/-! ### C. the composed list: monotone, and inside the window of the last placement -/

theorem through_some (p : Location) (xs ys : List Nat) (h : throughPlacement p xs = some ys) :
    p ≠ .empty ∧ strandOf p ≠ .unstranded ∧ (∀ i ∈ xs, i < blocksLen (locationBlocks p)) ∧
      ys = xs.map (fun i => (bases ⟨locationBlocks p, strandOf p⟩).getD i 0) := by
  rw [throughPlacement_eq] at h
  cases hpl : toLoc p with
  | none => rw [hpl] at h; simp at h
  | some pl =>
    rw [hpl] at h
    simp only at h
    obtain ⟨hpleq, hpe⟩ := toLoc_eq p pl hpl
    by_cases hu : pl.strand = .unstranded
    · rw [if_pos hu] at h; simp at h
    rw [if_neg hu] at h
    by_cases hall : ∀ i ∈ xs, i < pl.len
    · rw [if_pos hall] at h
      subst hpleq
      exact ⟨hpe, hu, hall, (Option.some.inj h).symm⟩
    · rw [if_neg hall] at h; simp at h

theorem composeLevels_mono (ps : List (Option Location)) : ∀ (xs : List Nat) (st : Strand) (ys : List Nat)
    (w : Strand), composeLevels xs st ps = some (ys, w) → w ≠ .unstranded →
    (∀ q ∈ ps, ∀ x, q = some x → WF x ∧ nonOverlap (locationBlocks x) = true) →
    (if st = .minus then Desc xs else Asc xs) → (if w = .minus then Desc ys else Asc ys) := by
  induction ps with
  | nil =>
    intro xs st ys w h _ _ hm
    simp only [composeLevels, Option.some.injEq, Prod.mk.injEq] at h
    rw [← h.1, ← h.2]; exact hm
  | cons q ps ih =>
    intro xs st ys w h hw hall hm
    cases q with
    | none => simp [composeLevels] at h
    | some p =>
      simp only [composeLevels] at h
      cases hth : throughPlacement p xs with
      | none => rw [hth] at h; simp at h
      | some zs =>
        rw [hth] at h
        simp only at h
        obtain ⟨hpe, hps, hin, hzs⟩ := through_some p xs zs hth
        obtain ⟨hpw, hpno⟩ := hall (some p) (by simp) p rfl
        have hdir := composeLevels_dir ps zs _ ys w h hw
        have hcs := compose_ne_left _ _ hdir
        have hpv := wfLocation_valid p ((wf_iff p).mp hpw)
        have m2 := bases_mono (locationBlocks p) (strandOf p) hpv hpno
        have hin' : ∀ i ∈ xs, i < (bases ⟨locationBlocks p, strandOf p⟩).length := by
          intro i hi; rw [bases_length]; exact hin i hi
        have m3 := through_mono xs (bases ⟨locationBlocks p, strandOf p⟩) st (strandOf p) hcs hps hm m2 hin'
        rw [← hzs] at m3
        exact ih zs _ ys w h hw (fun q hq x hx => hall q (by simp [hq]) x hx) m3

theorem through_single_mem (w : Blk) (s : Strand) (xs ys : List Nat)
    (h : throughPlacement (.single w s) xs = some ys) : ∀ p ∈ ys, w.1 ≤ p ∧ p < w.2 := by
  obtain ⟨_, _, hin, hys⟩ := through_some _ xs ys h
  intro p hp
  rw [hys, List.mem_map] at hp
  obtain ⟨i, hi, rfl⟩ := hp
  have hlt := hin i hi
  simp only [locationBlocks] at hlt ⊢
  have hmem : (bases ⟨[w], strandOf (.single w s)⟩).getD i 0 ∈ bases ⟨[w], strandOf (.single w s)⟩ := by
    have hl : i < (bases ⟨[w], strandOf (.single w s)⟩).length := by rw [bases_length]; exact hlt
    rw [List.getD_eq_getElem?_getD, List.getElem?_eq_getElem hl]
    exact List.getElem_mem hl
  have := (bases_perm_basesPlus [w] _).mem_iff.mp hmem
  rw [mem_basesPlus] at this
  obtain ⟨b, hb, h1, h2⟩ := this
  simp only [List.mem_singleton] at hb
  subst hb
  exact ⟨h1, h2⟩

/-- the placements crossed by `relocate` (as the spec writes them) -/
def placesOf (tx : Option Location) (w1 : Blk) (s1 : Strand) : List (Option Location) :=
  (match tx with | some t => [some t] | none => []) ++ [some (Location.single w1 s1)]

theorem compose_places_mem (tx : Option Location) (w1 : Blk) (s1 : Strand) (xs : List Nat) (st : Strand)
    (want : List Nat) (wst : Strand) (h : composeLevels xs st (placesOf tx w1 s1) = some (want, wst)) :
    ∀ p ∈ want, w1.1 ≤ p ∧ p < w1.2 := by
  cases tx with
  | none =>
    simp only [placesOf, List.nil_append, composeLevels] at h
    cases hth : throughPlacement (.single w1 s1) xs with
    | none => rw [hth] at h; simp at h
    | some zs =>
      rw [hth] at h
      simp only [Option.some.injEq, Prod.mk.injEq] at h
      rw [← h.1]; exact through_single_mem w1 s1 xs zs hth
  | some t =>
    simp only [placesOf, List.cons_append, List.nil_append, composeLevels] at h
    cases hth1 : throughPlacement t xs with
    | none => rw [hth1] at h; simp at h
    | some ys =>
      rw [hth1] at h
      simp only at h
      cases hth : throughPlacement (.single w1 s1) ys with
      | none => rw [hth] at h; simp at h
      | some zs =>
        rw [hth] at h
        simp only [Option.some.injEq, Prod.mk.injEq] at h
        rw [← h.1]; exact through_single_mem w1 s1 ys zs hth

/-! ### D. the way up on the concrete chains -/

theorem liftOnce_pos (c p : Location) (hp : WF p) (hce : c ≠ .empty)
    (hno : nonOverlap (locationBlocks p) = true) (m : Location) (hm : liftOnce c p = .ok m) :
    ∀ x ∈ locationBlocks m, x.1 < x.2 := by
  by_cases hlc : locLen c = 0
  · have := liftOnce_fail c p hce (Or.inr hlc)
    rw [hm] at this; simp at this
  cases hth : throughPlacement p (locationBases c) with
  | none =>
    have := liftOnce_fail c p hce (Or.inl hth)
    rw [hm] at this; simp at this
  | some ys =>
    have hth' := hth
    rw [throughPlacement_eq] at hth'
    cases hpl : toLoc p with
    | none => rw [hpl] at hth'; simp at hth'
    | some pl =>
      rw [hpl] at hth'
      simp only at hth'
      by_cases hu : pl.strand = .unstranded
      · rw [if_pos hu] at hth'; simp at hth'
      rw [if_neg hu] at hth'
      by_cases hall : ∀ i ∈ locationBases c, i < pl.len
      · obtain ⟨hpleq, hpe⟩ := toLoc_eq p pl hpl
        have hpb : pl.blocks = locationBlocks p := by rw [hpleq]
        have hcb := locationBases_eq c _ (locationStrand_of_ne c hce)
        have hin : ∀ b ∈ locationBlocks c, b.1 < b.2 → b.2 ≤ pl.len := by
          intro b hb hlt
          have h1 : b.2 - 1 ∈ basesPlus (locationBlocks c) :=
            (mem_basesPlus _ _).mpr ⟨b, hb, by omega, by omega⟩
          have h2 : b.2 - 1 ∈ locationBases c := by
            rw [hcb]; exact (bases_perm_basesPlus _ _).mem_iff.mpr h1
          have := hall _ h2
          omega
        obtain ⟨m', hm', _, _, hpos, _⟩ := liftOnce_ok c p hp pl hpl hu hce (by omega) hin
        rw [hm] at hm'
        have : m = m' := by injection hm'
        rw [this]
        exact hpos (by rw [hpb]; exact hno)
      · rw [if_neg hall] at hth'; simp at hth'

theorem beq_chunk_chrom : (tSeqChunk == tChromosome) = false := by decide
theorem beq_tx_chrom : (tTranscript == tChromosome) = false := by decide
theorem beq_tx_chunk : (tTranscript == tSeqChunk) = false := by decide

/-- one step of `lift_over_to_first_ancestor_of_type` that does not stop at the nearest level -/
theorem liftToType_step (t : List Char) (c : Location) (l0 l1 : Level) (up : Chain) (r : Location × Chain)
    (h0 : (l0.type == t) = false) (h : liftToType t c (l0 :: l1 :: up) = .ok r) :
    c ≠ .empty ∧ ∃ p m, l1.place = some p ∧ liftOnce c p = .ok m ∧ liftToType t m (l1 :: up) = .ok r := by
  rw [liftToType.eq_def] at h
  simp only [] at h
  by_cases hce : c = .empty
  · subst hce; simp [throw, throwThe, MonadExceptOf.throw] at h
  have hb : (c == Location.empty) = false := by simpa using hce
  simp only [hb, Bool.false_eq_true, if_false] at h
  split at h
  · simp [throw, throwThe, MonadExceptOf.throw] at h
  · simp only [h0, Bool.false_eq_true, if_false] at h
    cases hp : l1.place with
    | none => rw [hp] at h; simp [throw, throwThe, MonadExceptOf.throw] at h
    | some p =>
      rw [hp] at h
      simp only [bind, Except.bind] at h
      cases hm : liftOnce c p with
      | error e => rw [hm] at h; simp at h
      | ok m =>
        rw [hm] at h
        exact ⟨hce, p, m, rfl, hm, h⟩

theorem liftToType_hit (t : List Char) (c : Location) (l0 : Level) (rest : Chain) (r : Location × Chain)
    (h0 : (l0.type == t) = true) (h : liftToType t c (l0 :: rest) = .ok r) : r.1 = c := by
  rw [liftToType.eq_def] at h
  simp only [] at h
  split at h
  · simp [throw, throwThe, MonadExceptOf.throw] at h
  · split at h
    · simp [throw, throwThe, MonadExceptOf.throw] at h
    · simp only [pure, Except.pure] at h
      injection h with h
      rw [← h]

/-! ### E. the spec predicate, unfolded -/

def tgtWin (G : List Char) (tgt : Option (Blk × Strand)) : Blk :=
  match tgt with | some t => t.1 | none => (0, G.length)
def tgtStrand (tgt : Option (Blk × Strand)) : Strand :=
  match tgt with | some t => t.2 | none => Strand.plus

def specS2 (tx : Option Location) (w1 : Blk) : Bool :=
  match tx with
  | some t => t == Location.empty || (locationBlocks t).any (fun r => w1.2 - w1.1 < r.2)
  | none => false

def specLen0 (tx : Option Location) (w1 : Blk) : Nat :=
  match tx with | some t => (locationBases t).length | none => w1.2 - w1.1

/-- the clauses about an answer once the composed list is known -/
def okFinal (G : List Char) (w2 : Blk) (s2 : Strand) (c : Location) (places : List (Option Location))
    (want : List Nat) (wst : Strand) (a : Option (Location × List Char)) : Bool :=
  let inside := want.filter (inW w2)
  let expect := inside.map (toT w2 s2)
  match a with
  | none => false
  | some (m, letters) =>
    if inside.isEmpty then m == Location.empty
    else
      let exact := allNonOverlap c places ∧ wst ≠ Strand.unstranded ∧ strandOf c ≠ Strand.unstranded
      m != Location.empty && wfLocation m &&
      locationStrand? m == some (compose wst s2) &&
      (if exact then locationBases m == expect else sortNat (locationBases m) == sortNat expect) &&
      (locationBlocks m).all (fun r => r.2 ≤ w2.2 - w2.1) &&
      (if exact then readSeq G inside wst == some letters else true)

theorem okRelocate_unfold (G : List Char) (w1 : Blk) (s1 : Strand) (tx : Option Location) (c : Location)
    (tgt : Option (Blk × Strand)) (a : Option (Location × List Char)) :
    okRelocate G w1 s1 tx c tgt a =
      if w1.2 ≤ w1.1 ∨ (tgtWin G tgt).2 ≤ (tgtWin G tgt).1 ∨ tgtStrand tgt = Strand.unstranded then true
      else if G.length < w1.2 ∨ G.length < (tgtWin G tgt).2 then a.isNone
      else if specS2 tx w1 then a.isNone
      else if (locationBlocks c).any (fun r => specLen0 tx w1 < r.2) then a.isNone
      else if c == Location.empty then (match a with | none => true | some x => x.1 == Location.empty)
      else if (locationBases c).isEmpty ∧ a.isNone then true
      else match composeLevels (locationBases c) (strandOf c) (placesOf tx w1 s1) with
        | none => a.isNone
        | some (want, wst) =>
          if wst = Strand.unstranded ∧ a.isNone then true
          else okFinal G (tgtWin G tgt) (tgtStrand tgt) c (placesOf tx w1 s1) want wst a := by
  rfl

section verdicts
variable (G : List Char) (w1 : Blk) (s1 : Strand) (tx : Option Location) (c : Location)
  (tgt : Option (Blk × Strand))

theorem okRel_degenerate (a : Option (Location × List Char))
    (h : w1.2 ≤ w1.1 ∨ (tgtWin G tgt).2 ≤ (tgtWin G tgt).1 ∨ tgtStrand tgt = Strand.unstranded) :
    okRelocate G w1 s1 tx c tgt a = true := by
  rw [okRelocate_unfold, if_pos h]

/-- a refusal is accepted as soon as one of the listed reasons holds -/
theorem okRel_none
    (h : G.length < w1.2 ∨ G.length < (tgtWin G tgt).2 ∨ specS2 tx w1 = true ∨
      (locationBlocks c).any (fun r => specLen0 tx w1 < r.2) = true ∨ c = Location.empty ∨
      locationBases c = [] ∨ composeLevels (locationBases c) (strandOf c) (placesOf tx w1 s1) = none ∨
      ∃ want, composeLevels (locationBases c) (strandOf c) (placesOf tx w1 s1) = some (want, Strand.unstranded)) :
    okRelocate G w1 s1 tx c tgt none = true := by
  rw [okRelocate_unfold]
  split
  · rfl
  split
  · rfl
  split
  · rfl
  split
  · rfl
  split
  · rfl
  split
  · rfl
  rename_i h1 h2 h3 h4 h5 h6
  rcases h with h | h | h | h | h | h | h | ⟨want, h⟩
  · exact absurd (Or.inl h) h2
  · exact absurd (Or.inr h) h2
  · exact absurd h h3
  · exact absurd h h4
  · subst h; simp at h5
  · rw [h] at h6; simp at h6
  · rw [h]; rfl
  · rw [h]; simp

theorem okRel_some (m : Location) (letters : List Char) (want : List Nat) (wst : Strand)
    (hD : ¬ (w1.2 ≤ w1.1 ∨ (tgtWin G tgt).2 ≤ (tgtWin G tgt).1 ∨ tgtStrand tgt = Strand.unstranded))
    (hS1 : ¬ (G.length < w1.2 ∨ G.length < (tgtWin G tgt).2)) (hS2 : specS2 tx w1 = false)
    (hS3 : (locationBlocks c).any (fun r => specLen0 tx w1 < r.2) = false) (hce : c ≠ Location.empty)
    (hcl : composeLevels (locationBases c) (strandOf c) (placesOf tx w1 s1) = some (want, wst))
    (hfin : okFinal G (tgtWin G tgt) (tgtStrand tgt) c (placesOf tx w1 s1) want wst (some (m, letters)) = true) :
    okRelocate G w1 s1 tx c tgt (some (m, letters)) = true := by
  have hb : (c == Location.empty) = false := by simpa using hce
  rw [okRelocate_unfold, if_neg hD, if_neg hS1, hS2, hS3, hb, hcl]
  simp only [Bool.false_eq_true, if_false, Option.isNone_some, and_false]
  exact hfin

end verdicts

/-! ### F. the final stage: onto the target, and the letters -/

theorem okFinal_empty (G : List Char) (w2 : Blk) (s2 : Strand) (c : Location) (places : List (Option Location))
    (want : List Nat) (wst : Strand) (l : List Char) (h : want.filter (inW w2) = []) :
    okFinal G w2 s2 c places want wst (some (Location.empty, l)) = true := by
  simp [okFinal, h]

theorem okFinal_loc (G : List Char) (w2 : Blk) (s2 : Strand) (c : Location) (places : List (Option Location))
    (want : List Nat) (wst : Strand) (m : Location) (letters : List Char)
    (hne : want.filter (inW w2) ≠ []) (hm : m ≠ Location.empty) (hwf : wfLocation m = true)
    (hst : locationStrand? m = some (compose wst s2))
    (hperm : (locationBases m).Perm ((want.filter (inW w2)).map (toT w2 s2)))
    (hexact : allNonOverlap c places = true → wst ≠ Strand.unstranded → strandOf c ≠ Strand.unstranded →
      locationBases m = (want.filter (inW w2)).map (toT w2 s2) ∧
      readSeq G (want.filter (inW w2)) wst = some letters)
    (hfit : ∀ r ∈ locationBlocks m, r.2 ≤ w2.2 - w2.1) :
    okFinal G w2 s2 c places want wst (some (m, letters)) = true := by
  have he : (want.filter (inW w2)).isEmpty = false := by simpa using hne
  have hmb : (m != Location.empty) = true := by simpa using hm
  have hfit' : (locationBlocks m).all (fun r => decide (r.2 ≤ w2.2 - w2.1)) = true := by
    rw [List.all_eq_true]; intro r hr; simpa using hfit r hr
  simp only [okFinal, he, Bool.false_eq_true, if_false, hmb, hwf, hst, beq_self_eq_true, Bool.true_and, hfit',
    Bool.and_true, Bool.and_eq_true]
  by_cases hx : allNonOverlap c places = true ∧ wst ≠ Strand.unstranded ∧ strandOf c ≠ Strand.unstranded
  · obtain ⟨e1, e2⟩ := hexact hx.1 hx.2.1 hx.2.2
    rw [if_pos hx, if_pos hx]
    exact ⟨by simpa using e1, by simpa using e2⟩
  · rw [if_neg hx, if_neg hx]
    exact ⟨by simpa using sortNat_perm hperm, rfl⟩

/-- what the way up delivers about the chromosome-coordinate location -/
structure UpOK (c : Location) (places : List (Option Location)) (want : List Nat) (wst : Strand)
    (up : Location) : Prop where
  wf : wfLocation up = true
  st : locationStrand? up = some wst
  perm : (locationBases up).Perm want
  exact : allNonOverlap c places = true → wst ≠ Strand.unstranded → locationBases up = want

/-- outcome of the final stage: a refusal only for an undirected child, otherwise an accepted answer -/
def FinalOK (G : List Char) (w2 : Blk) (s2 : Strand) (c : Location) (places : List (Option Location))
    (want : List Nat) (wst : Strand) (x : R (Location × List Char)) : Prop :=
  (wst = Strand.unstranded ∧ ans x = none) ∨
  (∃ m letters, x = .ok (m, letters) ∧ okFinal G w2 s2 c places want wst (some (m, letters)) = true)

theorem compose_unstranded_left (b : Strand) : compose .unstranded b = .unstranded := by cases b <;> rfl
theorem compose_plus_right (a : Strand) : compose a .plus = a := by cases a <;> rfl
theorem compose_dir (a b : Strand) (ha : a ≠ .unstranded) (hb : b ≠ .unstranded) : compose a b ≠ .unstranded := by
  cases a <;> cases b <;> simp [compose] at ha hb ⊢

theorem want_mono (c : Location) (hc : WF c) (hce : c ≠ .empty) (places : List (Option Location))
    (hpl : ∀ q ∈ places, ∀ x, q = some x → WF x) (want : List Nat) (wst : Strand)
    (hcl : composeLevels (locationBases c) (strandOf c) places = some (want, wst))
    (hall : allNonOverlap c places = true) (hw : wst ≠ .unstranded) :
    if wst = .minus then Desc want else Asc want := by
  simp only [allNonOverlap, Bool.and_eq_true, List.all_eq_true] at hall
  have hcv := wfLocation_valid c ((wf_iff c).mp hc)
  have m1 := bases_mono (locationBlocks c) (strandOf c) hcv hall.1
  rw [← locationBases_eq c _ (locationStrand_of_ne c hce)] at m1
  refine composeLevels_mono places _ _ want wst hcl hw ?_ m1
  intro q hq x hx
  refine ⟨hpl q hq x hx, ?_⟩
  have := hall.2 q hq
  rw [hx] at this
  exact this

theorem mono_toT (w2 : Blk) (s2 : Strand) (hs2 : s2 = .plus ∨ s2 = .minus) (wst : Strand)
    (hw : wst ≠ .unstranded) (xs : List Nat) (hin : ∀ p ∈ xs, inW w2 p = true)
    (hm : if wst = .minus then Desc xs else Asc xs) :
    if compose wst s2 = .minus then Desc (xs.map (toT w2 s2)) else Asc (xs.map (toT w2 s2)) := by
  have hin' : ∀ p ∈ xs, w2.1 ≤ p ∧ p < w2.2 := by
    intro p hp; simpa [inW] using hin p hp
  have key : ∀ (R T : Nat → Nat → Prop), xs.Pairwise R →
      (∀ a b, w2.1 ≤ a ∧ a < w2.2 → w2.1 ≤ b ∧ b < w2.2 → R a b → T (toT w2 s2 a) (toT w2 s2 b)) →
      (xs.map (toT w2 s2)).Pairwise T := by
    intro R T hR hRT
    rw [List.pairwise_map]
    exact hR.imp_of_mem (fun {a b} ha hb hab => hRT a b (hin' a ha) (hin' b hb) hab)
  rcases hs2 with rfl | rfl <;> cases wst
  · simp only [reduceCtorEq, if_false, compose] at hm ⊢
    exact key _ _ hm (fun a b ha hb hab => by simp only [toT, reduceCtorEq, if_false]; omega)
  · simp only [if_true, compose] at hm ⊢
    exact key _ _ hm (fun a b ha hb hab => by simp only [toT, reduceCtorEq, if_false]; omega)
  · exact absurd rfl hw
  · simp only [reduceCtorEq, if_false, compose, if_true] at hm ⊢
    exact key _ _ hm (fun a b ha hb hab => by simp only [toT, if_true]; omega)
  · simp only [if_true, compose, reduceCtorEq, if_false] at hm ⊢
    exact key _ _ hm (fun a b ha hb hab => by simp only [toT, if_true]; omega)
  · exact absurd rfl hw

theorem blocks_ne_nil (m : Location) (hm : m ≠ .empty) (hwf : wfLocation m = true) : locationBlocks m ≠ [] := by
  cases m with
  | empty => exact absurd rfl hm
  | single b s => simp [locationBlocks]
  | compound l =>
    have : l.Canon := by simpa [wfLocation] using hwf
    exact this.1

theorem basesPlus_ne_nil (L : List Blk) (hne : L ≠ []) (hpos : ∀ x ∈ L, x.1 < x.2) : basesPlus L ≠ [] := by
  cases L with
  | nil => exact absurd rfl hne
  | cons b L =>
    have := hpos b (by simp)
    intro h
    have hm : b.1 ∈ basesPlus (b :: L) := (mem_basesPlus _ _).mpr ⟨b, by simp, Nat.le_refl _, this⟩
    rw [h] at hm; simp at hm

theorem fitsSeq_iff (l : Location) (n : Nat) : fitsSeq l n = true ↔ ∀ b ∈ locationBlocks l, b.2 ≤ n := by
  simp [fitsSeq, locBlocks_eq]

/-- second half of the call followed by the extraction -/
def stage (target : Target) (up : Location) : R (Location × List Char) := do
  let m ← placeOnTarget up target
  finishRelocate target m

theorem upOK_ne (c : Location) (places : List (Option Location)) (want : List Nat) (wst : Strand) (up : Location)
    (h : UpOK c places want wst up) : up ≠ .empty := by
  intro he
  have := h.st
  rw [he] at this
  simp [locationStrand?] at this

theorem filter_mono (wst : Strand) (xs : List Nat) (f : Nat → Bool)
    (h : if wst = .minus then Desc xs else Asc xs) :
    if wst = .minus then Desc (xs.filter f) else Asc (xs.filter f) := by
  split at h
  · rename_i hm; rw [if_pos hm]; exact List.Pairwise.filter _ h
  · rename_i hm; rw [if_neg hm]; exact List.Pairwise.filter _ h

theorem final_chunk (G : List Char) (w2 : Blk) (s2 : Strand) (hs2 : s2 = .plus ∨ s2 = .minus)
    (hwl : w2.1 < w2.2) (hG2 : w2.2 ≤ G.length) (seqB : List Char) (hlenB : seqB.length = w2.2 - w2.1)
    (hseqB : seqB = (bases ⟨[w2], s2⟩).map (rdAt G s2))
    (c : Location) (hc : WF c) (hce : c ≠ .empty) (places : List (Option Location))
    (hpl : ∀ q ∈ places, ∀ x, q = some x → WF x) (want : List Nat) (wst : Strand)
    (hcl : composeLevels (locationBases c) (strandOf c) places = some (want, wst))
    (up : Location) (hup : UpOK c places want wst up) :
    FinalOK G w2 s2 c places want wst (stage (.chunk w2 s2 seqB) up) := by
  have hupne := upOK_ne c places want wst up hup
  have hupWF : WF up := (wf_iff up).mpr hup.wf
  obtain ⟨m, hm, hcase⟩ := chunkDown_explicit up hupWF hupne w2 s2 hs2 hwl
  have hupv := wfLocation_valid up hup.wf
  have hupb := locationBases_eq up wst hup.st
  have hfilt : ((basesPlus (locationBlocks up)).filter (inW w2)).Perm (want.filter (inW w2)) := by
    refine List.Perm.filter _ ?_
    refine (bases_perm_basesPlus _ wst).symm.trans ?_
    rw [← hupb]; exact hup.perm
  have hhits := hits_bases w2 s2 hs2 hwl (locationBlocks up) hupv
  have hs2d : s2 ≠ .unstranded := by rcases hs2 with rfl | rfl <;> simp
  have hupb0 : (up == Location.empty) = false := by simpa using hupne
  rcases hcase with ⟨hnil, hme⟩ | ⟨hne, hmne, hmwf, hmst, hmperm⟩
  · right
    refine ⟨.empty, [], ?_, okFinal_empty _ _ _ _ _ _ _ _ ?_⟩
    · subst hme
      simp [stage, placeOnTarget, hupb0, hm, bind, Except.bind, finishRelocate, pure, Except.pure]
    · unfold hitsOf at hnil
      rw [hnil] at hhits
      simp only [List.map_nil, basesPlus] at hhits
      have h0 : (basesPlus (locationBlocks up)).filter (inW w2) = [] := by
        have := hhits.symm.eq_nil
        simpa using this
      rw [h0] at hfilt
      exact hfilt.symm.eq_nil
  · have hmem : ∀ r ∈ locationBlocks m, ∃ b ∈ locationBlocks up,
        max w2.1 b.1 < min w2.2 b.2 ∧ r = relBlk w2 s2 b := by
      intro r hr
      have := hmperm.mem_iff.mp hr
      obtain ⟨b, hb, rfl⟩ := List.mem_map.mp this
      unfold hitsOf at hb
      rw [List.mem_filter] at hb
      exact ⟨b, hb.1, ((overlapKernel_iff w2 b).mp hb.2).2.2, rfl⟩
    have hfit : ∀ r ∈ locationBlocks m, r.2 ≤ w2.2 - w2.1 := by
      intro r hr
      obtain ⟨b, _, hov, rfl⟩ := hmem r hr
      exact (relBlk_props w2 s2 b hov).2
    have hpos : ∀ r ∈ locationBlocks m, r.1 < r.2 := by
      intro r hr
      obtain ⟨b, _, hov, rfl⟩ := hmem r hr
      exact relBlk_pos w2 s2 b hov
    have hP1 : (basesPlus (locationBlocks m)).Perm ((want.filter (inW w2)).map (toT w2 s2)) :=
      (basesPlus_perm hmperm).trans (hhits.trans (hfilt.map _))
    have hmb : (m == Location.empty) = false := by simpa using hmne
    have hfits : fitsSeq m seqB.length = true := by
      rw [fitsSeq_iff, hlenB]; exact hfit
    have hplace : placeOnTarget up (.chunk w2 s2 seqB) = .ok m := by
      simp [placeOnTarget, hupb0, hm, bind, Except.bind, hfits, pure, Except.pure]
    by_cases hwu : wst = .unstranded
    · left
      refine ⟨hwu, ?_⟩
      have hst' : locationStrand? m = some .unstranded := by
        rw [hmst, strandOf_of up wst hup.st, hwu, compose_unstranded_left]
      have := readLocation_unstranded seqB m hst'
      obtain ⟨e, he⟩ := (ans_none_iff _).mp this
      simp [stage, hplace, bind, Except.bind, finishRelocate, hmb, Target.seq, he]
    · right
      have hmst' : locationStrand? m = some (compose wst s2) := by
        rw [hmst, strandOf_of up wst hup.st]
      have hdir : compose wst s2 ≠ .unstranded := compose_dir _ _ hwu hs2d
      have hex := readLocation_eq seqB m _ hmst' hdir (by rw [hlenB]; exact hfit)
      refine ⟨m, (locationBases m).map (rdAt seqB (compose wst s2)), ?_, ?_⟩
      · simp [stage, hplace, bind, Except.bind, finishRelocate, hmb, Target.seq, hex, pure, Except.pure]
      · have hbne : basesPlus (locationBlocks m) ≠ [] :=
          basesPlus_ne_nil _ (blocks_ne_nil m hmne hmwf) hpos
        have hEne : want.filter (inW w2) ≠ [] := by
          intro h
          rw [h] at hP1
          exact hbne (by simpa using hP1.eq_nil)
        have hmbases := locationBases_eq m _ hmst'
        refine okFinal_loc G w2 s2 c places want wst m _ hEne hmne hmwf hmst' ?_ ?_ hfit
        · rw [hmbases]
          exact (bases_perm_basesPlus _ _).trans hP1
        · intro hall hw hcs
          have mw := want_mono c hc hce places hpl want wst hcl hall hw
          have mf := filter_mono wst want (inW w2) mw
          have mt := mono_toT w2 s2 hs2 wst hw (want.filter (inW w2))
            (fun p hp => (List.mem_filter.mp hp).2) mf
          have hE := (exact_of_perm m _ hmst' hmwf hpos _ hP1 mt).1
          refine ⟨hE, ?_⟩
          have hin : ∀ i ∈ want.filter (inW w2), i < G.length := by
            intro i hi
            have := (List.mem_filter.mp hi).2
            simp only [inW, Bool.and_eq_true, decide_eq_true_eq] at this
            omega
          rw [readSeq_eq G _ wst hin, hE, List.map_map]
          congr 1
          apply List.map_congr_left
          intro p hp
          have := (List.mem_filter.mp hp).2
          simp only [inW, Bool.and_eq_true, decide_eq_true_eq] at this
          rw [Function.comp_apply, hseqB]
          exact (rdAt_chunk G w2 s2 hs2d wst hw p this.1 this.2).symm

theorem final_chrom (G : List Char)
    (c : Location) (places : List (Option Location)) (want : List Nat) (wst : Strand)
    (up : Location) (hup : UpOK c places want wst up)
    (hpos : ∀ x ∈ locationBlocks up, x.1 < x.2) (hin : ∀ p ∈ want, p < G.length) :
    FinalOK G (0, G.length) .plus c places want wst (stage (.chrom G) up) := by
  have hupne := upOK_ne c places want wst up hup
  have hupb := locationBases_eq up wst hup.st
  have hbp : (basesPlus (locationBlocks up)).Perm want := by
    refine (bases_perm_basesPlus _ wst).symm.trans ?_
    rw [← hupb]; exact hup.perm
  have hfit : ∀ r ∈ locationBlocks up, r.2 ≤ G.length := by
    intro r hr
    have h1 := hpos r hr
    have h2 : r.2 - 1 ∈ basesPlus (locationBlocks up) := (mem_basesPlus _ _).mpr ⟨r, hr, by omega, by omega⟩
    have := hin _ (hbp.mem_iff.mp h2)
    omega
  have hfits : fitsSeq up G.length = true := (fitsSeq_iff _ _).mpr hfit
  have hb : (up == Location.empty) = false := by simpa using hupne
  have hplace : placeOnTarget up (.chrom G) = .ok up := by
    simp [placeOnTarget, hb, hfits, pure, Except.pure]
  by_cases hwu : wst = .unstranded
  · left
    refine ⟨hwu, ?_⟩
    have := readLocation_unstranded G up (by rw [hup.st, hwu])
    obtain ⟨e, he⟩ := (ans_none_iff _).mp this
    simp [stage, hplace, bind, Except.bind, finishRelocate, hb, Target.seq, he]
  · right
    have hex := readLocation_eq G up wst hup.st hwu hfit
    refine ⟨up, (locationBases up).map (rdAt G wst), ?_, ?_⟩
    · simp [stage, hplace, bind, Except.bind, finishRelocate, hb, Target.seq, hex, pure, Except.pure]
    · have hins : want.filter (inW (0, G.length)) = want := by
        rw [List.filter_eq_self]
        intro p hp
        have := hin p hp
        simp [inW, this]
      have hmap : want.map (toT (0, G.length) .plus) = want := by
        have : ∀ p ∈ want, toT (0, G.length) .plus p = id p := by intro p _; simp [toT]
        rw [List.map_congr_left this, List.map_id]
      have hwne : want ≠ [] := by
        intro h
        rw [h] at hbp
        exact basesPlus_ne_nil _ (blocks_ne_nil up hupne hup.wf) hpos hbp.eq_nil
      refine okFinal_loc G (0, G.length) .plus c places want wst up _ (by rw [hins]; exact hwne) hupne hup.wf
        (by rw [compose_plus_right]; exact hup.st) (by rw [hins, hmap]; exact hup.perm) ?_
        (by intro r hr; simpa using hfit r hr)
      intro hall hw _
      have he := hup.exact hall hw
      rw [hins, hmap]
      exact ⟨he, by rw [readSeq_eq G want wst hin, he]⟩

/-! ### G. the way up on the chains of `relocate`, and the assembly -/

structure UpFacts (c : Location) (ch : Chain) (places : List (Option Location)) : Prop where
  anc1 : hasAncestorOfType tSeqChunk ch = true
  anc2 : hasAncestorOfType tChromosome ch = true
  lifted : LiftedProp c places (ans (Prod.fst <$> liftToType tChromosome c ch))
  pos : ∀ r, liftToType tChromosome c ch = .ok r → ∀ x ∈ locationBlocks r.1, x.1 < x.2

theorem liftBackUp_eq (c : Location) (ch : Chain) (hce : c ≠ .empty) (h1 : hasAncestorOfType tSeqChunk ch = true)
    (h2 : hasAncestorOfType tChromosome ch = true) :
    liftBackUp c ch = Prod.fst <$> liftToType tChromosome c ch := by
  have hb : (c != Location.empty) = true := by simpa using hce
  unfold liftBackUp
  simp only [hb, h1, Bool.and_self, if_true, h2, not_true, if_false]
  cases liftToType tChromosome c ch <;> rfl

theorem upFacts2 (c : Location) (hc : WF c) (hce : c ≠ .empty) (seqA : List Char) (w1 : Blk) (s1 : Strand)
    (hw1 : w1.1 ≤ w1.2) : UpFacts c [chunkLevel seqA none, chrLevel w1 s1] (placesOf none w1 s1) := by
  have hch : ChainWF [chunkLevel seqA none, chrLevel w1 s1] := by
    intro l hl p hp
    simp only [List.mem_cons, List.not_mem_nil, or_false] at hl
    rcases hl with rfl | rfl
    · simp [chunkLevel] at hp
    · simp only [chrLevel, Option.some.injEq] at hp; subst hp; exact hw1
  have hft : findType tChromosome ([chunkLevel seqA none, chrLevel w1 s1].map toSLevel) = some 1 := by
    simp [findType, toSLevel, chunkLevel, chrLevel, beq_chunk_chrom]
  refine ⟨?_, ?_, ?_, ?_⟩
  · simp [hasAncestorOfType, chunkLevel]
  · simp [hasAncestorOfType, chrLevel]
  · have := liftToType_prop tChromosome _ c hc hce hch
    rw [hft] at this
    simpa [toSLevel, chunkLevel, chrLevel, placesOf] using this
  · intro r hr
    obtain ⟨_, p, m, hp, hm, hr'⟩ := liftToType_step tChromosome c _ _ _ r
      (by simp [chunkLevel, beq_chunk_chrom]) hr
    have hpe : p = .single w1 s1 := by simp only [chrLevel, Option.some.injEq] at hp; exact hp.symm
    subst hpe
    have := liftToType_hit tChromosome m _ _ r (by simp [chrLevel]) hr'
    rw [this]
    exact liftOnce_pos c (.single w1 s1) hw1 hce rfl m hm

theorem upFacts3 (c : Location) (hc : WF c) (hce : c ≠ .empty) (seqA q : List Char) (t : Location) (ht : WF t)
    (w1 : Blk) (s1 : Strand) (hw1 : w1.1 ≤ w1.2) :
    UpFacts c [txLevel q, chunkLevel seqA (some t), chrLevel w1 s1] (placesOf (some t) w1 s1) := by
  have hch : ChainWF [txLevel q, chunkLevel seqA (some t), chrLevel w1 s1] := by
    intro l hl p hp
    simp only [List.mem_cons, List.not_mem_nil, or_false] at hl
    rcases hl with rfl | rfl | rfl
    · simp [txLevel] at hp
    · simp only [chunkLevel, Option.some.injEq] at hp; subst hp; exact ht
    · simp only [chrLevel, Option.some.injEq] at hp; subst hp; exact hw1
  have hft : findType tChromosome ([txLevel q, chunkLevel seqA (some t), chrLevel w1 s1].map toSLevel) = some 2 := by
    simp [findType, toSLevel, txLevel, chunkLevel, chrLevel, beq_chunk_chrom, beq_tx_chrom]
  refine ⟨?_, ?_, ?_, ?_⟩
  · simp [hasAncestorOfType, chunkLevel]
  · simp [hasAncestorOfType, chrLevel]
  · have := liftToType_prop tChromosome _ c hc hce hch
    rw [hft] at this
    simpa [toSLevel, txLevel, chunkLevel, chrLevel, placesOf] using this
  · intro r hr
    obtain ⟨_, p1, m1, hp1, hm1, hr1⟩ := liftToType_step tChromosome c _ _ _ r
      (by simp [txLevel, beq_tx_chrom]) hr
    obtain ⟨hm1e, p, m, hp, hm, hr'⟩ := liftToType_step tChromosome m1 _ _ _ r
      (by simp [chunkLevel, beq_chunk_chrom]) hr1
    have hpe : p = .single w1 s1 := by simp only [chrLevel, Option.some.injEq] at hp; exact hp.symm
    subst hpe
    have := liftToType_hit tChromosome m _ _ r (by simp [chrLevel]) hr'
    rw [this]
    exact liftOnce_pos m1 (.single w1 s1) hw1 hm1e rfl m hm

section assembly
variable (G : List Char) (w1 : Blk) (s1 : Strand) (tx : Option Location) (c : Location)
  (tgt : Option (Blk × Strand))

theorem relocate_shared (ch : Chain) (target : Target)
    (hD : ¬ (w1.2 ≤ w1.1 ∨ (tgtWin G tgt).2 ≤ (tgtWin G tgt).1 ∨ tgtStrand tgt = Strand.unstranded))
    (hS1 : ¬ (G.length < w1.2 ∨ G.length < (tgtWin G tgt).2)) (hS2 : specS2 tx w1 = false)
    (hS3 : (locationBlocks c).any (fun r => specLen0 tx w1 < r.2) = false)
    (hup : c ≠ .empty → UpFacts c ch (placesOf tx w1 s1))
    (hempty : ans (placeOnTarget .empty target) = none)
    (hfinal : c ≠ .empty → ∀ up want wst,
        composeLevels (locationBases c) (strandOf c) (placesOf tx w1 s1) = some (want, wst) →
        UpOK c (placesOf tx w1 s1) want wst up → (∀ x ∈ locationBlocks up, x.1 < x.2) →
        FinalOK G (tgtWin G tgt) (tgtStrand tgt) c (placesOf tx w1 s1) want wst (stage target up)) :
    okRelocate G w1 s1 tx c tgt
      (ans (do let m ← liftoverToTarget c ch target; finishRelocate target m)) = true := by
  by_cases hce : c = .empty
  · subst hce
    have hl : liftBackUp .empty ch = .ok .empty := by simp [liftBackUp, pure, Except.pure]
    obtain ⟨e, he⟩ := (ans_none_iff _).mp hempty
    have hnone : ans (do let m ← liftoverToTarget .empty ch target; finishRelocate target m) = none := by
      simp [liftoverToTarget, hl, bind, Except.bind, he]
    rw [hnone]
    exact okRel_none G w1 s1 tx _ tgt (Or.inr (Or.inr (Or.inr (Or.inr (Or.inl rfl)))))
  have f := hup hce
  have hl := liftBackUp_eq c ch hce f.anc1 f.anc2
  have hlifted := f.lifted
  cases hr : liftToType tChromosome c ch with
  | error e =>
    have hnone : ans (do let m ← liftoverToTarget c ch target; finishRelocate target m) = none := by
      have e1 : (Prod.fst <$> (Except.error e : R (Location × Chain))) = Except.error e := rfl
      simp [liftoverToTarget, hl, hr, bind, Except.bind, e1]
    rw [hnone]
    rw [hr] at hlifted
    rcases hlifted with ⟨hnil, _⟩ | ⟨h1, h2⟩
    · exact okRel_none G w1 s1 tx c tgt (Or.inr (Or.inr (Or.inr (Or.inr (Or.inr (Or.inl hnil))))))
    · cases hcl : composeLevels (locationBases c) (strandOf c) (placesOf tx w1 s1) with
      | none => exact okRel_none G w1 s1 tx c tgt (Or.inr (Or.inr (Or.inr (Or.inr (Or.inr (Or.inr (Or.inl hcl)))))))
      | some ww =>
        obtain ⟨want, wst⟩ := ww
        obtain ⟨m, hm, _⟩ := h2 want wst hcl
        simp [ans_map] at hm
  | ok r =>
    rw [hr] at hlifted
    have hwhole : (do let m ← liftoverToTarget c ch target; finishRelocate target m) = stage target r.1 := by
      have e1 : (Prod.fst <$> (Except.ok r : R (Location × Chain))) = Except.ok r.1 := rfl
      simp [liftoverToTarget, hl, hr, bind, Except.bind, stage, e1]
    rw [hwhole]
    rcases hlifted with ⟨_, hnone⟩ | ⟨h1, h2⟩
    · simp [ans_map] at hnone
    · cases hcl : composeLevels (locationBases c) (strandOf c) (placesOf tx w1 s1) with
      | none => have := h1 hcl; simp [ans_map] at this
      | some ww =>
        obtain ⟨want, wst⟩ := ww
        obtain ⟨m, hm, hst, hwf, hperm, hexact⟩ := h2 want wst hcl
        have hme : r.1 = m := by simpa [ans_map] using hm
        have hupok : UpOK c (placesOf tx w1 s1) want wst r.1 := by
          rw [hme]; exact ⟨hwf, hst, hperm, hexact⟩
        rcases hfinal hce r.1 want wst hcl hupok (f.pos r hr) with ⟨hwu, hnone⟩ | ⟨m', letters, hok, hfin⟩
        · rw [hnone]
          subst hwu
          exact okRel_none G w1 s1 tx c tgt
            (Or.inr (Or.inr (Or.inr (Or.inr (Or.inr (Or.inr (Or.inr ⟨want, hcl⟩)))))))
        · rw [hok]
          exact okRel_some G w1 s1 tx c tgt m' letters want wst hD hS1 hS2 hS3 hce hcl hfin

/-- everything after the hierarchy is built -/
def relocRest (G : List Char) (c : Location) (tgt : Option (Blk × Strand)) (ch : Chain) (len0 : Nat) :
    R (Location × List Char) := do
  if ¬ fitsSeq c len0 then throw .InvalidPosition
  let target ← buildTarget G tgt
  let m ← liftoverToTarget c ch target
  finishRelocate target m

theorem relocate_eq : relocate G w1 s1 tx c tgt =
    (do let seqA ← cutChunk G w1 s1
        let lv ← buildLevels seqA w1 s1 tx
        relocRest G c tgt lv.1 lv.2) := rfl

theorem relocate_tail (hc : WF c) (ch : Chain) (len0 : Nat)
    (hD : ¬ (w1.2 ≤ w1.1 ∨ (tgtWin G tgt).2 ≤ (tgtWin G tgt).1 ∨ tgtStrand tgt = Strand.unstranded))
    (hG1 : w1.2 ≤ G.length) (hS2 : specS2 tx w1 = false) (hlen0 : len0 = specLen0 tx w1)
    (hpl : ∀ q ∈ placesOf tx w1 s1, ∀ x, q = some x → WF x)
    (hup : c ≠ .empty → UpFacts c ch (placesOf tx w1 s1)) :
    okRelocate G w1 s1 tx c tgt (ans (relocRest G c tgt ch len0)) = true := by
  by_cases hfit : fitsSeq c len0 = true
  · have hS3 : (locationBlocks c).any (fun r => specLen0 tx w1 < r.2) = false := by
      rw [Bool.eq_false_iff]
      intro hany
      rw [List.any_eq_true] at hany
      obtain ⟨r, hr, hlt⟩ := hany
      have := (fitsSeq_iff c len0).mp hfit r hr
      simp only [decide_eq_true_eq] at hlt
      omega
    have hrest : relocRest G c tgt ch len0 =
        (do let target ← buildTarget G tgt
            let m ← liftoverToTarget c ch target
            finishRelocate target m) := by
      simp [relocRest, hfit]
    rw [hrest]
    cases tgt with
    | none =>
      have hS1 : ¬ (G.length < w1.2 ∨ G.length < (tgtWin G none).2) := by
        simp only [tgtWin]; omega
      have hbt : buildTarget G none = .ok (.chrom G) := rfl
      simp only [hbt, bind, Except.bind]
      refine relocate_shared G w1 s1 tx c none ch (.chrom G) hD hS1 hS2 hS3 hup ?_ ?_
      · simp [placeOnTarget, throw, throwThe, MonadExceptOf.throw]
      · intro _ up want wst hcl hupok hpos
        refine final_chrom G c _ want wst up hupok hpos ?_
        intro p hp
        have := compose_places_mem tx w1 s1 _ _ want wst hcl p hp
        omega
    | some ws =>
      obtain ⟨w2, s2⟩ := ws
      simp only [tgtWin, tgtStrand] at hD
      have hwl : w2.1 < w2.2 := by omega
      have hs2 : s2 = .plus ∨ s2 = .minus := by
        cases s2 <;> simp at hD ⊢
      by_cases hG2 : G.length < w2.2
      · obtain ⟨e, he⟩ := (ans_none_iff _).mp (cutChunk_fail G w2 s2 hwl hG2)
        have : ans (do let target ← buildTarget G (some (w2, s2))
                       let m ← liftoverToTarget c ch target
                       finishRelocate target m) = none := by
          simp [buildTarget, he, bind, Except.bind]
        rw [this]
        exact okRel_none G w1 s1 tx c _ (Or.inr (Or.inl (by simpa [tgtWin] using hG2)))
      · obtain ⟨seqB, hB, hlenB, hseqB⟩ := cutChunk_ok G w2 s2 hwl (by omega)
        have hs2d : s2 ≠ .unstranded := by rcases hs2 with rfl | rfl <;> simp
        have hS1 : ¬ (G.length < w1.2 ∨ G.length < (tgtWin G (some (w2, s2))).2) := by
          simp only [tgtWin]; omega
        have hbt : buildTarget G (some (w2, s2)) = .ok (.chunk w2 s2 seqB) := by
          simp [buildTarget, hB, bind, Except.bind, pure, Except.pure]
        simp only [hbt, bind, Except.bind]
        refine relocate_shared G w1 s1 tx c (some (w2, s2)) ch (.chunk w2 s2 seqB)
          (by simpa [tgtWin, tgtStrand] using hD) hS1 hS2 hS3 hup ?_ ?_
        · simp [placeOnTarget, bind, Except.bind, throw, throwThe, MonadExceptOf.throw]
        · intro hce up want wst hcl hupok _
          exact final_chunk G w2 s2 hs2 hwl (by omega) seqB hlenB (hseqB hs2d) c hc hce _ hpl want wst hcl up hupok
  · have hthrow : ans (relocRest G c tgt ch len0) = none := by
      simp [relocRest, hfit, bind, Except.bind, throw, throwThe, MonadExceptOf.throw]
    rw [hthrow]
    refine okRel_none G w1 s1 tx c tgt (Or.inr (Or.inr (Or.inr (Or.inl ?_))))
    apply Classical.byContradiction
    intro hnot
    apply hfit
    rw [fitsSeq_iff]
    intro b hb
    apply Classical.byContradiction
    intro hlt
    apply hnot
    rw [List.any_eq_true]
    exact ⟨b, hb, by simp only [decide_eq_true_eq]; omega⟩

end assembly

theorem through_unstranded (t : Location) (xs : List Nat) (h : strandOf t = .unstranded) :
    throughPlacement t xs = none := by
  rw [throughPlacement_eq]
  cases hpl : toLoc t with
  | none => rfl
  | some pl =>
    obtain ⟨hpleq, _⟩ := toLoc_eq t pl hpl
    have : pl.strand = .unstranded := by rw [hpleq]; exact h
    simp [this]

theorem relocate_ok (G : List Char) (w1 : Blk) (s1 : Strand) (tx : Option Location) (c : Location)
    (tgt : Option (Blk × Strand)) (hc : WF c) (htx : ∀ t, tx = some t → WF t) :
    okRelocate G w1 s1 tx c tgt (ans (relocate G w1 s1 tx c tgt)) = true := by
  by_cases hD : (w1.2 ≤ w1.1 ∨ (tgtWin G tgt).2 ≤ (tgtWin G tgt).1 ∨ tgtStrand tgt = Strand.unstranded)
  · exact okRel_degenerate G w1 s1 tx c tgt _ hD
  have hw1 : w1.1 < w1.2 := by
    apply Classical.byContradiction
    intro h; exact hD (Or.inl (by omega))
  by_cases hG1 : G.length < w1.2
  · obtain ⟨e, he⟩ := (ans_none_iff _).mp (cutChunk_fail G w1 s1 hw1 hG1)
    have : ans (relocate G w1 s1 tx c tgt) = none := by
      rw [relocate_eq]; simp [he, bind, Except.bind]
    rw [this]
    exact okRel_none G w1 s1 tx c tgt (Or.inl hG1)
  obtain ⟨seqA, hA, hlenA, _⟩ := cutChunk_ok G w1 s1 hw1 (by omega)
  have hsingle : WF (.single w1 s1) := by show w1.1 ≤ w1.2; omega
  rw [relocate_eq, hA]
  simp only [bind, Except.bind]
  cases tx with
  | none =>
    have hb : buildLevels seqA w1 s1 none = .ok ([chunkLevel seqA none, chrLevel w1 s1], seqA.length) := rfl
    rw [hb]
    simp only []
    refine relocate_tail G w1 s1 none c tgt hc _ _ hD (by omega) rfl (by simp [specLen0, hlenA]) ?_
      (fun hce => upFacts2 c hc hce seqA w1 s1 (by omega))
    intro q hq x hx
    simp only [placesOf, List.nil_append, List.mem_singleton] at hq
    subst hq
    injection hx with hx
    subst hx
    exact hsingle
  | some t =>
    have ht := htx t rfl
    by_cases hte : t = .empty
    · subst hte
      have : buildLevels seqA w1 s1 (some .empty) = .error .EmptyLocation := by
        simp [buildLevels, throw, throwThe, MonadExceptOf.throw]
      rw [this]
      exact okRel_none G w1 s1 _ c tgt (Or.inr (Or.inr (Or.inl (by simp [specS2]))))
    have hteb : (t == Location.empty) = false := by simpa using hte
    by_cases hft : fitsSeq t seqA.length = true
    · have hS2 : specS2 (some t) w1 = false := by
        simp only [specS2, hteb, Bool.false_or]
        rw [Bool.eq_false_iff]
        intro hany
        rw [List.any_eq_true] at hany
        obtain ⟨r, hr, hlt⟩ := hany
        have := (fitsSeq_iff t seqA.length).mp hft r hr
        simp only [decide_eq_true_eq] at hlt
        omega
      by_cases htu : strandOf t = .unstranded
      · have hst : locationStrand? t = some .unstranded := by
          rw [locationStrand_of_ne t hte, htu]
        obtain ⟨e, he⟩ := (ans_none_iff _).mp (readLocation_unstranded seqA t hst)
        have : buildLevels seqA w1 s1 (some t) = .error e := by
          simp [buildLevels, hteb, hft, he, bind, Except.bind]
        rw [this]
        refine okRel_none G w1 s1 _ c tgt (Or.inr (Or.inr (Or.inr (Or.inr (Or.inr (Or.inr (Or.inl ?_)))))))
        simp [placesOf, composeLevels, through_unstranded t _ htu]
      · have hex := readLocation_eq seqA t _ (locationStrand_of_ne t hte) htu ((fitsSeq_iff t _).mp hft)
        have hb : buildLevels seqA w1 s1 (some t) =
            .ok ([txLevel ((locationBases t).map (rdAt seqA (strandOf t))), chunkLevel seqA (some t),
              chrLevel w1 s1], ((locationBases t).map (rdAt seqA (strandOf t))).length) := by
          simp [buildLevels, hteb, hft, hex, bind, Except.bind, pure, Except.pure]
        rw [hb]
        simp only []
        refine relocate_tail G w1 s1 (some t) c tgt hc _ _ hD (by omega) hS2 (by simp [specLen0]) ?_
          (fun hce => upFacts3 c hc hce seqA _ t ht w1 s1 (by omega))
        intro q hq x hx
        simp only [placesOf, List.cons_append, List.nil_append, List.mem_cons, List.not_mem_nil, or_false] at hq
        rcases hq with rfl | rfl
        · injection hx with hx; subst hx; exact ht
        · injection hx with hx; subst hx; exact hsingle
    · have : buildLevels seqA w1 s1 (some t) = .error .InvalidPosition := by
        simp [buildLevels, hteb, hft, throw, throwThe, MonadExceptOf.throw]
      rw [this]
      refine okRel_none G w1 s1 _ c tgt (Or.inr (Or.inr (Or.inl ?_)))
      simp only [specS2, hteb, Bool.false_or]
      apply Classical.byContradiction
      intro hnot
      apply hft
      rw [fitsSeq_iff]
      intro b hb
      apply Classical.byContradiction
      intro hlt
      apply hnot
      rw [List.any_eq_true]
      exact ⟨b, hb, by simp only [decide_eq_true_eq]; omega⟩

end BioCantor.Proofs.Reloc
