/-
  C06 groundwork: the tie between a modelled transcript and its spec view, list facts about
  first-occurrence search in duplicate-free lists, and the two facts about `bases` that C01 did not
  need — membership is coverage, and a non-overlapping layout visits no position twice.
-/
import BioCantor.Proofs.PointMaps
import BioCantor.Proofs.RelInterval
import BioCantor.Proofs.RelToBasics
import BioCantor.Proofs.RelativeTo
import BioCantor.Spec.Transcript
import BioCantor.Model.Transcript
namespace BioCantor.Proofs
open BioCantor BioCantor.Spec BioCantor.Model

/-- the spec view of a modelled transcript: the same two block lists -/
def specOf (t : Transcript) : TxSpec := ⟨t.exons, t.cds, t.plen⟩

/-- what `mkTranscript` establishes: both locations are as `CompoundInterval.__init__` leaves them,
    on the same strand -/
structure WFT (t : Transcript) : Prop where
  exons : t.exons.Canon
  cds : ∀ d, t.cds = some d → d.Canon ∧ d.strand = t.exons.strand

theorem ans_bind {α β} (x : R α) (f : α → R β) : ans (x >>= f) = (ans x).bind (fun a => ans (f a)) := by
  cases x <;> rfl

/-! ### first-occurrence search -/

theorem idxOf?_eq_none_iff (p : Nat) (xs : List Nat) : idxOf? p xs = none ↔ p ∉ xs := by
  induction xs with
  | nil => simp [idxOf?]
  | cons x xs ih =>
    simp only [idxOf?, List.mem_cons, not_or]
    by_cases hx : x = p
    · simp [hx]
    · simp only [hx, if_false, Option.map_eq_none_iff, ih]
      constructor
      · intro h; exact ⟨fun e => hx e.symm, h⟩
      · intro h; exact h.2

theorem idxOf?_isSome_iff (p : Nat) (xs : List Nat) : (idxOf? p xs).isSome = true ↔ p ∈ xs := by
  cases h : idxOf? p xs with
  | none => simp [(idxOf?_eq_none_iff p xs).1 h]
  | some i =>
    simp only [Option.isSome_some, true_iff]
    exact Classical.byContradiction fun hn => by
      have := (idxOf?_eq_none_iff p xs).2 hn
      rw [h] at this; cases this

theorem idxOf?_lt (p : Nat) (xs : List Nat) (i : Nat) (h : idxOf? p xs = some i) : i < xs.length := by
  have := getElem?_of_idxOf? p xs i h
  exact (List.getElem?_eq_some_iff.1 this).1

/-- in a duplicate-free list the first occurrence is the only one (explicit-argument form of
    `idxOf?_of_getElem?`) -/
theorem idxOf?_nodup (p : Nat) (xs : List Nat) (hn : xs.Nodup) (i : Nat) (h : xs[i]? = some p) :
    idxOf? p xs = some i := idxOf?_of_getElem? hn h

/-! ### membership in `bases` is coverage -/

theorem mem_bases_loc (p : Nat) (l : Loc) : p ∈ bases l ↔ covers l p = true := by
  obtain ⟨bs, st⟩ := l
  exact mem_bases

/-! ### a non-overlapping layout visits no position twice -/

theorem nodup_bases (l : Loc) (hv : blocksValid l.blocks = true) (hno : l.NonOverlap) : (bases l).Nodup := by
  obtain ⟨bs, st⟩ := l
  have hp := nonOverlap_pairwise bs ((blocksValid_iff bs).1 hv) hno
  have hs : (basesPlus bs).Pairwise (· < ·) := basesPlus_sorted hp
  have hn : (basesPlus bs).Nodup := hs.imp (fun h => Nat.ne_of_lt h)
  rw [bases_mk]
  split
  · unfold List.Nodup; rw [List.pairwise_reverse]; exact hn.imp (fun h => fun e => h e.symm)
  · exact hn

/-! ### spec lookups restated on `Nat` -/

theorem posIdx_eq (l : Loc) (p : Int) : posIdx l p = expectP2R (.compound l) p := by
  unfold posIdx expectP2R toLoc; rfl

theorem posAt_eq (l : Loc) (r : Int) : posAt l r = expectR2P (.compound l) r := by
  unfold posAt expectR2P toLoc; rfl

theorem posAt_some (l : Loc) (hd : l.strand ≠ .unstranded) (r p : Int) (h : posAt l r = some p) :
    0 ≤ r ∧ 0 ≤ p ∧ (bases l)[r.toNat]? = some p.toNat := by
  unfold posAt at h
  simp only [hd, if_false] at h
  by_cases hr : r < 0
  · simp [hr] at h
  · simp only [hr, if_false] at h
    cases hq : (bases l)[r.toNat]? with
    | none => simp [hq] at h
    | some q => simp [hq] at h; subst h; simp; omega

theorem posIdx_some (l : Loc) (hd : l.strand ≠ .unstranded) (p r : Int) (h : posIdx l p = some r) :
    0 ≤ p ∧ 0 ≤ r ∧ idxOf? p.toNat (bases l) = some r.toNat := by
  unfold posIdx at h
  simp only [hd, if_false] at h
  by_cases hp : p < 0
  · simp [hp] at h
  · simp only [hp, if_false] at h
    cases hq : idxOf? p.toNat (bases l) with
    | none => simp [hq] at h
    | some q => simp [hq] at h; subst h; simp; omega

theorem posAt_of (l : Loc) (hd : l.strand ≠ .unstranded) (r p : Nat) (h : (bases l)[r]? = some p) :
    posAt l r = some (p : Int) := by
  unfold posAt; simp [hd, h]

theorem posIdx_of (l : Loc) (hd : l.strand ≠ .unstranded) (p r : Nat) (h : idxOf? p (bases l) = some r) :
    posIdx l p = some (r : Int) := by
  unfold posIdx; simp [hd, h]

end BioCantor.Proofs
