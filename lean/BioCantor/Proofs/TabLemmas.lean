/- Generic lemmas about association lists, used to lift `decide`d checks over a table's own entries to
   statements about EVERY key (C15). -/
import BioCantor.GenPrelude
namespace BioCantor.Proofs.Tab

theorem lookup_mem {κ ν} [BEq κ] [LawfulBEq κ] (t : List (κ × ν)) (k : κ) (v : ν)
    (h : t.lookup k = some v) : (k, v) ∈ t := by
  induction t with
  | nil => simp [List.lookup] at h
  | cons p ps ih =>
    obtain ⟨a, b⟩ := p
    simp only [List.lookup] at h
    by_cases hk : (k == a) = true
    · simp only [hk] at h
      have : k = a := by simpa using hk
      cases h; subst this; exact List.mem_cons_self
    · have hk' : (k == a) = false := by simpa using hk
      simp only [hk'] at h
      exact List.mem_cons_of_mem _ (ih h)

/-- two association lists that find each other's entries agree on every key -/
theorem lookup_congr {κ ν} [BEq κ] [LawfulBEq κ] (t1 t2 : List (κ × ν))
    (h12 : ∀ p ∈ t1, t2.lookup p.1 = some p.2) (h21 : ∀ p ∈ t2, t1.lookup p.1 = some p.2) (k : κ) :
    t1.lookup k = t2.lookup k := by
  cases h1 : t1.lookup k with
  | some v => exact (h12 _ (lookup_mem t1 k v h1)).symm
  | none =>
    cases h2 : t2.lookup k with
    | none => rfl
    | some v =>
      have := h21 _ (lookup_mem t2 k v h2)
      simp only at this
      rw [h1] at this; cases this

theorem all_of_mem {α} (xs : List α) (p : α → Bool) (h : xs.all p = true) (x : α) (hx : x ∈ xs) : p x = true :=
  (List.all_eq_true.1 h) x hx

/-- mutual containment (decidable) gives equal membership for every element -/
theorem mem_iff_of_all {α} [BEq α] [LawfulBEq α] (xs ys : List α)
    (h1 : xs.all (fun x => ys.contains x) = true) (h2 : ys.all (fun y => xs.contains y) = true) (c : α) :
    c ∈ xs ↔ c ∈ ys := by
  constructor
  · intro h; simpa using all_of_mem _ _ h1 c h
  · intro h; simpa using all_of_mem _ _ h2 c h

theorem lookup_none_of_not_mem_keys {κ ν} [BEq κ] [LawfulBEq κ] (t : List (κ × ν)) (k : κ)
    (h : (t.map (·.1)).contains k = false) : t.lookup k = none := by
  cases hl : t.lookup k with
  | none => rfl
  | some v =>
    have hm := lookup_mem t k v hl
    have : k ∈ t.map (·.1) := List.mem_map.2 ⟨(k, v), hm, rfl⟩
    have : (t.map (·.1)).contains k = true := by simpa using this
    rw [h] at this; cases this

theorem lookup_isSome_keys {κ ν} [BEq κ] [LawfulBEq κ] (t : List (κ × ν)) (k : κ) :
    (t.lookup k).isSome = (t.map (·.1)).contains k := by
  induction t with
  | nil => simp [List.lookup]
  | cons p ps ih =>
    obtain ⟨a, b⟩ := p
    simp only [List.lookup, List.map_cons, List.contains_cons]
    by_cases hk : (k == a) = true
    · simp [hk]
    · have hk' : (k == a) = false := by simpa using hk
      simp only [hk', Bool.false_or]
      exact ih

theorem contains_congr {α} [BEq α] [LawfulBEq α] (xs ys : List α)
    (h1 : xs.all (fun x => ys.contains x) = true) (h2 : ys.all (fun y => xs.contains y) = true) (c : α) :
    xs.contains c = ys.contains c := by
  have := mem_iff_of_all xs ys h1 h2 c
  by_cases hx : c ∈ xs
  · have hy := this.1 hx
    simp [hx, hy]
  · have hy : ¬ c ∈ ys := fun h => hx (this.2 h)
    simp [hx, hy]

/-- observable answer of a generated kernel / table model: `some v` = returned, `none` = raised -/
def ansP {α} : GenP.PyR α → Option α
  | .ok a => some a
  | .error _ => none

@[simp] theorem ansP_ok {α} (a : α) : ansP (Except.ok a : GenP.PyR α) = some a := rfl
@[simp] theorem ansP_error {α} (e : GenP.PyExc) : ansP (Except.error e : GenP.PyR α) = none := rfl

end BioCantor.Proofs.Tab
