/-
  C20 helper lemmas, part 3: GeneInterval / FeatureIntervalCollection constructors against the reference predicates.
-/
import BioCantor.Proofs.AggPrimary
import BioCantor.Proofs.QualSets
namespace BioCantor.Proofs.Agg
open BioCantor BioCantor.Spec.Agg BioCantor.Model.Agg

theorem flaggedIdx_eq (cs : List Child) : flaggedIdx cs = (flaggedOf cs.zipIdx).map (·.2) := rfl

theorem mem_flagged {cs : List Child} {q : Child × Nat} (h : q ∈ flaggedOf cs.zipIdx) : cs[q.2]? = some q.1 := by
  unfold flaggedOf at h
  exact List.mem_zipIdx_iff_getElem?.mp (List.mem_filter.mp h).1

/-- what `_find_primary_feature` (repaired test) returns on a non-empty child list, in the vocabulary of the spec -/
theorem findPrimary_repaired (isTx : Bool) (cs : List Child) (hne : cs ≠ []) :
    (multiFlag cs = true ∧ ansA (findPrimary Rule.repaired isTx cs) = none) ∨
    (multiFlag cs = false ∧ ∃ p c, findPrimary Rule.repaired isTx cs = .ok (p, c) ∧ cs[p]? = some c ∧
      (match flaggedIdx cs with
       | [i] => p == i
       | _ => isArgmaxFirst (cs.map fun c => ((if isTx then c.cdsSize else 0), c.len)) p) = true) := by
  unfold findPrimary
  rw [flagScan_repaired]
  unfold multiFlag
  rw [flaggedIdx_eq]
  cases hfl : flaggedOf cs.zipIdx with
  | nil =>
    right
    refine ⟨by simp, ?_⟩
    obtain ⟨p, c, rest, hs, hc, ha⟩ := sort_head_spec (fun c => if isTx then c.cdsSize else 0) cs hne
    refine ⟨p, c, ?_, hc, ?_⟩
    · simp only [scanResult, bind, Except.bind, sizeRows_eq, hs]; rfl
    · simpa using ha
  | cons q rest =>
    cases rest with
    | nil =>
      right
      refine ⟨by simp, q.2, q.1, ?_, mem_flagged (by rw [hfl]; exact List.mem_cons_self), ?_⟩
      · simp only [scanResult, bind, Except.bind]; rfl
      · simp
    | cons q' rest' =>
      left
      refine ⟨by simp, ?_⟩
      simp only [scanResult, bind, Except.bind]; rfl

/-- as coded = repaired when no flagged child has length 0 -/
theorem findPrimary_coded (isTx : Bool) (cs : List Child)
    (h : ∀ c ∈ cs, c.primary = true → c.len ≠ 0) :
    findPrimary Rule.asCoded isTx cs = findPrimary Rule.repaired isTx cs := by
  unfold findPrimary
  rw [flagScan_coded cs.zipIdx none trivial]
  intro p hp hprim
  have hc : p.1 ∈ cs := List.fst_mem_of_mem_zipIdx hp
  have := h p.1 hc hprim
  simp [truthyChild, this]

theorem okSpan_cons (c : Child) (rest : List Child) :
    okSpan (c :: rest) (minFrom c.start (rest.map Child.start)) (maxFrom c.stop (rest.map Child.stop)) = true := by
  simp only [okSpan, List.map_cons, isMin_minFrom, isMax_maxFrom, Bool.and_self]

/-- MAIN LEMMA: GeneInterval (repaired flag test) -/
theorem gene_ok (cs : List Child) : okGene cs (ansA (mkGeneWith Rule.repaired cs)) = true := by
  cases cs with
  | nil => rfl
  | cons c rest =>
    have hne : (c :: rest) ≠ [] := List.cons_ne_nil _ _
    unfold okGene mkGeneWith
    rcases findPrimary_repaired true (c :: rest) hne with ⟨hm, he⟩ | ⟨hm, p, d, hf, hc, hp⟩
    · rw [hm]
      simp only [List.isEmpty_cons, Bool.false_or, if_true]
      cases hfp : findPrimary Rule.repaired true (c :: rest) with
      | error e => rfl
      | ok v => rw [hfp] at he; cases he
    · rw [hm, hf]
      simp only [List.isEmpty_cons, Bool.or_self, Bool.false_eq_true, if_false, bind, Except.bind, pure, Except.pure,
        ansA_ok, okSpan_cons, beq_self_eq_true, Bool.true_and, hc, Bool.and_true]
      unfold okPrimary
      have hk : ((c :: rest).map fun c => ((if true = true then c.cdsSize else 0), c.len)) = (c :: rest).map Child.key := by
        apply List.map_congr_left; intro x _; simp [Child.key]
      rw [hk] at hp
      exact hp

theorem gene_coded_eq (cs : List Child) (h : ∀ c ∈ cs, c.primary = true → c.len ≠ 0) :
    mkGeneWith Rule.asCoded cs = mkGeneWith Rule.repaired cs := by
  cases cs with
  | nil => rfl
  | cons c rest => unfold mkGeneWith; rw [findPrimary_coded true _ h]

/-! ### feature types -/

theorem typesFold_mem : ∀ (cs : List Child) (acc : List Str) (x : Str),
    x ∈ cs.foldl (fun acc c => BioCantor.Model.Qual.setUpdate acc c.types) acc ↔ x ∈ acc ∨ ∃ c ∈ cs, x ∈ c.types
  | [], acc, x => by simp
  | c :: rest, acc, x => by
    rw [List.foldl_cons, typesFold_mem rest, BioCantor.Proofs.Qual.setUpdate_mem]
    simp only [List.mem_cons, exists_eq_or_imp]
    constructor
    · rintro ((h | h) | h)
      · exact Or.inl h
      · exact Or.inr (Or.inl h)
      · exact Or.inr (Or.inr h)
    · rintro (h | h | h)
      · exact Or.inl (Or.inl h)
      · exact Or.inl (Or.inr h)
      · exact Or.inr h

theorem typesFold_nodup : ∀ (cs : List Child) (acc : List Str), acc.Nodup →
    (cs.foldl (fun acc c => BioCantor.Model.Qual.setUpdate acc c.types) acc).Nodup
  | [], _, h => h
  | c :: rest, acc, h => by
    rw [List.foldl_cons]
    exact typesFold_nodup rest _ (BioCantor.Proofs.Qual.setUpdate_nodup _ _ h)

theorem unionTypes_ok (cs : List Child) :
    Spec.Qual.sortedStrict (unionTypes cs) = true ∧ Spec.Qual.sameSet (unionTypes cs) (cs.flatMap Child.types) = true := by
  unfold unionTypes
  refine ⟨BioCantor.Proofs.Qual.sortedStrict_of_pairwise
    (BioCantor.Proofs.Qual.sortStrs_strict (typesFold_nodup cs [] List.nodup_nil)), ?_⟩
  rw [BioCantor.Proofs.Qual.sameSet_iff]
  intro x
  rw [BioCantor.Proofs.Qual.mem_sortStrs, typesFold_mem]
  simp only [List.not_mem_nil, false_or, List.mem_flatMap]

/-- MAIN LEMMA: FeatureIntervalCollection (repaired flag test) -/
theorem fcoll_ok (cs : List Child) : okFcoll cs (ansA (mkFcollWith Rule.repaired cs)) = true := by
  cases cs with
  | nil => rfl
  | cons c rest =>
    have hne : (c :: rest) ≠ [] := List.cons_ne_nil _ _
    unfold okFcoll mkFcollWith
    rcases findPrimary_repaired false (c :: rest) hne with ⟨hm, he⟩ | ⟨hm, p, d, hf, hc, hp⟩
    · rw [hm]
      simp only [List.isEmpty_cons, Bool.false_or, if_true]
      cases hfp : findPrimary Rule.repaired false (c :: rest) with
      | error e => rfl
      | ok v => rw [hfp] at he; cases he
    · rw [hm, hf]
      obtain ⟨ht1, ht2⟩ := unionTypes_ok (c :: rest)
      simp only [List.isEmpty_cons, Bool.or_self, Bool.false_eq_true, if_false, bind, Except.bind, pure, Except.pure,
        ansA_ok, okSpan_cons, Bool.true_and, ht1, ht2, Bool.and_true]
      unfold okPrimaryFeat
      have hk : ((c :: rest).map fun c => ((if false = true then c.cdsSize else 0), c.len)) = (c :: rest).map featKey := by
        apply List.map_congr_left; intro x _; simp [featKey]
      rw [hk] at hp
      exact hp

theorem fcoll_coded_eq (cs : List Child) (h : ∀ c ∈ cs, c.primary = true → c.len ≠ 0) :
    mkFcollWith Rule.asCoded cs = mkFcollWith Rule.repaired cs := by
  cases cs with
  | nil => rfl
  | cons c rest => unfold mkFcollWith; rw [findPrimary_coded false _ h]

/-! ### accessors -/

theorem okAccessors_accessors {α : Type} [DecidableEq α] (seq cdsSeq prot : Child → α) (p : Nat) (c : Child) :
    okAccessors seq cdsSeq prot c p (accessors seq cdsSeq prot (some (p, c))) = true := by
  unfold okAccessors accessors Child.coding
  cases h : c.cds <;> simp [h]

/-- `GeneInterval(transcripts)` + accessors (the flag test as it is in /repo): refused for an empty list or several
    flags; otherwise every accessor returns the value of the primary member -/
theorem geneAccessors_ok {α : Type} [DecidableEq α] (seq cdsSeq prot : Child → α) (cs : List Child) :
    (cs = [] ∨ multiFlag cs = true) ∧ ansA (geneAccessors seq cdsSeq prot cs) = none ∨
    ∃ p c a, geneAccessors seq cdsSeq prot cs = .ok a ∧ cs[p]? = some c ∧ okPrimary cs p = true ∧
      okAccessors seq cdsSeq prot c p a = true := by
  cases cs with
  | nil => exact Or.inl ⟨Or.inl rfl, rfl⟩
  | cons c0 rest =>
    have hne : (c0 :: rest) ≠ [] := List.cons_ne_nil _ _
    unfold geneAccessors
    have hcur : currentRule = Rule.repaired := rfl
    rw [hcur]
    rcases findPrimary_repaired true (c0 :: rest) hne with ⟨hm, he⟩ | ⟨hm, p, d, hf, hc, hp⟩
    · left
      refine ⟨Or.inr hm, ?_⟩
      cases hfp : findPrimary Rule.repaired true (c0 :: rest) with
      | error e => rfl
      | ok v => rw [hfp] at he; cases he
    · right
      refine ⟨p, d, _, by rw [hf]; rfl, hc, ?_, okAccessors_accessors seq cdsSeq prot p d⟩
      unfold okPrimary
      have hk : ((c0 :: rest).map fun c => ((if true = true then c.cdsSize else 0), c.len)) = (c0 :: rest).map Child.key := by
        apply List.map_congr_left; intro x _; simp [Child.key]
      rw [hk] at hp
      exact hp

end BioCantor.Proofs.Agg
