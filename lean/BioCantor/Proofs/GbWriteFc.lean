/-
  C12 — T1 for feature collections: the `misc_feature` record and the `feat_interval` records of the writer model.
-/
import BioCantor.Proofs.GbWriteTx
namespace BioCantor.Proofs.Gb
open BioCantor BioCantor.Spec.Qual BioCantor.Spec.Gb BioCantor.Model.Gb

theorem fcWF_facts (f : FColl) (h : fcWF f = true) :
    ∃ x0 xs, f.feats = x0 :: xs ∧ (∀ x ∈ f.feats, x.blocks ≠ [] ∧ Asc x.blocks) ∧ (∀ x ∈ f.feats, x.strand = x0.strand) := by
  unfold fcWF at h
  cases hf : f.feats with
  | nil => simp [hf] at h
  | cons x0 xs =>
    simp only [hf, Bool.and_eq_true, List.all_eq_true, beq_iff_eq, decide_eq_true_eq, Bool.not_eq_true',
      List.isEmpty_eq_false_iff] at h
    refine ⟨x0, xs, rfl, ?_, ?_⟩
    · intro x hx
      obtain ⟨⟨⟨_, hne⟩, hpos⟩, hno⟩ := h.1 x hx
      exact ⟨hne, hpos, hno⟩
    · intro x hx
      rcases List.mem_cons.mp hx with rfl | hx
      · rfl
      · exact h.2 x hx

theorem fcBounds_eq_span (f : FColl) (h : fcWF f = true) : ∃ sp, fcBounds f = some sp ∧ fcSpan f = some sp := by
  obtain ⟨x0, xs, hf, hasc, _⟩ := fcWF_facts f h
  have hfam : ∀ bs ∈ f.feats.map (·.blocks), bs ≠ [] ∧ Asc bs := by
    intro bs hbs
    obtain ⟨x, hx, rfl⟩ := List.mem_map.mp hbs
    exact hasc x hx
  have hne : f.feats.map (·.blocks) ≠ [] := by simp [hf]
  obtain ⟨s, srest, e, erest, hs, he, hspan⟩ := bounds_eq_span _ hne hfam
  rw [List.filterMap_map] at hs he
  refine ⟨(srest.foldl min s, erest.foldl max e), ?_, ?_⟩
  · unfold fcBounds
    have hs' : f.feats.filterMap (fun t => t.blocks.head?.map (·.1)) = s :: srest := hs
    have he' : f.feats.filterMap (fun t => t.blocks.getLast?.map (·.2)) = e :: erest := he
    simp only [hs', he']
  · unfold fcSpan
    rw [List.flatMap_def]
    exact hspan

theorem majority_of_fcWF (f : FColl) (h : fcWF f = true) (x : FeatI) (hx : x ∈ f.feats) :
    majorityStrand (f.feats.map (·.strand)) = some x.strand := by
  obtain ⟨x0, xs, hf, _, hst⟩ := fcWF_facts f h
  rw [hst x hx, hf, List.map_cons]
  apply majorityStrand_const
  intro y hy
  obtain ⟨x', hx', rfl⟩ := List.mem_map.mp hy
  exact hst x' (by rw [hf]; exact List.mem_cons_of_mem _ hx')

theorem fcSymbolOf_eq (f : FColl) : fcSymbolOf f = fcSymbolWritten f := by
  simp [fcSymbolOf, fcSymbolWritten, truthy_eq_set?]

theorem fcTagOf_eq (f : FColl) : fcTagOf f = fcTagWritten f := by
  simp [fcTagOf, fcTagWritten, truthy_eq_set?, fcSymbolOf_eq]

/-- a key set with `dictSet` after the export qualifiers does not disturb the other keys -/
theorem fcExportQuals_has (f : FColl) (k v : Str) (hk : k ≠ "feature_type".toList)
    (hmem : (k, some v) ∈ [("feature_collection_id".toList, set? f.id), ("feature_collection_name".toList, set? f.name)]) :
    v ∈ qualGet k (fcExportQuals f) := by
  unfold fcExportQuals
  have base : v ∈ qualGet k (addIds (importQuals f.quals)
      [("feature_collection_id".toList, f.id), ("feature_collection_name".toList, f.name),
       ("locus_tag".toList, f.locusTag), ("feature_collection_type".toList, f.type)]) := by
    apply addIds_has
    simp only [List.map_cons, List.map_nil, truthy_eq_set?, List.mem_cons, List.not_mem_nil, or_false] at hmem ⊢
    rcases hmem with h1 | h1
    · exact Or.inl h1
    · exact Or.inr (Or.inl h1)
  simp only []
  split
  · exact base
  · rw [qualGet_dictSet_other _ _ _ _ hk]; exact base

theorem qualGet_fcRec_tag (q0 : QDict) (sym : Option Str) (t : Str) :
    qualGet kLocusTag (fcRecQuals q0 sym (some t)) = [t] := by
  unfold fcRecQuals
  exact qualGet_dictSet_same _ _ _

theorem qualGet_fcRec_other (q0 : QDict) (sym tag : Option Str) (k : Str) (h1 : k ≠ "misc_feature".toList)
    (h2 : k ≠ "locus_tag".toList) : qualGet k (fcRecQuals q0 sym tag) = qualGet k q0 := by
  unfold fcRecQuals
  cases sym <;> cases tag <;> simp only [] <;>
    first
    | rfl
    | (rw [qualGet_dictSet_other _ _ _ _ h2, qualGet_dictSet_other _ _ _ _ h1])
    | (rw [qualGet_dictSet_other _ _ _ _ h2])
    | (rw [qualGet_dictSet_other _ _ _ _ h1])

theorem fcRecord_ids (strand : Strand) (bounds : Blk) (f : FColl) :
    idsOk (fcRecord strand bounds f).quals
      [(kFcId, set? f.id), (kFcName, set? f.name), (kLocusTag, fcTagWritten f)] = true := by
  have hq : (fcRecord strand bounds f).quals = fcRecQuals (fcExportQuals f) (fcSymbolOf f) (fcTagOf f) := rfl
  rw [hq]
  simp only [idsOk, List.all_cons, List.all_nil, Bool.and_true, Bool.and_eq_true]
  refine ⟨?_, ?_, ?_⟩
  · cases hv : set? f.id with
    | none => rfl
    | some v =>
      simp only [hasQual]
      rw [qualGet_fcRec_other _ _ _ _ (by decide) (by decide)]
      simpa using fcExportQuals_has f _ v (by decide) (by rw [← hv]; exact List.mem_cons_self)
  · cases hv : set? f.name with
    | none => rfl
    | some v =>
      simp only [hasQual]
      rw [qualGet_fcRec_other _ _ _ _ (by decide) (by decide)]
      simpa using fcExportQuals_has f _ v (by decide)
        (by rw [← hv]; exact List.mem_cons_of_mem _ List.mem_cons_self)
  · cases ht : fcTagWritten f with
    | none => rfl
    | some t =>
      simp only [hasQual]
      rw [fcTagOf_eq f, ht, qualGet_fcRec_tag]
      simp

theorem featExportQuals_has (x : FeatI) (k v : Str) (hk : k ≠ "feature_type".toList)
    (hmem : (k, some v) ∈ [("feature_name".toList, set? x.featName), ("feature_id".toList, set? x.featId)]) :
    v ∈ qualGet k (featExportQuals x) := by
  unfold featExportQuals
  have base : v ∈ qualGet k (addIds (importQuals x.quals)
      [("feature_name".toList, x.featName), ("feature_id".toList, x.featId)]) := by
    apply addIds_has
    simpa only [List.map_cons, List.map_nil, truthy_eq_set?] using hmem
  simp only []
  split
  · exact base
  · rw [qualGet_dictSet_other _ _ _ _ hk]; exact base

theorem featRecord_ids (cfg : Cfg) (strand : Strand) (name tag : Option Str) (x : FeatI) :
    idsOk (featRecord cfg strand name tag x).quals [(kFeatId, set? x.featId), (kFeatName, set? x.featName)] = true := by
  have hq : (featRecord cfg strand name tag x).quals = txBaseQuals (featExportQuals x) (truthy name) (truthy tag) := rfl
  rw [hq]
  simp only [idsOk, List.all_cons, List.all_nil, Bool.and_true, Bool.and_eq_true]
  refine ⟨?_, ?_⟩
  · cases hv : set? x.featId with
    | none => rfl
    | some v =>
      simp only [hasQual]
      rw [qualGet_txBase_other _ _ _ _ (by decide) (by decide)]
      simpa using featExportQuals_has x _ v (by decide)
        (by rw [← hv]; exact List.mem_cons_of_mem _ List.mem_cons_self)
  · cases hv : set? x.featName with
    | none => rfl
    | some v =>
      simp only [hasQual]
      rw [qualGet_txBase_other _ _ _ _ (by decide) (by decide)]
      simpa using featExportQuals_has x _ v (by decide) (by rw [← hv]; exact List.mem_cons_self)

/-- **T1, feature collections**: every structural clause of a well-formed feature collection holds -/
theorem fc_struct_ok (cfg : Cfg) (c : Coll) (rs : List Rec) (h : writeModel cfg c = .ok rs)
    (f : FColl) (hf : Item.fcoll f ∈ c.items) (hwf : fcWF f = true) : fcClauses rs f = [] := by
  obtain ⟨ri, hri, hsub⟩ := writeModel_item cfg c rs h _ hf
  obtain ⟨strand, bounds, hm, hb, hshape⟩ := fcToFeatures_shape cfg f ri hri
  obtain ⟨x0, xs, hfe, _, _⟩ := fcWF_facts f hwf
  obtain ⟨sp, hb', hsp⟩ := fcBounds_eq_span f hwf
  have hstrand : ∀ x ∈ f.feats, x.strand = strand := by
    intro x hx
    have := majority_of_fcWF f hwf x hx
    rw [hm] at this
    exact (Option.some.inj this).symm
  have hbounds : bounds = sp := by rw [hb] at hb'; exact Option.some.inj hb'
  unfold fcClauses
  have hh : f.feats.head? = some x0 := by simp [hfe]
  rw [hh, hsp]
  simp only []
  have hfc : hasRecord rs sMiscFeature x0.strand [sp]
      [(kFcId, set? f.id), (kFcName, set? f.name), (kLocusTag, fcTagWritten f)] = true := by
    apply hasRecord_of_mem rs (fcRecord strand bounds f) (hsub _ (by rw [hshape]; exact List.mem_cons_self))
    · rfl
    · exact (hstrand x0 (by rw [hfe]; exact List.mem_cons_self)).symm
    · have : (fcRecord strand bounds f).parts = [sp] := by rw [← hbounds]; rfl
      rw [this]; exact sameBlocks_refl _
    · exact fcRecord_ids strand bounds f
  rw [need_nil _ _ _ _ _ _ hfc, List.nil_append]
  apply flatMap_eq_nil'
  intro x hx
  apply need_nil
  have hxs := hstrand x hx
  have hrec : featureToFeatures cfg strand (fcSymbolOf f) f.locusTag x =
      [featRecord cfg strand (fcSymbolOf f) f.locusTag x] := by
    unfold featureToFeatures
    rw [if_neg]
    intro hcon
    exact hcon.1 hxs
  have hmem : featRecord cfg strand (fcSymbolOf f) f.locusTag x ∈ rs :=
    hsub _ (by
      rw [hshape]
      exact List.mem_cons_of_mem _ (List.mem_flatMap.mpr ⟨x, hx, by rw [hrec]; exact List.mem_cons_self⟩))
  apply hasRecord_of_mem rs _ hmem
  · rfl
  · exact hxs.symm
  · exact sameBlocks_parts _ _ _
  · exact featRecord_ids cfg strand _ _ x

end BioCantor.Proofs.Gb
