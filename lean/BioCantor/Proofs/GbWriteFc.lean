/-
  C12 — T1 for feature collections: the `misc_feature` record and the `feat_interval` records of the writer model.
-/
import BioCantor.Proofs.GbWriteTx
namespace BioCantor.Proofs.Gb
open BioCantor BioCantor.Spec.Qual BioCantor.Spec.Gb BioCantor.Model.Gb

theorem fcWF_facts (f : FColl) (h : fcWF f = true) :
    ∃ x0 xs, f.feats = x0 :: xs ∧ (∀ x ∈ f.feats, x.blocks ≠ [] ∧ Asc x.blocks) ∧ (∀ x ∈ f.feats, x.strand = x0.strand) := by
  unfold fcWF at h
  cases hf : f.feats with
  | nil => simp [hf] at h
  | cons x0 xs =>
    simp only [hf, Bool.and_eq_true, List.all_eq_true, beq_iff_eq, decide_eq_true_eq, Bool.not_eq_true',
      List.isEmpty_eq_false_iff] at h
    refine ⟨x0, xs, rfl, ?_, ?_⟩
    · intro x hx
      obtain ⟨⟨⟨_, hne⟩, hpos⟩, hno⟩ := h.1 x hx
      exact ⟨hne, hpos, hno⟩
    · intro x hx
      rcases List.mem_cons.mp hx with rfl | hx
      · rfl
      · exact h.2 x hx

theorem fcBounds_eq_span (f : FColl) (h : fcWF f = true) : ∃ sp, fcBounds f = some sp ∧ fcSpan f = some sp := by
  obtain ⟨x0, xs, hf, hasc, _⟩ := fcWF_facts f h
  have hfam : ∀ bs ∈ f.feats.map (·.blocks), bs ≠ [] ∧ Asc bs := by
    intro bs hbs
    obtain ⟨x, hx, rfl⟩ := List.mem_map.mp hbs
    exact hasc x hx
  have hne : f.feats.map (·.blocks) ≠ [] := by simp [hf]
  obtain ⟨s, srest, e, erest, hs, he, hspan⟩ := bounds_eq_span _ hne hfam
  rw [List.filterMap_map] at hs he
  refine ⟨(srest.foldl min s, erest.foldl max e), ?_, ?_⟩
  · unfold fcBounds
    have hs' : f.feats.filterMap (fun t => t.blocks.head?.map (·.1)) = s :: srest := hs
    have he' : f.feats.filterMap (fun t => t.blocks.getLast?.map (·.2)) = e :: erest := he
    simp only [hs', he']
  · unfold fcSpan
    rw [List.flatMap_def]
    exact hspan

theorem majority_of_fcWF (f : FColl) (h : fcWF f = true) (x : FeatI) (hx : x ∈ f.feats) :
    majorityStrand (f.feats.map (·.strand)) = some x.strand := by
  obtain ⟨x0, xs, hf, _, hst⟩ := fcWF_facts f h
  rw [hst x hx, hf, List.map_cons]
  apply majorityStrand_const
  intro y hy
  obtain ⟨x', hx', rfl⟩ := List.mem_map.mp hy
  exact hst x' (by rw [hf]; exact List.mem_cons_of_mem _ hx')

theorem fcSymbolOf_eq (f : FColl) : fcSymbolOf f = fcSymbolWritten f := by
  simp [fcSymbolOf, fcSymbolWritten, truthy_eq_set?]

theorem fcTagOf_eq (f : FColl) : fcTagOf f = fcTagWritten f := by
  simp [fcTagOf, fcTagWritten, truthy_eq_set?, fcSymbolOf_eq]

/-- a key set with `dictSet` after the export qualifiers does not disturb the other keys -/
theorem fcExportQuals_has (f : FColl) (k v : Str) (hk : k ≠ "feature_type".toList)
    (hmem : (k, some v) ∈ [("feature_collection_id".toList, set? f.id), ("feature_collection_name".toList, set? f.name)]) :
    v ∈ qualGet k (fcExportQuals f) := by
  unfold fcExportQuals
  have base : v ∈ qualGet k (addIds (importQuals f.quals)
      [("feature_collection_id".toList, f.id), ("feature_collection_name".toList, f.name),
       ("locus_tag".toList, f.locusTag), ("feature_collection_type".toList, f.type)]) := by
    apply addIds_has
    simp only [List.map_cons, List.map_nil, truthy_eq_set?, List.mem_cons, List.not_mem_nil, or_false] at hmem ⊢
    rcases hmem with h1 | h1
    · exact Or.inl h1
    · exact Or.inr (Or.inl h1)
  simp only []
  split
  · exact base
  · rw [qualGet_dictSet_other _ _ _ _ hk]; exact base

theorem fcRecord_ids (strand : Strand) (bounds : Blk) (f : FColl) :
    idsOk (fcRecord strand bounds f).quals
      [(kFcId, set? f.id), (kFcName, set? f.name), (kLocusTag, fcTagWritten f)] = true := by
  simp only [idsOk, List.all_cons, List.all_nil, Bool.and_true, Bool.and_eq_true, fcRecord]
  have hother : ∀ (k : Str), k ≠ "misc_feature".toList → k ≠ "locus_tag".toList →
      qualGet k (match fcTagOf f with
        | some s => dictSet (match fcSymbolOf f with
            | some s => dictSet (fcExportQuals f) "misc_feature".toList [s] | none => fcExportQuals f)
            "locus_tag".toList [s]
        | none => (match fcSymbolOf f with
            | some s => dictSet (fcExportQuals f) "misc_feature".toList [s] | none => fcExportQuals f)) =
      qualGet k (fcExportQuals f) := by
    intro k h1 h2
    cases fcTagOf f <;> cases fcSymbolOf f <;> simp only [] <;>
      first
      | rfl
      | (rw [qualGet_dictSet_other _ _ _ _ h2, qualGet_dictSet_other _ _ _ _ h1])
      | (rw [qualGet_dictSet_other _ _ _ _ h2])
      | (rw [qualGet_dictSet_other _ _ _ _ h1])
  refine ⟨?_, ?_, ?_⟩
  · cases hv : set? f.id with
    | none => rfl
    | some v =>
      simp only [hasQual]
      rw [hother _ (by decide) (by decide)]
      simpa using fcExportQuals_has f _ v (by decide) (by rw [← hv]; exact List.mem_cons_self)
  · cases hv : set? f.name with
    | none => rfl
    | some v =>
      simp only [hasQual]
      rw [hother _ (by decide) (by decide)]
      simpa using fcExportQuals_has f _ v (by decide)
        (by rw [← hv]; exact List.mem_cons_of_mem _ List.mem_cons_self)
  · cases ht : fcTagWritten f with
    | none => rfl
    | some t =>
      simp only [hasQual]
      rw [fcTagOf_eq f, ht]
      simp only []
      rw [show kLocusTag = "locus_tag".toList from rfl, qualGet_dictSet_same]
      simp

theorem featExportQuals_has (x : FeatI) (k v : Str) (hk : k ≠ "feature_type".toList)
    (hmem : (k, some v) ∈ [("feature_name".toList, set? x.featName), ("feature_id".toList, set? x.featId)]) :
    v ∈ qualGet k (featExportQuals x) := by
  unfold featExportQuals
  have base : v ∈ qualGet k (addIds (importQuals x.quals)
      [("feature_name".toList, x.featName), ("feature_id".toList, x.featId)]) := by
    apply addIds_has
    simpa only [List.map_cons, List.map_nil, truthy_eq_set?] using hmem
  simp only []
  split
  · exact base
  · rw [qualGet_dictSet_other _ _ _ _ hk]; exact base

/-- **T1, feature collections**: every structural clause of a well-formed feature collection holds -/
theorem fc_struct_ok (cfg : Cfg) (c : Coll) (rs : List Rec) (h : writeModel cfg c = .ok rs)
    (f : FColl) (hf : Item.fcoll f ∈ c.items) (hwf : fcWF f = true) : fcClauses rs f = [] := by
  obtain ⟨ri, hri, hsub⟩ := writeModel_item cfg c rs h _ hf
  obtain ⟨strand, bounds, hm, hb, hshape⟩ := fcToFeatures_shape cfg f ri hri
  obtain ⟨x0, xs, hfe, _, _⟩ := fcWF_facts f hwf
  obtain ⟨sp, hb', hsp⟩ := fcBounds_eq_span f hwf
  have hstrand : ∀ x ∈ f.feats, x.strand = strand := by
    intro x hx
    have := majority_of_fcWF f hwf x hx
    rw [hm] at this
    exact (Option.some.inj this).symm
  have hbounds : bounds = sp := by rw [hb] at hb'; exact Option.some.inj hb'
  unfold fcClauses
  have hh : f.feats.head? = some x0 := by simp [hfe]
  rw [hh, hsp]
  simp only []
  have hfc : hasRecord rs sMiscFeature x0.strand [sp]
      [(kFcId, set? f.id), (kFcName, set? f.name), (kLocusTag, fcTagWritten f)] = true := by
    apply hasRecord_of_mem rs (fcRecord strand bounds f) (hsub _ (by rw [hshape]; exact List.mem_cons_self))
    · rfl
    · exact (hstrand x0 (by rw [hfe]; exact List.mem_cons_self)).symm
    · simp only [fcRecord, hbounds]; exact sameBlocks_refl _
    · exact fcRecord_ids strand bounds f
  rw [need_nil _ _ _ _ _ _ hfc, List.nil_append]
  apply flatMap_eq_nil'
  intro x hx
  apply need_nil
  -- the record of feature interval `x`
  have hxs := hstrand x hx
  have hrec : featureToFeatures cfg strand (fcSymbolOf f) f.locusTag x =
      [{ type := "feat_interval".toList, strand := strand, parts := toBiopythonParts cfg.rule x.strand x.blocks,
         quals :=
           (match truthy f.locusTag with
            | some s => dictSet (match truthy (fcSymbolOf f) with
                | some s => dictSet (featExportQuals x) "gene".toList [s] | none => featExportQuals x)
                "locus_tag".toList [s]
            | none => (match truthy (fcSymbolOf f) with
                | some s => dictSet (featExportQuals x) "gene".toList [s] | none => featExportQuals x)) }] := by
    unfold featureToFeatures
    simp only [hxs, ne_eq, not_true_eq_false, false_and, if_false]
  have hmem : ∀ r ∈ featureToFeatures cfg strand (fcSymbolOf f) f.locusTag x, r ∈ rs := fun r hr =>
    hsub r (by rw [hshape]; exact List.mem_cons_of_mem _ (List.mem_flatMap.mpr ⟨x, hx, hr⟩))
  rw [hrec] at hmem
  apply hasRecord_of_mem rs _ (hmem _ List.mem_cons_self)
  · rfl
  · exact hxs.symm
  · exact sameBlocks_parts _ _ _
  · simp only [idsOk, List.all_cons, List.all_nil, Bool.and_true, Bool.and_eq_true]
    have hother : ∀ (k : Str), k ≠ "gene".toList → k ≠ "locus_tag".toList →
        qualGet k (match truthy f.locusTag with
            | some s => dictSet (match truthy (fcSymbolOf f) with
                | some s => dictSet (featExportQuals x) "gene".toList [s] | none => featExportQuals x)
                "locus_tag".toList [s]
            | none => (match truthy (fcSymbolOf f) with
                | some s => dictSet (featExportQuals x) "gene".toList [s] | none => featExportQuals x)) =
        qualGet k (featExportQuals x) := by
      intro k h1 h2
      cases truthy f.locusTag <;> cases truthy (fcSymbolOf f) <;> simp only [] <;>
        first
        | rfl
        | (rw [qualGet_dictSet_other _ _ _ _ h2, qualGet_dictSet_other _ _ _ _ h1])
        | (rw [qualGet_dictSet_other _ _ _ _ h2])
        | (rw [qualGet_dictSet_other _ _ _ _ h1])
    refine ⟨?_, ?_⟩
    · cases hv : set? x.featId with
      | none => rfl
      | some v =>
        simp only [hasQual]
        rw [hother _ (by decide) (by decide)]
        simpa using featExportQuals_has x _ v (by decide)
          (by rw [← hv]; exact List.mem_cons_of_mem _ List.mem_cons_self)
    · cases hv : set? x.featName with
      | none => rfl
      | some v =>
        simp only [hasQual]
        rw [hother _ (by decide) (by decide)]
        simpa using featExportQuals_has x _ v (by decide) (by rw [← hv]; exact List.mem_cons_self)

end BioCantor.Proofs.Gb
