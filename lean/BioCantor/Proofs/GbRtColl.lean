/-
  C12 — T3 at the level of the parsed gene models (any tag order) and T2 for whole collections.
-/
import BioCantor.Proofs.GbModesAny
import BioCantor.Proofs.GbMapM
import BioCantor.Proofs.GbGeneRt
namespace BioCantor.Proofs.Gb
open BioCantor BioCantor.Spec.Qual BioCantor.Spec.Gb BioCantor.Model BioCantor.Model.Gb

/-- the parse, once the groups are known -/
theorem parse_of_extract (rule : ParserRule) (m : Mode) (rs : List Rec) (gs : List GGroup)
    (he : extract m rs = .ok ⟨gs, 0⟩) :
    parseModelWith rule m rs =
      match mapMP convertGroup gs with
      | .error e => .error e
      | .ok genes => if genes.isEmpty then .error (.doc .Export) else mapMP (toGeneModel rule) (sortGenesByStart genes) := by
  unfold parseModelWith
  simp only [he, bind, Except.bind]
  cases mapMP convertGroup gs with
  | error e => rfl
  | ok genes =>
    simp only []
    cases hg : genes.isEmpty with
    | true => simp [throw, throwThe, MonadExceptOf.throw]
    | false => simp

theorem sortGenes_perm (gs : List GeneF) : (sortGenesByStart gs).Perm gs := List.mergeSort_perm _ _

/-- **T3, gene models, any tag order**: whatever one strategy parses, any other strategy parses too, and the two
    lists of gene models are permutations of each other -/
theorem parse_modes_any (rule : ParserRule) (tch : List (Str × List Rec)) (h : ModesInputAny tch) (m m' : Mode)
    (hs : m = .sorted → sortByPositionAndType (recsOf tch) = recsOf tch)
    (hs' : m' = .sorted → sortByPositionAndType (recsOf tch) = recsOf tch)
    (a : List PGene) (ha : parseModelWith rule m (recsOf tch) = .ok a) :
    ∃ b, parseModelWith rule m' (recsOf tch) = .ok b ∧ a.Perm b := by
  obtain ⟨gs, he, hp⟩ := extract_modes_any tch h m hs
  obtain ⟨gs', he', hp'⟩ := extract_modes_any tch h m' hs'
  rw [parse_of_extract rule m _ gs he] at ha
  rw [parse_of_extract rule m' _ gs' he']
  cases hg : mapMP convertGroup gs with
  | error e => rw [hg] at ha; exact absurd ha (by simp)
  | ok genes =>
    rw [hg] at ha
    simp only [] at ha
    obtain ⟨genes', hg', hpg⟩ := mapMP_perm convertGroup (hp.trans hp'.symm) genes hg
    rw [hg']
    simp only []
    have hemp : genes'.isEmpty = genes.isEmpty := by
      have := hpg.length_eq
      cases genes <;> cases genes' <;> simp_all
    rw [hemp]
    cases hge : genes.isEmpty with
    | true => rw [hge] at ha; simp at ha
    | false =>
      rw [hge] at ha
      simp only [Bool.false_eq_true, if_false] at ha ⊢
      exact mapMP_perm (toGeneModel rule)
        ((sortGenes_perm genes).trans (hpg.trans (sortGenes_perm genes').symm)) a ha

end BioCantor.Proofs.Gb

namespace BioCantor.Proofs.Gb
open BioCantor BioCantor.Spec.Qual BioCantor.Spec.Gb BioCantor.Model BioCantor.Model.Gb

/-! ### every written record of a round-trip gene passes `validate_seqfeature` -/

theorem recLen_parts (rule : WriterRule) (st : Strand) (bs : List Blk) (hne : bs ≠ []) (hp : ∀ b ∈ bs, b.1 < b.2)
    (r : Rec) (hr : r.parts = toBiopythonParts rule st bs) : recLen r ≠ 0 := by
  unfold recLen
  rw [hr]
  unfold toBiopythonParts
  split
  · rw [blocksLen_reverse]; exact Nat.pos_iff_ne_zero.mp (blocksLen_pos bs hne hp)
  · exact Nat.pos_iff_ne_zero.mp (blocksLen_pos bs hne hp)

theorem span_pos (bs : List Blk) (sp : Blk) (h : spanOf bs = some sp) (hp : ∀ b ∈ bs, b.1 < b.2) : sp.1 < sp.2 := by
  unfold spanOf at h
  cases hm : minStart bs with
  | none => simp [hm] at h
  | some s =>
    cases hM : Spec.Gb.maxEnd bs with
    | none => simp [hm, hM] at h
    | some e =>
      simp only [hm, hM, Option.some.injEq] at h
      subst h
      have hL := minStart_isLeast bs s hm
      have hG := maxEnd_isGreatest bs e hM
      obtain ⟨b, hb, rfl⟩ := List.mem_map.mp hL.1
      have h1 := hp b hb
      have h2 := hG.2 b.2 (List.mem_map.mpr ⟨b, hb, rfl⟩)
      simp only []
      omega

theorem validFeature_of (r : Rec) (h1 : recLen r ≠ 0) (h2 : r.strand.isDirectional = true) : validFeature r = true := by
  unfold validFeature
  simp [h1, h2]

theorem gene_records_valid (cfg : Cfg) (seq : Option Str) (prule : ParserRule) (g : Gene) (t : Tx) (tag : Str)
    (h : RtGene prule g t tag) (ri : List Rec) (hri : geneToFeatures cfg seq g = .ok ri) :
    ∀ r ∈ ri, validFeature r = true := by
  obtain ⟨strand, bounds, q0g, rest, hm, hb, _, hmap, rfl⟩ := geneToFeatures_shape cfg seq g ri hri
  have hst : t.strand = strand := by
    have := majority_of_geneWF g h.wf t (by rw [h.one]; exact List.mem_cons_self)
    rw [hm] at this
    exact (Option.some.inj this).symm
  obtain ⟨t0, ts, hgt, hwfs, _⟩ := geneWF_facts g h.wf
  have htwf : txWF t = true := hwfs t (by rw [h.one]; exact List.mem_cons_self)
  obtain ⟨hdir, hexne, hexasc, hcasc⟩ := txWF_facts t htwf
  have hdirS : strand.isDirectional = true := by rw [← hst]; exact hdir
  rw [h.one] at hmap
  obtain ⟨rt, rest', hrt, hrest', rfl⟩ := mapMR_cons_ok _ _ _ _ hmap
  have := mapMR_nil_ok _ _ hrest'
  subst this
  have hflat : [rt].flatten = rt := by simp
  rw [hflat]
  obtain ⟨sp, hb', hsp⟩ := geneBounds_eq_span g h.wf
  have hbsp : bounds = sp := by rw [hb] at hb'; exact Option.some.inj hb'
  have hsppos : sp.1 < sp.2 := by
    unfold geneSpan at hsp
    apply span_pos _ sp hsp
    intro b hb
    obtain ⟨t', ht', hbt⟩ := List.mem_flatMap.mp hb
    exact (txWF_facts t' (hwfs t' ht')).2.2.1.1 b hbt
  obtain ⟨q0, _, hcases⟩ := transcriptToFeatures_shape cfg seq strand _ _ t rt hrt hst
  have hcdsne : txFeatureType t = sMRNA → t.cds ≠ [] := by
    intro hft
    have := ft_mrna_coding t hft
    unfold Tx.coding at this
    simpa using this
  have htxr : validFeature (txRecord cfg t (txFeatureType t) strand (txBaseQuals q0 (geneSymbolOf g) (geneTagOf g))) = true :=
    validFeature_of _ (recLen_parts cfg.rule t.strand t.exons hexne hexasc.1 _ rfl) hdirS
  have hcdsr : ∀ cr, addCdsFeature cfg seq t (txBaseQuals q0 (geneSymbolOf g) (geneTagOf g)) strand = .ok cr →
      txFeatureType t = sMRNA → validFeature cr = true := by
    intro cr hcr hft
    rcases addCds_shape cfg seq t _ strand cr hcr with rfl | ⟨p, _, _, rfl⟩
    · exact validFeature_of _ (recLen_parts cfg.rule t.strand t.cds (hcdsne hft) hcasc.1 _ rfl) hdirS
    · exact validFeature_of _ (recLen_parts cfg.rule t.strand t.cds (hcdsne hft) hcasc.1 _ rfl) hdirS
  intro r hr
  rcases List.mem_cons.mp hr with rfl | hr
  · apply validFeature_of _ _ hdirS
    unfold recLen
    simp only [geneRecord, blocksLen, Blk.len, hbsp]
    omega
  · rcases hcases with ⟨hft, _, cr, hcr, rfl⟩ | ⟨hft, _, cr, hcr, rfl⟩ | ⟨_, rfl⟩
    · simp only [List.mem_singleton] at hr; rw [hr]; exact hcdsr cr hcr hft
    · simp only [List.mem_cons, List.not_mem_nil, or_false] at hr
      rcases hr with rfl | rfl
      · exact htxr
      · exact hcdsr _ hcr hft
    · simp only [List.mem_singleton] at hr; rw [hr]; exact htxr

end BioCantor.Proofs.Gb

namespace BioCantor.Proofs.Gb
open BioCantor BioCantor.Spec.Qual BioCantor.Spec.Gb BioCantor.Model BioCantor.Model.Gb

/-! ### the written collection as linked chains -/

/-- item `it` is a round-trip gene -/
def RtItem (prule : ParserRule) (it : Item) : Prop := ∃ g t tag, it = .gene g ∧ RtGene prule g t tag

/-- chain `p` is what the writer produced for a round-trip gene of the list -/
def ChainOf (cfg : Cfg) (seq : Option Str) (prule : ParserRule) (l : List Item) (p : Str × List Rec) : Prop :=
  ∃ g t, Item.gene g ∈ l ∧ RtGene prule g t p.1 ∧ geneToFeatures cfg seq g = .ok p.2

theorem items_linked (cfg : Cfg) (seq : Option Str) (prule : ParserRule) : ∀ (l : List Item) (rss : List (List Rec)),
    (∀ it ∈ l, RtItem prule it) → mapMR (itemToFeatures cfg seq) l = .ok rss →
    ∃ tch : List (Str × List Rec), rss = tch.map (·.2) ∧ tch.map (·.1) = l.filterMap itemTag ∧
      (∀ p ∈ tch, ChainOf cfg seq prule l p) ∧
      (∀ g, Item.gene g ∈ l → ∃ p ∈ tch, geneToFeatures cfg seq g = .ok p.2 ∧ geneTagOf g = some p.1)
  | [], rss, _, h => by
    have := mapMR_nil_ok _ _ h
    subst this
    exact ⟨[], rfl, rfl, by simp, by simp⟩
  | it :: l, rss, hall, h => by
    obtain ⟨ri, rest, hri, hrest, rfl⟩ := mapMR_cons_ok _ _ _ _ h
    obtain ⟨tch, rfl, hmap, hch, hmem⟩ := items_linked cfg seq prule l rest
      (fun x hx => hall x (List.mem_cons_of_mem _ hx)) hrest
    obtain ⟨g, t, tag, rfl, hrt⟩ := hall it List.mem_cons_self
    refine ⟨(tag, ri) :: tch, rfl, ?_, ?_, ?_⟩
    · simp only [List.map_cons, List.filterMap_cons, itemTag, hrt.tag, hmap]
    · intro p hp
      rcases List.mem_cons.mp hp with rfl | hp
      · exact ⟨g, t, List.mem_cons_self, hrt, hri⟩
      · obtain ⟨g', t', hg', h1, h2⟩ := hch p hp
        exact ⟨g', t', List.mem_cons_of_mem _ hg', h1, h2⟩
    · intro g' hg'
      rcases List.mem_cons.mp hg' with heq | hg'
      · have : g' = g := by injection heq
        subst this
        exact ⟨(tag, ri), List.mem_cons_self, hri, hrt.tag⟩
      · obtain ⟨p, hp, h1, h2⟩ := hmem g' hg'
        exact ⟨p, List.mem_cons_of_mem _ hp, h1, h2⟩

/-! ### pairwise different tags -/

theorem distinctStrs_pairwise : ∀ (l : List Str), distinctStrs l = true → l.Pairwise (fun a b => a ≠ b)
  | [], _ => List.Pairwise.nil
  | s :: ss, h => by
    simp only [distinctStrs, Bool.and_eq_true, Bool.not_eq_true'] at h
    refine List.Pairwise.cons ?_ (distinctStrs_pairwise ss h.2)
    intro b hb heq
    have : ss.contains s = true := by rw [heq]; simpa using hb
    rw [h.1] at this
    exact absurd this (by simp)

theorem itemTags_eq (items : List Item) :
    items.filterMap itemTag = (items.filterMap fun | .gene g => some g | _ => none).filterMap geneTagWritten := by
  induction items with
  | nil => rfl
  | cons it rest ih =>
    cases it with
    | gene g =>
      simp only [List.filterMap_cons, itemTag, geneTagOf_eq]
      cases geneTagWritten g <;> simp [ih]
    | fcoll f => simp only [List.filterMap_cons, itemTag]; exact ih

theorem perm_filter_compl {α} (p q : α → Bool) (hq : ∀ x, q x = !p x) : ∀ (l : List α), (l.filter p ++ l.filter q).Perm l
  | [] => List.Perm.refl _
  | a :: l => by
    have ih := perm_filter_compl p q hq l
    rw [List.filter_cons, List.filter_cons, hq a]
    cases hp : p a with
    | true => simp only [if_true, Bool.not_true, Bool.false_eq_true, if_false, List.cons_append]; exact ih.cons a
    | false =>
      simp only [Bool.false_eq_true, if_false, Bool.not_false, if_true]
      exact List.perm_middle.trans (ih.cons a)

theorem childrenOf_perm (c : Coll) : (childrenOf c).Perm c.items := by
  unfold childrenOf
  refine (List.mergeSort_perm _ _).trans ?_
  apply perm_filter_compl
  intro x
  cases x <;> rfl

theorem children_tags_distinct (c : Coll) (h : distinctStrs ((genesOf c).filterMap geneTagWritten) = true) :
    ((childrenOf c).filterMap itemTag).Pairwise (fun a b => a ≠ b) := by
  have hp : ((childrenOf c).filterMap itemTag).Perm (c.items.filterMap itemTag) := (childrenOf_perm c).filterMap _
  have hbase : (c.items.filterMap itemTag).Pairwise (fun a b => a ≠ b) := by
    rw [itemTags_eq]
    exact distinctStrs_pairwise _ h
  exact (hp.pairwise_iff (fun {x y} hxy => Ne.symm hxy)).mpr hbase

end BioCantor.Proofs.Gb

namespace BioCantor.Proofs.Gb
open BioCantor BioCantor.Spec.Qual BioCantor.Spec.Gb BioCantor.Model BioCantor.Model.Gb

theorem distinct_inj {α} (f : α → Option Str) : ∀ (l : List α), distinctStrs (l.filterMap f) = true →
    ∀ a ∈ l, ∀ b ∈ l, ∀ t, f a = some t → f b = some t → a = b
  | [], _, a, ha, _, _, _, _, _ => by simp at ha
  | x :: xs, h, a, ha, b, hb, t, hfa, hfb => by
    cases hx : f x with
    | none =>
      rw [List.filterMap_cons, hx] at h
      have ha' : a ∈ xs := by
        rcases List.mem_cons.mp ha with rfl | h'
        · rw [hx] at hfa; exact absurd hfa (by simp)
        · exact h'
      have hb' : b ∈ xs := by
        rcases List.mem_cons.mp hb with rfl | h'
        · rw [hx] at hfb; exact absurd hfb (by simp)
        · exact h'
      exact distinct_inj f xs h a ha' b hb' t hfa hfb
    | some s =>
      rw [List.filterMap_cons, hx] at h
      simp only [distinctStrs, Bool.and_eq_true, Bool.not_eq_true'] at h
      have hnot : ∀ y ∈ xs, f y ≠ some s := by
        intro y hy hfy
        have : (xs.filterMap f).contains s = true := by
          simpa using List.mem_filterMap.mpr ⟨y, hy, hfy⟩
        rw [h.1] at this
        exact absurd this (by simp)
      rcases List.mem_cons.mp ha with rfl | ha' <;> rcases List.mem_cons.mp hb with rfl | hb'
      · rfl
      · rw [hx] at hfa; exact absurd (hfa ▸ hfb) (hnot b hb')
      · rw [hx] at hfb; exact absurd (hfb ▸ hfa) (hnot a ha')
      · exact distinct_inj f xs h.2 a ha' b hb' t hfa hfb

theorem mem_genesOf (c : Coll) (g : Gene) : g ∈ genesOf c ↔ Item.gene g ∈ c.items := by
  unfold genesOf
  rw [List.mem_filterMap]
  constructor
  · rintro ⟨it, hit, h⟩
    cases it with
    | gene g' => simp only [Option.some.injEq] at h; subst h; exact hit
    | fcoll f => simp at h
  · intro h; exact ⟨_, h, rfl⟩

theorem genesOf_length (prule : ParserRule) (c : Coll) (hall : ∀ it ∈ c.items, RtItem prule it) :
    (genesOf c).length = c.items.length := by
  unfold genesOf
  have : ∀ (l : List Item), (∀ it ∈ l, RtItem prule it) →
      (l.filterMap fun | .gene g => some g | _ => none).length = l.length := by
    intro l hl
    induction l with
    | nil => rfl
    | cons it l ih =>
      obtain ⟨g, _, _, rfl, _⟩ := hl _ List.mem_cons_self
      simp only [List.filterMap_cons, List.length_cons]
      rw [ih (fun x hx => hl x (List.mem_cons_of_mem _ hx))]
  exact this c.items hall

theorem tags_length (prule : ParserRule) : ∀ (l : List Item), (∀ it ∈ l, RtItem prule it) →
    (l.filterMap itemTag).length = l.length
  | [], _ => rfl
  | it :: l, hl => by
    obtain ⟨g, t, tag, rfl, hrt⟩ := hl _ List.mem_cons_self
    simp only [List.filterMap_cons, itemTag, hrt.tag, List.length_cons]
    rw [tags_length prule l (fun x hx => hl x (List.mem_cons_of_mem _ hx))]

/-- **T2**: what the writer model produces for a collection of single-strand, single-transcript genes with pairwise
    different effective locus tags is parsed back — by Sorted (on a fixed point of its own sort), LocusTag and Hybrid —
    into gene models that satisfy every clause of (b): count, identifiers, strand, exons (CDS blocks as exons in
    prokaryotic flavour), CDS, one reading frame from the source's start frame, biotype. -/
theorem collection_roundtrip (cfg : Cfg) (c : Coll) (rs : List Rec) (prule : ParserRule) (m : Mode)
    (hw : writeModel cfg c = .ok rs) (hem : cfg.rule.emitsCodonStart = true) (hne : c.items ≠ [])
    (hall : ∀ it ∈ c.items, RtItem prule it)
    (hdist : distinctStrs ((genesOf c).filterMap geneTagWritten) = true)
    (hsorted : m = .sorted → sortByPositionAndType rs = rs) :
    ∃ os, parseModelWith prule m rs = .ok os ∧ rtViolations cfg.flavor c (some os) = [] := by
  -- the written list as linked chains
  unfold writeModel at hw
  split at hw
  · exact absurd hw (by simp)
  split at hw
  · exact absurd hw (by simp)
  next rss hmr =>
  simp only [Except.ok.injEq] at hw
  have hallc : ∀ it ∈ childrenOf c, RtItem prule it := fun it hit => hall it ((mem_childrenOf c it).mp hit)
  obtain ⟨tch, hrss, htags, hch, hmem⟩ := items_linked cfg c.seq prule (childrenOf c) rss hallc hmr
  have hrs : rs = recsOf tch := by rw [← hw, hrss]; rfl
  subst hrs
  have hin : ModesInputAny tch := by
    refine ⟨⟨?_, ?_, ?_⟩, ?_⟩
    · intro p hp
      obtain ⟨g, t, _, hrt, hri⟩ := hch p hp
      exact (gene_records_chain cfg c.seq g p.2 hri hrt.wf t hrt.one p.1 hrt.tag).1
    · intro p hp
      obtain ⟨g, t, _, hrt, hri⟩ := hch p hp
      exact (gene_records_chain cfg c.seq g p.2 hri hrt.wf t hrt.one p.1 hrt.tag).2
    · rw [htags]; exact children_tags_distinct c hdist
    · intro r hr
      obtain ⟨p, hp, hrp⟩ := mem_recsOf hr
      obtain ⟨g, t, _, hrt, hri⟩ := hch p hp
      exact gene_records_valid cfg c.seq prule g t p.1 hrt p.2 hri r hrp
  obtain ⟨gs, he, hperm⟩ := extract_modes_any tch hin m hsorted
  -- every group is the chain of a round-trip gene
  have hgrp : ∀ grp ∈ gs, ∃ p ∈ tch, grp = classifyGroup p.2 := by
    intro grp hg
    have : grp ∈ chainGroups tch := hperm.mem_iff.mp hg
    obtain ⟨p, hp, rfl⟩ := List.mem_map.mp this
    exact ⟨p, hp, rfl⟩
  have hconv : ∀ p ∈ tch, ∃ gf o g, convertGroup (classifyGroup p.2) = .ok gf ∧ toGeneModel prule gf = .ok o ∧
      Item.gene g ∈ c.items ∧ geneTagWritten g = some p.1 ∧ geneViolations cfg.flavor g o = [] ∧
      o.locusTag = some p.1 := by
    intro p hp
    obtain ⟨g, t, hg, hrt, hri⟩ := hch p hp
    obtain ⟨gf, o, h1, _, h3, h4, h5⟩ := gene_roundtrip cfg c.seq prule g t p.1 hrt hem p.2 hri
    exact ⟨gf, o, g, h1, h3, (mem_childrenOf c _).mp hg, by rw [← geneTagOf_eq]; exact hrt.tag, h4, h5⟩
  obtain ⟨genes, hgenes⟩ := mapMP_all_ok convertGroup gs (by
    intro grp hg
    obtain ⟨p, hp, rfl⟩ := hgrp grp hg
    obtain ⟨gf, _, _, h1, _⟩ := hconv p hp
    exact ⟨gf, h1⟩)
  obtain ⟨hglen, hgback, hgfwd⟩ := mapMP_spec convertGroup gs genes hgenes
  have hsmem : ∀ gf, gf ∈ sortGenesByStart genes ↔ gf ∈ genes := fun gf => (sortGenes_perm genes).mem_iff
  have hgf : ∀ gf ∈ genes, ∃ p ∈ tch, convertGroup (classifyGroup p.2) = .ok gf := by
    intro gf hgfm
    obtain ⟨grp, hg, hc⟩ := hgback gf hgfm
    obtain ⟨p, hp, rfl⟩ := hgrp grp hg
    exact ⟨p, hp, hc⟩
  obtain ⟨os, hos⟩ := mapMP_all_ok (toGeneModel prule) (sortGenesByStart genes) (by
    intro gf hm
    obtain ⟨p, hp, hc⟩ := hgf gf ((hsmem gf).mp hm)
    obtain ⟨gf', o, _, h1, h2, _⟩ := hconv p hp
    rw [hc] at h1
    have : gf = gf' := Except.ok.inj h1
    subst this
    exact ⟨o, h2⟩)
  obtain ⟨holen, hoback, hofwd⟩ := mapMP_spec (toGeneModel prule) _ os hos
  -- sizes
  have htl : tch.length = c.items.length := by
    have : (tch.map (·.1)).length = ((childrenOf c).filterMap itemTag).length := by rw [htags]
    rw [List.length_map, tags_length prule _ hallc] at this
    rw [this, (childrenOf_perm c).length_eq]
  have hgl : gs.length = tch.length := by rw [hperm.length_eq]; simp [chainGroups]
  have hgne : genes.isEmpty = false := by
    have : genes.length ≠ 0 := by
      rw [hglen, hgl, htl]
      exact fun h0 => hne (List.eq_nil_of_length_eq_zero h0)
    cases genes with
    | nil => simp at this
    | cons _ _ => rfl
  refine ⟨os, ?_, ?_⟩
  · rw [parse_of_extract prule m _ gs he, hgenes]
    simp only [hgne, Bool.false_eq_true, if_false]
    exact hos
  · -- the clauses
    have hcount : os.length = (genesOf c).length := by
      rw [holen, (sortGenes_perm genes).length_eq, hglen, hgl, htl, genesOf_length prule c hall]
    have htagsome : ∀ g ∈ genesOf c, ∃ tag, geneTagWritten g = some tag := by
      intro g hg
      obtain ⟨g0, t, tag, heq, hrt⟩ := hall _ ((mem_genesOf c g).mp hg)
      have : g = g0 := by injection heq
      subst this
      exact ⟨tag, by rw [← geneTagOf_eq]; exact hrt.tag⟩
    -- every parsed gene model stems from a gene of the collection and satisfies its clauses
    have hoall : ∀ o ∈ os, ∃ g ∈ genesOf c, geneTagWritten g = o.locusTag ∧ geneViolations cfg.flavor g o = [] := by
      intro o ho
      obtain ⟨gf, hgfm, hto⟩ := hoback o ho
      obtain ⟨p, hp, hc⟩ := hgf gf ((hsmem gf).mp hgfm)
      obtain ⟨gf', o', g, h1, h2, h3, h4, h5, h6⟩ := hconv p hp
      rw [hc] at h1
      have : gf = gf' := Except.ok.inj h1
      subst this
      rw [hto] at h2
      have : o = o' := Except.ok.inj h2
      subst this
      exact ⟨g, (mem_genesOf c g).mpr h3, by rw [h4, h6], h5⟩
    have hofind : ∀ g ∈ genesOf c, ∃ o, os.find? (fun o => o.locusTag == geneTagWritten g) = some o ∧
        geneViolations cfg.flavor g o = [] := by
      intro g hg
      obtain ⟨tag, htg⟩ := htagsome g hg
      -- some parsed model carries g's tag
      have hex : ∃ o ∈ os, o.locusTag = some tag := by
        obtain ⟨p, hp, hri, hpt⟩ := hmem g ((mem_childrenOf c _).mpr ((mem_genesOf c g).mp hg))
        obtain ⟨gf, o, _, h1, h2, _, _, _, h6⟩ := hconv p hp
        obtain ⟨gf', hgf'm, hc'⟩ := hgfwd (classifyGroup p.2)
          (hperm.mem_iff.mpr (List.mem_map.mpr ⟨p, hp, rfl⟩))
        rw [h1] at hc'
        have : gf = gf' := Except.ok.inj hc'
        subst this
        obtain ⟨o', ho'm, ht'⟩ := hofwd gf ((hsmem gf).mpr hgf'm)
        rw [h2] at ht'
        have : o = o' := Except.ok.inj ht'
        subst this
        refine ⟨o, ho'm, ?_⟩
        rw [h6]
        have : geneTagOf g = some tag := by rw [geneTagOf_eq]; exact htg
        rw [hpt] at this
        exact this
      cases hf : os.find? (fun o => o.locusTag == geneTagWritten g) with
      | none =>
        obtain ⟨o, hom, hot⟩ := hex
        have := List.find?_eq_none.mp hf o hom
        rw [hot, htg] at this
        simp at this
      | some o =>
        refine ⟨o, rfl, ?_⟩
        have hom : o ∈ os := List.mem_of_find?_eq_some hf
        have hpred := List.find?_some hf
        have hot : o.locusTag = geneTagWritten g := by simpa using hpred
        obtain ⟨g', hg', ht', hv'⟩ := hoall o hom
        have : g' = g := distinct_inj geneTagWritten (genesOf c) hdist g' hg' g hg tag (by rw [ht', hot, htg]) htg
        rw [← this]; exact hv'
    unfold rtViolations
    simp only []
    rw [hcount]
    simp only [beq_self_eq_true, if_true, List.nil_append]
    have hcond : ((genesOf c).all (fun g => (geneTagWritten g).isSome) &&
        distinctStrs ((genesOf c).filterMap geneTagWritten)) = true := by
      rw [hdist, Bool.and_true, List.all_eq_true]
      intro g hg
      obtain ⟨tag, htg⟩ := htagsome g hg
      rw [htg]; rfl
    unfold pairGenes
    rw [if_pos hcond]
    apply flatMap_eq_nil'
    intro pr hpr
    obtain ⟨g, hg, rfl⟩ := List.mem_map.mp hpr
    obtain ⟨o, hfo, hv⟩ := hofind g hg
    simp only [hfo]
    exact hv

end BioCantor.Proofs.Gb
