/-
  C12 — the writer model produces, for every gene / transcript / CDS / feature collection / feature interval, a
  record of the documented type with exactly the source blocks, the source strand and the source identifiers
  (any number of genes, transcripts and blocks).
-/
import BioCantor.Proofs.GbDict
namespace BioCantor.Proofs.Gb
open BioCantor BioCantor.Spec.Qual BioCantor.Spec.Gb BioCantor.Model.Gb

/-! ### `mapMR` -/

theorem mapMR_cons_ok {α β} (f : α → Model.R β) (a : α) (as : List α) (rs : List β)
    (h : mapMR f (a :: as) = .ok rs) : ∃ b bs, f a = .ok b ∧ mapMR f as = .ok bs ∧ rs = b :: bs := by
  simp only [mapMR, bind, Except.bind] at h
  cases hfa : f a with
  | error e => simp [hfa] at h
  | ok b =>
    cases hrest : mapMR f as with
    | error e => simp [hfa, hrest] at h
    | ok bs =>
      simp only [hfa, hrest, pure, Except.pure, Except.ok.injEq] at h
      exact ⟨b, bs, rfl, rfl, h.symm⟩

theorem mapMR_nil_ok {α β} (f : α → Model.R β) (rs : List β) (h : mapMR f [] = .ok rs) : rs = [] := by
  simp only [mapMR, pure, Except.pure, Except.ok.injEq] at h
  exact h.symm

theorem mapMR_mem {α β} (f : α → Model.R β) : ∀ (l : List α) (rs : List β), mapMR f l = .ok rs →
    ∀ a ∈ l, ∃ b ∈ rs, f a = .ok b
  | [], _, _, a, ha => by simp at ha
  | x :: xs, rs, h, a, ha => by
    obtain ⟨b, bs, hb, hbs, rfl⟩ := mapMR_cons_ok f x xs rs h
    rcases List.mem_cons.mp ha with rfl | ha'
    · exact ⟨b, List.mem_cons_self, hb⟩
    · obtain ⟨b', hb', hr⟩ := mapMR_mem f xs bs hbs a ha'
      exact ⟨b', List.mem_cons_of_mem _ hb', hr⟩

/-! ### every item of the collection is written -/

theorem mem_childrenOf (c : Coll) (it : Item) : it ∈ childrenOf c ↔ it ∈ c.items := by
  unfold childrenOf
  rw [List.mem_mergeSort, List.mem_append, List.mem_filter, List.mem_filter]
  cases it <;> simp

theorem writeModel_item (cfg : Cfg) (c : Coll) (rs : List Rec) (h : writeModel cfg c = .ok rs)
    (it : Item) (hit : it ∈ c.items) :
    ∃ ri, itemToFeatures cfg c.seq it = .ok ri ∧ ∀ r ∈ ri, r ∈ rs := by
  unfold writeModel at h
  split at h
  · exact absurd h (by simp)
  · split at h
    · exact absurd h (by simp)
    · next rss hm =>
      simp only [Except.ok.injEq] at h
      subst h
      obtain ⟨ri, hri, hok⟩ := mapMR_mem _ _ _ hm it ((mem_childrenOf c it).mpr hit)
      exact ⟨ri, hok, fun r hr => List.mem_flatten.mpr ⟨ri, hri, hr⟩⟩

/-! ### majority strand of a single-strand family -/

theorem majorityStrand_const (s : Strand) (l : List Strand) (hl : ∀ x ∈ l, x = s) :
    majorityStrand (s :: l) = some s := by
  unfold majorityStrand
  simp only [Option.some.injEq]
  have key : ∀ (all rest : List Strand), (∀ x ∈ rest, x = s) →
      rest.foldl (fun best x => if all.count x > all.count best then x else best) s = s := by
    intro all rest
    induction rest with
    | nil => intro _; rfl
    | cons x xs ih =>
      intro hx
      have : x = s := hx x List.mem_cons_self
      subst this
      simp only [List.foldl_cons, gt_iff_lt, Nat.lt_irrefl, if_false]
      exact ih (fun y hy => hx y (List.mem_cons_of_mem _ hy))
  exact key (s :: l) (s :: l) (by
    intro x hx
    rcases List.mem_cons.mp hx with rfl | hx
    · rfl
    · exact hl x hx)

end BioCantor.Proofs.Gb

namespace BioCantor.Proofs.Gb
open BioCantor BioCantor.Spec.Qual BioCantor.Spec.Gb BioCantor.Model.Gb

/-! ### shape of `gene_to_feature` -/

theorem geneToFeatures_shape (cfg : Cfg) (seq : Option Str) (g : Gene) (ri : List Rec)
    (h : geneToFeatures cfg seq g = .ok ri) :
    ∃ strand bounds q0 rest,
      majorityStrand (g.txs.map (·.strand)) = some strand ∧ geneBounds g = some bounds ∧
      geneExportQuals g = .ok q0 ∧
      mapMR (transcriptToFeatures cfg seq strand (geneSymbolOf g) (geneTagOf g)) g.txs = .ok rest ∧
      ri = geneRecord strand bounds q0 g :: rest.flatten := by
  unfold geneToFeatures at h
  split at h
  · next strand bounds hm hb =>
    split at h
    · exact absurd h (by simp)
    · next q0 hq =>
      split at h
      · exact absurd h (by simp)
      · next rest hr =>
        simp only [Except.ok.injEq] at h
        exact ⟨strand, bounds, q0, rest, hm, hb, hq, hr, h.symm⟩
  · exact absurd h (by simp)

theorem fcToFeatures_shape (cfg : Cfg) (f : FColl) (ri : List Rec) (h : fcToFeatures cfg f = .ok ri) :
    ∃ strand bounds,
      majorityStrand (f.feats.map (·.strand)) = some strand ∧ fcBounds f = some bounds ∧
      ri = fcRecord strand bounds f :: f.feats.flatMap (featureToFeatures cfg strand (fcSymbolOf f) f.locusTag) := by
  unfold fcToFeatures at h
  split at h
  · next strand bounds hm hb =>
    simp only [Except.ok.injEq] at h
    exact ⟨strand, bounds, hm, hb, h.symm⟩
  · exact absurd h (by simp)

end BioCantor.Proofs.Gb
