/- Helper lemmas for C14: the decimal / separator codec.  `Spec.Bed.decode` inverts `Model.Bed.Bed12.str`. -/
import BioCantor.Spec.Bed
import BioCantor.Model.Bed
namespace BioCantor.Proofs.Bed
open BioCantor BioCantor.Spec.Bed BioCantor.Model.Bed

/-! ### digits -/

theorem digitVal_digitChar (d : Nat) (h : d < 10) : digitVal (digitChar d) = some d := by
  match d, h with
  | 0, _ => rfl | 1, _ => rfl | 2, _ => rfl | 3, _ => rfl | 4, _ => rfl
  | 5, _ => rfl | 6, _ => rfl | 7, _ => rfl | 8, _ => rfl | 9, _ => rfl

def IsDigit (c : Char) : Prop := (digitVal c).isSome = true

theorem isDigit_digitChar (d : Nat) (h : d < 10) : IsDigit (digitChar d) := by
  unfold IsDigit; rw [digitVal_digitChar d h]; rfl

theorem parseNatAcc_append (a : Nat) (l₁ l₂ : List Char) :
    parseNatAcc a (l₁ ++ l₂) = (parseNatAcc a l₁).bind (fun a' => parseNatAcc a' l₂) := by
  induction l₁ generalizing a with
  | nil => rfl
  | cons c cs ih =>
    simp only [List.cons_append, parseNatAcc]
    cases digitVal c with
    | none => rfl
    | some d => exact ih _

theorem parseNatAcc_natStrAux (f n : Nat) (h : n ≤ f) : parseNatAcc 0 (natStrAux f n) = some n := by
  induction f generalizing n with
  | zero =>
    have : n = 0 := by omega
    subst this; rfl
  | succ f ih =>
    unfold natStrAux
    split
    · rename_i h10
      simp only [parseNatAcc, digitVal_digitChar n h10]; simp
    · rename_i h10
      rw [parseNatAcc_append, ih (n / 10) (by omega)]
      simp only [Option.bind, parseNatAcc, digitVal_digitChar (n % 10) (by omega)]
      congr 1; omega

theorem natStrAux_ne_nil (f n : Nat) : natStrAux f n ≠ [] := by
  cases f with
  | zero => simp [natStrAux]
  | succ f => unfold natStrAux; split <;> simp

theorem natStrAux_digits (f n : Nat) : ∀ c ∈ natStrAux f n, IsDigit c := by
  induction f generalizing n with
  | zero => intro c hc; simp only [natStrAux, List.mem_singleton] at hc; subst hc; exact isDigit_digitChar _ (by omega)
  | succ f ih =>
    intro c hc
    unfold natStrAux at hc
    split at hc
    · rename_i h10; simp only [List.mem_singleton] at hc; subst hc; exact isDigit_digitChar _ h10
    · simp only [List.mem_append, List.mem_singleton] at hc
      rcases hc with hc | hc
      · exact ih _ c hc
      · subst hc; exact isDigit_digitChar _ (by omega)

theorem parseNat_natStr (n : Nat) : parseNat (natStr n) = some n := by
  unfold natStr
  have hne := natStrAux_ne_nil n n
  have := parseNatAcc_natStrAux n n (Nat.le_refl n)
  cases hl : natStrAux n n with
  | nil => exact absurd hl hne
  | cons c cs => rw [hl] at this; exact this

theorem natStr_digits (n : Nat) : ∀ c ∈ natStr n, IsDigit c := natStrAux_digits n n

theorem tab_not_digit : ¬ IsDigit '\t' := by unfold IsDigit; decide
theorem comma_not_digit : ¬ IsDigit ',' := by unfold IsDigit; decide

theorem natStr_no_tab (n : Nat) : '\t' ∉ natStr n := fun h => tab_not_digit (natStr_digits n _ h)
theorem natStr_no_comma (n : Nat) : ',' ∉ natStr n := fun h => comma_not_digit (natStr_digits n _ h)

theorem intStr_ofNat (n : Nat) : intStr (n : Int) = natStr n := by
  unfold intStr
  have : ¬ ((n : Int) < 0) := by omega
  simp only [this, if_false, Int.toNat_natCast]

/-! ### separators -/

theorem splitAux_nosep (sep : Char) (f acc : List Char) (h : sep ∉ f) :
    splitAux sep acc f = [acc.reverse ++ f] := by
  induction f generalizing acc with
  | nil => simp [splitAux]
  | cons c cs ih =>
    have hc : c ≠ sep := fun e => h (by simp [e])
    have hcs : sep ∉ cs := fun e => h (List.mem_cons_of_mem _ e)
    simp only [splitAux, hc, if_false]
    rw [ih _ hcs]; simp

theorem splitAux_field (sep : Char) (f acc rest : List Char) (h : sep ∉ f) :
    splitAux sep acc (f ++ sep :: rest) = (acc.reverse ++ f) :: splitAux sep [] rest := by
  induction f generalizing acc with
  | nil => simp [splitAux]
  | cons c cs ih =>
    have hc : c ≠ sep := fun e => h (by simp [e])
    have hcs : sep ∉ cs := fun e => h (List.mem_cons_of_mem _ e)
    simp only [List.cons_append, splitAux, hc, if_false]
    rw [ih _ hcs]; simp

/-- `line.split(sep)` inverts `sep.join(fields)` when no field contains the separator -/
theorem splitOn_join (sep : Char) (fields : List (List Char)) (hne : fields ≠ [])
    (h : ∀ f ∈ fields, sep ∉ f) : splitOn sep (join sep fields) = fields := by
  unfold splitOn
  induction fields with
  | nil => exact absurd rfl hne
  | cons x rest ih =>
    cases rest with
    | nil => simp only [join]; rw [splitAux_nosep sep x [] (h x (by simp))]; simp
    | cons y r =>
      simp only [join]
      rw [splitAux_field sep x [] _ (h x (by simp))]
      rw [ih (by simp) (fun f hf => h f (List.mem_cons_of_mem _ hf))]
      simp

theorem join_no_tab (fields : List (List Char)) (h : ∀ f ∈ fields, '\t' ∉ f) : '\t' ∉ join ',' fields := by
  induction fields with
  | nil => simp [join]
  | cons x rest ih =>
    cases rest with
    | nil => simpa [join] using h x (by simp)
    | cons y r =>
      simp only [join, List.mem_append, List.mem_cons, not_or]
      refine ⟨h x (by simp), by decide, ?_⟩
      exact ih (fun f hf => h f (List.mem_cons_of_mem _ hf))

theorem parseNats_map (l : List Nat) : parseNats (l.map natStr) = some l := by
  induction l with
  | nil => rfl
  | cons n ns ih => simp only [List.map_cons, parseNats, parseNat_natStr, ih]

theorem parseNatList_join (l : List Nat) (hne : l ≠ []) : parseNatList (join ',' (l.map natStr)) = some l := by
  unfold parseNatList
  rw [splitOn_join ',' _ (by simpa using hne)]
  · exact parseNats_map l
  · intro f hf
    simp only [List.mem_map] at hf
    obtain ⟨n, _, rfl⟩ := hf
    exact natStr_no_comma n

theorem natList_no_tab (l : List Nat) : '\t' ∉ join ',' (l.map natStr) := by
  apply join_no_tab
  intro f hf
  simp only [List.mem_map] at hf
  obtain ⟨n, _, rfl⟩ := hf
  exact natStr_no_tab n

theorem strandSym_no_tab (s : Strand) : '\t' ∉ strandSym s := by cases s <;> decide

theorem parseStrand_sym (s : Strand) : parseStrand (strandSym s) = some s := by cases s <;> rfl

/-! ### the record -/

/-- what an independent reader gets from `str(b)` (block starts as naturals `sts`) -/
def rowOf (b : Bed12) (sts : List Nat) : Row :=
  ⟨optStr b.chrom, b.start, b.«end», optStr b.name, b.score, b.strand, b.thickStart, b.thickEnd, b.rgb,
   b.blockCount, b.blockSizes, sts⟩

/-- `BED12.__str__` read back by the 12-column decoder: every column is recovered, provided the two free-text
    columns contain no tab and there is at least one block with non-negative starts. -/
theorem decode_str (b : Bed12) (sts : List Nat) (hst : b.blockStarts = sts.map Int.ofNat)
    (hc : '\t' ∉ optStr b.chrom) (hn : '\t' ∉ optStr b.name) (h1 : b.blockSizes ≠ []) (h2 : sts ≠ []) :
    decode b.str = some (rowOf b sts) := by
  have hstarts : b.blockStarts.map intStr = sts.map natStr := by
    rw [hst, List.map_map]; apply List.map_congr_left; intro n _; exact intStr_ofNat n
  unfold decode Bed12.str
  rw [splitOn_join '\t' _ (by simp)]
  · simp only [parseNat_natStr, parseStrand_sym, rgbStr, hstarts]
    have hrgb : parseNatList (join ',' [natStr b.rgb.1, natStr b.rgb.2.1, natStr b.rgb.2.2])
        = some [b.rgb.1, b.rgb.2.1, b.rgb.2.2] := by
      have := parseNatList_join [b.rgb.1, b.rgb.2.1, b.rgb.2.2] (by simp)
      simpa using this
    rw [hrgb, parseNatList_join _ h1, parseNatList_join _ h2]
    rfl
  · intro f hf
    simp only [List.mem_cons, List.mem_nil_iff, or_false] at hf
    rcases hf with rfl | rfl | rfl | rfl | rfl | rfl | rfl | rfl | rfl | rfl | rfl | rfl
    · exact hc
    · exact natStr_no_tab _
    · exact natStr_no_tab _
    · exact hn
    · exact natStr_no_tab _
    · exact strandSym_no_tab _
    · exact natStr_no_tab _
    · exact natStr_no_tab _
    · have := natList_no_tab [b.rgb.1, b.rgb.2.1, b.rgb.2.2]
      simpa [rgbStr] using this
    · exact natStr_no_tab _
    · exact natList_no_tab _
    · rw [hstarts]; exact natList_no_tab _

end BioCantor.Proofs.Bed
