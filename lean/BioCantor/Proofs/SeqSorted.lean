/-
  C03 helper lemmas: a non-self-overlapping layout lists its positions in strictly increasing order; hence
  sub-lists of its reading determine non-self-overlapping layouts again, and two such layouts with the same
  positions read the same.
-/
import BioCantor.Proofs.SeqReverse
import BioCantor.Proofs.AlgUnion
set_option linter.unusedSimpArgs false
namespace BioCantor.Proofs.Sq
open BioCantor BioCantor.Spec BioCantor.Model BioCantor.Spec.Sq BioCantor.Model.Sq BioCantor.Proofs

theorem blkAsc_sorted (b : Blk) : (blkAsc b).Pairwise (· < ·) := by
  unfold blkAsc
  exact List.pairwise_lt_range'

/-- positions of a non-self-overlapping layout, in list order, are strictly increasing -/
theorem basesPlus_sorted (L : List Blk) (hv : ∀ b ∈ L, b.1 ≤ b.2) (hno : nonOverlap L = true) :
    (basesPlus L).Pairwise (· < ·) := by
  have hp := nonOverlap_pairwise L hv hno
  clear hno
  induction L with
  | nil => simp [basesPlus]
  | cons a t ih =>
    rw [List.pairwise_cons] at hp
    simp only [basesPlus]
    rw [List.pairwise_append]
    refine ⟨blkAsc_sorted a, ih (fun x hx => hv x (List.mem_cons_of_mem _ hx)) hp.2, ?_⟩
    intro x hx y hy
    rw [mem_blkAsc] at hx
    obtain ⟨b, hb, h1, h2⟩ := (Union.mem_basesPlus t y).1 hy
    have := hp.1 b hb
    omega

/-- two strictly increasing lists with the same members are equal -/
theorem eq_of_sorted_of_mem : ∀ (l1 l2 : List Nat), l1.Pairwise (· < ·) → l2.Pairwise (· < ·) →
    (∀ a, a ∈ l1 ↔ a ∈ l2) → l1 = l2
  | [], [], _, _, _ => rfl
  | [], b :: _, _, _, h => by have := (h b).2 (by simp); simp at this
  | a :: _, [], _, _, h => by have := (h a).1 (by simp); simp at this
  | a :: l1, b :: l2, h1, h2, h => by
    rw [List.pairwise_cons] at h1 h2
    have hab : a = b := by
      have ha := (h a).1 (by simp)
      have hb := (h b).2 (by simp)
      rcases List.mem_cons.1 ha with e | e
      · exact e
      · rcases List.mem_cons.1 hb with e' | e'
        · exact e'.symm
        · have := h2.1 a e; have := h1.1 b e'; omega
    subst hab
    congr 1
    apply eq_of_sorted_of_mem l1 l2 h1.2 h2.2
    intro x
    constructor
    · intro hx
      have := (h x).1 (List.mem_cons_of_mem _ hx)
      rcases List.mem_cons.1 this with e | e
      · subst e; have := h1.1 x hx; omega
      · exact e
    · intro hx
      have := (h x).2 (List.mem_cons_of_mem _ hx)
      rcases List.mem_cons.1 this with e | e
      · subst e; have := h2.1 x hx; omega
      · exact e

theorem nodup_of_sorted (l : List Nat) (h : l.Pairwise (· < ·)) : l.Nodup :=
  h.imp (fun {a b} hab => Nat.ne_of_lt hab)

/-- a location on strand `st` whose reading is a contiguous piece of the reading of a non-self-overlapping layout
    lists its own positions (plus reading) in strictly increasing order -/
theorem basesPlus_sorted_of_sub (L M : List Blk) (st : Strand) (hd : st ≠ .unstranded)
    (hv : ∀ b ∈ L, b.1 ≤ b.2) (hno : nonOverlap L = true) (s n : Nat)
    (h : bases ⟨M, st⟩ = ((bases ⟨L, st⟩).drop s).take n) : (basesPlus M).Pairwise (· < ·) := by
  have hs := basesPlus_sorted L hv hno
  rw [bases_mk, bases_mk] at h
  cases st with
  | unstranded => exact absurd rfl hd
  | plus =>
    simp only [reduceCtorEq, if_false] at h
    rw [h]
    exact (hs.sublist (List.drop_sublist _ _)).sublist (List.take_sublist _ _)
  | minus =>
    simp only [if_true] at h
    have hr : ((basesPlus L).reverse).Pairwise (· > ·) := by
      rw [List.pairwise_reverse]; exact hs
    have h2 : ((basesPlus M).reverse).Pairwise (· > ·) := by
      rw [h]; exact (hr.sublist (List.drop_sublist _ _)).sublist (List.take_sublist _ _)
    rw [List.pairwise_reverse] at h2
    exact h2

theorem locationBases_eq (m : Location) (st : Strand) (hs : locationStrand? m = some st) :
    locationBases m = bases ⟨locationBlocks m, st⟩ := by
  cases m with
  | single b s => simp only [locationStrand?, Option.some.injEq] at hs; subst hs; rfl
  | compound c => simp only [locationStrand?, Option.some.injEq] at hs; subst hs; rfl
  | empty => simp [locationStrand?] at hs

/-- **the result of an in-range `relative_interval_to_parent_location` on a non-self-overlapping layout is again
    non-self-overlapping** (given what C01-T3 says about it) -/
theorem nonOverlap_of_sub (L : List Blk) (st : Strand) (hd : st ≠ .unstranded)
    (hv : ∀ b ∈ L, b.1 ≤ b.2) (hno : nonOverlap L = true) (m : Location)
    (hs : locationStrand? m = some st) (hwf : wfLocation m = true) (s n : Nat)
    (hb : locationBases m = ((bases ⟨L, st⟩).drop s).take n)
    (hpos : (∃ b t, m = .single b t) ∨ normalBlocks (locationBlocks m) = true) :
    nonOverlap (locationBlocks m) = true := by
  cases m with
  | single b t => rfl
  | empty => rfl
  | compound c =>
    rcases hpos with ⟨b, t, hbt⟩ | hn
    · cases hbt
    · rw [locationBases_eq _ st hs] at hb
      have hsorted := basesPlus_sorted_of_sub L c.blocks st hd hv hno s n hb
      have hcanon : c.Canon := by simpa [wfLocation] using hwf
      exact Union.nonOverlap_of_nodup c.strand c.blocks hcanon.2.2 (normal_pos _ hn) (nodup_of_sorted _ hsorted)

end BioCantor.Proofs.Sq
