/-
  C08 helper lemmas, part 4: the byte stream of each class's digest call, split into its leading coordinate /
  strand / frame components and a remainder.
-/
import BioCantor.Proofs.DigInject
import BioCantor.Proofs.DigOrder
set_option linter.unusedSimpArgs false
namespace BioCantor.Proofs.Dig
open BioCantor BioCantor.Spec.Digest BioCantor.Model.Digest
open BioCantor.Spec.Qual (Str strLt strLe)

variable (md5 : List Str → Str)

theorem isPlain_optFrames (c : Option (List Int × List Int × List CDSFrame)) : isPlain (framesVal c) = true := by
  cases c <;> rfl

theorem pyStr_optFrames (c : Option (List Int × List Int × List CDSFrame)) :
    pyStr (framesVal c) = optFramesStr (c.map (·.2.2)) := by
  cases c with
  | none => rfl
  | some c => simp only [Option.map_some, optFramesStr, framesVal]; exact pyStr_frames _

/-- TranscriptInterval: `[starts][ends]<strand><frames or None>` then the remaining fields -/
theorem tx_stream (t : TxArgs) :
    stream (txDigestArgs md5 t) =
      intsStr t.starts ++ (intsStr t.ends ++ (strandSym t.strand ++ (optFramesStr (t.cds.map (·.2.2)) ++
        stream ((txDigestArgs md5 t).drop 4)))) := by
  unfold txDigestArgs
  rw [stream_cons_plain (v := ofInts t.starts) rfl, stream_cons_plain (v := ofInts t.ends) rfl,
    stream_cons_plain (isPlain_ofStrand t.strand), stream_cons_plain (isPlain_optFrames t.cds),
    pyStr_ofInts, pyStr_ofInts, pyStr_ofStrand, pyStr_optFrames]
  rfl

theorem tx_stream_inj {t u : TxArgs} (h : stream (txDigestArgs md5 t) = stream (txDigestArgs md5 u)) :
    t.starts = u.starts ∧ t.ends = u.ends ∧ t.strand = u.strand ∧ t.cds.map (·.2.2) = u.cds.map (·.2.2) := by
  rw [tx_stream, tx_stream] at h
  have h1 := intsStr_inj h
  have h2 := intsStr_inj h1.2
  have h3 := strandSym_inj h2.2
  have h4 := optFramesStr_inj h3.2
  exact ⟨h1.1, h2.1, h3.1, h4.1⟩

/-- CDSInterval: `[starts][ends]<strand>[frames]` then the remaining fields -/
theorem cds_stream (c : CdsArgs) :
    stream (cdsDigestArgs c) =
      intsStr c.starts ++ (intsStr c.ends ++ (strandSym c.strand ++ (framesStr c.frames ++
        stream ((cdsDigestArgs c).drop 4)))) := by
  unfold cdsDigestArgs
  rw [stream_cons_plain (v := ofInts c.starts) rfl, stream_cons_plain (v := ofInts c.ends) rfl,
    stream_cons_plain (isPlain_ofStrand c.strand), stream_cons_plain (v := .list (c.frames.map ofFrame)) rfl,
    pyStr_ofInts, pyStr_ofInts, pyStr_ofStrand, pyStr_frames]
  rfl

theorem cds_stream_inj {c d : CdsArgs} (h : stream (cdsDigestArgs c) = stream (cdsDigestArgs d)) :
    c.starts = d.starts ∧ c.ends = d.ends ∧ c.strand = d.strand ∧ c.frames = d.frames := by
  rw [cds_stream, cds_stream] at h
  have h1 := intsStr_inj h
  have h2 := intsStr_inj h1.2
  have h3 := strandSym_inj h2.2
  have h4 := framesStr_inj h3.2
  exact ⟨h1.1, h2.1, h3.1, h4.1⟩

/-- FeatureInterval: `[starts][ends]<strand>` then the remaining fields -/
theorem feat_stream (f : FeatArgs) :
    stream (featDigestArgs f) =
      intsStr f.starts ++ (intsStr f.ends ++ (strandSym f.strand ++ stream ((featDigestArgs f).drop 3))) := by
  unfold featDigestArgs
  rw [stream_cons_plain (v := ofInts f.starts) rfl, stream_cons_plain (v := ofInts f.ends) rfl,
    stream_cons_plain (isPlain_ofStrand f.strand), pyStr_ofInts, pyStr_ofInts, pyStr_ofStrand]
  rfl

theorem feat_stream_inj {f g : FeatArgs} (h : stream (featDigestArgs f) = stream (featDigestArgs g)) :
    f.starts = g.starts ∧ f.ends = g.ends ∧ f.strand = g.strand := by
  rw [feat_stream, feat_stream] at h
  have h1 := intsStr_inj h
  have h2 := intsStr_inj h1.2
  have h3 := strandSym_inj h2.2
  exact ⟨h1.1, h2.1, h3.1⟩

/-- VariantInterval: `<start><end>` run together, then the remaining fields -/
theorem var_stream (v : VarArgs) :
    stream (varDigestArgs v) = intStr v.start ++ (intStr v.stop ++ stream ((varDigestArgs v).drop 2)) := by
  unfold varDigestArgs
  rw [stream_cons_plain (v := .int v.start) rfl, stream_cons_plain (v := .int v.stop) rfl]
  rfl

/-- the remainder of a variant's stream does not read the coordinates -/
theorem var_rest (v : VarArgs) (s e : Int) :
    (varDigestArgs { v with start := s, stop := e }).drop 2 = (varDigestArgs v).drop 2 := rfl

theorem var_stream_inj_start {v : VarArgs} {s s' : Int}
    (h : stream (varDigestArgs { v with start := s }) = stream (varDigestArgs { v with start := s' })) : s = s' := by
  rw [var_stream, var_stream] at h
  exact intStr_inj (List.append_cancel_right h)

theorem var_stream_inj_stop {v : VarArgs} {e e' : Int}
    (h : stream (varDigestArgs { v with stop := e }) = stream (varDigestArgs { v with stop := e' })) : e = e' := by
  rw [var_stream, var_stream] at h
  have h1 := List.append_cancel_left h
  exact intStr_inj (List.append_cancel_right h1)

/-! ### the GUID of a leaf class does not depend on the insertion order of its qualifiers -/

theorem tx_guid_quals (t : TxArgs) {q q' : Quals} (h : memberTokens (qualsVal q) = memberTokens (qualsVal q')) :
    txGuid md5 { t with quals := q } = txGuid md5 { t with quals := q' } := by
  simp only [txGuid, guidOf, txDigestArgs, encodeObjectForDigest, List.flatMap_cons, h, TxArgs.cdsArgs]

theorem cds_guid_quals (c : CdsArgs) {q q' : Quals} (h : memberTokens (qualsVal q) = memberTokens (qualsVal q')) :
    cdsGuid md5 { c with quals := q } = cdsGuid md5 { c with quals := q' } := by
  simp only [cdsGuid, guidOf, cdsDigestArgs, encodeObjectForDigest, List.flatMap_cons, h]

theorem feat_guid_quals (f : FeatArgs) {q q' : Quals} (h : memberTokens (qualsVal q) = memberTokens (qualsVal q')) :
    featGuid md5 { f with quals := q } = featGuid md5 { f with quals := q' } := by
  simp only [featGuid, guidOf, featDigestArgs, encodeObjectForDigest, List.flatMap_cons, h]

theorem var_guid_quals (v : VarArgs) {q q' : Quals} (h : memberTokens (qualsVal q) = memberTokens (qualsVal q')) :
    varGuid md5 { v with quals := q } = varGuid md5 { v with quals := q' } := by
  simp only [varGuid, guidOf, varDigestArgs, encodeObjectForDigest, List.flatMap_cons, h]

/-- permuting the feature types handed to a FeatureInterval does not change its GUID (they are digested as a set) -/
theorem feat_guid_types (f : FeatArgs) {a b : List Str} (h : a.Perm b) :
    featGuid md5 { f with featureTypes := a } = featGuid md5 { f with featureTypes := b } := by
  have : memberTokens (.set (a.map .str)) = memberTokens (.set (b.map .str)) := by
    rw [memberTokens_set, memberTokens_set, orderSet_perm (h.map _)]
  simp only [featGuid, guidOf, featDigestArgs, encodeObjectForDigest, List.flatMap_cons, this]

/-- a collection's GUID does not depend on the order of its children (their GUIDs are digested as a set) -/
theorem gene_guid_children (g : GeneArgs) (cs : Frame) {txs txs' : List TxArgs} (h : txs.Perm txs') :
    (geneDigestArgs md5 { g with transcripts := txs } cs).map (guidOf md5) =
      (geneDigestArgs md5 { g with transcripts := txs' } cs).map (guidOf md5) := by
  have hs : spanOf (txs.map TxArgs.bounds) = spanOf (txs'.map TxArgs.bounds) := by
    unfold spanOf
    have h1 : ∀ {l l' : List Int}, l.Perm l' → minList l = minList l' ∧ maxList l = maxList l' := by
      intro l l' hp
      induction hp with
      | nil => exact ⟨rfl, rfl⟩
      | @cons x a b _ ih =>
        have e1 : ∀ (y : Int) {u v : List Int}, u.Perm v → u.foldl min y = v.foldl min y := by
          intro y u v huv
          induction huv generalizing y with
          | nil => rfl
          | cons z _ ih => exact ih _
          | swap z w r => simp only [List.foldl_cons]; congr 1; omega
          | trans _ _ i1 i2 => exact (i1 y).trans (i2 y)
        have e2 : ∀ (y : Int) {u v : List Int}, u.Perm v → u.foldl max y = v.foldl max y := by
          intro y u v huv
          induction huv generalizing y with
          | nil => rfl
          | cons z _ ih => exact ih _
          | swap z w r => simp only [List.foldl_cons]; congr 1; omega
          | trans _ _ i1 i2 => exact (i1 y).trans (i2 y)
        rename_i hab
        exact ⟨by simp only [minList, e1 x hab], by simp only [maxList, e2 x hab]⟩
      | swap x y r =>
        refine ⟨?_, ?_⟩
        · simp only [minList, List.foldl_cons]; congr 2; omega
        · simp only [maxList, List.foldl_cons]; congr 2; omega
      | trans _ _ i1 i2 => exact ⟨i1.1.trans i2.1, i1.2.trans i2.2⟩
    have p1 := ((h.map TxArgs.bounds).filterMap (·.1))
    have p2 := ((h.map TxArgs.bounds).filterMap (·.2))
    rw [(h1 p1).1, (h1 p2).2]
  have hset : memberTokens (.set (txs.map fun t => .uuid (txGuid md5 t))) =
      memberTokens (.set (txs'.map fun t => .uuid (txGuid md5 t))) := by
    rw [memberTokens_set, memberTokens_set, orderSet_perm (h.map _)]
  unfold geneDigestArgs
  simp only [hs]
  cases spanOf (txs'.map TxArgs.bounds) with
  | none => rfl
  | some sp =>
    simp only [Option.map_some, guidOf, encodeObjectForDigest, List.flatMap_cons, hset]

/-! ### collections: the stream starts with the rendered span -/

theorem span_inj {a b a' b' : Nat} {s t : Str}
    (h : pyStr (ofSpan a b) ++ s = pyStr (ofSpan a' b') ++ t) : a = a' ∧ b = b' ∧ s = t := by
  simp only [ofSpan, pyStr, intStr, List.append_assoc, List.cons_append, List.nil_append] at h
  -- natStr a ++ '-' :: natStr b ++ ':' :: '+' :: s
  have dig : ∀ (n : Nat) (ch : Char), ch ∈ natStr n → (ch == '-' || ch == ':') = false := by
    intro n ch hc
    have := natStr_digit hc
    cases h1 : (ch == '-' || ch == ':') with
    | false => rfl
    | true =>
      simp only [Bool.or_eq_true, beq_iff_eq] at h1
      rcases h1 with rfl | rfl <;> exact absurd this (by decide)
  have split : ∀ {x y : Str} {c c' : Char} {s t : Str},
      (∀ ch ∈ x, (ch == '-' || ch == ':') = false) → (∀ ch ∈ y, (ch == '-' || ch == ':') = false) →
      (c == '-' || c == ':') = true → (c' == '-' || c' == ':') = true →
      x ++ c :: s = y ++ c' :: t → x = y ∧ c = c' ∧ s = t := by
    intro x
    induction x with
    | nil =>
      intro y c c' s t _ hy hc _ h
      cases y with
      | nil => simpa using h
      | cons b y =>
        simp only [List.nil_append, List.cons_append, List.cons.injEq] at h
        have := hy b (by simp); rw [← h.1, hc] at this; cases this
    | cons a x ih =>
      intro y c c' s t hx hy hc hc' h
      cases y with
      | nil =>
        simp only [List.nil_append, List.cons_append, List.cons.injEq] at h
        have := hx a (by simp); rw [h.1, hc'] at this; cases this
      | cons b y =>
        simp only [List.cons_append, List.cons.injEq] at h
        have := ih (fun ch hch => hx ch (by simp [hch])) (fun ch hch => hy ch (by simp [hch])) hc hc' h.2
        exact ⟨by rw [h.1, this.1], this.2⟩
  have h1 := split (dig a) (dig a') (by decide) (by decide) h
  have h2 := split (dig b) (dig b') (by decide) (by decide) h1.2.2
  have h3 := h2.2.2
  simp only [List.cons.injEq, true_and] at h3
  exact ⟨natStr_inj h1.1, natStr_inj h2.1, h3⟩

/-! ### no list of any class's digest call holds a set or a dict -/

theorem all_atomic_ints (l : List Int) : (l.map PyVal.int).all atomic = true := by
  induction l with
  | nil => rfl
  | cons x xs ih => simp only [List.map_cons, List.all_cons, atomic, ih, Bool.and_self]

theorem all_atomic_frames (l : List CDSFrame) : (l.map ofFrame).all atomic = true := by
  induction l with
  | nil => rfl
  | cons x xs ih => simp only [List.map_cons, List.all_cons, ofFrame, atomic, ih, Bool.and_self]

theorem all_atomic_strs (l : List Str) : (l.map PyVal.str).all atomic = true := by
  induction l with
  | nil => rfl
  | cons x xs ih => simp only [List.map_cons, List.all_cons, atomic, ih, Bool.and_self]

theorem all_atomic_uuids {α : Type} (l : List α) (f : α → Str) : (l.map fun x => PyVal.uuid (f x)).all atomic = true := by
  induction l with
  | nil => rfl
  | cons x xs ih => simp only [List.map_cons, List.all_cons, atomic, ih, Bool.and_self]

theorem listsAtomic_quals (q : Quals) : listsAtomic (qualsVal q) = true := by
  unfold qualsVal
  simp only [listsAtomic]
  induction q with
  | nil => rfl
  | cons e es ih => simp only [List.map_cons, entriesAtomic, listsAtomic, all_atomic_strs, ih, Bool.and_self]

theorem listsAtomic_ofStrand (s : Strand) : listsAtomic (ofStrand s) = true := by cases s <;> rfl
theorem listsAtomic_ofOptStr (s : Option Str) : listsAtomic (ofOptStr s) = true := by cases s <;> rfl
theorem listsAtomic_ofOptInt (s : Option Int) : listsAtomic (ofOptInt s) = true := by cases s <;> rfl
theorem listsAtomic_ofOptBool (s : Option Bool) : listsAtomic (ofOptBool s) = true := by cases s <;> rfl
theorem listsAtomic_ofOptUuid (s : Option Str) : listsAtomic (ofOptUuid s) = true := by cases s <;> rfl
theorem listsAtomic_ofOptBiotype (s : Option Str) : listsAtomic (ofOptBiotype s) = true := by cases s <;> rfl
theorem listsAtomic_ofInts (l : List Int) : listsAtomic (ofInts l) = true := by
  simp only [ofInts, listsAtomic, all_atomic_ints]

theorem listsAtomic_spanVal (lo hi : Int) (fr : Frame) : listsAtomic (spanVal lo hi fr) = true := by
  unfold spanVal; split <;> rfl

theorem tx_args_atomic (t : TxArgs) : (txDigestArgs md5 t).all listsAtomic = true := by
  unfold txDigestArgs
  simp only [List.all_cons, List.all_nil, listsAtomic_ofInts, listsAtomic_ofStrand, listsAtomic_quals,
    listsAtomic_ofOptStr, listsAtomic_ofOptBiotype, listsAtomic, Bool.and_true, Bool.true_and]
  cases t.cds with
  | none => cases t.cdsArgs <;> rfl
  | some c => cases t.cdsArgs <;> simp only [framesVal, cdsGuidVal, listsAtomic, all_atomic_frames, Bool.and_self]

theorem cds_args_atomic (c : CdsArgs) : (cdsDigestArgs c).all listsAtomic = true := by
  unfold cdsDigestArgs
  simp only [List.all_cons, List.all_nil, listsAtomic_ofInts, listsAtomic_ofStrand, listsAtomic_quals,
    listsAtomic_ofOptStr, listsAtomic, all_atomic_frames, Bool.and_true, Bool.true_and]

theorem feat_args_atomic (f : FeatArgs) : (featDigestArgs f).all listsAtomic = true := by
  unfold featDigestArgs
  simp only [List.all_cons, List.all_nil, listsAtomic_ofInts, listsAtomic_ofStrand, listsAtomic_quals,
    listsAtomic_ofOptStr, listsAtomic, all_atomic_strs, Bool.and_true, Bool.true_and]

theorem var_args_atomic (v : VarArgs) : (varDigestArgs v).all listsAtomic = true := by
  unfold varDigestArgs
  simp only [List.all_cons, List.all_nil, listsAtomic_quals, listsAtomic_ofOptStr, listsAtomic_ofOptInt,
    listsAtomic_ofOptUuid, listsAtomic, ofSequence, Bool.and_true, Bool.true_and]

theorem gene_args_atomic (g : GeneArgs) (cs : Frame) (args : List PyVal) (h : geneDigestArgs md5 g cs = some args) :
    args.all listsAtomic = true := by
  unfold geneDigestArgs at h
  cases hs : spanOf (g.transcripts.map TxArgs.bounds) with
  | none => rw [hs] at h; cases h
  | some sp =>
    rw [hs] at h
    simp only [Option.map_some, Option.some.injEq] at h
    subst h
    simp only [List.all_cons, List.all_nil, listsAtomic_quals, listsAtomic_ofOptStr, listsAtomic_ofOptBiotype,
      listsAtomic, listsAtomic_spanVal, all_atomic_uuids, Bool.and_true, Bool.true_and]

theorem fc_args_atomic (c : FcArgs) (cs : Frame) (args : List PyVal) (h : fcDigestArgs md5 c cs = some args) :
    args.all listsAtomic = true := by
  unfold fcDigestArgs at h
  cases hs : spanOf (c.features.map FeatArgs.bounds) with
  | none => rw [hs] at h; cases h
  | some sp =>
    rw [hs] at h
    simp only [Option.map_some, Option.some.injEq] at h
    subst h
    simp only [List.all_cons, List.all_nil, listsAtomic_quals, listsAtomic_ofOptStr,
      listsAtomic, listsAtomic_spanVal, all_atomic_uuids, all_atomic_strs, Bool.and_true, Bool.true_and]

theorem vc_args_atomic (c : VcArgs) (cs : Frame) (args : List PyVal) (h : vcDigestArgs md5 c cs = some args) :
    args.all listsAtomic = true := by
  unfold vcDigestArgs at h
  cases hs : spanOf (c.variants.map fun v => (some v.start, some v.stop)) with
  | none => rw [hs] at h; cases h
  | some sp =>
    rw [hs] at h
    simp only [Option.map_some, Option.some.injEq] at h
    subst h
    simp only [List.all_cons, List.all_nil, listsAtomic_quals, listsAtomic_ofOptStr,
      listsAtomic, listsAtomic_spanVal, all_atomic_uuids, Bool.and_true, Bool.true_and]

end BioCantor.Proofs.Dig
