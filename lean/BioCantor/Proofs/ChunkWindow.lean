/-
  C07-T3 with a codon window: `scan_chunk_relative_codon_locations(lo, hi)` on a chunk-built CDS (code after d8ca372:
  the chunk branch measures the 5' distance on the whole cleaned location).  Window and chunk together act as ONE
  interval `[max lo w.1, min hi w.2)`; the rest is the route of Proofs/ChunkCodons.lean, for either Python type of
  the window-restricted location.
-/
import BioCantor.Proofs.ChunkMain
namespace BioCantor.Proofs.Chunk
open BioCantor BioCantor.Spec BioCantor.Spec.Chunk BioCantor.Model BioCantor.Model.Chunk BioCantor.Proofs
open BioCantor.Proofs.Lift

/-! ### the chunk branch with a codon window (after d8ca372) -/

/-- `liftUp_relBlocks` for either Python type of the chunk-relative location (a SingleInterval when the
    window-restricted location was one) -/
theorem liftUp_crl (w : Blk) (wst : Strand) (hw : wst = .plus ∨ wst = .minus) (letters : List Char)
    (st : Strand) (hst : st = .plus ∨ st = .minus) (P : List Blk) (hPne : P ≠ []) (hP : InWin w P)
    (hpw : P.Pairwise (fun a b => a.2 ≤ b.1)) (crl : Location)
    (hcb : locationBlocks crl = relBlocks w wst P) (hcs : locationStrand? crl = some (strandRelativeTo st wst))
    (hcwf : WF crl) :
    ∃ m, liftUp ⟨w, wst, letters⟩ crl = .ok m ∧
      locationStrand? m = some st ∧ wfLocation m = true ∧ (∀ x ∈ locationBlocks m, x.1 < x.2) ∧
      (locationBlocks m).Pairwise (fun a b => a.2 ≤ b.1) ∧ locationBases m = bases ⟨P, st⟩ := by
  obtain ⟨hcomp, hrdir, _⟩ := compose_rel st wst hst hw
  generalize hrst : strandRelativeTo st wst = rst at *
  generalize hR : relBlocks w wst P = R at hcb
  obtain ⟨hRpos, hRpw⟩ := relBlocks_props w wst P hP hpw
  rw [hR] at hRpos hRpw
  have hRne : R ≠ [] := by rw [← hR]; exact relBlocks_ne_nil w wst P hPne
  have hwsu : wst ≠ .unstranded := by rcases hw with h | h <;> simp [h]
  have hrsu : rst ≠ .unstranded := by rcases hrdir with h | h <;> simp [h]
  have hce : crl ≠ .empty := by intro h; rw [h] at hcs; simp [locationStrand?] at hcs
  have hstrandOf : strandOf crl = rst := strandOf_of crl rst hcs
  have hlenpos : 0 < locLen crl := by
    rw [locLen_eq, hcb]
    cases R with
    | nil => exact absurd rfl hRne
    | cons a t => have := (hRpos a (by simp)).1; simp only [blocksLen, Blk.len]; omega
  have hpllen : (⟨[w], wst⟩ : Loc).len = w.2 - w.1 := by simp [Loc.len, blocksLen, Blk.len]
  have hwv : w.1 ≤ w.2 := by
    cases P with
    | nil => exact absurd rfl hPne
    | cons a t => have := hP a (by simp); omega
  obtain ⟨m, hm, hgm, hperm, hposm, _⟩ := liftOnce_ok crl (.single w wst) hwv
    ⟨[w], wst⟩ rfl hwsu hce hlenpos
    (by intro b hb _; rw [hpllen]; rw [hcb] at hb; exact (hRpos b hb).2)
  rw [hstrandOf] at hgm
  simp only [hcomp] at hgm
  have hposm' := hposm (by simp [nonOverlap])
  have hcbases : locationBases crl = bases ⟨R, rst⟩ := by rw [locationBases_eq crl rst hcs, hcb]
  have hin : ∀ i ∈ locationBases crl, i < (⟨[w], wst⟩ : Loc).len := by
    intro i hi
    rw [hpllen]
    rw [hcbases] at hi
    have hi' : i ∈ basesPlus R := (bases_perm_basesPlus R rst).mem_iff.mp hi
    obtain ⟨b, hb, _, h2⟩ := (mem_basesPlus R i).mp hi'
    have := (hRpos b hb).2; omega
  obtain ⟨hbases, hnom⟩ := liftOnce_exact crl (.single w wst) m hcwf hwv
    ⟨[w], wst⟩ rfl hce (by rw [hstrandOf]; exact hrsu) hwsu hin (by rw [hstrandOf, hcomp]; exact hgm) hperm hposm'
    (by rw [hcb]; exact nonOverlap_of_pairwise R hRpw) (by simp [nonOverlap])
  refine ⟨m, ?_, hgm.1, hgm.2, hposm', ?_, ?_⟩
  · unfold liftUp
    have : (crl == .empty) = false := by
      rw [Bool.eq_false_iff]; intro h; exact hce (by simpa using h)
    rw [this]
    exact hm
  · exact nonOverlap_pairwise _ (fun b hb => Nat.le_of_lt (hposm' b hb)) hnom
  · rw [hbases, hcbases, ← relBlocks_bases w wst hw st hst P hP, hrst, hR]
    apply List.map_congr_left
    intro i hi
    have hi2 : i ∈ locationBases crl := by rw [hcbases]; exact hi
    have := hin i hi2
    rw [hpllen] at this
    exact placement_getD w wst hw i this

/-- lifting the window-restricted location `toSingleIfOne ⟨W, st⟩` onto the chunk: a location (SingleInterval or
    CompoundInterval, as the input) on the chunk-relative images of the in-chunk parts of `W`, which scans into the
    consecutive triples of its reading -/
theorem chunkDown_rel (W : List Blk) (st : Strand) (w : Blk) (wst : Strand)
    (hw : wst = .plus ∨ wst = .minus) (hst : st = .plus ∨ st = .minus) (hwl : w.1 < w.2)
    (hW3 : ∀ b ∈ W, b.1 < b.2) (hW4 : W.Pairwise (fun a b => a.2 ≤ b.1)) (hPne : partsOf W w ≠ []) :
    ∃ crl, chunkDown (toSingleIfOne ⟨W, st⟩) w wst = .ok crl ∧
      locationBlocks crl = relBlocks w wst (partsOf W w) ∧
      locationStrand? crl = some (strandRelativeTo st wst) ∧ WF crl ∧
      ∀ o : Nat, ∃ ms, (if ((locLen crl : Nat) : Int) - (o : Int) ≥ 3 then scanWindows3 crl (o : Int) else pure []) = .ok ms ∧
        codonsMatch (strandRelativeTo st wst)
          (triples ((bases ⟨relBlocks w wst (partsOf W w), strandRelativeTo st wst⟩).drop o)) ms = true := by
  obtain ⟨_, hrdir, _⟩ := compose_rel st wst hst hw
  have hPin := partsOf_inWin W w hwl hW3 hW4
  obtain ⟨_, hPpw⟩ := parts_props w.1 w.2 hwl W hW3 hW4
  obtain ⟨hRpos, hRpw⟩ := relBlocks_props w wst (partsOf W w) hPin hPpw
  match W, hW3, hW4, hPne, hPin, hRpos, hRpw with
  | [b], hW3, hW4, hPne, hPin, hRpos, hRpw =>
    have hov : overlapKernel b w = true := by
      cases ho : overlapKernel b w with
      | true => rfl
      | false => exfalso; apply hPne; simp [partsOf, ho]
    have hcl : max w.1 b.1 < min w.2 b.2 := ((Lift.overlapKernel_iff b w).mp hov).2.2 |> fun h => by
      simp only [Nat.max_comm, Nat.min_comm] at h ⊢; omega
    have hparts : partsOf [b] w = [Proofs.clip w.1 w.2 b] := by simp [partsOf, hov]
    have hrb : relBlocks w wst (partsOf [b] w) = [relBlk w wst b] := by
      rw [hparts, relBlk_eq_relOf]; unfold relBlocks; split <;> rfl
    have hlen : ¬ (w.len = 0) := by unfold Blk.len; omega
    refine ⟨.single (relBlk w wst b) (strandRelativeTo st wst), ?_, ?_, rfl, ?_, ?_⟩
    · show chunkDown (.single b st) w wst = _
      unfold chunkDown
      rw [if_neg hlen]
      simp only [relativeToSingle, hov, if_true, singleRelativeToSingle_ok b st w wst hw hcl]
    · rw [hrb]; rfl
    · exact (relBlk_props w wst b hcl).1
    · intro o
      rw [hrb]
      exact scan_from_single (relBlk w wst b) (strandRelativeTo st wst) hrdir o
  | [], _, _, hPne, _, _, _ => exact absurd rfl hPne
  | a :: b :: r, hW3, hW4, hPne, hPin, hRpos, hRpw =>
    have hRne := relBlocks_ne_nil w wst _ hPne
    have hRv : ∀ x ∈ relBlocks w wst (partsOf (a :: b :: r) w), x.1 ≤ x.2 := fun x hx => Nat.le_of_lt (hRpos x hx).1
    refine ⟨.compound ⟨relBlocks w wst (partsOf (a :: b :: r) w), strandRelativeTo st wst⟩, ?_, rfl, rfl, ?_, ?_⟩
    · show chunkDown (.compound ⟨a :: b :: r, st⟩) w wst = _
      exact chunkDown_closed _ st w wst hw hwl hW3 hW4 hPne
    · have hs : sortBlocks (strandRelativeTo st wst) (relBlocks w wst (partsOf (a :: b :: r) w)) =
          relBlocks w wst (partsOf (a :: b :: r) w) := by
        apply sortBlocks_of_fst_lt
        refine hRpw.imp_of_mem ?_
        intro x y hx _ hxy
        have := (hRpos x hx).1; omega
      have := canon_sortBlocks (strandRelativeTo st wst) hRne hRv
      rw [hs] at this; exact this
    · intro o
      exact scan_from _ (strandRelativeTo st wst) hrdir hRv (nonOverlap_of_pairwise _ hRpw) o

theorem inW_inter (lo hi a b p : Nat) : (inW lo hi p && inW a b p) = inW (max lo a) (min hi b) p := by
  unfold inW
  rw [Bool.eq_iff_iff]
  simp only [Bool.and_eq_true, decide_eq_true_eq]
  omega

/-- **the chunk branch with a codon window** on a prepared ascending location `L` whose restriction to the window
    `[lo, hi)` is `W`: the offset is measured on `L` (d8ca372), the scan of the lifted `W` yields, lifted back, the
    triples of `bases L` lying inside the window AND inside the chunk -/
theorem chunk_core_w (k : ChunkCDS) (L W : List Blk) (lo hi : Nat)
    (hst : k.base.strand = .plus ∨ k.base.strand = .minus)
    (hL2 : L ≠ []) (hL3 : ∀ b ∈ L, b.1 < b.2) (hL4 : L.Pairwise (fun a b => a.2 ≤ b.1))
    (hW3 : ∀ b ∈ W, b.1 < b.2) (hW4 : W.Pairwise (fun a b => a.2 ≤ b.1))
    (hW5 : basesPlus W = (basesPlus L).filter (inW lo hi))
    (hw : k.chunk.wst = .plus ∨ k.chunk.wst = .minus) (hwl : k.chunk.w.1 < k.chunk.w.2)
    (hsome : (bases ⟨L, k.base.strand⟩).filter
      (fun p => inW lo hi p && inW k.chunk.w.1 k.chunk.w.2 p) ≠ []) :
    ∃ (crl : Location) (o : Nat) (ms : List Location), o < 3 ∧
      chunkBranch k (.compound ⟨L, k.base.strand⟩) (toSingleIfOne ⟨W, k.base.strand⟩) = .ok (crl, (o : Int)) ∧
      (if ((locLen crl : Nat) : Int) - (o : Int) ≥ 3 then scanWindows3 crl (o : Int) else pure []) = .ok ms ∧
      chunkCodonsMatch ⟨k.chunk.w, k.chunk.wst⟩ k.base.strand
        ((triples (bases ⟨L, k.base.strand⟩)).filter
          (fun t => t.all (fun p => inW lo hi p && inW k.chunk.w.1 k.chunk.w.2 p))) ms = true := by
  rcases hk : k with ⟨c, kloc, ⟨w, wst, letters⟩⟩
  rw [hk] at hst hw hwl hsome
  simp only at hst hw hwl hsome ⊢
  generalize hstd : c.strand = st at *
  -- the window and the chunk together are one interval
  generalize hJ1 : max lo w.1 = j1
  generalize hJ2 : min hi w.2 = j2
  have hfun : (fun p => inW lo hi p && inW w.1 w.2 p) = inW j1 j2 := by
    funext p; rw [inW_inter, hJ1, hJ2]
  rw [hfun] at hsome ⊢
  generalize hKd : bases ⟨L, st⟩ = K at hsome
  have hjl : j1 < j2 := by
    cases hK0 : K.filter (inW j1 j2) with
    | nil => exact absurd hK0 hsome
    | cons p r =>
      have hp : p ∈ K.filter (inW j1 j2) := by rw [hK0]; simp
      rw [List.mem_filter] at hp
      have := hp.2
      simp only [inW, Bool.and_eq_true, decide_eq_true_eq] at this
      omega
  have hKpw : K.Pairwise (PosLt st) := by
    rw [← hKd, bases_scanOrder L st hst]
    exact readScan_pairwise st _ (scanOrder_before L st hst hL4)
  have hsplit := split3 st j1 j2 (Nat.le_of_lt hjl) K hKpw
  generalize hBf : K.filter (beforeW st j1 j2) = Bf at hsplit
  generalize hIn : K.filter (inW j1 j2) = In at hsplit hsome
  generalize hAf : K.filter (afterW st j1 j2) = Af at hsplit
  -- the in-chunk parts of the window-restricted blocks
  generalize hPd : partsOf W w = P
  have hPin : InWin w P := by rw [← hPd]; exact partsOf_inWin W w hwl hW3 hW4
  obtain ⟨_, hPpw⟩ := parts_props w.1 w.2 hwl W hW3 hW4
  have hPpw' : P.Pairwise (fun a b => a.2 ≤ b.1) := by rw [← hPd]; exact hPpw
  have hPplus : basesPlus P = (basesPlus L).filter (inW j1 j2) := by
    rw [← hPd]
    have := parts_bases w.1 w.2 hwl W hW3
    rw [partsOf, this, hW5, List.filter_filter, ← hfun]
    congr 1
    funext p
    exact Bool.and_comm _ _
  have hPb : bases ⟨P, st⟩ = In := by rw [bases_filter L P st j1 j2 hPplus, hKd, hIn]
  have hPne : P ≠ [] := by
    intro h0; apply hsome; rw [← hPb, h0]; cases st <;> rfl
  obtain ⟨hcomp, hrdir, hrc⟩ := compose_rel st wst hst hw
  obtain ⟨crl, hcd, hcb, hcs, hcwf, hscan⟩ := chunkDown_rel W st w wst hw hst hwl hW3 hW4 (by rw [hPd]; exact hPne)
  rw [hPd] at hcb hscan
  obtain ⟨m, hlift, hmst, hmwf, hmpos, hmpw, hmb⟩ :=
    liftUp_crl w wst hw letters st hst P hPne hPin hPpw' crl hcb hcs hcwf
  -- the offset, measured on the whole location
  generalize hF : locationBlocks m = F at hmpos hmpw
  have hmne : m ≠ .empty := by intro h; rw [h] at hmst; simp [locationStrand?] at hmst
  have hFb : bases ⟨F, st⟩ = In := by rw [← hF, ← locationBases_eq m st hmst, hmb, hPb]
  have hFne : F ≠ [] := by
    intro h0; apply hsome; rw [← hFb, h0]; cases st <;> rfl
  have hLlen : 0 < blocksLen L := by
    cases L with
    | nil => exact absurd rfl hL2
    | cons a t => have := hL3 a (by simp); simp only [blocksLen, Blk.len]; omega
  have hdis : ∀ x ∈ Bf, x ∉ bases ⟨F, st⟩ := by
    intro x hx hxw
    rw [hFb, ← hIn] at hxw
    rw [← hBf] at hx
    simp only [List.mem_filter] at hx hxw
    have := (class_facts st j1 j2 (Nat.le_of_lt hjl) x).1 hx.2
    rw [this.1] at hxw; simp at hxw
  have hoff := frameOffset_window c L F (by rw [hstd]; exact hst) (fun b hb => Nat.le_of_lt (hL3 b hb)) hLlen
    hFne hmpos hmpw Bf Af (by rw [hstd, hKd, hFb]; exact hsplit) (by rw [hstd]; exact hdis)
  rw [hstd] at hoff
  obtain ⟨he1, he2⟩ := ends_toSingle m st hmne
  rw [hF] at he1 he2
  rw [← calculateFrameOffset_congr c (.compound ⟨L, st⟩) m _ he1 he2] at hoff
  generalize hd : Bf.length = d at hoff
  have hoN : (-(d : Int)) % 3 = (((3 - d % 3) % 3 : Nat) : Int) := by omega
  rw [hoN] at hoff
  obtain ⟨ms, hm1, hm2⟩ := hscan ((3 - d % 3) % 3)
  refine ⟨crl, (3 - d % 3) % 3, ms, by omega, ?_, hm1, ?_⟩
  · unfold chunkBranch
    simp only [bind, Except.bind, pure, Except.pure, hcd, hlift, hoff]
  have hB : ∀ x ∈ Bf, inW j1 j2 x = false := by
    intro x hx; rw [← hBf] at hx; simp only [List.mem_filter] at hx
    exact ((class_facts st j1 j2 (Nat.le_of_lt hjl) x).1 hx.2).1
  have hI : ∀ x ∈ In, inW j1 j2 x = true := by
    intro x hx; rw [← hIn] at hx; simp only [List.mem_filter] at hx; exact hx.2
  have hA : ∀ x ∈ Af, inW j1 j2 x = false := by
    intro x hx; rw [← hAf] at hx; simp only [List.mem_filter] at hx
    have f := class_facts st j1 j2 (Nat.le_of_lt hjl) x
    cases hb : beforeW st j1 j2 x with
    | true => exact (f.1 hb).1
    | false =>
      cases hi' : inW j1 j2 x with
      | false => rfl
      | true => have := f.2.1 hi'; rw [hx.2] at this; simp at this
  rw [hsplit, triples_filter_window Bf In Af (inW j1 j2) hB hI hA, hd]
  rw [← window_triples (Bf ++ In ++ Af) d In.length]
  have hslice : ((Bf ++ In ++ Af).drop d).take In.length = In := by
    rw [← hd, List.append_assoc, List.drop_left, List.take_left]
  rw [hslice, ← hPb, ← relBlocks_bases w wst hw st hst P hPin, ← List.map_drop, triples_map]
  exact chunkCodonsMatch_of w wst st _ hrc _ ms hm2

theorem all_and (t : List Nat) (p q : Nat → Bool) : t.all (fun x => p x && q x) = (t.all p && t.all q) := by
  induction t with
  | nil => rfl
  | cons a r ih => simp only [List.all_cons, ih]; cases p a <;> cases q a <;> simp

theorem innerWindowCodons_eq (k : ChunkCDS) (h : WFCDS k.base) (lo hi : Nat) :
    innerWindowCodons (descOf k) (winOf k) lo hi =
      (cdsCodons k.base.loc (specFrames k.base)).filter
        (fun t => t.all (fun p => inW lo hi p && inW k.chunk.w.1 k.chunk.w.2 p)) := by
  unfold innerWindowCodons
  rw [innerCodons_eq k h, List.filter_filter]
  congr 1
  funext t
  rw [all_and]
  congr 1
  congr 1
  funext p
  exact inWin_eq_inW lo hi p

theorem kept_in_both_ne (K : List Nat) (lo hi a b : Nat)
    (h : K.filter (fun p => inW lo hi p && inW a b p) ≠ []) :
    K.filter (inW lo hi) ≠ [] ∧ ∃ x ∈ K, inW a b x = true := by
  cases hf : K.filter (fun p => inW lo hi p && inW a b p) with
  | nil => exact absurd hf h
  | cons x r =>
    have hx : x ∈ K.filter (fun p => inW lo hi p && inW a b p) := by rw [hf]; simp
    rw [List.mem_filter, Bool.and_eq_true] at hx
    refine ⟨?_, x, hx.1, hx.2.2⟩
    intro h0
    have : x ∈ K.filter (inW lo hi) := List.mem_filter.mpr ⟨hx.1, hx.2.1⟩
    rw [h0] at this; simp at this

/-- **C07-T3 with a codon window**, multi-exon CDS: `scan_chunk_relative_codon_locations(lo, hi)` -/
theorem chunkWindowCodons_multi (k : ChunkCDS) (h : WFChunk k) (hmulti : k.base.loc.blocks.length > 1)
    (hshallow : shallowTrim (exonWalk k.base.loc (specFrames k.base)) = true)
    (lo hi : Nat) (hlh : lo < hi) (hseq : ∀ s, k.base.seq = some s → hi ≤ s.length)
    (hsome : (cdsKept k.base.loc (specFrames k.base)).filter
      (fun p => inW lo hi p && inW k.chunk.w.1 k.chunk.w.2 p) ≠ []) :
    okChunkWindowCodons (descOf k) (winOf k) lo hi
      (ans (scanChunkRelativeCodonLocations k (lo : Int) (hi : Int))) = true := by
  obtain ⟨hsomeW, x, hxk, hxin⟩ := kept_in_both_ne _ lo hi _ _ hsome
  have hkept : cdsKept k.base.loc (specFrames k.base) ≠ [] := by
    intro h0; rw [h0] at hxk; simp at hxk
  obtain ⟨stt, L, hlens, hrun, hL1, hL2, hL3, hL4, hL5⟩ := prepareMulti_cleaned k.base h.base hshallow hkept
  have hcs : k.base.strand = k.base.loc.strand := rfl
  have hrel : k.location ≠ .empty := by
    rcases hc : k.base.loc with ⟨bs, st⟩
    rw [hc] at hxk
    have := cdsKept_subset bs st (by have := h.base.dir; rw [hc] at this; exact this) _ x hxk
    exact location_ne_empty k h x (by rw [hc]; exact this) hxin
  have hplus_ne : (basesPlus L).filter (inW lo hi) ≠ [] := by
    intro h0
    apply hsomeW
    rw [← hL5, bases_mk]
    split
    · rw [List.filter_reverse, h0]; rfl
    · exact h0
  obtain ⟨W, hW1, hW2, hW3, hW4, hW5⟩ := intersectWindow_ok L k.base.loc.strand hL3 hL4 lo hi hlh hplus_ne
  obtain ⟨crl, o, ms, _, hbr, hm1, hm2⟩ := chunk_core_w k L W lo hi h.base.dir hL2 hL3 hL4 hW3 hW4 hW5 h.dir h.window
    (by rw [hcs, hL5]; exact hsome)
  rw [hcs] at hbr hm2
  have hrun' : scanChunkRelativeCodonLocations k (lo : Int) (hi : Int) = .ok ms := by
    unfold scanChunkRelativeCodonLocations convertWindow
    simp only [Option.isNone_some, Bool.false_eq_true, and_self, if_false, mkWindow_ok k.base lo hi hlh hseq, bind,
      Except.bind, pure, Except.pure]
    unfold prepareChunkW ChunkCDS.isChunkRelative CDS.numBlocks
    have : (k.location != .empty) = true := by simpa using hrel
    rw [this]
    simp only [not_true_eq_false, if_false, if_pos hmulti, bind, Except.bind, pure, Except.pure,
      cleanedLoc_ok k.base stt L hlens hrun hL1, windowTruthy_pos lo hi hlh, hW1, hbr]
    exact hm1
  rw [hrun']
  simp only [ans_ok, okChunkWindowCodons]
  rw [innerWindowCodons_eq k h.base, cdsCodons, ← hL5]
  exact hm2

/-- **C07-T3 with a codon window**, single-exon CDS with start frame 0 -/
theorem chunkWindowCodons_single (k : ChunkCDS) (h : WFChunk k) (e : Blk) (hone : k.base.loc.blocks = [e])
    (hf : k.base.frames = [.ZERO]) (lo hi : Nat) (hlh : lo < hi)
    (hseq : ∀ s, k.base.seq = some s → hi ≤ s.length)
    (hsome : (cdsKept k.base.loc (specFrames k.base)).filter
      (fun p => inW lo hi p && inW k.chunk.w.1 k.chunk.w.2 p) ≠ []) :
    okChunkWindowCodons (descOf k) (winOf k) lo hi
      (ans (scanChunkRelativeCodonLocations k (lo : Int) (hi : Int))) = true := by
  obtain ⟨hsomeW, x, hxk, hxin⟩ := kept_in_both_ne _ lo hi _ _ hsome
  obtain ⟨f, hf', _, _, hk⟩ := prepareSingle_ok k.base h.base e hone
  have hfz : f = .ZERO := by rw [hf] at hf'; simpa using hf'.symm
  subst hfz
  have hk0 : bases k.base.loc = cdsKept k.base.loc (specFrames k.base) := by simpa [CDSFrame.value] using hk
  have hcs : k.base.strand = k.base.loc.strand := rfl
  have hloc : k.base.loc = ⟨[e], k.base.loc.strand⟩ := by
    rcases hc : k.base.loc with ⟨bs, st⟩
    rw [hc] at hone; simp only at hone; subst hone; rfl
  have hpos : e.1 < e.2 := h.base.positive e (by rw [hone]; simp)
  have hrel : k.location ≠ .empty := by
    rcases hc : k.base.loc with ⟨bs, st⟩
    rw [hc] at hxk
    have := cdsKept_subset bs st (by have := h.base.dir; rw [hc] at this; exact this) _ x hxk
    exact location_ne_empty k h x (by rw [hc]; exact this) hxin
  have hL3 : ∀ b ∈ [e], b.1 < b.2 := by intro b hb; simp at hb; subst hb; exact hpos
  have hplus_ne : (basesPlus [e]).filter (inW lo hi) ≠ [] := by
    intro h0
    apply hsomeW
    rw [← hk0, hloc, bases_mk]
    split
    · rw [List.filter_reverse, h0]; rfl
    · exact h0
  obtain ⟨W, hW1, hW2, hW3, hW4, hW5⟩ := intersectWindow_ok [e] k.base.loc.strand hL3 (by simp) lo hi hlh hplus_ne
  obtain ⟨crl, o, ms, ho3, hbr, hm1, hm2⟩ := chunk_core_w k [e] W lo hi h.base.dir (by simp) hL3 (by simp)
    hW3 hW4 hW5 h.dir h.window (by rw [hcs, ← hloc, hk0]; exact hsome)
  rw [hcs, ← hloc] at hbr hm2
  rw [← hloc] at hW1
  have hrun' : scanChunkRelativeCodonLocations k (lo : Int) (hi : Int) = .ok ms := by
    unfold scanChunkRelativeCodonLocations convertWindow
    simp only [Option.isNone_some, Bool.false_eq_true, and_self, if_false, mkWindow_ok k.base lo hi hlh hseq, bind,
      Except.bind, pure, Except.pure]
    unfold prepareChunkW ChunkCDS.isChunkRelative CDS.numBlocks
    have : (k.location != .empty) = true := by simpa using hrel
    have hnm : ¬ (k.base.loc.blocks.length > 1) := by rw [hone]; simp
    rw [this]
    simp only [not_true_eq_false, if_false, if_neg hnm, hf, List.head?_cons, bind, Except.bind, pure, Except.pure,
      windowTruthy_pos lo hi hlh, hW1, hbr, CDSFrame.value, Int.zero_add]
    exact hm1
  rw [hrun']
  simp only [ans_ok, okChunkWindowCodons]
  rw [innerWindowCodons_eq k h.base, cdsCodons, ← hk0]
  exact hm2

end BioCantor.Proofs.Chunk
