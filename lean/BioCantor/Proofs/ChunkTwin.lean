/-
  C07-T1: chromosome-level answers of a chunk-built CDS / interval are those of the chromosome-built twin.
-/
import BioCantor.Model.Chunk
import BioCantor.Proofs.ChunkLoc
namespace BioCantor.Proofs.Chunk
open BioCantor BioCantor.Spec BioCantor.Spec.Chunk BioCantor.Model BioCantor.Model.Chunk BioCantor.Proofs

theorem bind_ok_inv {α β} {x : R α} {f : α → R β} {b : β} (h : (x >>= f) = .ok b) :
    ∃ a, x = .ok a ∧ f a = .ok b := by
  cases x with
  | error e => simp [bind, Except.bind] at h
  | ok a => exact ⟨a, rfl, h⟩

/-- the codon machinery without a window never looks at the sequence -/
theorem prepare_seq_indep (c : CDS) (s : Option (List Char)) :
    prepare { c with seq := s } none = prepare c none := rfl

theorem codonLocations_seq_indep (c : CDS) (s : Option (List Char)) :
    codonLocations { c with seq := s } = codonLocations c := rfl

theorem numCodons_seq_indep (c : CDS) (s : Option (List Char)) :
    numCodons { c with seq := s } = numCodons c := rfl

/-- **C07-T1 (CDS)** the twins hold the same chromosome-level members and give the same chromosome codons -/
theorem cds_twins_agree (x : CdsD) (letters : List Char) (ch : Model.Chunk.Chunk) (cw : CDS) (k : ChunkCDS)
    (hw : mkWholeCDS x letters = .ok cw) (hk : mkChunkCDS x ch = .ok k) :
    k.base.loc = cw.loc ∧ k.base.start = cw.start ∧ k.base.«end» = cw.«end» ∧ k.base.frames = cw.frames ∧
      chromosomeCodonLocations k = codonLocations cw ∧ numCodonsChunk k = numCodons cw := by
  unfold mkWholeCDS at hw
  unfold mkChunkCDS at hk
  obtain ⟨_, _, hw⟩ := bind_ok_inv hw
  obtain ⟨fs, hfs, hw⟩ := bind_ok_inv hw
  obtain ⟨c, hc, hw⟩ := bind_ok_inv hw
  obtain ⟨_, _, hk⟩ := bind_ok_inv hk
  obtain ⟨fs', hfs', hk⟩ := bind_ok_inv hk
  obtain ⟨c', hc', hk⟩ := bind_ok_inv hk
  rw [hfs] at hfs'
  cases hfs'
  rw [hc] at hc'
  cases hc'
  cases hw
  cases hk
  exact ⟨rfl, rfl, rfl, rfl, rfl, rfl⟩

/-! ### no constructor raises LocationOverlapException: the transcript never drops its CDS -/

/-- the computation does not raise LocationOverlapException -/
def NoOv {α : Type} (x : R α) : Prop := x ≠ .error .LocationOverlap

theorem NoOv.bind {α β : Type} {x : R α} {f : α → R β} (hx : NoOv x) (hf : ∀ a, NoOv (f a)) : NoOv (x >>= f) := by
  cases x with
  | error e =>
    intro h
    have : (Except.error e >>= f : R β) = Except.error e := rfl
    rw [this] at h
    apply hx
    cases h
    rfl
  | ok a => exact hf a
theorem NoOv.pure {α : Type} (a : α) : NoOv (pure a : R α) := by intro h; cases h
theorem NoOv.ok {α : Type} (a : α) : NoOv (.ok a : R α) := by intro h; cases h
theorem NoOv.throw {α : Type} (e : Err) (he : e ≠ .LocationOverlap) : NoOv (throw e : R α) := by
  intro h; apply he; cases h; rfl
theorem NoOv.err {α : Type} (e : Err) (he : e ≠ .LocationOverlap) : NoOv (.error e : R α) := by
  intro h; apply he; cases h; rfl
theorem NoOv.ite {α : Type} (c : Prop) [Decidable c] {x y : R α} (hx : NoOv x) (hy : NoOv y) : NoOv (if c then x else y) := by
  split <;> assumption

theorem noOv_mkSingle (s e : Int) (st : Strand) : NoOv (mkSingle s e st) := by
  unfold mkSingle; exact NoOv.ite _ (NoOv.pure _) (NoOv.throw _ (by decide))

theorem noOv_mkCompoundLoc (bs : List Blk) (st : Strand) : NoOv (mkCompoundLoc bs st) := by
  unfold mkCompoundLoc
  split
  · exact NoOv.throw _ (by decide)
  · simp only
    split
    · exact NoOv.pure _
    · exact NoOv.throw _ (by decide)

theorem noOv_mkCompound (bs : List Blk) (st : Strand) : NoOv (mkCompound bs st) := by
  unfold mkCompound; exact NoOv.bind (noOv_mkCompoundLoc bs st) (fun _ => NoOv.pure _)

theorem noOv_chunkDown (l : Location) (w : Blk) (wst : Strand) : NoOv (chunkDown l w wst) := by
  unfold chunkDown
  split
  · exact NoOv.throw _ (by decide)
  · split
    · exact NoOv.pure _
    · rename_i r hne
      intro h
      exact hne h

theorem noOv_locate (l : Location) (p : Par) : NoOv (locate l p) := by
  cases p with
  | whole letters => unfold locate; exact NoOv.ite _ (NoOv.throw _ (by decide)) (NoOv.pure _)
  | chunk c => exact noOv_chunkDown l c.w c.wst

theorem noOv_initializeLocation (bs : List Blk) (st : Strand) (p : Par) : NoOv (initializeLocation bs st p) := by
  unfold initializeLocation
  refine NoOv.bind ?_ (fun l => noOv_locate l p)
  unfold initialLocation
  split
  · exact noOv_mkSingle _ _ _
  · exact noOv_mkCompound _ _

theorem noOv_liftPy {α : Type} (x : GenP.PyR α) : NoOv (liftPy x) := by
  cases x with
  | ok a => exact NoOv.ok a
  | error e => cases e <;> exact NoOv.err _ (by decide)

theorem noOv_mapM {α β : Type} (f : α → R β) (hf : ∀ a, NoOv (f a)) : ∀ (xs : List α), NoOv (xs.mapM f)
  | [] => by rw [List.mapM_nil]; exact NoOv.pure _
  | x :: xs => by
    rw [List.mapM_cons]
    exact NoOv.bind (hf x) (fun _ => NoOv.bind (noOv_mapM f hf xs) (fun _ => NoOv.pure _))

theorem noOv_framesOf (vals : List Nat) : NoOv (framesOf vals) := by
  unfold framesOf; exact noOv_mapM _ (fun _ => noOv_liftPy _) vals

theorem noOv_mkCDS (exons : List Blk) (st : Strand) (fs : List CDSFrame) (seq : Option (List Char)) :
    NoOv (mkCDS exons st (.frames fs) seq) := by
  unfold NoOv mkCDS
  have h1 := noOv_mkCompoundLoc exons st
  unfold NoOv at h1
  simp only [bind, Except.bind, pure, Except.pure, throw, throwThe, MonadExceptOf.throw]
  repeat' split
  all_goals (first | (intro h; cases h; done) | (intro h; apply h1; simp_all) | simp_all)


theorem noOv_mkCdsNode (x : CdsD) (p : Par) (depth : Nat) : NoOv (mkCdsNode x p depth) := by
  cases p with
  | whole letters =>
    unfold mkCdsNode mkWholeCDS
    refine NoOv.bind (NoOv.bind (noOv_initializeLocation _ _ _) (fun _ => NoOv.bind (noOv_framesOf _) (fun _ =>
      NoOv.bind (noOv_mkCDS _ _ _ _) (fun _ => NoOv.pure _)))) (fun _ => ?_)
    exact NoOv.bind (noOv_initializeLocation _ _ _) (fun _ => NoOv.pure _)
  | chunk ch =>
    unfold mkCdsNode mkChunkCDS
    exact NoOv.bind (NoOv.bind (noOv_initializeLocation _ _ _) (fun _ => NoOv.bind (noOv_framesOf _) (fun _ =>
      NoOv.bind (noOv_mkCDS _ _ _ _) (fun _ => NoOv.pure _)))) (fun _ => NoOv.pure _)

/-! ### the chromosome-level view of a node -/

/-- what the chromosome-level accessors and `to_dict()` show of a node, plus the digest arguments of the classes
    whose digest does not read the chunk-relative location (feature, transcript, CDS) -/
def nodeView (n : Node) : Char × Nat × Nat × Nat × Location × List Tok × Option (List Tok) :=
  (n.tag, n.depth, n.start, n.«end», n.chrom, n.dictKey,
   if n.tag = 'G' ∨ n.tag = 'Q' ∨ n.tag = 'A' then none else some n.guidKey)

/-- **C07-T1 (FeatureInterval)** -/
theorem feat_twins_agree (f : FeatD) (letters : List Char) (ch : Model.Chunk.Chunk) (depth : Nat) (a b : Node)
    (ha : mkFeat f (.whole letters) depth = .ok a) (hb : mkFeat f (.chunk ch) depth = .ok b) :
    nodeView a = nodeView b := by
  unfold mkFeat at ha hb
  obtain ⟨_, _, ha⟩ := bind_ok_inv ha
  obtain ⟨se, hse, ha⟩ := bind_ok_inv ha
  obtain ⟨c, hc, ha⟩ := bind_ok_inv ha
  obtain ⟨_, _, hb⟩ := bind_ok_inv hb
  obtain ⟨se', hse', hb⟩ := bind_ok_inv hb
  obtain ⟨c', hc', hb⟩ := bind_ok_inv hb
  rw [hse] at hse'; cases hse'
  rw [hc] at hc'; cases hc'
  cases ha; cases hb
  rfl

/-- **C07-T1 (CDSInterval)** -/
theorem cdsNode_twins_agree (x : CdsD) (letters : List Char) (ch : Model.Chunk.Chunk) (depth : Nat) (a b : Node)
    (ha : mkCdsNode x (.whole letters) depth = .ok a) (hb : mkCdsNode x (.chunk ch) depth = .ok b) :
    nodeView a = nodeView b := by
  unfold mkCdsNode at ha hb
  obtain ⟨cw, hcw, ha⟩ := bind_ok_inv ha
  obtain ⟨_, _, ha⟩ := bind_ok_inv ha
  obtain ⟨k, hk, hb⟩ := bind_ok_inv hb
  obtain ⟨h1, h2, h3, h4, _, _⟩ := cds_twins_agree x letters ch cw k hcw hk
  cases ha; cases hb
  simp [nodeView, cdsNode, h1, h2, h3, h4]

/-- the CDS part of the transcript constructor: non-coding, or the CDS node — never "dropped" -/
theorem txCds_cases (t : TxD) (p : Par) (depth : Nat) (r : Option (Option Node)) (h : txCds t p depth = .ok r) :
    (t.cds.isEmpty = true ∧ r = none) ∨
    (t.cds.isEmpty = false ∧ ∃ n, mkCdsNode t.cdsD p (depth + 1) = .ok n ∧ r = some (some n)) := by
  unfold txCds at h
  cases hE : t.cds.isEmpty with
  | true => rw [hE, if_pos rfl] at h; cases h; exact Or.inl ⟨rfl, rfl⟩
  | false =>
    rw [hE, if_neg (by simp)] at h
    obtain ⟨⟨cs, ce⟩, _, h⟩ := bind_ok_inv h
    obtain ⟨⟨es, ee⟩, _, h⟩ := bind_ok_inv h
    dsimp only at h
    split at h
    · simp [throw, throwThe, MonadExceptOf.throw, bind, Except.bind] at h
    split at h
    · simp [throw, throwThe, MonadExceptOf.throw, bind, Except.bind] at h
    have hno := noOv_mkCdsNode t.cdsD p (depth + 1)
    cases hm : mkCdsNode t.cdsD p (depth + 1) with
    | error e =>
      rw [hm] at h hno
      cases e <;> first | (exact absurd rfl hno) | (simp [throw, throwThe, MonadExceptOf.throw] at h)
    | ok n =>
      rw [hm] at h
      cases h
      exact Or.inr ⟨rfl, n, rfl, rfl⟩

/-- **C07-T1 (TranscriptInterval)**: the node of the transcript and, when coding, of its CDS -/
theorem tx_twins_agree (t : TxD) (letters : List Char) (ch : Model.Chunk.Chunk) (depth : Nat) (as bs : List Node)
    (ha : mkTx t (.whole letters) depth = .ok as) (hb : mkTx t (.chunk ch) depth = .ok bs) :
    as.map nodeView = bs.map nodeView ∧ (∀ n ∈ bs, n.tag ≠ 'X') := by
  unfold mkTx at ha hb
  obtain ⟨_, _, ha⟩ := bind_ok_inv ha
  obtain ⟨ca, hca, ha⟩ := bind_ok_inv ha
  obtain ⟨sea, hsea, ha⟩ := bind_ok_inv ha
  obtain ⟨cha, hcha, ha⟩ := bind_ok_inv ha
  obtain ⟨fra, hfra, ha⟩ := bind_ok_inv ha
  obtain ⟨_, _, hb⟩ := bind_ok_inv hb
  obtain ⟨cb, hcb, hb⟩ := bind_ok_inv hb
  obtain ⟨seb, hseb, hb⟩ := bind_ok_inv hb
  obtain ⟨chb, hchb, hb⟩ := bind_ok_inv hb
  obtain ⟨frb, hfrb, hb⟩ := bind_ok_inv hb
  rw [hsea] at hseb; cases hseb
  rw [hcha] at hchb; cases hchb
  rw [hfra] at hfrb; cases hfrb
  rcases txCds_cases t _ depth ca hca with ⟨hE, rfl⟩ | ⟨hE, na, hna, rfl⟩
  · rcases txCds_cases t _ depth cb hcb with ⟨_, rfl⟩ | ⟨hE', _⟩
    · cases ha; cases hb
      refine ⟨rfl, ?_⟩
      intro n hn; simp at hn; subst hn; simp
    · rw [hE] at hE'; cases hE'
  · rcases txCds_cases t _ depth cb hcb with ⟨hE', _⟩ | ⟨_, nb, hnb, rfl⟩
    · rw [hE] at hE'; cases hE'
    · have hv := cdsNode_twins_agree t.cdsD letters ch (depth + 1) na nb hna hnb
      cases ha; cases hb
      refine ⟨by simp [nodeView] at hv ⊢; exact hv, ?_⟩
      intro n hn
      simp at hn
      rcases hn with rfl | rfl
      · simp
      · unfold mkCdsNode mkChunkCDS at hnb
        obtain ⟨k, _, hnb⟩ := bind_ok_inv hnb
        cases hnb
        simp [cdsNode]

end BioCantor.Proofs.Chunk
