/-
  C07-T1: chromosome-level answers of a chunk-built CDS / interval are those of the chromosome-built twin.
-/
import BioCantor.Model.Chunk
import BioCantor.Proofs.ChunkLoc
namespace BioCantor.Proofs.Chunk
open BioCantor BioCantor.Spec BioCantor.Spec.Chunk BioCantor.Model BioCantor.Model.Chunk BioCantor.Proofs

theorem bind_ok_inv {α β} {x : R α} {f : α → R β} {b : β} (h : (x >>= f) = .ok b) :
    ∃ a, x = .ok a ∧ f a = .ok b := by
  cases x with
  | error e => simp [bind, Except.bind] at h
  | ok a => exact ⟨a, rfl, h⟩

/-- the codon machinery without a window never looks at the sequence -/
theorem prepare_seq_indep (c : CDS) (s : Option (List Char)) :
    prepare { c with seq := s } none = prepare c none := rfl

theorem codonLocations_seq_indep (c : CDS) (s : Option (List Char)) :
    codonLocations { c with seq := s } = codonLocations c := rfl

theorem numCodons_seq_indep (c : CDS) (s : Option (List Char)) :
    numCodons { c with seq := s } = numCodons c := rfl

/-- **C07-T1 (CDS)** the twins hold the same chromosome-level members and give the same chromosome codons -/
theorem cds_twins_agree (x : CdsD) (letters : List Char) (ch : Model.Chunk.Chunk) (cw : CDS) (k : ChunkCDS)
    (hw : mkWholeCDS x letters = .ok cw) (hk : mkChunkCDS x ch = .ok k) :
    k.base.loc = cw.loc ∧ k.base.start = cw.start ∧ k.base.«end» = cw.«end» ∧ k.base.frames = cw.frames ∧
      chromosomeCodonLocations k = codonLocations cw ∧ numCodonsChunk k = numCodons cw := by
  unfold mkWholeCDS at hw
  unfold mkChunkCDS at hk
  obtain ⟨_, _, hw⟩ := bind_ok_inv hw
  obtain ⟨fs, hfs, hw⟩ := bind_ok_inv hw
  obtain ⟨c, hc, hw⟩ := bind_ok_inv hw
  obtain ⟨_, _, hk⟩ := bind_ok_inv hk
  obtain ⟨fs', hfs', hk⟩ := bind_ok_inv hk
  obtain ⟨c', hc', hk⟩ := bind_ok_inv hk
  rw [hfs] at hfs'
  cases hfs'
  rw [hc] at hc'
  cases hc'
  cases hw
  cases hk
  exact ⟨rfl, rfl, rfl, rfl, rfl, rfl⟩

end BioCantor.Proofs.Chunk
