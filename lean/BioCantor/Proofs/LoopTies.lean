/-
  Ties between the GENERATED block loops of CompoundInterval (`Gen/Kernels.lean`: `CompoundInterval_*` and their
  `_loop<i>` functions, re-translated from /repo's location_impl.py on every run) and the hand-written model
  (`Model/Location.lean`).  Each loop lemma is an induction over the block list with a generalised invariant
  relating the loop function's explicit state to the model's accumulator.
-/
import BioCantor.Proofs.Ties
import BioCantor.Model.LoopGlue
import BioCantor.Model.Algebra
set_option autoImplicit false
namespace BioCantor.Proofs.LoopTies
open BioCantor BioCantor.GenP BioCantor.Proofs.Ties
open BioCantor.Model.LoopGlue (siBlk finishRel siLocation zipBlk finishOpt)

/-- equality of kernel answers is decidable (used by the `by decide` sanity facts on concrete inputs) -/
instance {ε α : Type} [DecidableEq ε] [DecidableEq α] : DecidableEq (Except ε α)
  | .ok a, .ok b => if h : a = b then isTrue (by rw [h]) else isFalse (by intro h'; cases h'; exact h rfl)
  | .error a, .error b => if h : a = b then isTrue (by rw [h]) else isFalse (by intro h'; cases h'; exact h rfl)
  | .ok _, .error _ => isFalse (by intro h; cases h)
  | .error _, .ok _ => isFalse (by intro h; cases h)

/-- the parent-less CompoundInterval with the stored blocks and strand of `l`, as the generated kernels see it -/
def toCI (l : Loc) : CI := ⟨l.blocks.map (fun b => si b l.strand), l.strand⟩

/-- the view the C01 model driver hands to the generated kernels (`Model/LoopGlue.lean`) is the view of the tie
    theorems -/
theorem glue_toCI (l : Loc) : Model.LoopGlue.toCI l = toCI l := rfl
theorem glue_toSI (b : Blk) (st : Strand) : Model.LoopGlue.toSI b st = si b st := rfl
theorem glue_siLocation (s : SI) : siLocation s = siLoc s := rfl
theorem glue_excErr (e : PyExc) : Model.LoopGlue.excErr e = mapExc e := by cases e <;> rfl

theorem siBlk_si (b : Blk) (st : Strand) : siBlk (si b st) = b := by
  unfold siBlk si
  simp only [Int.toNat_natCast]

theorem map_siBlk_si (bs : List Blk) (st : Strand) : (bs.map (fun b => si b st)).map siBlk = bs := by
  induction bs with
  | nil => rfl
  | cons b bs ih => simp only [List.map_cons, siBlk_si, ih]

theorem siBlk_comp_si (st : Strand) : (siBlk ∘ fun b => si b st) = id := by
  funext b
  exact siBlk_si b st

theorem blocksValid_cons' (b : Blk) (bs : List Blk) :
    blocksValid (b :: bs) = true ↔ b.1 ≤ b.2 ∧ blocksValid bs = true := by
  simp only [blocksValid, Bool.and_eq_true, decide_eq_true_eq]

theorem blocksValid_append' (a b : List Blk) :
    blocksValid (a ++ b) = true ↔ blocksValid a = true ∧ blocksValid b = true := by
  induction a with
  | nil => simp [blocksValid]
  | cons x xs ih => simp [blocksValid, ih, and_assoc]

theorem blocksValid_reverse' (bs : List Blk) (h : blocksValid bs = true) : blocksValid bs.reverse = true := by
  induction bs with
  | nil => simp [blocksValid]
  | cons x xs ih =>
    obtain ⟨hb, hv⟩ := (blocksValid_cons' x xs).1 h
    rw [List.reverse_cons, blocksValid_append']
    exact ⟨ih hv, by simp [blocksValid, hb]⟩

/-! ### scan_blocks -/

/-- blocks in 5'→3' order, as `Model.scanBlocks` returns them for a directional strand -/
def scanList (l : Loc) : List Blk := if l.strand = .plus then l.blocks else l.blocks.reverse

theorem scan_eq (l : Loc) (h : l.strand ≠ .unstranded) :
    Gen.CompoundInterval_scan_blocks (toCI l) = .ok ((scanList l).map (fun b => si b l.strand)) := by
  unfold Gen.CompoundInterval_scan_blocks toCI scanList Gen.Strand_assert_directional
  cases hs : l.strand
  · simp
  · simp
  · exact absurd hs h

theorem scan_unstranded (l : Loc) (h : l.strand = .unstranded) :
    Gen.CompoundInterval_scan_blocks (toCI l) = .error .InvalidStrandException := by
  unfold Gen.CompoundInterval_scan_blocks toCI Gen.Strand_assert_directional
  simp [h]

theorem scan_blocks (l : Loc) :
    Agree (List.map siBlk) (Gen.CompoundInterval_scan_blocks (toCI l)) (Model.scanBlocks l) := by
  unfold Agree
  by_cases h : l.strand = .unstranded
  · rw [scan_unstranded l h]
    unfold Model.scanBlocks Model.assertDirectional
    simp [h, view, mapExc]
    rfl
  · rw [scan_eq l h]
    unfold Model.scanBlocks Model.assertDirectional scanList view
    cases hs : l.strand
    · simp [siBlk_comp_si]; rfl
    · simp [siBlk_comp_si]; rfl
    · exact absurd hs h

/-! ### parent_to_relative_pos -/

/-- what the kernel does with the loop's outcome: `return` inside the loop, or the final `raise` -/
def afterP2R : PyR (LoopOut Int Int) → Option (Except Err Int)
  | .ok (.ret v) => some (.ok v)
  | .ok (.done _) => some (.error .InvalidPosition)
  | .error e => (mapExc e).map .error

theorem blkLen_cast (b : Blk) (hb : b.1 ≤ b.2) : ((b.len : Nat) : Int) = (b.2 : Int) - (b.1 : Int) := by
  unfold Blk.len; omega

theorem si_p2r (b : Blk) (st : Strand) (p : Int) :
    Gen.SingleInterval_parent_to_relative_pos (si b st) p
      = if p < (b.1 : Int) ∨ p ≥ (b.2 : Int) then .error .InvalidPositionException
        else if st = .plus then .ok (p - (b.1 : Int))
        else if st = .minus then .ok ((b.2 : Int) - p - 1)
        else .error .InvalidStrandException := rfl

theorem si_len (b : Blk) (st : Strand) : (si b st).«end» - (si b st).start = (b.2 : Int) - (b.1 : Int) := rfl

/-- loop invariant: the loop function on the remaining blocks with state `rel_pos = acc` is `Model.p2rWalk` on the
    remaining blocks with accumulator `acc` -/
theorem p2r_loop (st : Strand) (hst : st ≠ .unstranded) (p : Int) :
    ∀ (bs : List Blk) (acc : Int), blocksValid bs = true →
      afterP2R (Gen.CompoundInterval_parent_to_relative_pos_loop1 p (bs.map (fun b => si b st)) acc)
        = some (Model.p2rWalk st p bs acc) := by
  intro bs
  induction bs with
  | nil => intro acc _; rfl
  | cons b bs ih =>
    intro acc hv
    simp only [blocksValid, Bool.and_eq_true, decide_eq_true_eq] at hv
    have hl := blkLen_cast b hv.1
    simp only [List.map_cons, Gen.CompoundInterval_parent_to_relative_pos_loop1, Model.p2rWalk, si_p2r, si_len]
    unfold Model.singleP2R
    by_cases hp : p < (b.1 : Int) ∨ p ≥ (b.2 : Int)
    · simp only [hp, if_true]
      -- robust to arithmetic-identity rewrites of the `rel_pos += len(block)` line: the new state is compared by omega
      show afterP2R (Gen.CompoundInterval_parent_to_relative_pos_loop1 p _ _)
        = some (Model.p2rWalk st p bs (acc + (b.len : Int)))
      rw [← ih (acc + (b.len : Int)) hv.2]
      congr 2
      omega
    · cases st with
      | unstranded => exact absurd rfl hst
      | plus => simp [hp, afterP2R]; rfl
      | minus => simp [hp, afterP2R]; rfl

theorem p2r_tie (l : Loc) (hv : blocksValid l.blocks = true) (p : Int) :
    Agree id (Gen.CompoundInterval_parent_to_relative_pos (toCI l) p) (Model.compoundP2R l p) := by
  unfold Agree Gen.CompoundInterval_parent_to_relative_pos
  by_cases h : l.strand = .unstranded
  · rw [scan_unstranded l h]
    unfold Model.compoundP2R Model.scanBlocks Model.assertDirectional
    simp [h, view, mapExc]
    rfl
  · rw [scan_eq l h]
    have hv' : blocksValid (scanList l) = true := by
      unfold scanList
      split
      · exact hv
      · exact blocksValid_reverse' _ hv
    have := p2r_loop l.strand h p (scanList l) 0 hv'
    have hm : Model.compoundP2R l p = Model.p2rWalk l.strand p (scanList l) 0 := by
      unfold Model.compoundP2R Model.scanBlocks Model.assertDirectional scanList
      cases hs : l.strand
      · rfl
      · rfl
      · exact absurd hs h
    rw [hm, ← this]
    simp only
    cases Gen.CompoundInterval_parent_to_relative_pos_loop1 p (List.map (fun b => si b l.strand) (scanList l)) 0 with
    | error e => rfl
    | ok o => cases o <;> rfl

/-! ### relative_to_parent_pos -/

theorem toCI_length (l : Loc) (hv : blocksValid l.blocks = true) : (toCI l).length = (l.len : Int) := by
  obtain ⟨bs, st⟩ := l
  unfold toCI CI.length Loc.len
  simp only
  induction bs with
  | nil => rfl
  | cons b bs ih =>
    obtain ⟨hb, hv'⟩ := (blocksValid_cons' b bs).1 hv
    have hl := blkLen_cast b hb
    have := ih hv'
    simp only [List.map_cons, sumLens, blocksLen, si_len] at this ⊢
    omega

theorem zip_map_map {α β γ : Type} (f : α → β) (g : α → γ) (l : List α) :
    List.zip (l.map f) (l.map g) = l.map (fun x => (f x, g x)) := by
  induction l with
  | nil => rfl
  | cons x xs ih => simp only [List.map_cons, List.zip_cons_cons, ih]

/-- (start, end) pairs of the blocks as the zip loop sees them -/
def sePairs (bs : List Blk) : List (Int × Int) := bs.map (fun b => ((b.1 : Int), (b.2 : Int)))

theorem zip_starts_ends (l : Loc) : List.zip (toCI l).starts (toCI l).ends = sePairs l.blocks := by
  unfold toCI CI.starts CI.ends sePairs
  simp only [List.map_map, zip_map_map]
  rfl

theorem zip_starts_ends_rev (l : Loc) :
    List.zip (toCI l).starts.reverse (toCI l).ends.reverse = sePairs l.blocks.reverse := by
  unfold toCI CI.starts CI.ends sePairs
  simp only [List.map_map, ← List.map_reverse, zip_map_map]
  rfl

def afterR2P : PyR (LoopOut Int Int) → Option (Except Err Int)
  | .ok (.ret v) => some (.ok v)
  | .ok (.done _) => some (.error .InvalidPosition)
  | .error e => (mapExc e).map .error

/-- loop invariant: state `rel_pos = r` ↔ the model's remaining offset `r` -/
theorem r2p_loop (plus : Bool) :
    ∀ (bs : List Blk) (r : Nat), blocksValid bs = true →
      afterR2P (Gen.CompoundInterval_relative_to_parent_pos_loop1 plus (sePairs bs) (r : Int))
        = some (match Model.r2pWalk plus bs r with
                | some v => .ok (v : Int)
                | none => .error .InvalidPosition) := by
  intro bs
  induction bs with
  | nil => intro r _; rfl
  | cons b bs ih =>
    intro r hv
    obtain ⟨hb, hv'⟩ := (blocksValid_cons' b bs).1 hv
    have hl := blkLen_cast b hb
    simp only [sePairs, List.map_cons, Gen.CompoundInterval_relative_to_parent_pos_loop1, Model.r2pWalk]
    by_cases hr : r < b.len
    · have hr' : (r : Int) < (b.2 : Int) - (b.1 : Int) := by omega
      simp only [hr, hr', if_true, afterR2P]
      unfold Blk.len at hr
      cases plus
      · simp only [Bool.false_eq_true, if_false, Option.some.injEq, Except.ok.injEq]; omega
      · simp only [if_true, Option.some.injEq, Except.ok.injEq]; omega
    · have hr' : ¬ (r : Int) < (b.2 : Int) - (b.1 : Int) := by omega
      have hsub : (r : Int) - ((b.2 : Int) - (b.1 : Int)) = ((r - b.len : Nat) : Int) := by omega
      simp only [hr, hr', if_false, hsub]
      exact ih (r - b.len) hv'

/-- `Model.compoundR2P` without the monadic sugar -/
theorem compoundR2P_eq (l : Loc) (r : Int) :
    Model.compoundR2P l r =
      if l.strand = .unstranded then .error .InvalidStrand
      else if ¬ (0 ≤ r ∧ r < (l.len : Int)) then .error .InvalidPosition
      else match Model.r2pWalk (l.strand != .minus) (if l.strand = .minus then l.blocks.reverse else l.blocks) r.toNat with
        | some p => .ok (p : Int)
        | none => .error .InvalidPosition := by
  unfold Model.compoundR2P Model.assertDirectional
  cases hs : l.strand <;>
    by_cases hr : 0 ≤ r ∧ r < (l.len : Int) <;>
    simp [hr, bind, Except.bind, pure, Except.pure, throw, throwThe, MonadExceptOf.throw] <;>
    split <;> simp [*]

theorem r2p_tie (l : Loc) (hv : blocksValid l.blocks = true) (r : Int) :
    Agree id (Gen.CompoundInterval_relative_to_parent_pos (toCI l) r) (Model.compoundR2P l r) := by
  unfold Agree Gen.CompoundInterval_relative_to_parent_pos
  rw [compoundR2P_eq, toCI_length l hv]
  have hst : (toCI l).strand = l.strand := rfl
  rw [hst]
  by_cases hr : 0 ≤ r ∧ r < (l.len : Int)
  · have hr2 : ((r.toNat : Nat) : Int) = r := by omega
    cases hs : l.strand with
    | unstranded => rfl
    | plus =>
      have h := r2p_loop true l.blocks r.toNat hv
      rw [hr2] at h
      simp only [Gen.Strand_assert_directional, reduceCtorEq, or_false, not_true_eq_false, if_false, hr,
        zip_starts_ends, and_self]
      have hb : (Strand.plus != Strand.minus) = true := rfl
      rw [hb, ← Option.some.injEq, ← h]
      cases Gen.CompoundInterval_relative_to_parent_pos_loop1 true (sePairs l.blocks) r with
      | error e => rfl
      | ok o => cases o <;> rfl
    | minus =>
      have h := r2p_loop false l.blocks.reverse r.toNat (blocksValid_reverse' _ hv)
      rw [hr2] at h
      simp only [Gen.Strand_assert_directional, reduceCtorEq, false_or, not_true_eq_false, if_false, hr,
        zip_starts_ends_rev, and_self, if_true]
      have hb : (Strand.minus != Strand.minus) = false := rfl
      rw [hb, ← Option.some.injEq, ← h]
      cases Gen.CompoundInterval_relative_to_parent_pos_loop1 false (sePairs l.blocks.reverse) r with
      | error e => rfl
      | ok o => cases o <;> rfl
  · cases hs : l.strand <;> simp [Gen.Strand_assert_directional, hr, view, mapExc]

/-! ### relative_interval_to_parent_location -/

/-- the sub-block the model cuts out of block `b` (relative offsets `s ≤ e` within the block) -/
def subBlk (st : Strand) (b : Blk) (s e : Nat) : Blk := if st = .plus then (b.1 + s, b.1 + e) else (b.2 - e, b.2 - s)

/-- the SingleInterval kernel on a block of a directional location with relative strand PLUS: never raises inside
    the block and keeps the block's strand -/
theorem si_relint (b : Blk) (hb : b.1 ≤ b.2) (st : Strand) (hst : st ≠ .unstranded) (s e : Nat) (hse : s ≤ e)
    (he : e ≤ b.len) :
    Gen.SingleInterval_relative_interval_to_parent_location (si b st) (s : Int) (e : Int) .plus
      = .ok (si (subBlk st b s e) st) := by
  have hl := blkLen_cast b hb
  unfold Blk.len at he
  unfold Gen.SingleInterval_relative_interval_to_parent_location Gen.Strand_relative_to mkSI subBlk si
  cases st with
  | unstranded => exact absurd rfl hst
  | plus =>
    have h1 : (0 : Int) ≤ (s : Int) ∧ (s : Int) ≤ (e : Int) ∧ (e : Int) ≤ (b.2 : Int) - (b.1 : Int) := by omega
    have h2 : (0 : Int) ≤ (b.1 : Int) + (s : Int) ∧ (b.1 : Int) + (s : Int) ≤ (b.1 : Int) + (e : Int) := by omega
    simp [h1, h2]
  | minus =>
    have h1 : (0 : Int) ≤ (s : Int) ∧ (s : Int) ≤ (e : Int) ∧ (e : Int) ≤ (b.2 : Int) - (b.1 : Int) := by omega
    have h2 : (0 : Int) ≤ (b.2 : Int) - (e : Int) ∧ (b.2 : Int) - (e : Int) ≤ (b.2 : Int) - (s : Int) := by omega
    have he2 : e ≤ b.2 := by omega
    have c1 : ((b.2 - e : Nat) : Int) = (b.2 : Int) - (e : Int) := by omega
    have c2 : ((b.2 - s : Nat) : Int) = (b.2 : Int) - (s : Int) := by omega
    simp [h1, h2, he2, c1, c2]

theorem relWalk_cons (st : Strand) (b : Blk) (bs : List Blk) (ts te : Nat) :
    Model.relWalk st (b :: bs) ts te =
      if b.len ≤ ts then Model.relWalk st bs (ts - b.len) te
      else
        if ((te : Int) - ((min b.len (ts + te) - ts : Nat) : Int)) < 1 then [subBlk st b ts (min b.len (ts + te))]
        else subBlk st b ts (min b.len (ts + te)) ::
          Model.relWalk st bs 0 ((te : Int) - ((min b.len (ts + te) - ts : Nat) : Int)).toNat := by
  simp only [Model.relWalk, subBlk]

/-- loop invariant: state (remaining_len_till_start, new_blocks, remaining_len_till_end) = (ts, acc, te) ↔ the
    model's `relWalk` with offsets (ts, te); the loop never raises and never returns, and the blocks it appends are
    exactly the model's sub-blocks, each carrying the location's strand.  `1 ≤ te` is the loop's own invariant
    (it breaks as soon as `remaining_len_till_end < 1`). -/
theorem rel_loop (st : Strand) (hst : st ≠ .unstranded) :
    ∀ (bs : List Blk) (ts te : Nat) (acc : List SI), blocksValid bs = true → 1 ≤ te →
      ∃ a c, Gen.CompoundInterval_relative_interval_to_parent_location_loop1 (bs.map (fun b => si b st))
                (ts : Int) acc (te : Int)
              = .ok (.done (a, acc ++ (Model.relWalk st bs ts te).map (fun b => si b st), c)) := by
  intro bs
  induction bs with
  | nil =>
    intro ts te acc _ _
    exact ⟨ts, te, by simp [Gen.CompoundInterval_relative_interval_to_parent_location_loop1, Model.relWalk]⟩
  | cons b bs ih =>
    intro ts te acc hv hte
    obtain ⟨hb, hv'⟩ := (blocksValid_cons' b bs).1 hv
    have hl := blkLen_cast b hb
    rw [relWalk_cons]
    simp only [List.map_cons, Gen.CompoundInterval_relative_interval_to_parent_location_loop1, si_len]
    by_cases hskip : b.len ≤ ts
    · have h1 : (b.2 : Int) - (b.1 : Int) ≤ (ts : Int) := by omega
      have h2 : (ts : Int) - ((b.2 : Int) - (b.1 : Int)) = ((ts - b.len : Nat) : Int) := by omega
      simp only [hskip, h1, if_true, h2]
      exact ih (ts - b.len) te acc hv' hte
    · have h1 : ¬ (b.2 : Int) - (b.1 : Int) ≤ (ts : Int) := by omega
      have hmin : min ((b.2 : Int) - (b.1 : Int)) ((ts : Int) + (te : Int)) = ((min b.len (ts + te) : Nat) : Int) := by
        omega
      have hk := si_relint b hb st hst ts (min b.len (ts + te)) (by omega) (by omega)
      simp only [hskip, h1, if_false, hmin, hk]
      have hsl : (si (subBlk st b ts (min b.len (ts + te))) st).«end» - (si (subBlk st b ts (min b.len (ts + te))) st).start
          = ((min b.len (ts + te) - ts : Nat) : Int) := by
        unfold subBlk si Blk.len at *
        cases st <;> simp <;> omega
      rw [hsl]
      by_cases hfin : ((te : Int) - ((min b.len (ts + te) - ts : Nat) : Int)) < 1
      · simp only [hfin, if_true]
        exact ⟨0, ((te : Int) - ((min b.len (ts + te) - ts : Nat) : Int)), by simp⟩
      · simp only [hfin, if_false]
        have hcast : ((te : Int) - ((min b.len (ts + te) - ts : Nat) : Int))
            = ((((te : Int) - ((min b.len (ts + te) - ts : Nat) : Int)).toNat : Nat) : Int) := by omega
        obtain ⟨a, c, h⟩ := ih 0 ((te : Int) - ((min b.len (ts + te) - ts : Nat) : Int)).toNat
          (acc ++ [si (subBlk st b ts (min b.len (ts + te))) st]) hv' (by omega)
        rw [← hcast] at h
        exact ⟨a, c, by rw [show ((0 : Nat) : Int) = 0 from rfl] at h; rw [h]; simp⟩

/-- `AgreeK k g m`: the generated kernel stops early (a documented CUT) and `k` is the model's continuation from
    the cut: when the kernel returns `a`, running `k a` IS the model's answer; when the kernel raises, the model
    raises the corresponding documented class. -/
def AgreeK {α β} (k : α → Except Err β) (g : PyR α) (m : Except Err β) : Prop :=
  match g with
  | .ok a => k a = m
  | .error e => ∃ c, mapExc e = some c ∧ m = .error c

/-- generated side of the zero-length branch: `SingleInterval(f t, f t, relative_strand.relative_to(self.strand))`
    after the point map `g` -/
def genPoint (st rst : Strand) (f : Int → Int) (g : PyR Int) : PyR RelOut :=
  match g with
  | .error e => .error e
  | .ok t =>
    match Gen.Strand_relative_to rst st with
    | .error e => .error e
    | .ok t2 =>
      match mkSI (f t) (f t) t2 with
      | .error e => .error e
      | .ok t3 => .ok (RelOut.single t3)

theorem rel_point (st rst : Strand) (g : PyR Int) (m : Except Err Int) (f : Int → Int) (h : Agree id g m) :
    AgreeK (finishRel st) (genPoint st rst f g)
      (do let p ← m; Model.mkSingle (f p) (f p) (Model.strandRelativeTo rst st)) := by
  unfold genPoint
  unfold Agree view at h
  cases g with
  | error e =>
    cases he : mapExc e with
    | none => simp [he] at h
    | some c =>
      simp only [he, Option.map_some, Option.some.injEq] at h
      subst h
      exact ⟨c, he, rfl⟩
  | ok t =>
    simp only [id, Option.some.injEq] at h
    subst h
    simp only [strand_relative_to]
    have hv := view_mkSI (f t) (f t) (Model.strandRelativeTo rst st)
    unfold view at hv
    cases hk : mkSI (f t) (f t) (Model.strandRelativeTo rst st) with
    | error e =>
      rw [hk] at hv
      cases he : mapExc e with
      | none => simp [he] at hv
      | some c =>
        simp only [he, Option.map_some, Option.some.injEq] at hv
        exact ⟨c, he, by simp only [bind, Except.bind]; exact hv.symm⟩
    | ok t3 =>
      rw [hk] at hv
      simp only [Option.some.injEq] at hv
      simp only [AgreeK, finishRel, bind, Except.bind]
      exact hv

theorem rel_tie (l : Loc) (hv : blocksValid l.blocks = true) (rs re : Int) (rst : Strand) :
    AgreeK (finishRel l.strand)
      (Gen.CompoundInterval_relative_interval_to_parent_location (toCI l) rs re rst)
      (Model.compoundRelInterval l rs re rst) := by
  unfold Gen.CompoundInterval_relative_interval_to_parent_location Model.compoundRelInterval
  rw [toCI_length l hv]
  have hst : (toCI l).strand = l.strand := rfl
  rw [hst]
  by_cases h1 : rs > re
  · simp only [h1, if_true]; exact ⟨_, rfl, rfl⟩
  by_cases h2 : rs < 0
  · simp only [h1, h2, if_true, if_false]; exact ⟨_, rfl, rfl⟩
  by_cases h3 : re > (l.len : Int)
  · simp only [h1, h2, h3, if_true, if_false]; exact ⟨_, rfl, rfl⟩
  simp only [h1, h2, h3, if_false]
  by_cases h4 : rs = re
  · subst h4
    simp only [if_true]
    by_cases h5 : 0 < rs ∧ rs = (l.len : Int)
    · rw [if_pos h5, if_pos h5]
      have := rel_point l.strand rst _ _ (fun t => if l.strand = .plus then t + 1 else t) (r2p_tie l hv (rs - 1))
      have e : ∀ (X : Except Err Int) (k : Int → Except Err Location) (f : Int → Int),
          (do let p ← (do let last ← X; pure (f last)); k p) = (do let p ← X; k (f p)) := by
        intro X k f; cases X <;> rfl
      rw [e]
      exact this
    · rw [if_neg h5, if_neg h5]
      exact rel_point l.strand rst _ _ (fun t => t) (r2p_tie l hv rs)
  · simp only [h4, if_false]
    by_cases hu : l.strand = .unstranded
    · rw [scan_unstranded l hu]
      refine ⟨.InvalidStrand, rfl, ?_⟩
      unfold Model.scanBlocks Model.assertDirectional
      simp [hu, bind, Except.bind, throw, throwThe, MonadExceptOf.throw]
    · rw [scan_eq l hu]
      have hv' : blocksValid (scanList l) = true := by
        unfold scanList
        split
        · exact hv
        · exact blocksValid_reverse' _ hv
      obtain ⟨a, c, hloop⟩ := rel_loop l.strand hu (scanList l) rs.toNat (re - rs).toNat [] hv' (by omega)
      have c1 : ((rs.toNat : Nat) : Int) = rs := by omega
      have c2 : (((re - rs).toNat : Nat) : Int) = re - rs := by omega
      rw [c1, c2] at hloop
      have hm : Model.scanBlocks l = .ok (scanList l) := by
        unfold Model.scanBlocks Model.assertDirectional scanList
        cases hs : l.strand
        · rfl
        · rfl
        · exact absurd hs hu
      simp only [hloop, strand_relative_to, List.nil_append, hm]
      simp only [AgreeK, finishRel, map_siBlk_si]
      rfl

/-- at the cut the generated kernel holds exactly the model's sub-blocks, each with the location's strand, and the
    model's new strand -/
theorem rel_blocks_eq (l : Loc) (hv : blocksValid l.blocks = true) (hu : l.strand ≠ .unstranded) (rs re : Int)
    (h0 : 0 ≤ rs) (h1 : rs < re) (h2 : re ≤ (l.len : Int)) (rst : Strand) :
    Gen.CompoundInterval_relative_interval_to_parent_location (toCI l) rs re rst
      = .ok (.blocks ((Model.relWalk l.strand (scanList l) rs.toNat (re - rs).toNat).map (fun b => si b l.strand))
          (Model.strandRelativeTo rst l.strand)) := by
  unfold Gen.CompoundInterval_relative_interval_to_parent_location
  rw [toCI_length l hv]
  have hst : (toCI l).strand = l.strand := rfl
  rw [hst]
  have g1 : ¬ rs > re := by omega
  have g2 : ¬ rs < 0 := by omega
  have g3 : ¬ re > (l.len : Int) := by omega
  have g4 : ¬ rs = re := by omega
  simp only [g1, g2, g3, g4, if_false]
  rw [scan_eq l hu]
  have hv' : blocksValid (scanList l) = true := by
    unfold scanList
    split
    · exact hv
    · exact blocksValid_reverse' _ hv
  obtain ⟨a, c, hloop⟩ := rel_loop l.strand hu (scanList l) rs.toNat (re - rs).toNat [] hv' (by omega)
  have c1 : ((rs.toNat : Nat) : Int) = rs := by omega
  have c2 : (((re - rs).toNat : Nat) : Int) = re - rs := by omega
  rw [c1, c2] at hloop
  simp only [hloop, strand_relative_to, List.nil_append]

/-! ### is_overlapping -/

theorem any_overlap (a : Blk) (bs : List Blk) :
    List.any (List.zip (((a :: bs).map (fun b => (b.1 : Int))).drop 1) ((a :: bs).map (fun b => (b.2 : Int))))
        (fun (x : Int × Int) => decide (x.2 > x.1))
      = !(nonOverlap (a :: bs)) := by
  induction bs generalizing a with
  | nil => rfl
  | cons b rest ih =>
    have := ih b
    simp only [List.map_cons, List.drop_succ_cons, List.drop_zero, List.zip_cons_cons, List.any_cons, nonOverlap,
      Bool.not_and] at this ⊢
    rw [this]
    congr 1
    by_cases h : a.2 ≤ b.1
    · have h' : ¬ (a.2 : Int) > (b.1 : Int) := by omega
      simp [h, h']
    · have h' : (a.2 : Int) > (b.1 : Int) := by omega
      simp [h, h']

theorem is_overlapping_tie (l : Loc) :
    Gen.CompoundInterval_is_overlapping (toCI l) = .ok (!(nonOverlap l.blocks)) := by
  unfold Gen.CompoundInterval_is_overlapping toCI CI.starts CI.ends
  simp only [List.map_map]
  cases hb : l.blocks with
  | nil => rfl
  | cons a bs =>
    have := any_overlap a bs
    simp only [Function.comp_def, si]
    exact congrArg Except.ok this

/-! ### has_overlap (argument a SingleInterval; match_strand = full_span = False) -/

theorem pyAny_ok {α : Type} (f : α → PyR Bool) (g : α → Bool) :
    ∀ (xs : List α), (∀ x ∈ xs, f x = .ok (g x)) → pyAny f xs = .ok (xs.any g) := by
  intro xs
  induction xs with
  | nil => intro _; rfl
  | cons x xs ih =>
    intro h
    have hx := h x (List.mem_cons_self ..)
    simp only [pyAny, hx, List.any_cons]
    cases g x
    · simp only [Bool.false_or]; exact ih (fun y hy => h y (List.mem_cons_of_mem _ hy))
    · rfl

/-- `SingleInterval.has_overlap` (parent-less operands, `other` a SingleInterval, full_span = False): the strand gate,
    then the overlap kernel; never raises -/
theorem si_has_overlap (a b : Blk) (ha : a.1 ≤ a.2) (hb : b.1 ≤ b.2) (sa sb : Strand) (ms : Bool) :
    Gen.SingleInterval_has_overlap (si a sa) (si b sb) ms
      = .ok (if ms = true ∧ sa ≠ sb then false else Model.overlapKernel a b) := by
  unfold Gen.SingleInterval_has_overlap
  rw [Ties.overlap a b ha hb sa sb]
  simp only [si]
  split <;> simp [*]

theorem si_has_overlap_tie (a b : Blk) (ha : a.1 ≤ a.2) (hb : b.1 ≤ b.2) (sa sb : Strand) (ms : Bool) :
    Agree id (Gen.SingleInterval_has_overlap (si a sa) (si b sb) ms)
      (Model.hasOverlap (.single a sa) (.single b sb) ms false) := by
  unfold Agree
  rw [si_has_overlap a b ha hb sa sb ms]
  by_cases h : ms = true ∧ sa ≠ sb
  · rw [if_pos h]
    simp only [Model.hasOverlap, view, id, if_pos h]; rfl
  · rw [if_neg h]
    simp only [Model.hasOverlap, view, id, if_neg h]; rfl

theorem has_overlap_tie (l : Loc) (hv : blocksValid l.blocks = true) (b : Blk) (hb : b.1 ≤ b.2) (sb : Strand)
    (ms : Bool) :
    Agree id (Gen.CompoundInterval_has_overlap (toCI l) (si b sb) ms)
      (Model.hasOverlap (.compound l) (.single b sb) ms false) := by
  unfold Gen.CompoundInterval_has_overlap Agree
  have hvalid : ∀ a ∈ l.blocks, a.1 ≤ a.2 := by
    intro a ha
    have : ∀ (bs : List Blk), blocksValid bs = true → a ∈ bs → a.1 ≤ a.2 := by
      intro bs
      induction bs with
      | nil => intro _ h; cases h
      | cons c cs ih =>
        intro hv h
        obtain ⟨hc, hv'⟩ := (blocksValid_cons' c cs).1 hv
        cases h with
        | head => exact hc
        | tail _ h' => exact ih hv' h'
    exact this _ hv ha
  rw [pyAny_ok _ (fun s => if ms = true ∧ l.strand ≠ sb then false else Model.overlapKernel (siBlk s) b)]
  · unfold toCI Model.hasOverlap
    by_cases hm : ms = true ∧ l.strand ≠ sb
    · have hany : ∀ (xs : List Blk), (xs.any fun _ => false) = false := by
        intro xs; induction xs <;> simp_all
      simp [view, hm, List.any_map, Function.comp_def, hany]
      rfl
    · simp [view, hm, List.any_map, Function.comp_def, siBlk_si]
      rfl
  · intro x hx
    unfold toCI at hx
    simp only [List.mem_map] at hx
    obtain ⟨a, ha, rfl⟩ := hx
    rw [si_has_overlap a b (hvalid a ha) hb, siBlk_si]

/-! ### _combine_blocks / optimize_blocks / optimize_and_combine_blocks -/

/-- starts / ends of a model block list as the generated loop holds them (`new_starts`, `new_ends`) -/
def startsOf (bs : List Blk) : List Int := bs.map (fun b => (b.1 : Int))
def endsOf (bs : List Blk) : List Int := bs.map (fun b => (b.2 : Int))

/-- the loop's state (curr_start, curr_end, new_starts, new_ends) represents the model's (cur, acc):
    the lists are the kept blocks in order, and the running end is the last kept block's end -/
def CombInv (cs ce : Option Int) (ns ne : List Int) (cur : Option Nat) (acc : List Blk) : Prop :=
  ns = startsOf acc.reverse ∧ ne = endsOf acc.reverse ∧
    ((acc = [] ∧ cs = none ∧ ce = none ∧ cur = none) ∨
     (∃ last tail, acc = last :: tail ∧ cs ≠ none ∧ ce = some (last.2 : Int) ∧ cur = some last.2))

theorem combine_loop (preserve : Bool) :
    ∀ (bs : List Blk) (needs : Bool) (cs ce : Option Int) (ns ne : List Int) (cur : Option Nat) (acc : List Blk),
      blocksValid bs = true → CombInv cs ce ns ne cur acc →
      ∃ cs' ce', Gen.CompoundInterval_combine_blocks_loop1 preserve (sePairs bs) needs cs ce ns ne
        = .ok (.done ((Model.combineLoop preserve bs cur acc needs).2, cs', ce',
                      startsOf (Model.combineLoop preserve bs cur acc needs).1,
                      endsOf (Model.combineLoop preserve bs cur acc needs).1)) := by
  intro bs
  induction bs with
  | nil =>
    intro needs cs ce ns ne cur acc _ hinv
    exact ⟨cs, ce, by simp [sePairs, Gen.CompoundInterval_combine_blocks_loop1, Model.combineLoop, hinv.1, hinv.2.1]⟩
  | cons b bs ih =>
    intro needs cs ce ns ne cur acc hv hinv
    obtain ⟨hb, hv'⟩ := (blocksValid_cons' b bs).1 hv
    obtain ⟨hns, hne, hcase⟩ := hinv
    simp only [sePairs, List.map_cons, Gen.CompoundInterval_combine_blocks_loop1]
    rw [show List.map (fun b : Blk => ((b.1 : Int), (b.2 : Int))) bs = sePairs bs from rfl]
    by_cases hz : b.2 - b.1 = 0
    · -- empty block: dropped, needs_combining := True
      have hz' : (b.2 : Int) - (b.1 : Int) = 0 := by omega
      simp only [hz', if_true, Model.combineLoop, hz]
      exact ih true cs ce ns ne cur acc hv' ⟨hns, hne, hcase⟩
    · have hz' : ¬ (b.2 : Int) - (b.1 : Int) = 0 := by omega
      simp only [hz', if_false]
      rcases hcase with ⟨hacc, hcs, hce, hcur⟩ | ⟨last, tail, hacc, hcs, hce, hcur⟩
      · -- base case: first kept block
        subst hacc hcs hce hcur
        simp only [if_true, Model.combineLoop, hz, if_false]
        apply ih
        · exact hv'
        · refine ⟨?_, ?_, Or.inr ⟨b, [], rfl, by simp, rfl, rfl⟩⟩
          · simp [hns, startsOf]
          · simp [hne, endsOf]
      · subst hacc hce hcur
        have hcs' : ¬ cs = none := hcs
        simp only [hcs', if_false, Model.combineLoop, hz]
        have hset : ∀ v : Int, listSetLast ne v = .ok (endsOf tail.reverse ++ [v]) := by
          intro v
          have hne' : ne = endsOf tail.reverse ++ [(last.2 : Int)] := by simp [hne, endsOf]
          rw [hne']
          cases hx : endsOf tail.reverse ++ [(last.2 : Int)] with
          | nil => simp at hx
          | cons y ys => simp only [listSetLast]; rw [← hx]; simp
        have hmax : max (last.2 : Int) (b.2 : Int) = ((max last.2 b.2 : Nat) : Int) := by omega
        cases preserve with
        | true =>
          simp only [if_true, optGet]
          by_cases hc : last.2 = b.1
          · have hc' : (some (last.2 : Int) = some (b.1 : Int)) := by rw [hc]
            simp only [hc', decide_true, if_true, hset, hmax, if_pos hc]
            apply ih
            · exact hv'
            · refine ⟨?_, ?_, Or.inr ⟨_, tail, rfl, hcs, rfl, rfl⟩⟩
              · simp [hns, startsOf]
              · simp [endsOf]
          · have hc' : ¬ (some (last.2 : Int) = some (b.1 : Int)) := by
              intro h; simp only [Option.some.injEq] at h; omega
            simp only [hc', decide_false, Bool.false_eq_true, if_false, if_neg hc]
            apply ih
            · exact hv'
            · refine ⟨?_, ?_, Or.inr ⟨b, last :: tail, rfl, by simp, rfl, rfl⟩⟩
              · simp [hns, startsOf]
              · simp [hne, endsOf]
        | false =>
          simp only [Bool.false_eq_true, if_false, optGet]
          by_cases hc : last.2 ≥ b.1
          · have hc' : (last.2 : Int) ≥ (b.1 : Int) := by omega
            simp only [hc', decide_true, if_true, hset, hmax, if_pos hc]
            apply ih
            · exact hv'
            · refine ⟨?_, ?_, Or.inr ⟨_, tail, rfl, hcs, rfl, rfl⟩⟩
              · simp [hns, startsOf]
              · simp [endsOf]
          · have hc' : ¬ (last.2 : Int) ≥ (b.1 : Int) := by omega
            simp only [hc', decide_false, Bool.false_eq_true, if_false, if_neg hc]
            apply ih
            · exact hv'
            · refine ⟨?_, ?_, Or.inr ⟨b, last :: tail, rfl, by simp, rfl, rfl⟩⟩
              · simp [hns, startsOf]
              · simp [hne, endsOf]

theorem zipBlk_starts_ends (bs : List Blk) : zipBlk (startsOf bs) (endsOf bs) = bs := by
  unfold zipBlk startsOf endsOf
  rw [zip_map_map]
  induction bs with
  | nil => rfl
  | cons b bs ih => simp only [List.map_cons, Int.toNat_natCast, ih]

theorem combine_tie (l : Loc) (hv : blocksValid l.blocks = true) (preserve : Bool) :
    AgreeK (finishOpt l) (Gen.CompoundInterval_combine_blocks (toCI l) preserve) (Model.optimizeLoc preserve l) := by
  unfold Gen.CompoundInterval_combine_blocks Model.optimizeLoc
  obtain ⟨cs', ce', h⟩ := combine_loop preserve l.blocks false none none [] [] none [] hv
    ⟨rfl, rfl, Or.inl ⟨rfl, rfl, rfl, rfl⟩⟩
  simp only [zip_starts_ends, h]
  cases hc : Model.combineLoop preserve l.blocks none [] false with
  | mk nb needs =>
    simp only
    cases needs with
    | false => simp [AgreeK, finishOpt]
    | true =>
      cases nb with
      | nil => simp [AgreeK, finishOpt, startsOf]
      | cons x xs =>
        simp only [startsOf, List.map_cons, ne_eq, reduceCtorEq, not_false_eq_true, not_true_eq_false, if_false,
          AgreeK, finishOpt]
        have := zipBlk_starts_ends (x :: xs)
        simp only [startsOf, List.map_cons] at this
        rw [this]
        simp

theorem optimize_blocks_tie (l : Loc) (hv : blocksValid l.blocks = true) :
    AgreeK (finishOpt l) (Gen.CompoundInterval_optimize_blocks (toCI l)) (Model.optimizeBlocks (.compound l)) := by
  have := combine_tie l hv true
  unfold Gen.CompoundInterval_optimize_blocks Model.optimizeBlocks
  cases hg : Gen.CompoundInterval_combine_blocks (toCI l) true with
  | error e => rw [hg] at this; exact this
  | ok o => rw [hg] at this; exact this

theorem optimize_and_combine_blocks_tie (l : Loc) (hv : blocksValid l.blocks = true) :
    AgreeK (finishOpt l) (Gen.CompoundInterval_optimize_and_combine_blocks (toCI l))
      (Model.optimizeAndCombine (.compound l)) := by
  have := combine_tie l hv false
  unfold Gen.CompoundInterval_optimize_and_combine_blocks Model.optimizeAndCombine
  cases hg : Gen.CompoundInterval_combine_blocks (toCI l) false with
  | error e => rw [hg] at this; exact this
  | ok o => rw [hg] at this; exact this

/-- on a constructor-accepted location the generated `_combine_blocks` never raises (in particular neither the
    `TypeError` of `None >= int` / `max(None, int)` nor the IndexError of `new_ends[-1] = …` is reachable) -/
theorem combine_never_raises (l : Loc) (hv : blocksValid l.blocks = true) (preserve : Bool) :
    ∃ o, Gen.CompoundInterval_combine_blocks (toCI l) preserve = .ok o := by
  unfold Gen.CompoundInterval_combine_blocks
  obtain ⟨cs', ce', h⟩ := combine_loop preserve l.blocks false none none [] [] none [] hv
    ⟨rfl, rfl, Or.inl ⟨rfl, rfl, rfl, rfl⟩⟩
  simp only [zip_starts_ends, h]
  split
  · exact ⟨_, rfl⟩
  · split <;> exact ⟨_, rfl⟩

/-! ### gap_list (the pairwise loop; head cut: the scanned blocks of the optimized location are an argument) -/

def gapOk (gs : List Blk) : Bool := gs.all (fun g => decide (g.1 ≤ g.2))

/-- the kernel's code after the loop: `return gaps` -/
def afterGap : PyR (LoopOut (List SI) (List SI × SI)) → PyR (List SI)
  | .ok (.ret r) => .ok r
  | .ok (.done (g, _)) => .ok g
  | .error e => .error e

theorem gap_loop (self : CI) (st' : Strand) :
    ∀ (rest : List Blk) (b : Blk) (acc : List SI),
      afterGap (Gen.CompoundInterval_gap_list_loop1 self (rest.map (fun x => si x st')) acc (si b st'))
        = if gapOk (Model.gapPairs (b :: rest)) = true
          then .ok (acc ++ (Model.gapPairs (b :: rest)).map (fun g => si g self.strand))
          else .error .InvalidPositionException := by
  intro rest
  induction rest with
  | nil => intro b acc; simp [Gen.CompoundInterval_gap_list_loop1, afterGap, Model.gapPairs, gapOk]
  | cons c rest ih =>
    intro b acc
    have hmin : min (b.2 : Int) (c.2 : Int) = ((min b.2 c.2 : Nat) : Int) := by omega
    have hmax : max (b.1 : Int) (c.1 : Int) = ((max b.1 c.1 : Nat) : Int) := by omega
    simp only [List.map_cons, Gen.CompoundInterval_gap_list_loop1, Model.gapPairs, gapOk, List.all_cons,
      Bool.and_eq_true, decide_eq_true_eq, si, hmin, hmax, mkSI]
    by_cases hg : min b.2 c.2 ≤ max b.1 c.1
    · have hg' : (0 : Int) ≤ ((min b.2 c.2 : Nat) : Int) ∧ ((min b.2 c.2 : Nat) : Int) ≤ ((max b.1 c.1 : Nat) : Int) := by
        omega
      simp only [hg', and_self, if_true, hg, true_and]
      have := ih c (acc ++ [si (min b.2 c.2, max b.1 c.1) self.strand])
      simp only [si, gapOk] at this
      rw [this]
      split <;> simp [*]
    · have hg' : ¬ ((0 : Int) ≤ ((min b.2 c.2 : Nat) : Int) ∧ ((min b.2 c.2 : Nat) : Int) ≤ ((max b.1 c.1 : Nat) : Int)) := by
        omega
      simp only [hg', if_false, hg, false_and, afterGap]

/-- `CompoundInterval.gap_list` after `block_iter = optimized.scan_blocks()`: on the scanned blocks `b :: rest` (any
    strand `st'`) the generated pairwise loop returns the model's `gapPairs`, each gap a SingleInterval on
    `self.strand`, and raises InvalidPositionException exactly when some gap has `min(ends) > max(starts)`. -/
theorem gap_list_tie (l : Loc) (st' : Strand) (b : Blk) (rest : List Blk) :
    Gen.CompoundInterval_gap_list (toCI l) (si b st', rest.map (fun x => si x st'))
      = if gapOk (Model.gapPairs (b :: rest)) = true
        then .ok ((Model.gapPairs (b :: rest)).map (fun g => si g l.strand))
        else .error .InvalidPositionException := by
  have := gap_loop (toCI l) st' rest b []
  rw [show (toCI l).strand = l.strand from rfl] at this
  unfold Gen.CompoundInterval_gap_list
  simp only [List.nil_append] at this ⊢
  rw [← this]
  cases Gen.CompoundInterval_gap_list_loop1 (toCI l) (List.map (fun x => si x st') rest) [] (si b st') with
  | error e => rfl
  | ok o => cases o <;> rfl

end BioCantor.Proofs.LoopTies
