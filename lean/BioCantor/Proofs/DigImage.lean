/-
  C08 helper lemmas, part 5: every object `from_dict` builds is in the state (`…WF`) for which the round trip was
  proved — so ANY imported object survives export → import unchanged.
-/
import BioCantor.Proofs.DigDict
namespace BioCantor.Proofs.Dig
open BioCantor BioCantor.Spec.Digest BioCantor.Model.Digest
open BioCantor.Spec.Qual (Str strLt strLe)

theorem bind_eq_ok {α β : Type} {x : D α} {f : α → D β} {b : β} :
    (x >>= f) = Except.ok b ↔ ∃ a, x = Except.ok a ∧ f a = Except.ok b := by
  cases x with
  | error e => exact ⟨fun h => (by cases h), fun ⟨_, h, _⟩ => (by cases h)⟩
  | ok a => exact ⟨fun h => ⟨a, rfl, h⟩, fun ⟨a', h1, h2⟩ => by cases h1; exact h2⟩

theorem map_eq_ok {α β : Type} {x : D α} {f : α → β} {b : β} :
    Except.map f x = Except.ok b ↔ ∃ a, x = Except.ok a ∧ f a = b := by
  cases x with
  | error e => exact ⟨fun h => (by cases h), fun ⟨_, h, _⟩ => (by cases h)⟩
  | ok a => exact ⟨fun h => ⟨a, rfl, by cases h; rfl⟩, fun ⟨a', h1, h2⟩ => by cases h1; rw [← h2]; rfl⟩

theorem optInts_some {v : PyVal} {l : List Int} (h : optInts v = .ok (some l)) : l ≠ [] := by
  unfold optInts at h
  split at h
  · next ht =>
    rcases map_eq_ok.mp h with ⟨a, ha, hs⟩
    cases hs
    cases v with
    | list vs =>
      intro hl; subst hl
      cases vs with
      | nil => simp [truthy] at ht
      | cons x xs =>
        simp only [asInts, List.mapM_cons] at ha
        rcases bind_eq_ok.mp ha with ⟨_, _, h2⟩
        rcases bind_eq_ok.mp h2 with ⟨_, _, h3⟩
        cases h3
    | _ => cases ha
  · cases h

theorem txCdsOf_wf {cs ce : Option (List Int)} {cf : Option (List CDSFrame)}
    {c : Option (List Int × List Int × List CDSFrame)} (h : txCdsOf cs ce cf = .ok c) : CdsPartWF c := by
  intro s e f hc
  subst hc
  unfold txCdsOf at h
  cases cs with
  | none => cases ce <;> cases h
  | some s' =>
    cases ce with
    | none => cases h
    | some e' =>
      simp only at h
      split at h
      · cases h
      · next h1 =>
        split at h
        · cases h
        · next h2 =>
          cases cf with
          | none => cases h
          | some f' =>
            simp only at h
            split at h
            · cases h
            · next h3 =>
              simp only [Except.ok.injEq, Option.some.injEq, Prod.mk.injEq] at h
              obtain ⟨rfl, rfl, rfl⟩ := h
              simp only [bne_iff_ne, ne_eq, Decidable.not_not, beq_iff_eq] at h1 h2 h3
              refine ⟨?_, h1.symm, h3⟩
              intro hs; subst hs; exact h2 rfl

theorem biotype_names_nonempty : (Gen.biotypes.all fun e => !e.1.isEmpty) = true := by decide +kernel

theorem optBiotype_wf {v : PyVal} {t : Option Str} (h : optBiotype v = .ok t) : BiotypeWF t := by
  intro n hn
  subst hn
  unfold optBiotype at h
  split at h
  · rcases map_eq_ok.mp h with ⟨b, hb, hs⟩
    cases hs
    unfold lookupBiotype at hb
    rcases bind_eq_ok.mp hb with ⟨nm, _, h2⟩
    cases hl : biotypeOfName nm with
    | none => simp [hl] at h2
    | some c =>
      simp only [hl] at h2
      cases h2
      refine ⟨?_, biotypeOfName_idem hl⟩
      -- the canonical name is a table entry
      unfold biotypeOfName at hl
      cases hl2 : Gen.biotypes.lookup nm with
      | none => rw [hl2] at hl; cases hl
      | some val =>
        rw [hl2] at hl
        simp only [Option.map_eq_some_iff] at hl
        rcases hl with ⟨e, he, rfl⟩
        have hm : e ∈ Gen.biotypes := List.mem_of_find?_eq_some he
        have := List.all_eq_true.mp biotype_names_nonempty e hm
        intro hem; rw [hem] at this; cases this
  · cases h

variable (md5 : List Str → Str)

theorem tx_image_wf {d : PyVal} {o : TxObj} (h : txFromDict md5 d = .ok o) : TxWF o := by
  simp only [txFromDict, bind_eq_ok] at h
  obtain ⟨_, _, starts, _, _, _, ends, _, _, _, strand, _, _, _, cs, _, _, _, ce, _, _, _, cf, _, _, _, guid, _,
    _, _, tguid, _, _, _, quals, _, _, _, prim, _, _, _, tid, _, _, _, sym, _, _, _, ty, hty, _, _, sname, _,
    _, _, sguid, _, _, _, pid, _, _, _, prod, _, cds, hcds, heq⟩ := h
  cases heq
  exact ⟨importQuals_wf _, txCdsOf_wf hcds, optBiotype_wf hty⟩

/-- any transcript the importer accepts survives export → import unchanged -/
theorem tx_import_stable {d : PyVal} {o : TxObj} (h : txFromDict md5 d = .ok o) :
    txFromDict md5 (txToDict o) = .ok o := tx_roundtrip md5 o (tx_image_wf md5 h)

theorem cds_image_wf {d : PyVal} {o : CdsObj} (h : cdsFromDict md5 d = .ok o) : CdsWF md5 o := by
  simp only [cdsFromDict, bind_eq_ok] at h
  obtain ⟨_, _, starts, _, _, _, ends, _, _, _, strand, _, _, _, _, _, frames, _, _, _, quals, _, _, _, sname, _,
    _, _, sguid, _, _, _, pid, _, _, _, prod, _, heq⟩ := h
  cases heq
  exact ⟨importQuals_wf _, rfl⟩

theorem cds_import_stable {d : PyVal} {o : CdsObj} (h : cdsFromDict md5 d = .ok o) :
    cdsFromDict md5 (cdsToDict o) = .ok o := cds_roundtrip md5 o (cds_image_wf md5 h)

theorem importTypes_strict {v : PyVal} {l : List Str} (h : importTypes v = .ok l) :
    l.Pairwise (fun a b => strLt a b = true) := by
  unfold importTypes at h
  split at h
  · rcases map_eq_ok.mp h with ⟨a, _, hs⟩
    rw [← hs]
    exact dedupSorted_strict _ (sortStrs_pairwise _)
  · cases h; exact List.Pairwise.nil

theorem feat_image_wf {d : PyVal} {o : FeatObj} (h : featFromDict md5 d = .ok o) : FeatWF o := by
  simp only [featFromDict, bind_eq_ok] at h
  obtain ⟨_, _, starts, _, _, _, ends, _, _, _, strand, _, _, _, quals, _, _, _, sguid, _, _, _, sname, _,
    _, _, types, hty, _, _, fname, _, _, _, fid, _, _, _, guid, _, _, _, fguid, _, _, _, prim, _, heq⟩ := h
  cases heq
  exact ⟨importQuals_wf _, importTypes_strict hty⟩

theorem feat_import_stable {d : PyVal} {o : FeatObj} (h : featFromDict md5 d = .ok o) :
    featFromDict md5 (featToDict o) = .ok o := feat_roundtrip md5 o (feat_image_wf md5 h)

theorem var_image_wf {d : PyVal} {o : VarObj} (h : varFromDict md5 d = .ok o) : VarWF o := by
  simp only [varFromDict, bind_eq_ok] at h
  obtain ⟨_, _, s, _, _, _, e, _, _, _, sq, _, _, _, vt, _, _, _, pb, _, _, _, guid, _, _, _, vguid, _,
    _, _, vname, _, _, _, vid, _, _, _, quals, _, heq⟩ := h
  by_cases hse : (s == e) = true
  · simp [hse] at heq; cases heq
  · simp only [hse, Bool.false_eq_true, if_false] at heq
    cases heq
    exact ⟨importQuals_wf _, by simpa using hse⟩

theorem var_import_stable {d : PyVal} {o : VarObj} (h : varFromDict md5 d = .ok o) :
    varFromDict md5 (varToDict o) = .ok o := var_roundtrip md5 o (var_image_wf md5 h)

/-! ### collections -/

theorem mapM_ok_all {α : Type} {f : PyVal → D α} {P : α → Prop} (hf : ∀ v a, f v = .ok a → P a) :
    ∀ {l : List PyVal} {r : List α}, l.mapM f = .ok r → ∀ a ∈ r, P a
  | [], r, h => by cases h; intro a ha; cases ha
  | v :: vs, r, h => by
    simp only [List.mapM_cons, bind_eq_ok] at h
    obtain ⟨a, ha, as, has, heq⟩ := h
    cases heq
    intro x hx
    rcases List.mem_cons.mp hx with rfl | hx
    · exact hf v _ ha
    · exact mapM_ok_all hf has x hx

theorem mapM_ok_length {α : Type} {f : PyVal → D α} : ∀ {l : List PyVal} {r : List α}, l.mapM f = .ok r →
    r.length = l.length
  | [], r, h => by cases h; rfl
  | v :: vs, r, h => by
    simp only [List.mapM_cons, bind_eq_ok] at h
    obtain ⟨a, _, as, has, heq⟩ := h
    cases heq
    simp [mapM_ok_length has]

theorem gene_image_wf {cs : Frame} {d : PyVal} {o : GeneObj} (h : geneFromDict md5 cs d = .ok o) : GeneWF o := by
  simp only [geneFromDict, bind_eq_ok] at h
  obtain ⟨_, _, _, _, txs, htx, _, _, gid, _, _, _, sym, _, _, _, ty, hty, _, _, lt, _, _, _, quals, _, _, _, sname, _,
    _, _, sguid, _, _, _, guid, _, rest⟩ := h
  by_cases he : txs.isEmpty = true
  · simp [he] at rest; cases rest
  · simp only [he, Bool.false_eq_true, if_false, bind_eq_ok] at rest
    obtain ⟨g, _, heq⟩ := rest
    cases heq
    refine ⟨importQuals_wf _, optBiotype_wf hty, mapM_ok_all (fun v a ha => tx_image_wf md5 ha) htx, ?_⟩
    intro hn; exact he (by simp only at hn; rw [hn]; rfl)

theorem gene_import_stable {cs : Frame} {d : PyVal} {o : GeneObj} (h : geneFromDict md5 cs d = .ok o) :
    geneFromDict md5 cs (geneToDict o) = .ok o := gene_roundtrip md5 cs o (gene_image_wf md5 h)

theorem fc_image_wf {cs : Frame} {d : PyVal} {o : FcObj} (h : fcFromDict md5 cs d = .ok o) : FcWF o := by
  simp only [fcFromDict, bind_eq_ok] at h
  obtain ⟨_, _, _, _, fs, hfs, _, _, name, _, _, _, id, _, _, _, ct, _, _, _, lt, _, _, _, quals, _, _, _, sname, _,
    _, _, sguid, _, _, _, guid, _, rest⟩ := h
  by_cases he : fs.isEmpty = true
  · simp [he] at rest; cases rest
  · simp only [he, Bool.false_eq_true, if_false, bind_eq_ok] at rest
    obtain ⟨g, _, heq⟩ := rest
    cases heq
    refine ⟨importQuals_wf _, mapM_ok_all (fun v a ha => feat_image_wf md5 ha) hfs, ?_⟩
    intro hn; exact he (by simp only at hn; rw [hn]; rfl)

theorem fc_import_stable {cs : Frame} {d : PyVal} {o : FcObj} (h : fcFromDict md5 cs d = .ok o) :
    fcFromDict md5 cs (fcToDict o) = .ok o := fc_roundtrip md5 cs o (fc_image_wf md5 h)

theorem sortVars_pairwise (vs : List VarObj) : (sortVars vs).Pairwise fun a b => a.args.start ≤ b.args.start := by
  have := List.pairwise_mergeSort (le := fun (a b : VarObj) => decide (a.args.start ≤ b.args.start))
    (fun a b c h1 h2 => by simp only [decide_eq_true_eq] at *; omega)
    (fun a b => by simp only [Bool.or_eq_true, decide_eq_true_eq]; omega) vs
  exact this.imp fun h => by simpa using h

theorem vc_image_wf {cs : Frame} {d : PyVal} {o : VcObj} (h : vcFromDict md5 cs d = .ok o) : VcWF o := by
  simp only [vcFromDict, bind_eq_ok] at h
  obtain ⟨_, _, _, _, vs0, hvs, _, _, name, _, _, _, id, _, _, _, quals, _, _, _, sname, _,
    _, _, sguid, _, _, _, guid, _, rest⟩ := h
  by_cases he : vs0.isEmpty = true
  · simp [he] at rest; cases rest
  · simp only [he, Bool.false_eq_true, if_false, bind_eq_ok] at rest
    obtain ⟨g, _, heq⟩ := rest
    cases heq
    have hperm : (sortVars vs0).Perm vs0 := List.mergeSort_perm _ _
    refine ⟨importQuals_wf _, ?_, ?_, sortVars_pairwise vs0⟩
    · intro t ht
      exact mapM_ok_all (fun v a ha => var_image_wf md5 ha) hvs t (hperm.mem_iff.mp ht)
    · intro hn
      have hl := hperm.length_eq
      simp only at hn
      rw [hn] at hl
      cases vs0 with
      | nil => exact he rfl
      | cons _ _ => simp at hl

theorem vc_import_stable {cs : Frame} {d : PyVal} {o : VcObj} (h : vcFromDict md5 cs d = .ok o) :
    vcFromDict md5 cs (vcToDict o) = .ok o := vc_roundtrip md5 cs o (vc_image_wf md5 h)

/-! ### AnnotationCollection and its parent -/

theorem optChildren_ok_all {α : Type} {f : PyVal → D α} {P : α → Prop} (hf : ∀ v a, f v = .ok a → P a)
    {v : PyVal} {r : List α} (h : optChildren f v = .ok r) : ∀ a ∈ r, P a := by
  unfold optChildren at h
  split at h
  · rcases bind_eq_ok.mp h with ⟨l, _, hm⟩
    exact mapM_ok_all hf hm
  · cases h; intro a ha; cases ha

theorem asStr_truthy {v : PyVal} {s : Str} (h : asStr v = .ok s) (ht : truthy v = true) : s ≠ [] := by
  cases v with
  | str t =>
    cases h
    intro hs; subst hs; simp [truthy] at ht
  | _ => cases h

theorem asOptStr_present {v : PyVal} {o : Option Str} (h : asOptStr v = .ok o) (hp : truthyOrPresent v = true) :
    o ≠ none := by
  cases v with
  | none => cases hp
  | str t => cases h; simp
  | _ => cases h

/-- what the importer can return for a parent dictionary: a parent in the state the round trip was proved for, or a
    sequence-less parent that is not typed CHROMOSOME (its custom type / missing name is not exported again) -/
theorem parentFromDict_wf {v : PyVal} {p : ParentDesc} (h : parentFromDict v = .ok p) :
    ParentWF p ∨ ∃ id, p = .bare id false := by
  cases v with
  | none => cases h; exact Or.inl trivial
  | dict kvs =>
    simp only [parentFromDict, bind_eq_ok] at h
    obtain ⟨tyU, _, h⟩ := h
    split at h
    · next hseq =>
      simp only [bind_eq_ok] at h
      obtain ⟨sq, hsq, al, _, h⟩ := h
      have hne := asStr_truthy hsq hseq
      split at h
      · simp only [bind_eq_ok] at h
        obtain ⟨name, _, s, _, e, _, st, _, heq⟩ := h
        cases heq
        exact Or.inl hne
      · split at h
        · cases h
        · next hg =>
          simp only [bind_eq_ok] at h
          obtain ⟨id, hid, heq⟩ := h
          cases heq
          refine Or.inl ⟨hne, ?_⟩
          simp only [Bool.and_eq_true, Bool.not_eq_true', not_and, Bool.not_eq_false] at hg
          by_cases hr : chromIdRepaired = true
          · exact Or.inl hr
          · refine Or.inr (asOptStr_present hid ?_)
            have := hg (by simpa using hr)
            simpa using this
    · split at h
      · simp only [bind_eq_ok] at h
        obtain ⟨id, _, heq⟩ := h
        cases heq
        cases hc : (tyU == some "CHROMOSOME".toList) with
        | true => exact Or.inl (Or.inl rfl)
        | false => exact Or.inr ⟨id, rfl⟩
      · cases h; exact Or.inl trivial
  | _ => cases h

theorem ac_image_wf {d : PyVal} {given : ParentDesc} {o : AcObj} (h : acFromDict md5 d given = .ok o)
    (hp : ParentWF o.parent) : AcWF md5 o := by
  simp only [acFromDict, bind_eq_ok] at h
  obtain ⟨parent, _, _, _, genes, hg, _, _, fcs, hf, _, _, vcs, hv, _, _, name, _, _, _, id, _, _, _, quals, _,
    _, _, sname, _, _, _, sguid, _, _, _, spath, _, _, _, s, _, _, _, e, _, _, _, cw, _, bounds, _, heq⟩ := h
  cases heq
  exact ⟨importQuals_wf _, optChildren_ok_all (fun v a ha => gene_image_wf md5 ha) hg,
    optChildren_ok_all (fun v a ha => fc_image_wf md5 ha) hf,
    optChildren_ok_all (fun v a ha => vc_image_wf md5 ha) hv, hp, rfl⟩

/-- the parent an imported collection ends up with: the one handed in, or the one read from the dictionary -/
theorem ac_image_parent {d : PyVal} {given : ParentDesc} {o : AcObj} (h : acFromDict md5 d given = .ok o) :
    o.parent = given ∨ (given = .none ∧ (ParentWF o.parent ∨ ∃ id, o.parent = .bare id false)) := by
  simp only [acFromDict, bind_eq_ok] at h
  obtain ⟨parent, hpar, _, _, genes, _, _, _, fcs, _, _, _, vcs, _, _, _, name, _, _, _, id, _, _, _, quals, _,
    _, _, sname, _, _, _, sguid, _, _, _, spath, _, _, _, s, _, _, _, e, _, _, _, cw, _, bounds, _, heq⟩ := h
  cases heq
  unfold resolveParent at hpar
  split at hpar
  · cases hpar; exact Or.inl rfl
  · next hn =>
    have hg : given = .none := by simpa using hn
    refine Or.inr ⟨hg, ?_⟩
    split at hpar
    · exact parentFromDict_wf hpar
    · cases hpar; exact Or.inl trivial

theorem ac_import_stable {d : PyVal} {given : ParentDesc} {o : AcObj} (h : acFromDict md5 d given = .ok o)
    (hp : ParentWF o.parent) (ep : Bool) (d' : PyVal) (hd : acToDict o ep = .ok d') :
    acFromDict md5 d' (if ep then .none else o.parent) = .ok o :=
  ac_roundtrip md5 o (ac_image_wf md5 h hp) ep d' hd

/-! ### concrete objects for the non-vacuity examples of Props/C08.lean -/

def exTx : TxObj := ⟨⟨[0, 20], [10, 30], .minus, some ([5, 20], [10, 25], [.ONE, .ZERO]),
    [("note".toList, ["a".toList, "b".toList])], some "tx1".toList, none, some "protein_coding".toList,
    none, none, some "chr1".toList, some true⟩, none, "00".toList, none⟩

theorem exTx_wf : TxWF exTx where
  quals := by unfold QualsWF; decide
  cds := by
    intro s e f h
    simp only [exTx, Option.some.injEq, Prod.mk.injEq] at h
    obtain ⟨rfl, rfl, rfl⟩ := h
    decide
  biotype := by
    intro n h
    simp only [exTx, Option.some.injEq] at h
    subst h
    decide +kernel

def exFeat : FeatObj := ⟨⟨[3, 9], [5, 12], .unstranded, [], none, ["enhancer".toList, "promoter".toList],
    some "f".toList, none, none⟩, none, "01".toList, none⟩

theorem exFeat_wf : FeatWF exFeat := ⟨by unfold QualsWF; decide, by decide⟩

def exCds : CdsObj := ⟨⟨[1], [4], .plus, [.ZERO], none, none, [("k".toList, ["v".toList])]⟩, none, none, []⟩

theorem exCds_wf : CdsWF (fun _ => []) exCds := ⟨by unfold QualsWF; decide, rfl⟩

def exGene : GeneObj := ⟨[exTx], some "g".toList, none, some "protein_coding".toList, none, [], none, none, "02".toList⟩

theorem exGene_wf : GeneWF exGene where
  quals := by unfold QualsWF; decide
  biotype := by
    intro n h
    simp only [exGene, Option.some.injEq] at h
    subst h
    decide +kernel
  children := by intro t ht; simp only [exGene, List.mem_singleton] at ht; subst ht; exact exTx_wf
  nonempty := by decide

def exFc : FcObj := ⟨[exFeat], none, some "fc".toList, none, none, [], none, none, "03".toList⟩

theorem exFc_wf : FcWF exFc where
  quals := by unfold QualsWF; decide
  children := by intro t ht; simp only [exFc, List.mem_singleton] at ht; subst ht; exact exFeat_wf
  nonempty := by decide

def exVc : VcObj := ⟨[⟨⟨3, 5, [], "AC".toList, "SNV".toList, none, none, none⟩, none, "04".toList⟩,
    ⟨⟨3, 4, [], "G".toList, "SNV".toList, none, none, none⟩, none, "05".toList⟩,
    ⟨⟨9, 10, [], "".toList, "deletion".toList, some 1, none, none⟩, none, "06".toList⟩],
    none, none, [], none, none, "07".toList⟩

theorem exVc_wf : VcWF exVc where
  quals := by unfold QualsWF; decide
  children := by
    intro t ht
    simp only [exVc, List.mem_cons, List.mem_nil_iff, or_false] at ht
    rcases ht with rfl | rfl | rfl <;> exact ⟨by unfold QualsWF; decide, by decide⟩
  nonempty := by decide
  sorted := by decide

def exAc : AcObj := ⟨[exGene], [exFc], [], some "ac".toList, none, [], none, none, none, some (10, 14), some true,
  .chunk "ACGT".toList "NT_STRICT".toList "chr1".toList 10 14 .plus, []⟩

theorem exAc_wf : AcWF (fun _ => []) exAc where
  quals := by unfold QualsWF; decide
  genes := by intro g hg; simp only [exAc, List.mem_singleton] at hg; subst hg; exact exGene_wf
  fcs := by intro c hc; simp only [exAc, List.mem_singleton] at hc; subst hc; exact exFc_wf
  vcs := by intro c hc; cases hc
  parent := by show "ACGT".toList ≠ []; decide
  guid := rfl

end BioCantor.Proofs.Dig
