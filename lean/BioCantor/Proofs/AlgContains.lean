/-
  C02-T5: `contains` ⇔ the argument has a position and each of its positions is one of the receiver
  (full spans with `full_span`), gated by strand and parents.

  The library decides it by comparing `len(self ∩ other)` with `len(other)`.  The length of the intersection is the
  double sum of the pairwise block overlaps (`dsum`); for a receiver whose blocks do not overlap this is the number
  of positions (with multiplicity) of the argument that the receiver covers.
-/
import BioCantor.Proofs.AlgOverlap
import BioCantor.Proofs.AlgOptimize
namespace BioCantor.Proofs.Contains
open BioCantor BioCantor.Spec BioCantor.Model BioCantor.Proofs

/-! ### lengths -/

theorem blkAsc_len (b : Blk) : (blkAsc b).length = b.len := by
  simp [blkAsc, Blk.len]

theorem basesPlus_len (bs : List Blk) : (basesPlus bs).length = blocksLen bs := by
  induction bs with
  | nil => rfl
  | cons b bs ih => simp [basesPlus, blocksLen, blkAsc_len, ih]

theorem blocksLen_app (a b : List Blk) : blocksLen (a ++ b) = blocksLen a + blocksLen b := by
  induction a with
  | nil => simp [blocksLen]
  | cons x xs ih => simp [blocksLen, ih]; omega

theorem blocksLen_perm {xs ys : List Blk} (h : xs.Perm ys) : blocksLen xs = blocksLen ys := by
  rw [← basesPlus_len, ← basesPlus_len]
  exact (basesPlus_perm h).length_eq

/-! ### pairwise overlap lengths -/

/-- length of `isectBlk x y`; `0` when the blocks do not overlap -/
def ovl (x y : Blk) : Nat := min x.2 y.2 - max x.1 y.1

/-- sum of the pairwise overlap lengths -/
def dsum (A B : List Blk) : Nat := (A.map (fun x => (B.map (fun y => ovl x y)).sum)).sum

theorem ovl_comm (x y : Blk) : ovl x y = ovl y x := by unfold ovl; omega

theorem ovl_of_not_kernel (x y : Blk) (h : overlapKernel x y = false) : ovl x y = 0 := by
  have := overlapKernel_iff x y
  rw [h] at this
  simp only [Bool.false_eq_true, false_iff] at this
  unfold ovl; omega

theorem len_isectBlk (x y : Blk) : (isectBlk x y).len = ovl x y := rfl

theorem raw_row (x : Blk) (B : List Blk) :
    blocksLen (B.filterMap (fun y => if overlapKernel x y then some (isectBlk x y) else none)) =
      (B.map (fun y => ovl x y)).sum := by
  induction B with
  | nil => rfl
  | cons y B ih =>
    cases h : overlapKernel x y with
    | true => simp [h, blocksLen, ih, len_isectBlk]
    | false => simp [h, ih, ovl_of_not_kernel x y h]

theorem raw_len (A B : List Blk) :
    blocksLen (A.flatMap (fun x => B.filterMap (fun y => if overlapKernel x y then some (isectBlk x y) else none))) =
      dsum A B := by
  induction A with
  | nil => rfl
  | cons x A ih =>
    simp only [List.flatMap_cons, blocksLen_app, ih, raw_row, dsum, List.map_cons, List.sum_cons]

/-- the `any` guard in the block loop of `_intersection_compound_interval` changes nothing -/
theorem guard_redundant (x : Blk) (B : List Blk) :
    (if B.any (fun y => overlapKernel y x) then
        B.filterMap (fun y => if overlapKernel x y then some (isectBlk x y) else none)
      else []) =
      B.filterMap (fun y => if overlapKernel x y then some (isectBlk x y) else none) := by
  cases h : B.any (fun y => overlapKernel y x) with
  | true => simp
  | false =>
    simp only [Bool.false_eq_true, if_false]
    symm
    rw [List.filterMap_eq_nil_iff]
    intro y hy
    have : overlapKernel y x = false := by
      rw [List.any_eq_false] at h
      simpa using h y hy
    rw [overlapKernel_comm] at this
    simp [this]

/-! ### swapping the double sum -/

theorem sum_map_zero {α} (L : List α) : (L.map (fun _ => 0)).sum = 0 := by
  induction L with
  | nil => rfl
  | cons a L ih => simp [ih]

theorem sum_map_add {α} (L : List α) (f g : α → Nat) :
    (L.map (fun y => f y + g y)).sum = (L.map f).sum + (L.map g).sum := by
  induction L with
  | nil => rfl
  | cons a L ih => simp only [List.map_cons, List.sum_cons, ih]; omega

theorem sum_swap {α β} (A : List α) (B : List β) (f : α → β → Nat) :
    (A.map (fun x => (B.map (fun y => f x y)).sum)).sum = (B.map (fun y => (A.map (fun x => f x y)).sum)).sum := by
  induction A with
  | nil => simp [sum_map_zero]
  | cons a A ih =>
    simp only [List.map_cons, List.sum_cons, ih]
    rw [← sum_map_add]

theorem dsum_comm (A B : List Blk) : dsum A B = dsum B A := by
  unfold dsum
  rw [sum_swap]
  simp only [ovl_comm]

/-! ### overlap length = number of covered positions -/

def inBlk (x : Blk) (p : Nat) : Bool := decide (x.1 ≤ p) && decide (p < x.2)

theorem countP_range' (a b s n : Nat) :
    (List.range' s n).countP (fun p => decide (a ≤ p) && decide (p < b)) = min (s + n) b - max s a := by
  induction n generalizing s with
  | zero => simp; omega
  | succ n ih =>
    rw [List.range'_succ, List.countP_cons, ih]
    by_cases h : a ≤ s ∧ s < b
    · simp [h.1, h.2]; omega
    · have : (decide (a ≤ s) && decide (s < b)) = false := by
        rw [Bool.eq_false_iff]; simpa using h
      simp only [this, Bool.false_eq_true, if_false]
      omega

theorem ovl_eq_countP (x y : Blk) : ovl x y = (blkAsc y).countP (inBlk x) := by
  unfold blkAsc inBlk
  rw [countP_range']
  unfold ovl
  omega

theorem countP_or_excl {α} (L : List α) (f g : α → Bool) (h : ∀ p ∈ L, ¬ (f p = true ∧ g p = true)) :
    L.countP (fun p => f p || g p) = L.countP f + L.countP g := by
  induction L with
  | nil => rfl
  | cons a L ih =>
    have ih' := ih (fun p hp => h p (List.mem_cons_of_mem _ hp))
    have ha := h a (by simp)
    simp only [List.countP_cons, ih']
    cases hf : f a <;> cases hg : g a <;> simp_all <;> omega

theorem sum_countP_disjoint (A : List Blk) (L : List Nat) (hp : A.Pairwise (fun a a' => a.2 ≤ a'.1)) :
    (A.map (fun x => L.countP (inBlk x))).sum = L.countP (coversBlocks A) := by
  induction A with
  | nil =>
    have : coversBlocks [] = fun _ => false := by funext p; rfl
    simp [this]
  | cons a A ih =>
    rw [List.pairwise_cons] at hp
    have e : coversBlocks (a :: A) = fun p => inBlk a p || coversBlocks A p := by
      funext p; rw [coversBlocks_cons]; rfl
    rw [e, countP_or_excl]
    · simp only [List.map_cons, List.sum_cons, ih hp.2]
    · intro p _ ⟨h1, h2⟩
      rw [coversBlocks_iff] at h2
      obtain ⟨a', ha', h3⟩ := h2
      have := hp.1 a' ha'
      simp only [inBlk, Bool.and_eq_true, decide_eq_true_eq] at h1
      omega

theorem dsum_eq_countP (A B : List Blk) (hp : A.Pairwise (fun a a' => a.2 ≤ a'.1)) :
    dsum A B = (basesPlus B).countP (coversBlocks A) := by
  unfold dsum
  rw [sum_swap]
  induction B with
  | nil => rfl
  | cons y B ih =>
    simp only [List.map_cons, List.sum_cons, ih, basesPlus, List.countP_append]
    congr 1
    simp only [ovl_eq_countP]
    exact sum_countP_disjoint A (blkAsc y) hp

/-- for a receiver without self-overlap: the intersection is as long as the argument ⇔ every position of the
    argument is covered -/
theorem dsum_eq_len_iff (A B : List Blk) (hp : A.Pairwise (fun a a' => a.2 ≤ a'.1)) :
    dsum A B = blocksLen B ↔ ∀ p, coversBlocks B p = true → coversBlocks A p = true := by
  rw [dsum_eq_countP A B hp, ← basesPlus_len, List.countP_eq_length]
  constructor
  · intro h p hp'; exact h p ((coversBlocks_iff_mem_basesPlus B p).mp hp')
  · intro h p hp'; exact h p ((coversBlocks_iff_mem_basesPlus B p).mpr hp')

/-! ### the raw block lists of the intersection loops -/

theorem isectBlk_pos (x y : Blk) (h : overlapKernel x y = true) : (isectBlk x y).1 < (isectBlk x y).2 := by
  have := (overlapKernel_iff x y).mp h
  simpa only [isectBlk] using this

theorem rawCS_len (A : List Blk) (b : Blk) :
    blocksLen (A.filterMap (fun x => if overlapKernel x b then some (isectBlk x b) else none)) = dsum A [b] := by
  induction A with
  | nil => rfl
  | cons x A ih =>
    have e : dsum (x :: A) [b] = ovl x b + dsum A [b] := by simp [dsum]
    cases h : overlapKernel x b with
    | true => simp [h, blocksLen, ih, len_isectBlk, e]
    | false => simp [h, ih, ovl_of_not_kernel x b h, e]

theorem rawCS_pos (A : List Blk) (b : Blk) :
    ∀ z ∈ A.filterMap (fun x => if overlapKernel x b then some (isectBlk x b) else none), z.1 < z.2 := by
  intro z hz
  rw [List.mem_filterMap] at hz
  obtain ⟨x, _, hx⟩ := hz
  cases h : overlapKernel x b with
  | true =>
    simp only [h, if_true, Option.some.injEq] at hx
    subst hx
    exact isectBlk_pos x b h
  | false => simp [h] at hx

theorem rawCS_ex (A : List Blk) (b : Blk) (h : ∃ p, coversBlocks A p = true ∧ coversBlocks [b] p = true) :
    ∃ z, z ∈ A.filterMap (fun x => if overlapKernel x b then some (isectBlk x b) else none) := by
  have := (any_kernel_cov A b).mpr h
  rw [List.any_eq_true] at this
  obtain ⟨x, hx, hk⟩ := this
  exact ⟨isectBlk x b, List.mem_filterMap.mpr ⟨x, hx, by simp [hk]⟩⟩

theorem rawCC_pos (A B : List Blk) :
    ∀ z ∈ A.flatMap (fun x => B.filterMap (fun y => if overlapKernel x y then some (isectBlk x y) else none)),
      z.1 < z.2 := by
  intro z hz
  rw [List.mem_flatMap] at hz
  obtain ⟨x, _, hz⟩ := hz
  rw [List.mem_filterMap] at hz
  obtain ⟨y, _, hy⟩ := hz
  cases h : overlapKernel x y with
  | true =>
    simp only [h, if_true, Option.some.injEq] at hy
    subst hy
    exact isectBlk_pos x y h
  | false => simp [h] at hy

theorem rawCC_ex (A B : List Blk) (h : ∃ p, coversBlocks A p = true ∧ coversBlocks B p = true) :
    ∃ z, z ∈ A.flatMap (fun x => B.filterMap (fun y => if overlapKernel x y then some (isectBlk x y) else none)) := by
  have := (any_any_kernel_cov A B).mpr h
  rw [List.any_eq_true] at this
  obtain ⟨x, hx, hk⟩ := this
  rw [List.any_eq_true] at hk
  obtain ⟨y, hy, hk⟩ := hk
  rw [overlapKernel_comm] at hk
  exact ⟨isectBlk x y, List.mem_flatMap.mpr ⟨x, hx, List.mem_filterMap.mpr ⟨y, hy, by simp [hk]⟩⟩⟩

/-! ### the intersection does not raise, and its length -/

theorem covX_false (l : Location) (p : Nat) : covX false l p = locationCovers l p := by simp [covX]

theorem locLen_eq (r : Location) : locLen r = blocksLen (locationBlocks r) := by
  cases r <;> simp [locLen, locationBlocks, blocksLen, Loc.len]

theorem hasOverlap_true (x y : Location) (hx : WF x) (hy : WF y) (ms : Bool)
    (hg : strandGate x y ms = true) (hc : ∃ p, locationCovers x p = true ∧ locationCovers y p = true) :
    hasOverlap x y ms false = .ok true := by
  obtain ⟨p, h1, h2⟩ := hc
  have hne : y ≠ .empty := by rintro rfl; simp [locationCovers] at h2
  rw [hasOverlap_spec x y hx hy ms false (fun h => hne h.2.1), hg]
  have : anyUpTo (hiOf [x, y]) (fun p => covX false x p && covX false y p) = true :=
    (anyUpTo_cov false x y).mpr ⟨p, by simpa [covX_false] using h1, by simpa [covX_false] using h2⟩
  rw [this]; rfl

/-- `CompoundInterval(raw).optimize_blocks()` for a list of valid blocks one of which is not empty -/
theorem mkopt (raw : List Blk) (st : Strand) (hv : ∀ b ∈ raw, b.1 < b.2) (hex : ∃ z, z ∈ raw) :
    ∃ r, (mkCompoundLoc raw st >>= fun c => optimizeLoc true c) = .ok r ∧ locLen r = blocksLen raw ∧
      wfLocation r = true ∧ r ≠ .empty := by
  obtain ⟨z, hz⟩ := hex
  have hzp := hv z hz
  have hne : raw ≠ [] := by rintro rfl; cases hz
  have hv' : ∀ b ∈ raw, b.1 ≤ b.2 := fun b hb => Nat.le_of_lt (hv b hb)
  rw [mkCompoundLoc_ok st hne hv', ok_bind]
  obtain ⟨r, hr, hs⟩ := optimizeLoc_spec true (sortBlocks st raw) st (canon_sortBlocks st hne hv')
  refine ⟨r, hr, ?_, hs.wf, ?_⟩
  · rw [locLen_eq, ← basesPlus_len, (hs.bases rfl).length_eq, basesPlus_len, blocksLen_perm (sortBlocks_perm st raw)]
  · rintro rfl
    have := hs.cov z.1
    rw [coversBlocks_sort] at this
    have h2 : coversBlocks raw z.1 = true := by rw [coversBlocks_iff]; exact ⟨z, hz, Nat.le_refl _, hzp⟩
    rw [h2] at this; simp [locationBlocks, coversBlocks] at this

theorem strandGate_cs_sc (la : Loc) (b : Blk) (sb : Strand) (ms : Bool) :
    strandGate (.compound la) (.single b sb) ms = strandGate (.single b sb) (.compound la) ms := by
  simp only [strandGate, strandEq, locationStrand?]
  cases ms <;> cases sb <;> cases la.strand <;> rfl

theorem gate_not (x y : Location) (sx sy : Strand) (ms : Bool) (hx : locationStrand? x = some sx)
    (hy : locationStrand? y = some sy) (hg : strandGate x y ms = true) : ¬ (ms = true ∧ sx ≠ sy) := by
  rintro ⟨rfl, hne⟩
  simp only [strandGate, strandEq, hx, hy, Bool.not_true, Bool.false_or, beq_iff_eq] at hg
  exact hne hg

theorem isectSS_len (x : Blk) (sa : Strand) (y : Blk) (sb : Strand) (ms : Bool)
    (hg : strandGate (.single x sa) (.single y sb) ms = true) (hk : overlapKernel x y = true) :
    isectSS x sa y sb ms = .ok (.single (isectBlk x y) sa) := by
  have hns := gate_not _ _ sa sb ms rfl rfl hg
  have hp := Nat.le_of_lt (isectBlk_pos x y hk)
  unfold isectSS mkSingleN
  simp only [hns, if_false, hk, Bool.not_true, Bool.false_eq_true, hp, if_true]
  rfl

theorem isectCS_len (la : Loc) (hla : la.Canon) (b : Blk) (sb : Strand) (hb : b.1 ≤ b.2) (ms : Bool)
    (hg : strandGate (.compound la) (.single b sb) ms = true)
    (hc : ∃ p, coversBlocks la.blocks p = true ∧ coversBlocks [b] p = true) :
    ∃ r, isectCS la b sb ms false = .ok r ∧ locLen r = dsum la.blocks [b] ∧ wfLocation r = true ∧ r ≠ .empty := by
  have hov : hasOverlap (.compound la) (.single b sb) ms false = .ok true :=
    hasOverlap_true (.compound la) (.single b sb) hla hb ms hg (by simpa [locationCovers, covers] using hc)
  obtain ⟨r, hr, hlen, hwf, hne⟩ := mkopt _ la.strand (rawCS_pos la.blocks b) (rawCS_ex la.blocks b hc)
  refine ⟨r, ?_, by rw [hlen, rawCS_len], hwf, hne⟩
  unfold isectCS
  rw [hov]
  simp only [ok_bind, Bool.not_true, Bool.false_eq_true, if_false]
  exact hr

theorem isectCC_len (la lb : Loc) (hla : la.Canon) (hlb : lb.Canon) (ms : Bool)
    (hg : strandGate (.compound la) (.compound lb) ms = true)
    (hc : ∃ p, coversBlocks la.blocks p = true ∧ coversBlocks lb.blocks p = true) :
    ∃ r, isectCC la lb ms false = .ok r ∧ locLen r = dsum la.blocks lb.blocks := by
  have hov : hasOverlap (.compound la) (.compound lb) ms false = .ok true :=
    hasOverlap_true (.compound la) (.compound lb) hla hlb ms hg (by simpa [locationCovers, covers] using hc)
  have hns := gate_not _ _ la.strand lb.strand ms rfl rfl hg
  obtain ⟨r, hr, hlen, _, _⟩ := mkopt _ la.strand (rawCC_pos la.blocks lb.blocks) (rawCC_ex la.blocks lb.blocks hc)
  refine ⟨r, ?_, by rw [hlen, raw_len]⟩
  unfold isectCC
  rw [hov]
  simp only [ok_bind, Bool.not_true, Bool.false_eq_true, if_false, hns, guard_redundant]
  exact hr

theorem isectSC_len (a : Blk) (sa : Strand) (ha : a.1 ≤ a.2) (lb : Loc) (hlb : lb.Canon) (ms : Bool)
    (hg : strandGate (.single a sa) (.compound lb) ms = true)
    (hc : ∃ p, coversBlocks [a] p = true ∧ coversBlocks lb.blocks p = true) :
    ∃ r, isectSC a sa lb ms false = .ok r ∧ locLen r = dsum [a] lb.blocks := by
  have hov : hasOverlap (.single a sa) (.compound lb) ms false = .ok true :=
    hasOverlap_true (.single a sa) (.compound lb) ha hlb ms hg (by simpa [locationCovers, covers] using hc)
  have hc' : ∃ p, coversBlocks lb.blocks p = true ∧ coversBlocks [a] p = true := by
    obtain ⟨p, h1, h2⟩ := hc; exact ⟨p, h2, h1⟩
  obtain ⟨r, hr, hlen, hwf, hne⟩ := isectCS_len lb hlb a sa ha ms (by rw [strandGate_cs_sc]; exact hg) hc'
  rw [dsum_comm] at hlen
  unfold isectSC
  rw [hov]
  simp only [ok_bind, Bool.not_true, Bool.false_eq_true, if_false]
  rw [hr]
  simp only [ok_bind]
  match r, hne, hwf, hlen with
  | .single b s, _, _, hlen =>
    by_cases h : s = sa
    · exact ⟨.single b s, by simp [locStrand, h]; rfl, hlen⟩
    · exact ⟨.single b sa, by simp [locStrand, h, resetStrand]; rfl, hlen⟩
  | .compound l, _, hwf, hlen =>
    by_cases h : l.strand = sa
    · exact ⟨.compound l, by simp [locStrand, h]; rfl, hlen⟩
    · have hcan : l.Canon := by simpa [wfLocation] using hwf
      have hv := (blocksValid_iff _).mp hcan.2.1
      refine ⟨.compound ⟨sortBlocks sa l.blocks, sa⟩, ?_, ?_⟩
      · simp [locStrand, h, resetStrand, mkCompound, mkCompoundLoc_ok sa hcan.1 hv]
        rfl
      · rw [← hlen]
        simp only [locLen, Loc.len]
        exact blocksLen_perm (sortBlocks_perm sa l.blocks)

theorem intersection_len (x y : Location) (hx : WF x) (hy : WF y) (ms : Bool)
    (hg : strandGate x y ms = true) (hc : ∃ p, locationCovers x p = true ∧ locationCovers y p = true) :
    ∃ i, intersection x y ms false = .ok i ∧ locLen i = dsum (locationBlocks x) (locationBlocks y) := by
  match x, y, hx, hy, hg, hc with
  | .empty, _, _, _, _, hc => obtain ⟨p, h1, _⟩ := hc; simp [locationCovers] at h1
  | .single _ _, .empty, _, _, _, hc => obtain ⟨p, _, h1⟩ := hc; simp [locationCovers] at h1
  | .compound _, .empty, _, _, _, hc => obtain ⟨p, _, h1⟩ := hc; simp [locationCovers] at h1
  | .single a sa, .single b sb, _, _, hg, hc =>
    have hk : overlapKernel a b = true := (kernel_cov a b).mpr (by simpa [locationCovers] using hc)
    refine ⟨_, isectSS_len a sa b sb ms hg hk, ?_⟩
    simp [locLen, locationBlocks, dsum, len_isectBlk]
  | .single a sa, .compound lb, hx, hy, hg, hc =>
    exact isectSC_len a sa hx lb hy ms hg (by simpa [locationCovers, covers] using hc)
  | .compound la, .single b sb, hx, hy, hg, hc =>
    obtain ⟨r, hr, hlen, _, _⟩ := isectCS_len la hx b sb hy ms hg (by simpa [locationCovers, covers] using hc)
    exact ⟨r, hr, hlen⟩
  | .compound la, .compound lb, hx, hy, hg, hc =>
    exact isectCC_len la lb hx hy ms hg (by simpa [locationCovers, covers] using hc)

/-! ### the comparison of lengths -/

/-- on strand-compatible operands sharing a position the intersection is computed, and for a receiver without
    self-overlap it is as long as the argument iff the argument is covered -/
theorem contains_core (x y : Location) (hx : WF x) (hy : WF y) (ms : Bool)
    (hg : strandGate x y ms = true) (hc : ∃ p, locationCovers x p = true ∧ locationCovers y p = true) :
    ∃ i, intersection x y ms false = .ok i ∧
      (nonOverlapLoc x = true →
        ((locLen i == locLen y) = true ↔ ∀ p, locationCovers y p = true → locationCovers x p = true)) := by
  obtain ⟨i, hi, hlen⟩ := intersection_len x y hx hy ms hg hc
  refine ⟨i, hi, ?_⟩
  intro hno
  have hv : ∀ b ∈ locationBlocks x, b.1 ≤ b.2 := by
    cases x with
    | single b s => intro b' hb'; simp only [locationBlocks, List.mem_singleton] at hb'; subst hb'; exact hx
    | compound l => exact (blocksValid_iff _).mp hx.2.1
    | empty => simp [locationBlocks]
  have hp := nonOverlap_pairwise _ hv hno
  rw [beq_iff_eq, hlen, locLen_eq y, dsum_eq_len_iff _ _ hp]
  simp only [locationCovers_eq]

theorem spanLoc_spec (l : Location) (h : WF l) (hne : l ≠ .empty) :
    ∃ f s, spanLoc l = .ok (.single f s) ∧ f.1 ≤ f.2 ∧ ∀ p, covX true l p = coversBlocks [f] p := by
  match l, h, hne with
  | .single b s, h, _ => exact ⟨b, s, rfl, h, fun p => covX_single true b s p⟩
  | .compound l, h, _ =>
    obtain ⟨f, rest, hbl, hspan, hfull⟩ := spanOf_compound l h
    refine ⟨(f.1, maxEnd l.blocks), l.strand, ?_, ?_, fun p => covX_compound_true l _ hspan p⟩
    · simp only [spanLoc, hfull, ok_bind]; rfl
    · have hf : f.1 ≤ f.2 := (blocksValid_iff _).mp h.2.1 f (by simp [hbl])
      rw [hbl]
      simp only [maxEnd]
      omega
  | .empty, _, hne => exact absurd rfl hne

/-- the value the spec expects, once a shared position is known -/
theorem spec_value (a b : Location) (fs : Bool) (hc : ∃ p, covX fs a p = true ∧ covX fs b p = true) (v : Bool)
    (hv : v = true ↔ ∀ p, covX fs b p = true → covX fs a p = true) :
    v = (anyUpTo (hiOf [a, b]) (covX fs b) && allUpTo (hiOf [a, b]) (fun p => !covX fs b p || covX fs a p)) := by
  obtain ⟨p, h1, h2⟩ := hc
  have hany : anyUpTo (hiOf [a, b]) (covX fs b) = true :=
    (anyUpTo_iff _ _).mpr ⟨p, covX_le_hi_right fs a b p h2, h2⟩
  rw [hany, Bool.true_and]
  apply bool_eq_of_iff
  rw [hv, allUpTo_iff]
  constructor
  · intro h q _
    cases hb : covX fs b q with
    | false => rfl
    | true => simp [h q hb]
  · intro h q hq
    have := h q (covX_le_hi_right fs a b q hq)
    simpa [hq] using this

/-- what `contains` does once `has_overlap` has answered `True` -/
def tail (x y : Location) (ms fs : Bool) : R Bool :=
  match y with
  | .empty => throw .EmptyLocation
  | _ =>
    if !fs then do
      let i ← intersection x y ms false
      pure (locLen i == locLen y)
    else do
      let sa ← spanLoc x
      let sb ← spanLoc y
      if !(← hasOverlap sa sb false false) then pure false
      else do
        let i ← intersection sa sb false false
        pure (locLen i == locLen sb)

theorem containsP_false (a b : PLoc) (ms fs : Bool) (o : Bool) (ho : hasOverlapP a b ms fs false = .ok o) :
    containsP a b ms fs false = if !o then pure false else tail a.1 b.1 ms fs := by
  unfold containsP
  rw [ho]
  rfl

theorem tail_false (x y : Location) (hx : WF x) (hy : WF y) (ms : Bool) (hg : strandGate x y ms = true)
    (hc : ∃ p, covX false x p = true ∧ covX false y p = true) :
    ∃ v, tail x y ms false = .ok v ∧
      (nonOverlapLoc x = true → (v = true ↔ ∀ p, covX false y p = true → covX false x p = true)) := by
  simp only [covX_false] at hc ⊢
  obtain ⟨i, hi, hiff⟩ := contains_core x y hx hy ms hg hc
  have hyne : y ≠ .empty := by
    rintro rfl; obtain ⟨p, _, h⟩ := hc; simp [locationCovers] at h
  refine ⟨locLen i == locLen y, ?_, hiff⟩
  cases y with
  | empty => exact absurd rfl hyne
  | single b s => simp only [tail, Bool.not_false, if_true, hi, ok_bind]; rfl
  | compound l => simp only [tail, Bool.not_false, if_true, hi, ok_bind]; rfl

theorem tail_true (x y : Location) (hx : WF x) (hy : WF y) (ms : Bool)
    (hc : ∃ p, covX true x p = true ∧ covX true y p = true) :
    ∃ v, tail x y ms true = .ok v ∧ (v = true ↔ ∀ p, covX true y p = true → covX true x p = true) := by
  obtain ⟨p, hpx, hpy⟩ := hc
  have hxne : x ≠ .empty := by intro h; rw [h, covX_empty] at hpx; cases hpx
  have hyne : y ≠ .empty := by intro h; rw [h, covX_empty] at hpy; cases hpy
  obtain ⟨fa, sta, hsa, hfa, hca⟩ := spanLoc_spec x hx hxne
  obtain ⟨fb, stb, hsb, hfb, hcb⟩ := spanLoc_spec y hy hyne
  have hc' : ∃ p, locationCovers (.single fa sta) p = true ∧ locationCovers (.single fb stb) p = true :=
    ⟨p, by rw [← hpx, hca]; rfl, by rw [← hpy, hcb]; rfl⟩
  have hgate : strandGate (.single fa sta) (.single fb stb) false = true := rfl
  have hov := hasOverlap_true (.single fa sta) (.single fb stb) hfa hfb false hgate hc'
  obtain ⟨i, hi, hiff⟩ := contains_core (.single fa sta) (.single fb stb) hfa hfb false hgate hc'
  refine ⟨locLen i == locLen (.single fb stb), ?_, ?_⟩
  · cases y with
    | empty => exact absurd rfl hyne
    | single b s =>
      simp only [tail, Bool.not_true, Bool.false_eq_true, if_false, hsa, hsb, ok_bind, hov, hi]; rfl
    | compound l =>
      simp only [tail, Bool.not_true, Bool.false_eq_true, if_false, hsa, hsb, ok_bind, hov, hi]; rfl
  · rw [hiff rfl]
    simp only [hca, hcb]
    rfl

theorem contains_nonstrict (a b : PLoc) (ha : WFP a) (hb : WFP b) (ms fs : Bool) :
    okContains a b ms fs false (ans (containsP a b ms fs false)) = true := by
  have hov := hasOverlapP_eq a b ha hb ms fs
  rw [containsP_false a b ms fs _ hov]
  cases he : expectOverlap a b ms fs with
  | false =>
    simp only [Bool.not_false, if_true, ans_pure]
    unfold okContains
    simp only [Bool.false_and, Bool.false_eq_true, if_false]
    split
    · rfl
    · rw [beq_iff_eq]
      congr 1
      symm
      rw [Bool.eq_false_iff]
      intro h
      simp only [Bool.and_eq_true] at h
      obtain ⟨⟨hact, hany⟩, hall⟩ := h
      obtain ⟨p, hp, hbp⟩ := (anyUpTo_iff _ _).mp hany
      have hap := (allUpTo_iff _ _).mp hall p hp
      simp only [hbp, Bool.not_true, Bool.false_or] at hap
      have : expectOverlap a b ms fs = true := by
        unfold expectOverlap
        rw [hact, Bool.true_and]
        exact (anyUpTo_cov fs a.1 b.1).mpr ⟨p, hap, hbp⟩
      rw [he] at this
      cases this
  | true =>
    unfold expectOverlap at he
    rw [Bool.and_eq_true] at he
    obtain ⟨hact, hany⟩ := he
    have hc := (anyUpTo_cov fs a.1 b.1).mp hany
    rw [active_eq, Bool.and_eq_true] at hact
    obtain ⟨hsp, hg⟩ := hact
    have hact : active a b ms = true := by rw [active_eq, hsp, hg]; rfl
    obtain ⟨p, hpa, hpb⟩ := hc
    have hane : a.1 ≠ .empty := by intro h; rw [h, covX_empty] at hpa; cases hpa
    have hbne : b.1 ≠ .empty := by intro h; rw [h, covX_empty] at hpb; cases hpb
    simp only [Bool.not_true, Bool.false_eq_true, if_false]
    cases fs with
    | false =>
      obtain ⟨v, hv, hiff⟩ := tail_false a.1 b.1 ha.1 hb.1 ms hg ⟨p, hpa, hpb⟩
      rw [hv]
      unfold okContains
      simp only [ans_ok, Bool.false_and, Bool.false_eq_true, if_false, Bool.false_or]
      split
      · rfl
      · rename_i hdom
        have hno : nonOverlapLoc a.1 = true := by
          simp only [Bool.not_eq_true', Bool.not_eq_false, Bool.and_eq_true] at hdom
          exact hdom.1
        rw [beq_iff_eq, hact, Bool.true_and]
        congr 1
        exact spec_value a.1 b.1 false ⟨p, hpa, hpb⟩ v (hiff hno)
    | true =>
      obtain ⟨v, hv, hiff⟩ := tail_true a.1 b.1 ha.1 hb.1 ms ⟨p, hpa, hpb⟩
      rw [hv]
      unfold okContains
      simp only [ans_ok, Bool.false_and, Bool.false_eq_true, if_false, Bool.true_or, Bool.not_true]
      rw [beq_iff_eq, hact, Bool.true_and]
      congr 1
      exact spec_value a.1 b.1 true ⟨p, hpa, hpb⟩ v hiff

end BioCantor.Proofs.Contains

namespace BioCantor.Proofs
open BioCantor BioCantor.Spec BioCantor.Model

/-- C02-T5: for operands that are not self-overlapping (always for the span variant) `contains` ⇔ b has a position and every position of b
    is one of a (spans with `full_span`), gated by strand / parents -/
theorem containsP_ok (a b : PLoc) (ha : WFP a) (hb : WFP b) (ms fs strict : Bool) :
    okContains a b ms fs strict (ans (containsP a b ms fs strict)) = true := by
  cases strict with
  | false => exact Contains.contains_nonstrict a b ha hb ms fs
  | true =>
    cases hsp : sameParent a.2 b.2 with
    | false =>
      simp [okContains, containsP, requireParentsEq_eq, hsp]
      rfl
    | true =>
      have : containsP a b ms fs true = containsP a b ms fs false := by
        simp [containsP, requireParentsEq_eq, hsp]
        rfl
      rw [this]
      have := Contains.contains_nonstrict a b ha hb ms fs
      simpa [okContains, hsp] using this

/-- the hypotheses of `containsP_ok` hold for concrete non-trivial inputs (here: `contains` is `True`) -/
example :
    WFP ((.compound ⟨[(0, 3), (5, 9), (12, 14)], .plus⟩), [(some "chrA", none, some (List.replicate 20 'A'))]) ∧
    WFP ((.compound ⟨[(1, 3), (5, 7)], .plus⟩), [(some "chrA", none, some (List.replicate 20 'A'))]) := by
  refine ⟨by decide, by decide⟩

end BioCantor.Proofs
