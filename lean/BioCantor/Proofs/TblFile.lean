/-
  C17 helper lemmas, part 2: `Spec.Tbl.read` inverts `Model.Tbl.fileText` (and `readFeatures` inverts
  `_location_to_str` / `Feature.str`).
-/
import BioCantor.Proofs.TblCodec
namespace BioCantor.Proofs.Tbl
open BioCantor BioCantor.Model.Tbl BioCantor.Spec.Tbl
open BioCantor.Model.Bed (natStr join)
open BioCantor.Spec.Bed (splitOn parseNat)
open BioCantor.Proofs.Bed

/-! ### `join` -/

theorem join_append (sep : Char) (a b : List (List Char)) (ha : a ≠ []) (hb : b ≠ []) :
    join sep (a ++ b) = join sep a ++ sep :: join sep b := by
  induction a with
  | nil => exact absurd rfl ha
  | cons x rest ih =>
    cases rest with
    | nil =>
      cases b with
      | nil => exact absurd rfl hb
      | cons y r => simp [join]
    | cons y r =>
      have := ih (by simp)
      simp only [List.cons_append, join] at this ⊢
      rw [this]; simp

theorem join_flatten (sep : Char) (xs : List (List (List Char))) (h : ∀ x ∈ xs, x ≠ []) :
    join sep (xs.map (join sep)) = join sep xs.flatten := by
  induction xs with
  | nil => rfl
  | cons x rest ih =>
    have hx : x ≠ [] := h x (by simp)
    have ih' := ih (fun y hy => h y (List.mem_cons_of_mem _ hy))
    cases rest with
    | nil => simp [join]
    | cons y r =>
      have hfl : (y :: r).flatten ≠ [] := by
        have hy : y ≠ [] := h y (by simp)
        cases y with
        | nil => exact absurd rfl hy
        | cons a as => simp
      simp only [List.map_cons, List.flatten_cons] at ih' ⊢
      rw [join_append sep x _ hx (by simpa using hfl)]
      simp only [join]
      rw [← ih']

/-! ### the reader's regrouping -/

def contLines (rs : List Row) : List Line := rs.map .cont
def qualLs (qs : List (List Char × List Char)) : List Line := qs.map (fun q => .qual q.1 q.2)

theorem readLines_quals (qs : List (List Char × List Char)) (rest : List Line) (st : St)
    (h : readLines rest = some st) (hr : st.rows = []) :
    readLines (qualLs qs ++ rest) = some { st with quals := qs ++ st.quals } := by
  induction qs with
  | nil => simpa [qualLs] using h
  | cons q qs ih =>
    simp only [qualLs, List.map_cons, List.cons_append, readLines] at ih ⊢
    rw [ih]
    simp [step, hr]

theorem readLines_conts (rs : List Row) (rest : List Line) (st : St) (h : readLines rest = some st) :
    readLines (contLines rs ++ rest) = some { st with rows := rs ++ st.rows } := by
  induction rs with
  | nil => simpa [contLines] using h
  | cons r rs ih =>
    simp only [contLines, List.map_cons, List.cons_append, readLines] at ih ⊢
    rw [ih]
    simp [step]

/-- the classified lines of one feature, blank lines allowed after it -/
def featLs (f : Feat) : List Line :=
  match f.rows with
  | [] => []
  | r :: rs => Line.first r f.key :: (contLines rs ++ qualLs f.quals)

theorem readLines_feat (f : Feat) (r : Row) (rs : List Row) (hf : f.rows = r :: rs) (rest : List Line) (st : St)
    (h : readLines rest = some st) (hr : st.rows = []) (hq : st.quals = []) :
    readLines (featLs f ++ rest) = some { st with feats := f :: st.feats } := by
  unfold featLs
  rw [hf]
  simp only [List.cons_append, List.append_assoc, readLines]
  rw [readLines_conts rs _ _ (readLines_quals f.quals rest st h hr)]
  simp only [Option.bind_some, step, hr, hq, List.append_nil]
  cases f
  simp_all

theorem readLines_blank (rest : List Line) : readLines (Line.blank :: rest) = readLines rest := by
  simp only [readLines]
  cases readLines rest <;> simp [step]

/-- features, each possibly followed by one blank line -/
def featsLs (fs : List (Feat × Bool)) : List Line :=
  fs.flatMap (fun fb => featLs fb.1 ++ (if fb.2 then [Line.blank] else []))

theorem readLines_feats (fs : List (Feat × Bool)) (hrows : ∀ fb ∈ fs, fb.1.rows ≠ []) (rest : List Line) (st : St)
    (h : readLines rest = some st) (hr : st.rows = []) (hq : st.quals = []) :
    readLines (featsLs fs ++ rest) = some { st with feats := fs.map (·.1) ++ st.feats } := by
  induction fs with
  | nil => simpa [featsLs] using h
  | cons fb fs ih =>
    have ih' := ih (fun x hx => hrows x (List.mem_cons_of_mem _ hx))
    have hne := hrows fb (by simp)
    cases hrw : fb.1.rows with
    | nil => exact absurd hrw hne
    | cons r rs =>
      have hrest : readLines ((if fb.2 then [Line.blank] else []) ++ (featsLs fs ++ rest))
          = some { st with feats := fs.map (·.1) ++ st.feats } := by
        cases fb.2
        · simpa using ih'
        · simp only [if_true, List.cons_append, List.nil_append, readLines_blank]; exact ih'
      have := readLines_feat fb.1 r rs hrw _ _ hrest hr hq
      simp only [featsLs, List.flatMap_cons, List.append_assoc] at this ⊢
      rw [this]
      simp

/-! ### what the model prints, line by line -/

/-- qualifier (key, value) pairs `_qualifiers_to_str` prints for a dictionary -/
def qualPairsOf (valid : List (List Char)) : Quals → List (List Char × List Char)
  | [] => []
  | (k, vals) :: rest =>
    if vals.isEmpty || !valid.contains k then qualPairsOf valid rest
    else
      let filtered := vals.filterMap id
      if filtered.isEmpty then qualPairsOf valid rest
      else (sortStrs filtered).map (fun v => (k, removeChars v)) ++ qualPairsOf valid rest

def allPairs (valid : List (List Char)) (q : Quals) (pseudo : Bool) : List (List Char × List Char) :=
  qualPairsOf valid q ++ (if pseudo then [("pseudo".toList, [])] else [])

theorem qualLinesOf_eq (valid : List (List Char)) (q : Quals) :
    qualLinesOf valid q = (qualPairsOf valid q).map (fun p => qualLine p.1 p.2) := by
  induction q with
  | nil => rfl
  | cons kv rest ih =>
    obtain ⟨k, vals⟩ := kv
    unfold qualLinesOf qualPairsOf
    by_cases h1 : (vals.isEmpty || !valid.contains k) = true
    · simp only [h1, if_true]; exact ih
    · simp only [h1, if_false, Bool.false_eq_true]
      by_cases h2 : (vals.filterMap id).isEmpty = true
      · simp only [h2, if_true]; exact ih
      · simp only [h2, if_false, Bool.false_eq_true, List.map_append, List.map_map, ih]
        rfl

theorem qualLines_eq (valid : List (List Char)) (q : Quals) (pseudo : Bool) :
    qualLines valid q pseudo = (allPairs valid q pseudo).map (fun p => qualLine p.1 p.2) := by
  unfold qualLines allPairs
  rw [qualLinesOf_eq]
  cases pseudo <;> simp [pseudoLine]

/-- what the reader should give back for a printed feature -/
def featOf (f : Feature) : Feat :=
  ⟨f.key, rowsOf (locPairs f.blocks f.strand) f.si f.ei, allPairs (validKeys f.key) f.quals f.pseudo⟩

/-- text-level well-formedness of a feature: at least one block, a key and printed qualifiers without
    tab / line break, non-empty keys -/
structure FeatOK (f : Feature) : Prop where
  blocks : f.blocks ≠ []
  key : f.key ≠ [] ∧ '\t' ∉ f.key ∧ '\n' ∉ f.key
  quals : ∀ p ∈ allPairs (validKeys f.key) f.quals f.pseudo,
    p.1 ≠ [] ∧ '\t' ∉ p.1 ∧ '\n' ∉ p.1 ∧ '\t' ∉ p.2 ∧ '\n' ∉ p.2

theorem locPairs_ne_nil (blocks : List Blk) (st : Strand) (h : blocks ≠ []) : locPairs blocks st ≠ [] := by
  unfold locPairs
  cases blocks with
  | nil => exact absurd rfl h
  | cons b bs => by_cases hm : st = .minus <;> simp [hm]

theorem rowsOf_ne_nil (ps : List (Nat × Nat)) (si ei : Bool) (h : ps ≠ []) : rowsOf ps si ei ≠ [] := by
  cases ps with
  | nil => exact absurd rfl h
  | cons p ps =>
    unfold rowsOf plainRows
    cases si <;> cases ei <;> cases ps <;> simp [setFirst, setLast]

/-- the lines of `str(feature)` -/
def strLines (f : Feature) : List (List Char) :=
  locLines f.key (cells (locPairs f.blocks f.strand) f.si f.ei) ++
    (if (qualLines (validKeys f.key) f.quals f.pseudo).isEmpty then [[]]
     else qualLines (validKeys f.key) f.quals f.pseudo)

theorem locLines_ne_nil (key : List Char) (cs : List (List Char × List Char)) (h : cs ≠ []) : locLines key cs ≠ [] := by
  cases cs with
  | nil => exact absurd rfl h
  | cons c cs => simp [locLines]

theorem str_eq (f : Feature) (h : f.blocks ≠ []) : f.str = some (join '\n' (strLines f)) := by
  have hp := locPairs_ne_nil f.blocks f.strand h
  have hcells : cells (locPairs f.blocks f.strand) f.si f.ei ≠ [] := by
    rw [cells_eq]; simpa using rowsOf_ne_nil _ f.si f.ei hp
  have hloc := locLines_ne_nil f.key _ hcells
  unfold Feature.str locationToStr strLines qualifiersToStr
  have he : (locPairs f.blocks f.strand).isEmpty = false := by simpa using hp
  simp only [he, Bool.false_and, Bool.false_eq_true, if_false]
  by_cases hq : (qualLines (validKeys f.key) f.quals f.pseudo).isEmpty = true
  · have : qualLines (validKeys f.key) f.quals f.pseudo = [] := by simpa using hq
    simp only [hq, if_true, this]
    rw [join_append _ _ _ hloc (by simp)]
    simp [join]
  · simp only [hq, if_false, Bool.false_eq_true]
    rw [join_append _ _ _ hloc (by simpa using hq)]

theorem strLines_ne_nil (f : Feature) (h : f.blocks ≠ []) : strLines f ≠ [] := by
  have hp := locPairs_ne_nil f.blocks f.strand h
  have hcells : cells (locPairs f.blocks f.strand) f.si f.ei ≠ [] := by
    rw [cells_eq]; simpa using rowsOf_ne_nil _ f.si f.ei hp
  have := locLines_ne_nil f.key _ hcells
  unfold strLines
  simp [this]

theorem rowLine_no_nl (key : List Char) (r : Row) (hk : '\n' ∉ key) : '\n' ∉ rowLine key (cellOf r) := by
  have := cell_no '\n' nl_not_digit (by decide) (by decide) r
  simp only [rowLine, List.mem_append, List.mem_cons, not_or]
  refine ⟨this.1, by decide, this.2, by decide, hk, ?_⟩
  simp

theorem strLines_no_nl (f : Feature) (h : FeatOK f) : ∀ l ∈ strLines f, '\n' ∉ l := by
  intro l hl
  unfold strLines at hl
  rw [cells_eq] at hl
  rcases List.mem_append.1 hl with hl | hl
  · cases hr : rowsOf (locPairs f.blocks f.strand) f.si f.ei with
    | nil => rw [hr] at hl; simp [locLines] at hl
    | cons r rs =>
      rw [hr] at hl
      simp only [List.map_cons, locLines, List.mem_cons, List.mem_map] at hl
      rcases hl with rfl | ⟨c, ⟨r', _, rfl⟩, rfl⟩
      · exact rowLine_no_nl _ _ h.key.2.2
      · exact rowLine_no_nl _ _ (by simp)
  · by_cases hq : (qualLines (validKeys f.key) f.quals f.pseudo).isEmpty = true
    · simp only [hq, if_true, List.mem_singleton] at hl; subst hl; simp
    · simp only [hq, if_false, Bool.false_eq_true] at hl
      rw [qualLines_eq] at hl
      obtain ⟨p, hp, rfl⟩ := List.mem_map.1 hl
      have := h.quals p hp
      simp only [qualLine, List.mem_cons, List.mem_append, not_or]
      exact ⟨by decide, by decide, by decide, this.2.2.1, by decide, this.2.2.2.2⟩

theorem classify_strLines (f : Feature) (h : FeatOK f) :
    (strLines f).map classify =
      featLs (featOf f) ++ (if (qualLines (validKeys f.key) f.quals f.pseudo).isEmpty then [Line.blank] else []) := by
  have hp := locPairs_ne_nil f.blocks f.strand h.blocks
  unfold strLines featLs featOf
  rw [cells_eq]
  cases hr : rowsOf (locPairs f.blocks f.strand) f.si f.ei with
  | nil => exact absurd hr (rowsOf_ne_nil _ _ _ hp)
  | cons r rs =>
    have hk0 := h.key.1
    simp only [List.map_cons, locLines, List.map_append, List.map_map]
    rw [classify_rowLine _ _ h.key.2.1]
    simp only [hk0, if_false]
    have hconts : rs.map (classify ∘ rowLine [] ∘ cellOf) = contLines rs := by
      unfold contLines
      apply List.map_congr_left
      intro r' _
      simp only [Function.comp]
      rw [classify_rowLine _ _ (by simp)]
      simp
    have hquals : (qualLines (validKeys f.key) f.quals f.pseudo).map classify
        = qualLs (allPairs (validKeys f.key) f.quals f.pseudo) := by
      rw [qualLines_eq, List.map_map]
      unfold qualLs
      apply List.map_congr_left
      intro p hp
      have := h.quals p hp
      simp only [Function.comp]
      exact classify_qualLine _ _ this.2.1 this.2.2.2.1 this.1
    by_cases hq : (qualLines (validKeys f.key) f.quals f.pseudo).isEmpty = true
    · have hnil : qualLines (validKeys f.key) f.quals f.pseudo = [] := by simpa using hq
      have hnil2 : allPairs (validKeys f.key) f.quals f.pseudo = [] := by
        have := hquals; rw [hnil] at this; simpa [qualLs] using this.symm
      simp only [hq, if_true, List.map_cons, List.map_nil, classify_nil, hnil2, qualLs, List.append_nil]
      rw [← hconts]; try simp
    · simp only [hq, if_false, Bool.false_eq_true, List.append_nil, hquals]
      rw [← hconts]; try simp

/-! ### `_location_to_str` alone -/

theorem locationToStr_read (key : List Char) (blocks : List Blk) (st : Strand) (si ei : Bool)
    (hb : blocks ≠ []) (hk : key ≠ [] ∧ '\t' ∉ key ∧ '\n' ∉ key) :
    ∃ t, locationToStr key blocks st si ei = some t ∧
      readFeatures t = some [⟨key, rowsOf (locPairs blocks st) si ei, []⟩] := by
  have hp := locPairs_ne_nil blocks st hb
  have he : (locPairs blocks st).isEmpty = false := by simpa using hp
  refine ⟨join '\n' (locLines key (cells (locPairs blocks st) si ei)), ?_, ?_⟩
  · unfold locationToStr; simp [he]
  rw [cells_eq]
  cases hr : rowsOf (locPairs blocks st) si ei with
  | nil => exact absurd hr (rowsOf_ne_nil _ _ _ hp)
  | cons r rs =>
    have hlines : ∀ l ∈ locLines key ((r :: rs).map cellOf), '\n' ∉ l := by
      intro l hl
      simp only [List.map_cons, locLines, List.mem_cons, List.mem_map] at hl
      rcases hl with rfl | ⟨c, ⟨r', _, rfl⟩, rfl⟩
      · exact rowLine_no_nl _ _ hk.2.2
      · exact rowLine_no_nl _ _ (by simp)
    unfold readFeatures linesOf
    rw [splitOn_join '\n' _ (by simp [locLines]) hlines]
    simp only [List.map_cons, locLines, List.map_map]
    rw [classify_rowLine _ _ hk.2.1]
    simp only [hk.1, if_false]
    have hconts : rs.map (classify ∘ rowLine [] ∘ cellOf) = contLines rs := by
      unfold contLines
      apply List.map_congr_left
      intro r' _
      simp only [Function.comp]
      rw [classify_rowLine _ _ (by simp)]
      simp
    rw [hconts]
    have h0 : readLines [] = some ⟨[], [], [], []⟩ := rfl
    have := readLines_feat ⟨key, r :: rs, []⟩ r rs rfl [] _ h0 rfl rfl
    simp only [featLs, qualLs, List.map_nil, List.append_nil] at this
    rw [this]

/-! ### the whole file -/

theorem classify_all (fs : List Feature) (hfs : ∀ f ∈ fs, FeatOK f) :
    (fs.map strLines).flatten.map classify
      = featsLs (fs.map (fun f => (featOf f, (qualLines (validKeys f.key) f.quals f.pseudo).isEmpty))) := by
  induction fs with
  | nil => rfl
  | cons f fs ih =>
    have := ih (fun x hx => hfs x (List.mem_cons_of_mem _ hx))
    simp only [List.map_cons, List.flatten_cons, List.map_append, featsLs, List.flatMap_cons] at this ⊢
    rw [this, classify_strLines f (hfs f (by simp))]

theorem fileText_read (seqName : List Char) (fs : List Feature)
    (hn : seqName ≠ [] ∧ ' ' ∉ seqName ∧ '\n' ∉ seqName) (hfs : ∀ f ∈ fs, FeatOK f) :
    ∃ t, fileText seqName fs = some t ∧ Spec.Tbl.read t = some [⟨seqName, fs.map featOf⟩] := by
  have hstrs : fs.mapM Feature.str = some (fs.map (fun f => join '\n' (strLines f))) := by
    clear hn
    induction fs with
    | nil => rfl
    | cons f fs ih =>
      have := ih (fun x hx => hfs x (List.mem_cons_of_mem _ hx))
      simp only [List.mapM_cons, str_eq f (hfs f (by simp)).blocks, this, List.map_cons]
      rfl
  let hdr : List Char := ">Features ".toList ++ seqName
  refine ⟨join '\n' (hdr :: fs.map (fun f => join '\n' (strLines f))) ++ ['\n'], ?_, ?_⟩
  · unfold fileText; rw [hstrs]
  -- the text is the '\n'-join of all lines, plus a final empty line
  let groups : List (List (List Char)) := [hdr] :: (fs.map strLines ++ [[[]]])
  have hgroups : ∀ g ∈ groups, g ≠ [] := by
    intro g hg
    simp only [groups, List.mem_cons, List.mem_append, List.mem_map, List.mem_singleton, List.not_mem_nil, or_false] at hg
    rcases hg with rfl | ⟨f, hf, rfl⟩ | rfl
    · simp
    · exact strLines_ne_nil f (hfs f hf).blocks
    · simp
  have htext : join '\n' (hdr :: fs.map (fun f => join '\n' (strLines f))) ++ ['\n']
      = join '\n' groups.flatten := by
    rw [← join_flatten '\n' groups hgroups]
    simp only [groups, List.map_cons, List.map_append, List.map_map, List.map_nil]
    have : join '\n' [hdr] = hdr := rfl
    rw [this]
    have h2 : (hdr :: (List.map (join '\n' ∘ strLines) fs ++ [join '\n' [[]]]))
        = (hdr :: List.map (fun f => join '\n' (strLines f)) fs) ++ [[]] := by
      simp [join, Function.comp_def]
    rw [h2, join_append '\n' _ _ (by simp) (by simp)]
    simp [join]
  have hflat : groups.flatten = hdr :: ((fs.map strLines).flatten ++ [[]]) := by simp [groups]
  have hlines : ∀ l ∈ groups.flatten, '\n' ∉ l := by
    intro l hl
    rw [hflat] at hl
    simp only [List.mem_cons, List.mem_append, List.mem_flatten, List.mem_map, List.not_mem_nil, or_false] at hl
    rcases hl with rfl | ⟨g, ⟨f, hf, rfl⟩, hl⟩ | rfl
    · simp only [hdr, List.mem_append, not_or]; exact ⟨by decide, hn.2.2⟩
    · exact strLines_no_nl f (hfs f hf) l hl
    · simp
  have hflne : groups.flatten ≠ [] := by simp [groups]
  have hsplit : splitOn '\n' (join '\n' groups.flatten) = groups.flatten := splitOn_join '\n' _ hflne hlines
  -- classify every line
  have hcls : groups.flatten.map classify
      = Line.header seqName ::
        (featsLs (fs.map (fun f => (featOf f, (qualLines (validKeys f.key) f.quals f.pseudo).isEmpty))) ++ [Line.blank]) := by
    simp only [groups, List.flatten_cons, List.flatten_append, List.map_append, List.singleton_append, List.map_cons,
      List.flatten_nil, List.append_nil, List.map_nil]
    rw [show classify hdr = Line.header seqName from classify_header seqName hn.2.1 hn.1, classify_nil]
    rw [classify_all fs hfs]
  unfold Spec.Tbl.read linesOf
  rw [htext, hsplit, hcls]
  have hend : readLines [Line.blank] = some ⟨[], [], [], []⟩ := by simp [readLines, step]
  have hrows : ∀ fb ∈ fs.map (fun f => (featOf f, (qualLines (validKeys f.key) f.quals f.pseudo).isEmpty)),
      fb.1.rows ≠ [] := by
    intro fb hfb
    obtain ⟨f, hf, rfl⟩ := List.mem_map.1 hfb
    exact rowsOf_ne_nil _ _ _ (locPairs_ne_nil _ _ (hfs f hf).blocks)
  have := readLines_feats _ hrows [Line.blank] _ hend rfl rfl
  simp only [readLines, this, Option.bind_some, step, List.map_map, Function.comp_def, List.append_nil, and_self, if_true]

/-! ### several collections in one call -/

/-- the lines of one collection's part of the output -/
def sectionLines (seqName : List Char) (fs : List Feature) : List (List Char) :=
  (">Features ".toList ++ seqName) :: (fs.map strLines).flatten

theorem fileText_eq (seqName : List Char) (fs : List Feature) (hfs : ∀ f ∈ fs, FeatOK f) :
    fileText seqName fs = some (join '\n' (sectionLines seqName fs) ++ ['\n']) := by
  have hstrs : fs.mapM Feature.str = some (fs.map (fun f => join '\n' (strLines f))) := by
    induction fs with
    | nil => rfl
    | cons f fs ih =>
      have := ih (fun x hx => hfs x (List.mem_cons_of_mem _ hx))
      simp only [List.mapM_cons, str_eq f (hfs f (by simp)).blocks, this, List.map_cons]
      rfl
  unfold fileText sectionLines
  rw [hstrs]
  simp only [Option.some.injEq]
  congr 1
  let hdr : List Char := ">Features ".toList ++ seqName
  have hg : ∀ g ∈ ([hdr] :: fs.map strLines), g ≠ [] := by
    intro g hg
    simp only [List.mem_cons, List.mem_map] at hg
    rcases hg with rfl | ⟨f, hf, rfl⟩
    · simp
    · exact strLines_ne_nil f (hfs f hf).blocks
  have := join_flatten '\n' ([hdr] :: fs.map strLines) hg
  simp only [List.map_cons, List.map_map, List.flatten_cons, List.singleton_append] at this
  have h1 : join '\n' [hdr] = hdr := rfl
  rw [h1] at this
  exact this

theorem sectionLines_no_nl (seqName : List Char) (fs : List Feature) (hn : '\n' ∉ seqName)
    (hfs : ∀ f ∈ fs, FeatOK f) : ∀ l ∈ sectionLines seqName fs, '\n' ∉ l := by
  intro l hl
  simp only [sectionLines, List.mem_cons, List.mem_flatten, List.mem_map] at hl
  rcases hl with rfl | ⟨g, ⟨f, hf, rfl⟩, hl⟩
  · simp only [List.mem_append, not_or]; exact ⟨by decide, hn⟩
  · exact strLines_no_nl f (hfs f hf) l hl

/-- the (feature, followed-by-blank-line) list of a collection -/
def featBlanks (fs : List Feature) : List (Feat × Bool) :=
  fs.map (fun f => (featOf f, (qualLines (validKeys f.key) f.quals f.pseudo).isEmpty))

theorem classify_section (seqName : List Char) (fs : List Feature)
    (hn : seqName ≠ [] ∧ ' ' ∉ seqName) (hfs : ∀ f ∈ fs, FeatOK f) :
    (sectionLines seqName fs).map classify = Line.header seqName :: featsLs (featBlanks fs) := by
  unfold sectionLines featBlanks
  simp only [List.map_cons]
  rw [classify_header seqName hn.2 hn.1, classify_all fs hfs]

theorem readLines_section (s : List Char) (fbs : List (Feat × Bool)) (hrows : ∀ fb ∈ fbs, fb.1.rows ≠ [])
    (rest : List Line) (st : St) (h : readLines rest = some st)
    (hr : st.rows = []) (hq : st.quals = []) (hf : st.feats = []) :
    readLines (Line.header s :: featsLs fbs ++ rest) = some { st with secs := ⟨s, fbs.map (·.1)⟩ :: st.secs } := by
  have := readLines_feats fbs hrows rest st h hr hq
  simp only [List.cons_append, readLines, this, Option.bind_some, step, hr, hq, hf, and_self, if_true,
    List.append_nil]

theorem featBlanks_rows (fs : List Feature) (hfs : ∀ f ∈ fs, FeatOK f) : ∀ fb ∈ featBlanks fs, fb.1.rows ≠ [] := by
  intro fb hfb
  obtain ⟨f, hf, rfl⟩ := List.mem_map.1 hfb
  exact rowsOf_ne_nil _ _ _ (locPairs_ne_nil _ _ (hfs f hf).blocks)

/-- collections the writer can print: a sequence name without space / line break, printable features -/
def CollOK (c : List Char × List Feature) : Prop :=
  (c.1 ≠ [] ∧ ' ' ∉ c.1 ∧ '\n' ∉ c.1) ∧ ∀ f ∈ c.2, FeatOK f

theorem filesText_eq (colls : List (List Char × List Feature)) (h : ∀ c ∈ colls, CollOK c) :
    filesText colls = some (join '\n' ((colls.map (fun c => sectionLines c.1 c.2)).flatten ++ [[]])) := by
  unfold filesText
  have hm : colls.mapM (fun c => fileText c.1 c.2)
      = some (colls.map (fun c => join '\n' (sectionLines c.1 c.2) ++ ['\n'])) := by
    induction colls with
    | nil => rfl
    | cons c cs ih =>
      have := ih (fun x hx => h x (List.mem_cons_of_mem _ hx))
      simp only [List.mapM_cons, fileText_eq c.1 c.2 (h c (by simp)).2, this, List.map_cons]
      rfl
  rw [hm]
  simp only [Option.some.injEq]
  clear hm
  induction colls with
  | nil => simp [join]
  | cons c cs ih =>
    have := ih (fun x hx => h x (List.mem_cons_of_mem _ hx))
    simp only [List.map_cons, List.flatten_cons, List.append_assoc]
    rw [this, join_append '\n' (sectionLines c.1 c.2) _ (by simp [sectionLines]) (by simp)]
    simp

theorem filesText_read (colls : List (List Char × List Feature)) (h : ∀ c ∈ colls, CollOK c) :
    ∃ t, filesText colls = some t ∧
      Spec.Tbl.read t = some (colls.map (fun c => ⟨c.1, c.2.map featOf⟩)) := by
  refine ⟨_, filesText_eq colls h, ?_⟩
  have hlines : ∀ l ∈ (colls.map (fun c => sectionLines c.1 c.2)).flatten ++ [[]], '\n' ∉ l := by
    intro l hl
    simp only [List.mem_append, List.mem_flatten, List.mem_map, List.mem_singleton] at hl
    rcases hl with ⟨g, ⟨c, hc, rfl⟩, hl⟩ | rfl
    · exact sectionLines_no_nl c.1 c.2 (h c hc).1.2.2 (h c hc).2 l hl
    · simp
  unfold Spec.Tbl.read linesOf
  rw [splitOn_join '\n' _ (by simp) hlines]
  simp only [List.map_append, List.map_cons, List.map_nil, classify_nil]
  have hend : readLines [Line.blank] = some ⟨[], [], [], []⟩ := by simp [readLines, step]
  have key : readLines ((colls.map (fun c => sectionLines c.1 c.2)).flatten.map classify ++ [Line.blank])
      = some ⟨[], [], [], colls.map (fun c => ⟨c.1, c.2.map featOf⟩)⟩ := by
    induction colls with
    | nil => simpa using hend
    | cons c cs ih =>
      have ih' := ih (fun x hx => h x (List.mem_cons_of_mem _ hx))
        (fun l hl => hlines l (by
          simp only [List.map_cons, List.flatten_cons, List.append_assoc, List.mem_append] at hl ⊢
          exact Or.inr hl))
      have hc := h c (by simp)
      simp only [List.map_cons, List.flatten_cons, List.map_append, List.append_assoc]
      rw [classify_section c.1 c.2 ⟨hc.1.1, hc.1.2.1⟩ hc.2]
      have := readLines_section c.1 (featBlanks c.2) (featBlanks_rows c.2 hc.2) _ _ ih' rfl rfl rfl
      simp only [List.cons_append] at this ⊢
      rw [this]
      simp [featBlanks, List.map_map, Function.comp_def]
  rw [key]

end BioCantor.Proofs.Tbl
