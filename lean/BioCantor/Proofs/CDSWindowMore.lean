/-
  C05-T5, extensions: (a) the parts of a window on a prepared location (`window_parts`), (b) single-exon CDS with
  ANY start frame on the complement of F-C05a, (c) windows with a `None` bound.
-/
import BioCantor.Proofs.CDSWindowCodons
namespace BioCantor.Proofs
open BioCantor BioCantor.Model BioCantor.Spec

/-- the window machinery on a prepared ascending location `L`, with the three stretches of its reading exposed -/
theorem window_parts (c : CDS) (L : List Blk) (hst : c.strand = .plus ∨ c.strand = .minus)
    (hL2 : L ≠ []) (hL3 : ∀ b ∈ L, b.1 < b.2) (hL4 : L.Pairwise (fun a b => a.2 ≤ b.1))
    (lo hi : Nat) (hw : lo < hi) (hsome : (bases ⟨L, c.strand⟩).filter (inW lo hi) ≠ []) :
    ∃ (W : List Blk) (Bf In Af : List Nat),
      bases ⟨L, c.strand⟩ = Bf ++ In ++ Af ∧
      Bf = (bases ⟨L, c.strand⟩).filter (beforeW c.strand lo hi) ∧
      (∀ x ∈ Bf, inW lo hi x = false) ∧ (∀ x ∈ In, inW lo hi x = true) ∧ (∀ x ∈ Af, inW lo hi x = false) ∧
      intersectWindow ⟨L, c.strand⟩ (lo, hi) = .ok (toSingleIfOne ⟨W, c.strand⟩) ∧
      W ≠ [] ∧ (∀ b ∈ W, b.1 < b.2) ∧ W.Pairwise (fun a b => a.2 ≤ b.1) ∧ bases ⟨W, c.strand⟩ = In ∧
      calculateFrameOffset c (.compound ⟨L, c.strand⟩) (toSingleIfOne ⟨W, c.strand⟩) =
        .ok (((3 - Bf.length % 3) % 3 : Nat) : Int) := by
  generalize hstd : c.strand = st at *
  generalize hKd : bases ⟨L, st⟩ = K at hsome
  have hKpw : K.Pairwise (PosLt st) := by
    rw [← hKd, bases_scanOrder L st hst]
    exact readScan_pairwise st _ (scanOrder_before L st hst hL4)
  have hsplit := split3 st lo hi (Nat.le_of_lt hw) K hKpw
  generalize hBf : K.filter (beforeW st lo hi) = Bf at hsplit
  generalize hIn : K.filter (inW lo hi) = In at hsplit hsome
  generalize hAf : K.filter (afterW st lo hi) = Af at hsplit
  have hplus_ne : (basesPlus L).filter (inW lo hi) ≠ [] := by
    intro h0
    apply hsome
    rw [← hIn, ← hKd, bases_mk]
    split
    · rw [List.filter_reverse, h0]; rfl
    · exact h0
  obtain ⟨W, hW1, hW2, hW3, hW4, hW5⟩ := intersectWindow_ok L st hL3 hL4 lo hi hw hplus_ne
  have hWb : bases ⟨W, st⟩ = In := by rw [bases_filter L W st lo hi hW5, hKd, hIn]
  have hLlen : 0 < blocksLen L := by
    cases L with
    | nil => exact absurd rfl hL2
    | cons a t => have := hL3 a (by simp); simp only [blocksLen, Blk.len]; omega
  have hB : ∀ x ∈ Bf, inW lo hi x = false := by
    intro x hx; rw [← hBf] at hx; simp only [List.mem_filter] at hx
    exact ((class_facts st lo hi (Nat.le_of_lt hw) x).1 hx.2).1
  have hI : ∀ x ∈ In, inW lo hi x = true := by
    intro x hx; rw [← hIn] at hx; simp only [List.mem_filter] at hx; exact hx.2
  have hA : ∀ x ∈ Af, inW lo hi x = false := by
    intro x hx; rw [← hAf] at hx; simp only [List.mem_filter] at hx
    have f := class_facts st lo hi (Nat.le_of_lt hw) x
    cases hb : beforeW st lo hi x with
    | true => exact (f.1 hb).1
    | false =>
      cases hi' : inW lo hi x with
      | false => rfl
      | true => have := f.2.1 hi'; rw [hx.2] at this; simp at this
  have hdis : ∀ x ∈ Bf, x ∉ bases ⟨W, st⟩ := by
    intro x hx hxw
    rw [hWb] at hxw
    have h1 := hB x hx
    have h2 := hI x hxw
    rw [h1] at h2; simp at h2
  have hoff := frameOffset_window c L W (by rw [hstd]; exact hst) (fun b hb => Nat.le_of_lt (hL3 b hb)) hLlen
    hW2 hW3 hW4 Bf Af (by rw [hstd, hKd, hWb]; exact hsplit) (by rw [hstd]; exact hdis)
  rw [hstd] at hoff
  have hoN : (-(Bf.length : Int)) % 3 = (((3 - Bf.length % 3) % 3 : Nat) : Int) := by omega
  rw [hoN] at hoff
  exact ⟨W, Bf, In, Af, hsplit, rfl, hB, hI, hA, hW1, hW2, hW3, hW4, hWb, hoff⟩

/-- list arithmetic of a single-exon window with start offset `fv`: as long as `fv + (−d mod 3) < 3` (the offsets
    add up without wrapping — the complement of F-C05a), the triples read from that offset inside the window are
    the codons of `K.drop fv` lying inside the window -/
theorem single_window_arith (Bf In Af : List Nat) (P : Nat → Bool)
    (hB : ∀ x ∈ Bf, P x = false) (hI : ∀ x ∈ In, P x = true) (hA : ∀ x ∈ Af, P x = false)
    (fv : Nat) (hg : fv + (3 - Bf.length % 3) % 3 < 3) :
    (triples ((Bf ++ In ++ Af).drop fv)).filter (fun t => t.all P) =
      triples (In.drop (fv + (3 - Bf.length % 3) % 3)) := by
  by_cases hd : fv ≤ Bf.length
  · have hdrop : (Bf ++ In ++ Af).drop fv = Bf.drop fv ++ In ++ Af := by
      rw [List.append_assoc, List.drop_append_of_le_length hd, List.append_assoc]
    rw [hdrop, triples_filter_window (Bf.drop fv) In Af P
      (fun x hx => hB x (List.mem_of_mem_drop hx)) hI hA]
    rw [← window_triples (Bf.drop fv ++ In ++ Af) (Bf.drop fv).length In.length]
    have hslice : ((Bf.drop fv ++ In ++ Af).drop (Bf.drop fv).length).take In.length = In := by
      rw [List.append_assoc, List.drop_left, List.take_left]
    rw [hslice]
    congr 2
    rw [List.length_drop]; omega
  · have hBf : Bf = [] := by
      have : Bf.length = 0 := by omega
      exact List.eq_nil_of_length_eq_zero this
    subst hBf
    simp only [List.nil_append, List.length_nil, Nat.zero_mod, Nat.sub_zero, Nat.mod_self, Nat.add_zero]
    have hdrop : (In ++ Af).drop fv = [] ++ In.drop fv ++ Af.drop (fv - In.length) := by
      rw [List.drop_append]; simp
    rw [hdrop, triples_filter_window [] (In.drop fv) (Af.drop (fv - In.length)) P (by simp)
      (fun x hx => hI x (List.mem_of_mem_drop hx)) (fun x hx => hA x (List.mem_of_mem_drop hx))]
    have hw0 := window_triples ([] ++ In.drop fv ++ Af.drop (fv - In.length)) 0 (In.drop fv).length
    simp only [List.length_nil] at hw0 ⊢
    rw [← hw0]
    simp

/-- **C05-T5**, single-exon CDS, any start frame, on the complement of F-C05a:
    with `d` = number of exon positions before the window (5' side), `frame + ((−d) mod 3) < 3`
    (in particular every window that does not cut the 5' end, `d = 0`, and every window when `frame = 0`) -/
theorem windowCodons_single_any (c : CDS) (h : WFCDS c) (e : Blk) (hone : c.loc.blocks = [e])
    (f : CDSFrame) (hf : c.frames = [f]) (lo hi : Nat) (hw : lo < hi)
    (hseq : ∀ s, c.seq = some s → hi ≤ s.length)
    (hsome : (bases c.loc).filter (inW lo hi) ≠ [])
    (hguard : f.value.toNat + (3 - ((bases c.loc).filter (beforeW c.loc.strand lo hi)).length % 3) % 3 < 3) :
    okCodons (specOf c) (some ⟨some (lo : Int), some (hi : Int), false⟩)
      (ans (scanChromosomeCodonLocations c (some ⟨some (lo : Int), some (hi : Int), false⟩))) = true := by
  obtain ⟨f', hf', hfn, _, hk⟩ := prepareSingle_ok c h e hone
  have hff : f' = f := by rw [hf] at hf'; simpa using hf'.symm
  subst hff
  have hfv := frame_value_range f' hfn
  have hcs : c.strand = c.loc.strand := rfl
  have hloc : c.loc = ⟨[e], c.loc.strand⟩ := by
    rcases hc : c.loc with ⟨bs, st⟩
    rw [hc] at hone; simp only at hone; subst hone; rfl
  have hpos : e.1 < e.2 := h.positive e (by rw [hone]; simp)
  obtain ⟨W, Bf, In, Af, hsplit, hBfdef, hB, hI, hA, hW1, hW2, hW3, hW4, hWb, hoff⟩ :=
    window_parts c [e] h.dir (by simp) (by intro b hb; simp at hb; subst hb; exact hpos) (by simp) lo hi hw
      (by rw [hcs, ← hloc]; exact hsome)
  rw [hcs, ← hloc] at hsplit hBfdef hW1 hoff
  rw [hcs] at hWb
  rw [← hBfdef] at hguard
  generalize ho : (3 - Bf.length % 3) % 3 = o at hoff hguard
  obtain ⟨ms, hm1, hm2⟩ := scan_from_toSingle W c.loc.strand h.dir hW2 hW3 hW4 (f'.value.toNat + o)
  have hcast : ((f'.value.toNat + o : Nat) : Int) = f'.value + (o : Int) := by omega
  rw [hcast] at hm1
  have hrun' : (scanChromosomeCodonLocations c (some ⟨some (lo : Int), some (hi : Int), false⟩)) = .ok ms := by
    unfold scanChromosomeCodonLocations convertWindow
    simp only [Option.isNone_some, Bool.false_eq_true, and_self, if_false, mkWindow_ok c lo hi hw hseq, bind,
      Except.bind, pure, Except.pure]
    unfold scanCodonLocations prepare CDS.numBlocks
    have hnm : ¬ (c.loc.blocks.length > 1) := by rw [hone]; simp
    rw [if_neg hnm]
    unfold prepareSingle
    simp only [hf, List.head?_cons, bind, Except.bind, pure, Except.pure, windowTruthy_pos lo hi hw, hW1, hoff]
    -- robust against a repair of F-C05a (`(offset + d) % 3`)
    have hmod : (f'.value + (o : Int)) % 3 = f'.value + (o : Int) := by omega
    first
      | exact hm1
      | (rw [hmod]; exact hm1)
  rw [hrun']
  simp only [ans_ok, okCodons, expectCodons, specOf, CDSIn.codons, cdsCodons, Win.lo, Win.hi, windowCodons]
  rw [spec_window_fun, ← hk, hsplit, single_window_arith Bf In Af (inW lo hi) hB hI hA f'.value.toNat
    (by rw [ho]; exact hguard), ho, ← hWb]
  exact hm2

/-! ### windows with a `None` bound -/

/-- `chromosome_start=None` is `self.start` -/
theorem scan_none_start (c : CDS) (hi : Int) (x : Bool) :
    scanChromosomeCodonLocations c (some ⟨none, some hi, x⟩) =
      scanChromosomeCodonLocations c (some ⟨some (c.start : Int), some hi, x⟩) := by
  unfold scanChromosomeCodonLocations convertWindow
  simp

/-- `chromosome_end=None` is `self.end` -/
theorem scan_none_end (c : CDS) (lo : Int) (x : Bool) :
    scanChromosomeCodonLocations c (some ⟨some lo, none, x⟩) =
      scanChromosomeCodonLocations c (some ⟨some lo, some (c.«end» : Int), x⟩) := by
  unfold scanChromosomeCodonLocations convertWindow
  simp

/-- both bounds `None`: no window at all -/
theorem scan_none_both (c : CDS) (x : Bool) :
    scanChromosomeCodonLocations c (some ⟨none, none, x⟩) = codonLocations c := by
  unfold scanChromosomeCodonLocations convertWindow codonLocations
  simp [bind, Except.bind, pure, Except.pure]

theorem okCodons_none_start (c : CDS) (hstart : c.start = locStartMin c.loc) (hi : Int) (x : Bool)
    (a : Option (List Location)) :
    okCodons (specOf c) (some ⟨none, some hi, x⟩) a =
      okCodons (specOf c) (some ⟨some (c.start : Int), some hi, x⟩) a := by
  unfold okCodons expectCodons Win.lo Win.hi specOf
  simp [hstart]

theorem okCodons_none_end (c : CDS) (hend : c.«end» = locEndMax c.loc.blocks) (lo : Int) (x : Bool)
    (a : Option (List Location)) :
    okCodons (specOf c) (some ⟨some lo, none, x⟩) a =
      okCodons (specOf c) (some ⟨some lo, some (c.«end» : Int), x⟩) a := by
  unfold okCodons expectCodons Win.lo Win.hi specOf
  simp [hend]

end BioCantor.Proofs
