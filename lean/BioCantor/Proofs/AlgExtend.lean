/-
  C02-T8: `extend_absolute` / `extend_relative`: the old positions plus the two flanks.
-/
import BioCantor.Proofs.AlgOverlap
import BioCantor.Proofs.AlgOptimize
import BioCantor.Proofs.AlgUnion
namespace BioCantor.Proofs.Extend
open BioCantor BioCantor.Spec BioCantor.Model BioCantor.Proofs

/-- `end ≤ len(parent.sequence)` when the parent has a sequence -/
def fits (e : Int) (par : PKey) : Bool :=
  match parentSeqLen par with
  | some n => decide (e ≤ n)
  | none => true

theorem checkEnd_eq (e : Int) (par : PKey) :
    checkEnd e par = if fits e par then .ok () else .error .InvalidPosition := by
  unfold checkEnd fits
  cases parentSeqLen par with
  | none => rfl
  | some n =>
    by_cases h : e > n
    · have : ¬ e ≤ n := by omega
      simp [h, this]; rfl
    · have : e ≤ n := by omega
      simp [h, this]; rfl

theorem mkSingleP_eq (s e : Int) (st : Strand) (par : PKey) :
    mkSingleP s e st par =
      if 0 ≤ s ∧ s ≤ e ∧ fits e par = true then .ok (.single (s.toNat, e.toNat) st, par)
      else .error .InvalidPosition := by
  unfold mkSingleP mkSingle
  rw [checkEnd_eq]
  by_cases h1 : 0 ≤ s ∧ s ≤ e
  · cases hf : fits e par
    · simp [h1]; rfl
    · simp [h1]; rfl
  · have : ¬ (0 ≤ s ∧ s ≤ e ∧ fits e par = true) := fun h => h1 ⟨h.1, h.2.1⟩
    simp only [h1, this, if_false]
    rfl

/-- `optimize_blocks` on any well-formed location -/
theorem optimizeBlocks_spec (L : Location) (hwf : WF L) :
    ∃ r, optimizeBlocks L = .ok r ∧ wfLocation r = true ∧
      (r = .empty ∨ locationStrand? r = locationStrand? L) ∧
      (∀ q, locationCovers r q = locationCovers L q) ∧
      (∀ x ∈ locationBlocks r, x.2 ≤ maxEndOf (locationBlocks L)) ∧
      noEmptyBlock r = true ∧ kindOk r = true ∧
      (nonOverlap (locationBlocks L) = true → normalBlocks (locationBlocks r) = true) := by
  cases L with
  | empty =>
    exact ⟨.empty, rfl, rfl, Or.inl rfl, fun _ => rfl, by simp [locationBlocks], rfl, rfl, fun _ => rfl⟩
  | single b st =>
    have hb : b.1 ≤ b.2 := hwf
    by_cases h0 : b.len = 0
    · have h0' : b.2 - b.1 = 0 := h0
      refine ⟨.empty, by simp [optimizeBlocks, h0]; rfl, rfl, Or.inl rfl, ?_, by simp [locationBlocks], rfl, rfl,
        fun _ => rfl⟩
      intro q
      simp only [locationCovers, coversBlocks, List.any_cons, List.any_nil, Bool.or_false]
      symm
      rw [Bool.eq_false_iff]
      simp only [ne_eq, Bool.and_eq_true, decide_eq_true_eq]
      omega
    · have h0' : ¬ (b.2 - b.1 = 0) := h0
      refine ⟨.single b st, by simp [optimizeBlocks, h0]; rfl, by simpa [wfLocation] using hb, Or.inr rfl,
        fun _ => rfl, ?_, ?_, rfl, ?_⟩
      · intro x hx
        simp only [locationBlocks, List.mem_singleton] at hx
        subst hx
        simp [locationBlocks, maxEndOf]
      · simp only [noEmptyBlock, locationBlocks, List.all_cons, List.all_nil, Bool.and_true, decide_eq_true_eq]
        omega
      · intro _
        simp only [locationBlocks, normalBlocks, decide_eq_true_eq]
        omega
  | compound l =>
    have hc : Loc.Canon ⟨l.blocks, l.strand⟩ := hwf
    obtain ⟨r, hr, hs⟩ := optimizeLoc_spec true l.blocks l.strand hc
    refine ⟨r, hr, hs.wf, hs.strand, fun q => hs.locationCovers q, hs.ends_le, hs.noEmptyBlock, hs.kind, ?_⟩
    intro hno
    exact (hs.normal rfl hno).1

/-- one flank joined to the current location (same strand, same parent) -/
theorem flank_union (L : Location) (pa : PKey) (y : Blk) (st : Strand) (hwf : WF L)
    (hst : locationStrand? L = some st) (hy : y.1 ≤ y.2) :
    ∃ r, unionP (L, pa) (.single y st, pa) = .ok (withPar r pa) ∧ Union.USpec L y st r := by
  have hL : L ≠ .empty := by intro h; rw [h] at hst; simp [locationStrand?] at hst
  obtain ⟨r, hr, hs⟩ := Union.uws_spec L pa y st pa hwf hst hy (sameParent_refl pa)
  exact ⟨r, by rw [Union.unionP_single_right L pa y st pa hL]; exact hr, hs⟩

theorem fits_none (e : Int) (par : PKey) (h : parLen par = none) : fits e par = true := by
  rw [parLen_eq] at h; simp [fits, h]

theorem fits_some (e : Int) (par : PKey) (k : Nat) (h : parLen par = some k) : fits e par = decide (e ≤ k) := by
  rw [parLen_eq] at h; simp [fits, h]

theorem okExtendAbs_refuse (a : PLoc) (s : Blk) (hspan : spanOf a.1 = some s) (es ee : Int)
    (h : es < 0 ∨ ee < 0 ∨ (s.1 : Int) - es < 0 ∨ fits ((s.2 : Int) + ee) a.2 = false) :
    okExtendAbs a es ee none = true := by
  unfold okExtendAbs
  simp only [hspan]
  rcases h with h | h | h | h
  · simp [h]
  · simp [h]
  · simp [h]
  · cases hpl : parLen a.2 with
    | none => rw [fits_none _ _ hpl] at h; cases h
    | some k =>
      rw [fits_some _ _ k hpl] at h
      have : (s.2 : Int) + ee > k := by simpa using h
      simp [this]

theorem okExtendAbs_accept (a : PLoc) (s : Blk) (hspan : spanOf a.1 = some s) (m n : Nat) (hm : m ≤ s.1)
    (hfit : fits ((s.2 : Int) + n) a.2 = true) (r : Location) (hwf : wfLocation r = true)
    (hstr : r = .empty ∨ locationStrand? r = locationStrand? a.1)
    (hcov : ∀ q, locationCovers r q = (locationCovers a.1 q || (decide (s.1 - m ≤ q) && decide (q < s.1)) ||
      (decide (s.2 ≤ q) && decide (q < s.2 + n))))
    (hends : ∀ x ∈ locationBlocks r, x.2 ≤ s.2 + n)
    (hextra : ∀ l, a.1 = .compound l → noEmptyBlock r = true ∧ kindOk r = true) :
    okExtendAbs a m n (some (withPar r a.2)) = true := by

  have h1 : ¬ ((m : Int) < 0) := by omega
  have h2 : ¬ ((n : Int) < 0) := by omega
  have h3 : ¬ ((s.1 : Int) - m < 0) := by omega
  have hres : resultOk (withPar r a.2) a.2 = true := by
    apply resultOk_withPar r a.2 a.2 hwf _ (sameParent_refl _)
    intro k hk x hx
    have := hends x hx
    unfold fits at hfit
    rw [hk] at hfit
    simp only [decide_eq_true_eq] at hfit
    omega
  have hend : endsWithin r (s.2 + n) = true := by
    simp only [endsWithin, List.all_eq_true, decide_eq_true_eq]
    exact hends
  have hall : allUpTo (s.2 + n) (fun p => locationCovers r p ==
      (locationCovers a.1 p || (decide (s.1 - m ≤ p) && decide (p < s.1)) ||
        (decide (s.2 ≤ p) && decide (p < s.2 + n)))) = true := by
    rw [allUpTo_iff]
    intro p _
    rw [hcov]
    simp
  have hstrand : strandIs r (locationStrand? a.1) = true := by
    rcases hstr with h | h
    · simp [strandIs, h]
    · simp [strandIs, h]
  unfold okExtendAbs
  simp only [hspan, h1, h2, h3, decide_false, Bool.false_or, withPar_fst, Int.toNat_natCast, hres, hend, hall,
    hstrand, Bool.and_self]
  cases hpl : parLen a.2 with
  | none =>
    simp only [Bool.false_eq_true, if_false, Bool.true_and]
    split
    · rename_i l hl
      have := hextra l hl
      simp [this.1, this.2]
    · rfl
  | some k =>
    rw [fits_some _ _ k hpl] at hfit
    have : ¬ ((s.2 : Int) + n > k) := by
      have : (s.2 : Int) + n ≤ k := by simpa using hfit
      omega
    simp only [this, decide_false, Bool.false_eq_true, if_false, Bool.true_and]
    split
    · rename_i l hl
      have := hextra l hl
      simp [this.1, this.2]
    · rfl

/-- `if distance > 0: self.union(flank)`; for distance 0 the flank is empty -/
theorem flank_step (L : Location) (pa : PKey) (st : Strand) (hwf : WF L) (hst : locationStrand? L = some st)
    (c : Int) (s e : Nat) (hse : s ≤ e) (hc1 : c > 0 → s < e) (hc2 : ¬ c > 0 → s = e)
    (hfit : fits (e : Int) pa = true) :
    ∃ L', (if c > 0 then do
              let fl ← mkSingleP (s : Int) (e : Int) st pa
              unionP (L, pa) fl
            else pure ((L, pa) : PLoc)) = .ok (L', pa) ∧
      WF L' ∧ locationStrand? L' = some st ∧
      (∀ q, locationCovers L' q = (locationCovers L q || coversBlocks [(s, e)] q)) ∧
      (∀ x ∈ locationBlocks L', x.2 ≤ max (maxEndOf (locationBlocks L)) e) ∧
      (nonOverlap (locationBlocks L) = true → nonOverlap (locationBlocks L') = true) := by
  by_cases hc : c > 0
  · have hlt := hc1 hc
    obtain ⟨r, hr, hs⟩ := flank_union L pa (s, e) st hwf hst hse
    have hcovs : locationCovers r s = true := by
      rw [hs.cov]
      simp [coversBlocks, hlt]
    have hne : r ≠ .empty := by
      intro h; rw [h] at hcovs; simp [locationCovers] at hcovs
    have hstr : locationStrand? r = some st := by
      rcases hs.strand with h | h
      · exact absurd h hne
      · exact h
    refine ⟨r, ?_, Union.wf_of_wfLocation r hs.wf, hstr, hs.cov, hs.ends, hs.disj⟩
    have hcond : (0 : Int) ≤ s ∧ (s : Int) ≤ e ∧ fits (e : Int) pa = true := ⟨by omega, by omega, hfit⟩
    simp only [hc, if_true, mkSingleP_eq, hcond, and_self, Int.toNat_natCast]
    rw [← Union.withPar_of_ne r pa hne, ← hr]
    rfl
  · have heq := hc2 hc
    subst heq
    refine ⟨L, by simp only [hc, if_false]; rfl, hwf, hst, ?_, ?_, id⟩
    · intro q
      have : coversBlocks [(s, s)] q = false := by
        rw [Bool.eq_false_iff]
        simp only [coversBlocks, List.any_cons, List.any_nil, Bool.or_false, ne_eq, Bool.and_eq_true,
          decide_eq_true_eq]
        omega
      rw [this, Bool.or_false]
    · intro x hx
      have := le_maxEndOf_of_mem _ x hx
      omega

/-- the accepted case of `extend_absolute` -/
theorem extend_some (a : PLoc) (ha : WFP a) (s : Blk) (hspan : spanOf a.1 = some s) (m n : Nat) (hm : m ≤ s.1)
    (hfit : fits ((s.2 : Int) + n) a.2 = true) :
    ∃ r, extendAbsoluteP a m n = .ok (withPar r a.2) ∧ wfLocation r = true ∧
      (r = .empty ∨ locationStrand? r = locationStrand? a.1) ∧
      (∀ q, locationCovers r q = (locationCovers a.1 q || (decide (s.1 - m ≤ q) && decide (q < s.1)) ||
        (decide (s.2 ≤ q) && decide (q < s.2 + n)))) ∧
      (∀ x ∈ locationBlocks r, x.2 ≤ s.2 + n) ∧
      (∀ l, a.1 = .compound l → noEmptyBlock r = true ∧ kindOk r = true) ∧
      (∀ l, a.1 = .compound l → nonOverlap l.blocks = true → normalBlocks (locationBlocks r) = true) := by
  obtain ⟨A, pa⟩ := a
  have hmin : ¬ (min (m : Int) (n : Int) < 0) := by omega
  cases A with
  | empty => simp [spanOf, locationBlocks] at hspan
  | single b st =>
    have hbs : b = s := by rw [spanOf_single] at hspan; exact Option.some.inj hspan
    subst hbs
    have hb : b.1 ≤ b.2 := ha.1
    have hcond : (0 : Int) ≤ (b.1 : Int) - m ∧ (b.1 : Int) - m ≤ (b.2 : Int) + n ∧
        fits ((b.2 : Int) + n) pa = true := ⟨by omega, by omega, hfit⟩
    have e1 : ((b.1 : Int) - (m : Int)).toNat = b.1 - m := by omega
    have e2 : ((b.2 : Int) + (n : Int)).toNat = b.2 + n := by omega
    refine ⟨.single (b.1 - m, b.2 + n) st, ?_, ?_, Or.inr rfl, ?_, ?_, ?_, ?_⟩
    · simp only [extendAbsoluteP, hmin, if_false, mkSingleP_eq, hcond, and_self, if_true, e1, e2]
      rfl
    · simp only [wfLocation, decide_eq_true_eq]; omega
    · intro q
      simp only [locationCovers, coversBlocks, List.any_cons, List.any_nil, Bool.or_false]
      rw [Bool.eq_iff_iff]
      simp only [Bool.or_eq_true, Bool.and_eq_true, decide_eq_true_eq]
      omega
    · intro x hx
      simp only [locationBlocks, List.mem_singleton] at hx
      subst hx
      exact Nat.le_refl _
    · intro l hl; cases hl
    · intro l hl; cases hl
  | compound la =>
    have hc : la.Canon := ha.1
    obtain ⟨f, rest, hbl, hsp, _⟩ := spanOf_compound la hc
    rw [hsp] at hspan
    cases hspan
    simp only at hm hfit ⊢
    have hhead : la.blocks.head? = some f := by rw [hbl]; rfl
    have hemp : la.blocks.isEmpty = false := by rw [hbl]; rfl
    have hf : f.1 ≤ f.2 := (blocksValid_iff _).mp hc.2.1 f (by simp [hbl])
    have hfE : f.2 ≤ maxEnd la.blocks := by
      rw [← maxEndOf_eq_maxEnd]; exact le_maxEndOf_of_mem _ f (by simp [hbl])
    have hfit1 : fits (f.1 : Int) pa = true := by
      unfold fits at hfit ⊢
      cases hk : parentSeqLen pa with
      | none => rfl
      | some k =>
        rw [hk] at hfit
        simp only [decide_eq_true_eq] at hfit ⊢
        omega
    have hfit2 : fits ((maxEnd la.blocks + n : Nat) : Int) pa = true := by
      rw [Int.natCast_add]; exact hfit
    obtain ⟨L1, hL1, hwf1, hst1, hcov1, hends1, hdis1⟩ :=
      flank_step (.compound la) pa la.strand hc rfl (m : Int) (f.1 - m) f.1 (by omega) (by omega) (by omega) hfit1
    obtain ⟨L2, hL2, hwf2, hst2, hcov2, hends2, hdis2⟩ :=
      flank_step L1 pa la.strand hwf1 hst1 (n : Int) (maxEnd la.blocks) (maxEnd la.blocks + n) (by omega)
        (by omega) (by omega) hfit2
    obtain ⟨r, hr, h1, h2, h3, h4, h5, h6, h7⟩ := optimizeBlocks_spec L2 hwf2
    have hc1 : ((f.1 : Int) - (m : Int)) = ((f.1 - m : Nat) : Int) := by omega
    have hc2 : ((maxEnd la.blocks : Int) + (n : Int)) = ((maxEnd la.blocks + n : Nat) : Int) := by omega
    refine ⟨r, ?_, h1, ?_, ?_, ?_, fun _ _ => ⟨h5, h6⟩, ?_⟩
    · unfold extendAbsoluteP
      simp only [locStart, locEnd, hhead, hemp, hmin, if_false, Bool.false_eq_true, pure_bind, hc1, hc2]
      rw [hL1, ok_bind, hL2, ok_bind]
      simp only [optimizeBlocksP, hr, ok_bind]
      rfl
    · rcases h2 with h | h
      · exact Or.inl h
      · right; rw [h, hst2]; rfl
    · intro q
      rw [h3, hcov2, hcov1]
      simp [locationCovers, coversBlocks]
    · intro x hx
      have e1 := h4 x hx
      have e2 : maxEndOf (locationBlocks L2) ≤ max (maxEndOf (locationBlocks L1)) (maxEnd la.blocks + n) :=
        (maxEndOf_le_iff _ _).mpr hends2
      have e3 : maxEndOf (locationBlocks L1) ≤ max (maxEndOf la.blocks) f.1 :=
        (maxEndOf_le_iff _ _).mpr hends1
      have e4 : maxEndOf la.blocks = maxEnd la.blocks := maxEndOf_eq_maxEnd _
      omega
    · intro l hl hno
      cases hl
      exact h7 (hdis2 (hdis1 hno))

theorem extend_none (a : PLoc) (ha : WFP a) (s : Blk) (hspan : spanOf a.1 = some s) (es ee : Int)
    (h : es < 0 ∨ ee < 0 ∨ (s.1 : Int) - es < 0 ∨ fits ((s.2 : Int) + ee) a.2 = false) :
    ans (extendAbsoluteP a es ee) = none := by
  by_cases hmin : min es ee < 0
  · obtain ⟨A, pa⟩ := a
    cases A with
    | empty => rfl
    | single b st => simp [extendAbsoluteP, hmin]
    | compound la => simp [extendAbsoluteP, hmin]; rfl
  · have hes : 0 ≤ es := by omega
    have hee : 0 ≤ ee := by omega
    have h' : (s.1 : Int) - es < 0 ∨ ((s.1 : Int) - es ≥ 0 ∧ fits ((s.2 : Int) + ee) a.2 = false) := by
      rcases h with h | h | h | h
      · omega
      · omega
      · exact Or.inl h
      · by_cases hh : (s.1 : Int) - es < 0
        · exact Or.inl hh
        · exact Or.inr ⟨by omega, h⟩
    obtain ⟨A, pa⟩ := a
    cases A with
    | empty => rfl
    | single b st =>
      have hbs : b = s := by rw [spanOf_single] at hspan; exact Option.some.inj hspan
      subst hbs
      simp only at h'
      have hcond : ¬ ((0 : Int) ≤ (b.1 : Int) - es ∧ (b.1 : Int) - es ≤ (b.2 : Int) + ee ∧
          fits ((b.2 : Int) + ee) pa = true) := by
        rintro ⟨c1, _, c3⟩
        rcases h' with h' | ⟨_, h'⟩
        · omega
        · rw [h'] at c3; cases c3
      simp only [extendAbsoluteP, hmin, if_false, mkSingleP_eq, hcond]
      rfl
    | compound la =>
      have hc : la.Canon := ha.1
      obtain ⟨f, rest, hbl, hsp, _⟩ := spanOf_compound la hc
      rw [hsp] at hspan
      cases hspan
      simp only at h'
      have hhead : la.blocks.head? = some f := by rw [hbl]; rfl
      have hemp : la.blocks.isEmpty = false := by rw [hbl]; rfl
      have hf : f.1 ≤ f.2 := (blocksValid_iff _).mp hc.2.1 f (by simp [hbl])
      have hfE : f.2 ≤ maxEnd la.blocks := by
        rw [← maxEndOf_eq_maxEnd]; exact le_maxEndOf_of_mem _ f (by simp [hbl])
      unfold extendAbsoluteP
      simp only [locStart, locEnd, hhead, hemp, hmin, if_false, Bool.false_eq_true, pure_bind]
      rcases h' with h' | ⟨h1, h2⟩
      · have hpos : es > 0 := by omega
        have hcond : ¬ ((0 : Int) ≤ (f.1 : Int) - es ∧ (f.1 : Int) - es ≤ (f.1 : Int) ∧
            fits (f.1 : Int) pa = true) := by
          rintro ⟨c1, _, _⟩; omega
        simp only [hpos, if_true, mkSingleP_eq, hcond, if_false]
        rfl
      · -- the left flank goes through; the right one leaves the parent
        obtain ⟨m, rfl⟩ := Int.eq_ofNat_of_zero_le hes
        have hm : m ≤ f.1 := by omega
        have hall : ∀ k, parentSeqLen pa = some k → ∀ x ∈ la.blocks, x.2 ≤ k := fun k hk x hx => ha.2.2 k hk x hx
        have hEk : ∀ k, parentSeqLen pa = some k → maxEnd la.blocks ≤ k := by
          intro k hk
          rw [← maxEndOf_eq_maxEnd]
          exact (maxEndOf_le_iff _ _).mpr (hall k hk)
        have hfit1 : fits (f.1 : Int) pa = true := by
          unfold fits
          cases hk : parentSeqLen pa with
          | none => rfl
          | some k =>
            have := hEk k hk
            simp only [decide_eq_true_eq]
            omega
        have heepos : ee > 0 := by
          unfold fits at h2
          cases hk : parentSeqLen pa with
          | none => rw [hk] at h2; cases h2
          | some k =>
            rw [hk] at h2
            have := hEk k hk
            simp only [decide_eq_false_iff_not] at h2
            omega
        obtain ⟨L1, hL1, _⟩ :=
          flank_step (.compound la) pa la.strand hc rfl (m : Int) (f.1 - m) f.1 (by omega) (by omega) (by omega)
            hfit1
        have hc1 : ((f.1 : Int) - (m : Int)) = ((f.1 - m : Nat) : Int) := by omega
        have hcond : ¬ ((0 : Int) ≤ (maxEnd la.blocks : Int) ∧ (maxEnd la.blocks : Int) ≤ (maxEnd la.blocks : Int) + ee ∧
            fits ((maxEnd la.blocks : Int) + ee) pa = true) := by
          rintro ⟨_, _, c3⟩; rw [h2] at c3; cases c3
        simp only [hc1]
        rw [hL1, ok_bind]
        simp only [heepos, if_true, mkSingleP_eq, hcond, if_false]
        rfl

theorem spanOf_none (a : PLoc) (ha : WFP a) (h : spanOf a.1 = none) : a.1 = .empty := by
  obtain ⟨A, pa⟩ := a
  cases A with
  | empty => rfl
  | single b st => simp [spanOf_single] at h
  | compound la =>
    obtain ⟨f, rest, _, hsp, _⟩ := spanOf_compound la ha.1
    simp only at h
    rw [hsp] at h
    cases h

/-- refused / accepted, in one statement -/
theorem extend_cases (a : PLoc) (ha : WFP a) (s : Blk) (hspan : spanOf a.1 = some s) (es ee : Int) :
    ((es < 0 ∨ ee < 0 ∨ (s.1 : Int) - es < 0 ∨ fits ((s.2 : Int) + ee) a.2 = false) ∧
        ans (extendAbsoluteP a es ee) = none) ∨
    (∃ m n : Nat, es = m ∧ ee = n ∧ m ≤ s.1 ∧ fits ((s.2 : Int) + n) a.2 = true) := by
  by_cases h : es < 0 ∨ ee < 0 ∨ (s.1 : Int) - es < 0 ∨ fits ((s.2 : Int) + ee) a.2 = false
  · exact Or.inl ⟨h, extend_none a ha s hspan es ee h⟩
  · right
    have h1 : 0 ≤ es := by
      by_cases hh : es < 0
      · exact absurd (Or.inl hh) h
      · omega
    have h2 : 0 ≤ ee := by
      by_cases hh : ee < 0
      · exact absurd (Or.inr (Or.inl hh)) h
      · omega
    obtain ⟨m, rfl⟩ := Int.eq_ofNat_of_zero_le h1
    obtain ⟨n, rfl⟩ := Int.eq_ofNat_of_zero_le h2
    refine ⟨m, n, rfl, rfl, ?_, ?_⟩
    · by_cases hh : (s.1 : Int) - m < 0
      · exact absurd (Or.inr (Or.inr (Or.inl hh))) h
      · omega
    · cases hf : fits ((s.2 : Int) + n) a.2
      · exact absurd (Or.inr (Or.inr (Or.inr hf))) h
      · rfl

end BioCantor.Proofs.Extend

namespace BioCantor.Proofs
open BioCantor BioCantor.Spec BioCantor.Model

example : WFP ((.compound ⟨[(2, 3), (3, 3), (4, 5)], .minus⟩), [(some "chrA", none, some ['A','C','G','T','A','C'])]) := by
  decide

/-- extend_absolute: old positions plus the two flanks; refused iff a distance is negative or a flank leaves
    `[0, parent length]`; EmptyLocation cannot be extended -/
theorem extendAbsoluteP_ok (a : PLoc) (ha : WFP a) (es ee : Int) :
    okExtendAbs a es ee (ans (extendAbsoluteP a es ee)) = true := by
  cases hspan : spanOf a.1 with
  | none =>
    have he := Extend.spanOf_none a ha hspan
    have : extendAbsoluteP a es ee = .error .EmptyLocation := by
      unfold extendAbsoluteP; rw [he]; rfl
    rw [this]
    simp [okExtendAbs, hspan]
  | some s =>
    rcases Extend.extend_cases a ha s hspan es ee with ⟨h, hn⟩ | ⟨m, n, rfl, rfl, hm, hfit⟩
    · rw [hn]; exact Extend.okExtendAbs_refuse a s hspan es ee h
    · obtain ⟨r, hr, h1, h2, h3, h4, h5, _⟩ := Extend.extend_some a ha s hspan m n hm hfit
      rw [hr, ans_ok]
      exact Extend.okExtendAbs_accept a s hspan m n hm hfit r h1 h2 h3 h4 h5

/-- a CompoundInterval that is not self-overlapping is extended to a location in normal form -/
theorem extendAbsoluteP_normal (a : PLoc) (ha : WFP a) (es ee : Int) :
    okExtendAbsNormal a (ans (extendAbsoluteP a es ee)) = true := by
  cases hspan : spanOf a.1 with
  | none =>
    have he := Extend.spanOf_none a ha hspan
    simp [okExtendAbsNormal, he]
  | some s =>
    rcases Extend.extend_cases a ha s hspan es ee with ⟨_, hn⟩ | ⟨m, n, rfl, rfl, hm, hfit⟩
    · rw [hn]; unfold okExtendAbsNormal; split <;> first | rfl | (rename_i h; cases h)
    · obtain ⟨r, hr, _, _, _, _, _, h6⟩ := Extend.extend_some a ha s hspan m n hm hfit
      rw [hr, ans_ok]
      unfold okExtendAbsNormal
      split
      · rename_i l r' hl hr'
        simp only [Option.some.injEq] at hr'
        subst hr'
        rw [withPar_fst]
        split
        · rename_i hno
          simp only [nonOverlapLoc, hl, locationBlocks] at hno
          exact h6 l hl hno
        · rfl
      · rfl

/-- extend_relative = extend_absolute with the arguments swapped on the minus strand; needs a direction -/
theorem extendRelativeP_ok (a : PLoc) (ha : WFP a) (up down : Int) :
    okExtendRel a up down (ans (extendRelativeP a up down)) = true := by
  have key : ∀ st, locationStrand? a.1 = some st →
      extendRelativeP a up down = (do
        assertDirectional st
        if st = .plus then extendAbsoluteP a up down else extendAbsoluteP a down up) := by
    intro st hst
    obtain ⟨A, pa⟩ := a
    cases A with
    | empty => simp [locationStrand?] at hst
    | single b s => simp only [locationStrand?, Option.some.injEq] at hst; subst hst; rfl
    | compound l => simp only [locationStrand?, Option.some.injEq] at hst; subst hst; rfl
  unfold okExtendRel
  cases hst : locationStrand? a.1 with
  | none =>
    have he : a.1 = .empty := by
      cases h : a.1 <;> simp [h, locationStrand?] at hst
      rfl
    have : extendRelativeP a up down = .error .EmptyLocation := by
      unfold extendRelativeP; rw [he]; rfl
    rw [this]; rfl
  | some st =>
    rw [key st hst]
    cases st with
    | plus =>
      have : (do assertDirectional Strand.plus
                 if Strand.plus = .plus then extendAbsoluteP a up down else extendAbsoluteP a down up) =
          extendAbsoluteP a up down := rfl
      rw [this]
      simp only [Bool.and_eq_true]
      exact ⟨extendAbsoluteP_ok a ha up down, extendAbsoluteP_normal a ha up down⟩
    | minus =>
      have : (do assertDirectional Strand.minus
                 if Strand.minus = .plus then extendAbsoluteP a up down else extendAbsoluteP a down up) =
          extendAbsoluteP a down up := rfl
      rw [this]
      simp only [Bool.and_eq_true]
      exact ⟨extendAbsoluteP_ok a ha down up, extendAbsoluteP_normal a ha down up⟩
    | unstranded => rfl

end BioCantor.Proofs
