/-
  `SingleInterval.compare` / `__lt__` and `sorted(blocks)` as used by compound ∪ compound
  (`Model.singleLt`, `Model.sortSingles`): the comparison is a strict weak order on (parent id, start, end), so the
  stable sort is well defined; its result is a sorted permutation; and for blocks of one parent id — the only case
  that reaches the sort since the two-sided parent test (F-C19j repaired) — it is the (start, end) order of the
  plus-strand constructor.
-/
import BioCantor.Proofs.AlgBasics
namespace BioCantor.Proofs.Sort
open BioCantor BioCantor.Spec BioCantor.Model

/-- the key `compare` looks at: parent id (`""` without parent), start, end -/
def key (x : Blk × PKey) : String × Nat × Nat := ((parentId x.2).getD "", x.1.1, x.1.2)

/-- lexicographic `<` on keys -/
def keyLt (k l : String × Nat × Nat) : Prop :=
  k.1 < l.1 ∨ (k.1 = l.1 ∧ (k.2.1 < l.2.1 ∨ (k.2.1 = l.2.1 ∧ k.2.2 < l.2.2)))

theorem singleLt_iff (x y : Blk × PKey) : singleLt x y = true ↔ keyLt (key x) (key y) := by
  unfold singleLt keyLt key
  simp only
  by_cases h1 : (parentId x.2).getD "" = (parentId y.2).getD ""
  · have h1' : ¬ ((parentId x.2).getD "" < (parentId y.2).getD "") := by rw [h1]; exact String.lt_irrefl _
    simp only [h1, bne_self_eq_false, Bool.false_eq_true, if_false, true_and]
    by_cases h2 : x.1.1 = y.1.1
    · simp only [h2, bne_self_eq_false, Bool.false_eq_true, if_false, Nat.lt_irrefl, true_and, false_or]
      by_cases h3 : x.1.2 = y.1.2
      · simp [h3, String.lt_irrefl]
      · have : (x.1.2 != y.1.2) = true := by simpa using h3
        simp [this, String.lt_irrefl]
    · have : (x.1.1 != y.1.1) = true := by simpa using h2
      simp [this, h2, String.lt_irrefl]
  · have : ((parentId x.2).getD "" != (parentId y.2).getD "") = true := by simpa using h1
    simp [this, h1]

theorem keyLt_irrefl (k : String × Nat × Nat) : ¬ keyLt k k := by
  unfold keyLt
  rintro (h | ⟨_, h | ⟨_, h⟩⟩)
  · exact String.lt_irrefl _ h
  · exact Nat.lt_irrefl _ h
  · exact Nat.lt_irrefl _ h

theorem keyLt_trans {a b c : String × Nat × Nat} (h1 : keyLt a b) (h2 : keyLt b c) : keyLt a c := by
  unfold keyLt at *
  rcases h1 with h1 | ⟨e1, h1⟩
  · rcases h2 with h2 | ⟨e2, _⟩
    · exact Or.inl (String.lt_trans h1 h2)
    · exact Or.inl (e2 ▸ h1)
  · rcases h2 with h2 | ⟨e2, h2⟩
    · exact Or.inl (e1 ▸ h2)
    · refine Or.inr ⟨e1.trans e2, ?_⟩
      omega

theorem keyLt_trichotomy (a b : String × Nat × Nat) : keyLt a b ∨ a = b ∨ keyLt b a := by
  obtain ⟨a1, a2, a3⟩ := a
  obtain ⟨b1, b2, b3⟩ := b
  unfold keyLt
  simp only [Prod.mk.injEq]
  rcases Std.lt_trichotomy a1 b1 with h | h | h
  · exact Or.inl (Or.inl h)
  · subst h
    rcases Nat.lt_trichotomy a2 b2 with h2 | h2 | h2
    · exact Or.inl (Or.inr ⟨rfl, Or.inl h2⟩)
    · subst h2
      rcases Nat.lt_trichotomy a3 b3 with h3 | h3 | h3
      · exact Or.inl (Or.inr ⟨rfl, Or.inr ⟨rfl, h3⟩⟩)
      · exact Or.inr (Or.inl ⟨rfl, rfl, h3⟩)
      · exact Or.inr (Or.inr (Or.inr ⟨rfl, Or.inr ⟨rfl, h3⟩⟩))
    · exact Or.inr (Or.inr (Or.inr ⟨rfl, Or.inl h2⟩))
  · exact Or.inr (Or.inr (Or.inl h))

/-- the order `sorted()` sorts by: `x ≤ y` ⇔ not `y < x` -/
def sle (x y : Blk × PKey) : Bool := !singleLt y x

theorem sle_total (x y : Blk × PKey) : (sle x y || sle y x) = true := by
  unfold sle
  cases h1 : singleLt y x <;> cases h2 : singleLt x y <;> simp
  exact keyLt_irrefl _ (keyLt_trans ((singleLt_iff _ _).mp h1) ((singleLt_iff _ _).mp h2))

theorem sle_trans (x y z : Blk × PKey) (h1 : sle x y = true) (h2 : sle y z = true) : sle x z = true := by
  unfold sle at *
  simp only [Bool.not_eq_true', Bool.eq_false_iff, ne_eq, singleLt_iff] at *
  intro hzx
  rcases keyLt_trichotomy (key x) (key y) with h | h | h
  · exact h2 (keyLt_trans hzx h)
  · rw [h] at hzx; exact h2 hzx
  · exact h1 h

/-- `compare` is a strict weak order: irreflexive, transitive, and incomparability is equality of keys -/
theorem singleLt_strict_weak :
    (∀ x, singleLt x x = false) ∧
    (∀ x y z, singleLt x y = true → singleLt y z = true → singleLt x z = true) ∧
    (∀ x y, singleLt x y = false → singleLt y x = false → key x = key y) := by
  refine ⟨?_, ?_, ?_⟩
  · intro x; rw [Bool.eq_false_iff, ne_eq, singleLt_iff]; exact keyLt_irrefl _
  · intro x y z h1 h2
    rw [singleLt_iff] at *
    exact keyLt_trans h1 h2
  · intro x y h1 h2
    rw [Bool.eq_false_iff, ne_eq, singleLt_iff] at h1 h2
    rcases keyLt_trichotomy (key x) (key y) with h | h | h
    · exact absurd h h1
    · exact h
    · exact absurd h h2

theorem sortSingles_perm (l : List (Blk × PKey)) : (sortSingles l).Perm l := List.mergeSort_perm l _

/-- the result of `sorted(blocks)` is sorted: no later element is `<` an earlier one -/
theorem sortSingles_sorted (l : List (Blk × PKey)) :
    (sortSingles l).Pairwise (fun x y => singleLt y x = false) := by
  have := List.pairwise_mergeSort (le := sle) (fun a b c => sle_trans a b c) sle_total l
  refine this.imp ?_
  intro a b h
  simpa [sle] using h

/-- blocks of one parent id are compared by (start, end): the plus-strand constructor order -/
theorem sle_same_id (x y : Blk × PKey) (h : parentId x.2 = parentId y.2) : sle x y = blkLePlus x.1 y.1 := by
  unfold sle singleLt blkLePlus
  simp only [h, bne_self_eq_false, Bool.false_eq_true, if_false]
  by_cases h2 : y.1.1 = x.1.1
  · by_cases h3 : y.1.2 = x.1.2
    · simp [h2, h3]
    · have h3' : (y.1.2 != x.1.2) = true := by simpa using h3
      simp only [h2, bne_self_eq_false, Bool.false_eq_true, if_false, h3', if_true]
      rw [Bool.eq_iff_iff]
      simp only [Bool.not_eq_true', decide_eq_false_iff_not, Bool.or_eq_true, decide_eq_true_eq, Bool.and_eq_true,
        beq_iff_eq]
      simp only [true_and, Nat.lt_irrefl, false_or]; omega
  · have h2' : (y.1.1 != x.1.1) = true := by simpa using h2
    simp only [h2', if_true]
    rw [Bool.eq_iff_iff]
    simp only [Bool.not_eq_true', decide_eq_false_iff_not, Bool.or_eq_true, decide_eq_true_eq, Bool.and_eq_true,
      beq_iff_eq]
    omega

/-- for blocks that all carry the same parent id, `sorted(blocks)` lists the blocks in `(start, end)` order -/
theorem sortSingles_fst (l : List (Blk × PKey)) (i : Option String) (h : ∀ x ∈ l, parentId x.2 = i) :
    (sortSingles l).map (·.1) = sortBlocks .plus (l.map (·.1)) := by
  unfold sortSingles sortBlocks
  apply List.map_mergeSort
  intro a ha b hb
  exact sle_same_id a b ((h a ha).trans (h b hb).symm)

theorem parentId_of_sameParent (pa pb : PKey) (h : sameParent pa pb = true) : parentId pa = parentId pb := by
  cases pa with
  | nil => cases pb with
    | nil => rfl
    | cons _ _ => simp [sameParent] at h
  | cons x xs => cases pb with
    | nil => simp [sameParent] at h
    | cons y ys =>
      unfold sameParent at h
      simp only [Bool.and_eq_true, beq_iff_eq] at h
      simp [parentId, pinfoId, h.1.1.1]

/-- compound ∪ compound with compatible parents merges the blocks of both operands in `(start, end)` order -/
theorem unionCC_order (la lb : List Blk) (pa pb : PKey) (h : sameParent pa pb = true) :
    (sortSingles (la.map (fun x => (x, pa)) ++ lb.map (fun x => (x, pb)))).map (·.1) =
      sortBlocks .plus (la ++ lb) := by
  have hid := parentId_of_sameParent pa pb h
  rw [sortSingles_fst _ (parentId pa)]
  · simp [List.map_append, List.map_map, Function.comp_def]
  · intro x hx
    simp only [List.mem_append, List.mem_map] at hx
    rcases hx with ⟨y, _, rfl⟩ | ⟨y, _, rfl⟩
    · rfl
    · exact hid.symm

end BioCantor.Proofs.Sort
