/-
  C08 helper lemmas, part 3: dictionary export followed by import restores the object (leaf classes).
-/
import BioCantor.Model.DigestDict
import BioCantor.Proofs.DigOrder
namespace BioCantor.Proofs.Dig
open BioCantor BioCantor.Spec.Digest BioCantor.Model.Digest
open BioCantor.Spec.Qual (Str strLt strLe)

/-! ### keys -/

theorem Key.mem_all (k : Key) : k ∈ Key.all := by cases k <;> simp [Key.all]

theorem Key.str_inj_table :
    (Key.all.all fun a => Key.all.all fun b => a.str != b.str || a == b) = true := by decide +kernel

theorem Key.str_inj {a b : Key} (h : a.str = b.str) : a = b := by
  have := Key.str_inj_table
  rw [List.all_eq_true] at this
  have := this a (Key.mem_all a)
  rw [List.all_eq_true] at this
  have := this b (Key.mem_all b)
  simp only [h, bne_self_eq_false, Bool.false_or, beq_iff_eq] at this
  exact this

theorem lookup_mkDict (k : Key) : ∀ (fs : List (Key × PyVal)),
    (fs.map fun f => (f.1.str, f.2)).lookup k.str = lookupK k fs
  | [] => rfl
  | (fk, fv) :: fs => by
    have hb : (k.str == fk.str) = decide (k = fk) := by
      by_cases h : k = fk
      · simp [h]
      · have : k.str ≠ fk.str := fun hh => h (Key.str_inj hh)
        simp [h, this]
    simp only [List.map_cons, List.lookup, lookupK, hb, lookup_mkDict k fs]
    by_cases h : k = fk <;> simp [h]

theorem getK_mkDict (k : Key) (fs : List (Key × PyVal)) : getK k (mkDict fs) = orKeyError (lookupK k fs) := by
  simp only [getK, mkDict, lookup_mkDict]

theorem getOpt_mkDict (k : Key) (fs : List (Key × PyVal)) :
    getOpt k (mkDict fs) = (lookupK k fs).getD .none := by
  simp only [getOpt, mkDict, lookup_mkDict]

/-! ### `Except` plumbing -/

@[simp] theorem bind_ok {α β : Type} (a : α) (f : α → D β) : (Except.ok a >>= f) = f a := rfl
@[simp] theorem pure_ok {α : Type} (a : α) : (pure a : D α) = Except.ok a := rfl
@[simp] theorem map_ok {α β : Type} (f : α → β) (a : α) : Except.map f (Except.ok a : D α) = Except.ok (f a) := rfl
@[simp] theorem fmap_ok {α β : Type} (f : α → β) (a : α) : f <$> (Except.ok a : D α) = Except.ok (f a) := rfl

theorem mapM_roundtrip {α : Type} {f : α → PyVal} {g : PyVal → D α} : ∀ {l : List α},
    (∀ x ∈ l, g (f x) = .ok x) → (l.map f).mapM g = .ok l
  | [], _ => rfl
  | x :: xs, h => by
    simp only [List.map_cons, List.mapM_cons, h x (by simp), bind_ok,
      mapM_roundtrip (l := xs) (fun y hy => h y (by simp [hy])), pure_ok]

/-! ### readers undo writers -/

@[simp] theorem asInts_ofInts (l : List Int) : asInts (ofInts l) = .ok l := by
  simp only [asInts, ofInts]
  exact mapM_roundtrip (f := PyVal.int) (g := asInt) (fun _ _ => rfl)

@[simp] theorem asOptStr_of (s : Option Str) : asOptStr (ofOptStr s) = .ok s := by cases s <;> rfl
@[simp] theorem asOptInt_of (s : Option Int) : asOptInt (ofOptInt s) = .ok s := by cases s <;> rfl
@[simp] theorem asOptBool_of (s : Option Bool) : asOptBool (ofOptBool s) = .ok s := by cases s <;> rfl
@[simp] theorem asOptUuid_of (s : Option Str) : asOptUuid (ofOptUuid s) = .ok s := by cases s <;> rfl

@[simp] theorem lookupStrand_name (s : Strand) : lookupStrand (.str (strandName s)) = .ok s := by
  cases s <;> rfl

@[simp] theorem lookupFrame_name (f : CDSFrame) : lookupFrame (.str (frameName f)) = .ok f := by
  cases f <;> rfl

theorem frames_roundtrip (l : List CDSFrame) :
    (l.map fun f => PyVal.str (frameName f)).mapM lookupFrame = .ok l :=
  mapM_roundtrip (fun f _ => lookupFrame_name f)

@[simp] theorem truthy_ofInts (l : List Int) : truthy (ofInts l) = !l.isEmpty := by
  cases l <;> rfl

/-- stored qualifiers are well formed when every set is kept as a strictly ascending list -/
def QualsWF (q : Quals) : Prop := ∀ e ∈ q, e.2.Pairwise (fun a b => strLt a b = true)

theorem importQuals_wf (q : Option RawQuals) : QualsWF (importQuals q) := by
  cases q with
  | none => intro e he; cases he
  | some kvs =>
    intro e he
    simp only [importQuals, List.mem_map] at he
    rcases he with ⟨x, _, rfl⟩
    exact strSet_strict _

theorem map_pyStr_str (l : List Str) : (l.map PyVal.str).map pyStr = l := by
  induction l with
  | nil => rfl
  | cons x xs ih => simp only [List.map_cons, ih]; rfl

theorem strSet_of_strict {l : List Str} (h : l.Pairwise (fun a b => strLt a b = true)) :
    strSet ((sortStrs l).map .str) = l := by
  unfold strSet
  rw [map_pyStr_str, sortStrs_of_strict h, sortStrs_of_strict h, dedupSorted_of_strict h]

theorem quals_roundtrip {q : Quals} (h : QualsWF q) :
    (asRawQuals (qualsExportVal q)).map importQuals = .ok q := by
  unfold qualsExportVal exportQuals
  cases q with
  | nil => rfl
  | cons e es =>
    simp only [List.isEmpty_cons, Bool.false_eq_true, if_false, asRawQuals]
    have hm : ∀ (l : Quals),
        ((l.map fun e => (e.1, sortStrs e.2)).map fun e => (e.1, PyVal.list (e.2.map .str))).mapM asQualEntry
          = .ok (l.map fun e => (e.1, (sortStrs e.2).map PyVal.str)) := by
      intro l
      induction l with
      | nil => rfl
      | cons x xs ih => simp only [List.map_cons, List.mapM_cons, asQualEntry, bind_ok, ih, pure_ok]
    rw [hm]
    simp only [map_ok, importQuals, List.map_map]
    congr 1
    have : ∀ (l : Quals), QualsWF l →
        l.map ((fun e => (e.1, strSet e.2)) ∘ fun e => (e.1, (sortStrs e.2).map PyVal.str)) = l := by
      intro l hl
      induction l with
      | nil => rfl
      | cons x xs ih =>
        simp only [List.map_cons, Function.comp]
        rw [strSet_of_strict (hl x (by simp)), ih (fun y hy => hl y (by simp [hy]))]
    exact this _ h

/-- a stored Biotype is a member's canonical name -/
def BiotypeWF (t : Option Str) : Prop := ∀ n, t = some n → n ≠ [] ∧ biotypeOfName n = some n

theorem optBiotype_roundtrip {t : Option Str} (h : BiotypeWF t) : optBiotype (ofOptStr t) = .ok t := by
  cases t with
  | none => rfl
  | some n =>
    have ⟨h1, h2⟩ := h n rfl
    have : truthy (.str n) = true := by cases n with | nil => exact absurd rfl h1 | cons _ _ => rfl
    simp only [optBiotype, ofOptStr, this, if_true, lookupBiotype, asStr, bind_ok, h2, pure_ok, map_ok]

theorem biotypeOfName_idem {n b : Str} (h : biotypeOfName n = some b) : biotypeOfName b = some b := by
  have hA : (Gen.biotypes.all fun e => Gen.biotypes.lookup e.1 == some e.2) = true := by decide +kernel
  unfold biotypeOfName at h
  cases hl : Gen.biotypes.lookup n with
  | none => rw [hl] at h; cases h
  | some v =>
    rw [hl] at h
    simp only [Option.map_eq_some_iff] at h
    rcases h with ⟨e, he, rfl⟩
    have hm : e ∈ Gen.biotypes := List.mem_of_find?_eq_some he
    have hv : e.2 = v := by simpa using List.find?_some he
    have h1 : Gen.biotypes.lookup e.1 = some e.2 := by simpa using List.all_eq_true.mp hA e hm
    unfold biotypeOfName
    simp only [h1, hv, he, Option.map_some]

/-! ### TranscriptInterval -/

section
variable (md5 : List Str → Str)

def CdsPartWF (c : Option (List Int × List Int × List CDSFrame)) : Prop :=
  ∀ s e f, c = some (s, e, f) → s ≠ [] ∧ e.length = s.length ∧ f.length = s.length

structure TxWF (o : TxObj) : Prop where
  quals : QualsWF o.args.quals
  cds : CdsPartWF o.args.cds
  biotype : BiotypeWF o.args.transcriptType

theorem txCdsOf_roundtrip {c : Option (List Int × List Int × List CDSFrame)} (h : CdsPartWF c) :
    txCdsOf (c.map (·.1)) (c.map (·.2.1)) (c.map (·.2.2)) = .ok c := by
  cases c with
  | none => rfl
  | some c =>
    obtain ⟨s, e, f⟩ := c
    have ⟨_, h2, h3⟩ := h s e f rfl
    simp [txCdsOf, h2, h3]

theorem optInts_of (l : List Int) (h : l ≠ []) : optInts (ofInts l) = .ok (some l) := by
  have : l.isEmpty = false := by cases l with | nil => exact absurd rfl h | cons _ _ => rfl
  simp only [optInts, truthy_ofInts, this, Bool.not_false, if_true, asInts_ofInts, map_ok]

theorem optFrames_of (l : List CDSFrame) (h : l ≠ []) :
    optFrames (.list (l.map fun f => .str (frameName f))) = .ok (some l) := by
  have : truthy (.list (l.map fun f => PyVal.str (frameName f))) = true := by
    cases l with | nil => exact absurd rfl h | cons _ _ => rfl
  simp only [optFrames, this, if_true, asList, bind_ok, frames_roundtrip, map_ok]

theorem tx_roundtrip (o : TxObj) (h : TxWF o) : txFromDict md5 (txToDict o) = .ok o := by
  obtain ⟨a, sg, g, tg⟩ := o
  obtain ⟨st, en, sd, cds, q, tid, sym, ty, pid, prod, sn, prim⟩ := a
  have hq := quals_roundtrip h.quals
  have hb := optBiotype_roundtrip h.biotype
  have hc := txCdsOf_roundtrip h.cds
  simp only at hq hb hc
  cases hr : asRawQuals (qualsExportVal q) with
  | error e => rw [hr] at hq; cases hq
  | ok rq =>
    rw [hr] at hq
    simp only [map_ok, Except.ok.injEq] at hq
    simp only [txFromDict, txToDict, getK_mkDict]
    simp only [lookupK, reduceCtorEq, ↓reduceIte, orKeyError, bind_ok]
    cases cds with
    | none =>
      simp only [asInts_ofInts, bind_ok, lookupStrand_name, optInts, optFrames, truthy, Bool.false_eq_true,
        if_false, pure_ok, asOptUuid, asOptUuid_of, hr, asOptBool_of, asOptStr_of, hb, txCdsOf, hq,
        Option.getD_some]
    | some c =>
      obtain ⟨s, e, f⟩ := c
      have ⟨h1, h2, h3⟩ := h.cds s e f rfl
      have he : e ≠ [] := by
        intro he; subst he; cases s with | nil => exact h1 rfl | cons _ _ => simp at h2
      have hf : f ≠ [] := by
        intro hf; subst hf; cases s with | nil => exact h1 rfl | cons _ _ => simp at h3
      simp only [Option.map_some] at hc
      simp only [asInts_ofInts, bind_ok, lookupStrand_name, optInts_of s h1, optInts_of e he, optFrames_of f hf,
        pure_ok, asOptUuid, asOptUuid_of, hr, asOptBool_of, asOptStr_of, hb, hc, hq, Option.getD_some]

end
end BioCantor.Proofs.Dig
