/-
  C08 helper lemmas, part 3: dictionary export followed by import restores the object (leaf classes).
-/
import BioCantor.Model.DigestDict
import BioCantor.Proofs.DigOrder
set_option linter.unusedSimpArgs false
namespace BioCantor.Proofs.Dig
open BioCantor BioCantor.Spec.Digest BioCantor.Model.Digest
open BioCantor.Spec.Qual (Str strLt strLe)

/-! ### keys -/

theorem Key.mem_all (k : Key) : k ∈ Key.all := by cases k <;> simp [Key.all]

theorem Key.str_inj_table :
    (Key.all.all fun a => Key.all.all fun b => a.str != b.str || a == b) = true := by decide +kernel

theorem Key.str_inj {a b : Key} (h : a.str = b.str) : a = b := by
  have := Key.str_inj_table
  rw [List.all_eq_true] at this
  have := this a (Key.mem_all a)
  rw [List.all_eq_true] at this
  have := this b (Key.mem_all b)
  simp only [h, bne_self_eq_false, Bool.false_or, beq_iff_eq] at this
  exact this

theorem lookup_mkDict (k : Key) : ∀ (fs : List (Key × PyVal)),
    (fs.map fun f => (f.1.str, f.2)).lookup k.str = lookupK k fs
  | [] => rfl
  | (fk, fv) :: fs => by
    have hb : (k.str == fk.str) = decide (k = fk) := by
      by_cases h : k = fk
      · simp [h]
      · have : k.str ≠ fk.str := fun hh => h (Key.str_inj hh)
        simp [h, this]
    simp only [List.map_cons, List.lookup, lookupK, hb, lookup_mkDict k fs]
    by_cases h : k = fk <;> simp [h]

theorem getK_mkDict (k : Key) (fs : List (Key × PyVal)) : getK k (mkDict fs) = orKeyError (lookupK k fs) := by
  simp only [getK, mkDict, lookup_mkDict]

theorem getOpt_mkDict (k : Key) (fs : List (Key × PyVal)) :
    getOpt k (mkDict fs) = (lookupK k fs).getD .none := by
  simp only [getOpt, mkDict, lookup_mkDict]

/-! ### `Except` plumbing -/

@[simp] theorem bind_ok {α β : Type} (a : α) (f : α → D β) : (Except.ok a >>= f) = f a := rfl
@[simp] theorem pure_ok {α : Type} (a : α) : (pure a : D α) = Except.ok a := rfl
@[simp] theorem map_ok {α β : Type} (f : α → β) (a : α) : Except.map f (Except.ok a : D α) = Except.ok (f a) := rfl
@[simp] theorem fmap_ok {α β : Type} (f : α → β) (a : α) : f <$> (Except.ok a : D α) = Except.ok (f a) := rfl

theorem mapM_roundtrip {α : Type} {f : α → PyVal} {g : PyVal → D α} : ∀ {l : List α},
    (∀ x ∈ l, g (f x) = .ok x) → (l.map f).mapM g = .ok l
  | [], _ => rfl
  | x :: xs, h => by
    simp only [List.map_cons, List.mapM_cons, h x (by simp), bind_ok,
      mapM_roundtrip (l := xs) (fun y hy => h y (by simp [hy])), pure_ok]

/-! ### readers undo writers -/

@[simp] theorem asInts_ofInts (l : List Int) : asInts (ofInts l) = .ok l := by
  simp only [asInts, ofInts]
  exact mapM_roundtrip (f := PyVal.int) (g := asInt) (fun _ _ => rfl)

@[simp] theorem asOptStr_of (s : Option Str) : asOptStr (ofOptStr s) = .ok s := by cases s <;> rfl
@[simp] theorem asOptInt_of (s : Option Int) : asOptInt (ofOptInt s) = .ok s := by cases s <;> rfl
@[simp] theorem asOptBool_of (s : Option Bool) : asOptBool (ofOptBool s) = .ok s := by cases s <;> rfl
@[simp] theorem asOptUuid_uuid (g : Str) : asOptUuid (.uuid g) = .ok (some g) := rfl
@[simp] theorem asOptUuid_of (s : Option Str) : asOptUuid (ofOptUuid s) = .ok s := by cases s <;> rfl

@[simp] theorem lookupStrand_name (s : Strand) : lookupStrand (.str (strandName s)) = .ok s := by
  cases s <;> rfl

@[simp] theorem lookupFrame_name (f : CDSFrame) : lookupFrame (.str (frameName f)) = .ok f := by
  cases f <;> rfl

theorem frames_roundtrip (l : List CDSFrame) :
    (l.map fun f => PyVal.str (frameName f)).mapM lookupFrame = .ok l :=
  mapM_roundtrip (fun f _ => lookupFrame_name f)

@[simp] theorem truthy_ofInts (l : List Int) : truthy (ofInts l) = !l.isEmpty := by
  cases l <;> rfl

/-- stored qualifiers are well formed when every set is kept as a strictly ascending list -/
def QualsWF (q : Quals) : Prop := ∀ e ∈ q, e.2.Pairwise (fun a b => strLt a b = true)

theorem importQuals_wf (q : Option RawQuals) : QualsWF (importQuals q) := by
  cases q with
  | none => intro e he; cases he
  | some kvs =>
    intro e he
    simp only [importQuals, List.mem_map] at he
    rcases he with ⟨x, _, rfl⟩
    exact strSet_strict _

theorem map_pyStr_str (l : List Str) : (l.map PyVal.str).map pyStr = l := by
  induction l with
  | nil => rfl
  | cons x xs ih => simp only [List.map_cons, ih]; rfl

theorem strSet_of_strict {l : List Str} (h : l.Pairwise (fun a b => strLt a b = true)) :
    strSet ((sortStrs l).map .str) = l := by
  unfold strSet
  rw [map_pyStr_str, sortStrs_of_strict h, sortStrs_of_strict h, dedupSorted_of_strict h]

theorem quals_roundtrip {q : Quals} (h : QualsWF q) :
    (asRawQuals (qualsExportVal q)).map importQuals = .ok q := by
  unfold qualsExportVal exportQuals
  cases q with
  | nil => rfl
  | cons e es =>
    simp only [List.isEmpty_cons, Bool.false_eq_true, if_false, asRawQuals]
    have hm : ∀ (l : Quals),
        ((l.map fun e => (e.1, sortStrs e.2)).map fun e => (e.1, PyVal.list (e.2.map .str))).mapM asQualEntry
          = .ok (l.map fun e => (e.1, (sortStrs e.2).map PyVal.str)) := by
      intro l
      induction l with
      | nil => rfl
      | cons x xs ih => simp only [List.map_cons, List.mapM_cons, asQualEntry, bind_ok, ih, pure_ok]
    rw [hm]
    simp only [map_ok, importQuals, List.map_map]
    congr 1
    have : ∀ (l : Quals), QualsWF l →
        l.map ((fun e => (e.1, strSet e.2)) ∘ fun e => (e.1, (sortStrs e.2).map PyVal.str)) = l := by
      intro l hl
      induction l with
      | nil => rfl
      | cons x xs ih =>
        simp only [List.map_cons, Function.comp]
        rw [strSet_of_strict (hl x (by simp)), ih (fun y hy => hl y (by simp [hy]))]
    exact this _ h

/-- a stored Biotype is a member's canonical name -/
def BiotypeWF (t : Option Str) : Prop := ∀ n, t = some n → n ≠ [] ∧ biotypeOfName n = some n

theorem optBiotype_roundtrip {t : Option Str} (h : BiotypeWF t) : optBiotype (ofOptStr t) = .ok t := by
  cases t with
  | none => rfl
  | some n =>
    have ⟨h1, h2⟩ := h n rfl
    have : truthy (.str n) = true := by cases n with | nil => exact absurd rfl h1 | cons _ _ => rfl
    simp only [optBiotype, ofOptStr, this, if_true, lookupBiotype, asStr, bind_ok, h2, pure_ok, map_ok]

theorem biotypeOfName_idem {n b : Str} (h : biotypeOfName n = some b) : biotypeOfName b = some b := by
  have hA : (Gen.biotypes.all fun e => Gen.biotypes.lookup e.1 == some e.2) = true := by decide +kernel
  unfold biotypeOfName at h
  cases hl : Gen.biotypes.lookup n with
  | none => rw [hl] at h; cases h
  | some v =>
    rw [hl] at h
    simp only [Option.map_eq_some_iff] at h
    rcases h with ⟨e, he, rfl⟩
    have hm : e ∈ Gen.biotypes := List.mem_of_find?_eq_some he
    have hv : e.2 = v := by simpa using List.find?_some he
    have h1 : Gen.biotypes.lookup e.1 = some e.2 := by simpa using List.all_eq_true.mp hA e hm
    unfold biotypeOfName
    simp only [h1, hv, he, Option.map_some]

/-! ### TranscriptInterval -/

section
variable (md5 : List Str → Str)

def CdsPartWF (c : Option (List Int × List Int × List CDSFrame)) : Prop :=
  ∀ s e f, c = some (s, e, f) → s ≠ [] ∧ e.length = s.length ∧ f.length = s.length

structure TxWF (o : TxObj) : Prop where
  quals : QualsWF o.args.quals
  cds : CdsPartWF o.args.cds
  biotype : BiotypeWF o.args.transcriptType

theorem txCdsOf_roundtrip {c : Option (List Int × List Int × List CDSFrame)} (h : CdsPartWF c) :
    txCdsOf (c.map (·.1)) (c.map (·.2.1)) (c.map (·.2.2)) = .ok c := by
  cases c with
  | none => rfl
  | some c =>
    obtain ⟨s, e, f⟩ := c
    have ⟨h1, h2, h3⟩ := h s e f rfl
    simp [txCdsOf, h1, h2, h3]

theorem optInts_of (l : List Int) (h : l ≠ []) : optInts (ofInts l) = .ok (some l) := by
  have : l.isEmpty = false := by cases l with | nil => exact absurd rfl h | cons _ _ => rfl
  simp only [optInts, truthy_ofInts, this, Bool.not_false, if_true, asInts_ofInts, map_ok]

theorem optFrames_of (l : List CDSFrame) (h : l ≠ []) :
    optFrames (.list (l.map fun f => .str (frameName f))) = .ok (some l) := by
  have : truthy (.list (l.map fun f => PyVal.str (frameName f))) = true := by
    cases l with | nil => exact absurd rfl h | cons _ _ => rfl
  simp only [optFrames, this, if_true, asList, bind_ok, frames_roundtrip, map_ok]

theorem tx_roundtrip (o : TxObj) (h : TxWF o) : txFromDict md5 (txToDict o) = .ok o := by
  obtain ⟨a, sg, g, tg⟩ := o
  obtain ⟨st, en, sd, cds, q, tid, sym, ty, pid, prod, sn, prim⟩ := a
  have hq := quals_roundtrip h.quals
  have hb := optBiotype_roundtrip h.biotype
  have hc := txCdsOf_roundtrip h.cds
  simp only at hq hb hc
  cases hr : asRawQuals (qualsExportVal q) with
  | error e => rw [hr] at hq; cases hq
  | ok rq =>
    rw [hr] at hq
    simp only [map_ok, Except.ok.injEq] at hq
    simp only [txFromDict, txToDict, getK_mkDict]
    simp only [lookupK, reduceCtorEq, ↓reduceIte, orKeyError, bind_ok]
    cases cds with
    | none =>
      simp only [asInts_ofInts, bind_ok, lookupStrand_name, optInts, optFrames, truthy, Bool.false_eq_true,
        if_false, pure_ok, asOptUuid_uuid, asOptUuid_of, hr, asOptBool_of, asOptStr_of, hb, txCdsOf, hq,
        Option.getD_some]
    | some c =>
      obtain ⟨s, e, f⟩ := c
      have ⟨h1, h2, h3⟩ := h.cds s e f rfl
      have he : e ≠ [] := by
        intro he; subst he; cases s with | nil => exact h1 rfl | cons _ _ => simp at h2
      have hf : f ≠ [] := by
        intro hf; subst hf; cases s with | nil => exact h1 rfl | cons _ _ => simp at h3
      simp only [Option.map_some] at hc
      simp only [asInts_ofInts, bind_ok, lookupStrand_name, optInts_of s h1, optInts_of e he, optFrames_of f hf,
        pure_ok, asOptUuid_uuid, asOptUuid_of, hr, asOptBool_of, asOptStr_of, hb, hc, hq, Option.getD_some]

/-! ### CDSInterval, FeatureInterval, VariantInterval -/

structure CdsWF (o : CdsObj) : Prop where
  quals : QualsWF o.args.quals
  guid : o.guid = cdsGuid md5 o.args

theorem cds_roundtrip (o : CdsObj) (h : CdsWF md5 o) : cdsFromDict md5 (cdsToDict o) = .ok o := by
  obtain ⟨a, sn, sg, g⟩ := o
  obtain ⟨st, en, sd, fr, prod, pid, q⟩ := a
  have hq := quals_roundtrip h.quals
  have hg := h.guid
  simp only at hq hg
  cases hr : asRawQuals (qualsExportVal q) with
  | error e => rw [hr] at hq; cases hq
  | ok rq =>
    rw [hr] at hq
    simp only [map_ok, Except.ok.injEq] at hq
    simp only [cdsFromDict, cdsToDict, getK_mkDict]
    simp only [lookupK, reduceCtorEq, ↓reduceIte, orKeyError, bind_ok]
    simp only [asInts_ofInts, bind_ok, lookupStrand_name, asList, frames_roundtrip, pure_ok, asOptUuid_of, hr,
      asOptStr_of, hq, hg]

structure FeatWF (o : FeatObj) : Prop where
  quals : QualsWF o.args.quals
  types : o.args.featureTypes.Pairwise (fun a b => strLt a b = true)

theorem asStrs_strs (l : List Str) : asStrs (.list (l.map .str)) = .ok l := by
  simp only [asStrs]
  exact mapM_roundtrip (f := PyVal.str) (g := asStr) (fun _ _ => rfl)

theorem importTypes_export {l : List Str} (h : l.Pairwise (fun a b => strLt a b = true)) :
    importTypes (if l.isEmpty then .none else .list ((sortStrs l).map .str)) = .ok l := by
  cases l with
  | nil => rfl
  | cons x xs =>
    have ht : truthy (.list ((sortStrs (x :: xs)).map PyVal.str)) = true := by
      rw [sortStrs_of_strict h]; rfl
    simp only [List.isEmpty_cons, Bool.false_eq_true, if_false, importTypes, ht, if_true, asStrs_strs, map_ok]
    rw [sortStrs_of_strict h, sortStrs_of_strict h, dedupSorted_of_strict h]

theorem feat_roundtrip (o : FeatObj) (h : FeatWF o) : featFromDict md5 (featToDict o) = .ok o := by
  obtain ⟨a, sg, g, fg⟩ := o
  obtain ⟨st, en, sd, q, sn, types, fname, fid, prim⟩ := a
  have hq := quals_roundtrip h.quals
  have ht := importTypes_export h.types
  simp only at hq ht
  cases hr : asRawQuals (qualsExportVal q) with
  | error e => rw [hr] at hq; cases hq
  | ok rq =>
    rw [hr] at hq
    simp only [map_ok, Except.ok.injEq] at hq
    simp only [featFromDict, featToDict, getK_mkDict]
    simp only [lookupK, reduceCtorEq, ↓reduceIte, orKeyError, bind_ok]
    simp only [asInts_ofInts, bind_ok, lookupStrand_name, pure_ok, asOptUuid_uuid, asOptUuid_of, hr, asOptBool_of,
      asOptStr_of, hq, ht, Option.getD_some]

structure VarWF (o : VarObj) : Prop where
  quals : QualsWF o.args.quals
  nonempty : o.args.start ≠ o.args.stop

theorem var_roundtrip (o : VarObj) (h : VarWF o) : varFromDict md5 (varToDict o) = .ok o := by
  obtain ⟨a, vid, g⟩ := o
  obtain ⟨s, e, q, sq, vt, pb, vname, vguid⟩ := a
  have hq := quals_roundtrip h.quals
  have hne : (s == e) = false := by simpa using h.nonempty
  simp only at hq
  cases hr : asRawQuals (qualsExportVal q) with
  | error e => rw [hr] at hq; cases hq
  | ok rq =>
    rw [hr] at hq
    simp only [map_ok, Except.ok.injEq] at hq
    simp only [varFromDict, varToDict, getK_mkDict]
    simp only [lookupK, reduceCtorEq, ↓reduceIte, orKeyError, bind_ok]
    simp only [asInt, asStr, bind_ok, pure_ok, asOptUuid_uuid, asOptUuid_of, hr, asOptInt_of, asOptStr_of, hq,
      Option.getD_some, hne, Bool.false_eq_true, if_false]

/-! ### collections -/

structure GeneWF (o : GeneObj) : Prop where
  quals : QualsWF o.quals
  biotype : BiotypeWF o.geneType
  children : ∀ t ∈ o.transcripts, TxWF t
  nonempty : o.transcripts ≠ []

theorem gene_roundtrip (cs : Frame) (o : GeneObj) (h : GeneWF o) : geneFromDict md5 cs (geneToDict o) = .ok o := by
  obtain ⟨txs, gid, sym, ty, lt, q, sn, sg, g⟩ := o
  have hq := quals_roundtrip h.quals
  have hb := optBiotype_roundtrip h.biotype
  have hc : (txs.map txToDict).mapM (txFromDict md5) = .ok txs :=
    mapM_roundtrip fun t ht => tx_roundtrip md5 t (h.children t ht)
  have hne : txs.isEmpty = false := by
    cases txs with | nil => exact absurd rfl h.nonempty | cons _ _ => rfl
  simp only at hq hb
  cases hr : asRawQuals (qualsExportVal q) with
  | error e => rw [hr] at hq; cases hq
  | ok rq =>
    rw [hr] at hq
    simp only [map_ok, Except.ok.injEq] at hq
    simp only [geneFromDict, geneToDict, getK_mkDict]
    simp only [lookupK, reduceCtorEq, ↓reduceIte, orKeyError, bind_ok]
    simp only [asList, bind_ok, hc, pure_ok, asOptUuid_uuid, asOptUuid_of, hr, asOptStr_of, hb, hq, hne,
      Bool.false_eq_true, if_false, guidOr]

structure FcWF (o : FcObj) : Prop where
  quals : QualsWF o.quals
  children : ∀ t ∈ o.features, FeatWF t
  nonempty : o.features ≠ []

theorem fc_roundtrip (cs : Frame) (o : FcObj) (h : FcWF o) : fcFromDict md5 cs (fcToDict o) = .ok o := by
  obtain ⟨fs, name, id, ct, lt, q, sn, sg, g⟩ := o
  have hq := quals_roundtrip h.quals
  have hc : (fs.map featToDict).mapM (featFromDict md5) = .ok fs :=
    mapM_roundtrip fun t ht => feat_roundtrip md5 t (h.children t ht)
  have hne : fs.isEmpty = false := by
    cases fs with | nil => exact absurd rfl h.nonempty | cons _ _ => rfl
  simp only at hq
  cases hr : asRawQuals (qualsExportVal q) with
  | error e => rw [hr] at hq; cases hq
  | ok rq =>
    rw [hr] at hq
    simp only [map_ok, Except.ok.injEq] at hq
    simp only [fcFromDict, fcToDict, getK_mkDict]
    simp only [lookupK, reduceCtorEq, ↓reduceIte, orKeyError, bind_ok]
    simp only [asList, bind_ok, hc, pure_ok, asOptUuid_uuid, asOptUuid_of, hr, asOptStr_of, hq, hne,
      Bool.false_eq_true, if_false, guidOr]

structure VcWF (o : VcObj) : Prop where
  quals : QualsWF o.quals
  children : ∀ t ∈ o.variants, VarWF t
  nonempty : o.variants ≠ []
  sorted : o.variants.Pairwise fun a b => a.args.start ≤ b.args.start

theorem vc_roundtrip (cs : Frame) (o : VcObj) (h : VcWF o) : vcFromDict md5 cs (vcToDict o) = .ok o := by
  obtain ⟨vs, name, id, q, sn, sg, g⟩ := o
  have hq := quals_roundtrip h.quals
  have hc : (vs.map varToDict).mapM (varFromDict md5) = .ok vs :=
    mapM_roundtrip fun t ht => var_roundtrip md5 t (h.children t ht)
  have hne : vs.isEmpty = false := by
    cases vs with | nil => exact absurd rfl h.nonempty | cons _ _ => rfl
  have hs : sortVars vs = vs :=
    List.mergeSort_of_pairwise (h.sorted.imp fun hab => by simpa using hab)
  simp only at hq
  cases hr : asRawQuals (qualsExportVal q) with
  | error e => rw [hr] at hq; cases hq
  | ok rq =>
    rw [hr] at hq
    simp only [map_ok, Except.ok.injEq] at hq
    simp only [vcFromDict, vcToDict, getK_mkDict]
    simp only [lookupK, reduceCtorEq, ↓reduceIte, orKeyError, bind_ok]
    simp only [asList, bind_ok, hc, pure_ok, asOptUuid_uuid, asOptUuid_of, hr, asOptStr_of, hq, hne,
      Bool.false_eq_true, if_false, guidOr, hs]

/-! ### the parent dictionary -/

def ParentWF : ParentDesc → Prop
  | .none => True
  | .bare id chromosome => chromosome = true ∨ ∃ n, id = some n ∧ n ≠ []
  | .chrom sq _ id => sq ≠ [] ∧ (chromIdRepaired = true ∨ id ≠ none)
  | .chunk sq _ _ _ _ _ => sq ≠ []

theorem truthy_str_ne {s : Str} (h : s ≠ []) : truthy (.str s) = true := by
  cases s with | nil => exact absurd rfl h | cons _ _ => rfl

theorem truthy_strandName (s : Strand) : truthy (.str (strandName s)) = true := by cases s <;> rfl

theorem parent_roundtrip (p : ParentDesc) (b : Int × Int) (h : ParentWF p) :
    parentFromDict (parentToDict p b) = .ok p := by
  cases p with
  | none => rfl
  | chunk sq al name s e st =>
    have hs : truthy (.str sq) = true := truthy_str_ne h
    have hu : upperAscii "SEQUENCE_CHUNK".toList = "SEQUENCE_CHUNK".toList := by decide
    simp only [parentToDict, parentFromDict, getOpt_mkDict]
    simp only [lookupK, reduceCtorEq, ↓reduceIte, Option.getD_some, hs, if_true, asStr, bind_ok, pure_ok,
      strandOrPlus, typeUpper,
      truthy_strandName, lookupStrand_name, asInt, map_ok, show truthy (.str "SEQUENCE_CHUNK".toList) = true from rfl,
      hu, beq_self_eq_true]
    rfl
  | chrom sq al id =>
    have hs : truthy (.str sq) = true := truthy_str_ne h.1
    have hu : (some (upperAscii "CHROMOSOME".toList) == some "SEQUENCE_CHUNK".toList) = false := by decide
    have hk : (!chromIdRepaired && !truthyOrPresent (ofOptStr id)) = false := by
      rcases h.2 with hr | hid
      · rw [hr]; rfl
      · cases id with
        | none => exact absurd rfl hid
        | some n => simp [ofOptStr, truthyOrPresent]
    simp only [parentToDict, parentFromDict, getOpt_mkDict]
    simp only [lookupK, reduceCtorEq, ↓reduceIte, Option.getD_some, hs, if_true, asStr, bind_ok, pure_ok, typeUpper,
      hk, asOptStr_of,
      map_ok, show truthy (.str "CHROMOSOME".toList) = true from rfl, hu, Bool.false_eq_true, if_false]
    rfl
  | bare id c =>
    cases c with
    | true =>
      have hu : (some (upperAscii "CHROMOSOME".toList) == some "CHROMOSOME".toList) = true := by decide
      simp only [parentToDict, parentFromDict, getOpt_mkDict]
      simp only [lookupK, reduceCtorEq, ↓reduceIte, Option.getD_some, typeUpper,
        show truthy (.str "CHROMOSOME".toList) = true from rfl, show truthy .none = false from rfl,
        Bool.false_eq_true, if_false, if_true,
        asStr, bind_ok, pure_ok, asOptStr_of, map_ok, hu, Bool.true_or]
      rfl
    | false =>
      rcases h with h | ⟨n, rfl, hn⟩
      · cases h
      · have hs : truthy (.str n) = true := truthy_str_ne hn
        simp only [parentToDict, parentFromDict, getOpt_mkDict]
        simp only [lookupK, reduceCtorEq, ↓reduceIte, Option.getD_some, typeUpper,
          show truthy .none = false from rfl, Bool.false_eq_true, if_false,
          ofOptStr, hs, Bool.false_or, if_true, bind_ok, pure_ok, asOptStr]
        rfl

/-! ### AnnotationCollection -/

structure AcWF (o : AcObj) : Prop where
  quals : QualsWF o.quals
  genes : ∀ g ∈ o.genes, GeneWF g
  fcs : ∀ c ∈ o.fcs, FcWF c
  vcs : ∀ c ∈ o.vcs, VcWF c
  parent : ParentWF o.parent
  guid : o.guid = acGuidOf md5 o.bounds o.parent.frame o.name o.sequenceName o.quals o.completelyWithin
            (o.genes.map (·.guid) ++ o.fcs.map (·.guid) ++ o.vcs.map (·.guid))

theorem optChildren_roundtrip {α : Type} {f : α → PyVal} {g : PyVal → D α} {l : List α}
    (h : ∀ x ∈ l, g (f x) = .ok x) : optChildren g (.list (l.map f)) = .ok l := by
  cases l with
  | nil => rfl
  | cons x xs =>
    have := mapM_roundtrip (f := f) (g := g) (l := x :: xs) h
    simp only [optChildren, truthy, List.map_cons, List.isEmpty_cons, Bool.not_false, if_true, asList, bind_ok]
    simpa using this

theorem ac_roundtrip (o : AcObj) (h : AcWF md5 o) (ep : Bool) (d : PyVal) (hd : acToDict o ep = .ok d) :
    acFromDict md5 d (if ep then .none else o.parent) = .ok o := by
  obtain ⟨genes, fcs, vcs, name, id, q, sn, sg, sp, bounds, cw, parent, g⟩ := o
  have hq := quals_roundtrip h.quals
  have hg : optChildren (geneFromDict md5 parent.frame) (.list (genes.map geneToDict)) = .ok genes :=
    optChildren_roundtrip fun x hx => gene_roundtrip md5 _ x (h.genes x hx)
  have hf : optChildren (fcFromDict md5 parent.frame) (.list (fcs.map fcToDict)) = .ok fcs :=
    optChildren_roundtrip fun x hx => fc_roundtrip md5 _ x (h.fcs x hx)
  have hv : optChildren (vcFromDict md5 parent.frame) (.list (vcs.map vcToDict)) = .ok vcs :=
    optChildren_roundtrip fun x hx => vc_roundtrip md5 _ x (h.vcs x hx)
  have hguid := h.guid
  simp only at hq hguid
  cases bounds with
  | none => simp [acToDict] at hd
  | some b =>
    simp only [acToDict, Except.ok.injEq] at hd
    subst hd
    have hp : resolveParent (mkDict [
        (.genes, .list (genes.map geneToDict)), (.feature_collections, .list (fcs.map fcToDict)),
        (.variant_collections, .list (vcs.map vcToDict)), (.name, ofOptStr name), (.id, ofOptStr id),
        (.qualifiers, qualsExportVal q), (.sequence_name, ofOptStr sn),
        (.sequence_guid, ofOptUuid sg), (.sequence_path, ofOptStr sp),
        (.start, .int b.1), (.end, .int b.2), (.completely_within, ofOptBool cw),
        (.parent_or_seq_chunk_parent, if ep then parentToDict parent b else .none)])
        (if ep then .none else parent) = .ok parent := by
      simp only [resolveParent, getK_mkDict]
      simp only [lookupK, reduceCtorEq, ↓reduceIte, orKeyError]
      cases ep with
      | true => simpa using parent_roundtrip parent b h.parent
      | false =>
        by_cases hpn : parent = .none
        · subst hpn; rfl
        · simp [hpn]
    cases hr : asRawQuals (qualsExportVal q) with
    | error e => rw [hr] at hq; cases hq
    | ok rq =>
      rw [hr] at hq
      simp only [map_ok, Except.ok.injEq] at hq
      simp only [acFromDict, hp, bind_ok]
      simp only [getK_mkDict]
      simp only [lookupK, reduceCtorEq, ↓reduceIte, orKeyError, bind_ok]
      simp only [hg, hf, hv, bind_ok, pure_ok, asOptUuid_of, hr, asOptStr_of, asOptBool_of, hq, asOptInt,
        resolveBounds, hguid]

end
end BioCantor.Proofs.Dig
