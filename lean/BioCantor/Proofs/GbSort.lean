/-
  C12 — the locus-tag sort of the parser (`sorted(features, key=locus_tag)`, a stable merge sort) on a list of tagged
  chains with pairwise different tags: every chain stays contiguous and in its own order; the chains come out in tag
  order.  No assumption on the order of the tags in the file.
-/
import BioCantor.Proofs.GbModes
import BioCantor.Proofs.QualSets
namespace BioCantor.Proofs.Gb
open BioCantor BioCantor.Spec.Qual BioCantor.Spec.Gb BioCantor.Model.Gb

/-! ### takeWhile / dropWhile -/

theorem takeWhile_append_stop {α} (p : α → Bool) (l₁ l₂ : List α) (h1 : ∀ b ∈ l₁, p b = true)
    (h2 : ∀ b, l₂.head? = some b → p b = false) :
    (l₁ ++ l₂).takeWhile p = l₁ ∧ (l₁ ++ l₂).dropWhile p = l₂ := by
  induction l₁ with
  | nil =>
    cases l₂ with
    | nil => exact ⟨rfl, rfl⟩
    | cons b rest =>
      have := h2 b rfl
      simp [List.takeWhile, List.dropWhile, this]
  | cons a rest ih =>
    have ha := h1 a List.mem_cons_self
    obtain ⟨i1, i2⟩ := ih (fun b hb => h1 b (List.mem_cons_of_mem _ hb))
    simp only [List.cons_append, List.takeWhile_cons, List.dropWhile_cons, ha, if_true]
    exact ⟨by rw [i1], i2⟩

theorem takeWhile_all {α} (p : α → Bool) : ∀ (l : List α), ∀ b ∈ l.takeWhile p, p b = true
  | [], b, hb => by simp at hb
  | a :: l, b, hb => by
    rw [List.takeWhile_cons] at hb
    split at hb
    · next ha =>
      rcases List.mem_cons.mp hb with rfl | hb
      · exact ha
      · exact takeWhile_all p l b hb
    · simp at hb

theorem dropWhile_head_false {α} (p : α → Bool) : ∀ (l : List α) (b : α) (rest : List α),
    l.dropWhile p = b :: rest → p b = false
  | [], _, _, h => by simp at h
  | a :: l, b, rest, h => by
    rw [List.dropWhile_cons] at h
    split at h
    · exact dropWhile_head_false p l b rest h
    · next ha =>
      simp only [List.cons.injEq] at h
      rw [← h.1]; simpa using ha

/-! ### merge sort = stable insertion -/

/-- stable insertion of `a`: after every element that is strictly smaller -/
def insStable {α} (le : α → α → Bool) (a : α) (s : List α) : List α :=
  s.takeWhile (fun b => !le a b) ++ a :: s.dropWhile (fun b => !le a b)

theorem mergeSort_cons_ins {α} (le : α → α → Bool) (trans : ∀ (a b c : α), le a b → le b c → le a c)
    (total : ∀ (a b : α), le a b || le b a) (a : α) (l : List α) :
    (a :: l).mergeSort le = insStable le a (l.mergeSort le) := by
  obtain ⟨l₁, l₂, h1, h2, h3⟩ := List.mergeSort_cons trans total a l
  have hs := List.pairwise_mergeSort trans total (a :: l)
  rw [h1] at hs
  have hl2 : ∀ b ∈ l₂, le a b = true := by
    have := (List.pairwise_append.mp hs).2.1
    exact fun b hb => (List.pairwise_cons.mp this).1 b hb
  have := takeWhile_append_stop (fun b => !le a b) l₁ l₂ (fun b hb => by simpa using h3 b hb)
    (fun b hb => by
      have : b ∈ l₂ := List.mem_of_mem_head? hb
      simp [hl2 b this])
  unfold insStable
  rw [h1, h2, this.1, this.2]

/-! ### inserting a chain -/

def tagLeP (a b : TRec) : Bool := strLe a.1 b.1

theorem tagLeP_trans (a b c : TRec) : tagLeP a b = true → tagLeP b c = true → tagLeP a c = true :=
  Proofs.Qual.strLe_trans _ _ _
theorem tagLeP_total (a b : TRec) : (tagLeP a b || tagLeP b a) = true := Proofs.Qual.strLe_total _ _

theorem sortPairs_cons (p : TRec) (l : List TRec) :
    sortPairsByTag (p :: l) = insStable tagLeP p (sortPairsByTag l) :=
  mergeSort_cons_ins tagLeP tagLeP_trans tagLeP_total p l

/-- the chains before which a chain with tag `t` is inserted: all those with a strictly smaller tag -/
def insChain (p : Str × List Rec) (T : List (Str × List Rec)) : List (Str × List Rec) :=
  T.takeWhile (fun q => !strLe p.1 q.1) ++ p :: T.dropWhile (fun q => !strLe p.1 q.1)

def sortChains (tch : List (Str × List Rec)) : List (Str × List Rec) := tch.foldr insChain []

theorem pairsOf_append (A B : List (Str × List Rec)) : pairsOf (A ++ B) = pairsOf A ++ pairsOf B := by
  simp [pairsOf]

theorem pairsOf_cons (p : Str × List Rec) (B : List (Str × List Rec)) :
    pairsOf (p :: B) = p.2.map (fun r => (p.1, r)) ++ pairsOf B := by
  simp [pairsOf]

/-- a predicate on tags splits the pair list where it splits the chain list (chains are non-empty) -/
theorem takeWhile_pairsOf (f : Str → Bool) : ∀ (T : List (Str × List Rec)), (∀ q ∈ T, q.2 ≠ []) →
    (pairsOf T).takeWhile (fun b => f b.1) = pairsOf (T.takeWhile fun q => f q.1) ∧
    (pairsOf T).dropWhile (fun b => f b.1) = pairsOf (T.dropWhile fun q => f q.1)
  | [], _ => by simp [pairsOf]
  | q :: T, hne => by
    obtain ⟨i1, i2⟩ := takeWhile_pairsOf f T (fun x hx => hne x (List.mem_cons_of_mem _ hx))
    rw [pairsOf_cons]
    by_cases hf : f q.1 = true
    · -- the whole chain passes
      have hall : ∀ b ∈ q.2.map (fun r => (q.1, r)), (fun b : TRec => f b.1) b = true := by
        intro b hb
        obtain ⟨r, _, rfl⟩ := List.mem_map.mp hb
        exact hf
      have htw : ∀ (l₁ l₂ : List TRec), (∀ b ∈ l₁, f b.1 = true) →
          (l₁ ++ l₂).takeWhile (fun b => f b.1) = l₁ ++ l₂.takeWhile (fun b => f b.1) ∧
          (l₁ ++ l₂).dropWhile (fun b => f b.1) = l₂.dropWhile (fun b => f b.1) := by
        intro l₁ l₂ h
        induction l₁ with
        | nil => exact ⟨rfl, rfl⟩
        | cons a rest ih =>
          have ha := h a List.mem_cons_self
          obtain ⟨j1, j2⟩ := ih (fun b hb => h b (List.mem_cons_of_mem _ hb))
          simp only [List.cons_append, List.takeWhile_cons, List.dropWhile_cons, ha, if_true]
          exact ⟨by rw [j1], j2⟩
      obtain ⟨k1, k2⟩ := htw _ (pairsOf T) hall
      rw [k1, k2, i1, i2]
      simp only [List.takeWhile_cons, List.dropWhile_cons, hf, if_true]
      rw [pairsOf_cons]
      exact ⟨rfl, trivial⟩
    · have hf' : f q.1 = false := by simpa using hf
      cases hq : q.2 with
      | nil => exact absurd hq (hne q List.mem_cons_self)
      | cons r rest =>
        simp only [List.map_cons, List.cons_append, List.takeWhile_cons, List.dropWhile_cons, hf', Bool.false_eq_true,
          if_false]
        refine ⟨by simp [pairsOf], ?_⟩
        rw [pairsOf_cons, hq]
        simp

theorem insStable_pairs (t : Str) (r : Rec) (T : List (Str × List Rec)) (hne : ∀ q ∈ T, q.2 ≠ []) :
    insStable tagLeP (t, r) (pairsOf T) =
      pairsOf (T.takeWhile fun q => !strLe t q.1) ++ (t, r) :: pairsOf (T.dropWhile fun q => !strLe t q.1) := by
  unfold insStable
  obtain ⟨h1, h2⟩ := takeWhile_pairsOf (fun s => !strLe t s) T hne
  have e1 : (fun b : TRec => !tagLeP (t, r) b) = fun b : TRec => !strLe t b.1 := rfl
  rw [e1, h1, h2]

/-- inserting the pairs of a chain one by one (last record first) inserts the chain -/
theorem foldr_ins_chain (t : Str) (T : List (Str × List Rec)) (hne : ∀ q ∈ T, q.2 ≠ []) :
    ∀ (ch : List Rec), ch ≠ [] →
      (ch.map fun r => (t, r)).foldr (insStable tagLeP) (pairsOf T) = pairsOf (insChain (t, ch) T)
  | [], h => absurd rfl h
  | [r], _ => by
    simp only [List.map_cons, List.map_nil, List.foldr_cons, List.foldr_nil]
    rw [insStable_pairs t r T hne]
    unfold insChain
    rw [pairsOf_append, pairsOf_cons]
    rfl
  | r :: r' :: ch, _ => by
    have ih := foldr_ins_chain t T hne (r' :: ch) (by simp)
    rw [List.map_cons, List.foldr_cons, ih]
    unfold insChain
    simp only []
    -- the chain just inserted is where the next record goes
    have hA : ∀ q ∈ T.takeWhile (fun q => !strLe t q.1), (fun q : Str × List Rec => !strLe t q.1) q = true :=
      fun q hq => takeWhile_all _ T q hq
    have hne' : ∀ q ∈ T.takeWhile (fun q => !strLe t q.1) ++ (t, r' :: ch) :: T.dropWhile (fun q => !strLe t q.1),
        q.2 ≠ [] := by
      intro q hq
      rcases List.mem_append.mp hq with h | h
      · exact hne q ((List.takeWhile_sublist _).subset h)
      · rcases List.mem_cons.mp h with rfl | h
        · simp
        · exact hne q ((List.dropWhile_sublist _).subset h)
    rw [insStable_pairs t r _ hne']
    obtain ⟨s1, s2⟩ := takeWhile_append_stop (fun q : Str × List Rec => !strLe t q.1)
      (T.takeWhile fun q => !strLe t q.1) ((t, r' :: ch) :: T.dropWhile fun q => !strLe t q.1) hA
      (by
        intro b hb
        simp only [List.head?_cons, Option.some.injEq] at hb
        subst hb
        simp [strLe_refl])
    rw [s1, s2, pairsOf_append, pairsOf_cons, pairsOf_cons]
    simp

end BioCantor.Proofs.Gb

namespace BioCantor.Proofs.Gb
open BioCantor BioCantor.Spec.Qual BioCantor.Spec.Gb BioCantor.Model.Gb

/-! ### the sorted chains -/

theorem insChain_perm (p : Str × List Rec) (T : List (Str × List Rec)) : (insChain p T).Perm (p :: T) := by
  unfold insChain
  have h := List.takeWhile_append_dropWhile (p := fun q : Str × List Rec => !strLe p.1 q.1) (l := T)
  have h1 : (T.takeWhile (fun q => !strLe p.1 q.1) ++ p :: T.dropWhile (fun q => !strLe p.1 q.1)).Perm
      (p :: (T.takeWhile (fun q => !strLe p.1 q.1) ++ T.dropWhile (fun q => !strLe p.1 q.1))) := List.perm_middle
  rw [h] at h1
  exact h1

theorem sortChains_perm : ∀ (tch : List (Str × List Rec)), (sortChains tch).Perm tch
  | [] => List.Perm.refl _
  | p :: tch => by
    show (insChain p (sortChains tch)).Perm (p :: tch)
    exact (insChain_perm p _).trans ((sortChains_perm tch).cons p)

theorem mem_sortChains (tch : List (Str × List Rec)) (q : Str × List Rec) : q ∈ sortChains tch ↔ q ∈ tch :=
  (sortChains_perm tch).mem_iff

theorem sortPairs_append_foldr : ∀ (l₁ L : List TRec),
    sortPairsByTag (l₁ ++ L) = l₁.foldr (insStable tagLeP) (sortPairsByTag L)
  | [], _ => rfl
  | a :: l₁, L => by
    rw [List.cons_append, sortPairs_cons, sortPairs_append_foldr l₁ L]
    rfl

/-- **the tag sort keeps every chain contiguous**: sorting the pairs = listing the chains in `sortChains` order -/
theorem sortPairs_general : ∀ (tch : List (Str × List Rec)), (∀ p ∈ tch, p.2 ≠ []) →
    sortPairsByTag (pairsOf tch) = pairsOf (sortChains tch)
  | [], _ => by simp [pairsOf, sortPairsByTag, sortChains]
  | p :: tch, hne => by
    have ih := sortPairs_general tch (fun q hq => hne q (List.mem_cons_of_mem _ hq))
    rw [pairsOf_cons, sortPairs_append_foldr, ih]
    exact foldr_ins_chain p.1 (sortChains tch)
      (fun q hq => hne q (List.mem_cons_of_mem _ ((mem_sortChains tch q).mp hq))) p.2 (hne p List.mem_cons_self)

/-- strict tag order of the sorted chains, from pairwise different tags -/
theorem insChain_sorted (p : Str × List Rec) (T : List (Str × List Rec))
    (hT : T.Pairwise (fun a b => strLt a.1 b.1 = true)) (hnew : ∀ q ∈ T, q.1 ≠ p.1) :
    (insChain p T).Pairwise (fun a b => strLt a.1 b.1 = true) := by
  unfold insChain
  have hsplit := List.takeWhile_append_dropWhile (p := fun q : Str × List Rec => !strLe p.1 q.1) (l := T)
  have hTT := hT
  rw [← hsplit] at hTT
  obtain ⟨hA, hB, hAB⟩ := List.pairwise_append.mp hTT
  have hAlt : ∀ a ∈ T.takeWhile (fun q => !strLe p.1 q.1), strLt a.1 p.1 = true := by
    intro a ha
    have hp := takeWhile_all _ T a ha
    have hle : strLe p.1 a.1 = false := by simpa using hp
    have htot := Proofs.Qual.strLe_total a.1 p.1
    rw [hle, Bool.or_false] at htot
    rcases Proofs.Qual.strLe_iff.mp htot with h | h
    · rw [h, strLe_refl] at hle; exact absurd hle (by simp)
    · exact h
  have hBgt : ∀ b ∈ T.dropWhile (fun q => !strLe p.1 q.1), strLt p.1 b.1 = true := by
    intro b hb
    cases hd : T.dropWhile (fun q => !strLe p.1 q.1) with
    | nil => rw [hd] at hb; simp at hb
    | cons h0 rest =>
      have hh0 : strLt p.1 h0.1 = true := by
        have hf : (fun q : Str × List Rec => !strLe p.1 q.1) h0 = false :=
          dropWhile_head_false _ T h0 rest hd
        have hle : strLe p.1 h0.1 = true := by simpa using hf
        rcases Proofs.Qual.strLe_iff.mp hle with h | h
        · exact absurd h.symm (hnew h0 ((List.dropWhile_sublist _).subset (by rw [hd]; exact List.mem_cons_self)))
        · exact h
      rw [hd] at hb hB
      rcases List.mem_cons.mp hb with rfl | hb'
      · exact hh0
      · exact Proofs.Qual.strLt_trans hh0 ((List.pairwise_cons.mp hB).1 b hb')
  rw [List.pairwise_append]
  refine ⟨hA, List.Pairwise.cons hBgt hB, ?_⟩
  intro a ha b hb
  rcases List.mem_cons.mp hb with rfl | hb
  · exact hAlt a ha
  · exact hAB a ha b hb

theorem sortChains_sorted : ∀ (tch : List (Str × List Rec)), (tch.map (·.1)).Pairwise (fun a b => a ≠ b) →
    (sortChains tch).Pairwise (fun a b => strLt a.1 b.1 = true)
  | [], _ => List.Pairwise.nil
  | p :: tch, h => by
    rw [List.map_cons] at h
    obtain ⟨h1, h2⟩ := List.pairwise_cons.mp h
    apply insChain_sorted p (sortChains tch) (sortChains_sorted tch h2)
    intro q hq
    exact (h1 q.1 (List.mem_map.mpr ⟨q, (mem_sortChains tch q).mp hq, rfl⟩)).symm

/-- hypotheses of T3 on tagged chains, WITHOUT any order of the tags in the file: the tags are pairwise different -/
structure TaggedChainsAny (tch : List (Str × List Rec)) : Prop where
  chains : ∀ p ∈ tch, IsChain p.2
  tags : ∀ p ∈ tch, ∀ r ∈ p.2, Model.Gb.tagOf r = .ok p.1
  distinct : (tch.map (·.1)).Pairwise (fun a b => a ≠ b)

theorem sortChains_tagged (tch : List (Str × List Rec)) (h : TaggedChainsAny tch) : TaggedChains (sortChains tch) where
  chains := fun p hp => h.chains p ((mem_sortChains tch p).mp hp)
  tags := fun p hp => h.tags p ((mem_sortChains tch p).mp hp)
  ascending := by
    rw [List.pairwise_map]
    exact sortChains_sorted tch h.distinct

/-- **locus-tag grouping, any tag order**: one group per chain, in tag order -/
theorem groupByLocusTag_general (tch : List (Str × List Rec)) (h : TaggedChainsAny tch) :
    groupByLocusTagRecs (recsOf tch) = .ok (chainGroups (sortChains tch)) := by
  have hs := sortChains_tagged tch h
  unfold groupByLocusTagRecs groupTagOrdered
  rw [show recsOf tch = (tch.map (·.2)).flatten from rfl, tagPairs_chains tch h.tags]
  simp only [bind, Except.bind, sortPairs_general tch (fun p hp => (h.chains p hp).ne)]
  rw [groupRuns_chains _ (fun p hp => (hs.chains p hp).ne) hs.ascending]
  exact processRuns_chains _ hs.chains

end BioCantor.Proofs.Gb
