/-
  C09 helper lemmas, part 12: the cgranges branch `_optimized_query_by_position` (interval-tree overlap query + the
  same post-filters) keeps the same members as `_query_by_position` — so the answer does not depend on whether
  cgranges is installed — except for one divergence: a ZERO-LENGTH child strictly inside a RELAXED range.
-/
import BioCantor.Proofs.QueryKept
set_option linter.unusedSimpArgs false
namespace BioCantor.Proofs.Query
open BioCantor BioCantor.Spec BioCantor.Spec.Query BioCantor.Model.Query

/-- what the optimized loop keeps among the children the tree reports -/
def keepOpt (co cw : Bool) (s e : Int) (c : Child) : Bool :=
  (if cw then containsInt (s, e) (c.start, c.stop) else true) && (!co || c.isCoding)

theorem optimizedKeep_eq (co cw : Bool) (s e : Int) (c : Child) :
    optimizedKeep co cw s e c = .ok (keepOpt co cw s e c) := by
  unfold optimizedKeep keepOpt
  cases cw <;> cases co <;> cases hc : containsInt (s, e) (c.start, c.stop) <;>
    simp [isCoding_eq, bind, Except.bind, pure, Except.pure]

/-- the optimized branch as a plain filter: tree hits that pass the post-filters -/
theorem optimizedKept_filter (src : Source) (s e : Int) (cw co : Bool) :
    optimizedKept src s e cw co =
      .ok ((iterChildren src).filter (fun c => decide (c.start < e ∧ s < c.stop) && keepOpt co cw s e c)) := by
  unfold optimizedKept treeOverlap
  rw [filterQ_eq _ (keepOpt co cw s e) _ (fun c _ => optimizedKeep_eq co cw s e c), List.filter_filter]
  congr 2
  funext c
  exact Bool.and_comm _ _

/-- on a child with a non-empty span — or in strict mode on any child — the tree test plus the post-filters IS
    the membership clause -/
theorem opt_keep_eq_spec (co cw : Bool) (s e : Int) (hse : s < e) (c : Child) (hv : c.start ≤ c.stop)
    (h : cw = true ∨ c.start < c.stop) :
    (decide (c.start < e ∧ s < c.stop) && keepOpt co cw s e c) = keepSpec co cw s e c := by
  unfold keepOpt keepSpec
  cases cw with
  | true =>
    simp only [if_true]
    rw [containsInt_iff _ _ _ _ hse hv]
    by_cases hin : s ≤ c.start ∧ c.stop ≤ e ∧ c.start < c.stop
    · have : c.start < e ∧ s < c.stop := by omega
      simp only [hin, this, and_self, decide_true, Bool.true_and, Bool.and_true]
    · simp only [hin, decide_false, Bool.false_and, Bool.and_false]
  | false =>
    have hne : c.start < c.stop := by rcases h with h | h; cases h; exact h
    simp only [Bool.false_eq_true, if_false, Bool.true_and]
    have : decide (c.start < e ∧ s < c.stop ∧ c.start < c.stop) = decide (c.start < e ∧ s < c.stop) := by
      simp only [decide_eq_decide]; omega
    rw [this]
    exact Bool.and_comm _ _

/-- T1 (branch independence): for every valid non-negative range, in strict mode — and in relaxed mode when no child
    has a zero-length span — `_optimized_query_by_position` keeps exactly the members `_query_by_position` keeps,
    in the same order; both are `specFilter`. -/
theorem optimizedKept_eq_queryKept (src : Source) (s e : Int) (cw co : Bool) (hs : 0 ≤ s) (hse : s < e)
    (hwf : ∀ c ∈ src.children, ChildWF c) (hne : cw = true ∨ ∀ c ∈ src.children, c.start < c.stop) :
    optimizedKept src s e cw co = queryKept src s e cw co := by
  rw [queryKept_eq src s e cw co hs hse hwf, optimizedKept_filter]
  unfold specFilter
  congr 1
  apply List.filter_congr
  intro c hc
  have hc' := mem_iterChildren.mp hc
  exact opt_keep_eq_spec co cw s e hse c (hwf c hc').span_valid (hne.imp id (fun h => h c hc'))

/-- the divergence: in RELAXED mode a zero-length child strictly inside the range is reported by the tree
    (`start < end ∧ start' < end'` holds for an empty interval inside) and passes the post-filters, while
    `has_overlap` of `_query_by_position` is false for empty intervals: the cgranges branch returns it, the
    pure-Python branch (and the specification) do not. -/
theorem optimized_keeps_empty_span_relaxed (src : Source) (s e : Int) (hs : 0 ≤ s) (hse : s < e)
    (hwf : ∀ c ∈ src.children, ChildWF c) (c : Child) (hc : c ∈ src.children) (hz : c.start = c.stop)
    (hin : s < c.start ∧ c.start < e) :
    (∃ kept, optimizedKept src s e false false = .ok kept ∧ c ∈ kept) ∧
    (∃ kept, queryKept src s e false false = .ok kept ∧ c ∉ kept) := by
  constructor
  · refine ⟨_, optimizedKept_filter src s e false false, ?_⟩
    rw [List.mem_filter]
    refine ⟨mem_iterChildren.mpr hc, ?_⟩
    have : c.start < e ∧ s < c.stop := by omega
    simp only [keepOpt, this, and_self, decide_true, Bool.false_eq_true, if_false, Bool.not_false, Bool.true_or,
      Bool.and_self]
  · refine ⟨_, queryKept_eq src s e false false hs hse hwf, ?_⟩
    unfold specFilter
    rw [List.mem_filter]
    rintro ⟨_, hk⟩
    unfold keepSpec at hk
    simp only [Bool.false_eq_true, if_false, Bool.not_false, Bool.true_or, Bool.true_and, decide_eq_true_eq] at hk
    omega

end BioCantor.Proofs.Query
