/-
  C06, chunk-built transcripts: the chunk-relative conversions against their specification; the chromosome-level
  members of the chunk-built twin.
-/
import BioCantor.Proofs.TxChunkMk
import BioCantor.Proofs.TxMain
import BioCantor.Proofs.TxInterval
set_option linter.unusedSimpArgs false
namespace BioCantor.Proofs
open BioCantor BioCantor.Spec BioCantor.Model BioCantor.Model.Transcript BioCantor.Model.ChunkTranscript

abbrev winOf (c : ChunkTranscript) : Win := ⟨c.w, c.wst⟩

theorem dir_of_ne (s : Strand) (h : s ≠ .unstranded) : s = .plus ∨ s = .minus := by
  cases s <;> simp at h ⊢

theorem compose_ne_unstranded (a b : Strand) (ha : a = .plus ∨ a = .minus) (hb : b = .plus ∨ b = .minus) :
    compose a b ≠ .unstranded := by
  rcases ha with rfl | rfl <;> rcases hb with rfl | rfl <;> simp [compose]

/-- the facts about one chunk-relative location of a chunk-built transcript -/
theorem chunk_location_facts (E : Loc) (hE : E.Canon) (hd : E.strand ≠ .unstranded) (hno : E.NonOverlap)
    (W : Win) (hW : winOk W = true) :
    WF (chunkLocOf (initOf E) W) ∧ locationBases (chunkLocOf (initOf E) W) = chunkBases E W ∧
    (∀ L', toLoc (chunkLocOf (initOf E) W) = some L' →
      L'.strand ≠ .unstranded ∧ L'.strand = compose E.strand W.wst ∧ nonOverlap L'.blocks = true ∧
      bases L' = chunkBases E W) := by
  obtain ⟨h1, h2, h3⟩ := chunkLocOf_facts (initOf E) E (toLoc_initOf E) (initOf_wf E hE) (dir_of_ne _ hd) hno W hW
  refine ⟨h1, h2, ?_⟩
  intro L' hL'
  obtain ⟨a, b, c⟩ := h3 L' hL'
  refine ⟨?_, a, b, c⟩
  rw [a]
  exact compose_ne_unstranded _ _ (dir_of_ne _ hd) (winOk_unpack W hW).1

/-! ### position conversions -/

theorem cr2t_ok (c : ChunkTranscript) (h : WFC c) (hd : c.base.exons.strand ≠ .unstranded)
    (hno : c.base.exons.NonOverlap) (q : Int) :
    okCR2T (specOf c.base) (winOf c) q (ans (c.chunkRelativePosToTranscript q)) = true := by
  obtain ⟨hwf, hb, hL⟩ := chunk_location_facts c.base.exons h.base.exons hd hno (winOf c) h.win
  unfold okCR2T expCR2T chunkRelativePosToTranscript
  have hE : (specOf c.base).E = c.base.exons := rfl
  rw [hE, if_neg hd, h.loc, p2r_listIdx _ hwf (fun L hl => (hL L hl).1) q]
  simp [winOf] at hb ⊢
  rw [hb]

theorem t2cr_ok (c : ChunkTranscript) (h : WFC c) (hd : c.base.exons.strand ≠ .unstranded)
    (hno : c.base.exons.NonOverlap) (r : Int) :
    okT2CR (specOf c.base) (winOf c) r (ans (c.transcriptPosToChunkRelative r)) = true := by
  obtain ⟨hwf, hb, hL⟩ := chunk_location_facts c.base.exons h.base.exons hd hno (winOf c) h.win
  unfold okT2CR expT2CR transcriptPosToChunkRelative
  have hE : (specOf c.base).E = c.base.exons := rfl
  rw [hE, if_neg hd, h.loc, r2p_listAt _ hwf (fun L hl => (hL L hl).1) r]
  simp [winOf] at hb ⊢
  rw [hb]

theorem cr2d_ok (c : ChunkTranscript) (h : WFC c) (hd : c.base.exons.strand ≠ .unstranded)
    (hnoD : ∀ d, c.base.cds = some d → d.NonOverlap) (q : Int) :
    okCR2D (specOf c.base) (winOf c) q (ans (c.chunkRelativePosToCds q)) = true := by
  unfold okCR2D expCR2D chunkRelativePosToCds requireCodingLocation
  have hcds := h.cds
  cases hc : c.base.cds with
  | none =>
    rw [hc] at hcds
    simp [specOf, hc, hcds, bind, Except.bind, throw, throwThe, MonadExceptOf.throw]
  | some d =>
    rw [hc] at hcds
    obtain ⟨hdc, hds⟩ := h.base.cds d hc
    have hdd : d.strand ≠ .unstranded := by rw [hds]; exact hd
    obtain ⟨hwf, hb, hL⟩ := chunk_location_facts d hdc hdd (hnoD d hc) (winOf c) h.win
    simp only [specOf, hc, hcds, Option.map_some, Option.bind, bind, Except.bind, pure, Except.pure, if_neg hdd]
    simp only [winOf] at hwf hb hL ⊢
    rw [p2r_listIdx _ hwf (fun L hl => (hL L hl).1) q, hb]
    simp

theorem d2cr_ok (c : ChunkTranscript) (h : WFC c) (hd : c.base.exons.strand ≠ .unstranded)
    (hnoD : ∀ d, c.base.cds = some d → d.NonOverlap) (r : Int) :
    okD2CR (specOf c.base) (winOf c) r (ans (c.cdsPosToChunkRelative r)) = true := by
  unfold okD2CR expD2CR cdsPosToChunkRelative requireCodingLocation
  have hcds := h.cds
  cases hc : c.base.cds with
  | none =>
    rw [hc] at hcds
    simp [specOf, hc, hcds, bind, Except.bind, throw, throwThe, MonadExceptOf.throw]
  | some d =>
    rw [hc] at hcds
    obtain ⟨hdc, hds⟩ := h.base.cds d hc
    have hdd : d.strand ≠ .unstranded := by rw [hds]; exact hd
    obtain ⟨hwf, hb, hL⟩ := chunk_location_facts d hdc hdd (hnoD d hc) (winOf c) h.win
    simp only [specOf, hc, hcds, Option.map_some, Option.bind, bind, Except.bind, pure, Except.pure, if_neg hdd]
    simp only [winOf] at hwf hb hL ⊢
    rw [r2p_listAt _ hwf (fun L hl => (hL L hl).1) r, hb]
    simp

/-! ### interval conversions -/

theorem ivToChunk_ok (m : Location) (hwf : WF m) (rs re : Int) (rst : Strand) :
    okIvToChunk m rs re rst (ans (relInterval m rs re rst)) = true := by
  unfold okIvToChunk
  by_cases he : m = .empty
  · subst he; simp [relInterval, throw, throwThe, MonadExceptOf.throw]
  · have : (m == Location.empty) = false := by simpa using he
    rw [this]; simp only [Bool.false_eq_true, if_false]
    exact relInterval_ok m hwf rs re rst

theorem chunkToIv_ok (c : ChunkTranscript) (m : Location) (hwf : WF m) (s e : Int) (st : Strand) :
    okChunkToIv m (winOf c) s e st
      (ans (c.chunkInterval m s e st >>= fun i => relativeToChunkLocation i m)) = true := by
  unfold okChunkToIv chunkInterval
  by_cases he : m = .empty
  · subst he
    simp only [beq_self_eq_true, true_or, if_true]
    rw [ans_bind]
    cases ans (mkSingleOn none s e st) <;> simp [relativeToChunkLocation, throw, throwThe, MonadExceptOf.throw]
  · have hme : (m == Location.empty) = false := by simpa using he
    rw [hme]
    simp only [Bool.false_eq_true, false_or, if_false]
    -- `mkSingleOn (some wlen)` accepts exactly the valid chunk intervals
    have hspec := mkSingleOn_spec ⟨⟨[], .plus⟩, none, some c.w.len⟩ s e st
    have hv : chunkIntervalValid (winOf c) s e = chromIntervalValid ⟨⟨[], .plus⟩, none, some c.w.len⟩ s e := by
      unfold chunkIntervalValid chromIntervalValid winOf Blk.len; rfl
    cases hval : chunkIntervalValid (winOf c) s e with
    | false =>
      rw [hv] at hval
      have := hspec.2 hval
      simp only [Bool.false_eq_true, not_false_eq_true, if_true]
      rw [ans_bind, this]; rfl
    | true =>
      rw [hv] at hval
      have := hspec.1 hval
      simp only [not_true_eq_false, if_false]
      simp only at this
      rw [this]
      have hwfi : WF (.single (s.toNat, e.toNat) st) := by
        unfold chromIntervalValid at hval
        simp only [Bool.and_eq_true, decide_eq_true_eq] at hval
        show s.toNat ≤ e.toNat
        omega
      have : relativeToChunkLocation (.single (s.toNat, e.toNat) st) m
          = locationRelativeTo (.single (s.toNat, e.toNat) st) m true := by
        cases m <;> first | rfl | exact absurd rfl he
      show okLocRel _ m true (ans (relativeToChunkLocation _ m)) = true
      rw [this]
      exact locationRelativeTo_ok _ m hwfi hwf true

theorem ti2cr_ok (c : ChunkTranscript) (h : WFC c) (hd : c.base.exons.strand ≠ .unstranded)
    (hno : c.base.exons.NonOverlap) (rs re : Int) (rst : Strand) :
    okTI2CR (specOf c.base) (winOf c) rs re rst (ans (c.transcriptIntervalToChunkRelative rs re rst)) = true := by
  obtain ⟨hwf, _, _⟩ := chunk_location_facts c.base.exons h.base.exons hd hno (winOf c) h.win
  unfold okTI2CR transcriptIntervalToChunkRelative
  rw [h.loc]
  exact ivToChunk_ok _ hwf rs re rst

theorem cri2t_ok (c : ChunkTranscript) (h : WFC c) (hd : c.base.exons.strand ≠ .unstranded)
    (hno : c.base.exons.NonOverlap) (s e : Int) (st : Strand) :
    okCRI2T (specOf c.base) (winOf c) s e st (ans (c.chunkRelativeIntervalToTranscript s e st)) = true := by
  obtain ⟨hwf, _, _⟩ := chunk_location_facts c.base.exons h.base.exons hd hno (winOf c) h.win
  unfold okCRI2T chunkRelativeIntervalToTranscript
  rw [h.loc]
  exact chunkToIv_ok c _ hwf s e st

theorem di2cr_ok (c : ChunkTranscript) (h : WFC c) (hd : c.base.exons.strand ≠ .unstranded)
    (hnoD : ∀ d, c.base.cds = some d → d.NonOverlap) (rs re : Int) (rst : Strand) :
    okDI2CR (specOf c.base) (winOf c) rs re rst (ans (c.cdsIntervalToChunkRelative rs re rst)) = true := by
  unfold okDI2CR cdsIntervalToChunkRelative requireCodingLocation
  have hcds := h.cds
  cases hc : c.base.cds with
  | none =>
    rw [hc] at hcds
    simp [specOf, hc, hcds, bind, Except.bind, throw, throwThe, MonadExceptOf.throw]
  | some d =>
    rw [hc] at hcds
    obtain ⟨hdc, hds⟩ := h.base.cds d hc
    have hdd : d.strand ≠ .unstranded := by rw [hds]; exact hd
    obtain ⟨hwf, _, _⟩ := chunk_location_facts d hdc hdd (hnoD d hc) (winOf c) h.win
    simp only [specOf, hc, hcds, Option.map_some, bind, Except.bind, pure, Except.pure]
    exact ivToChunk_ok _ hwf rs re rst

theorem cri2d_ok (c : ChunkTranscript) (h : WFC c) (hd : c.base.exons.strand ≠ .unstranded)
    (hnoD : ∀ d, c.base.cds = some d → d.NonOverlap) (s e : Int) (st : Strand) :
    okCRI2D (specOf c.base) (winOf c) s e st (ans (c.chunkRelativeIntervalToCds s e st)) = true := by
  unfold okCRI2D chunkRelativeIntervalToCds requireCodingLocation
  have hcds := h.cds
  cases hc : c.base.cds with
  | none =>
    rw [hc] at hcds
    simp [specOf, hc, hcds, bind, Except.bind, throw, throwThe, MonadExceptOf.throw]
  | some d =>
    rw [hc] at hcds
    obtain ⟨hdc, hds⟩ := h.base.cds d hc
    have hdd : d.strand ≠ .unstranded := by rw [hds]; exact hd
    obtain ⟨hwf, _, _⟩ := chunk_location_facts d hdc hdd (hnoD d hc) (winOf c) h.win
    simp only [specOf, hc, hcds, Option.map_some, bind, Except.bind, pure, Except.pure]
    exact chunkToIv_ok c _ hwf s e st

/-! ### the chunk-built twin: chromosome-level members -/

theorem mkTranscript_plen (ex : List Blk) (st : Strand) (cds : Option (List Blk)) (p : Option Nat) (t : Transcript)
    (h : mkTranscript ex st cds none = .ok t) : mkTranscript ex st cds p = .ok { t with plen := p } := by
  unfold mkTranscript Model.chromosomeLocation at h ⊢
  cases h0 : initializeLocation ex st with
  | error e => simp [h0, bind, Except.bind] at h
  | ok l0 =>
    cases h1 : mkCompoundLoc ex st with
    | error e => simp [h0, h1, bind, Except.bind] at h
    | ok E =>
      simp only [h0, h1, bind, Except.bind] at h ⊢
      cases cds with
      | none =>
        simp only [pure, Except.pure, Except.ok.injEq] at h ⊢
        subst h; rfl
      | some cb =>
        simp only at h ⊢
        split at h
        · rename_i c0 e0 cl el hc0 he0 hcl hel
          split at h
          · cases h
          · rename_i hn1
            rw [if_neg hn1]
            split at h
            · cases h
            · rename_i hn2
              rw [if_neg hn2]
              cases h2 : initializeLocation cb st with
              | error e => simp [h2] at h
              | ok l1 =>
                cases h3 : mkCompoundLoc cb st with
                | error e => simp [h2, h3] at h
                | ok D =>
                  simp only [h2, h3] at h ⊢
                  split at h
                  · cases h
                  · rename_i hlen
                    rw [if_neg hlen]
                    simp only [pure, Except.pure, Except.ok.injEq] at h ⊢
                    subst h; rfl
        · cases h

/-- the chunk-built transcript and the chromosome-built one have the same chromosome-level locations -/
theorem twin_members (ex : List Blk) (st : Strand) (cds : Option (List Blk)) (w : Blk) (wst : Strand)
    (plen : Option Nat) (hW : winOk ⟨w, wst⟩ = true) (c : ChunkTranscript) (t : Transcript)
    (hc : mkChunkTranscript ex st cds w wst = .ok c) (ht : mkTranscript ex st cds plen = .ok t) :
    t = { c.base with plen := plen } := by
  obtain ⟨_, hb, _, _⟩ := mkChunkTranscript_spec ex st cds w wst hW c hc
  rw [mkTranscript_plen ex st cds plen c.base hb] at ht
  exact (Except.ok.inj ht).symm

/-! ### a chunk that contains the whole transcript: chunk coordinates are chromosome coordinates through the window -/

theorem idxOf?_map_inj (f : Nat → Nat) (L : List Nat) (p : Nat) (hinj : ∀ x ∈ L, f x = f p → x = p) :
    idxOf? (f p) (L.map f) = idxOf? p L := by
  induction L with
  | nil => rfl
  | cons x xs ih =>
    simp only [List.map_cons, idxOf?]
    have ih' := ih (fun y hy => hinj y (List.mem_cons_of_mem _ hy))
    by_cases hx : x = p
    · simp [hx]
    · have : ¬ f x = f p := fun e => hx (hinj x (by simp) e)
      simp [hx, this, ih']

theorem chunkOf_inj (W : Win) (x p : Nat) (hx : inWin W.w x = true) (hp : inWin W.w p = true)
    (h : chunkOf W x = chunkOf W p) : x = p := by
  unfold inWin at hx hp
  simp only [Bool.and_eq_true, decide_eq_true_eq] at hx hp
  unfold chunkOf at h
  split at h <;> omega

theorem chunkBases_all (l : Loc) (W : Win) (hall : ∀ x ∈ bases l, inWin W.w x = true) :
    chunkBases l W = (bases l).map (chunkOf W) := by
  unfold chunkBases
  rw [List.filter_eq_self.2 hall]

/-- chunk position → transcript is chromosome position → transcript, through the window -/
theorem cr2t_through_window (t : TxSpec) (W : Win) (hall : ∀ x ∈ bases t.E, inWin W.w x = true)
    (p : Nat) (hp : inWin W.w p = true) :
    expCR2T t W (chunkOf W p : Nat) = expC2T t p := by
  unfold expCR2T expC2T posIdx listIdx
  by_cases hd : t.E.strand = .unstranded
  · simp [hd]
  · simp only [hd, if_false, chunkBases_all t.E W hall, Int.toNat_natCast,
      show ¬ ((chunkOf W p : Nat) : Int) < 0 by omega, show ¬ ((p : Nat) : Int) < 0 by omega]
    rw [idxOf?_map_inj (chunkOf W) (bases t.E) p (fun x hx e => chunkOf_inj W x p (hall x hx) hp e)]

/-- transcript → chunk position is transcript → chromosome position, through the window -/
theorem t2cr_through_window (t : TxSpec) (W : Win) (hall : ∀ x ∈ bases t.E, inWin W.w x = true) (r : Int) :
    expT2CR t W r = (expT2C t r).map (fun p => ((chunkOf W p.toNat : Nat) : Int)) := by
  unfold expT2CR expT2C posAt listAt
  by_cases hd : t.E.strand = .unstranded
  · simp [hd]
  · by_cases hr : r < 0
    · simp [hd, hr]
    · simp only [hd, hr, if_false, chunkBases_all t.E W hall, List.getElem?_map]
      cases (bases t.E)[r.toNat]? <;> simp

end BioCantor.Proofs
