/-
  C11 / T5 (attributes) — (I1) what the Spec's reader extracts from a rendered attribute column, canonicalised, is
  `expectAttrs` of the qualifier dictionary that was rendered; (I2) `expectAttrs` only depends on the relation
  "key carries value", so the model's imperative merging (`mergeQuals`, `addToSet`, `setKey`) can be replaced by the
  Spec's declarative unions.
-/
import BioCantor.Proofs.GffCanon
import BioCantor.Proofs.GffAttrs
namespace BioCantor.Proofs.GffAttrEq
open BioCantor BioCantor.Model.Gff BioCantor.Proofs.GffEscape BioCantor.Proofs.GffRows BioCantor.Proofs.GffAttrs
open BioCantor.Proofs.GffCanon
open BioCantor.Spec.Gff (Str Quals percentDecode splitOnChar hexVal canonAttrs expectAttrs valueReadsAs foldKey
  isReservedTag structural wellEscaped)

/-! ### splitting commutes with escaping (the comma is not in the plain table) -/

theorem splitOnChar_prefix {sep : Char} {r : Str} (hr : sep ∉ r) (x p : Str) (ps : List Str)
    (hx : splitOnChar sep x = p :: ps) : splitOnChar sep (r ++ x) = (r ++ p) :: ps := by
  induction r with
  | nil => simpa using hx
  | cons c r ih =>
    have hc : c ≠ sep := fun e => hr (by simp [e])
    have hr' : sep ∉ r := fun e => hr (List.mem_cons_of_mem _ e)
    rw [List.cons_append, splitOnChar_cons_ne hc (r ++ x) (r ++ p) ps (ih hr')]
    rfl

theorem comma_lookup : Gen.gffEncodingMap.lookup ',' = none := by decide

theorem split_escape (s : Str) :
    splitOnChar ',' (escapeWith Gen.gffEncodingMap s) = (splitOnChar ',' s).map (escapeWith Gen.gffEncodingMap) := by
  induction s with
  | nil => simp [escapeWith, splitOnChar]
  | cons c rest ih =>
    by_cases hc : c = ','
    · subst hc
      have : escapeWith Gen.gffEncodingMap (',' :: rest) = ',' :: escapeWith Gen.gffEncodingMap rest := by
        rw [escapeWith, comma_lookup]
      rw [this, splitOnChar_cons_eq, splitOnChar_cons_eq, ih]
      simp [escapeWith]
    · cases hs : splitOnChar ',' rest with
      | nil => exact absurd hs (splitOnChar_ne_nil _ _)
      | cons p ps =>
        rw [splitOnChar_cons_ne hc rest p ps hs]
        rw [hs] at ih
        simp only [List.map_cons] at ih ⊢
        rw [escapeWith]
        split
        · rename_i r hl
          obtain ⟨a, b, x, y, _, _, hr, hx, hy, _⟩ := entry_facts (entry_of_lookup gffEncodingMap_good hl)
          have hnc : ',' ∉ r := by
            subst hr
            intro hm
            simp only [List.mem_cons, List.mem_nil_iff, or_false] at hm
            rcases hm with e | e | e
            · exact absurd e (by decide)
            · rw [← e] at hx; simp [comma_not_hex] at hx
            · rw [← e] at hy; simp [comma_not_hex] at hy
          rw [splitOnChar_prefix hnc _ _ _ ih]
          congr 1
          rw [escapeWith, hl]
        · rename_i hl
          rw [splitOnChar_cons_ne hc _ _ _ ih]
          congr 1
          rw [escapeWith, hl]

theorem nan_split : splitOnChar ',' nan = [nan] := by
  apply splitOnChar_of_not_mem; decide

theorem nan_decode : percentDecode nan = nan := by simp [nan, percentDecode]

/-- how a written value reads back: `""` as `nan`, anything else split at its commas -/
theorem value_reads (v : Str) : (splitOnChar ',' (escapeValue v false)).map percentDecode = valueReadsAs v := by
  unfold escapeValue valueReadsAs
  simp only [Bool.false_eq_true, if_false]
  by_cases hv : v = []
  · subst hv
    simp only [List.length_nil, gt_iff_lt, Nat.lt_irrefl, if_false, if_true, nan_split, List.map_cons, List.map_nil,
      nan_decode]
    rfl
  · have hl : v.length > 0 := List.length_pos_iff.mpr hv
    simp only [hl, if_true, hv, if_false, escapeStr]
    rw [split_escape, List.map_map]
    conv => rhs; rw [← List.map_id (splitOnChar ',' v)]
    apply List.map_congr_left
    intro p _
    exact decode_escapeWith gffEncodingMap_good p

/-! ### the Spec's expected attributes as a relation -/

/-- the relation a qualifier dictionary must read back as -/
def QRel (Q : Quals) (k' v' : Str) : Prop :=
  ∃ k v, BRel Q k v ∧ isReservedTag k = false ∧ k' = foldKey k ∧ v' ∈ valueReadsAs v

def expectInner (Q : Quals) : AList :=
  (Q.filter fun kv => !isReservedTag kv.1 && !kv.2.isEmpty).map fun kv => (foldKey kv.1, kv.2.flatMap valueReadsAs)

theorem expectAttrs_eq (Q : Quals) : expectAttrs Q = canonAttrs (expectInner Q) := rfl

theorem valueReadsAs_ne_nil (v : Str) : valueReadsAs v ≠ [] := by
  unfold valueReadsAs
  split
  · simp
  · exact splitOnChar_ne_nil _ _

theorem expectInner_rel (Q : Quals) (k' v' : Str) : BRel (expectInner Q) k' v' ↔ QRel Q k' v' := by
  unfold expectInner BRel QRel
  constructor
  · rintro ⟨vs', hm, hv⟩
    obtain ⟨⟨k, vs⟩, hf, he⟩ := List.mem_map.mp hm
    simp only [Prod.mk.injEq] at he
    obtain ⟨rfl, rfl⟩ := he
    rw [List.mem_filter] at hf
    simp only [Bool.and_eq_true, Bool.not_eq_true'] at hf
    obtain ⟨v, hvv, hv'⟩ := List.mem_flatMap.mp hv
    exact ⟨k, v, ⟨vs, hf.1, hvv⟩, hf.2.1, rfl, hv'⟩
  · rintro ⟨k, v, ⟨vs, hm, hvv⟩, hres, rfl, hv'⟩
    refine ⟨vs.flatMap valueReadsAs, List.mem_map.mpr ⟨(k, vs), ?_, rfl⟩, List.mem_flatMap.mpr ⟨v, hvv, hv'⟩⟩
    rw [List.mem_filter]
    refine ⟨hm, ?_⟩
    simp only [Bool.and_eq_true, Bool.not_eq_true', hres, true_and]
    cases vs with
    | nil => simp at hvv
    | cons _ _ => rfl

theorem expectInner_nonempty (Q : Quals) : ∀ e ∈ expectInner Q, e.2 ≠ [] := by
  intro e he
  unfold expectInner at he
  obtain ⟨⟨k, vs⟩, hf, rfl⟩ := List.mem_map.mp he
  rw [List.mem_filter] at hf
  simp only [Bool.and_eq_true, Bool.not_eq_true'] at hf
  cases vs with
  | nil => simp at hf
  | cons v rest =>
    simp only [List.flatMap_cons, ne_eq, List.append_eq_nil_iff, not_and]
    intro h; exact absurd h (valueReadsAs_ne_nil v)

/-- (I2) `expectAttrs` depends only on the relation "key carries value" -/
theorem expectAttrs_congr {Q Q' : Quals} (h : ∀ k v, BRel Q k v ↔ BRel Q' k v) : expectAttrs Q = expectAttrs Q' := by
  rw [expectAttrs_eq, expectAttrs_eq]
  apply canonAttrs_ext_rel (expectInner_nonempty Q) (expectInner_nonempty Q')
  intro k' v'
  rw [expectInner_rel, expectInner_rel]
  unfold QRel
  constructor
  · rintro ⟨k, v, hb, r⟩; exact ⟨k, v, (h k v).mp hb, r⟩
  · rintro ⟨k, v, hb, r⟩; exact ⟨k, v, (h k v).mpr hb, r⟩

/-! ### (I1) the rendered column reads back as `expectAttrs` -/

theorem reserved_agree (k : Str) : bioCantorReserved.contains k = isReservedTag k := by
  simp only [bioCantorReserved, isReservedTag, List.contains_cons, List.contains_nil, Bool.or_false,
    Model.Gff.kName, Model.Gff.kParent, Model.Gff.kID, Spec.Gff.kName, Spec.Gff.kParent, Spec.Gff.kID]
  by_cases h1 : k = ['I', 'D'] <;> by_cases h2 : k = ['P', 'a', 'r', 'e', 'n', 't'] <;>
    by_cases h3 : k = ['N', 'a', 'm', 'e'] <;> simp [h1, h2, h3]

theorem foldKey_agree (k : Str) (h : isReservedTag k = false) :
    (if (!gff3Reserved.contains k) = true then Model.Gff.lowerStr k else k) = foldKey k := by
  have hb : bioCantorReserved.contains k = false := by rw [reserved_agree]; exact h
  have : gff3Reserved.contains k = Spec.Gff.gff3Reserved.contains k := by
    simp only [bioCantorReserved, List.contains_cons, List.contains_nil, Bool.or_false, Bool.or_eq_false_iff] at hb
    simp only [gff3Reserved, Spec.Gff.gff3Reserved, List.contains_cons, hb.1, hb.2.1, hb.2.2, Bool.false_or]
  unfold foldKey
  rw [this]
  cases Spec.Gff.gff3Reserved.contains k <;> simp [Model.Gff.lowerStr, Spec.Gff.lowerStr]

/-- every qualifier with values and a non-reserved key yields its pair -/
theorem qualPairs_complete (raise : Bool) : ∀ (q : Quals) (l : List (Str × Str)), qualPairs raise q = .ok l →
    ∀ key vals, (key, vals) ∈ q → vals ≠ [] → bioCantorReserved.contains key = false →
      (escapeKey key (!gff3Reserved.contains key), joinWith ',' (sortStrs (vals.map fun v => escapeValue v false))) ∈ l
  | [], _, _ => by intro key vals h; simp at h
  | (k0, v0) :: rest, l, h => by
    intro key vals hm hne hres
    simp only [qualPairs] at h
    have ih := qualPairs_complete raise rest
    split at h
    · rename_i hemp
      rcases List.mem_cons.mp hm with e | hm'
      · simp only [Prod.mk.injEq] at e
        obtain ⟨rfl, rfl⟩ := e
        exact absurd (by simpa using hemp) hne
      · exact ih l h key vals hm' hne hres
    · split at h
      · rename_i hr0
        split at h
        · cases h
        · rcases List.mem_cons.mp hm with e | hm'
          · simp only [Prod.mk.injEq] at e
            obtain ⟨rfl, rfl⟩ := e
            rw [hres] at hr0; cases hr0
          · exact ih l h key vals hm' hne hres
      · cases hmore : qualPairs raise rest with
        | error e => rw [hmore] at h; cases h
        | ok more =>
          rw [hmore] at h
          simp only [bind, Except.bind, pure, Except.pure] at h
          cases h
          rcases List.mem_cons.mp hm with e | hm'
          · simp only [Prod.mk.injEq] at e
            obtain ⟨rfl, rfl⟩ := e
            apply List.mem_cons.mpr
            left
            congr 1
            cases hg : gff3Reserved.contains key <;> simp
          · exact List.mem_cons_of_mem _ (ih more hmore key vals hm' hne hres)

theorem mem_sortQuals {Q : Quals} {e : Str × List Str} : e ∈ sortQuals Q ↔ e ∈ Q := by
  unfold sortQuals; exact List.mem_mergeSort

/-- values read from one written pair -/
theorem pair_values (vals : List Str) (hv : vals ≠ []) (v' : Str) :
    v' ∈ (splitOnChar ',' (joinWith ',' (sortStrs (vals.map fun v => escapeValue v false)))).map percentDecode ↔
      ∃ v ∈ vals, v' ∈ valueReadsAs v := by
  have hne : sortStrs (vals.map fun v => escapeValue v false) ≠ [] := by
    intro e
    have := congrArg List.length e
    unfold sortStrs at this
    rw [List.length_mergeSort] at this
    simp only [List.length_map, List.length_nil] at this
    exact hv (List.eq_nil_of_length_eq_zero this)
  rw [splitOnChar_joinWith_flat ',' _ hne, List.map_flatMap]
  constructor
  · intro h
    obtain ⟨ev, hev, hin⟩ := List.mem_flatMap.mp h
    unfold sortStrs at hev
    obtain ⟨v, hv, rfl⟩ := List.mem_map.mp (List.mem_mergeSort.mp hev)
    rw [value_reads] at hin
    exact ⟨v, hv, hin⟩
  · rintro ⟨v, hv, hin⟩
    refine List.mem_flatMap.mpr ⟨escapeValue v false, ?_, by rw [value_reads]; exact hin⟩
    unfold sortStrs
    exact List.mem_mergeSort.mpr (List.mem_map.mpr ⟨v, hv, rfl⟩)

/-- (I1) reading back the qualifier part of a rendered column gives `expectAttrs` of the dictionary -/
theorem tail_reads_as (raise : Bool) (Q : Quals) (tail : List (Str × Str))
    (h : qualPairs raise (sortQuals Q) = .ok tail) :
    canonAttrs (tail.map decodePair) = expectAttrs Q := by
  rw [expectAttrs_eq]
  apply canonAttrs_ext_rel
  · intro e he
    obtain ⟨p, _, rfl⟩ := List.mem_map.mp he
    simp only [decodePair, ne_eq, List.map_eq_nil_iff]
    exact splitOnChar_ne_nil _ _
  · exact expectInner_nonempty Q
  · intro k' v'
    rw [expectInner_rel]
    constructor
    · rintro ⟨vs', hm, hv'⟩
      obtain ⟨p, hp, he⟩ := List.mem_map.mp hm
      obtain ⟨key, vals, hin, hne, hres, rfl⟩ := qualPairs_form raise _ _ h p hp
      simp only [decodePair, Prod.mk.injEq] at he
      obtain ⟨rfl, rfl⟩ := he
      have hres' : isReservedTag key = false := by rw [← reserved_agree]; exact hres
      obtain ⟨v, hv, hin'⟩ := (pair_values vals hne v').mp hv'
      refine ⟨key, v, ⟨vals, mem_sortQuals.mp hin, hv⟩, hres', ?_, hin'⟩
      rw [percentDecode_escapeKey, foldKey_agree key hres']
    · rintro ⟨key, v, ⟨vals, hm, hv⟩, hres, rfl, hin⟩
      have hres' : bioCantorReserved.contains key = false := by rw [reserved_agree]; exact hres
      have hne : vals ≠ [] := by intro e; rw [e] at hv; simp at hv
      have hp := qualPairs_complete raise _ _ h key vals (mem_sortQuals.mpr hm) hne hres'
      have hfk : percentDecode (escapeKey key (!gff3Reserved.contains key)) = foldKey key := by
        rw [percentDecode_escapeKey, foldKey_agree key hres]
      refine ⟨_, List.mem_map.mpr ⟨_, hp, ?_⟩, (pair_values vals hne v').mpr ⟨v, hv, hin⟩⟩
      simp only [decodePair]
      rw [hfk]

end BioCantor.Proofs.GffAttrEq
