/-
  C17 helper lemmas, part 6: a printed feature, read back, meets every clause of `Spec.Tbl.okFeat`.
-/
import BioCantor.Proofs.TblQuals
import BioCantor.Proofs.TblRows
import BioCantor.Proofs.TblCDS
import BioCantor.Proofs.TblGene
namespace BioCantor.Proofs.Tbl
open BioCantor BioCantor.Model.Tbl BioCantor.Spec BioCantor.Spec.Tbl
open BioCantor.Model.Bed (natStr intStr join)
open BioCantor.Spec.Bed (splitOn parseNat)
open BioCantor.Proofs.Bed

theorem validKeys_locus_tag (key : List Char) : (validKeys key).contains "locus_tag".toList = true := by
  unfold validKeys
  split
  · decide
  · split
    · decide
    · split
      · decide
      · split <;> decide

theorem validKeys_codon_start : (validKeys "CDS".toList).contains "codon_start".toList = true := by decide

/-- characters `_qualifiers_to_str` strips from values -/
def plainChars (s : List Char) : Prop := ∀ c ∈ s, c ≠ '[' ∧ c ≠ ']' ∧ c ≠ '(' ∧ c ≠ ')' ∧ c ≠ ';'

theorem tag_plain (pre : List Char) (hp : plainChars pre) (m : Nat) : plainChars (pre ++ '_' :: natStr m) := by
  intro c hc
  simp only [List.mem_append, List.mem_cons] at hc
  rcases hc with hc | rfl | hc
  · exact hp c hc
  · decide
  · exact digit_not_special c (natStr_digits m c hc)

/-- **a printed feature meets its clauses** (any number of blocks, either strand, any marks, any further
    qualifiers): rows = the merged source blocks 1-based inclusive 5'→3'; `<` / `>` exactly as flagged; `pseudo`
    exactly when flagged; `codon_start` and `locus_tag` as entered -/
theorem feature_clauses (pre : List Char) (hpre : plainChars pre) (f : Feature) (hok : FeatOK f)
    (src : List Blk) (hgood : goodBlocks src = true) (hblocks : f.blocks = mergedBlocks src)
    (keyOk : List Char → Bool) (hkey : keyOk f.key = true)
    (cs : Option Nat)
    (hcs : ∀ n, cs = some n → f.key = "CDS".toList ∧
      f.quals.filter (fun kv => kv.1 = "codon_start".toList) = [("codon_start".toList, [some (natStr n)])])
    (tagNo : Nat)
    (hlt : f.quals.filter (fun kv => kv.1 = "locus_tag".toList)
      = [("locus_tag".toList, [some (pre ++ '_' :: natStr tagNo)])]) :
    okFeat pre ⟨keyOk, [f.strand], src, f.si, f.ei, f.pseudo, cs, tagNo⟩ (featOf f) = true := by
  have hp := locPairs_ne_nil f.blocks f.strand hok.blocks
  have hpos : ∀ b ∈ f.blocks, b.1 < b.2 := by rw [hblocks]; exact merged_pos src hgood
  obtain ⟨m1, m2, m3⟩ := rows_marks (locPairs f.blocks f.strand) f.si f.ei hp
  have hrows := rows_denote_blocks f.blocks f.strand f.si f.ei hpos
  unfold okFeat
  simp only [Bool.and_eq_true]
  refine ⟨⟨⟨⟨⟨hkey, ?_⟩, ?_⟩, ?_⟩, ?_⟩, ?_⟩
  · rw [hblocks] at hrows
    simp only [okRowsMerged, featOf, List.any_cons, List.any_nil, Bool.or_false, hblocks, hrows]
    simp
  · simp only [okMarks, featOf, m1, m2, m3]
    simp
  · simp only [okPseudo]
    rw [pseudo_read_back]
    simp
  · unfold okCodonStart
    cases hc : cs with
    | none => rfl
    | some n =>
      obtain ⟨hk, hq⟩ := hcs n hc
      have hv : (validKeys f.key).contains "codon_start".toList = true := by rw [hk]; exact validKeys_codon_start
      simp only
      rw [qualValues_featOf f "codon_start" hv (by decide), printedValues_single _ _ _ hq, removeChars_natStr]
      simp [parseNat_natStr]
  · unfold okLocusTag
    simp only
    rw [qualValues_featOf f "locus_tag" (validKeys_locus_tag f.key) (by decide), printedValues_single _ _ _ hlt,
      removeChars_id _ (tag_plain pre hpre tagNo)]
    simp [tagNumber_tag]

/-! ### pseudo: any transcript -/

/-- `any(tx.has_in_frame_stop for tx in gene.transcripts)` over coding transcripts whose predicate answers -/
theorem anyInFrameStop_any (cbs : List (Model.CDS × Bool)) (h : ∀ p ∈ cbs, Model.hasInFrameStop p.1 = .ok p.2) :
    anyInFrameStop (cbs.map (fun p => some p.1)) = .ok ((cbs.map (·.2)).any id) := by
  induction cbs with
  | nil => rfl
  | cons p cbs ih =>
    have ih' := ih (fun q hq => h q (List.mem_cons_of_mem _ hq))
    have hp := h p (by simp)
    simp only [List.map_cons, anyInFrameStop, hp, bind, Except.bind, List.any_cons, id]
    cases p.2
    · simpa using ih'
    · simp [pure, Except.pure]

/-! ### the reading-frame clauses do not depend on merging -/

theorem cdsIn_merged_letters (src : List Blk) (st : Strand) (f : Nat) (g : List Char) (h : goodBlocks src = true) :
    (⟨mergedBlocks src, st, f, g⟩ : CdsIn).letters = (⟨src, st, f, g⟩ : CdsIn).letters := by
  unfold CdsIn.letters
  simp only [merged_same_bases src st h]

theorem cdsIn_merged (src : List Blk) (st : Strand) (f : Nat) (g : List Char) (h : goodBlocks src = true) (table : Nat) :
    (⟨mergedBlocks src, st, f, g⟩ : CdsIn).startPartial table = (⟨src, st, f, g⟩ : CdsIn).startPartial table ∧
    (⟨mergedBlocks src, st, f, g⟩ : CdsIn).endPartial = (⟨src, st, f, g⟩ : CdsIn).endPartial ∧
    (⟨mergedBlocks src, st, f, g⟩ : CdsIn).inFrameStop = (⟨src, st, f, g⟩ : CdsIn).inFrameStop := by
  have hl := cdsIn_merged_letters src st f g h
  have hc : (⟨mergedBlocks src, st, f, g⟩ : CdsIn).codons = (⟨src, st, f, g⟩ : CdsIn).codons := by
    unfold CdsIn.codons; rw [hl]
  refine ⟨?_, ?_, ?_⟩
  · unfold CdsIn.startPartial; rw [hc]
  · unfold CdsIn.endPartial CdsIn.endsOnStop; rw [hl, hc]
  · unfold CdsIn.inFrameStop; rw [hc]

end BioCantor.Proofs.Tbl
