/-
  C17 helper lemmas, part 6: a printed feature, read back, meets every clause of `Spec.Tbl.okFeat`.
-/
import BioCantor.Proofs.TblQuals
import BioCantor.Proofs.TblRows
import BioCantor.Proofs.TblCDS
import BioCantor.Proofs.TblGene
namespace BioCantor.Proofs.Tbl
open BioCantor BioCantor.Model.Tbl BioCantor.Spec BioCantor.Spec.Tbl
open BioCantor.Model.Bed (natStr intStr join)
open BioCantor.Spec.Bed (splitOn parseNat)
open BioCantor.Proofs.Bed

theorem validKeys_locus_tag (key : List Char) : (validKeys key).contains "locus_tag".toList = true := by
  unfold validKeys
  split
  · decide
  · split
    · decide
    · split
      · decide
      · split <;> decide

theorem validKeys_codon_start : (validKeys "CDS".toList).contains "codon_start".toList = true := by decide

/-- characters `_qualifiers_to_str` strips from values -/
def plainChars (s : List Char) : Prop := ∀ c ∈ s, c ≠ '[' ∧ c ≠ ']' ∧ c ≠ '(' ∧ c ≠ ')' ∧ c ≠ ';'

theorem tag_plain (pre : List Char) (hp : plainChars pre) (m : Nat) : plainChars (pre ++ '_' :: natStr m) := by
  intro c hc
  simp only [List.mem_append, List.mem_cons] at hc
  rcases hc with hc | rfl | hc
  · exact hp c hc
  · decide
  · exact digit_not_special c (natStr_digits m c hc)

/-- **a printed feature meets its clauses** (any number of blocks, either strand, any marks, any further
    qualifiers): rows = the merged source blocks 1-based inclusive 5'→3'; `<` / `>` exactly as flagged; `pseudo`
    exactly when flagged; `codon_start` and `locus_tag` as entered -/
theorem feature_clauses (pre : List Char) (hpre : plainChars pre) (f : Feature) (hok : FeatOK f)
    (src : List Blk) (hgood : goodBlocks src = true) (hblocks : f.blocks = mergedBlocks src)
    (keyOk : List Char → Bool) (hkey : keyOk f.key = true)
    (cs : Option Nat)
    (hcs : ∀ n, cs = some n → f.key = "CDS".toList ∧
      f.quals.filter (fun kv => kv.1 = "codon_start".toList) = [("codon_start".toList, [some (natStr n)])])
    (tagNo : Nat)
    (hlt : f.quals.filter (fun kv => kv.1 = "locus_tag".toList)
      = [("locus_tag".toList, [some (pre ++ '_' :: natStr tagNo)])]) :
    okFeat pre ⟨keyOk, [f.strand], src, f.si, f.ei, f.pseudo, cs, tagNo⟩ (featOf f) = true := by
  have hp := locPairs_ne_nil f.blocks f.strand hok.blocks
  have hpos : ∀ b ∈ f.blocks, b.1 < b.2 := by rw [hblocks]; exact merged_pos src hgood
  obtain ⟨m1, m2, m3⟩ := rows_marks (locPairs f.blocks f.strand) f.si f.ei hp
  have hrows := rows_denote_blocks f.blocks f.strand f.si f.ei hpos
  unfold okFeat
  simp only [Bool.and_eq_true]
  refine ⟨⟨⟨⟨⟨hkey, ?_⟩, ?_⟩, ?_⟩, ?_⟩, ?_⟩
  · rw [hblocks] at hrows
    simp only [okRowsMerged, featOf, List.any_cons, List.any_nil, Bool.or_false, hblocks, hrows]
    simp
  · simp only [okMarks, featOf, m1, m2, m3]
    simp
  · simp only [okPseudo]
    rw [pseudo_read_back]
    simp
  · unfold okCodonStart
    cases hc : cs with
    | none => rfl
    | some n =>
      obtain ⟨hk, hq⟩ := hcs n hc
      have hv : (validKeys f.key).contains "codon_start".toList = true := by rw [hk]; exact validKeys_codon_start
      simp only
      rw [qualValues_featOf f "codon_start" hv (by decide), printedValues_single _ _ _ hq, removeChars_natStr]
      simp [parseNat_natStr]
  · unfold okLocusTag
    simp only
    rw [qualValues_featOf f "locus_tag" (validKeys_locus_tag f.key) (by decide), printedValues_single _ _ _ hlt,
      removeChars_id _ (tag_plain pre hpre tagNo)]
    simp [tagNumber_tag]

/-! ### pseudo: any transcript -/

/-- `any(tx.has_in_frame_stop for tx in gene.transcripts)` over coding transcripts whose predicate answers -/
theorem anyInFrameStop_any (cbs : List (Model.CDS × Bool)) (h : ∀ p ∈ cbs, Model.hasInFrameStop p.1 = .ok p.2) :
    anyInFrameStop (cbs.map (fun p => some p.1)) = .ok ((cbs.map (·.2)).any id) := by
  induction cbs with
  | nil => rfl
  | cons p cbs ih =>
    have ih' := ih (fun q hq => h q (List.mem_cons_of_mem _ hq))
    have hp := h p (by simp)
    simp only [List.map_cons, anyInFrameStop, hp, bind, Except.bind, List.any_cons, id]
    cases p.2
    · simpa using ih'
    · simp [pure, Except.pure]

/-! ### the reading-frame clauses do not depend on merging -/

theorem cdsIn_merged_letters (src : List Blk) (st : Strand) (f : Nat) (g : List Char) (h : goodBlocks src = true) :
    (⟨mergedBlocks src, st, f, g⟩ : CdsIn).letters = (⟨src, st, f, g⟩ : CdsIn).letters := by
  unfold CdsIn.letters
  simp only [merged_same_bases src st h]

theorem cdsIn_merged (src : List Blk) (st : Strand) (f : Nat) (g : List Char) (h : goodBlocks src = true) (table : Nat) :
    (⟨mergedBlocks src, st, f, g⟩ : CdsIn).startPartial table = (⟨src, st, f, g⟩ : CdsIn).startPartial table ∧
    (⟨mergedBlocks src, st, f, g⟩ : CdsIn).endPartial = (⟨src, st, f, g⟩ : CdsIn).endPartial ∧
    (⟨mergedBlocks src, st, f, g⟩ : CdsIn).inFrameStop = (⟨src, st, f, g⟩ : CdsIn).inFrameStop := by
  have hl := cdsIn_merged_letters src st f g h
  have hc : (⟨mergedBlocks src, st, f, g⟩ : CdsIn).codons = (⟨src, st, f, g⟩ : CdsIn).codons := by
    unfold CdsIn.codons; rw [hl]
  refine ⟨?_, ?_, ?_⟩
  · unfold CdsIn.startPartial; rw [hc]
  · unfold CdsIn.endPartial CdsIn.endsOnStop; rw [hl, hc]
  · unfold CdsIn.inFrameStop; rw [hc]

/-! ### whole collections -/

/-- pointwise relation of two lists of equal length -/
def Rel2 {α β} (R : α → β → Prop) : List α → List β → Prop
  | [], [] => True
  | a :: as, b :: bs => R a b ∧ Rel2 R as bs
  | _, _ => False

theorem Rel2_append {α β} (R : α → β → Prop) : ∀ (a₁ : List α) (b₁ : List β) (a₂ : List α) (b₂ : List β),
    Rel2 R a₁ b₁ → Rel2 R a₂ b₂ → Rel2 R (a₁ ++ a₂) (b₁ ++ b₂)
  | [], [], _, _, _, h => h
  | a :: as, b :: bs, a₂, b₂, h1, h2 => ⟨h1.1, Rel2_append R as bs a₂ b₂ h1.2 h2⟩
  | [], _ :: _, _, _, h, _ => h.elim
  | _ :: _, [], _, _, h, _ => h.elim

/-- a printed feature `f` (skeleton + qualifier dictionary) realises the expectation `w` of the property -/
structure Realises (pre : List Char) (w : Want) (f : Feature) : Prop where
  ok : FeatOK f
  key : w.keyOk f.key = true
  strand : f.strand ∈ w.strands
  good : goodBlocks w.blocks = true
  blocks : f.blocks = mergedBlocks w.blocks
  si : f.si = w.si
  ei : f.ei = w.ei
  pseudo : f.pseudo = w.pseudo
  cs : ∀ n, w.codonStart = some n → f.key = "CDS".toList ∧
    f.quals.filter (fun kv => kv.1 = "codon_start".toList) = [("codon_start".toList, [some (natStr n)])]
  tag : f.quals.filter (fun kv => kv.1 = "locus_tag".toList)
    = [("locus_tag".toList, [some (pre ++ '_' :: natStr w.tagNo)])]

theorem okFeat_of_realises (pre : List Char) (hpre : plainChars pre) (w : Want) (f : Feature)
    (h : Realises pre w f) : okFeat pre w (featOf f) = true := by
  have h0 := feature_clauses pre hpre f h.ok w.blocks h.good h.blocks w.keyOk h.key w.codonStart h.cs w.tagNo h.tag
  unfold okFeat at h0 ⊢
  simp only [Bool.and_eq_true] at h0 ⊢
  obtain ⟨⟨⟨⟨⟨a1, a2⟩, a3⟩, a4⟩, a5⟩, a6⟩ := h0
  refine ⟨⟨⟨⟨⟨a1, ?_⟩, ?_⟩, ?_⟩, a5⟩, a6⟩
  · simp only [okRowsMerged, List.any_cons, List.any_nil, Bool.or_false] at a2
    simp only [okRowsMerged, List.any_eq_true]
    exact ⟨f.strand, h.strand, a2⟩
  · simpa [okMarks, h.si, h.ei] using a3
  · simpa [okPseudo, h.pseudo] using a4

theorem zipAll_of_rel2 (pre : List Char) (hpre : plainChars pre) : ∀ (ws : List Want) (fs : List Feature),
    Rel2 (Realises pre) ws fs → zipAll (okFeat pre) ws (fs.map featOf) = true
  | [], [], _ => rfl
  | w :: ws, f :: fs, h => by
    simp only [List.map_cons, zipAll, Bool.and_eq_true]
    exact ⟨okFeat_of_realises pre hpre w f h.1, zipAll_of_rel2 pre hpre ws fs h.2⟩
  | [], _ :: _, h => h.elim
  | _ :: _, [], h => h.elim

/-- the collections of one call, each with the expectations of the property (`wantAll` with the gene numbering
    running on from `i`) and the features printed for it -/
def Staged : Nat → List (CollIn × List Want × List Feature) → Prop
  | _, [] => True
  | i, (c, ws, fs) :: rest =>
    wantAll c i c.genes = some ws ∧ Rel2 (Realises c.tagPrefix) ws fs ∧ plainChars c.tagPrefix ∧
    CollOK (c.seqName, fs) ∧ Staged (i + c.genes.length) rest

theorem okFilesFrom_of_staged : ∀ (i : Nat) (items : List (CollIn × List Want × List Feature)), Staged i items →
    okFilesFrom i (items.map (·.1)) (items.map (fun it => ⟨it.1.seqName, it.2.2.map featOf⟩)) = true
  | _, [], _ => rfl
  | i, (c, ws, fs) :: rest, h => by
    obtain ⟨h1, h2, h3, _, h5⟩ := h
    simp only [List.map_cons, okFilesFrom, h1, Bool.and_eq_true, beq_self_eq_true, true_and]
    exact ⟨zipAll_of_rel2 c.tagPrefix h3 ws fs h2, okFilesFrom_of_staged _ rest h5⟩

theorem staged_collOK : ∀ (i : Nat) (items : List (CollIn × List Want × List Feature)), Staged i items →
    ∀ c ∈ items.map (fun it => (it.1.seqName, it.2.2)), CollOK c
  | _, [], _ => by simp
  | i, (c, ws, fs) :: rest, h => by
    intro x hx
    simp only [List.map_cons, List.mem_cons] at hx
    rcases hx with rfl | hx
    · exact h.2.2.2.1
    · exact staged_collOK _ rest h.2.2.2.2 x hx

/-- **whole call**: the text `collection_to_tbl` writes for several collections reads back as one section per
    collection, and the sections meet C17 (`okFiles`): header per collection, every feature its clauses, locus-tag
    numbers running on across the collections -/
theorem okFiles_of_staged (items : List (CollIn × List Want × List Feature)) (h : Staged 1 items) :
    ∃ t secs, filesText (items.map (fun it => (it.1.seqName, it.2.2))) = some t ∧
      Spec.Tbl.read t = some secs ∧ okFiles (items.map (·.1)) secs = true := by
  obtain ⟨t, ht, hr⟩ := filesText_read _ (staged_collOK 1 items h)
  refine ⟨t, _, ht, hr, ?_⟩
  have := okFilesFrom_of_staged 1 items h
  simpa [okFiles, List.map_map, Function.comp_def] using this

/-! ### flavour -/

/-- prokaryotic flavour: no `mRNA` feature is written, every other feature is, in the same order;
    eukaryotic flavour: every feature is written -/
theorem flavourFilter_spec (prok : Bool) (fs : List Feature) :
    flavourFilter prok fs = (if prok then fs.filter (fun f => f.key ≠ "mRNA".toList) else fs) ∧
    (∀ f ∈ flavourFilter prok fs, f ∈ fs ∧ (prok = true → f.key ≠ "mRNA".toList)) ∧
    (∀ f ∈ fs, (prok = false ∨ f.key ≠ "mRNA".toList) → f ∈ flavourFilter prok fs) := by
  unfold flavourFilter
  cases prok
  · simp
  · simp only [if_true, List.mem_filter, decide_eq_true_eq]
    refine ⟨trivial, fun f hf => ⟨hf.1, fun _ => hf.2⟩, ?_⟩
    intro f hf h
    rcases h with h | h
    · exact absurd h (by simp)
    · exact ⟨hf, h⟩

end BioCantor.Proofs.Tbl
