/- C13-T5 (positive part), any number of blocks, chromosome and chunk parents: collections whose variants before
   the right-most one are transparent for the location (they keep the length, or lie wholly to the right of every
   block).  This is the complement of the shape of the recorded finding F-C13a. -/
import BioCantor.Proofs.VarColl
namespace BioCantor.Proofs.Var
open BioCantor BioCantor.Spec.Variants BioCantor.GenP BioCantor.Model
open BioCantor.Model.Variants (Var altSeq1 altSeqN kernel liftBlocks liftSingle liftCompound assemble liftSeqSingleStop
  liftSeqCompoundStop liftN reparent toChromosome Par slice Ver)

/-! ### transparent steps -/

/-- `u` does not move any block of the list: it keeps the length, or every block lies wholly to its left -/
def TransparentAll (u : Var) (M : List Blk) : Prop := u.alt.length = u.e - u.s ∨ ∀ b ∈ M, b.2 ≤ u.s

theorem TransparentAll.each {u : Var} {M : List Blk} (h : TransparentAll u M) : ∀ b ∈ M, Transparent u b := by
  intro b hb
  rcases h with h | h
  · exact Or.inl h
  · exact Or.inr (h b hb)

theorem liftBlocks_transparent (u : Var) (st : Strand) (M : List Blk) (hu : u.s < u.e) (hpos : ∀ b ∈ M, b.1 < b.2)
    (ht : TransparentAll u M) : liftBlocks u st M = .ok M := by
  induction M with
  | nil => rfl
  | cons b r ih =>
    have htr : TransparentAll u r := by
      rcases ht with h | h
      · exact Or.inl h
      · exact Or.inr (fun x hx => h x (List.mem_cons_of_mem _ hx))
    simp only [liftBlocks, kernel_transparent u b st hu (hpos b (by simp)) (ht.each b (by simp)),
      ih (fun x hx => hpos x (List.mem_cons_of_mem _ hx)) htr, bind, Except.bind, pure, Except.pure]

/-- `assemble` on an ascending non-empty list -/
theorem assemble_asc (L : List Blk) (st : Strand) (hasc : Asc L) (hne : L ≠ []) :
    assemble L st = .ok (toSingleIfOne ⟨combStart L, st⟩) := by
  cases L with
  | nil => exact absurd rfl hne
  | cons x L' =>
    cases L' with
    | nil =>
      simp only [assemble, pure, Except.pure]
      rw [combStart_single x (hasc.2 x (by simp))]
      rfl
    | cons y L'' =>
      simp only [assemble, mkCompoundLoc_asc _ st hasc (by simp), bind, Except.bind]
      exact optimizeLoc_asc _ st hasc (by simp)

theorem liftCompound_toSingleIfOne (w : Var) (M : List Blk) (st : Strand) (hne : M ≠ []) :
    liftCompound w (toSingleIfOne ⟨M, st⟩) = (liftBlocks w st M).bind (fun l => assemble l st) := by
  cases M with
  | nil => exact absurd rfl hne
  | cons b r =>
    cases r with
    | nil => rfl
    | cons c r' => rfl

/-- a transparent variant only normalises the location -/
theorem liftCompound_transparent (u : Var) (M : List Blk) (st : Strand) (hu : u.s < u.e) (hasc : Asc M) (hne : M ≠ [])
    (ht : TransparentAll u M) :
    liftCompound u (toSingleIfOne ⟨M, st⟩) = .ok (toSingleIfOne ⟨combStart M, st⟩) := by
  rw [liftCompound_toSingleIfOne u M st hne, liftBlocks_transparent u st M hu hasc.2 ht]
  exact assemble_asc M st hasc hne

/-- the compound lift of a clean variant, in closed form -/
theorem liftCompound_closed (off : Nat) (ref : Seq) (v : Var) (st : Strand) (N : List Blk) (hw : InWin off ref.length v)
    (hasc : Asc N) (hN : BlocksOk off ref.length v N) (hne : N ≠ []) :
    liftCompound v (toSingleIfOne ⟨N, st⟩)
      = .ok (if lifted off ref v N = [] then .empty else toSingleIfOne ⟨combStart (lifted off ref v N), st⟩) := by
  rw [liftCompound_toSingleIfOne v N st hne, liftBlocks_off off ref v st N hw hN]
  simp only [Except.bind]
  by_cases hL : lifted off ref v N = []
  · simp [hL, assemble, pure, Except.pure]
  · simp only [hL, if_false]
    exact assemble_asc _ st (lifted_asc off ref v N hasc) hL

/-- what is invariant along the transparent steps -/
structure StepInv (pre : List Var) (M N : List Blk) : Prop where
  asc : Asc M
  ne : M ≠ []
  same : ∀ {α : Type} (g : Blk → List α), Additive g → M.flatMap g = N.flatMap g

theorem liftSeqCompoundStop_last (v : Var) (loc : Location) :
    liftSeqCompoundStop [v] loc = liftCompound v loc := by
  simp only [liftSeqCompoundStop, bind, Except.bind]
  cases liftCompound v loc with
  | error e => rfl
  | ok l => cases l <;> rfl

/-- the compound loop as it is, over transparent variants followed by one more: the location is normalised and the
    last variant is applied to it -/
theorem liftSeqCompoundStop_transparent (P : Blk → Prop)
    (hPm : ∀ a b : Blk, P a → P b → a.2 = b.1 → b.1 < b.2 → P (a.1, max a.2 b.2))
    (pre : List Var) (v : Var) (st : Strand) (N M : List Blk)
    (hpre : ∀ u ∈ pre, u.s < u.e ∧ ∀ M' : List Blk, (∀ b ∈ M', P b) → TransparentAll u M')
    (hP : ∀ b ∈ M, P b) (hinv : StepInv pre M N) :
    ∃ M', (∀ b ∈ M', P b) ∧ StepInv pre M' N
      ∧ liftSeqCompoundStop (pre ++ [v]) (toSingleIfOne ⟨M, st⟩) = liftCompound v (toSingleIfOne ⟨M', st⟩) := by
  induction pre generalizing M with
  | nil => exact ⟨M, hP, hinv, liftSeqCompoundStop_last v _⟩
  | cons u r ih =>
    have hu := hpre u (by simp)
    have hstep := liftCompound_transparent u M st hu.1 hinv.asc hinv.ne (hu.2 M hP)
    have hP' : ∀ b ∈ combStart M, P b := combStart_forall P hPm M hP
    have hinv' : StepInv r (combStart M) N :=
      ⟨asc_combStart hinv.asc, combStart_ne_nil hinv.asc hinv.ne,
       fun g hg => (combStart_additive g hg M hinv.asc.valid).trans (hinv.same g hg)⟩
    obtain ⟨M', h1, h2, h3⟩ := ih (combStart M) (fun w hw => hpre w (List.mem_cons_of_mem _ hw)) hP' hinv'
    refine ⟨M', h1, ⟨h2.asc, h2.ne, h2.same⟩, ?_⟩
    simp only [List.cons_append, liftSeqCompoundStop, hstep, bind, Except.bind]
    have hnn := toSingleIfOne_ne_empty ⟨combStart M, st⟩
    rw [← h3]
    generalize toSingleIfOne ⟨combStart M, st⟩ = nl at hnn ⊢
    cases nl with
    | empty => exact absurd rfl hnn
    | single b s => rfl
    | compound l => rfl

/-! ### positions under a transparent prefix, with offset -/

theorem newPos_transparent_off (ref : Seq) (off : Nat) (pre : List Var) (v : Var) (b : Blk) (p : Nat)
    (hpb : p = b.1 - off ∨ p = b.2 - off) (hbo : off ≤ b.1) (hb : b.1 ≤ b.2) (hbn : b.2 - off ≤ ref.length)
    (hch : Chain ref.length ((pre ++ [v]).map (toEdit off)))
    (hpre : ∀ u ∈ pre, off ≤ u.s ∧ Clean u b ∧ Transparent u b) :
    newPos ref ((pre ++ [v]).map (toEdit off)) p = newPos ref [toEdit off v] p := by
  induction pre with
  | nil => rfl
  | cons u r ih =>
    simp only [List.cons_append, List.map_cons] at hch ⊢
    have hu := hpre u (by simp)
    have hus : (toEdit off u).s < (toEdit off u).e := chain_head hch
    simp only [toEdit] at hus
    rw [newPos_drop_head ref (toEdit off u) _ p (by rcases hpb with rfl | rfl <;> omega) hch (by
      simp only [toEdit]
      obtain ⟨hlo, hc, ht⟩ := hu
      unfold Clean at hc
      unfold Transparent at ht
      rcases hpb with rfl | rfl <;> omega)]
    exact ih (chain_tail hch) (fun w hw => hpre w (List.mem_cons_of_mem _ hw))

/-- image of a block under an arbitrary edit list, in coordinates of the parent's sequence -/
def imgRelE (off : Nat) (ref : Seq) (es : List Edit) (b : Blk) : Blk := imageBlock ref es (b.1 - off, b.2 - off)

theorem additive_imgE {α : Type} (g : Blk → List α) (hg : Additive g) (off : Nat) (ref : Seq) (es : List Edit) :
    Additive (fun b => g (imgRelE off ref es b)) where
  empty := by
    intro b h
    apply hg.empty
    simp only [imgRelE, imageBlock]
    have := newPos_mono ref es (b.2 - off) (b.1 - off) (by omega)
    omega
  merge := by
    intro a b h1 h2 h3
    have hm : max a.2 b.2 = b.2 := by omega
    have m1 := newPos_mono ref es (a.1 - off) (a.2 - off) (by omega)
    have m2 := newPos_mono ref es (b.1 - off) (b.2 - off) (by omega)
    have := hg.merge (imgRelE off ref es a) (imgRelE off ref es b) (by simp only [imgRelE, imageBlock]; exact m1)
      (by simp only [imgRelE, imageBlock, h2]) (by simp only [imgRelE, imageBlock]; exact m2)
    simp only [imgRelE, imageBlock, hm] at this ⊢
    have e : max (newPos ref es (a.2 - off)) (newPos ref es (b.2 - off)) = newPos ref es (b.2 - off) := by
      have := newPos_mono ref es (a.2 - off) (b.2 - off) (by omega); omega
    rw [e] at this
    exact this

/-! ### the theorem -/

/-- the body of the collection's `lift_over_location` (code as it is) after the chromosome lift -/
def liftNTail (par : Par) (altLen : Nat) (vs : List Var) (loc : Location) : R Location := do
  let nl ← (match loc with
            | .single _ _ => liftSeqSingleStop vs loc
            | _ => liftSeqCompoundStop vs loc)
  match nl with
  | .empty => pure .empty
  | _ => reparent par altLen nl

theorem liftN_unfold (par : Par) (ref : Seq) (vs : List Var) (loc : Location) (hne : loc ≠ .empty) :
    liftN .current par ref vs loc = (do
      let loc' ← toChromosome par loc
      liftNTail par (altSeqN par.off ref vs).length vs loc') := by
  cases loc with
  | empty => exact absurd rfl hne
  | single b st => rfl
  | compound l => rfl

/-- the blocks property carried along the loop -/
def CollOk (off n : Nat) (pre : List Var) (v : Var) (b : Blk) : Prop :=
  off ≤ b.1 ∧ b.1 < b.2 ∧ b.2 - off ≤ n ∧ Clean v b ∧ ∀ u ∈ pre, Clean u b ∧ Transparent u b

theorem collOk_merge (off n : Nat) (pre : List Var) (v : Var) (hv : v.s < v.e) (hpos : ∀ u ∈ pre, u.s < u.e)
    (a b : Blk) (ha : CollOk off n pre v a) (hb : CollOk off n pre v b) (h : a.2 = b.1) (hlt : b.1 < b.2) :
    CollOk off n pre v (a.1, max a.2 b.2) := by
  obtain ⟨a1, a2, a3, a4, a5⟩ := ha
  obtain ⟨b1, b2, b3, b4, b5⟩ := hb
  refine ⟨a1, by simp only; omega, by simp only; omega, clean_merge v hv a b a4 b4 h (Nat.le_of_lt a2) hlt, ?_⟩
  intro u hu
  refine ⟨clean_merge u (hpos u hu) a b (a5 u hu).1 (b5 u hu).1 h (Nat.le_of_lt a2) hlt, ?_⟩
  have ta := (a5 u hu).2
  have tb := (b5 u hu).2
  unfold Transparent at *
  simp only
  omega

theorem chain_all_pos {n : Nat} : ∀ (es : List Edit), Chain n es → ∀ x ∈ es, x.s < x.e ∧ x.e ≤ n
  | [], _ => by intro x hx; simp at hx
  | x :: r, h => by
      intro y hy
      rcases List.mem_cons.mp hy with rfl | hy'
      · exact ⟨chain_head h, (chain_later h).1⟩
      · exact chain_all_pos r (chain_tail h) y hy'

/-- T5, positive part, in full: `VariantIntervalCollection.lift_over_location` AS IT IS, on a location with any number
    of blocks on a whole chromosome or a chunk, for a sorted disjoint collection `pre ++ [v]` each of whose variants is
    wholly inside one block or outside all blocks, and whose variants before the right-most one are transparent
    (length-preserving, or to the right of every block): every additive reading of the answer's blocks equals the same
    reading of the images of the original blocks under ALL edits. -/
theorem liftN_transparent_blocks (par : Par) (ref : Seq) (pre : List Var) (v : Var) (st : Strand) (bs : List Blk)
    (hch : Chain ref.length ((pre ++ [v]).map (toEdit par.off)))
    (hlo : ∀ u ∈ pre ++ [v], par.off ≤ u.s)
    (hasc : Asc bs) (hne : bs ≠ [])
    (hbs : ∀ b ∈ bs, CollOk par.off ref.length pre v b) :
    ∃ r, liftN .current par ref (pre ++ [v]) (toSingleIfOne ⟨bs, st⟩) = .ok r
      ∧ (r = .empty ∨ (locStrand r = .ok st ∧ Asc (locBlocks r) ∧ locBlocks r ≠ []
            ∧ ∀ y ∈ locBlocks r, y.2 ≤ (altSeqN par.off ref (pre ++ [v])).length))
      ∧ ∀ {α : Type} (g : Blk → List α), Additive g →
          (locBlocks r).flatMap g
            = bs.flatMap (fun b => g (imgRelE par.off ref ((pre ++ [v]).map (toEdit par.off)) b)) := by
  -- basic facts about the variants
  have hallpos := chain_all_pos _ hch
  have hvE : (toEdit par.off v).s < (toEdit par.off v).e ∧ (toEdit par.off v).e ≤ ref.length :=
    hallpos _ (by simp)
  have hvlo := hlo v (by simp)
  have hw : InWin par.off ref.length v := ⟨hvlo, by simp only [toEdit] at hvE; omega, by simpa [toEdit] using hvE.2⟩
  have hprepos : ∀ u ∈ pre, u.s < u.e := by
    intro u hu
    have := hallpos (toEdit par.off u) (by simp only [List.map_append, List.mem_append, List.mem_map]; exact Or.inl ⟨u, hu, rfl⟩)
    have := hlo u (by simp [hu])
    simp only [toEdit] at *; omega
  have halt := altSeqN_altOf par.off ref (pre ++ [v]) (by simp) hch
  -- the location in chromosome coordinates
  have hmerge := collOk_merge par.off ref.length pre v hw.pos hprepos
  obtain ⟨N, hN1, hNasc, hNne, hNok, hNsame⟩ :
      ∃ N, toChromosome par (toSingleIfOne ⟨bs, st⟩) = .ok (toSingleIfOne ⟨N, st⟩) ∧ Asc N ∧ N ≠ []
        ∧ (∀ b ∈ N, CollOk par.off ref.length pre v b)
        ∧ ∀ {α : Type} (g : Blk → List α), Additive g → N.flatMap g = bs.flatMap g := by
    have := toChromosome_closed par bs st hasc hne
    cases par with
    | whole => exact ⟨bs, this, hasc, hne, hbs, fun g _ => rfl⟩
    | chunk cs =>
      exact ⟨combStart bs, this, asc_combStart hasc, combStart_ne_nil hasc hne,
        combStart_forall _ hmerge bs hbs, fun g hg => combStart_additive g hg bs hasc.valid⟩
  -- the loop: transparent variants, then v
  have htrAll : ∀ u ∈ pre, u.s < u.e ∧ ∀ M' : List Blk, (∀ b ∈ M', CollOk par.off ref.length pre v b) →
      TransparentAll u M' := by
    intro u hu
    refine ⟨hprepos u hu, ?_⟩
    intro M' hM'
    by_cases hd : u.alt.length = u.e - u.s
    · exact Or.inl hd
    · right
      intro b hb
      rcases ((hM' b hb).2.2.2.2 u hu).2 with h | h
      · exact absurd h hd
      · exact h
  obtain ⟨M', hM'ok, hM'asc, hM'ne, hM'same, hloop⟩ :
      ∃ M', (∀ b ∈ M', CollOk par.off ref.length pre v b) ∧ Asc M' ∧ M' ≠ []
        ∧ (∀ {α : Type} (g : Blk → List α), Additive g → M'.flatMap g = N.flatMap g)
        ∧ (match toSingleIfOne ⟨N, st⟩ with
           | .single _ _ => liftSeqSingleStop (pre ++ [v]) (toSingleIfOne ⟨N, st⟩)
           | _ => liftSeqCompoundStop (pre ++ [v]) (toSingleIfOne ⟨N, st⟩))
          = .ok (if lifted par.off ref v M' = [] then .empty
                 else toSingleIfOne ⟨combStart (lifted par.off ref v M'), st⟩) := by
    have hBok : ∀ M' : List Blk, (∀ b ∈ M', CollOk par.off ref.length pre v b) → BlocksOk par.off ref.length v M' :=
      fun M' h b hb => ⟨(h b hb).1, (h b hb).2.1, (h b hb).2.2.1, (h b hb).2.2.2.1⟩
    cases N with
    | nil => exact absurd rfl hNne
    | cons b r =>
      cases r with
      | nil =>
        refine ⟨[b], hNok, hNasc, hNne, fun g _ => rfl, ?_⟩
        simp only [toSingleIfOne]
        rw [liftSeqSingleStop_transparent pre v b st (hNok b (by simp)).2.1
          (fun u hu => ⟨hprepos u hu, ((hNok b (by simp)).2.2.2.2 u hu).2⟩)]
        have := liftLoc_closed par.off ref v st [b] hw hNasc (hBok _ hNok) (by simp)
        simpa [toSingleIfOne] using this
      | cons c r' =>
        obtain ⟨M', h1, h2, h3⟩ := liftSeqCompoundStop_transparent (CollOk par.off ref.length pre v) hmerge pre v st
          (b :: c :: r') (b :: c :: r') htrAll hNok ⟨hNasc, hNne, fun g _ => rfl⟩
        refine ⟨M', h1, h2.asc, h2.ne, h2.same, ?_⟩
        have hshape : toSingleIfOne ⟨b :: c :: r', st⟩ = .compound ⟨b :: c :: r', st⟩ := rfl
        rw [hshape]
        simp only
        rw [← hshape, h3]
        exact liftCompound_closed par.off ref v st M' hw h2.asc (hBok _ h1) h2.ne
  -- images under [v] and under all edits agree on the blocks of M'
  have himg : ∀ b ∈ M', imgRel par.off ref v b = imgRelE par.off ref ((pre ++ [v]).map (toEdit par.off)) b := by
    intro b hb
    obtain ⟨b1, b2, b3, _, b5⟩ := hM'ok b hb
    have hp : ∀ u ∈ pre, par.off ≤ u.s ∧ Clean u b ∧ Transparent u b :=
      fun u hu => ⟨hlo u (by simp [hu]), (b5 u hu).1, (b5 u hu).2⟩
    simp only [imgRel, imgRelE, imageBlock]
    rw [newPos_transparent_off ref par.off pre v b (b.1 - par.off) (Or.inl rfl) b1 (Nat.le_of_lt b2) b3 hch hp,
        newPos_transparent_off ref par.off pre v b (b.2 - par.off) (Or.inr rfl) b1 (Nat.le_of_lt b2) b3 hch hp]
  -- the reading chain
  have hchain : ∀ {α : Type} (g : Blk → List α), Additive g →
      (lifted par.off ref v M').flatMap (fun y => g (y.1 - par.off, y.2 - par.off))
        = bs.flatMap (fun b => g (imgRelE par.off ref ((pre ++ [v]).map (toEdit par.off)) b)) := by
    intro α g hg
    rw [lifted_gen g hg par.off ref v M',
        flatMap_congr' M' _ _ (fun b hb => by rw [himg b hb]),
        hM'same _ (additive_imgE g hg par.off ref _), hNsame _ (additive_imgE g hg par.off ref _)]
  -- bounds of the lifted blocks w.r.t. the collection's alternative sequence
  have hbounds : ∀ y ∈ lifted par.off ref v M', par.off ≤ y.1 ∧ y.2 - par.off ≤ (altSeqN par.off ref (pre ++ [v])).length := by
    intro y hy
    simp only [lifted, List.mem_filterMap] at hy
    obtain ⟨b, hb, hy⟩ := hy
    have h := (nonEmpty_some hy).1
    have hb3 := (hM'ok b hb).2.2.1
    have h2 := himg b hb
    simp only [imgRel, imgRelE, imageBlock, Prod.mk.injEq] at h2
    rw [h]
    simp only [imageChrom]
    rw [h2.2, halt]
    have := newPos_le_altLen ref ((pre ++ [v]).map (toEdit par.off)) (b.2 - par.off) hb3
    omega
  -- assemble
  rw [liftN_unfold par ref (pre ++ [v]) _ (toSingleIfOne_ne_empty _), hN1]
  simp only [bind, Except.bind, liftNTail]
  rw [hloop]
  by_cases hL : lifted par.off ref v M' = []
  · refine ⟨.empty, by simp [hL, pure, Except.pure], Or.inl rfl, ?_⟩
    intro α g hg
    rw [← hchain g hg, hL]; rfl
  · simp only [hL, if_false]
    have hLasc := lifted_asc par.off ref v M' hM'asc
    obtain ⟨r, hr1, hr2⟩ := reparent_readsG par (altSeqN par.off ref (pre ++ [v])) (combStart (lifted par.off ref v M'))
      (lifted par.off ref v M') st (asc_combStart hLasc) (combStart_ne_nil hLasc hL)
      (by
        apply combStart_forall (fun y => par.off ≤ y.1 ∧ y.2 - par.off ≤ (altSeqN par.off ref (pre ++ [v])).length)
        · intro a b ha hb _ _; simp only; omega
        · exact hbounds)
      (fun g hg => combStart_additive _ (additive_shift g hg par.off) _ hLasc.valid)
    rcases hr2 with ⟨he, hl⟩ | ⟨hne', hs, ha, hnn, hb, hg'⟩
    · exact absurd hl hL
    · refine ⟨r, ?_, Or.inr ⟨hs, ha, hnn, hb⟩, fun g hg => (hg' g hg).trans (hchain g hg)⟩
      have hnn1 := toSingleIfOne_ne_empty ⟨combStart (lifted par.off ref v M'), st⟩
      generalize toSingleIfOne ⟨combStart (lifted par.off ref v M'), st⟩ = nl at hr1 hnn1 ⊢
      cases nl with
      | empty => exact absurd rfl hnn1
      | single b s => exact hr1
      | compound l => exact hr1

/-- … in particular it reads, on the collection's alternative sequence, the edited image (under all edits) of the
    location's reference bases -/
theorem liftN_transparent_reads (par : Par) (ref : Seq) (pre : List Var) (v : Var) (st : Strand) (bs : List Blk)
    (hch : Chain ref.length ((pre ++ [v]).map (toEdit par.off)))
    (hlo : ∀ u ∈ pre ++ [v], par.off ≤ u.s)
    (hasc : Asc bs) (hne : bs ≠ [])
    (hbs : ∀ b ∈ bs, CollOk par.off ref.length pre v b) :
    ∃ r, liftN .current par ref (pre ++ [v]) (toSingleIfOne ⟨bs, st⟩) = .ok r
      ∧ (locBlocks r).flatMap (slice (altSeqN par.off ref (pre ++ [v])))
          = bs.flatMap (fun b => image ref ((pre ++ [v]).map (toEdit par.off)) (b.1 - par.off) (b.2 - par.off)) := by
  obtain ⟨r, h1, _, h3⟩ := liftN_transparent_blocks par ref pre v st bs hch hlo hasc hne hbs
  refine ⟨r, h1, ?_⟩
  rw [h3 _ (slice_additive _)]
  apply flatMap_congr'
  intro b hb
  have hb' := hbs b hb
  rw [altSeqN_altOf par.off ref (pre ++ [v]) (by simp) hch]
  unfold slice imgRelE imageBlock
  exact slice_image ref _ (b.1 - par.off) (b.2 - par.off) (by have := hb'.2.1; omega) hb'.2.2.1

end BioCantor.Proofs.Var
