/-
  C07, alternative constructors: lifting a chunk-relative location back to the chromosome returns the chromosome
  blocks themselves — block for block, not only position for position — when the interval lies inside the chunk
  and no two of its blocks touch.  (`lift_child_location_to_parent` unions the lifted blocks with
  `union_preserve_overlaps`, whose last step is `optimize_blocks`: touching blocks would be merged.)

  Route: the last step of `reduceUnion` is a `unionPreserve`, whose answer is `combStart` of a sorted block list
  (normal form: consecutive blocks never touch); two ascending block lists in normal form with the same positions
  are equal.
-/
import BioCantor.Proofs.ChunkWindow
namespace BioCantor.Proofs.Chunk
open BioCantor BioCantor.Spec BioCantor.Spec.Chunk BioCantor.Model BioCantor.Model.Chunk BioCantor.Proofs
open BioCantor.Proofs.Lift

/-! ### the answer of one lift is in normal form -/

/-- the closed form of `unionPreserve` (the witness of `unionPreserve_ok`) -/
theorem unionPreserve_form (st : Strand) (a b : Location) (ha : Lift.Good st a) (hb : Lift.Good st b)
    (hne : basesPlus (locationBlocks a) ≠ []) :
    unionPreserve a b =
      .ok (toSingleIfOne ⟨sortBlocks st (combStart (sortBlocks st (locationBlocks a ++ locationBlocks b))), st⟩) := by
  have hsa : locStrand a = .ok st := by
    cases a <;> simp_all [Lift.Good, locationStrand?, locStrand] <;> rfl
  have hsb : locStrand b = .ok st := by
    cases b <;> simp_all [Lift.Good, locationStrand?, locStrand] <;> rfl
  generalize hA : locationBlocks a = A at *
  generalize hB : locationBlocks b = B at *
  have hAv : ∀ x ∈ A, x.1 ≤ x.2 := hA ▸ wfLocation_valid a ha.2
  have hBv : ∀ x ∈ B, x.1 ≤ x.2 := hB ▸ wfLocation_valid b hb.2
  have hABne : A ++ B ≠ [] := by
    have := basesPlus_ne_nil_of_blocks hne
    simp [this]
  have hABv : ∀ x ∈ A ++ B, x.1 ≤ x.2 := by
    intro x hx
    rcases List.mem_append.mp hx with h | h
    · exact hAv x h
    · exact hBv x h
  generalize hS1 : sortBlocks st (A ++ B) = S1
  have hS1p : S1.Perm (A ++ B) := hS1 ▸ sortBlocks_perm st _
  have hS1v : ∀ x ∈ S1, x.1 ≤ x.2 := hS1 ▸ sortBlocks_valid st hABv
  have hS1s : sortBlocks st S1 = S1 := by
    rw [← hS1]; exact List.mergeSort_of_pairwise (sortBlocks_pairwise st _)
  have hnb_b : basesPlus (combStart S1) = basesPlus S1 := combStart_bases S1 hS1v
  have hchain : (basesPlus (combStart S1)).Perm (basesPlus A ++ basesPlus B) := by
    rw [hnb_b, ← basesPlus_append]; exact basesPlus_perm hS1p
  have hnb_ne : combStart S1 ≠ [] := by
    intro h; rw [h] at hchain
    have := hchain.length_eq
    simp only [basesPlus, List.length_nil, List.length_append] at this
    have : basesPlus A = [] := List.eq_nil_of_length_eq_zero (by omega)
    exact hne this
  have hopt := optimizeLoc_true_ok S1 st hS1s hnb_ne
  unfold unionPreserve
  simp only [hsa, hsb, bind, Except.bind, Lift.locBlocks_eq, hA, hB, ne_eq, not_true, if_false,
    mkCompoundLoc_ok st hABne hABv, hS1, hopt]

/-- a `unionPreserve` of two positive-block locations whose positions are pairwise different answers in normal
    form: ascending, and no two consecutive blocks touch -/
theorem unionPreserve_normal (st : Strand) (a b m : Location) (ha : Lift.Good st a) (hb : Lift.Good st b)
    (hne : basesPlus (locationBlocks a) ≠ [])
    (hpa : ∀ x ∈ locationBlocks a, x.1 < x.2) (hpb : ∀ x ∈ locationBlocks b, x.1 < x.2)
    (hm : unionPreserve a b = .ok m) (hnd : (basesPlus (locationBlocks m)).Nodup) :
    normalBlocks (locationBlocks m) = true := by
  rw [unionPreserve_form st a b ha hb hne] at hm
  cases hm
  obtain ⟨_, _, _, hperm, _⟩ := unionPreserve_ok st a b ha hb hne
  generalize hS1 : sortBlocks st (locationBlocks a ++ locationBlocks b) = S1 at *
  have hS1p : S1.Perm (locationBlocks a ++ locationBlocks b) := hS1 ▸ sortBlocks_perm st _
  have hS1pos : ∀ x ∈ S1, x.1 < x.2 := by
    intro x hx
    rcases List.mem_append.mp (hS1p.mem_iff.mp hx) with h | h
    · exact hpa x h
    · exact hpb x h
  have hS1v : ∀ x ∈ S1, x.1 ≤ x.2 := fun x hx => Nat.le_of_lt (hS1pos x hx)
  have hS1sorted : S1.Pairwise (fun a b => blkLe st a b = true) := hS1 ▸ sortBlocks_pairwise st _
  rw [locationBlocks_toSingleIfOne] at hnd ⊢
  simp only at hnd ⊢
  -- the positions of S1 are those of the answer: pairwise different
  have hS1nd : (basesPlus S1).Nodup := by
    have h1 : (basesPlus (sortBlocks st (combStart S1))).Perm (basesPlus S1) := by
      rw [← combStart_bases S1 hS1v]; exact basesPlus_perm (sortBlocks_perm st _)
    exact h1.nodup_iff.mp hnd
  have hS1dis := nonoverlap_of_sorted_nodup st S1 hS1sorted hS1pos hS1nd
  have hS1lt : (S1.map Prod.fst).Pairwise (· < ·) := by
    rw [List.pairwise_map]; exact fst_lt_of_asc _ hS1dis hS1pos
  have hClt : (combStart S1).Pairwise (fun a b => a.1 < b.1) := by
    have := hS1lt.sublist (combStart_starts S1)
    rwa [List.pairwise_map] at this
  rw [sortBlocks_of_fst_lt st hClt]
  exact combStart_normal S1

/-- the last step of a non-trivial `reduceUnion` is a `unionPreserve` of good operands -/
theorem reduceUnion_last (st : Strand) (xs : List Location) : ∀ (acc m : Location), Lift.Good st acc →
    (∀ x ∈ xs, Lift.Good st x) → basesPlus (locationBlocks acc) ≠ [] →
    (∀ x ∈ locationBlocks acc, x.1 < x.2) → (∀ y ∈ xs, ∀ x ∈ locationBlocks y, x.1 < x.2) →
    xs ≠ [] → reduceUnion acc xs = .ok m →
    ∃ u x, Lift.Good st u ∧ Lift.Good st x ∧ basesPlus (locationBlocks u) ≠ [] ∧
      (∀ z ∈ locationBlocks u, z.1 < z.2) ∧ (∀ z ∈ locationBlocks x, z.1 < z.2) ∧ unionPreserve u x = .ok m := by
  induction xs with
  | nil => intro _ _ _ _ _ _ _ h; exact absurd rfl h
  | cons x xs ih =>
    intro acc m hacc hxs hne hpa hpx _ hm
    obtain ⟨u, hu, hgu, hpu, hposu⟩ := unionPreserve_ok st acc x hacc (hxs x (by simp)) hne
    simp only [reduceUnion, bind, Except.bind, hu] at hm
    by_cases hxs0 : xs = []
    · subst hxs0
      simp only [reduceUnion, pure, Except.pure] at hm
      cases hm
      exact ⟨acc, x, hacc, hxs x (by simp), hne, hpa, hpx x (by simp), hu⟩
    · have hune : basesPlus (locationBlocks u) ≠ [] := by
        intro h; rw [h] at hpu
        have := hpu.length_eq
        simp only [List.length_nil, List.length_append] at this
        exact hne (List.eq_nil_of_length_eq_zero (by omega))
      exact ih u m hgu (fun y hy => hxs y (by simp [hy])) hune hposu
        (fun y hy => hpx y (by simp [hy])) hxs0 hm

/-- every lifted block is a good location with blocks of positive length, one per input block -/
theorem liftBlocks_facts (p : Location) (hp : WF p) (pl : Loc) (hpl : toLoc p = some pl)
    (hdir : pl.strand ≠ .unstranded) (hno : nonOverlap pl.blocks = true) (rst : Strand) (bs : List Blk)
    (hin : ∀ b ∈ bs, b.1 < b.2 ∧ b.2 ≤ pl.len) :
    ∃ ms, liftBlocks p rst bs = .ok ms ∧ ms.length = bs.length ∧
      (∀ x ∈ ms, Lift.Good (compose rst pl.strand) x ∧ ∀ z ∈ locationBlocks x, z.1 < z.2) := by
  induction bs with
  | nil => exact ⟨[], rfl, rfl, by simp⟩
  | cons b bs ih =>
    obtain ⟨hb1, hb2⟩ := hin b (by simp)
    obtain ⟨x, hx, hgx, _, hposx, _⟩ := relInterval_piece p hp pl hpl hdir b.1 b.2 hb1 hb2 rst
    obtain ⟨ms, hms, hlen, hall⟩ := ih (fun y hy => hin y (by simp [hy]))
    refine ⟨x :: ms, ?_, by simp [hlen], ?_⟩
    · simp only [liftBlocks, bind, Except.bind, hx, hms]; rfl
    · intro y hy
      rcases List.mem_cons.mp hy with rfl | h
      · exact ⟨hgx, hposx hno⟩
      · exact hall y h

/-- **normal form of one lift through a single-block placement**: when the lifted positions are pairwise
    different, no two consecutive blocks of the answer touch -/
theorem liftOnce_normal (c : Location) (w : Blk) (wst : Strand) (hwv : w.1 ≤ w.2) (hdir : wst ≠ .unstranded)
    (hce : c ≠ .empty) (hlen : 0 < locLen c)
    (hin : ∀ b ∈ locationBlocks c, b.1 < b.2 → b.2 ≤ (⟨[w], wst⟩ : Loc).len)
    (m : Location) (hm : liftOnce c (.single w wst) = .ok m) (hnd : (basesPlus (locationBlocks m)).Nodup) :
    normalBlocks (locationBlocks m) = true := by
  have hp : WF (.single w wst) := hwv
  have hpl : toLoc (.single w wst) = some ⟨[w], wst⟩ := rfl
  have hno : nonOverlap (⟨[w], wst⟩ : Loc).blocks = true := rfl
  generalize hpos : (locationBlocks c).filter (fun b => b.len > 0) = pos
  have hposne : pos ≠ [] := by
    rw [← hpos]; exact filter_pos_ne_nil _ (by rw [← Lift.locLen_eq]; exact hlen)
  have hposin : ∀ b ∈ pos, b.1 < b.2 ∧ b.2 ≤ (⟨[w], wst⟩ : Loc).len := by
    intro b hb
    rw [← hpos, List.mem_filter] at hb
    have h1 : b.1 < b.2 := by have := hb.2; simp [Blk.len] at this; omega
    exact ⟨h1, hin b hb.1 h1⟩
  match pos, hposne, hpos with
  | b :: bs, _, hpos =>
    obtain ⟨hb1, hb2⟩ := hposin b (by simp)
    have hlp : 0 < locLen (.single w wst) := by
      rw [toLoc_len _ _ hpl]; omega
    obtain ⟨x, hx, hgx, hpx, hposx, hlenx⟩ :=
      relInterval_piece (.single w wst) hp ⟨[w], wst⟩ hpl hdir b.1 b.2 hb1 hb2 (strandOf c)
    obtain ⟨ms, hms, hmslen, hmsall⟩ :=
      liftBlocks_facts (.single w wst) hp ⟨[w], wst⟩ hpl hdir hno (strandOf c) bs
        (fun y hy => hposin y (by simp [hy]))
    have hxne : basesPlus (locationBlocks x) ≠ [] := by
      intro h; rw [h] at hpx
      have := hpx.length_eq
      simp [bases_length] at this; omega
    rw [liftOnce_unfold c _ hce hlen hlp, hpos] at hm
    simp only [bind, Except.bind, hx, hms] at hm
    by_cases hbs : bs = []
    · subst hbs
      have : ms = [] := List.eq_nil_of_length_eq_zero (by simpa using hmslen)
      subst this
      simp only [reduceUnion, pure, Except.pure] at hm
      cases hm
      have h1 := hlenx (by simp)
      have h2 := hposx hno
      generalize locationBlocks m = B at h1 h2 ⊢
      match B, h1, h2 with
      | [], _, _ => rfl
      | [a], _, h2 => simpa [normalBlocks] using h2 a (by simp)
      | _ :: _ :: _, h1, _ => simp at h1
    · have hmsne : ms ≠ [] := by
        intro h; rw [h] at hmslen
        exact hbs (List.eq_nil_of_length_eq_zero (by simpa using hmslen.symm))
      obtain ⟨u, y, hgu, hgy, hune, hpu, hpy, huy⟩ :=
        reduceUnion_last _ ms x m hgx (fun z hz => (hmsall z hz).1) hxne (hposx hno)
          (fun z hz => (hmsall z hz).2) hmsne hm
      exact unionPreserve_normal _ u y m hgu hgy hune hpu hpy huy hnd

/-! ### two ascending block lists in normal form with the same positions are equal -/

theorem basesPlus_cons_pos (a : Blk) (t : List Blk) (h : a.1 < a.2) :
    basesPlus (a :: t) = a.1 :: basesPlus ((a.1 + 1, a.2) :: t) := by
  simp only [basesPlus, blkAsc]
  have : a.2 - a.1 = (a.2 - (a.1 + 1)) + 1 := by omega
  rw [this, List.range'_succ]
  simp

/-- strictly separated, positive blocks -/
def Sep : List Blk → Prop
  | [] => True
  | [a] => a.1 < a.2
  | a :: b :: rest => a.1 < a.2 ∧ a.2 < b.1 ∧ Sep (b :: rest)

theorem Sep.pos : ∀ {L : List Blk}, Sep L → ∀ b ∈ L, b.1 < b.2
  | [], _, b, hb => by simp at hb
  | [a], h, b, hb => by simp at hb; subst hb; exact h
  | a :: c :: rest, h, b, hb => by
    rcases List.mem_cons.mp hb with rfl | hb'
    · exact h.1
    · exact Sep.pos h.2.2 b hb'

theorem Sep.tail : ∀ {a : Blk} {L : List Blk}, Sep (a :: L) → Sep L
  | _, [], _ => trivial
  | _, _ :: _, h => h.2.2

theorem sep_of (L : List Blk) (hpos : ∀ b ∈ L, b.1 < b.2) (hpw : L.Pairwise (fun a b => a.2 ≤ b.1))
    (hn : normalBlocks L = true) : Sep L := by
  induction L with
  | nil => trivial
  | cons a t ih =>
    cases t with
    | nil => exact hpos a (by simp)
    | cons b r =>
      simp only [normalBlocks, Bool.and_eq_true, decide_eq_true_eq] at hn
      have hab := (List.pairwise_cons.mp hpw).1 b (by simp)
      refine ⟨hn.1.1, by omega, ?_⟩
      exact ih (fun x hx => hpos x (by simp [hx])) (List.pairwise_cons.mp hpw).2 hn.2

theorem sep_head_min {a : Blk} {L : List Blk} (h : Sep (a :: L)) : ∀ i ∈ basesPlus L, a.2 < i := by
  induction L generalizing a with
  | nil => intro i hi; simp [basesPlus] at hi
  | cons b r ih =>
    intro i hi
    simp only [basesPlus, List.mem_append] at hi
    rcases hi with hi | hi
    · have := (mem_blkAsc b i).mp hi; have := h.2.1; omega
    · have h2 : Sep (b :: r) := h.2.2
      have := ih h2 i hi
      have := h2.pos b (by simp); have := h.2.1; omega

/-- the block list is a function of the position list -/
theorem sep_ext : ∀ (n : Nat) (L M : List Blk), blocksLen L ≤ n → Sep L → Sep M → basesPlus L = basesPlus M → L = M := by
  intro n
  induction n with
  | zero =>
    intro L M hlen hL hM h
    have hL0 : L = [] := by
      cases L with
      | nil => rfl
      | cons a t => have := hL.pos a (by simp); simp [blocksLen, Blk.len] at hlen; omega
    subst hL0
    cases M with
    | nil => rfl
    | cons b t =>
      have := hM.pos b (by simp)
      rw [basesPlus_cons_pos b t this] at h
      simp [basesPlus] at h
  | succ n ih =>
    intro L M hlen hL hM h
    match L, M, hL, hM, h, hlen with
    | [], [], _, _, _, _ => rfl
    | [], b :: t, _, hM, h, _ =>
      have := hM.pos b (by simp)
      rw [basesPlus_cons_pos b t this] at h
      simp [basesPlus] at h
    | a :: t, [], hL, _, h, _ =>
      have := hL.pos a (by simp)
      rw [basesPlus_cons_pos a t this] at h
      simp [basesPlus] at h
    | a :: t, b :: r, hL, hM, h, hlen =>
      have ha := hL.pos a (by simp)
      have hb := hM.pos b (by simp)
      rw [basesPlus_cons_pos a t ha, basesPlus_cons_pos b r hb] at h
      have h1 : a.1 = b.1 := (List.cons.inj h).1
      have h2 := (List.cons.inj h).2
      -- compare the rests
      by_cases haa : a.1 + 1 < a.2
      · by_cases hbb : b.1 + 1 < b.2
        · -- both blocks go on
          have hL' : Sep ((a.1 + 1, a.2) :: t) := by
            cases t with
            | nil => exact haa
            | cons c r' => exact ⟨haa, hL.2.1, hL.2.2⟩
          have hM' : Sep ((b.1 + 1, b.2) :: r) := by
            cases r with
            | nil => exact hbb
            | cons c r' => exact ⟨hbb, hM.2.1, hM.2.2⟩
          have hlen' : blocksLen ((a.1 + 1, a.2) :: t) ≤ n := by
            simp only [blocksLen, Blk.len] at hlen ⊢; omega
          have := ih _ _ hlen' hL' hM' h2
          have e1 := (List.cons.inj this).1
          have e2 := (List.cons.inj this).2
          have : a = b := Prod.ext h1 (by have := congrArg Prod.snd e1; simpa using this)
          rw [this, e2]
        · -- b ends here, a goes on: the next position after a.1 is a.1 + 1 on the left, > b.2 on the right
          exfalso
          have hb2 : b.2 = b.1 + 1 := by omega
          have hl : basesPlus ((a.1 + 1, a.2) :: t) = (a.1 + 1) :: basesPlus ((a.1 + 2, a.2) :: t) :=
            basesPlus_cons_pos _ t haa
          have hr0 : basesPlus ((b.1 + 1, b.2) :: r) = basesPlus r := by
            simp [basesPlus, blkAsc, hb2]
          rw [hl, hr0] at h2
          have hmem : a.1 + 1 ∈ basesPlus r := by rw [← h2]; simp
          have := sep_head_min hM (a.1 + 1) hmem
          omega
      · by_cases hbb : b.1 + 1 < b.2
        · exfalso
          have ha2 : a.2 = a.1 + 1 := by omega
          have hr : basesPlus ((b.1 + 1, b.2) :: r) = (b.1 + 1) :: basesPlus ((b.1 + 2, b.2) :: r) :=
            basesPlus_cons_pos _ r hbb
          have hl0 : basesPlus ((a.1 + 1, a.2) :: t) = basesPlus t := by
            simp [basesPlus, blkAsc, ha2]
          rw [hr, hl0] at h2
          have hmem : b.1 + 1 ∈ basesPlus t := by rw [h2]; simp
          have := sep_head_min hL (b.1 + 1) hmem
          omega
        · -- both end here
          have ha2 : a.2 = a.1 + 1 := by omega
          have hb2 : b.2 = b.1 + 1 := by omega
          have hl0 : basesPlus ((a.1 + 1, a.2) :: t) = basesPlus t := by simp [basesPlus, blkAsc, ha2]
          have hr0 : basesPlus ((b.1 + 1, b.2) :: r) = basesPlus r := by simp [basesPlus, blkAsc, hb2]
          rw [hl0, hr0] at h2
          have hlen' : blocksLen t ≤ n := by
            simp only [blocksLen, Blk.len] at hlen ⊢; omega
          have := ih t r hlen' hL.tail hM.tail h2
          have hab : a = b := Prod.ext h1 (by omega)
          rw [hab, this]


/-! ### chunk-down then lift-up is the identity on an interval inside the chunk whose blocks do not touch -/

theorem Sep.pairwise : ∀ {L : List Blk}, Sep L → L.Pairwise (fun a b => a.2 ≤ b.1)
  | [], _ => List.Pairwise.nil
  | [a], _ => by simp
  | a :: b :: rest, h => by
    have ih : (b :: rest).Pairwise (fun a b => a.2 ≤ b.1) := Sep.pairwise h.2.2
    rw [List.pairwise_cons]
    refine ⟨?_, ih⟩
    intro x hx
    rcases List.mem_cons.mp hx with rfl | hx'
    · exact Nat.le_of_lt h.2.1
    · have := (List.pairwise_cons.mp ih).1 x hx'
      have := (Sep.pos h.2.2) b (by simp)
      have := h.2.1
      omega

theorem partsOf_inside (W : List Blk) (w : Blk) (hwl : w.1 < w.2) (hpos : ∀ b ∈ W, b.1 < b.2)
    (hin : ∀ b ∈ W, w.1 ≤ b.1 ∧ b.2 ≤ w.2) : partsOf W w = W := by
  unfold partsOf
  have hf : W.filter (fun b => overlapKernel b w) = W := by
    rw [List.filter_eq_self]
    intro b hb
    have := hin b hb; have := hpos b hb
    exact (Proofs.overlapKernel_iff b w.1 w.2 (hpos b hb) hwl).mpr (by omega)
  rw [hf]
  conv => rhs; rw [← List.map_id W]
  apply List.map_congr_left
  intro b hb
  have := hin b hb; have := hpos b hb
  simp only [Proofs.clip, id]
  exact Prod.ext (by simp; omega) (by simp; omega)

/-- **round trip**: for blocks `W` (at least one, positive, strictly separated) inside the chunk window, on a
    directional strand: `initialize_location` on the chunk answers with a non-empty location on the strand relative
    to the chunk's, and lifting that back to the chromosome gives exactly the blocks `W` on strand `st` -/
theorem liftUp_chunkDown_id (W : List Blk) (st : Strand) (ch : Model.Chunk.Chunk)
    (hw : ch.wst = .plus ∨ ch.wst = .minus) (hst : st = .plus ∨ st = .minus) (hwl : ch.w.1 < ch.w.2)
    (hWne : W ≠ []) (hsep : Sep W) (hin : ∀ b ∈ W, ch.w.1 ≤ b.1 ∧ b.2 ≤ ch.w.2) :
    ∃ crl m, chunkDown (toSingleIfOne ⟨W, st⟩) ch.w ch.wst = .ok crl ∧ crl ≠ .empty ∧
      locationStrand? crl = some (strandRelativeTo st ch.wst) ∧
      liftUp ch crl = .ok m ∧ locationBlocks m = W ∧ locationStrand? m = some st := by
  obtain ⟨w, wst, letters⟩ := ch
  simp only at hw hwl hin ⊢
  have hpos := hsep.pos
  have hpw := hsep.pairwise
  have hparts := partsOf_inside W w hwl hpos hin
  have hPne : partsOf W w ≠ [] := by rw [hparts]; exact hWne
  obtain ⟨crl, hcrl, hcb, hcs, hcwf, _⟩ := chunkDown_rel W st w wst hw hst hwl hpos hpw hPne
  rw [hparts] at hcb
  have hP : InWin w W := fun p hp => ⟨(hin p hp).1, hpos p hp, (hin p hp).2⟩
  obtain ⟨m, hm, hms, hmwf, hmpos, hmpw, hmb⟩ :=
    liftUp_crl w wst hw letters st hst W hWne hP hpw crl hcb hcs hcwf
  obtain ⟨hRpos, _⟩ := relBlocks_props w wst W hP hpw
  have hRne : relBlocks w wst W ≠ [] := relBlocks_ne_nil w wst W hWne
  have hce : crl ≠ .empty := by
    intro h; rw [h] at hcb; exact hRne (by simpa [locationBlocks] using hcb.symm)
  refine ⟨crl, m, hcrl, hce, hcs, hm, ?_, hms⟩
  -- the answer is in normal form
  have hlen : 0 < locLen crl := by
    rw [Lift.locLen_eq, hcb]
    cases hR : relBlocks w wst W with
    | nil => exact absurd hR hRne
    | cons a t =>
      have := (hRpos a (by rw [hR]; simp)).1
      simp only [blocksLen, Blk.len]; omega
  have hwsu : wst ≠ .unstranded := by rcases hw with h | h <;> simp [h]
  have hlift : liftOnce crl (.single w wst) = .ok m := by
    have : (crl == .empty) = false := by
      rw [Bool.eq_false_iff]; intro h; exact hce (by simpa using h)
    unfold liftUp at hm
    rw [this] at hm
    exact hm
  have hnd : (basesPlus (locationBlocks m)).Nodup := nodup_of_asc _ (asc_basesPlus _ hmpw)
  have hnorm := liftOnce_normal crl w wst (Nat.le_of_lt hwl) hwsu hce hlen
    (by
      intro b hb _
      rw [hcb] at hb
      have : (⟨[w], wst⟩ : Loc).len = w.2 - w.1 := by simp [Loc.len, blocksLen, Blk.len]
      rw [this]; exact (hRpos b hb).2)
    m hlift hnd
  have hsepm : Sep (locationBlocks m) := sep_of _ hmpos hmpw hnorm
  -- same positions
  have hbases : basesPlus (locationBlocks m) = basesPlus W := by
    have h1 : (basesPlus (locationBlocks m)).Perm (basesPlus W) := by
      have e1 := Lift.locationBases_eq m st hms
      have p1 := Lift.bases_perm_basesPlus (locationBlocks m) st
      have p2 := Lift.bases_perm_basesPlus W st
      rw [← e1, hmb] at p1
      exact p1.symm.trans p2
    exact eq_of_perm_asc h1 (asc_basesPlus _ hmpw) (asc_basesPlus _ hpw)
  exact sep_ext _ _ _ (Nat.le_refl _) hsepm hsep hbases


/-! ### the chunk-relative constructors re-create the description they were given -/

/-- blocks the chunk-relative constructors are handed: at least one, of positive length, strictly separated, inside
    the chunk window -/
def AltBlocks (bs : List Blk) (ch : Model.Chunk.Chunk) : Prop :=
  bs ≠ [] ∧ Sep bs ∧ ∀ b ∈ bs, ch.w.1 ≤ b.1 ∧ b.2 ≤ ch.w.2

/-- a directional chunk that holds a base -/
def ChunkOk (ch : Model.Chunk.Chunk) : Prop := (ch.wst = .plus ∨ ch.wst = .minus) ∧ ch.w.1 < ch.w.2

theorem initLoc_sep (bs : List Blk) (st : Strand) (hne : bs ≠ []) (hsep : Sep bs) :
    initLoc bs st = toSingleIfOne ⟨bs, st⟩ := by
  match bs, hne, hsep with
  | [b], _, _ => rfl
  | a :: b :: r, _, hsep =>
    rw [initLoc_ascending a b r st (fst_lt_of_asc _ hsep.pairwise hsep.pos)]
    rfl

theorem validBlocks_of_sep (bs : List Blk) (hne : bs ≠ []) (hsep : Sep bs) : ValidBlocks bs :=
  ⟨hne, fun b hb => Nat.le_of_lt (hsep.pos b hb)⟩

/-- the location handed to a chunk-relative constructor, and its lift back: exactly the blocks and the strand -/
theorem handed_roundtrip (bs : List Blk) (st : Strand) (ch : Model.Chunk.Chunk) (hch : ChunkOk ch)
    (hst : st = .plus ∨ st = .minus) (hb : AltBlocks bs ch) :
    ∃ l m, handedLocation bs st ch = .ok l ∧ liftToChromosome ch l = .ok m ∧
      locStrand l = .ok (strandRelativeTo st ch.wst) ∧ locBlocks m = bs ∧ locStrand m = .ok st := by
  obtain ⟨hne, hsep, hin⟩ := hb
  obtain ⟨crl, m, hcrl, hce, hcs, hm, hmb, hms⟩ := liftUp_chunkDown_id bs st ch hch.1 hst hch.2 hne hsep hin
  refine ⟨crl, m, ?_, ?_, ?_, ?_, ?_⟩
  · unfold handedLocation initializeLocation
    rw [initialLocation_ok bs st (validBlocks_of_sep bs hne hsep)]
    simp only [bind, Except.bind, locate]
    rw [initLoc_sep bs st hne hsep]
    exact hcrl
  · unfold liftToChromosome
    have : (crl == .empty) = false := by
      rw [Bool.eq_false_iff]; intro h; exact hce (by simpa using h)
    rw [this]
    exact hm
  · cases crl with
    | empty => exact absurd rfl hce
    | single b s => simp only [locationStrand?, Option.some.injEq] at hcs; subst hcs; rfl
    | compound c => simp only [locationStrand?, Option.some.injEq] at hcs; simp [locStrand, hcs]; rfl
  · rw [Lift.locBlocks_eq]; exact hmb
  · cases m with
    | empty => simp [locationStrand?] at hms
    | single b s => simp only [locationStrand?, Option.some.injEq] at hms; subst hms; rfl
    | compound c => simp only [locationStrand?, Option.some.injEq] at hms; simp [locStrand, hms]; rfl

theorem zip_fst_snd {α β} : ∀ (l : List (α × β)), (l.map (·.1)).zip (l.map (·.2)) = l
  | [] => rfl
  | x :: xs => by simp [zip_fst_snd xs]

/-- **FeatureInterval.from_chunk_relative_location** on a chunk of the PLUS strand: the ordinary constructor
    receives the description the location was written from -/
theorem feat_fromChunkRelative (f : FeatD) (ch : Model.Chunk.Chunk) (hch : ChunkOk ch) (hplus : ch.wst = .plus)
    (hst : f.st = .plus ∨ f.st = .minus) (hb : AltBlocks f.blocks ch) :
    descFromChunkRelative (.feat f) ch = .ok (.feat f) := by
  obtain ⟨l, m, hl, hm, hls, hmb, _⟩ := handed_roundtrip f.blocks f.st ch hch hst hb
  have hrel : strandRelativeTo f.st ch.wst = f.st := by
    rw [hplus]; rcases hst with h | h <;> simp [h, strandRelativeTo]
  simp only [descFromChunkRelative, hl, hm, hls, hmb, hrel, bind, Except.bind, pure, Except.pure]

/-- **CDSInterval.from_chunk_relative_location** on a chunk of either strand -/
theorem cdsDesc_fromChunkRelative (x : CdsD) (ch : Model.Chunk.Chunk) (hch : ChunkOk ch)
    (hst : x.st = .plus ∨ x.st = .minus) (hb : AltBlocks (x.exons.map (·.1)) ch) :
    ∃ l, handedLocation (x.exons.map (·.1)) x.st ch = .ok l ∧
      cdsDescFromChunkRelative ch l (x.exons.map (·.2)) = .ok x := by
  obtain ⟨l, m, hl, hm, _, hmb, hms⟩ := handed_roundtrip (x.exons.map (·.1)) x.st ch hch hst hb
  refine ⟨l, hl, ?_⟩
  simp only [cdsDescFromChunkRelative, hm, hms, hmb, zipFrames, List.length_map, ne_eq, not_true, if_false,
    bind, Except.bind, pure, Except.pure, zip_fst_snd]

theorem cds_fromChunkRelative (x : CdsD) (ch : Model.Chunk.Chunk) (hch : ChunkOk ch)
    (hst : x.st = .plus ∨ x.st = .minus) (hb : AltBlocks (x.exons.map (·.1)) ch) :
    descFromChunkRelative (.cds x) ch = .ok (.cds x) := by
  obtain ⟨l, hl, hx⟩ := cdsDesc_fromChunkRelative x ch hch hst hb
  simp only [descFromChunkRelative, hl, hx, bind, Except.bind, pure, Except.pure]

/-- `CDSFrame(v).value = v` for the values the constructor accepts -/
theorem framesOf_values : ∀ (vals : List Nat) (fs : List CDSFrame), framesOf vals = .ok fs → fs.map frameNat = vals := by
  intro vals
  induction vals with
  | nil =>
    intro fs h
    simp [framesOf, List.mapM_nil, pure, Except.pure] at h
    subst h; rfl
  | cons v vs ih =>
    intro fs h
    unfold framesOf at h ih
    rw [List.mapM_cons] at h
    obtain ⟨f, hf, h⟩ := bind_ok_inv h
    obtain ⟨fs', hfs', h⟩ := bind_ok_inv h
    simp only [pure, Except.pure, Except.ok.injEq] at h
    subst h
    have hv : frameNat f = v := by
      match v, hf with
      | 0, hf => simp [GenP.frameOfInt, liftPy] at hf; subst hf; rfl
      | 1, hf => simp [GenP.frameOfInt, liftPy] at hf; subst hf; rfl
      | 2, hf => simp [GenP.frameOfInt, liftPy] at hf; subst hf; rfl
      | n + 3, hf =>
        exfalso
        simp only [Int.ofNat_eq_natCast, GenP.frameOfInt] at hf
        rw [if_neg (by omega), if_neg (by omega), if_neg (by omega), if_neg (by omega)] at hf
        simp [liftPy] at hf
    simp [hv, ih fs' hfs']

/-- the constructor stores the frames it was given -/
theorem mkCDS_frames (exons : List Blk) (st : Strand) (fs : List CDSFrame) (seq : Option (List Char)) (c : CDS)
    (h : mkCDS exons st (.frames fs) seq = .ok c) : c.frames = fs := by
  unfold mkCDS at h
  simp only [bind, Except.bind, pure, Except.pure, throw, throwThe, MonadExceptOf.throw] at h
  repeat' split at h
  all_goals first | (cases h; rfl) | (cases h; done) | skip

/-- **TranscriptInterval.from_chunk_relative_location** (with the CDS object `CDSInterval.from_chunk_relative_location`
    builds) on a chunk of either strand.  `hk`: the CDS constructor accepts the CDS part (frame values 0-2, …). -/
theorem tx_fromChunkRelative (t : TxD) (ch : Model.Chunk.Chunk) (hch : ChunkOk ch)
    (hst : t.st = .plus ∨ t.st = .minus) (hb : AltBlocks t.exons ch)
    (hc : t.cds ≠ [] → AltBlocks (t.cds.map (·.1)) ch ∧ ∃ k, mkChunkCDS t.cdsD ch = .ok k) :
    descFromChunkRelative (.tx t) ch = .ok (.tx t) := by
  obtain ⟨l, m, hl, hm, _, hmb, hms⟩ := handed_roundtrip t.exons t.st ch hch hst hb
  by_cases hcds : t.cds = []
  · have he : t.cds.isEmpty = true := by simp [hcds]
    simp only [descFromChunkRelative, hl, he, txDescFromChunkRelative, hm, hms, hmb, if_true, bind, Except.bind, pure,
      Except.pure]
    cases t; simp_all
  · obtain ⟨hcb, k, hk⟩ := hc hcds
    have he : t.cds.isEmpty = false := by simpa using hcds
    obtain ⟨cl, hcl, hx⟩ := cdsDesc_fromChunkRelative t.cdsD ch hch hst hcb
    obtain ⟨cl', cm, hcl', hcm, _, hcmb, _⟩ := handed_roundtrip (t.cds.map (·.1)) t.st ch hch hst hcb
    have hcl_eq : cl = cl' := by
      have : handedLocation (t.cdsD.exons.map (·.1)) t.cdsD.st ch = handedLocation (t.cds.map (·.1)) t.st ch := rfl
      rw [this] at hcl; rw [hcl] at hcl'; exact Except.ok.inj hcl'
    subst hcl_eq
    -- what the CDS object holds
    have hkparts : k.location = cl ∧ k.base.frames.map frameNat = t.cds.map (·.2) := by
      unfold mkChunkCDS at hk
      obtain ⟨loc, hloc, hk⟩ := bind_ok_inv hk
      obtain ⟨fs, hfs, hk⟩ := bind_ok_inv hk
      obtain ⟨base, hbase, hk⟩ := bind_ok_inv hk
      simp only [pure, Except.pure, Except.ok.injEq] at hk
      subst hk
      have h1 : loc = cl := by
        have : initializeLocation (t.cdsD.exons.map (·.1)) t.cdsD.st (.chunk ch) = handedLocation (t.cds.map (·.1)) t.st ch := rfl
        rw [this, hcl'] at hloc; exact (Except.ok.inj hloc).symm
      refine ⟨h1, ?_⟩
      have hfr : base.frames = fs := mkCDS_frames _ _ _ _ _ hbase
      rw [hfr]
      exact framesOf_values _ fs hfs
    have hkc : cdsFromChunkRelative ch cl (t.cds.map (·.2)) = .ok k := by
      unfold cdsFromChunkRelative
      have : cdsDescFromChunkRelative ch cl (t.cds.map (·.2)) = .ok t.cdsD := hx
      simp only [this, bind, Except.bind]
      exact hk
    have hkne : (k.location == Location.empty) = false := by
      rw [hkparts.1]
      unfold liftToChromosome at hcm
      cases hbe : (cl == Location.empty) with
      | false => rfl
      | true => rw [hbe] at hcm; simp [throw, throwThe, MonadExceptOf.throw] at hcm
    have hcm' : liftToChromosome ch k.location = .ok cm := by rw [hkparts.1]; exact hcm
    simp only [descFromChunkRelative, hl, he, hcl', hkc, txDescFromChunkRelative, hm, hms, hmb, hcm', hcmb, hkparts.2,
      zipFrames, List.length_map, ne_eq, not_true, if_false, bind, Except.bind, pure, Except.pure, zip_fst_snd,
      Bool.false_eq_true]


/-! ### `to_dict()` → `from_dict(vals, parent)`: the constructor receives the description again -/

theorem reDictFeat_id (f : FeatD) : reDictFeat f = f := by
  cases f; simp [reDictFeat, zip_fst_snd]

theorem reDictCds_id (ex : List (Blk × Nat)) : reDictCds ex = ex := by
  induction ex with
  | nil => rfl
  | cons x xs ih =>
    simp only [reDictCds, List.map_cons, List.zip_cons_cons] at ih ⊢
    rw [ih]

theorem reDictCdsD_id (x : CdsD) : reDictCdsD x = x := by
  cases x; simp [reDictCdsD, reDictCds_id]

theorem reDictTx_id (t : TxD) : reDictTx t = t := by
  cases t with
  | mk st exons cds =>
    simp only [reDictTx, zip_fst_snd, reDictCds_id]
    cases cds <;> simp

theorem map_id_of {α} (f : α → α) (h : ∀ x, f x = x) (l : List α) : l.map f = l := by
  induction l with
  | nil => rfl
  | cons x xs ih => simp [h x, ih]

theorem reDictGene_id (g : GeneD) : reDictGene g = g := by
  cases g; simp [reDictGene, map_id_of _ reDictTx_id]

theorem reDictFic_id (q : FicD) : reDictFic q = q := by
  cases q; simp [reDictFic, map_id_of _ reDictFeat_id]

/-- the root node of an AnnotationCollection carries its bounds -/
theorem mkAc_root (a : AcD) (p : Par) (ns : List Node) (h : mkAc a p = .ok ns) (b : Blk) (hb : a.bounds = some b) :
    ∃ n, ns.head? = some n ∧ n.start = b.1 ∧ n.«end» = b.2 := by
  unfold mkAc at h
  obtain ⟨genes, _, h⟩ := bind_ok_inv h
  obtain ⟨fics, _, h⟩ := bind_ok_inv h
  simp only [hb] at h
  obtain ⟨loc, _, h⟩ := bind_ok_inv h
  simp only [pure, Except.pure, Except.ok.injEq] at h
  subst h
  exact ⟨_, rfl, rfl, rfl⟩

/-- `reDict` is the identity on every description whose bounds (if it is an AnnotationCollection) are explicit -/
theorem reDict_id (d : Desc) (src : Par) (a : List Node) (ha : buildNodes d src = .ok a)
    (hb : ∀ ac, d = .ac ac → ac.bounds ≠ none) : reDict d a.head? = d := by
  cases d with
  | feat f => simp [reDict, reDictFeat_id]
  | tx t => simp [reDict, reDictTx_id]
  | cds x => simp [reDict, reDictCdsD_id]
  | gene g => simp [reDict, reDictGene_id]
  | fic q => simp [reDict, reDictFic_id]
  | ac ac =>
    cases hbd : ac.bounds with
    | none => exact absurd hbd (hb ac rfl)
    | some b =>
      obtain ⟨n, hn, hs, he⟩ := mkAc_root ac src a (by simpa [buildNodes] using ha) b hbd
      cases ac with
      | mk genes fics bounds =>
        simp only at hbd
        subst hbd
        simp only [reDict, hn, hs, he, map_id_of _ reDictGene_id, map_id_of _ reDictFic_id]

/-- **`from_dict(o.to_dict(), parent_or_seq_chunk_parent=p)`** (hence `liftover_to_parent_or_seq_chunk_parent(p)`)
    of an object `o` built on ANY parent `src` is the ordinary construction on `p` -/
theorem viaDict_eq (d : Desc) (src p : Par) (hsrc : ∃ a, buildNodes d src = .ok a)
    (hb : ∀ ac, d = .ac ac → ac.bounds ≠ none) : viaDict d src p = buildNodes d p := by
  obtain ⟨a, ha⟩ := hsrc
  unfold viaDict
  simp only [ha, bind, Except.bind]
  rw [reDict_id d src a ha hb]

/-! ### the chromosome-level codon answers of a chunk-built CDS do not depend on the chunk -/

theorem mkChunkCDS_base (x : CdsD) (ch ch' : Model.Chunk.Chunk) (k k' : ChunkCDS)
    (hk : mkChunkCDS x ch = .ok k) (hk' : mkChunkCDS x ch' = .ok k') : k.base = k'.base := by
  unfold mkChunkCDS at hk hk'
  obtain ⟨_, _, hk⟩ := bind_ok_inv hk
  obtain ⟨fs, hfs, hk⟩ := bind_ok_inv hk
  obtain ⟨c, hc, hk⟩ := bind_ok_inv hk
  obtain ⟨_, _, hk'⟩ := bind_ok_inv hk'
  obtain ⟨fs', hfs', hk'⟩ := bind_ok_inv hk'
  obtain ⟨c', hc', hk'⟩ := bind_ok_inv hk'
  rw [hfs] at hfs'
  cases hfs'
  rw [hc] at hc'
  cases hc'
  cases hk
  cases hk'
  rfl


/-! ### all chunk-relative constructors at once -/

/-- the inputs of `from_chunk_relative_location`: a feature / CDS / transcript on a directional strand whose blocks
    (exons and CDS blocks) lie inside the chunk and do not touch; a coding transcript's CDS part is accepted by the
    CDS constructor.  The FEATURE constructor additionally needs a chunk on the plus strand (F-C07e). -/
def AltDesc (d : Desc) (ch : Model.Chunk.Chunk) : Prop :=
  match d with
  | .feat f => (f.st = .plus ∨ f.st = .minus) ∧ AltBlocks f.blocks ch ∧ ch.wst = .plus
  | .cds x => (x.st = .plus ∨ x.st = .minus) ∧ AltBlocks (x.exons.map (·.1)) ch
  | .tx t => (t.st = .plus ∨ t.st = .minus) ∧ AltBlocks t.exons ch ∧
      (t.cds ≠ [] → AltBlocks (t.cds.map (·.1)) ch ∧ ∃ k, mkChunkCDS t.cdsD ch = .ok k)
  | _ => False

theorem descFromChunkRelative_id (d : Desc) (ch : Model.Chunk.Chunk) (hch : ChunkOk ch) (hd : AltDesc d ch) :
    descFromChunkRelative d ch = .ok d := by
  cases d with
  | feat f => exact feat_fromChunkRelative f ch hch hd.2.2 hd.1 hd.2.1
  | cds x => exact cds_fromChunkRelative x ch hch hd.1 hd.2
  | tx t => exact tx_fromChunkRelative t ch hch hd.1 hd.2.1 hd.2.2
  | gene _ => exact absurd hd id
  | fic _ => exact absurd hd id
  | ac _ => exact absurd hd id


end BioCantor.Proofs.Chunk
