/-
  C12 — towards T2: the records the writer model produces for a gene with ONE transcript form one chain carrying the
  gene's (effective) locus tag; hence (T3) the three parser strategies regroup a written collection gene by gene.
-/
import BioCantor.Proofs.GbWriteFc
import BioCantor.Proofs.GbModes
namespace BioCantor.Proofs.Gb
open BioCantor BioCantor.Spec.Qual BioCantor.Spec.Gb BioCantor.Model.Gb

/-! ### `dict.get` of the parser model on the writer's dictionaries -/

theorem qGet_dictSet_same (d : QDict) (k : Str) (vs : List Str) : qGet k (dictSet d k vs) = some vs := by
  induction d with
  | nil => simp [dictSet, qGet]
  | cons e es ih =>
    simp only [dictSet]
    split
    · next h => simp [qGet, h]
    · next h => simp [qGet, h, ih]

theorem qGet_dictSet_other (d : QDict) (k k' : Str) (vs : List Str) (h : k' ≠ k) :
    qGet k' (dictSet d k vs) = qGet k' d := by
  induction d with
  | nil => simp [dictSet, qGet, Ne.symm h]
  | cons e es ih =>
    simp only [dictSet]
    split
    · next he => simp [qGet, he, Ne.symm h]
    · next he =>
      by_cases hk : e.1 = k'
      · simp [qGet, hk]
      · simp [qGet, hk, ih]

theorem qGet_dictDel_other (d : QDict) (k k' : Str) (h : k' ≠ k) : qGet k' (dictDel d k) = qGet k' d := by
  induction d with
  | nil => simp [dictDel, qGet]
  | cons e es ih =>
    have ih' : qGet k' (List.filter (fun e => decide (e.1 ≠ k)) es) = qGet k' es := ih
    show qGet k' (List.filter (fun e => decide (e.1 ≠ k)) (e :: es)) = qGet k' (e :: es)
    rw [List.filter_cons]
    by_cases he : e.1 = k
    · have hk : ¬ e.1 = k' := by rw [he]; exact Ne.symm h
      have hd : decide (e.1 ≠ k) = false := by simp [he]
      rw [hd]
      simp only [Bool.false_eq_true, if_false, qGet, hk]
      exact ih'
    · have hd : decide (e.1 ≠ k) = true := by simp [he]
      rw [hd]
      simp only [if_true, qGet]
      by_cases hk : e.1 = k'
      · simp [hk]
      · simp only [hk, if_false]; exact ih'

theorem qGet_txBase_tag (q0 : QDict) (sym : Option Str) (t : Str) :
    qGet Model.Gb.kLocusTag (txBaseQuals q0 sym (some t)) = some [t] := by
  unfold txBaseQuals
  exact qGet_dictSet_same _ _ _

theorem tagOf_of_qGet (r : Rec) (t : Str) (h : qGet Model.Gb.kLocusTag r.quals = some [t]) :
    Model.Gb.tagOf r = .ok t := by
  unfold Model.Gb.tagOf
  rw [h]
  rfl

/-! ### the records of one transcript -/

theorem txFeatureType_cases (t : Tx) :
    txFeatureType t = sMRNA ∨ nonCodingTypes.contains (txFeatureType t) = true := by
  unfold txFeatureType
  have hmisc : nonCodingTypes.contains sMiscRNA = true := by decide
  cases (set? t.txType).map canonBiotype with
  | none =>
    simp only []
    split
    · exact Or.inl rfl
    · exact Or.inr hmisc
  | some n =>
    simp only []
    split
    · next h => exact Or.inr h
    · split
      · exact Or.inl rfl
      · exact Or.inr hmisc

theorem txRecord_tag (cfg : Cfg) (t : Tx) (ft : Str) (strand : Strand) (q0 : QDict) (sym : Option Str) (tag : Str) :
    Model.Gb.tagOf (txRecord cfg t ft strand (txBaseQuals q0 sym (some tag))) = .ok tag := by
  apply tagOf_of_qGet
  simp only [txRecord]
  rw [qGet_dictDel_other _ _ _ (by decide), qGet_dictDel_other _ _ _ (by decide)]
  exact qGet_txBase_tag _ _ _

theorem cdsRecord_tag (cfg : Cfg) (seq : Option Str) (t : Tx) (strand : Strand) (q0 : QDict) (sym : Option Str)
    (tag : Str) (c : Rec) (hc : addCdsFeature cfg seq t (txBaseQuals q0 sym (some tag)) strand = .ok c) :
    Model.Gb.tagOf c = .ok tag ∧ c.type = tyCDS := by
  have hbase : qGet Model.Gb.kLocusTag (cdsBaseQuals cfg t (txBaseQuals q0 sym (some tag))) = some [tag] := by
    unfold cdsBaseQuals
    split
    · rw [qGet_dictSet_other _ _ _ _ (by decide)]; exact qGet_txBase_tag _ _ _
    · exact qGet_txBase_tag _ _ _
  rcases addCds_shape cfg seq t _ strand c hc with rfl | ⟨p, _, _, rfl⟩
  · exact ⟨tagOf_of_qGet _ _ hbase, rfl⟩
  · refine ⟨tagOf_of_qGet _ _ ?_, rfl⟩
    simp only [cdsRecord]
    rw [qGet_dictSet_other _ _ _ _ (by decide)]
    exact hbase

/-- the records written for ONE transcript after the gene record: mRNA/CDS records, or one non-coding transcript -/
theorem transcript_records_chainRest (cfg : Cfg) (seq : Option Str) (strand : Strand) (sym : Option Str) (tag : Str)
    (t : Tx) (rt : List Rec) (h : transcriptToFeatures cfg seq strand sym (some tag) t = .ok rt)
    (hs : t.strand = strand) : ChainRest rt ∧ ∀ r ∈ rt, Model.Gb.tagOf r = .ok tag := by
  obtain ⟨q0, _, hcases⟩ := transcriptToFeatures_shape cfg seq strand sym (some tag) t rt h hs
  rcases hcases with ⟨_, _, c, hc, rfl⟩ | ⟨hft, _, c, hc, rfl⟩ | ⟨hft, rfl⟩
  · obtain ⟨htag, hty⟩ := cdsRecord_tag cfg seq t strand q0 sym tag c hc
    refine ⟨Or.inl ?_, ?_⟩
    · intro r hr; simp only [List.mem_singleton] at hr; rw [hr]; exact Or.inr hty
    · intro r hr; simp only [List.mem_singleton] at hr; rw [hr]; exact htag
  · obtain ⟨htag, hty⟩ := cdsRecord_tag cfg seq t strand q0 sym tag c hc
    refine ⟨Or.inl ?_, ?_⟩
    · intro r hr
      simp only [List.mem_cons, List.not_mem_nil, or_false] at hr
      rcases hr with rfl | rfl
      · exact Or.inl hft
      · exact Or.inr hty
    · intro r hr
      simp only [List.mem_cons, List.not_mem_nil, or_false] at hr
      rcases hr with rfl | rfl
      · exact txRecord_tag _ _ _ _ _ _ _
      · exact htag
  · refine ⟨Or.inr ⟨_, rfl, ?_⟩, ?_⟩
    · rcases txFeatureType_cases t with h1 | h1
      · exact absurd h1 hft
      · exact h1
    · intro r hr; simp only [List.mem_singleton] at hr; rw [hr]; exact txRecord_tag _ _ _ _ _ _ _

/-- **the records of a single-transcript gene form one chain carrying the gene's effective locus tag** -/
theorem gene_records_chain (cfg : Cfg) (seq : Option Str) (g : Gene) (ri : List Rec)
    (h : geneToFeatures cfg seq g = .ok ri) (hwf : geneWF g = true) (t : Tx) (ht : g.txs = [t]) (tag : Str)
    (htag : geneTagOf g = some tag) : IsChain ri ∧ ∀ r ∈ ri, Model.Gb.tagOf r = .ok tag := by
  obtain ⟨strand, bounds, q0, rest, hm, _, _, hmap, rfl⟩ := geneToFeatures_shape cfg seq g ri h
  have hstrand : t.strand = strand := by
    have := majority_of_geneWF g hwf t (by rw [ht]; exact List.mem_cons_self)
    rw [hm] at this
    exact (Option.some.inj this).symm
  rw [ht, htag] at hmap
  obtain ⟨rt, rest', hrt, hrest', rfl⟩ := mapMR_cons_ok _ _ _ _ hmap
  have := mapMR_nil_ok _ _ hrest'
  subst this
  obtain ⟨hcr, htags⟩ := transcript_records_chainRest cfg seq strand _ tag t rt hrt hstrand
  have hflat : [rt].flatten = rt := by simp
  rw [hflat]
  refine ⟨⟨by simp, ?_, ?_⟩, ?_⟩
  · intro g' hg'
    simp only [List.head?_cons, Option.some.injEq] at hg'
    subst hg'
    rfl
  · simpa using hcr
  · intro r hr
    rcases List.mem_cons.mp hr with rfl | hr
    · apply tagOf_of_qGet
      simp only [geneRecord]
      rw [htag]
      exact qGet_txBase_tag _ _ _
    · exact htags r hr

end BioCantor.Proofs.Gb

namespace BioCantor.Proofs.Gb
open BioCantor BioCantor.Spec.Qual BioCantor.Spec.Gb BioCantor.Model.Gb

/-- a gene of the round-trip claim: well-formed, ONE transcript, an effective locus tag -/
def GeneItemOK (it : Item) : Prop :=
  ∃ g t tag, it = .gene g ∧ geneWF g = true ∧ g.txs = [t] ∧ geneTagOf g = some tag

def itemTag : Item → Option Str
  | .gene g => geneTagOf g
  | .fcoll _ => none

theorem items_chains (cfg : Cfg) (seq : Option Str) : ∀ (l : List Item) (rss : List (List Rec)),
    (∀ it ∈ l, GeneItemOK it) → mapMR (itemToFeatures cfg seq) l = .ok rss →
    ∃ tch : List (Str × List Rec), rss = tch.map (·.2) ∧ (∀ p ∈ tch, IsChain p.2) ∧
      (∀ p ∈ tch, ∀ r ∈ p.2, Model.Gb.tagOf r = .ok p.1) ∧ tch.map (·.1) = l.filterMap itemTag
  | [], rss, _, h => by
    have := mapMR_nil_ok _ _ h
    subst this
    exact ⟨[], rfl, by simp, by simp, rfl⟩
  | it :: l, rss, hall, h => by
    obtain ⟨ri, rest, hri, hrest, rfl⟩ := mapMR_cons_ok _ _ _ _ h
    obtain ⟨tch, rfl, hch, htg, hmap⟩ := items_chains cfg seq l rest
      (fun x hx => hall x (List.mem_cons_of_mem _ hx)) hrest
    obtain ⟨g, t, tag, rfl, hwf, ht, htag⟩ := hall it List.mem_cons_self
    obtain ⟨hc, htags⟩ := gene_records_chain cfg seq g ri hri hwf t ht tag htag
    refine ⟨(tag, ri) :: tch, rfl, ?_, ?_, ?_⟩
    · intro p hp
      rcases List.mem_cons.mp hp with rfl | hp
      · exact hc
      · exact hch p hp
    · intro p hp
      rcases List.mem_cons.mp hp with rfl | hp
      · exact htags
      · exact htg p hp
    · simp only [List.map_cons, List.filterMap_cons, itemTag, htag, hmap]

/-- the written collection is a list of tagged chains, one per gene, in the collection's iteration order -/
theorem written_collection_chains (cfg : Cfg) (c : Coll) (rs : List Rec) (hw : writeModel cfg c = .ok rs)
    (hall : ∀ it ∈ c.items, GeneItemOK it) :
    ∃ tch : List (Str × List Rec), rs = recsOf tch ∧ (∀ p ∈ tch, IsChain p.2) ∧
      (∀ p ∈ tch, ∀ r ∈ p.2, Model.Gb.tagOf r = .ok p.1) ∧ tch.map (·.1) = (childrenOf c).filterMap itemTag := by
  unfold writeModel at hw
  split at hw
  · exact absurd hw (by simp)
  · split at hw
    · exact absurd hw (by simp)
    · next rss hm =>
      simp only [Except.ok.injEq] at hw
      subst hw
      obtain ⟨tch, rfl, h1, h2, h3⟩ := items_chains cfg c.seq (childrenOf c) rss
        (fun it hit => hall it ((mem_childrenOf c it).mp hit)) hm
      exact ⟨tch, rfl, h1, h2, h3⟩

/-- **T2, grouping part**: a written collection of single-transcript genes whose effective locus tags increase along
    the file, whose records all pass `validate_seqfeature` and which is a fixed point of the parser's position sort, is
    regrouped gene by gene — identically by the three strategies. -/
theorem written_collection_regrouped (cfg : Cfg) (c : Coll) (rs : List Rec) (hw : writeModel cfg c = .ok rs)
    (hall : ∀ it ∈ c.items, GeneItemOK it)
    (hasc : ((childrenOf c).filterMap itemTag).Pairwise (fun a b => strLt a b = true))
    (hvalid : ∀ r ∈ rs, validFeature r = true) (hsorted : sortByPositionAndType rs = rs) (m : Mode) :
    ∃ tch : List (Str × List Rec), rs = recsOf tch ∧ tch.length = c.items.length ∧
      extract m rs = .ok ⟨chainGroups tch, 0⟩ := by
  obtain ⟨tch, rfl, h1, h2, h3⟩ := written_collection_chains cfg c rs hw hall
  have hlen : tch.length = c.items.length := by
    have : (tch.map (·.1)).length = ((childrenOf c).filterMap itemTag).length := by rw [h3]
    rw [List.length_map] at this
    rw [this]
    have hfm : ∀ (l : List Item), (∀ it ∈ l, GeneItemOK it) → (l.filterMap itemTag).length = l.length := by
      intro l hl
      induction l with
      | nil => rfl
      | cons it l ih =>
        obtain ⟨g, t, tag, rfl, _, _, htag⟩ := hl _ List.mem_cons_self
        simp only [List.filterMap_cons, itemTag, htag, List.length_cons]
        rw [ih (fun x hx => hl x (List.mem_cons_of_mem _ hx))]
    rw [hfm _ (fun it hit => hall it ((mem_childrenOf c it).mp hit))]
    unfold childrenOf
    rw [List.length_mergeSort, List.length_append]
    have : ∀ (l : List Item), (∀ it ∈ l, GeneItemOK it) →
        (l.filter fun | .gene _ => true | _ => false).length + (l.filter fun | .fcoll _ => true | _ => false).length
          = l.length := by
      intro l hl
      induction l with
      | nil => rfl
      | cons it l ih =>
        obtain ⟨g, _, _, rfl, _⟩ := hl _ List.mem_cons_self
        simp only [List.filter_cons, if_true, List.length_cons]
        have := ih (fun x hx => hl x (List.mem_cons_of_mem _ hx))
        simp only [Bool.false_eq_true, if_false]
        omega
    exact this c.items hall
  exact ⟨tch, rfl, hlen, extract_modes_agree tch ⟨⟨h1, h2, by rw [h3]; exact hasc⟩, hvalid, hsorted⟩ m⟩

end BioCantor.Proofs.Gb
