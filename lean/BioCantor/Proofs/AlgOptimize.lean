/-
  `_combine_blocks` + `_to_single_interval_if_one_block` (`Model.optimizeLoc`) in closed form, for both modes
  (`preserve = true`: optimize_blocks, `preserve = false`: optimize_and_combine_blocks), and what every caller
  needs to know about the result (`OptSpec`).  Also: small facts about `withPar` / `resultOk`.
-/
import BioCantor.Proofs.AlgBasics
namespace BioCantor.Proofs
open BioCantor BioCantor.Spec BioCantor.Model

/-! ### accumulator-free description of `combineLoop false` -/

/-- `combF c bs`: `c` is the block being extended, `bs` the blocks still to be read (merge when `c.2 ≥ b.1`). -/
def combF : Blk → List Blk → List Blk
  | c, [] => [c]
  | c, b :: bs =>
    if b.2 - b.1 = 0 then combF c bs
    else if c.2 ≥ b.1 then combF (c.1, max c.2 b.2) bs
    else c :: combF b bs

def combFStart : List Blk → List Blk
  | [] => []
  | b :: bs => if b.2 - b.1 = 0 then combFStart bs else combF b bs

theorem combineLoopF_cons (bs : List Blk) (c : Blk) (tl : List Blk) (nd : Bool) :
    (combineLoop false bs (some c.2) (c :: tl) nd).1 = tl.reverse ++ combF c bs := by
  induction bs generalizing c tl nd with
  | nil => simp [combineLoop, combF]
  | cons b bs ih =>
    unfold combineLoop combF
    by_cases h0 : b.2 - b.1 = 0
    · simp only [h0, if_true]
      exact ih c tl true
    · simp only [h0, if_false]
      by_cases h1 : c.2 ≥ b.1
      · simp only [h1, if_true, Bool.false_eq_true, if_false]
        have := ih (c.1, max c.2 b.2) tl true
        simpa using this
      · simp only [h1, if_false, Bool.false_eq_true]
        have := ih b (c :: tl) nd
        simpa using this

theorem combineLoopF_nil (bs : List Blk) (cur : Option Nat) (nd : Bool) :
    (combineLoop false bs cur [] nd).1 = combFStart bs := by
  induction bs generalizing cur nd with
  | nil => simp [combineLoop, combFStart]
  | cons b bs ih =>
    unfold combineLoop combFStart
    by_cases h0 : b.2 - b.1 = 0
    · simp only [h0, if_true]
      exact ih cur true
    · simp only [h0, if_false]
      have := combineLoopF_cons bs b [] nd
      cases cur <;> simpa using this

/-! ### `combF` on blocks sorted by start -/

theorem combF_head (c : Blk) (bs : List Blk) (hc : c.1 < c.2) :
    ∃ e rest, combF c bs = (c.1, e) :: rest ∧ c.1 < e := by
  induction bs generalizing c with
  | nil => exact ⟨c.2, [], rfl, hc⟩
  | cons b bs ih =>
    unfold combF
    split
    · exact ih c hc
    · split
      · have := ih (c.1, max c.2 b.2) (by simp; omega)
        simpa using this
      · exact ⟨c.2, _, rfl, hc⟩

theorem combF_sep (c : Blk) (bs : List Blk) (hc : c.1 < c.2) : ascSeparated (combF c bs) = true := by
  induction bs generalizing c with
  | nil => simp [combF, ascSeparated, hc]
  | cons b bs ih =>
    unfold combF
    split
    · exact ih c hc
    · split
      · exact ih (c.1, max c.2 b.2) (by simp; omega)
      · rename_i h0 h1
        have hb : b.1 < b.2 := by omega
        obtain ⟨e, rest, he, _⟩ := combF_head b bs hb
        have := ih b hb
        rw [he] at this ⊢
        simp only [ascSeparated, Bool.and_eq_true, decide_eq_true_eq]
        exact ⟨⟨hc, by simp at h1 ⊢; omega⟩, this⟩

/-- coverage is preserved when the starts are non-decreasing -/
theorem combF_cov (c : Blk) (bs : List Blk) (hc : c.1 ≤ c.2)
    (hs : (c :: bs).Pairwise (fun a b => a.1 ≤ b.1)) (q : Nat) :
    coversBlocks (combF c bs) q = coversBlocks (c :: bs) q := by
  induction bs generalizing c with
  | nil => simp [combF]
  | cons b bs ih =>
    have hcb : c.1 ≤ b.1 := (List.pairwise_cons.mp hs).1 b (by simp)
    have hs1 : (c :: bs).Pairwise (fun a b => a.1 ≤ b.1) := by
      rw [List.pairwise_cons] at hs ⊢
      exact ⟨fun x hx => hs.1 x (List.mem_cons_of_mem _ hx), (List.pairwise_cons.mp hs.2).2⟩
    have hs2 : (b :: bs).Pairwise (fun a b => a.1 ≤ b.1) := (List.pairwise_cons.mp hs).2
    unfold combF
    split
    · rename_i h0
      rw [ih c hc hs1]
      simp only [coversBlocks_cons]
      have : (decide (b.1 ≤ q) && decide (q < b.2)) = false := by
        rw [Bool.eq_false_iff]; simp; omega
      simp [this]
    · split
      · rename_i h0 h1
        have hs3 : ((c.1, max c.2 b.2) :: bs).Pairwise (fun a b => a.1 ≤ b.1) := by
          rw [List.pairwise_cons] at hs1 ⊢
          exact ⟨hs1.1, hs1.2⟩
        rw [ih (c.1, max c.2 b.2) (by simp; omega) hs3]
        simp only [coversBlocks_cons]
        rw [← Bool.or_assoc]
        congr 1
        rw [Bool.eq_iff_iff]
        simp only [Bool.or_eq_true, Bool.and_eq_true, decide_eq_true_eq]
        omega
      · rename_i h0 h1
        simp only [coversBlocks_cons]
        rw [ih b (by omega) hs2]
        simp only [coversBlocks_cons]

theorem combFStart_cov (bs : List Blk) (hv : ∀ b ∈ bs, b.1 ≤ b.2)
    (hs : bs.Pairwise (fun a b => a.1 ≤ b.1)) (q : Nat) :
    coversBlocks (combFStart bs) q = coversBlocks bs q := by
  induction bs with
  | nil => rfl
  | cons b bs ih =>
    unfold combFStart
    split
    · rename_i h0
      rw [ih (fun x hx => hv x (List.mem_cons_of_mem _ hx)) (List.pairwise_cons.mp hs).2]
      simp only [coversBlocks_cons]
      have : (decide (b.1 ≤ q) && decide (q < b.2)) = false := by
        rw [Bool.eq_false_iff]; simp; omega
      simp [this]
    · exact combF_cov b bs (hv b (by simp)) hs q

theorem combFStart_sep (bs : List Blk) : ascSeparated (combFStart bs) = true := by
  induction bs with
  | nil => rfl
  | cons b bs ih =>
    unfold combFStart
    split
    · exact ih
    · exact combF_sep b bs (by omega)

/-! ### what callers need to know about `optimizeLoc` -/

/-- the result `r` of `optimizeLoc p ⟨S, st⟩` -/
structure OptSpec (p : Bool) (S : List Blk) (st : Strand) (r : Location) : Prop where
  /-- what the constructors establish -/
  wf : wfLocation r = true
  /-- a non-empty result is on the strand of the input -/
  strand : r = .empty ∨ locationStrand? r = some st
  /-- no zero-length block survives -/
  pos : ∀ b ∈ locationBlocks r, b.1 < b.2
  /-- one block ⇒ SingleInterval -/
  kind : kindOk r = true
  /-- same covered set -/
  cov : ∀ q, coversBlocks (locationBlocks r) q = coversBlocks S q
  /-- `optimize_blocks` keeps the multiset of positions -/
  bases : p = true → (basesPlus (locationBlocks r)).Perm (basesPlus S)
  /-- `optimize_blocks` of a layout that is not self-overlapping: normal form, still not self-overlapping -/
  normal : p = true → nonOverlap S = true →
    normalBlocks (locationBlocks r) = true ∧ nonOverlap (locationBlocks r) = true
  /-- `optimize_and_combine_blocks`: ascending blocks separated by at least one position -/
  sep : p = false → ascSeparated (locationBlocks r) = true

/-! ### sortedness -/

theorem sortedBy_pairwise (st : Strand) : ∀ (S : List Blk), sortedBy (blkLe st) S = true →
    S.Pairwise (fun a b => blkLe st a b = true)
  | [], _ => List.Pairwise.nil
  | [_], _ => by simp
  | a :: b :: rest, h => by
    simp only [sortedBy, Bool.and_eq_true] at h
    have ih := sortedBy_pairwise st (b :: rest) h.2
    rw [List.pairwise_cons]
    refine ⟨?_, ih⟩
    intro x hx
    rcases List.mem_cons.mp hx with rfl | hx
    · exact h.1
    · exact blkLe_trans st a b x h.1 ((List.pairwise_cons.mp ih).1 x hx)

theorem sortBlocks_of_sortedBy (st : Strand) (S : List Blk) (h : sortedBy (blkLe st) S = true) :
    sortBlocks st S = S :=
  List.mergeSort_of_pairwise (sortedBy_pairwise st S h)

theorem blkLe_fst_le (st : Strand) (a b : Blk) (h : blkLe st a b = true) : a.1 ≤ b.1 := by
  cases st <;> simp [blkLe, blkLePlus, blkLeOther] at h <;> omega

theorem starts_le_of_sortedBy (st : Strand) (S : List Blk) (h : sortedBy (blkLe st) S = true) :
    S.Pairwise (fun a b => a.1 ≤ b.1) :=
  (sortedBy_pairwise st S h).imp (fun {a b} hab => blkLe_fst_le st a b hab)

theorem nonOverlap_of_pairwise : ∀ (L : List Blk), L.Pairwise (fun a b => a.2 ≤ b.1) → nonOverlap L = true
  | [], _ => rfl
  | [_], _ => rfl
  | a :: b :: rest, h => by
    rw [List.pairwise_cons] at h
    simp only [nonOverlap, Bool.and_eq_true, decide_eq_true_eq]
    exact ⟨h.1 b (by simp), nonOverlap_of_pairwise (b :: rest) h.2⟩

theorem ascSeparated_pos : ∀ (L : List Blk), ascSeparated L = true → ∀ b ∈ L, b.1 < b.2
  | [], _ => by simp
  | [a], h => by simpa [ascSeparated] using h
  | a :: b :: rest, h => by
    simp only [ascSeparated, Bool.and_eq_true, decide_eq_true_eq] at h
    have ih := ascSeparated_pos (b :: rest) h.2
    intro x hx
    rcases List.mem_cons.mp hx with rfl | hx
    · exact h.1.1
    · exact ih x hx

theorem ascSeparated_fst_lt : ∀ (L : List Blk), ascSeparated L = true → L.Pairwise (fun a b => a.1 < b.1)
  | [], _ => List.Pairwise.nil
  | [_], _ => by simp
  | a :: b :: rest, h => by
    have hpos := ascSeparated_pos _ h
    simp only [ascSeparated, Bool.and_eq_true, decide_eq_true_eq] at h
    have ih := ascSeparated_fst_lt (b :: rest) h.2
    rw [List.pairwise_cons]
    refine ⟨?_, ih⟩
    intro x hx
    rcases List.mem_cons.mp hx with rfl | hx
    · omega
    · have := (List.pairwise_cons.mp ih).1 x hx
      omega

/-! ### `comb` keeps disjointness -/

theorem comb_mem_fst (c : Blk) (bs : List Blk) : ∀ y ∈ comb c bs, y.1 = c.1 ∨ ∃ b ∈ bs, y.1 = b.1 := by
  intro y hy
  have hsub := comb_starts c bs
  have : y.1 ∈ (comb c bs).map Prod.fst := List.mem_map_of_mem hy
  have := hsub.subset this
  rcases List.mem_cons.mp this with h | h
  · exact Or.inl h
  · obtain ⟨b, hb, hbe⟩ := List.mem_map.mp h
    exact Or.inr ⟨b, hb, hbe.symm⟩

theorem comb_disjoint (c : Blk) (bs : List Blk) (hv : ∀ b ∈ bs, b.1 ≤ b.2)
    (hp : (c :: bs).Pairwise (fun a b => a.2 ≤ b.1)) : (comb c bs).Pairwise (fun a b => a.2 ≤ b.1) := by
  induction bs generalizing c with
  | nil => simp [comb]
  | cons b bs ih =>
    have hv' : ∀ x ∈ bs, x.1 ≤ x.2 := fun x hx => hv x (List.mem_cons_of_mem _ hx)
    rw [List.pairwise_cons] at hp
    obtain ⟨hc, hrest⟩ := hp
    have hrest' := List.pairwise_cons.mp hrest
    unfold comb
    split
    · apply ih c hv'
      rw [List.pairwise_cons]
      exact ⟨fun x hx => hc x (List.mem_cons_of_mem _ hx), hrest'.2⟩
    · split
      · rename_i h0 h1
        apply ih (c.1, max c.2 b.2) hv'
        rw [List.pairwise_cons]
        refine ⟨?_, hrest'.2⟩
        intro x hx
        have h1' := hc x (List.mem_cons_of_mem _ hx)
        have h2' := hrest'.1 x hx
        simp only
        omega
      · rename_i h0 h1
        rw [List.pairwise_cons]
        refine ⟨?_, ih b hv' hrest⟩
        intro y hy
        rcases comb_mem_fst b bs y hy with h | ⟨x, hx, h⟩
        · rw [h]; exact hc b (by simp)
        · rw [h]; exact hc x (List.mem_cons_of_mem _ hx)

theorem combStart_disjoint (bs : List Blk) (hv : ∀ b ∈ bs, b.1 ≤ b.2)
    (hp : bs.Pairwise (fun a b => a.2 ≤ b.1)) : (combStart bs).Pairwise (fun a b => a.2 ≤ b.1) := by
  induction bs with
  | nil => simp [combStart]
  | cons b bs ih =>
    unfold combStart
    split
    · exact ih (fun x hx => hv x (List.mem_cons_of_mem _ hx)) (List.pairwise_cons.mp hp).2
    · exact comb_disjoint b bs (fun x hx => hv x (List.mem_cons_of_mem _ hx)) hp

theorem combStart_cov (bs : List Blk) (hv : ∀ b ∈ bs, b.1 ≤ b.2) (q : Nat) :
    coversBlocks (combStart bs) q = coversBlocks bs q := by
  rw [Bool.eq_iff_iff, coversBlocks_iff_mem_basesPlus, coversBlocks_iff_mem_basesPlus, combStart_bases bs hv]

/-! ### the loop in closed form -/

/-- the block list `_combine_blocks` builds -/
def combined (p : Bool) (S : List Blk) : List Blk := if p then combStart S else combFStart S

theorem combineLoop_fst (p : Bool) (S : List Blk) : (combineLoop p S none [] false).1 = combined p S := by
  cases p
  · exact combineLoopF_nil S none false
  · exact combineLoop_nil S none false

theorem combined_pos (p : Bool) (S : List Blk) : ∀ b ∈ combined p S, b.1 < b.2 := by
  cases p
  · exact ascSeparated_pos _ (combFStart_sep S)
  · exact normal_pos _ (combStart_normal S)

theorem optimizeLoc_closed (p : Bool) (S : List Blk) (st : Strand) (hne : S ≠ [])
    (hsorted : sortBlocks st S = S) :
    optimizeLoc p ⟨S, st⟩ =
      .ok (if combined p S = [] then .empty else toSingleIfOne ⟨sortBlocks st (combined p S), st⟩) := by
  unfold optimizeLoc
  have h1 := combineLoop_fst p S
  have h2 := combineLoop_needs_false p S none [] false
  generalize combineLoop p S none [] false = r at h1 h2
  obtain ⟨nb, needs⟩ := r
  simp only at h1 h2
  subst h1
  cases needs with
  | false =>
    have := h2 rfl
    simp only [List.reverse_nil, List.nil_append] at this
    rw [this, hsorted]
    simp [hne]
    rfl
  | true =>
    by_cases hC : combined p S = []
    · simp [hC]
      rfl
    · have hv' : ∀ b ∈ combined p S, b.1 ≤ b.2 := fun b hb => Nat.le_of_lt (combined_pos p S b hb)
      have hemp : (combined p S).isEmpty = false := by simpa using hC
      simp [hemp, hC, mkCompoundLoc_ok st hC hv']
      rfl

theorem kindOk_toSingleIfOne (X : Loc) (h : X.blocks ≠ []) : kindOk (toSingleIfOne X) = true := by
  unfold toSingleIfOne
  split
  · rfl
  · rename_i hn
    simp only [kindOk, decide_eq_true_eq]
    match hb : X.blocks with
    | [] => exact absurd hb h
    | [x] => exact absurd hb (hn x)
    | _ :: _ :: _ => simp

/-- closed form of `optimize_blocks` / `optimize_and_combine_blocks` on a constructor-made compound -/
theorem optimizeLoc_spec (p : Bool) (S : List Blk) (st : Strand) (hc : Loc.Canon ⟨S, st⟩) :
    ∃ r, optimizeLoc p ⟨S, st⟩ = .ok r ∧ OptSpec p S st r := by
  obtain ⟨hne, hv, hs⟩ := hc
  simp only at hne hv hs
  have hv' : ∀ b ∈ S, b.1 ≤ b.2 := (blocksValid_iff S).mp hv
  have hsorted := sortBlocks_of_sortedBy st S hs
  have hstarts := starts_le_of_sortedBy st S hs
  refine ⟨_, optimizeLoc_closed p S st hne hsorted, ?_⟩
  -- facts about the combined list
  have hCpos := combined_pos p S
  have hCv : ∀ b ∈ combined p S, b.1 ≤ b.2 := fun b hb => Nat.le_of_lt (hCpos b hb)
  have hCcov : ∀ q, coversBlocks (combined p S) q = coversBlocks S q := by
    intro q
    cases p
    · exact combFStart_cov S hv' hstarts q
    · exact combStart_cov S hv' q
  have hCbases : p = true → basesPlus (combined p S) = basesPlus S := by
    intro hp; subst hp; exact combStart_bases S hv'
  have hCsep : p = false → ascSeparated (combined p S) = true := by
    intro hp; subst hp; exact combFStart_sep S
  have hCnorm : p = true → nonOverlap S = true →
      normalBlocks (combined p S) = true ∧ (combined p S).Pairwise (fun a b => a.2 ≤ b.1) := by
    intro hp hno; subst hp
    exact ⟨combStart_normal S, combStart_disjoint S hv' (nonOverlap_pairwise S hv' hno)⟩
  by_cases hC : combined p S = []
  · simp only [hC, if_true]
    refine ⟨rfl, Or.inl rfl, by simp [locationBlocks], rfl, ?_, ?_, ?_, ?_⟩
    · intro q; rw [← hCcov q, hC]; rfl
    · intro hp; rw [← hCbases hp, hC]; exact List.Perm.refl _
    · intro _ _; exact ⟨rfl, rfl⟩
    · intro _; rfl
  · simp only [hC, if_false]
    have hcanon := canon_sortBlocks st hC hCv
    have hblocks := locationBlocks_toSingleIfOne ⟨sortBlocks st (combined p S), st⟩
    simp only at hblocks
    refine ⟨wfLocation_toSingleIfOne _ hcanon, Or.inr (locationStrand_toSingleIfOne _), ?_,
      kindOk_toSingleIfOne _ (sortBlocks_ne_nil st hC), ?_, ?_, ?_, ?_⟩
    · rw [hblocks]
      intro b hb
      exact hCpos b ((sortBlocks_perm st _).mem_iff.mp hb)
    · intro q; rw [hblocks, coversBlocks_sort, hCcov]
    · intro hp
      rw [hblocks, ← hCbases hp]
      exact basesPlus_perm (sortBlocks_perm st _)
    · intro hp hno
      obtain ⟨hn, hd⟩ := hCnorm hp hno
      have hlt := fst_lt_of_asc _ hd hCpos
      rw [hblocks, sortBlocks_of_fst_lt st hlt]
      exact ⟨hn, nonOverlap_of_pairwise _ hd⟩
    · intro hp
      have hlt := ascSeparated_fst_lt _ (hCsep hp)
      rw [hblocks, sortBlocks_of_fst_lt st hlt]
      exact hCsep hp

/-! ### consequences in the spec's vocabulary -/

theorem OptSpec.noEmptyBlock {p S st r} (h : OptSpec p S st r) : noEmptyBlock r = true := by
  simp only [Spec.noEmptyBlock, List.all_eq_true, decide_eq_true_eq]
  exact h.pos

theorem OptSpec.strandIs {p S st r} (h : OptSpec p S st r) : strandIs r (some st) = true := by
  rcases h.strand with h1 | h1
  · simp [Spec.strandIs, h1]
  · simp [Spec.strandIs, h1]

theorem OptSpec.locationCovers {p S st r} (h : OptSpec p S st r) (q : Nat) :
    locationCovers r q = coversBlocks S q := by
  rw [locationCovers_eq]; exact h.cov q

/-- every block of the result ends inside the input -/
theorem OptSpec.ends_le {p S st r} (h : OptSpec p S st r) : ∀ b ∈ locationBlocks r, b.2 ≤ maxEndOf S := by
  intro b hb
  have hpos := h.pos b hb
  have : coversBlocks (locationBlocks r) (b.2 - 1) = true := by
    rw [coversBlocks_iff]; exact ⟨b, hb, by omega, by omega⟩
  rw [h.cov] at this
  have := coversBlocks_lt_maxEndOf _ _ this
  omega

/-! ### `withPar` / `resultOk` -/

theorem withPar_fst (r : Location) (par : PKey) : (withPar r par).1 = r := by
  cases r <;> rfl

theorem withPar_snd (r : Location) (par : PKey) : (withPar r par).2 = if r = .empty then [] else par := by
  cases r <;> simp [withPar]

/-- a well-formed result inside the bounds of `par`, with `par` compatible with the expected parent -/
theorem resultOk_withPar (r : Location) (par expect : PKey) (hwf : wfLocation r = true)
    (hb : ∀ n, parentSeqLen par = some n → ∀ b ∈ locationBlocks r, b.2 ≤ n)
    (hp : sameParent par expect = true) : resultOk (withPar r par) expect = true := by
  unfold resultOk
  rw [withPar_fst, withPar_snd]
  by_cases he : r = .empty
  · subst he; simp [wfLocation, parLen]
  · simp only [he, if_false, hwf, Bool.true_and, Bool.and_eq_true]
    refine ⟨?_, ?_⟩
    · rw [parLen_eq]
      cases hn : parentSeqLen par with
      | none => rfl
      | some n =>
        simp only [endsWithin, List.all_eq_true, decide_eq_true_eq]
        exact hb n hn
    · have : (r == Location.empty) = false := by simpa using he
      simp [this, hp]

end BioCantor.Proofs
