/-
  C12 — T2, conversion part: what `to_gene_model` (parser model) makes of the records the writer model produced for
  one transcript: exons, CDS (clip through `intersection`), frames (through `/codon_start` and C05's T4), identifiers.
-/
import BioCantor.Proofs.GbBlocks
import BioCantor.Proofs.GbQuals
import BioCantor.Proofs.CDSConstructFrames
namespace BioCantor.Proofs.Gb
open BioCantor BioCantor.Spec.Qual BioCantor.Spec.Gb BioCantor.Model BioCantor.Model.Gb

/-! ### `find_exon_interval`, `find_transcript_interval` -/

theorem exonInterval_written (rule : WriterRule) (r : Rec) (st st' : Strand) (bs : List Blk)
    (hparts : r.parts = toBiopythonParts rule st' bs) (hst : r.strand = st) (hasc : Asc bs) (hne : bs ≠ []) :
    exonInterval r = .ok ⟨bs, st⟩ := by
  unfold exonInterval
  have hpne : toBiopythonParts rule st' bs ≠ [] := by
    unfold toBiopythonParts; split
    · simpa using hne
    · exact hne
  have hval : ∀ b ∈ toBiopythonParts rule st' bs, b.1 ≤ b.2 := by
    intro b hb
    have : b ∈ bs := by
      unfold toBiopythonParts at hb; split at hb
      · exact List.mem_reverse.mp hb
      · exact hb
    exact Nat.le_of_lt (hasc.1 b this)
  rw [hparts, hst, Proofs.mkCompoundLoc_ok st hpne hval, sortBlocks_parts rule st st' bs hasc]
  rfl

theorem transcriptSpan_ok (bs : List Blk) (st : Strand) (e0 el : Blk) (h0 : bs.head? = some e0)
    (hl : bs.getLast? = some el) (hasc : Asc bs) : transcriptSpan ⟨bs, st⟩ = .ok (e0.1, el.2) := by
  unfold transcriptSpan
  simp only [h0, hl]
  have : e0.1 ≤ el.2 := by
    cases bs with
    | nil => simp at h0
    | cons b rest =>
      simp only [List.head?_cons, Option.some.injEq] at h0
      rw [← h0]
      have h1 := hasc.1 b List.mem_cons_self
      have h2 := asc_le_last rest b hasc el hl b List.mem_cons_self
      omega
  rw [if_pos this]
  rfl

/-! ### `find_cds_interval` -/

/-- the CDS lies inside the span of the exon blocks -/
def CdsInside (exons cds : List Blk) : Prop :=
  ∀ e0 el, exons.head? = some e0 → exons.getLast? = some el → ∀ b ∈ cds, Inside (e0.1, el.2) b

theorem clipBlocks_inside (span : Blk) : ∀ (bs : List Blk), (∀ b ∈ bs, b.1 < b.2) → (∀ b ∈ bs, Inside span b) →
    clipBlocks span bs = bs
  | [], _, _ => rfl
  | b :: bs, hp, hin => by
    have ih := clipBlocks_inside span bs (fun x hx => hp x (List.mem_cons_of_mem _ hx))
      (fun x hx => hin x (List.mem_cons_of_mem _ hx))
    unfold clipBlocks at ih ⊢
    obtain ⟨h1, h2⟩ := hin b List.mem_cons_self
    have hb := hp b List.mem_cons_self
    have hmax : max b.1 span.1 = b.1 := Nat.max_eq_left h1
    have hmin : min b.2 span.2 = b.2 := Nat.min_eq_left h2
    simp only [List.map_cons, List.filter_cons, hmax, hmin, hb, decide_true, if_true]
    rw [ih]

/-- `find_cds_interval` on a written transcript/CDS record pair: the source CDS blocks, as long as they are separated
    by real gaps (the code as it is) — or always, with the block-wise clip -/
theorem cdsInterval_written (rule : WriterRule) (prule : ParserRule) (tx cr : Rec) (st st1 st2 : Strand)
    (exons cds : List Blk) (htx : tx.parts = toBiopythonParts rule st1 exons) (hts : tx.strand = st)
    (hcr : cr.parts = toBiopythonParts rule st2 cds) (hex : Asc exons) (hexne : exons ≠ []) (hcds : Asc cds)
    (hcne : cds ≠ []) (hin : CdsInside exons cds)
    (hgap : adjacentBlocks cds = false ∨ prule.clipsBlockwise = true) :
    cdsInterval prule ⟨tx, some cr⟩ = .ok (some ⟨cds, st⟩) := by
  obtain ⟨e0, h0⟩ : ∃ e0, exons.head? = some e0 := by
    cases exons with
    | nil => exact absurd rfl hexne
    | cons b _ => exact ⟨b, rfl⟩
  obtain ⟨el, hl⟩ : ∃ el, exons.getLast? = some el := by
    cases hgl : exons.getLast? with
    | none => exact absurd (List.getLast?_eq_none_iff.mp hgl) hexne
    | some l => exact ⟨l, rfl⟩
  have hinside := hin e0 el h0 hl
  have hex' := exonInterval_written rule tx st st1 exons htx hts hex hexne
  have hspan := transcriptSpan_ok exons st e0 el h0 hl hex
  have hparts : sortPartsByStart cr.parts = cds := by rw [hcr]; exact sortParts_parts rule st2 cds hcds
  unfold cdsInterval
  simp only [hex', hspan, hparts, bind, Except.bind]
  by_cases hb : prule.clipsBlockwise = true
  · simp only [hb, if_true, clipBlocks_inside _ cds hcds.1 hinside]
    have hemp : cds.isEmpty = false := by simpa using hcne
    simp only [hemp, Bool.false_eq_true, if_false, hts]
    rw [Proofs.mkCompoundLoc_ok st hcne (fun b hb => Nat.le_of_lt (hcds.1 b hb)),
      Proofs.sortBlocks_of_fst_lt st (asc_fst_lt cds hcds)]
    rfl
  · have hadj : adjacentBlocks cds = false := by
      rcases hgap with h | h
      · exact h
      · exact absurd h hb
    simp only [hb, Bool.false_eq_true, if_false, hts]
    cases hc : cds with
    | nil => exact absurd hc hcne
    | cons b rest =>
      cases hr : rest with
      | nil =>
        have hbpos : b.1 < b.2 := hcds.1 b (by rw [hc]; exact List.mem_cons_self)
        have hbin : Inside (e0.1, el.2) b := hinside b (by rw [hc]; exact List.mem_cons_self)
        have hmk : mkSingle (b.1 : Int) (b.2 : Int) st = .ok (.single b st) := by
          unfold mkSingle
          rw [if_pos ⟨by omega, by omega⟩]
          simp
          rfl
        simp only [liftR, hmk, intersection_single_inside b st _ hbpos hbin]
        rfl
      | cons b' rest' =>
        have hlen : 2 ≤ cds.length := by rw [hc, hr]; simp
        have hmk : mkCompound (b :: b' :: rest') st = .ok (.compound ⟨b :: b' :: rest', st⟩) := by
          unfold mkCompound
          have : mkCompoundLoc (b :: b' :: rest') st = .ok ⟨b :: b' :: rest', st⟩ := by
            rw [← hr, ← hc, Proofs.mkCompoundLoc_ok st hcne (fun b hb => Nat.le_of_lt (hcds.1 b hb)),
              Proofs.sortBlocks_of_fst_lt st (asc_fst_lt cds hcds)]
          simp only [this, bind, Except.bind, pure, Except.pure]
        have hint := intersection_compound_inside cds st (e0.1, el.2) hcds hlen hadj hinside
        rw [hc, hr] at hint
        simp only [liftR, hmk, hint]
        rfl

end BioCantor.Proofs.Gb

namespace BioCantor.Proofs.Gb
open BioCantor BioCantor.Spec.Qual BioCantor.Spec.Gb BioCantor.Model BioCantor.Model.Gb

/-! ### `construct_frames` -/

theorem framesLoop_nonNone : ∀ (l : List Int) (last : CDSFrame) (gs : List CDSFrame), last ≠ .NONE →
    framesLoop last l = .ok gs → ∀ g ∈ gs, g ≠ .NONE
  | [], _, gs, _, h => by
    simp only [framesLoop, pure, Except.pure, Except.ok.injEq] at h
    subst h; intro g hg; simp at hg
  | s :: rest, last, gs, hl, h => by
    obtain ⟨g0, hg0, _, hg0n⟩ := Proofs.frameShift_ok last hl s
    simp only [framesLoop, hg0, bind, Except.bind] at h
    cases hr : framesLoop g0 rest with
    | error e => simp [hr] at h
    | ok more =>
      simp only [hr, pure, Except.pure, Except.ok.injEq] at h
      subst h
      intro g hg
      rcases List.mem_cons.mp hg with rfl | hg
      · exact hg0n
      · exact framesLoop_nonNone rest g0 more hg0n hr g hg

theorem constructFrames_nonNone (bs : List Blk) (st : Strand) (f : CDSFrame) (hf : f ≠ .NONE) (frs : List CDSFrame)
    (h : constructFramesFromLocation (.compound ⟨bs, st⟩) f = .ok frs) : ∀ g ∈ frs, g ≠ .NONE := by
  unfold constructFramesFromLocation at h
  simp only [] at h
  split at h
  · simp only [pure, Except.pure, Except.ok.injEq] at h
    subst h
    intro g hg; simp only [List.mem_singleton] at hg; rw [hg]; exact hf
  · cases hsb : scanBlocks ⟨bs, st⟩ with
    | error e => simp [hsb, bind, Except.bind] at h
    | ok sb =>
      simp only [hsb, bind, Except.bind] at h
      split at h
      · exact absurd h (by simp [throw, throwThe, MonadExceptOf.throw])
      · next s0 rest hsz =>
        cases hfl : framesLoop .ZERO ((s0 - f.value) :: rest) with
        | error e => simp [hfl] at h
        | ok tail =>
          simp only [hfl, pure, Except.pure, Except.ok.injEq] at h
          have htail := framesLoop_nonNone _ .ZERO tail (by decide) hfl
          intro g hg
          rw [← h] at hg
          have : g ∈ f :: tail := by
            split at hg
            · exact List.mem_reverse.mp hg
            · exact hg
          rcases List.mem_cons.mp this with rfl | hg'
          · exact hf
          · exact htail g hg'

theorem frameNat_eq_vals (frs : List CDSFrame) : frs.map frameNat = Proofs.frameVals frs := by
  unfold Proofs.frameVals
  apply List.map_congr_left
  intro f _
  cases f <;> rfl

theorem frameDigit_roundtrip (f : CDSFrame) (hf : f ≠ .NONE) :
    (do let n ← pyInt (frameDigit f); frameOfInt (n - 1) : Model.Gb.P CDSFrame) = .ok f := by
  cases f <;> first | exact absurd rfl hf | rfl

/-- `construct_frames` on a written CDS record: one reading frame that starts with the source's start frame -/
theorem constructFrames_written (cr : Rec) (cds : List Blk) (st : Strand) (f : CDSFrame) (hf : f ≠ .NONE)
    (hq : qGet Model.Gb.kCodonStart cr.quals = some [frameDigit f]) (hdir : st = .plus ∨ st = .minus)
    (hne : cds ≠ []) (hfit : cds.length = 1 ∨ f.value ≤ (Proofs.firstLen ⟨cds, st⟩ : Int)) :
    ∃ frs, constructFrames cr ⟨cds, st⟩ = .ok frs ∧ okFramesOf st cds (frameNat f) frs = true := by
  have hok := Proofs.constructFrames_ok (.compound ⟨cds, st⟩) ⟨cds, st⟩ rfl hne hdir f hf hfit
  cases hc : constructFramesFromLocation (.compound ⟨cds, st⟩) f with
  | error e => rw [hc] at hok; simp [Proofs.ans, Spec.okFrames] at hok
  | ok frs =>
    rw [hc] at hok
    simp only [Proofs.ans_ok, Option.map_some] at hok
    have hnn := constructFrames_nonNone cds st f hf frs hc
    refine ⟨frs, ?_, ?_⟩
    · unfold constructFrames
      have hrt := frameDigit_roundtrip f hf
      simp only [hq, bind, Except.bind] at hrt ⊢
      cases hp : pyInt (frameDigit f) with
      | error e => rw [hp] at hrt; exact absurd hrt (by simp)
      | ok n =>
        rw [hp] at hrt
        simp only [pure, Except.pure] at hrt ⊢
        rw [hrt]
        simp only [liftR, hc]
    · unfold okFramesOf
      have hv : f.value.toNat = frameNat f := by cases f <;> rfl
      rw [Bool.and_eq_true]
      refine ⟨?_, ?_⟩
      · rw [List.all_eq_true]
        intro g hg
        have := hnn g hg
        cases g <;> simp_all
      · rw [frameNat_eq_vals, ← hv]; exact hok

end BioCantor.Proofs.Gb

namespace BioCantor.Proofs.Gb
open BioCantor BioCantor.Spec.Qual BioCantor.Spec.Gb BioCantor.Model BioCantor.Model.Gb

/-! ### `merge_cds_qualifiers_to_transcript` keeps the transcript record's values -/

theorem qualGet_of_qGet (k : Str) (q : QDict) (vs : List Str) (h : qGet k q = some vs) : qualGet k q = vs := by
  induction q with
  | nil => simp [qGet] at h
  | cons e es ih =>
    by_cases he : e.1 = k
    · simp only [qGet, he, if_true, Option.some.injEq] at h
      simp [qualGet, he, h]
    · simp only [qGet, he, if_false] at h
      simp only [qualGet, he, if_false]
      exact ih h

theorem mem_setAddP (vs : List Str) (v x : Str) : x ∈ setAddP vs v ↔ x ∈ vs ∨ x = v := by
  unfold setAddP
  split
  · next h =>
    constructor
    · intro hx; exact Or.inl hx
    · rintro (hx | hx)
      · exact hx
      · subst hx; simpa using h
  · simp

theorem mem_foldl_setAddP (vs acc : List Str) (x : Str) : x ∈ vs.foldl setAddP acc ↔ x ∈ acc ∨ x ∈ vs := by
  induction vs generalizing acc with
  | nil => simp
  | cons v rest ih =>
    rw [List.foldl_cons, ih, mem_setAddP]
    simp only [List.mem_cons]
    constructor
    · rintro ((h | h) | h)
      · exact Or.inl h
      · exact Or.inr (Or.inl h)
      · exact Or.inr (Or.inr h)
    · rintro (h | h | h)
      · exact Or.inl (Or.inl h)
      · exact Or.inl (Or.inr h)
      · exact Or.inr h

theorem mergeInto_mono (q : QDict) (k k' : Str) (vs : List Str) (x : Str) (h : x ∈ qualGet k q) :
    x ∈ qualGet k (mergeInto q k' vs) := by
  induction q with
  | nil => simp [qualGet] at h
  | cons e es ih =>
    simp only [mergeInto]
    split
    · next he =>
      by_cases hk : e.1 = k
      · simp only [qualGet, hk, if_true] at h ⊢
        exact (mem_foldl_setAddP _ _ _).mpr (Or.inl h)
      · simp only [qualGet, hk, if_false] at h ⊢
        exact h
    · next he =>
      by_cases hk : e.1 = k
      · simp only [qualGet, hk, if_true] at h ⊢
        exact h
      · simp only [qualGet, hk, if_false] at h ⊢
        exact ih h

theorem foldl_mergeInto_mono (cq q : QDict) (k x : Str) (h : x ∈ qualGet k q) :
    x ∈ qualGet k (cq.foldl (fun (acc : QDict) (e : Str × List Str) => mergeInto acc e.1 e.2) q) := by
  induction cq generalizing q with
  | nil => exact h
  | cons e es ih => exact ih _ (mergeInto_mono q k e.1 e.2 x h)

theorem qualGet_map (q : QDict) (f : List Str → List Str) (k : Str) :
    qualGet k (q.map fun e => (e.1, f e.2)) = if (qGet k q).isSome then f (qualGet k q) else [] := by
  induction q with
  | nil => rfl
  | cons e es ih =>
    by_cases he : e.1 = k
    · simp [qualGet, qGet, he]
    · simp only [List.map_cons, qualGet, qGet, he, if_false]
      exact ih

def mergedOf (c : Child) : QDict :=
  match c.cds with
  | none => c.tx.quals.map fun e => (e.1, setOfP e.2)
  | some cr => cr.quals.foldl (fun (acc : QDict) (e : Str × List Str) => mergeInto acc e.1 e.2)
      (c.tx.quals.map fun e => (e.1, setOfP e.2))

theorem mergeCds_eq (c : Child) :
    mergeCdsQualifiers c = (mergedOf c).map fun e => (e.1, Model.Qual.sortStrs e.2) := rfl

theorem qualGet_nil_of_qGet_none (k : Str) : ∀ (q : QDict), qGet k q = none → qualGet k q = []
  | [], _ => rfl
  | e :: es, hq => by
    by_cases he : e.1 = k
    · simp [qGet, he] at hq
    · simp only [qGet, he, if_false] at hq
      simp only [qualGet, he, if_false]
      exact qualGet_nil_of_qGet_none k es hq

/-- a value of the transcript record survives in the merged, sorted qualifiers of the parsed transcript -/
theorem mergeCds_has (c : Child) (k v : Str) (vs : List Str) (hq : qGet k c.tx.quals = some vs) (hv : v ∈ vs) :
    hasQual (mergeCdsQualifiers c) k v = true := by
  rw [hasQual_iff, mergeCds_eq, qualGet_map]
  have hbase : v ∈ qualGet k (c.tx.quals.map fun e => (e.1, setOfP e.2)) := by
    rw [qualGet_map, hq, qualGet_of_qGet k _ vs hq]
    simp only [Option.isSome_some, if_true]
    unfold setOfP
    exact (mem_foldl_setAddP _ _ _).mpr (Or.inr hv)
  have hmerged : v ∈ qualGet k (mergedOf c) := by
    unfold mergedOf
    cases c.cds with
    | none => exact hbase
    | some cr => exact foldl_mergeInto_mono _ _ _ _ hbase
  cases hg : qGet k (mergedOf c) with
  | none => rw [qualGet_nil_of_qGet_none k _ hg] at hmerged; simp at hmerged
  | some ws =>
    simp only [Option.isSome_some, if_true]
    unfold Model.Qual.sortStrs
    exact List.mem_mergeSort.mpr hmerged

end BioCantor.Proofs.Gb

namespace BioCantor.Proofs.Gb
open BioCantor BioCantor.Spec.Qual BioCantor.Spec.Gb BioCantor.Model BioCantor.Model.Gb

/-! ### `get_qualifier_from_tx_or_cds_features` -/

theorem qualFrom_same (c : Child) (k : Str) (cr : Rec) (o : Option Str)
    (htx : qGet k c.tx.quals = o.map fun v => [v]) (hc : c.cds = some cr)
    (hcd : qGet k cr.quals = o.map fun v => [v]) : qualFromTxOrCds c k = .ok o := by
  unfold qualFromTxOrCds
  cases o with
  | some v => simp only [Option.map_some] at htx; rw [htx]; rfl
  | none =>
    simp only [Option.map_none] at htx hcd
    rw [htx]; simp only [hc, hcd]; rfl

theorem qualFrom_cds (c : Child) (k : Str) (cr : Rec) (o : Option Str)
    (htx : qGet k c.tx.quals = none) (hc : c.cds = some cr)
    (hcd : qGet k cr.quals = o.map fun v => [v]) : qualFromTxOrCds c k = .ok o := by
  unfold qualFromTxOrCds
  rw [htx]; simp only [hc]
  cases o with
  | some v => simp only [Option.map_some] at hcd; rw [hcd]; rfl
  | none => simp only [Option.map_none] at hcd; rw [hcd]; rfl

theorem qualFrom_nocds (c : Child) (k : Str) (o : Option Str)
    (htx : qGet k c.tx.quals = o.map fun v => [v]) (hc : c.cds = none) : qualFromTxOrCds c k = .ok o := by
  unfold qualFromTxOrCds
  cases o with
  | some v => simp only [Option.map_some] at htx; rw [htx]; rfl
  | none => simp only [Option.map_none] at htx; rw [htx]; simp only [hc]; rfl

/-- the transcript model, once every sub-computation is known -/
theorem txModel_eval (prule : ParserRule) (c : Child) (E : List Blk) (st : Strand) (cdsB : List Blk)
    (frs : List CDSFrame) (oid osym oprot : Option Str)
    (h1 : exonInterval c.tx = .ok ⟨E, st⟩)
    (h2 : (c.cds = none ∧ cdsB = [] ∧ frs = []) ∨
          (∃ cr, c.cds = some cr ∧ cdsInterval prule c = .ok (some ⟨cdsB, st⟩) ∧
             constructFrames cr ⟨cdsB, st⟩ = .ok frs))
    (h4 : qGet "pseudo".toList c.tx.quals = none)
    (hid : qualFromTxOrCds c "transcript_id".toList = .ok oid)
    (hprot : qualFromTxOrCds c "protein_id".toList = .ok oprot)
    (hprod : qualFromTxOrCds c "product".toList = .ok none)
    (hsym : qualFromTxOrCds c "gene".toList = .ok osym) :
    txModel prule c = .ok
      { strand := c.tx.strand, exons := E, cds := cdsB, frames := frs, txId := oid, txSymbol := osym,
        proteinId := oprot, product := none,
        txType := if c.tx.type == tyMRNA then Model.Gb.sProteinCoding else c.tx.type,
        quals := mergeCdsQualifiers c } := by
  have hpseudo : hasKey "pseudo".toList c.tx.quals = false := by unfold hasKey; rw [h4]; rfl
  unfold txModel
  rcases h2 with ⟨hc, rfl, rfl⟩ | ⟨cr, hc, hci, hcf⟩
  · have hci : cdsInterval prule c = .ok none := by unfold cdsInterval; rw [hc]; rfl
    simp only [h1, hci, hc, bind, Except.bind, pure, Except.pure, hid, hprot, hprod, hsym, hpseudo,
      Bool.false_eq_true, if_false]
  · simp only [h1, hci, hc, hcf, bind, Except.bind, pure, Except.pure, hid, hprot, hprod, hsym, hpseudo,
      Bool.false_eq_true, if_false]

end BioCantor.Proofs.Gb
