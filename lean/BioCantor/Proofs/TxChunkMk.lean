/-
  C06: what the modelled constructor establishes for a transcript built on a chunk (`WFC`), and that its
  chromosome-level members are those of the same transcript built on the chromosome.
-/
import BioCantor.Proofs.TxChunk
import BioCantor.Proofs.TxMk
set_option linter.unusedSimpArgs false
namespace BioCantor.Proofs
open BioCantor BioCantor.Spec BioCantor.Model BioCantor.Model.Transcript

/-- a chunk-built transcript as the constructor leaves it: well-formed chromosome-level members, a chunk with
    at least one base and a direction, and the two `_location`s = the closed form of the chunk lift -/
structure WFC (c : ChunkTranscript) : Prop where
  base : WFT c.base
  win : winOk ⟨c.w, c.wst⟩ = true
  loc : c.location = chunkLocOf (initOf c.base.exons) ⟨c.w, c.wst⟩
  cds : c.cdsLocation = c.base.cds.map (fun d => chunkLocOf (initOf d) ⟨c.w, c.wst⟩)

theorem initOf_wf (E : Loc) (h : E.Canon) : WF (initOf E) := by
  unfold initOf
  split
  · rename_i b hb
    have := h.2.1
    rw [hb] at this
    simp [blocksValid] at this
    exact this
  · exact h

theorem initOf_ne_empty (E : Loc) : initOf E ≠ .empty := by
  unfold initOf; split <;> simp

theorem toLoc_initOf (E : Loc) : toLoc (initOf E) = some E := by
  obtain ⟨bs, st⟩ := E
  unfold initOf
  split
  · rename_i b hb; simp only at hb; subst hb; rfl
  · rfl

/-- `initialize_location` and `chromosome_location` agree: the former is `initOf` of the latter -/
theorem initializeLocation_initOf (bs : List Blk) (st : Strand) (l : Location) (E : Loc)
    (h1 : initializeLocation bs st = .ok l) (h2 : mkCompoundLoc bs st = .ok E) : l = initOf E := by
  have hE : E = ⟨sortBlocks st bs, st⟩ := by
    unfold mkCompoundLoc at h2
    split at h2
    · cases h2
    · simp only at h2
      split at h2
      · cases h2; rfl
      · cases h2
  subst hE
  cases bs with
  | nil =>
    simp [initializeLocation, mkCompound, mkCompoundLoc, bind, Except.bind, throw, throwThe, MonadExceptOf.throw] at h1
  | cons a t =>
    cases t with
    | nil =>
      simp only [initializeLocation] at h1
      unfold mkSingle at h1
      by_cases hc : 0 ≤ (a.1 : Int) ∧ (a.1 : Int) ≤ (a.2 : Int)
      · rw [if_pos hc] at h1
        simp only [pure, Except.pure, Except.ok.injEq, Int.toNat_natCast] at h1
        subst h1
        simp [initOf, sortBlocks_singleton]
      · rw [if_neg hc] at h1; cases h1
    | cons b r =>
      simp only [initializeLocation, mkCompound, bind, Except.bind, h2, pure, Except.pure, Except.ok.injEq] at h1
      subst h1
      have hl : (sortBlocks st (a :: b :: r)).length = r.length + 2 := by simp [sortBlocks]
      unfold initOf
      generalize sortBlocks st (a :: b :: r) = Y at hl
      match Y, hl with
      | _ :: _ :: _, _ => rfl

theorem initOnChunk (bs : List Blk) (st : Strand) (W : Win) (hW : winOk W = true) (m : Location) (E : Loc)
    (h1 : initializeLocationOnChunk bs st W.w W.wst = .ok m) (h2 : mkCompoundLoc bs st = .ok E) :
    m = chunkLocOf (initOf E) W ∧ ∃ l, initializeLocation bs st = .ok l := by
  unfold initializeLocationOnChunk at h1
  cases h0 : initializeLocation bs st with
  | error e => simp [h0, bind, Except.bind] at h1
  | ok l =>
    simp only [h0, bind, Except.bind] at h1
    have := initializeLocation_initOf bs st l E h0 h2
    subst this
    rw [chunkDown_explicit _ (initOf_wf E (mkCompoundLoc_canon h2)) (initOf_ne_empty E) W hW] at h1
    exact ⟨(Except.ok.inj h1).symm, _, rfl⟩

/-- **the constructor on a chunk**: `WFC`, and the chromosome-level members are exactly those the constructor
    builds on the chromosome (with no sequence-length bound) -/
theorem mkChunkTranscript_spec (ex : List Blk) (st : Strand) (cds : Option (List Blk)) (w : Blk) (wst : Strand)
    (hW : winOk ⟨w, wst⟩ = true) (c : ChunkTranscript) (h : mkChunkTranscript ex st cds w wst = .ok c) :
    WFC c ∧ mkTranscript ex st cds none = .ok c.base ∧ c.w = w ∧ c.wst = wst := by
  unfold mkChunkTranscript Model.chromosomeLocation at h
  cases h0 : initializeLocationOnChunk ex st w wst with
  | error e => simp [h0, bind, Except.bind] at h
  | ok loc =>
    cases h1 : mkCompoundLoc ex st with
    | error e => simp [h0, h1, bind, Except.bind] at h
    | ok E =>
      simp only [h0, h1, bind, Except.bind] at h
      obtain ⟨hloc, l0, hl0⟩ := initOnChunk ex st ⟨w, wst⟩ hW loc E h0 h1
      cases cds with
      | none =>
        simp only [pure, Except.pure, Except.ok.injEq] at h
        subst h
        have hmk : mkTranscript ex st none none = .ok ⟨E, none, none⟩ := by
          simp [mkTranscript, Model.chromosomeLocation, hl0, h1, bind, Except.bind, pure, Except.pure]
        exact ⟨⟨(mkTranscript_wf _ _ _ _ _ hmk).1, hW, hloc, rfl⟩, hmk, rfl, rfl⟩
      | some cb =>
        simp only at h
        split at h
        · rename_i c0 e0 cl el hc0 he0 hcl hel
          split at h
          · cases h
          · rename_i hn1
            split at h
            · cases h
            · rename_i hn2
              cases h2 : initializeLocationOnChunk cb st w wst with
              | error e => simp [h2] at h
              | ok dl =>
                cases h3 : mkCompoundLoc cb st with
                | error e => simp [h2, h3] at h
                | ok D =>
                  simp only [h2, h3] at h
                  split at h
                  · cases h
                  · rename_i hlen
                    simp only [pure, Except.pure, Except.ok.injEq] at h
                    subst h
                    obtain ⟨hdl, l1, hl1⟩ := initOnChunk cb st ⟨w, wst⟩ hW dl D h2 h3
                    have hmk : mkTranscript ex st (some cb) none = .ok ⟨E, some D, none⟩ := by
                      simp [mkTranscript, Model.chromosomeLocation, hl0, h1, hc0, he0, hcl, hel, hn1, hn2, hl1, h3,
                        hlen, bind, Except.bind, pure, Except.pure]
                    exact ⟨⟨(mkTranscript_wf _ _ _ _ _ hmk).1, hW, hloc, by simp [hdl]⟩, hmk, rfl, rfl⟩
        · cases h

end BioCantor.Proofs
