/-
  C06: the clauses about pairs of calls, stated for the model (consequences of the per-call facts).
-/
import BioCantor.Proofs.TxUtr
import BioCantor.Proofs.TxMk
set_option linter.unusedSimpArgs false
namespace BioCantor.Proofs
open BioCantor BioCantor.Spec BioCantor.Model BioCantor.Model.Transcript

/-- a coding transcript in the scope of the property: directional strand, exons that do not overlap
    (`NonOverlap E`), CDS a non-empty contiguous stretch of the transcript (`Sub D E`) -/
structure Coding (t : Transcript) (d : Loc) : Prop where
  cds : t.cds = some d
  scope : txScope (specOf t) = true
  sub : isSub d t.exons = true

theorem Coding.dir {t : Transcript} {d : Loc} (hc : Coding t d) : Directional (specOf t) :=
  (txScope_unpack (specOf t) d (by simp [specOf, hc.cds]) hc.scope).1

theorem Coding.nodupE {t : Transcript} {d : Loc} (h : WFT t) (hc : Coding t d) : (bases t.exons).Nodup :=
  nodup_bases _ h.exons.2.1 (txScope_unpack (specOf t) d (by simp [specOf, hc.cds]) hc.scope).2.1

theorem Coding.nodupD {t : Transcript} {d : Loc} (h : WFT t) (hc : Coding t d) :
    ∀ d', (specOf t).D = some d' → (bases d').Nodup := by
  intro d' hd'
  have : d' = d := by
    have : (specOf t).D = some d := by simp [specOf, hc.cds]
    rw [this] at hd'; exact (Option.some.inj hd').symm
  subst this
  exact (hc.nodupE h).sublist (isSub_sublist _ _ hc.sub)

theorem Coding.onTx {t : Transcript} {d : Loc} (hc : Coding t d) : CdsOnTx (specOf t) := by
  intro d' hd' q hq
  have : d' = d := by
    have : (specOf t).D = some d := by simp [specOf, hc.cds]
    rw [this] at hd'; exact (Option.some.inj hd').symm
  subst this
  exact (isSub_sublist _ _ hc.sub).subset hq

theorem ans_comp {α β γ} (f : α → R β) (g : β → R γ) (F : α → Option β) (G : β → Option γ)
    (hf : ∀ x, ans (f x) = F x) (hg : ∀ y, ans (g y) = G y) (x : α) :
    ans (f x >>= g) = (F x).bind G := by
  rw [ans_bind, hf]
  cases F x with
  | none => rfl
  | some y => exact hg y

/-! ### paths -/

theorem path_model (t : Transcript) (h : WFT t) (d : Loc) (hc : Coding t d) (p : Int) :
    ans (t.sequencePosToCds p) = ans (t.sequencePosToTranscript p >>= t.transcriptPosToCds) := by
  rw [ans_comp _ _ _ _ (ans_c2t t h) (ans_t2d t h), ans_c2d t h, expC2D_via_tx _ hc.onTx hc.dir]

/-! ### inverses -/

theorem t2c_of_c2t (t : Transcript) (h : WFT t) (p r : Int) (hp : t.sequencePosToTranscript p = .ok r) :
    t.transcriptPosToSequence r = .ok p := by
  rw [← ans_eq_some, ans_c2t t h] at hp
  rw [← ans_eq_some, ans_t2c]
  exact expT2C_of_expC2T _ p r hp

theorem c2t_of_t2c (t : Transcript) (h : WFT t) (hno : t.exons.NonOverlap) (r p : Int)
    (hr : t.transcriptPosToSequence r = .ok p) : t.sequencePosToTranscript p = .ok r := by
  rw [← ans_eq_some, ans_t2c] at hr
  rw [← ans_eq_some, ans_c2t t h]
  exact expC2T_of_expT2C _ (nodup_bases _ h.exons.2.1 hno) r p hr

theorem d2c_of_c2d (t : Transcript) (h : WFT t) (p c : Int) (hp : t.sequencePosToCds p = .ok c) :
    t.cdsPosToSequence c = .ok p := by
  rw [← ans_eq_some, ans_c2d t h] at hp
  rw [← ans_eq_some, ans_d2c]
  exact expD2C_of_expC2D _ p c hp

theorem c2d_of_d2c (t : Transcript) (h : WFT t) (d : Loc) (hc : Coding t d) (c p : Int)
    (hq : t.cdsPosToSequence c = .ok p) : t.sequencePosToCds p = .ok c := by
  rw [← ans_eq_some, ans_d2c] at hq
  rw [← ans_eq_some, ans_c2d t h]
  exact expC2D_of_expD2C _ (hc.nodupD h) c p hq

theorem t2d_of_d2t (t : Transcript) (h : WFT t) (d : Loc) (hc : Coding t d) (c r : Int)
    (hq : t.cdsPosToTranscript c = .ok r) : t.transcriptPosToCds r = .ok c := by
  rw [← ans_eq_some, ans_d2t t h] at hq
  rw [← ans_eq_some, ans_t2d t h]
  exact expT2D_of_expD2T _ (hc.nodupD h) c r hq

theorem d2t_of_t2d (t : Transcript) (h : WFT t) (hno : t.exons.NonOverlap) (r c : Int)
    (hq : t.transcriptPosToCds r = .ok c) : t.cdsPosToTranscript c = .ok r := by
  rw [← ans_eq_some, ans_t2d t h] at hq
  rw [← ans_eq_some, ans_d2t t h]
  exact expD2T_of_expT2D _ (nodup_bases _ h.exons.2.1 hno) r c hq

/-! ### round trips as evaluated by the harness -/

theorem directional_of (t : Transcript) (h : WFT t) (hd : t.exons.strand ≠ .unstranded) :
    Directional (specOf t) := by
  refine ⟨hd, ?_⟩
  intro d hD
  have : t.cds = some d := hD
  rw [(h.cds d this).2]; exact hd

theorem rt_t_model (t : Transcript) (h : WFT t) (hd : t.exons.strand ≠ .unstranded)
    (hno : t.exons.NonOverlap) (r : Int) :
    okRoundTrip (inTx (specOf t) r) r (ans (t.transcriptPosToSequence r >>= t.sequencePosToTranscript)) = true := by
  rw [ans_comp _ _ _ _ (ans_t2c t) (ans_c2t t h)]
  exact okRoundTrip_t _ (directional_of t h hd) (nodup_bases _ h.exons.2.1 hno) r

theorem rt_c_model (t : Transcript) (h : WFT t) (hd : t.exons.strand ≠ .unstranded)
    (p : Int) :
    okRoundTrip (inExons (specOf t) p) p (ans (t.sequencePosToTranscript p >>= t.transcriptPosToSequence)) = true := by
  rw [ans_comp _ _ _ _ (ans_c2t t h) (ans_t2c t)]
  exact okRoundTrip_c _ (directional_of t h hd) p

theorem rt_d_model (t : Transcript) (h : WFT t) (d : Loc) (hc : Coding t d) (c : Int) :
    okRoundTrip (inCds (specOf t) c) c (ans (t.cdsPosToTranscript c >>= t.transcriptPosToCds)) = true := by
  rw [ans_comp _ _ _ _ (ans_d2t t h) (ans_t2d t h)]
  exact okRoundTrip_d _ hc.dir hc.onTx (hc.nodupD h) c

theorem rt_dc_model (t : Transcript) (h : WFT t) (d : Loc) (hc : Coding t d) (c : Int) :
    okRoundTrip (inCds (specOf t) c) c (ans (t.cdsPosToSequence c >>= t.sequencePosToCds)) = true := by
  rw [ans_comp _ _ _ _ (ans_d2c t) (ans_c2d t h)]
  exact okRoundTrip_dc _ hc.dir (hc.nodupD h) c

theorem rt_td_model (t : Transcript) (h : WFT t) (d : Loc) (hc : Coding t d) (r : Int) :
    okRoundTrip (match expT2C (specOf t) r with | some p => inCdsChrom (specOf t) p | none => false) r
      (ans (t.transcriptPosToCds r >>= t.cdsPosToTranscript)) = true := by
  rw [ans_comp _ _ _ _ (ans_t2d t h) (ans_d2t t h)]
  exact okRoundTrip_td _ hc.dir (hc.nodupE h) r

/-! ### UTRs -/

theorem utrs_exist (t : Transcript) (h : WFT t) (d : Loc) (hc : Coding t d) :
    ∃ u5 u3 k, t.get5pInterval = .ok u5 ∧ t.get3pInterval = .ok u3 ∧
      cdsOffset d t.exons = some k ∧
      locationBases u5 = (bases t.exons).take k ∧
      locationBases u3 = (bases t.exons).drop (k + (bases d).length) ∧
      ((bases t.exons).drop k).take (bases d).length = bases d ∧
      utrShapeOk t.exons u5 = true ∧ utrShapeOk t.exons u3 = true := by
  have h5 := utr5_ok t h
  have h3 := utr3_ok t h
  have hD : (specOf t).D = some d := by simp [specOf, hc.cds]
  have hE : (specOf t).E = t.exons := rfl
  obtain ⟨k, q, hq, hk, hoff, he⟩ := isSub_unpack d _ hc.sub
  unfold okUtr5 at h5; unfold okUtr3 at h3
  simp only [hD, hE, hc.scope, hc.sub, Bool.and_self, not_true_eq_false, if_false, hoff] at h5 h3
  cases ha : ans t.get5pInterval with
  | none => rw [ha] at h5; cases h5
  | some u5 =>
    cases hb : ans t.get3pInterval with
    | none => rw [hb] at h3; cases h3
    | some u3 =>
      rw [ha] at h5; rw [hb] at h3
      simp only [Bool.and_eq_true, beq_iff_eq] at h5 h3
      exact ⟨u5, u3, k, (ans_eq_some _ _).1 ha, (ans_eq_some _ _).1 hb, hoff, h5.2, h3.2, he, h5.1, h3.1⟩

theorem cdsOffset_lt (d E : Loc) (k : Nat) (h : cdsOffset d E = some k) : k < (bases E).length := by
  unfold cdsOffset at h
  cases hq : (bases d).head? with
  | none => simp [hq] at h
  | some q => simp only [hq, Option.bind] at h; exact idxOf?_lt _ _ _ h

/-- 5' UTR ++ CDS ++ 3' UTR is the transcript, base for base and without repetition -/
theorem utrs_tile_model (t : Transcript) (h : WFT t) (d : Loc) (hc : Coding t d) :
    ∃ u5 u3, t.get5pInterval = .ok u5 ∧ t.get3pInterval = .ok u3 ∧
      locationBases u5 ++ bases d ++ locationBases u3 = bases t.exons ∧
      (locationBases u5 ++ bases d ++ locationBases u3).Nodup := by
  obtain ⟨u5, u3, k, h5, h3, _, b5, b3, he, _, _⟩ := utrs_exist t h d hc
  refine ⟨u5, u3, h5, h3, ?_, ?_⟩
  · rw [b5, b3]; exact tile _ _ k he
  · rw [b5, b3, tile _ _ k he]; exact hc.nodupE h

theorem utr5_empty_iff (t : Transcript) (h : WFT t) (d : Loc) (hc : Coding t d) (u5 : Location)
    (h5 : t.get5pInterval = .ok u5) :
    locationBases u5 = [] ↔ t.cdsPosToTranscript 0 = .ok 0 := by
  obtain ⟨u5', u3, k, h5', _, hoff, b5, _, he, _, _⟩ := utrs_exist t h d hc
  rw [h5] at h5'; cases h5'
  obtain ⟨k', q, hq, hk, hoff', _⟩ := isSub_unpack d _ hc.sub
  rw [hoff] at hoff'; cases hoff'
  have hD : (specOf t).D = some d := by simp [specOf, hc.cds]
  have h1 : ans (t.cdsPosToTranscript 0) = some (k : Int) := by
    rw [ans_d2t t h]; exact d2t_first _ d hD hc.dir k q hq hk
  have hlt := cdsOffset_lt d t.exons k hoff
  rw [← ans_eq_some, h1, b5]
  constructor
  · intro e
    have := congrArg List.length e
    simp only [List.length_take, List.length_nil] at this
    have : k = 0 := by omega
    subst this; rfl
  · intro e
    have : k = 0 := by
      have := Option.some.inj e; omega
    subst this; rfl

theorem utr3_empty_iff (t : Transcript) (h : WFT t) (d : Loc) (hc : Coding t d) (u3 : Location)
    (h3 : t.get3pInterval = .ok u3) :
    locationBases u3 = [] ↔ t.cdsPosToTranscript ((d.len : Int) - 1) = .ok ((t.exons.len : Int) - 1) := by
  obtain ⟨u5, u3', k, _, h3', hoff, _, b3, he, _, _⟩ := utrs_exist t h d hc
  rw [h3] at h3'; cases h3'
  obtain ⟨k', q, hq, hk, hoff', _⟩ := isSub_unpack d _ hc.sub
  rw [hoff] at hoff'; cases hoff'
  have hD : (specOf t).D = some d := by simp [specOf, hc.cds]
  have hpos : 0 < (bases d).length := by
    cases hb : bases d with
    | nil => simp [hb] at hq
    | cons x xs => simp
  have hfit : k + (bases d).length ≤ (bases t.exons).length := by
    rcases isSub_len d t.exons k he with h' | h'
    · exact h'
    · omega
  have h1 : ans (t.cdsPosToTranscript ((d.len : Int) - 1)) = some (((k + (bases d).length : Nat) : Int) - 1) := by
    rw [ans_d2t t h, ← bases_length d]
    exact d2t_last _ d hD hc.dir (hc.nodupE h) k he hpos
  rw [← ans_eq_some, h1, b3, ← bases_length t.exons]
  constructor
  · intro e
    have := congrArg List.length e
    simp only [List.length_drop, List.length_nil] at this
    congr 1; omega
  · intro e
    have := Option.some.inj e
    apply List.drop_eq_nil_of_le
    omega

end BioCantor.Proofs
