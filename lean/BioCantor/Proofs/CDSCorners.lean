/-
  C05, corner statements: a CDS without a complete codon (fewer than three kept positions).
-/
import BioCantor.Proofs.CDSPredicates
namespace BioCantor.Proofs
open BioCantor BioCantor.Model BioCantor.Spec

theorem lettersAt_length (chrom : List Char) (st : Strand) : ∀ (ps : List Nat) (ls : List Char),
    lettersAt chrom st ps = some ls → ls.length = ps.length
  | [], ls, h => by simp only [lettersAt, Option.some.injEq] at h; subst h; rfl
  | p :: ps, ls, h => by
    obtain ⟨x, r, rfl, _, h3⟩ := lettersAt_cons_some chrom st p ps ls h
    simp [lettersAt_length chrom st ps r h3]

/-- the coding sequence of a codon-less CDS is empty -/
theorem codonless_sequence (c : CDS) (h : WFCDS c)
    (hshallow : shallowTrim (exonWalk c.loc (specFrames c)) = true)
    (hkept : c.loc.blocks.length = 1 ∨ cdsKept c.loc (specFrames c) ≠ [])
    (chrom : List Char) (hs : SeqOK c chrom) (hless : (cdsKept c.loc (specFrames c)).length < 3) :
    extractSequence c = .ok [] := by
  obtain ⟨lk, h1, h2⟩ := extractSequence_kept c h hshallow hkept chrom hs
  have hl := lettersAt_length chrom c.loc.strand _ lk h1
  rw [h2, triples_short lk (by omega)]; rfl

/-- every derived answer on a codon-less CDS: no codon, empty protein, no start, no in-frame stop;
    no valid stop (since 7757ccc: `False`, no longer ValueError from `Codon("")`) -/
theorem codonless_answers (c : CDS) (h : WFCDS c)
    (hshallow : shallowTrim (exonWalk c.loc (specFrames c)) = true)
    (hkept : c.loc.blocks.length = 1 ∨ cdsKept c.loc (specFrames c) ≠ [])
    (chrom : List Char) (hs : SeqOK c chrom) (hless : (cdsKept c.loc (specFrames c)).length < 3)
    (trunc strict : Bool) (table : Int) :
    scanCodons c trunc = .ok [] ∧
    translate c trunc table strict = .ok [] ∧
    hasCanonicalStartCodon c = .ok false ∧
    hasStartCodonIn c table = .ok false ∧
    hasInFrameStop c = .ok false ∧
    hasValidStop c = .ok false := by
  have hseq := codonless_sequence c h hshallow hkept chrom hs hless
  refine ⟨?_, ?_, ?_, ?_, ?_, ?_⟩
  · simp [scanCodons, hseq, bind, Except.bind, chunks3, scanCodons.go, pure, Except.pure]
  · simp [translate, hseq, bind, Except.bind, upperStr, chunks3, translateLoop, pure, Except.pure]
  · simp [hasCanonicalStartCodon, firstCodon, hseq, bind, Except.bind, chunks3, pure, Except.pure]
  · simp [hasStartCodonIn, firstCodon, hseq, bind, Except.bind, chunks3, pure, Except.pure]
  · simp [hasInFrameStop, translate, hseq, bind, Except.bind, upperStr, chunks3, translateLoop, pure, Except.pure]
  · simp [hasValidStop, hseq, bind, Except.bind, pure, Except.pure]

/-- `num_codons` of a codon-less CDS is 0 -/
theorem codonless_numCodons (c : CDS) (h : WFCDS c)
    (hshallow : shallowTrim (exonWalk c.loc (specFrames c)) = true)
    (hkept : c.loc.blocks.length = 1 ∨ cdsKept c.loc (specFrames c) ≠ [])
    (hless : (cdsKept c.loc (specFrames c)).length < 3) :
    numCodons c = .ok 0 := by
  have := numCodons_ok c h hshallow hkept
  unfold okNumCodons specOf CDSIn.codons cdsCodons at this
  rw [triples_short _ hless] at this
  cases hn : numCodons c with
  | error e => rw [hn] at this; simp at this
  | ok n => rw [hn] at this; simpa using this

end BioCantor.Proofs
