/-
  C02-T3: `union` (and `merge_overlapping`, which is the same block-by-block merge).
  The heart is `Union.uws_spec`: what `X.union(other: SingleInterval)` returns for compatible parents.
-/
import BioCantor.Proofs.AlgOverlap
import BioCantor.Proofs.AlgOptimize
namespace BioCantor.Proofs.Union
open BioCantor BioCantor.Spec BioCantor.Model BioCantor.Proofs

/-! ### position multisets without repetition -/

theorem mem_basesPlus (bs : List Blk) (q : Nat) : q ∈ basesPlus bs ↔ ∃ b ∈ bs, b.1 ≤ q ∧ q < b.2 := by
  rw [← coversBlocks_iff_mem_basesPlus, coversBlocks_iff]

theorem nodup_blkAsc (b : Blk) : (blkAsc b).Nodup := by
  unfold blkAsc; exact List.nodup_range' 1

theorem mem_blkAsc (b : Blk) (q : Nat) : q ∈ blkAsc b ↔ b.1 ≤ q ∧ q < b.2 := by
  simp only [blkAsc, List.mem_range'_1]; omega

/-- a layout that is not self-overlapping lists every position once -/
theorem nodup_of_nonOverlap (L : List Blk) (hv : ∀ b ∈ L, b.1 ≤ b.2) (hno : nonOverlap L = true) :
    (basesPlus L).Nodup := by
  have hp := nonOverlap_pairwise L hv hno
  clear hno
  induction L with
  | nil => simp [basesPlus]
  | cons a t ih =>
    rw [List.pairwise_cons] at hp
    simp only [basesPlus]
    rw [List.nodup_append]
    refine ⟨nodup_blkAsc a, ih (fun x hx => hv x (List.mem_cons_of_mem _ hx)) hp.2, ?_⟩
    intro x hx y hy
    rw [mem_blkAsc] at hx
    rw [mem_basesPlus] at hy
    obtain ⟨b, hb, h1, h2⟩ := hy
    have := hp.1 b hb
    omega

theorem sortedBy_cons_cons (s : Strand) (a b : Blk) (rest : List Blk)
    (h : sortedBy (blkLe s) (a :: b :: rest) = true) : a.1 ≤ b.1 ∧ sortedBy (blkLe s) (b :: rest) = true := by
  simp only [sortedBy, Bool.and_eq_true] at h
  refine ⟨?_, h.2⟩
  have := h.1
  cases s <;> simp [blkLe, blkLePlus, blkLeOther] at this <;> omega

/-- sorted, no empty block, every position listed once ⇒ not self-overlapping -/
theorem nonOverlap_of_nodup (s : Strand) (S : List Blk) (hs : sortedBy (blkLe s) S = true)
    (hpos : ∀ b ∈ S, b.1 < b.2) (hnd : (basesPlus S).Nodup) : nonOverlap S = true := by
  induction S with
  | nil => rfl
  | cons a t ih =>
    cases t with
    | nil => rfl
    | cons b rest =>
      obtain ⟨hab, hs'⟩ := sortedBy_cons_cons s a b rest hs
      simp only [basesPlus] at hnd
      rw [List.nodup_append] at hnd
      obtain ⟨_, hnd2, hdis⟩ := hnd
      have ih' := ih hs' (fun x hx => hpos x (List.mem_cons_of_mem _ hx)) (by simpa [basesPlus] using hnd2)
      simp only [nonOverlap, Bool.and_eq_true, decide_eq_true_eq]
      refine ⟨?_, ih'⟩
      have hb := hpos b (by simp)
      have ha := hpos a (by simp)
      by_cases hlt : a.2 ≤ b.1
      · exact hlt
      · exfalso
        have h1 : b.1 ∈ blkAsc a := by rw [mem_blkAsc]; omega
        have h2 : b.1 ∈ blkAsc b ++ basesPlus rest := by
          apply List.mem_append_left; rw [mem_blkAsc]; omega
        exact hdis _ h1 _ h2 rfl

/-! ### the merged interval of `_union_single_interval` -/

theorem foldl_min_le (ov : List Blk) (s0 : Nat) : ov.foldl (fun m x => min m x.1) s0 ≤ s0 := by
  induction ov generalizing s0 with
  | nil => simp
  | cons y ys ih =>
    simp only [List.foldl_cons]
    have := ih (min s0 y.1)
    omega

theorem le_foldl_max (ov : List Blk) (e0 : Nat) : e0 ≤ ov.foldl (fun m x => max m x.2) e0 := by
  induction ov generalizing e0 with
  | nil => simp
  | cons y ys ih =>
    simp only [List.foldl_cons]
    have := ih (max e0 y.2)
    omega

theorem foldl_max_le (ov : List Blk) (e0 : Nat) : ov.foldl (fun m x => max m x.2) e0 ≤ max e0 (maxEndOf ov) := by
  induction ov generalizing e0 with
  | nil => simp [maxEndOf]
  | cons y ys ih =>
    simp only [List.foldl_cons, maxEndOf]
    have := ih (max e0 y.2)
    omega

/-- every block of `ov` shares a position with `b`, `b ⊆ (s0, e0)`: the hull covers exactly `(s0, e0)` and `ov` -/
theorem hull_cov (ov : List Blk) (b : Blk) (s0 e0 : Nat) (h0 : s0 ≤ b.1) (h1 : b.2 ≤ e0)
    (hov : ∀ y ∈ ov, max y.1 b.1 < min y.2 b.2) (q : Nat) :
    (ov.foldl (fun m x => min m x.1) s0 ≤ q ∧ q < ov.foldl (fun m x => max m x.2) e0) ↔
      ((s0 ≤ q ∧ q < e0) ∨ ∃ y ∈ ov, y.1 ≤ q ∧ q < y.2) := by
  induction ov generalizing s0 e0 with
  | nil => simp
  | cons y ys ih =>
    simp only [List.foldl_cons]
    have hy := hov y (by simp)
    rw [ih (min s0 y.1) (max e0 y.2) (by omega) (by omega) (fun z hz => hov z (List.mem_cons_of_mem _ hz))]
    simp only [List.mem_cons, exists_eq_or_imp]
    constructor
    · rintro (h | h)
      · by_cases hq : s0 ≤ q ∧ q < e0
        · exact Or.inl hq
        · right; left; omega
      · exact Or.inr (Or.inr h)
    · rintro (h | h | h)
      · left; omega
      · left; omega
      · exact Or.inr h

end BioCantor.Proofs.Union
