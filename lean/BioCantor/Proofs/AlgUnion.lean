/-
  C02-T3: `union` (and `merge_overlapping`, which is the same block-by-block merge).
  The heart is `Union.uws_spec`: what `X.union(other: SingleInterval)` returns for compatible parents.
-/
import BioCantor.Proofs.AlgOverlap
import BioCantor.Proofs.AlgOptimize
namespace BioCantor.Proofs.Union
open BioCantor BioCantor.Spec BioCantor.Model BioCantor.Proofs

/-! ### position multisets without repetition -/

theorem mem_basesPlus (bs : List Blk) (q : Nat) : q ∈ basesPlus bs ↔ ∃ b ∈ bs, b.1 ≤ q ∧ q < b.2 := by
  rw [← coversBlocks_iff_mem_basesPlus, coversBlocks_iff]

theorem nodup_blkAsc (b : Blk) : (blkAsc b).Nodup := by
  unfold blkAsc; exact List.nodup_range' 1

theorem mem_blkAsc (b : Blk) (q : Nat) : q ∈ blkAsc b ↔ b.1 ≤ q ∧ q < b.2 := by
  simp only [blkAsc, List.mem_range'_1]; omega

/-- a layout that is not self-overlapping lists every position once -/
theorem nodup_of_nonOverlap (L : List Blk) (hv : ∀ b ∈ L, b.1 ≤ b.2) (hno : nonOverlap L = true) :
    (basesPlus L).Nodup := by
  have hp := nonOverlap_pairwise L hv hno
  clear hno
  induction L with
  | nil => simp [basesPlus]
  | cons a t ih =>
    rw [List.pairwise_cons] at hp
    simp only [basesPlus]
    rw [List.nodup_append]
    refine ⟨nodup_blkAsc a, ih (fun x hx => hv x (List.mem_cons_of_mem _ hx)) hp.2, ?_⟩
    intro x hx y hy
    rw [mem_blkAsc] at hx
    rw [mem_basesPlus] at hy
    obtain ⟨b, hb, h1, h2⟩ := hy
    have := hp.1 b hb
    omega

theorem sortedBy_cons_cons (s : Strand) (a b : Blk) (rest : List Blk)
    (h : sortedBy (blkLe s) (a :: b :: rest) = true) : a.1 ≤ b.1 ∧ sortedBy (blkLe s) (b :: rest) = true := by
  simp only [sortedBy, Bool.and_eq_true] at h
  refine ⟨?_, h.2⟩
  have := h.1
  cases s <;> simp [blkLe, blkLePlus, blkLeOther] at this <;> omega

/-- sorted, no empty block, every position listed once ⇒ not self-overlapping -/
theorem nonOverlap_of_nodup (s : Strand) (S : List Blk) (hs : sortedBy (blkLe s) S = true)
    (hpos : ∀ b ∈ S, b.1 < b.2) (hnd : (basesPlus S).Nodup) : nonOverlap S = true := by
  induction S with
  | nil => rfl
  | cons a t ih =>
    cases t with
    | nil => rfl
    | cons b rest =>
      obtain ⟨hab, hs'⟩ := sortedBy_cons_cons s a b rest hs
      simp only [basesPlus] at hnd
      rw [List.nodup_append] at hnd
      obtain ⟨_, hnd2, hdis⟩ := hnd
      have ih' := ih hs' (fun x hx => hpos x (List.mem_cons_of_mem _ hx)) (by simpa [basesPlus] using hnd2)
      simp only [nonOverlap, Bool.and_eq_true, decide_eq_true_eq]
      refine ⟨?_, ih'⟩
      have hb := hpos b (by simp)
      have ha := hpos a (by simp)
      by_cases hlt : a.2 ≤ b.1
      · exact hlt
      · exfalso
        have h1 : b.1 ∈ blkAsc a := by rw [mem_blkAsc]; omega
        have h2 : b.1 ∈ blkAsc b ++ basesPlus rest := by
          apply List.mem_append_left; rw [mem_blkAsc]; omega
        exact hdis _ h1 _ h2 rfl

/-! ### the merged interval of `_union_single_interval` -/

theorem foldl_min_le (ov : List Blk) (s0 : Nat) : ov.foldl (fun m x => min m x.1) s0 ≤ s0 := by
  induction ov generalizing s0 with
  | nil => simp
  | cons y ys ih =>
    simp only [List.foldl_cons]
    have := ih (min s0 y.1)
    omega

theorem le_foldl_max (ov : List Blk) (e0 : Nat) : e0 ≤ ov.foldl (fun m x => max m x.2) e0 := by
  induction ov generalizing e0 with
  | nil => simp
  | cons y ys ih =>
    simp only [List.foldl_cons]
    have := ih (max e0 y.2)
    omega

theorem foldl_max_le (ov : List Blk) (e0 : Nat) : ov.foldl (fun m x => max m x.2) e0 ≤ max e0 (maxEndOf ov) := by
  induction ov generalizing e0 with
  | nil => simp [maxEndOf]
  | cons y ys ih =>
    simp only [List.foldl_cons, maxEndOf]
    have := ih (max e0 y.2)
    omega

/-- every block of `ov` shares a position with `b`, `b ⊆ (s0, e0)`: the hull covers exactly `(s0, e0)` and `ov` -/
theorem hull_cov (ov : List Blk) (b : Blk) (s0 e0 : Nat) (h0 : s0 ≤ b.1) (h1 : b.2 ≤ e0)
    (hov : ∀ y ∈ ov, max y.1 b.1 < min y.2 b.2) (q : Nat) :
    (ov.foldl (fun m x => min m x.1) s0 ≤ q ∧ q < ov.foldl (fun m x => max m x.2) e0) ↔
      ((s0 ≤ q ∧ q < e0) ∨ ∃ y ∈ ov, y.1 ≤ q ∧ q < y.2) := by
  induction ov generalizing s0 e0 with
  | nil => simp
  | cons y ys ih =>
    simp only [List.foldl_cons]
    have hy := hov y (by simp)
    rw [ih (min s0 y.1) (max e0 y.2) (by omega) (by omega) (fun z hz => hov z (List.mem_cons_of_mem _ hz))]
    simp only [List.mem_cons, exists_eq_or_imp]
    constructor
    · rintro (h | h)
      · by_cases hq : s0 ≤ q ∧ q < e0
        · exact Or.inl hq
        · right; left; omega
      · exact Or.inr (Or.inr h)
    · rintro (h | h | h)
      · left; omega
      · left; omega
      · exact Or.inr h

/-! ### what `X.union(other: SingleInterval)` returns (parents aside) -/

/-- a location that cannot be optimised away: a SingleInterval, or a CompoundInterval with a position -/
def Good : Location → Prop
  | .single _ _ => True
  | .compound l => ∃ q, covers l q = true
  | .empty => False

theorem good_of_covers (r : Location) (q : Nat) (h : locationCovers r q = true) : Good r := by
  cases r with
  | single _ _ => trivial
  | compound l => exact ⟨q, h⟩
  | empty => simp [locationCovers] at h

theorem good_ne_empty (r : Location) (h : Good r) : r ≠ .empty := by
  intro he; subst he; exact h

/-- the result `r` of `L.union(SingleInterval b)` on strand `st` -/
structure USpec (L : Location) (b : Blk) (st : Strand) (r : Location) : Prop where
  wf : wfLocation r = true
  strand : r = .empty ∨ locationStrand? r = some st
  cov : ∀ q, locationCovers r q = (locationCovers L q || coversBlocks [b] q)
  ends : ∀ x ∈ locationBlocks r, x.2 ≤ max (maxEndOf (locationBlocks L)) b.2
  disj : nonOverlap (locationBlocks L) = true → nonOverlap (locationBlocks r) = true
  good : Good L → Good r

theorem sortBlocks_pair (s : Strand) (a b : Blk) :
    sortBlocks s [a, b] = if blkLe s a b then [a, b] else [b, a] := by
  split
  · rename_i h
    exact sortBlocks_eq_of_perm_sorted s (List.Perm.refl _) (by simp [h])
  · rename_i h
    have ht := blkLe_total s a b
    have : blkLe s b a = true := by
      cases hh : blkLe s a b
      · simpa [hh] using ht
      · exact absurd hh h
    exact sortBlocks_eq_of_perm_sorted s (List.Perm.swap a b []) (by simp [this])

theorem blkLe_fst (s : Strand) (a b : Blk) (h : blkLe s a b = true) : a.1 ≤ b.1 := by
  cases s <;> simp [blkLe, blkLePlus, blkLeOther] at h <;> omega

theorem unionSS_spec (a b : Blk) (st : Strand) (ha : a.1 ≤ a.2) (hb : b.1 ≤ b.2) :
    ∃ r, unionSS a b st true = .ok r ∧ USpec (.single a st) b st r := by
  unfold unionSS
  by_cases h1 : a.len = 0
  · have ha0 : a.2 - a.1 = 0 := h1
    refine ⟨.single b st, by simp [h1, mkSingleN, hb]; rfl, ?_⟩
    refine ⟨by simpa [wfLocation] using hb, Or.inr rfl, ?_, ?_, fun _ => rfl, fun _ => trivial⟩
    · intro q
      simp only [locationCovers, coversBlocks, List.any_cons, List.any_nil, Bool.or_false]
      rw [Bool.eq_iff_iff]
      simp only [Bool.or_eq_true, Bool.and_eq_true, decide_eq_true_eq]
      omega
    · intro x hx
      simp only [locationBlocks, List.mem_singleton] at hx
      subst hx; omega
  · by_cases h2 : b.len = 0
    · have hb0 : b.2 - b.1 = 0 := h2
      refine ⟨.single a st, by simp [h1, h2, mkSingleN, ha]; rfl, ?_⟩
      refine ⟨by simpa [wfLocation] using ha, Or.inr rfl, ?_, ?_, fun _ => rfl, fun _ => trivial⟩
      · intro q
        simp only [locationCovers, coversBlocks, List.any_cons, List.any_nil, Bool.or_false]
        rw [Bool.eq_iff_iff]
        simp only [Bool.or_eq_true, Bool.and_eq_true, decide_eq_true_eq]
        omega
      · intro x hx
        simp only [locationBlocks, List.mem_singleton] at hx
        subst hx
        simp only [locationBlocks, maxEndOf]; omega
    · have ha0 : ¬ (a.2 - a.1 = 0) := h1
      have hb0 : ¬ (b.2 - b.1 = 0) := h2
      by_cases h3 : overlapKernel a b = true
      · have hk := (overlapKernel_iff a b).mp h3
        have hv : min a.1 b.1 ≤ max a.2 b.2 := by omega
        refine ⟨.single (min a.1 b.1, max a.2 b.2) st, by simp [h1, h2, h3, mkSingleN, hv]; rfl, ?_⟩
        refine ⟨by simpa [wfLocation] using hv, Or.inr rfl, ?_, ?_, fun _ => rfl, fun _ => trivial⟩
        · intro q
          simp only [locationCovers, coversBlocks, List.any_cons, List.any_nil, Bool.or_false]
          rw [Bool.eq_iff_iff]
          simp only [Bool.or_eq_true, Bool.and_eq_true, decide_eq_true_eq]
          omega
        · intro x hx
          simp only [locationBlocks, List.mem_singleton] at hx
          subst hx
          simp only [locationBlocks, maxEndOf]; omega
      · have hk : ¬ (max a.1 b.1 < min a.2 b.2) := fun h => h3 ((overlapKernel_iff a b).mpr h)
        have hvv : ∀ x ∈ [a, b], x.1 ≤ x.2 := by
          intro x hx
          simp only [List.mem_cons, List.not_mem_nil, or_false] at hx
          rcases hx with rfl | rfl <;> assumption
        have hc := canon_sortBlocks st (bs := [a, b]) (by simp) hvv
        refine ⟨.compound ⟨sortBlocks st [a, b], st⟩, ?_, ?_⟩
        · simp only [h1, h2, h3, if_false, Bool.true_and, mkCompound, mkCompoundLoc_ok st (bs := [a, b]) (by simp) hvv]
          rfl
        · refine ⟨by simpa [wfLocation] using hc, Or.inr rfl, ?_, ?_, ?_, ?_⟩
          · intro q
            simp only [locationCovers, covers, coversBlocks_sort]
            simp [coversBlocks]
          · intro x hx
            simp only [locationBlocks] at hx
            have hx' := (sortBlocks_perm st [a, b]).mem_iff.mp hx
            simp only [List.mem_cons, List.not_mem_nil, or_false] at hx'
            simp only [locationBlocks, maxEndOf]
            rcases hx' with rfl | rfl <;> omega
          · intro _
            simp only [locationBlocks]
            rw [sortBlocks_pair]
            split
            · rename_i hle
              have := blkLe_fst st a b hle
              simp only [nonOverlap, Bool.and_true, decide_eq_true_eq]; omega
            · rename_i hle
              have ht := blkLe_total st a b
              have hba : blkLe st b a = true := by
                cases hh : blkLe st a b
                · simpa [hh] using ht
                · exact absurd hh hle
              have := blkLe_fst st b a hba
              simp only [nonOverlap, Bool.and_true, decide_eq_true_eq]; omega
          · intro _
            apply good_of_covers _ a.1
            simp only [locationCovers, covers, coversBlocks_sort]
            simp [coversBlocks]; omega

/-- the common tail of `CompoundInterval._union_single_interval`: blocks `non` that do not overlap `b`, plus one
    block `h` covering `b` and the overlapping blocks `ov` -/
theorem cs_finish (la : Loc) (hc : la.Canon) (b : Blk) (ov non : List Blk)
    (hperm : (ov ++ non).Perm la.blocks) (hk : ∀ x ∈ non, overlapKernel x b = false)
    (h : Blk) (hv : h.1 ≤ h.2)
    (hcov : ∀ q, coversBlocks [h] q = (coversBlocks [b] q || coversBlocks ov q))
    (hend : h.2 ≤ max b.2 (maxEndOf ov)) :
    ∃ r, (mkCompoundLoc (non ++ [h]) la.strand >>= optimizeLoc true) = .ok r ∧
      USpec (.compound la) b la.strand r := by
  have hvalid : ∀ x ∈ la.blocks, x.1 ≤ x.2 := (blocksValid_iff _).mp hc.2.1
  have hnonmem : ∀ x ∈ non, x ∈ la.blocks := fun x hx => hperm.mem_iff.mp (List.mem_append_right _ hx)
  have hvv : ∀ x ∈ non ++ [h], x.1 ≤ x.2 := by
    intro x hx
    rcases List.mem_append.mp hx with hx | hx
    · exact hvalid x (hnonmem x hx)
    · simp only [List.mem_singleton] at hx; subst hx; exact hv
  have hne : non ++ [h] ≠ [] := by simp
  have hcan := canon_sortBlocks la.strand hne hvv
  obtain ⟨r, hr, hs⟩ := optimizeLoc_spec true (sortBlocks la.strand (non ++ [h])) la.strand hcan
  refine ⟨r, ?_, ?_⟩
  · rw [mkCompoundLoc_ok la.strand hne hvv, ok_bind, hr]
  · have hcovS : ∀ q, coversBlocks (sortBlocks la.strand (non ++ [h])) q =
        (coversBlocks la.blocks q || coversBlocks [b] q) := by
      intro q
      rw [coversBlocks_sort, coversBlocks_append, hcov, ← coversBlocks_perm hperm, coversBlocks_append]
      cases coversBlocks non q <;> cases coversBlocks [b] q <;> cases coversBlocks ov q <;> rfl
    refine ⟨hs.wf, hs.strand, ?_, ?_, ?_, ?_⟩
    · intro q
      rw [hs.locationCovers, hcovS]
      rfl
    · intro x hx
      have h1 := hs.ends_le x hx
      rw [maxEndOf_perm (sortBlocks_perm la.strand (non ++ [h])), maxEndOf_append] at h1
      have h2 : maxEndOf la.blocks = max (maxEndOf ov) (maxEndOf non) := by
        rw [← maxEndOf_perm hperm, maxEndOf_append]
      simp only [maxEndOf] at h1
      simp only [locationBlocks]
      omega
    · intro hno
      simp only [locationBlocks] at hno
      have hnd := nodup_of_nonOverlap la.blocks hvalid hno
      rw [← (basesPlus_perm hperm).nodup_iff, basesPlus_append, List.nodup_append] at hnd
      obtain ⟨_, hndnon, hdis⟩ := hnd
      have hndS : (basesPlus (sortBlocks la.strand (non ++ [h]))).Nodup := by
        rw [(basesPlus_perm (sortBlocks_perm la.strand (non ++ [h]))).nodup_iff, basesPlus_append,
          List.nodup_append]
        refine ⟨hndnon, by simpa [basesPlus] using nodup_blkAsc h, ?_⟩
        intro x hx y hy hxy
        subst hxy
        have hy' : coversBlocks [h] x = true := by
          rw [coversBlocks_iff_mem_basesPlus]; exact hy
        rw [hcov] at hy'
        simp only [Bool.or_eq_true] at hy'
        rcases hy' with hy' | hy'
        · rw [mem_basesPlus] at hx
          obtain ⟨z, hz, hz1⟩ := hx
          have : overlapKernel z b = true := by
            rw [overlapKernel_iff_exists]
            rw [coversBlocks_iff] at hy'
            obtain ⟨w, hw, hw1⟩ := hy'
            simp only [List.mem_singleton] at hw
            subst hw
            exact ⟨x, hz1, hw1⟩
          rw [hk z hz] at this
          cases this
        · rw [coversBlocks_iff_mem_basesPlus] at hy'
          exact hdis x hy' x hx rfl
      have hndr : (basesPlus (locationBlocks r)).Nodup := by
        rw [(hs.bases rfl).nodup_iff]; exact hndS
      cases r with
      | single _ _ => rfl
      | empty => rfl
      | compound l =>
        have hcl : l.Canon := by simpa [wfLocation] using hs.wf
        exact nonOverlap_of_nodup l.strand l.blocks hcl.2.2 hs.pos hndr
    · rintro ⟨q, hq⟩
      apply good_of_covers r q
      rw [hs.locationCovers, hcovS]
      simp only [covers] at hq
      simp [hq]

theorem unionCS_spec (la : Loc) (hc : la.Canon) (b : Blk) (hb : b.1 ≤ b.2) :
    ∃ r, unionCS la b true = .ok r ∧ USpec (.compound la) b la.strand r := by
  have hperm : (la.blocks.filter (fun x => overlapKernel x b) ++
      la.blocks.filter (fun x => !overlapKernel x b)).Perm la.blocks :=
    List.filter_append_perm _ _
  have hk : ∀ x ∈ la.blocks.filter (fun x => !overlapKernel x b), overlapKernel x b = false := by
    intro x hx
    have := (List.mem_filter.mp hx).2
    simpa using this
  unfold unionCS
  simp only [Bool.true_and]
  by_cases he : (la.blocks.filter (fun x => overlapKernel x b)).isEmpty = true
  · have he' : la.blocks.filter (fun x => overlapKernel x b) = [] := by simpa using he
    simp only [he, Bool.not_true, Bool.false_eq_true, if_false]
    rw [he'] at hperm
    exact cs_finish la hc b [] _ hperm hk b hb (by intro q; simp [coversBlocks]) (by omega)
  · simp only [he, Bool.not_false, if_true]
    generalize hov : la.blocks.filter (fun x => overlapKernel x b) = ov at hperm he
    have hovk : ∀ y ∈ ov, max y.1 b.1 < min y.2 b.2 := by
      intro y hy
      rw [← hov] at hy
      exact (overlapKernel_iff y b).mp (List.mem_filter.mp hy).2
    have hs1 := foldl_min_le ov b.1
    have hs2 := le_foldl_max ov b.2
    have hs3 := foldl_max_le ov b.2
    have hse : ov.foldl (fun m x => min m x.1) b.1 ≤ ov.foldl (fun m x => max m x.2) b.2 := by omega
    simp only [hse, if_true]
    apply cs_finish la hc b ov _ hperm hk _ hse
    · intro q
      rw [Bool.eq_iff_iff]
      have := hull_cov ov b b.1 b.2 (Nat.le_refl _) (Nat.le_refl _) hovk q
      simp only [Bool.or_eq_true, coversBlocks_iff, List.mem_singleton, exists_eq_left]
      exact this
    · exact hs3

/-! ### with parents -/

theorem uws_spec (L : Location) (pl : PKey) (b : Blk) (st : Strand) (pb : PKey) (hwf : WF L)
    (hst : locationStrand? L = some st) (hb : b.1 ≤ b.2) (hp : sameParent pl pb = true) :
    ∃ r, unionWithSingle (L, pl) b st pb = .ok (withPar r pl) ∧ USpec L b st r := by
  have hgate : parentGate pl pb = true := by rw [parentGate_eq]; exact hp
  have hreq : requireParentsEq pl pb = .ok () := by rw [requireParentsEq_eq, hp]; rfl
  cases L with
  | empty => simp [locationStrand?] at hst
  | single a sa =>
    simp only [locationStrand?, Option.some.injEq] at hst
    subst hst
    obtain ⟨r, hr, hs⟩ := unionSS_spec a b sa hwf hb
    refine ⟨r, ?_, hs⟩
    unfold unionWithSingle
    simp only [locStrand, hgate, hreq]
    cases pl <;> cases pb <;> simp [hr] <;> rfl
  | compound la =>
    simp only [locationStrand?, Option.some.injEq] at hst
    subst hst
    obtain ⟨r, hr, hs⟩ := unionCS_spec la hwf b hb
    refine ⟨r, ?_, hs⟩
    unfold unionWithSingle
    simp only [locStrand, hgate, hr, hreq]
    cases pl <;> cases pb <;> simp <;> rfl

theorem uws_none (L : Location) (pl : PKey) (b : Blk) (sb : Strand) (pb : PKey)
    (h : locationStrand? L ≠ some sb ∨ sameParent pl pb = false) :
    ans (unionWithSingle (L, pl) b sb pb) = none := by
  have hcond : sameParent pl pb = false → (!pl.isEmpty || !pb.isEmpty) = true := by
    intro h2
    cases pl <;> cases pb <;> simp_all [sameParent]
  unfold unionWithSingle
  cases L with
  | empty => rfl
  | single a sa =>
    by_cases hs : sa = sb
    · subst hs
      rcases h with h | h2
      · exact absurd rfl h
      · simp [locStrand, hcond h2, requireParentsEq_eq, h2]
        rfl
    · simp [locStrand, hs]; rfl
  | compound la =>
    by_cases hs : la.strand = sb
    · subst hs
      rcases h with h | h2
      · exact absurd rfl h
      · simp [locStrand, hcond h2, requireParentsEq_eq, h2]
        rfl
    · simp [locStrand, hs]; rfl

theorem wf_of_wfLocation (r : Location) (h : wfLocation r = true) : WF r := by
  cases r with
  | single _ _ => simpa [wfLocation, WF] using h
  | compound _ => simpa [wfLocation, WF] using h
  | empty => trivial

theorem withPar_of_ne (r : Location) (p : PKey) (h : r ≠ .empty) : withPar r p = (r, p) := by
  cases r <;> first | rfl | exact absurd rfl h

/-- `reduce(lambda left, right: left.union(right), blocks)` from a receiver that cannot vanish -/
theorem fold_spec (st : Strand) (pl : PKey) (rest : List (Blk × PKey))
    (hrest : ∀ x ∈ rest, x.1.1 ≤ x.1.2 ∧ sameParent pl x.2 = true)
    (L : Location) (hwf : WF L) (hst : locationStrand? L = some st) (hg : Good L)
    (hno : nonOverlap (locationBlocks L) = true) :
    ∃ r, rest.foldlM (fun (l : PLoc) x => unionWithSingle l x.1 st x.2) ((L, pl) : PLoc) = .ok (r, pl) ∧
      wfLocation r = true ∧ locationStrand? r = some st ∧ Good r ∧ nonOverlap (locationBlocks r) = true ∧
      (∀ q, locationCovers r q = (locationCovers L q || coversBlocks (rest.map (·.1)) q)) ∧
      (∀ x ∈ locationBlocks r, x.2 ≤ max (maxEndOf (locationBlocks L)) (maxEndOf (rest.map (·.1)))) := by
  induction rest generalizing L with
  | nil =>
    refine ⟨L, rfl, ?_, hst, hg, hno, by intro q; simp [coversBlocks], ?_⟩
    · cases L <;> simp [wfLocation, WF] at hwf ⊢ <;> exact hwf
    · intro x hx
      have := le_maxEndOf_of_mem _ x hx
      omega
  | cons y ys ih =>
    obtain ⟨hy1, hy2⟩ := hrest y (by simp)
    obtain ⟨r1, hr1, hs1⟩ := uws_spec L pl y.1 st y.2 hwf hst hy1 hy2
    have hg1 := hs1.good hg
    have hne1 := good_ne_empty r1 hg1
    have hst1 : locationStrand? r1 = some st := by
      rcases hs1.strand with h | h
      · exact absurd h hne1
      · exact h
    obtain ⟨r, hr, h1, h2, h3, h4, h5, h6⟩ :=
      ih (fun x hx => hrest x (List.mem_cons_of_mem _ hx)) r1 (wf_of_wfLocation r1 hs1.wf) hst1 hg1 (hs1.disj hno)
    refine ⟨r, ?_, h1, h2, h3, h4, ?_, ?_⟩
    · rw [List.foldlM_cons, hr1, withPar_of_ne r1 pl hne1]
      exact hr
    · intro q
      rw [h5, hs1.cov, List.map_cons, coversBlocks_cons]
      simp only [coversBlocks, List.any_cons, List.any_nil, Bool.or_false, Bool.or_assoc]
    · intro x hx
      have h7 := h6 x hx
      have h8 : maxEndOf (locationBlocks r1) ≤ max (maxEndOf (locationBlocks L)) y.1.2 :=
        (maxEndOf_le_iff _ _).mpr hs1.ends
      simp only [List.map_cons, maxEndOf]
      omega

/-- `_merge_compound_blocks` on valid blocks whose parents are pairwise compatible -/
theorem mergeBlocks_spec (blocks : List (Blk × PKey)) (st : Strand) (hne : blocks ≠ [])
    (hv : ∀ x ∈ blocks, x.1.1 ≤ x.1.2)
    (hp : ∀ x ∈ blocks, ∀ y ∈ blocks, sameParent x.2 y.2 = true) :
    ∃ r p0, mergeBlocks blocks st = .ok (r, p0) ∧ (∃ x ∈ blocks, x.2 = p0) ∧
      wfLocation r = true ∧ locationStrand? r = some st ∧ Good r ∧ nonOverlap (locationBlocks r) = true ∧
      (∀ q, locationCovers r q = coversBlocks (blocks.map (·.1)) q) ∧
      (∀ x ∈ locationBlocks r, x.2 ≤ maxEndOf (blocks.map (·.1))) := by
  match blocks, hne with
  | (b0, p0) :: rest, _ =>
    obtain ⟨r, hr, h1, h2, h3, h4, h5, h6⟩ := fold_spec st p0 rest
      (fun x hx => ⟨hv x (List.mem_cons_of_mem _ hx), hp (b0, p0) (by simp) x (List.mem_cons_of_mem _ hx)⟩)
      (.single b0 st) (hv (b0, p0) (by simp)) rfl trivial rfl
    refine ⟨r, p0, hr, ⟨(b0, p0), by simp, rfl⟩, h1, h2, h3, h4, ?_, ?_⟩
    · intro q
      rw [h5, List.map_cons, coversBlocks_cons]
      simp [locationCovers, coversBlocks]
    · intro x hx
      have := h6 x hx
      simp only [locationBlocks, maxEndOf, List.map_cons] at this ⊢
      omega

theorem okUnion_of (a b : PLoc) (ha : WFP a) (hb : WFP b) (hsp : sameParent a.2 b.2 = true) (st : Strand)
    (hsa : locationStrand? a.1 = some st) (hsb : locationStrand? b.1 = some st)
    (r : Location) (pr : PKey) (hpr : pr = a.2 ∨ pr = b.2) (hwf : wfLocation r = true)
    (hstr : r = .empty ∨ locationStrand? r = some st)
    (hcov : ∀ q, locationCovers r q = (locationCovers a.1 q || locationCovers b.1 q))
    (hends : ∀ x ∈ locationBlocks r,
      x.2 ≤ max (maxEndOf (locationBlocks a.1)) (maxEndOf (locationBlocks b.1))) :
    okUnion a b (some (withPar r pr)) = true := by
  have hae : a.1 ≠ .empty := by intro h; rw [h] at hsa; simp [locationStrand?] at hsa
  have hbe : b.1 ≠ .empty := by intro h; rw [h] at hsb; simp [locationStrand?] at hsb
  have hnr : unionRefused a b = false := by
    simp [unionRefused, strandEq, hsa, hsb, hsp, hae, hbe]
  unfold okUnion
  simp only [hnr, Bool.false_eq_true, if_false, withPar_fst, Bool.and_eq_true]
  refine ⟨⟨⟨?_, ?_⟩, ?_⟩, ?_⟩
  · apply resultOk_withPar r pr a.2 hwf
    · intro n hn x hx
      have h0 := hends x hx
      have hla : parentSeqLen a.2 = some n := by
        rcases hpr with rfl | rfl
        · exact hn
        · rw [sameParent_seqLen _ _ hsp]; exact hn
      have hlb : parentSeqLen b.2 = some n := by rw [← sameParent_seqLen _ _ hsp]; exact hla
      have h1 := (maxEndOf_le_iff _ n).mpr (ha.2.2 n hla)
      have h2 := (maxEndOf_le_iff _ n).mpr (hb.2.2 n hlb)
      omega
    · rcases hpr with rfl | rfl
      · exact sameParent_refl _
      · rw [sameParent_symm]; exact hsp
  · simp only [endsWithin, List.all_eq_true, decide_eq_true_eq]
    intro x hx
    rw [hiOf_pair]
    exact hends x hx
  · rw [allUpTo_iff]
    intro p _
    simp [hcov]
  · rw [hsa]
    rcases hstr with h | h
    · simp [strandIs, h]
    · simp [strandIs, h]

theorem parCheck {β : Type} (a2 b2 : PKey) (K : R β) :
    (if (!a2.isEmpty || !b2.isEmpty) = true then (requireParentsEq a2 b2 >>= fun _ => K) else K) =
      if sameParent a2 b2 then K else .error .MismatchedParent := by
  cases a2 with
  | nil =>
    cases b2 with
    | nil => rfl
    | cons y ys => rfl
  | cons x xs =>
    simp only [List.isEmpty_cons, Bool.not_false, Bool.true_or, if_true]
    rw [requireParentsEq_eq]
    split <;> rfl

theorem unionP_single_right (A : Location) (pa : PKey) (y : Blk) (sb : Strand) (pb : PKey) (hA : A ≠ .empty) :
    unionP (A, pa) (.single y sb, pb) = unionWithSingle (A, pa) y sb pb := by
  cases A <;> first | rfl | exact absurd rfl hA

theorem sortSingles_perm (M : List (Blk × PKey)) : (sortSingles M).Perm M :=
  List.mergeSort_perm M _

/-- what `union` returns for operands on one strand with compatible parents -/
theorem unionP_spec (a b : PLoc) (ha : WF a.1) (hb : WF b.1) (hsp : sameParent a.2 b.2 = true) (st : Strand)
    (hsa : locationStrand? a.1 = some st) (hsb : locationStrand? b.1 = some st) :
    ∃ r pr, unionP a b = .ok (withPar r pr) ∧ (pr = a.2 ∨ pr = b.2) ∧ wfLocation r = true ∧
      (r = .empty ∨ locationStrand? r = some st) ∧
      (∀ q, locationCovers r q = (locationCovers a.1 q || locationCovers b.1 q)) ∧
      (∀ x ∈ locationBlocks r, x.2 ≤ max (maxEndOf (locationBlocks a.1)) (maxEndOf (locationBlocks b.1))) ∧
      (nonOverlap (locationBlocks a.1) = true → nonOverlap (locationBlocks b.1) = true →
        nonOverlap (locationBlocks r) = true) := by
  obtain ⟨A, pa⟩ := a
  obtain ⟨B, pb⟩ := b
  simp only at ha hb hsp hsa hsb ⊢
  have hsp' : sameParent pb pa = true := by rw [sameParent_symm]; exact hsp
  cases B with
  | empty => simp [locationStrand?] at hsb
  | single y sb =>
    simp only [locationStrand?, Option.some.injEq] at hsb
    subst hsb
    have hA : A ≠ .empty := by intro h; rw [h] at hsa; simp [locationStrand?] at hsa
    obtain ⟨r, hr, hs⟩ := uws_spec A pa y sb pb ha hsa hb hsp
    refine ⟨r, pa, ?_, Or.inl rfl, hs.wf, hs.strand, ?_, ?_, fun h _ => hs.disj h⟩
    · rw [unionP_single_right A pa y sb pb hA]; exact hr
    · intro q; rw [hs.cov]; rfl
    · intro x hx
      have := hs.ends x hx
      simp only [locationBlocks, maxEndOf] at this ⊢
      omega
  | compound lb =>
    simp only [locationStrand?, Option.some.injEq] at hsb
    cases A with
    | empty => simp [locationStrand?] at hsa
    | single x sa =>
      simp only [locationStrand?, Option.some.injEq] at hsa
      subst hsa
      obtain ⟨r, hr, hs⟩ := uws_spec (.compound lb) pb x sa pa hb (by simp [locationStrand?, hsb]) ha hsp'
      refine ⟨r, pb, ?_, Or.inr rfl, hs.wf, hs.strand, ?_, ?_, fun _ h => hs.disj h⟩
      · have : unionP (.single x sa, pa) (.compound lb, pb) =
            (do if sa ≠ lb.strand then throw Err.ValueError
                if (!pa.isEmpty || !pb.isEmpty) = true then requireParentsEq pa pb
                unionWithSingle (.compound lb, pb) x sa pa) := rfl
        rw [this]
        simp only [hsb, ne_eq, not_true_eq_false, if_false]
        rw [parCheck pa pb, hsp]
        simp only [if_true]
        exact hr
      · intro q
        rw [hs.cov, Bool.or_comm]; rfl
      · intro y hy
        have := hs.ends y hy
        simp only [locationBlocks, maxEndOf] at this ⊢
        omega
    | compound la =>
      simp only [locationStrand?, Option.some.injEq] at hsa
      have hva : ∀ x ∈ la.blocks, x.1 ≤ x.2 := (blocksValid_iff _).mp ha.2.1
      have hvb : ∀ x ∈ lb.blocks, x.1 ≤ x.2 := (blocksValid_iff _).mp hb.2.1
      have hmem : ∀ x ∈ sortSingles (la.blocks.map (fun x => (x, pa)) ++ lb.blocks.map (fun x => (x, pb))),
          (x.1 ∈ la.blocks ∧ x.2 = pa) ∨ (x.1 ∈ lb.blocks ∧ x.2 = pb) := by
        intro x hx
        have := (sortSingles_perm _).mem_iff.mp hx
        simp only [List.mem_append, List.mem_map] at this
        rcases this with ⟨y, hy, rfl⟩ | ⟨y, hy, rfl⟩
        · exact Or.inl ⟨hy, rfl⟩
        · exact Or.inr ⟨hy, rfl⟩
      have hne : sortSingles (la.blocks.map (fun x => (x, pa)) ++ lb.blocks.map (fun x => (x, pb))) ≠ [] := by
        intro h
        have hp := sortSingles_perm (la.blocks.map (fun x => (x, pa)) ++ lb.blocks.map (fun x => (x, pb)))
        rw [h] at hp
        have := hp.length_eq
        simp only [List.length_nil, List.length_append, List.length_map] at this
        have hla : la.blocks ≠ [] := ha.1
        cases hl : la.blocks with
        | nil => exact hla hl
        | cons _ _ => rw [hl] at this; simp at this; omega
      obtain ⟨r, p0, hr, ⟨x0, hx0, hp0⟩, h1, h2, h3, h4, h5, h6⟩ := mergeBlocks_spec _ la.strand hne
        (by
          intro x hx
          rcases hmem x hx with ⟨h, _⟩ | ⟨h, _⟩
          · exact hva _ h
          · exact hvb _ h)
        (by
          intro x hx y hy
          rcases hmem x hx with ⟨_, h⟩ | ⟨_, h⟩ <;> rcases hmem y hy with ⟨_, h'⟩ | ⟨_, h'⟩ <;> rw [h, h']
          · exact sameParent_refl _
          · exact hsp
          · exact hsp'
          · exact sameParent_refl _)
      have hmapfst : ((sortSingles (la.blocks.map (fun x => (x, pa)) ++ lb.blocks.map (fun x => (x, pb)))).map
          (·.1)).Perm (la.blocks ++ lb.blocks) := by
        have := (sortSingles_perm (la.blocks.map (fun x => (x, pa)) ++ lb.blocks.map (fun x => (x, pb)))).map (·.1)
        simpa [List.map_append, List.map_map, Function.comp_def] using this
      refine ⟨r, p0, ?_, ?_, h1, ?_, ?_, ?_, fun _ _ => h4⟩
      · have : unionP (.compound la, pa) (.compound lb, pb) =
            (do if la.strand ≠ lb.strand then throw Err.ValueError
                if (!pa.isEmpty || !pb.isEmpty) = true then requireParentsEq pa pb
                mergeBlocks (sortSingles (la.blocks.map (fun x => (x, pa)) ++ lb.blocks.map (fun x => (x, pb))))
                  la.strand) := rfl
        rw [this]
        simp only [hsa, hsb, ne_eq, not_true_eq_false, if_false]
        rw [parCheck pa pb, hsp]
        simp only [if_true]
        rw [withPar_of_ne r p0 (good_ne_empty r h3), ← hsa]
        exact hr
      · rcases hmem x0 hx0 with ⟨_, h⟩ | ⟨_, h⟩
        · left; rw [← hp0, h]
        · right; rw [← hp0, h]
      · right; rw [h2, hsa]
      · intro q
        rw [h5, coversBlocks_perm hmapfst, coversBlocks_append]; rfl
      · intro x hx
        have := h6 x hx
        rw [maxEndOf_perm hmapfst, maxEndOf_append] at this
        exact this

theorem unionP_none (a b : PLoc) (href : unionRefused a b = true) :
    ans (unionP a b) = none := by
  obtain ⟨A, pa⟩ := a
  obtain ⟨B, pb⟩ := b
  cases A with
  | empty => rfl
  | single x sa =>
    cases B with
    | empty => rfl
    | single y sb =>
      rw [unionP_single_right _ _ _ _ _ (by simp)]
      apply uws_none
      by_cases hs : sa = sb
      · subst hs
        right
        have : sameParent pa pb = false := by
          simpa [unionRefused, strandEq, locationStrand?] using href
        exact this
      · left; simpa [locationStrand?] using hs
    | compound lb =>
      have : unionP (.single x sa, pa) (.compound lb, pb) =
          (do if sa ≠ lb.strand then throw Err.ValueError
              if (!pa.isEmpty || !pb.isEmpty) = true then requireParentsEq pa pb
              unionWithSingle (.compound lb, pb) x sa pa) := rfl
      rw [this]
      by_cases hs : sa = lb.strand
      · have hsp : sameParent pa pb = false := by
          simpa [unionRefused, strandEq, locationStrand?, hs] using href
        simp only [hs, ne_eq, not_true_eq_false, if_false]
        rw [parCheck pa pb, hsp]
        rfl
      · simp only [ne_eq, hs, not_false_eq_true, if_true]
        rfl
  | compound la =>
    cases B with
    | empty => rfl
    | single y sb =>
      rw [unionP_single_right _ _ _ _ _ (by simp)]
      apply uws_none
      by_cases hs : la.strand = sb
      · subst hs
        right
        have : sameParent pa pb = false := by
          simpa [unionRefused, strandEq, locationStrand?] using href
        exact this
      · left; simpa [locationStrand?] using hs
    | compound lb =>
      have : unionP (.compound la, pa) (.compound lb, pb) =
          (do if la.strand ≠ lb.strand then throw Err.ValueError
              if (!pa.isEmpty || !pb.isEmpty) = true then requireParentsEq pa pb
              mergeBlocks (sortSingles (la.blocks.map (fun x => (x, pa)) ++ lb.blocks.map (fun x => (x, pb))))
                la.strand) := rfl
      rw [this]
      by_cases hs : la.strand = lb.strand
      · have hsp : sameParent pa pb = false := by
          simpa [unionRefused, strandEq, locationStrand?, hs] using href
        simp only [hs, ne_eq, not_true_eq_false, if_false]
        rw [parCheck pa pb, hsp]
        rfl
      · simp only [ne_eq, hs, not_false_eq_true, if_true]
        rfl

/-- not refused: both operands have a strand, the same one, and compatible parents -/
theorem not_refused (a b : PLoc) (h : unionRefused a b = false) :
    ∃ st, locationStrand? a.1 = some st ∧ locationStrand? b.1 = some st ∧ sameParent a.2 b.2 = true := by
  simp only [unionRefused, Bool.or_eq_false_iff, Bool.not_eq_false', beq_eq_false_iff_ne] at h
  obtain ⟨⟨⟨_, _⟩, h3⟩, h4⟩ := h
  unfold strandEq at h3
  cases hA : locationStrand? a.1 with
  | none => simp [hA] at h3
  | some sa =>
    cases hB : locationStrand? b.1 with
    | none => simp [hA, hB] at h3
    | some sb =>
      simp only [hA, hB, beq_iff_eq] at h3
      subst h3
      exact ⟨sa, rfl, rfl, h4⟩

end BioCantor.Proofs.Union

namespace BioCantor.Proofs
open BioCantor BioCantor.Spec BioCantor.Model

/-- C02-T3: union covers exactly the positions of either operand, keeps the strand, is well formed and inside the
    parent; it is refused exactly for EmptyLocation operands, different strands, incompatible parents (the parent
    test is two-sided since the repair of F-C19j) -/
theorem unionP_ok (a b : PLoc) (ha : WFP a) (hb : WFP b) :
    okUnion a b (ans (unionP a b)) = true := by
  cases href : unionRefused a b with
  | true =>
    rw [Union.unionP_none a b href]
    simp [okUnion, href]
  | false =>
    obtain ⟨st, hsa, hsb, hsp⟩ := Union.not_refused a b href
    obtain ⟨r, pr, hr, hpr, h1, h2, h3, h4, _⟩ := Union.unionP_spec a b ha.1 hb.1 hsp st hsa hsb
    rw [hr, ans_ok]
    exact Union.okUnion_of a b ha hb hsp st hsa hsb r pr hpr h1 h2 h3 h4

example : WFP ((.compound ⟨[(0, 2), (2, 2), (3, 5)], .minus⟩), [(some "chrA", none, some ['A','C','G','T','A'])]) ∧
    WFP ((.compound ⟨[(1, 4), (4, 5)], .minus⟩), [(some "chrA", none, some ['A','C','G','T','A'])]) := by decide

/-- operands without self-overlap give a union without overlapping blocks -/
theorem unionP_disjoint (a b : PLoc) (ha : WFP a) (hb : WFP b) :
    okUnionDisjoint a b (ans (unionP a b)) = true := by
  cases href : unionRefused a b with
  | true =>
    rw [Union.unionP_none a b href]
    rfl
  | false =>
    obtain ⟨st, hsa, hsb, hsp⟩ := Union.not_refused a b href
    obtain ⟨r, pr, hr, _, _, _, _, _, h5⟩ := Union.unionP_spec a b ha.1 hb.1 hsp st hsa hsb
    rw [hr, ans_ok]
    simp only [okUnionDisjoint, withPar_fst, nonOverlapLoc]
    split
    · rename_i h
      simp only [Bool.and_eq_true] at h
      exact h5 h.1 h.2
    · rfl

example : WFP ((.compound ⟨[(0, 3), (1, 1), (2, 5)], .plus⟩), [(some "chrA", none, some ['A','C','G','T','A'])]) := by
  decide

/-- merge_overlapping: unchanged when nothing overlaps, otherwise the same covered set without overlaps -/
theorem mergeOverlappingP_ok (a : PLoc) (ha : WFP a) : okMergeOverlapping a (ans (mergeOverlappingP a)) = true := by
  obtain ⟨A, pa⟩ := a
  cases A with
  | empty => simp [mergeOverlappingP, okMergeOverlapping, nonOverlapLoc, locationBlocks, nonOverlap]
  | single x sa => simp [mergeOverlappingP, okMergeOverlapping, nonOverlapLoc, locationBlocks, nonOverlap]
  | compound la =>
    by_cases hno : nonOverlap la.blocks = true
    · simp [mergeOverlappingP, okMergeOverlapping, nonOverlapLoc, locationBlocks, hno]
    · have hc : la.Canon := ha.1
      have hva : ∀ x ∈ la.blocks, x.1 ≤ x.2 := (blocksValid_iff _).mp hc.2.1
      have hmem : ∀ x ∈ la.blocks.map (fun x => (x, pa)), x.1 ∈ la.blocks ∧ x.2 = pa := by
        intro x hx
        simp only [List.mem_map] at hx
        obtain ⟨y, hy, rfl⟩ := hx
        exact ⟨hy, rfl⟩
      obtain ⟨r, p0, hr, ⟨x0, hx0, hp0⟩, h1, h2, h3, h4, h5, h6⟩ :=
        Union.mergeBlocks_spec (la.blocks.map (fun x => (x, pa))) la.strand (by simpa using hc.1)
          (fun x hx => hva _ (hmem x hx).1)
          (fun x hx y hy => by rw [(hmem x hx).2, (hmem y hy).2]; exact sameParent_refl _)
      have hp0' : p0 = pa := by rw [← hp0]; exact (hmem x0 hx0).2
      subst hp0'
      have hmap : (la.blocks.map (fun x => (x, p0))).map (·.1) = la.blocks := by
        simp [List.map_map, Function.comp_def]
      rw [hmap] at h5 h6
      have hm : mergeOverlappingP (.compound la, p0) = .ok (r, p0) := by
        simp only [mergeOverlappingP, hno, Bool.false_eq_true, if_false]
        exact hr
      rw [hm, ans_ok]
      simp only [okMergeOverlapping, nonOverlapLoc, locationBlocks, hno, Bool.false_eq_true, if_false,
        Bool.and_eq_true]
      refine ⟨⟨⟨⟨?_, ?_⟩, ?_⟩, h4⟩, ?_⟩
      · rw [← Union.withPar_of_ne r p0 (Union.good_ne_empty r h3)]
        apply resultOk_withPar r p0 p0 h1 _ (sameParent_refl _)
        intro n hn x hx
        have := h6 x hx
        have h7 := (maxEndOf_le_iff _ n).mpr (ha.2.2 n hn)
        simp only [locationBlocks] at h7
        omega
      · simp only [endsWithin, List.all_eq_true, decide_eq_true_eq]
        intro x hx
        rw [hiOf_one]
        exact h6 x hx
      · rw [allUpTo_iff]
        intro p _
        show (locationCovers r p == locationCovers (.compound la) p) = true
        rw [h5]
        simp [locationCovers, covers]
      · show strandIs r (some la.strand) = true
        simp [strandIs, h2]

end BioCantor.Proofs
