/-
  C11 / T1 (second half) — the rendered attribute column parses back unambiguously:
  `Spec.parseAttrs (Model.attrsStr a)` = the escaped (tag, value) pairs of the model, decoded.
  Consequences: ID first and exactly once, Parent / Name at most once and never from a qualifier.
-/
import BioCantor.Proofs.GffRows
namespace BioCantor.Proofs.GffAttrs
open BioCantor BioCantor.Model.Gff BioCantor.Proofs.GffEscape BioCantor.Proofs.GffRows
open BioCantor.Spec.Gff (Str Quals percentDecode percentsOk wellEscaped structural structuralValue splitOnChar hexVal
  parseAttr parseAttrs)

/-! ### splitting keeps escapes intact -/

theorem mem_of_wellEscaped {r : List Char} {s : Str} (h : wellEscaped r s = true) :
    (∀ c ∈ s, r.contains c = false) ∧ percentsOk s = true := by
  unfold wellEscaped at h
  simp only [Bool.and_eq_true, List.all_eq_true] at h
  refine ⟨fun c hc => ?_, h.2⟩
  have := h.1 c hc
  simpa using this

theorem wellEscaped_of {r : List Char} {s : Str} (h1 : ∀ c ∈ s, r.contains c = false) (h2 : percentsOk s = true) :
    wellEscaped r s = true := by
  unfold wellEscaped
  simp only [Bool.and_eq_true, List.all_eq_true]
  exact ⟨fun c hc => by have := h1 c hc; simpa using this, h2⟩

theorem not_mem_of_wellEscaped {r : List Char} {s : Str} {c : Char} (h : wellEscaped r s = true)
    (hc : r.contains c = true) : c ∉ s := by
  intro hm
  have := (mem_of_wellEscaped h).1 c hm
  rw [hc] at this; cases this

theorem percentsOk_nil : percentsOk [] = true := by simp [percentsOk]

/-- every piece of a split is made of characters of the string -/
theorem mem_of_mem_split {sep : Char} {s piece : Str} (h : piece ∈ splitOnChar sep s) : ∀ c ∈ piece, c ∈ s ∧ c ≠ sep := by
  induction s generalizing piece with
  | nil =>
    simp only [splitOnChar, List.mem_singleton] at h
    subst h; intro c hc; simp at hc
  | cons d rest ih =>
    by_cases hd : d = sep
    · subst hd
      rw [splitOnChar_cons_eq] at h
      rcases List.mem_cons.mp h with rfl | h'
      · intro c hc; simp at hc
      · intro c hc
        have := ih h' c hc
        exact ⟨List.mem_cons_of_mem _ this.1, this.2⟩
    · cases hs : splitOnChar sep rest with
      | nil => exact absurd hs (splitOnChar_ne_nil sep rest)
      | cons p ps =>
        rw [splitOnChar_cons_ne hd rest p ps hs] at h
        rcases List.mem_cons.mp h with rfl | h'
        · intro c hc
          rcases List.mem_cons.mp hc with rfl | hc'
          · exact ⟨List.mem_cons_self, hd⟩
          · have := ih (by rw [hs]; exact List.mem_cons_self) c hc'
            exact ⟨List.mem_cons_of_mem _ this.1, this.2⟩
        · intro c hc
          have := ih (by rw [hs]; exact List.mem_cons_of_mem _ h') c hc
          exact ⟨List.mem_cons_of_mem _ this.1, this.2⟩

/-- splitting at a character that is neither `%` nor a hex digit never cuts an escape -/
theorem percentsOk_split {sep : Char} (hsep : sep ≠ '%') (hhex : hexVal sep = none) :
    ∀ (n : Nat) (s : Str), s.length ≤ n → percentsOk s = true → ∀ piece ∈ splitOnChar sep s, percentsOk piece = true := by
  intro n
  induction n with
  | zero =>
    intro s hl _ piece hp
    have : s = [] := List.eq_nil_of_length_eq_zero (by omega)
    subst this
    simp only [splitOnChar, List.mem_singleton] at hp
    subst hp; exact percentsOk_nil
  | succ n ih =>
    intro s hl hok piece hp
    match s, hl, hok, hp with
    | [], _, _, hp =>
      simp only [splitOnChar, List.mem_singleton] at hp
      subst hp; exact percentsOk_nil
    | c :: rest, hl, hok, hp =>
      by_cases hc : c = '%'
      · subst hc
        match rest, hl, hok, hp with
        | [], _, hok, _ => simp [percentsOk] at hok
        | [d], _, hok, _ => simp [percentsOk] at hok
        | a :: b :: rest', hl, hok, hp =>
          simp only [percentsOk, if_true, Bool.and_eq_true] at hok
          obtain ⟨⟨ha, hb⟩, hrest⟩ := hok
          have ha' : a ≠ sep := by intro e; rw [e, hhex] at ha; cases ha
          have hb' : b ≠ sep := by intro e; rw [e, hhex] at hb; cases hb
          cases hs : splitOnChar sep rest' with
          | nil => exact absurd hs (splitOnChar_ne_nil sep rest')
          | cons p ps =>
            have h3 : splitOnChar sep ('%' :: a :: b :: rest') = ('%' :: a :: b :: p) :: ps := by
              rw [splitOnChar_cons_ne (Ne.symm hsep.symm.symm) _ (a :: b :: p) ps]
              rw [splitOnChar_cons_ne ha' _ (b :: p) ps]
              rw [splitOnChar_cons_ne hb' _ p ps hs]
            rw [h3] at hp
            have ihr := ih rest' (by simp at hl; omega) hrest
            rcases List.mem_cons.mp hp with rfl | hp'
            · rw [percentsOk_escape ha hb]
              exact ihr p (by rw [hs]; exact List.mem_cons_self)
            · exact ihr piece (by rw [hs]; exact List.mem_cons_of_mem _ hp')
      · rw [percentsOk_cons_ne hc] at hok
        have ihr := ih rest (by simp at hl; omega) hok
        by_cases hcs : c = sep
        · subst hcs
          rw [splitOnChar_cons_eq] at hp
          rcases List.mem_cons.mp hp with rfl | hp'
          · exact percentsOk_nil
          · exact ihr piece hp'
        · cases hs : splitOnChar sep rest with
          | nil => exact absurd hs (splitOnChar_ne_nil sep rest)
          | cons p ps =>
            rw [splitOnChar_cons_ne hcs rest p ps hs] at hp
            rcases List.mem_cons.mp hp with rfl | hp'
            · rw [percentsOk_cons_ne hc]
              exact ihr p (by rw [hs]; exact List.mem_cons_self)
            · exact ihr piece (by rw [hs]; exact List.mem_cons_of_mem _ hp')

/-! ### one `tag=value` piece -/

theorem comma_not_percent : (',' : Char) ≠ '%' := by decide
theorem comma_not_hex : hexVal ',' = none := by decide

/-- an escaped (tag, joined values) pair as the writer produces it -/
structure EscPairOk (p : Str × Str) : Prop where
  k_ne : p.1 ≠ []
  v_ne : p.2 ≠ []
  k_ok : wellEscaped structural p.1 = true
  v_chars : ∀ c ∈ p.2, structural.contains c = false
  v_pieces : ∀ piece ∈ splitOnChar ',' p.2, wellEscaped structuralValue piece = true

def renderPair (p : Str × Str) : Str := p.1 ++ '=' :: p.2
def decodePair (p : Str × Str) : Str × List Str := (percentDecode p.1, (splitOnChar ',' p.2).map percentDecode)

theorem eq_in_structural : structural.contains '=' = true := by decide
theorem semi_in_structural : structural.contains ';' = true := by decide

theorem parseAttr_render {p : Str × Str} (h : EscPairOk p) : parseAttr (renderPair p) = some (decodePair p) := by
  have hk : '=' ∉ p.1 := not_mem_of_wellEscaped h.k_ok eq_in_structural
  have hv : '=' ∉ p.2 := by
    intro hm
    have := h.v_chars _ hm
    rw [eq_in_structural] at this; cases this
  unfold parseAttr renderPair
  rw [splitOnChar_append, splitOnChar_of_not_mem _ _ hk, splitOnChar_of_not_mem _ _ hv]
  simp only [List.singleton_append]
  have hall : (splitOnChar ',' p.2).all (wellEscaped structuralValue) = true :=
    List.all_eq_true.mpr h.v_pieces
  simp only [ne_eq, h.k_ne, not_false_eq_true, h.v_ne, h.k_ok, hall, and_self, if_true]
  rfl

theorem mapM_some {α β} (f : α → Option β) (g : α → β) (l : List α) (h : ∀ x ∈ l, f x = some (g x)) :
    l.mapM f = some (l.map g) := by
  induction l with
  | nil => rfl
  | cons a rest ih =>
    rw [List.mapM_cons, h a List.mem_cons_self, ih (fun x hx => h x (List.mem_cons_of_mem _ hx))]
    rfl

theorem mapM_map_some {α β γ} (f : γ → Option β) (r : α → γ) (g : α → β) (l : List α)
    (h : ∀ x ∈ l, f (r x) = some (g x)) : (l.map r).mapM f = some (l.map g) := by
  induction l with
  | nil => rfl
  | cons a rest ih =>
    rw [List.map_cons, List.mapM_cons, h a List.mem_cons_self, ih (fun x hx => h x (List.mem_cons_of_mem _ hx))]
    rfl

theorem semi_not_mem_render {p : Str × Str} (h : EscPairOk p) : ';' ∉ renderPair p := by
  unfold renderPair
  intro hm
  rcases List.mem_append.mp hm with h1 | h1
  · exact not_mem_of_wellEscaped h.k_ok semi_in_structural h1
  · rcases List.mem_cons.mp h1 with h2 | h2
    · cases h2
    · have := h.v_chars _ h2
      rw [semi_in_structural] at this; cases this

/-- the column `tag=value;tag=value…` built from good pairs parses back to exactly those pairs, decoded -/
theorem parseAttrs_join (pairs : List (Str × Str)) (hne : pairs ≠ []) (h : ∀ p ∈ pairs, EscPairOk p) :
    parseAttrs (joinWith ';' (pairs.map renderPair)) = some (pairs.map decodePair) := by
  unfold parseAttrs
  rw [splitOnChar_joinWith ';' _ (by simpa using hne)
    (by intro piece hp; obtain ⟨p, hp', rfl⟩ := List.mem_map.mp hp; exact semi_not_mem_render (h p hp'))]
  exact mapM_map_some parseAttr renderPair decodePair pairs (fun p hp => parseAttr_render (h p hp))

/-! ### the writer's pairs are good -/

theorem escapeWith_ne_nil {reserved m} (hg : goodMap reserved m = true) {s : Str} (h : s ≠ []) :
    escapeWith m s ≠ [] := by
  cases s with
  | nil => exact absurd rfl h
  | cons c rest =>
    unfold escapeWith
    split
    · rename_i r hl
      obtain ⟨a, b, _, _, _, _, hr, _⟩ := entry_facts (entry_of_lookup hg hl)
      subst hr; simp
    · simp

theorem escapeKey_ne_nil {k : Str} (h : k ≠ []) (lower : Bool) : escapeKey k lower ≠ [] := by
  unfold escapeKey
  have := escapeWith_ne_nil gffEncodingMap_good h
  cases lower
  · simpa [escapeStr] using this
  · simp only [if_true, Model.Gff.lowerStr, escapeStr, ne_eq, List.map_eq_nil_iff]; exact this

theorem escapeValue_ne_nil (v : Str) (comma : Bool) : escapeValue v comma ≠ [] := by
  unfold escapeValue
  cases comma
  · simp only [Bool.false_eq_true, if_false]
    split
    · rename_i h
      exact escapeWith_ne_nil gffEncodingMap_good (by intro e; rw [e] at h; simp at h)
    · simp [nan]
  · simp only [if_true]
    split
    · rename_i h
      exact escapeWith_ne_nil gffEncodingMapWithComma_good (by intro e; rw [e] at h; simp at h)
    · simp [nan]

theorem joinWith_ne_nil (sep : Char) {parts : List Str} (hne : parts ≠ []) (h : ∀ p ∈ parts, p ≠ []) :
    joinWith sep parts ≠ [] := by
  match parts, hne with
  | [a], _ => simp only [joinWith]; exact h a List.mem_cons_self
  | a :: b :: rest, _ => simp [joinWith]

theorem mem_joinWith {sep : Char} {parts : List Str} {c : Char} (h : c ∈ joinWith sep parts) :
    c = sep ∨ ∃ p ∈ parts, c ∈ p := by
  induction parts with
  | nil => simp [joinWith] at h
  | cons a rest ih =>
    cases rest with
    | nil => simp only [joinWith] at h; exact Or.inr ⟨a, List.mem_cons_self, h⟩
    | cons b rest' =>
      simp only [joinWith] at h
      rcases List.mem_append.mp h with h1 | h1
      · exact Or.inr ⟨a, List.mem_cons_self, h1⟩
      · rcases List.mem_cons.mp h1 with h2 | h2
        · exact Or.inl h2
        · rcases ih h2 with h3 | ⟨p, hp, hc⟩
          · exact Or.inl h3
          · exact Or.inr ⟨p, List.mem_cons_of_mem _ hp, hc⟩

theorem splitOnChar_joinWith_flat (sep : Char) (parts : List Str) (hne : parts ≠ []) :
    splitOnChar sep (joinWith sep parts) = parts.flatMap (splitOnChar sep) := by
  induction parts with
  | nil => exact absurd rfl hne
  | cons a rest ih =>
    cases rest with
    | nil => simp [joinWith]
    | cons b rest' =>
      simp only [joinWith]
      rw [splitOnChar_append]
      have := ih (by simp)
      rw [List.flatMap_cons, ← this]

theorem structuralValue_of {c : Char} (h1 : structural.contains c = false) (h2 : c ≠ ',') :
    structuralValue.contains c = false := by
  simp only [structural, structuralValue, List.contains_cons, List.contains_nil, Bool.or_false,
    Bool.or_eq_false_iff, beq_eq_false_iff_ne, ne_eq] at h1 ⊢
  obtain ⟨a, b, c', d, e⟩ := h1
  exact ⟨a, b, c', d, e, h2⟩

theorem structural_of_value {c : Char} (h : structuralValue.contains c = false) : structural.contains c = false := by
  simp only [structural, structuralValue, List.contains_cons, List.contains_nil, Bool.or_false,
    Bool.or_eq_false_iff, beq_eq_false_iff_ne, ne_eq] at h ⊢
  obtain ⟨a, b, c', d, e, _⟩ := h
  exact ⟨a, b, c', d, e⟩

theorem comma_not_structural : structural.contains ',' = false := by decide
theorem comma_in_structuralValue : structuralValue.contains ',' = true := by decide

/-- pieces of a (comma-permitting) escaped value are well escaped values -/
theorem pieces_wellEscaped {ev piece : Str} (h : wellEscaped structural ev = true)
    (hp : piece ∈ splitOnChar ',' ev) : wellEscaped structuralValue piece = true := by
  obtain ⟨hch, hok⟩ := mem_of_wellEscaped h
  refine wellEscaped_of ?_ (percentsOk_split comma_not_percent comma_not_hex ev.length ev (Nat.le_refl _) hok piece hp)
  intro c hc
  have := mem_of_mem_split hp c hc
  exact structuralValue_of (hch c this.1) this.2

/-- the (tag, values) pair the loop of `GFFAttributes.__str__` emits for one qualifier -/
theorem qualPair_ok (key : Str) (vals : List Str) (hk : key ≠ []) (hv : vals ≠ []) (lower : Bool) :
    EscPairOk (escapeKey key lower, joinWith ',' (sortStrs (vals.map fun v => escapeValue v false))) := by
  have hmem : ∀ ev ∈ sortStrs (vals.map fun v => escapeValue v false), ∃ w, ev = escapeValue w false := by
    intro ev hev
    unfold sortStrs at hev
    obtain ⟨w, _, rfl⟩ := List.mem_map.mp (List.mem_mergeSort.mp hev)
    exact ⟨w, rfl⟩
  have hne : sortStrs (vals.map fun v => escapeValue v false) ≠ [] := by
    intro e
    have := congrArg List.length e
    unfold sortStrs at this
    rw [List.length_mergeSort] at this
    simp only [List.length_map, List.length_nil] at this
    exact hv (List.eq_nil_of_length_eq_zero this)
  refine ⟨escapeKey_ne_nil hk lower, ?_, escapeKey_wellEscaped key lower, ?_, ?_⟩
  · exact joinWith_ne_nil ',' hne (fun p hp => by obtain ⟨w, rfl⟩ := hmem p hp; exact escapeValue_ne_nil w false)
  · intro c hc
    rcases mem_joinWith hc with rfl | ⟨p, hp, hcp⟩
    · exact comma_not_structural
    · obtain ⟨w, rfl⟩ := hmem p hp
      exact (mem_of_wellEscaped (escapeValue_wellEscaped w false)).1 c hcp
  · intro piece hpiece
    rw [splitOnChar_joinWith_flat ',' _ hne] at hpiece
    obtain ⟨ev, hev, hin⟩ := List.mem_flatMap.mp hpiece
    obtain ⟨w, rfl⟩ := hmem ev hev
    exact pieces_wellEscaped (escapeValue_wellEscaped w false) hin

/-- a reserved tag with its comma-escaped value -/
theorem reservedPair_ok (k : Str) (hk : k ≠ []) (hkw : wellEscaped structural k = true) (v : Str) :
    EscPairOk (k, escapeValue v true) := by
  have hw := escapeValue_wellEscaped v true
  simp only [if_true] at hw
  have hnc : ',' ∉ escapeValue v true := not_mem_of_wellEscaped hw comma_in_structuralValue
  refine ⟨hk, escapeValue_ne_nil v true, hkw, ?_, ?_⟩
  · intro c hc
    exact structural_of_value ((mem_of_wellEscaped hw).1 c hc)
  · intro piece hp
    rw [splitOnChar_of_not_mem _ _ hnc] at hp
    simp only [List.mem_singleton] at hp
    subst hp; exact hw

theorem qualPairs_ok (raise : Bool) (q : Quals) (l : List (Str × Str)) (h : qualPairs raise q = .ok l)
    (hkeys : ∀ kv ∈ q, kv.1 ≠ []) : ∀ p ∈ l, EscPairOk p := by
  induction q generalizing l with
  | nil =>
    simp only [qualPairs] at h
    cases h
    intro p hp; simp at hp
  | cons kv rest ih =>
    obtain ⟨key, vals⟩ := kv
    have hrest : ∀ kv ∈ rest, kv.1 ≠ [] := fun kv hkv => hkeys kv (List.mem_cons_of_mem _ hkv)
    simp only [qualPairs] at h
    split at h
    · exact ih l h hrest
    · rename_i hvals
      split at h
      · split at h
        · cases h
        · exact ih l h hrest
      · cases hm : qualPairs raise rest with
        | error e => rw [hm] at h; cases h
        | ok more =>
          rw [hm] at h
          simp only [bind, Except.bind, pure, Except.pure] at h
          cases h
          intro p hp
          rcases List.mem_cons.mp hp with rfl | hp'
          · have hk : key ≠ [] := hkeys (key, vals) List.mem_cons_self
            have hv : vals ≠ [] := by intro e; rw [e] at hvals; simp at hvals
            split
            · exact qualPair_ok key vals hk hv false
            · exact qualPair_ok key vals hk hv true
          · exact ih more hm hrest p hp'

/-- ID, Parent?, Name? with their comma-escaped values, as `GFFAttributes.__str__` starts the column -/
def headPairs (a : Attrs) : List (Str × Str) :=
  [(kID, escapeValue a.id true)]
    ++ (match a.parent with | some p => [(kParent, escapeValue p true)] | none => [])
    ++ (match a.name with | some n => [(kName, escapeValue n true)] | none => [])

theorem kID_ok : wellEscaped structural kID = true := by simp [wellEscaped, kID, percentsOk, structural]
theorem kParent_ok : wellEscaped structural kParent = true := by simp [wellEscaped, kParent, percentsOk, structural]
theorem kName_ok : wellEscaped structural kName = true := by simp [wellEscaped, kName, percentsOk, structural]

theorem headPairs_ok (a : Attrs) : ∀ p ∈ headPairs a, EscPairOk p := by
  intro p hp
  unfold headPairs at hp
  rcases List.mem_append.mp hp with h1 | h3
  · rcases List.mem_append.mp h1 with h1 | h2
    · simp only [List.mem_singleton] at h1; subst h1
      exact reservedPair_ok kID (by decide) kID_ok _
    · split at h2
      · simp only [List.mem_singleton] at h2; subst h2; exact reservedPair_ok kParent (by decide) kParent_ok _
      · simp at h2
  · split at h3
    · simp only [List.mem_singleton] at h3; subst h3; exact reservedPair_ok kName (by decide) kName_ok _
    · simp at h3

/-- T1 (column): the attribute column written by `GFFAttributes.__str__` splits on `;`, `=` and `,` into exactly
    the writer's (tag, values) pairs, each decoded by `percentDecode` — for every id / parent / name / qualifier
    dictionary with non-empty keys. -/
theorem attrsStr_parses (a : Attrs) (s : Str) (h : attrsStr a = .ok s) (hkeys : ∀ kv ∈ a.quals, kv.1 ≠ []) :
    ∃ tail, qualPairs a.raiseOnReserved (sortQuals a.quals) = .ok tail ∧
      parseAttrs s = some ((headPairs a ++ tail).map decodePair) := by
  unfold attrsStr at h
  cases hq : qualPairs a.raiseOnReserved (sortQuals a.quals) with
  | error e => rw [hq] at h; cases h
  | ok tail =>
    rw [hq] at h
    simp only [bind, Except.bind, pure, Except.pure] at h
    cases h
    refine ⟨tail, rfl, ?_⟩
    have hk' : ∀ kv ∈ sortQuals a.quals, kv.1 ≠ [] := by
      intro kv hkv
      unfold sortQuals at hkv
      exact hkeys kv (List.mem_mergeSort.mp hkv)
    have hall : ∀ p ∈ headPairs a ++ tail, EscPairOk p := by
      intro p hp
      rcases List.mem_append.mp hp with h1 | h2
      · exact headPairs_ok a p h1
      · exact qualPairs_ok _ _ _ hq hk' p h2
    exact parseAttrs_join (headPairs a ++ tail) (by simp [headPairs]) hall

/-! ### reserved tags never come from qualifiers -/

/-- every pair emitted by the qualifier loop comes from a qualifier with a non-empty value set whose key is NOT
    one of ID / Parent / Name; the key is lower-cased unless it is one of the GFF3-reserved spellings -/
theorem qualPairs_form (raise : Bool) (q : Quals) (l : List (Str × Str)) (h : qualPairs raise q = .ok l) :
    ∀ p ∈ l, ∃ key vals, (key, vals) ∈ q ∧ vals ≠ [] ∧ bioCantorReserved.contains key = false ∧
      p = (escapeKey key (!gff3Reserved.contains key), joinWith ',' (sortStrs (vals.map fun v => escapeValue v false))) := by
  induction q generalizing l with
  | nil =>
    simp only [qualPairs] at h
    cases h
    intro p hp; simp at hp
  | cons kv rest ih =>
    obtain ⟨key, vals⟩ := kv
    have lift : ∀ (m : List (Str × Str)), qualPairs raise rest = .ok m → ∀ p ∈ m, ∃ key' vals', (key', vals') ∈ (key, vals) :: rest ∧
        vals' ≠ [] ∧ bioCantorReserved.contains key' = false ∧
        p = (escapeKey key' (!gff3Reserved.contains key'), joinWith ',' (sortStrs (vals'.map fun v => escapeValue v false))) := by
      intro m hm p hp
      obtain ⟨k', v', hin, h1, h2, h3⟩ := ih m hm p hp
      exact ⟨k', v', List.mem_cons_of_mem _ hin, h1, h2, h3⟩
    simp only [qualPairs] at h
    split at h
    · exact lift l h
    · rename_i hvals
      split at h
      · split at h
        · cases h
        · exact lift l h
      · rename_i hres
        cases hm : qualPairs raise rest with
        | error e => rw [hm] at h; cases h
        | ok more =>
          rw [hm] at h
          simp only [bind, Except.bind, pure, Except.pure] at h
          cases h
          intro p hp
          rcases List.mem_cons.mp hp with rfl | hp'
          · refine ⟨key, vals, List.mem_cons_self, ?_, by simpa using hres, ?_⟩
            · intro e; rw [e] at hvals; simp at hvals
            · split
              · rename_i hg; rw [hg]; rfl
              · rename_i hg
                have : gff3Reserved.contains key = false := by simpa using hg
                rw [this]; rfl
          · exact lift more hm p hp'

theorem toLower_ne_of_upper (c u : Char) (hnl : ¬ (97 ≤ u.val.toNat ∧ u.val.toNat ≤ 122)) (hu : u.toLower ≠ u) :
    c.toLower ≠ u := by
  intro h
  have := toLower_eq_nonlower c u hnl h
  subst this
  exact hu h

/-- a lower-cased string is none of `ID`, `Parent`, `Name` (each contains an upper-case letter) -/
theorem lowerStr_not_reserved (s : Str) : Model.Gff.lowerStr s ≠ kID ∧ Model.Gff.lowerStr s ≠ kParent ∧
    Model.Gff.lowerStr s ≠ kName := by
  have key : ∀ u : Char, u ∈ ['I', 'P', 'N'] → ∀ c : Char, c.toLower ≠ u := by
    intro u hu c
    have h1 : ∀ u : Char, u ∈ ['I', 'P', 'N'] → ¬ (97 ≤ u.val.toNat ∧ u.val.toNat ≤ 122) := by decide
    have h2 : ∀ u : Char, u ∈ ['I', 'P', 'N'] → u.toLower ≠ u := by decide
    exact toLower_ne_of_upper c u (h1 u hu) (h2 u hu)
  have first : ∀ (u : Char) (t : Str), u ∈ ['I', 'P', 'N'] → Model.Gff.lowerStr s ≠ u :: t := by
    intro u t hu h
    cases s with
    | nil => simp [Model.Gff.lowerStr] at h
    | cons c rest =>
      simp only [Model.Gff.lowerStr, List.map_cons, List.cons.injEq] at h
      exact key u hu c h.1
  exact ⟨first 'I' _ (by decide), first 'P' _ (by decide), first 'N' _ (by decide)⟩

theorem gff3Reserved_keep : ∀ key ∈ gff3Reserved, bioCantorReserved.contains key = false →
    key ≠ kID ∧ key ≠ kParent ∧ key ≠ kName := by decide

theorem percentDecode_escapeKey (k : Str) (lower : Bool) :
    percentDecode (escapeKey k lower) = (if lower then Model.Gff.lowerStr k else k) := by
  unfold escapeKey
  cases lower
  · simp only [Bool.false_eq_true, if_false]; exact decode_escapeWith gffEncodingMap_good k
  · simp only [if_true]; exact decode_lower_escapeWith gffEncodingMap_good k

/-- the decoded tag of a pair coming from a qualifier is never `ID`, `Parent` or `Name` -/
theorem qualPairs_tags (raise : Bool) (q : Quals) (l : List (Str × Str)) (h : qualPairs raise q = .ok l) :
    ∀ p ∈ l, percentDecode p.1 ≠ kID ∧ percentDecode p.1 ≠ kParent ∧ percentDecode p.1 ≠ kName := by
  intro p hp
  obtain ⟨key, vals, _, _, hnr, rfl⟩ := qualPairs_form raise q l h p hp
  simp only
  rw [percentDecode_escapeKey]
  cases hg : gff3Reserved.contains key with
  | true =>
    simp only [Bool.not_true, Bool.false_eq_true, if_false]
    exact gff3Reserved_keep key (by simpa using hg) hnr
  | false =>
    simp only [Bool.not_false, if_true]
    exact lowerStr_not_reserved key

/-! ### with `raise_on_reserved_attributes=False` the rendering never refuses (used for non-vacuity examples) -/

theorem qualPairs_noraise (q : Quals) : ∃ l, qualPairs false q = .ok l := by
  induction q with
  | nil => exact ⟨[], rfl⟩
  | cons kv rest ih =>
    obtain ⟨key, vals⟩ := kv
    obtain ⟨l, hl⟩ := ih
    simp only [qualPairs]
    split
    · exact ⟨l, hl⟩
    · split
      · simp only [Bool.false_eq_true, if_false]; exact ⟨l, hl⟩
      · rw [hl]; exact ⟨_, rfl⟩

theorem attrsStr_noraise (a : Attrs) (h : a.raiseOnReserved = false) : ∃ s, attrsStr a = .ok s := by
  unfold attrsStr
  rw [h]
  obtain ⟨l, hl⟩ := qualPairs_noraise (sortQuals a.quals)
  rw [hl]
  exact ⟨_, rfl⟩

theorem rowStr_noraise (r : Row) (h : r.attrs.raiseOnReserved = false) : ∃ line, rowStr r = .ok line := by
  unfold rowStr
  obtain ⟨s, hs⟩ := attrsStr_noraise r.attrs h
  rw [hs]
  exact ⟨_, rfl⟩

end BioCantor.Proofs.GffAttrs
