/-
  C07-T3 on the model object: `chunk_relative_codon_locations` of a chunk-built CDS, lifted back position by
  position, are the codons of the whole CDS lying inside the chunk.
-/
import BioCantor.Proofs.ChunkCodons
import BioCantor.Proofs.ChunkTwin
namespace BioCantor.Proofs.Chunk
open BioCantor BioCantor.Spec BioCantor.Spec.Chunk BioCantor.Model BioCantor.Model.Chunk BioCantor.Proofs
open BioCantor.Proofs.Lift

/-- the description the spec reads off a model object: its (sorted) exons paired with the frame values -/
def descOf (k : ChunkCDS) : CdsD := ⟨k.base.loc.strand, k.base.loc.blocks.zip (specFrames k.base)⟩

def winOf (k : ChunkCDS) : Spec.Chunk.Win := ⟨k.chunk.w, k.chunk.wst⟩

/-- what `CDSInterval.__init__` on a chunk parent establishes (plus the scope of C05): the chromosome-level members
    are a well-formed CDS, the chunk holds a base and has a direction, and `_location` is the chunk lift of the CDS
    location -/
structure WFChunk (k : ChunkCDS) : Prop where
  base : WFCDS k.base
  dir : k.chunk.wst = .plus ∨ k.chunk.wst = .minus
  window : k.chunk.w.1 < k.chunk.w.2
  built : ans (chunkDown (initLoc k.base.loc.blocks k.base.loc.strand) k.chunk.w k.chunk.wst) = some k.location

theorem descOf_toIn (k : ChunkCDS) (h : WFCDS k.base) :
    (descOf k).toIn none = ⟨k.base.loc, specFrames k.base, none⟩ := by
  have hlen : (specFrames k.base).length = k.base.loc.blocks.length := by
    unfold specFrames; rw [List.length_map]; exact h.frames_len
  simp only [descOf, CdsD.toIn]
  rw [List.map_fst_zip (Nat.le_of_eq hlen.symm), List.map_snd_zip (Nat.le_of_eq hlen)]

theorem innerCodons_eq (k : ChunkCDS) (h : WFCDS k.base) :
    innerCodons (descOf k) (winOf k) =
      (cdsCodons k.base.loc (specFrames k.base)).filter (fun t => t.all (inW k.chunk.w.1 k.chunk.w.2)) := by
  unfold innerCodons
  rw [descOf_toIn k h]
  simp only [CDSIn.codons, winOf]
  congr 1
  funext cod
  congr 1
  funext p
  exact inWin_eq_inW _ _ p

/-- a CDS base inside the chunk makes the chunk-relative location non-empty -/
theorem location_ne_empty (k : ChunkCDS) (h : WFChunk k) (x : Nat)
    (hx : ∃ b ∈ k.base.loc.blocks, b.1 ≤ x ∧ x < b.2) (hin : inW k.chunk.w.1 k.chunk.w.2 x = true) :
    k.location ≠ .empty := by
  obtain ⟨b, hb, hb1, hb2⟩ := hx
  have hvb : ValidBlocks k.base.loc.blocks := by
    refine ⟨?_, fun b hb => Nat.le_of_lt (h.base.positive b hb)⟩
    intro h0; rw [h0] at hb; simp at hb
  have hok := chunkDown_ok _ (initLoc_wf k.base.loc.blocks k.base.loc.strand hvb) k.chunk.w k.chunk.wst
  rw [h.built] at hok
  intro hemp
  rw [hemp] at hok
  unfold okChunkDown at hok
  have hc : ¬ (k.chunk.wst = .unstranded ∨ k.chunk.w.2 ≤ k.chunk.w.1) := by
    have := h.window
    rcases h.dir with hd | hd <;> simp [hd] <;> omega
  rw [if_neg hc] at hok
  simp only [inW, Bool.and_eq_true, decide_eq_true_eq] at hin
  have hclip : Spec.clip k.chunk.w b ≠ none := by
    unfold Spec.clip
    rw [if_pos (by omega)]
    simp
  have hblocks : locationBlocks (initLoc k.base.loc.blocks k.base.loc.strand) = k.base.loc.blocks := by
    unfold initLoc
    split
    · rename_i b' heq; simp [locationBlocks, heq]
    · simp only [locationBlocks]
      apply sortBlocks_of_fst_lt
      have hpw := nonOverlap_pairwise _ (fun b hb => Nat.le_of_lt (h.base.positive b hb)) h.base.nonOverlap
      refine hpw.imp_of_mem ?_
      intro a c ha _ hac
      have := h.base.positive a ha; omega
  have hne : ((locationBlocks (initLoc k.base.loc.blocks k.base.loc.strand)).filterMap (Spec.clip k.chunk.w)).isEmpty = false := by
    rw [hblocks]
    cases hcl : Spec.clip k.chunk.w b with
    | none => exact absurd hcl hclip
    | some c =>
      have : c ∈ k.base.loc.blocks.filterMap (Spec.clip k.chunk.w) := List.mem_filterMap.mpr ⟨b, hb, hcl⟩
      cases hh : k.base.loc.blocks.filterMap (Spec.clip k.chunk.w) with
      | nil => rw [hh] at this; simp at this
      | cons _ _ => rfl
  cases hi : initLoc k.base.loc.blocks k.base.loc.strand with
  | empty =>
    unfold initLoc at hi
    split at hi <;> cases hi
  | single b' st' => rw [hi] at hok hne; simp [hne] at hok
  | compound l => rw [hi] at hok hne; simp [hne] at hok

theorem cleanedLoc_ok (c : CDS) (stt : CleanSt) (L : List Blk) (hlens : c.exonIter.length = c.frameIter.length)
    (hrun : cleanExons c.loc CleanSt.init (c.exonIter.zip c.frameIter) = .ok stt)
    (hL1 : cleanedLocation c.loc stt = .ok ⟨L, c.loc.strand⟩) : cleanedLoc c = .ok ⟨L, c.loc.strand⟩ := by
  unfold cleanedLoc
  rw [if_neg (by omega)]
  simp only [bind, Except.bind, pure, Except.pure, hrun, hL1]

/-- **C07-T3**, multi-exon CDS, every frame vector -/
theorem chunkCodons_multi (k : ChunkCDS) (h : WFChunk k) (hmulti : k.base.loc.blocks.length > 1)
    (hshallow : shallowTrim (exonWalk k.base.loc (specFrames k.base)) = true)
    (hsome : (cdsKept k.base.loc (specFrames k.base)).filter (inW k.chunk.w.1 k.chunk.w.2) ≠ []) :
    okChunkCodons (descOf k) (winOf k) (ans (chunkRelativeCodonLocations k)) = true := by
  have hkept : cdsKept k.base.loc (specFrames k.base) ≠ [] := by
    intro h0; apply hsome; rw [h0]; rfl
  obtain ⟨stt, L, hlens, hrun, hL1, hL2, hL3, hL4, hL5⟩ := prepareMulti_cleaned k.base h.base hshallow hkept
  have hcs : k.base.strand = k.base.loc.strand := rfl
  -- the location is not empty: a kept base lies in the chunk
  have hrel : k.location ≠ .empty := by
    cases hf : (cdsKept k.base.loc (specFrames k.base)).filter (inW k.chunk.w.1 k.chunk.w.2) with
    | nil => exact absurd hf hsome
    | cons x r =>
      have hx : x ∈ (cdsKept k.base.loc (specFrames k.base)).filter (inW k.chunk.w.1 k.chunk.w.2) := by
        rw [hf]; simp
      rw [List.mem_filter] at hx
      rcases hc : k.base.loc with ⟨bs, st⟩
      have hx1 := hx.1
      rw [hc] at hx1
      have := cdsKept_subset bs st (by have := h.base.dir; rw [hc] at this; exact this) _ x hx1
      exact location_ne_empty k h x (by rw [hc]; exact this) hx.2
  obtain ⟨crl, o, ms, _, hbr, hm1, hm2⟩ := chunk_core k L h.base.dir hL2 hL3 hL4 h.dir h.window
    (by rw [hcs, hL5]; exact hsome)
  rw [hcs] at hbr hm2
  have hrun' : chunkRelativeCodonLocations k = .ok ms := by
    unfold chunkRelativeCodonLocations prepareChunk CDS.numBlocks
    rw [if_pos hmulti]
    unfold prepareMultiChunk ChunkCDS.isChunkRelative
    have : (k.location != .empty) = true := by simpa using hrel
    rw [this, if_pos rfl]
    simp only [bind, Except.bind, pure, Except.pure, cleanedLoc_ok k.base stt L hlens hrun hL1, hbr]
    exact hm1
  rw [hrun']
  simp only [ans_ok, okChunkCodons]
  rw [innerCodons_eq k h.base, cdsCodons, ← hL5]
  exact hm2

/-- **C07-T3**, single-exon CDS with start frame 0 (frame 1 / 2: F-C05a, the offset is not reduced modulo three) -/
theorem chunkCodons_single (k : ChunkCDS) (h : WFChunk k) (e : Blk) (hone : k.base.loc.blocks = [e])
    (hf : k.base.frames = [.ZERO])
    (hsome : (cdsKept k.base.loc (specFrames k.base)).filter (inW k.chunk.w.1 k.chunk.w.2) ≠ []) :
    okChunkCodons (descOf k) (winOf k) (ans (chunkRelativeCodonLocations k)) = true := by
  obtain ⟨f, hf', _, _, hk⟩ := prepareSingle_ok k.base h.base e hone
  have hfz : f = .ZERO := by rw [hf] at hf'; simpa using hf'.symm
  subst hfz
  have hk0 : bases k.base.loc = cdsKept k.base.loc (specFrames k.base) := by simpa [CDSFrame.value] using hk
  have hcs : k.base.strand = k.base.loc.strand := rfl
  have hloc : k.base.loc = ⟨[e], k.base.loc.strand⟩ := by
    rcases hc : k.base.loc with ⟨bs, st⟩
    rw [hc] at hone; simp only at hone; subst hone; rfl
  have hpos : e.1 < e.2 := h.base.positive e (by rw [hone]; simp)
  have hrel : k.location ≠ .empty := by
    cases hfl : (cdsKept k.base.loc (specFrames k.base)).filter (inW k.chunk.w.1 k.chunk.w.2) with
    | nil => exact absurd hfl hsome
    | cons x r =>
      have hx : x ∈ (cdsKept k.base.loc (specFrames k.base)).filter (inW k.chunk.w.1 k.chunk.w.2) := by
        rw [hfl]; simp
      rw [List.mem_filter] at hx
      rcases hc : k.base.loc with ⟨bs, st⟩
      have hx1 := hx.1
      rw [hc] at hx1
      have := cdsKept_subset bs st (by have := h.base.dir; rw [hc] at this; exact this) _ x hx1
      exact location_ne_empty k h x (by rw [hc]; exact this) hx.2
  obtain ⟨crl, o, ms, ho3, hbr, hm1, hm2⟩ := chunk_core k [e] h.base.dir (by simp)
    (by intro b hb; simp at hb; subst hb; exact hpos) (by simp) h.dir h.window
    (by rw [hcs, ← hloc, hk0]; exact hsome)
  rw [hcs, ← hloc] at hbr hm2
  have hrun' : chunkRelativeCodonLocations k = .ok ms := by
    unfold chunkRelativeCodonLocations prepareChunk CDS.numBlocks
    have hnm : ¬ (k.base.loc.blocks.length > 1) := by rw [hone]; simp
    rw [if_neg hnm]
    unfold prepareSingleChunk ChunkCDS.isChunkRelative
    have : (k.location != .empty) = true := by simpa using hrel
    rw [this, if_pos rfl]
    simp only [hf, List.head?_cons, bind, Except.bind, pure, Except.pure, hbr, CDSFrame.value, Int.zero_add]
    exact hm1
  rw [hrun']
  simp only [ans_ok, okChunkCodons]
  rw [innerCodons_eq k h.base, cdsCodons, ← hk0]
  exact hm2

/-- `initLoc` of ascending blocks (two or more) is the compound location on them: no sorting left -/
theorem initLoc_ascending (a b : Blk) (r : List Blk) (st : Strand)
    (h : (a :: b :: r).Pairwise (fun x y => x.1 < y.1)) :
    initLoc (a :: b :: r) st = .compound ⟨a :: b :: r, st⟩ := by
  unfold initLoc
  rw [sortBlocks_of_fst_lt st h]

end BioCantor.Proofs.Chunk
