/-
  C17 helper lemmas, part 7: the gene feature's span; the rows of RNA features.
-/
import BioCantor.Proofs.TblRows
namespace BioCantor.Proofs.Tbl
open BioCantor BioCantor.Model BioCantor.Model.Tbl BioCantor.Spec BioCantor.Spec.Tbl
open BioCantor.Proofs (sortBlocks_of_fst_lt mkCompoundLoc_ok)

/-! ### `min(...)` / `max(...)` as left folds -/

theorem foldl_min_le (l : List Nat) (s : Nat) : l.foldl min s ≤ s ∧ ∀ x ∈ l, l.foldl min s ≤ x := by
  induction l generalizing s with
  | nil => simp
  | cons a l ih =>
    obtain ⟨h1, h2⟩ := ih (min s a)
    simp only [List.foldl_cons]
    refine ⟨by omega, ?_⟩
    intro x hx
    rcases List.mem_cons.1 hx with rfl | hx
    · omega
    · exact h2 x hx

theorem foldl_min_mem (l : List Nat) (s : Nat) : l.foldl min s = s ∨ l.foldl min s ∈ l := by
  induction l generalizing s with
  | nil => simp
  | cons a l ih =>
    simp only [List.foldl_cons]
    rcases ih (min s a) with h | h
    · rw [h]
      by_cases hsa : s ≤ a
      · left; omega
      · right; simp; left; omega
    · right; exact List.mem_cons_of_mem _ h

theorem foldl_max_ge (l : List Nat) (s : Nat) : s ≤ l.foldl max s ∧ ∀ x ∈ l, x ≤ l.foldl max s := by
  induction l generalizing s with
  | nil => simp
  | cons a l ih =>
    obtain ⟨h1, h2⟩ := ih (max s a)
    simp only [List.foldl_cons]
    refine ⟨by omega, ?_⟩
    intro x hx
    rcases List.mem_cons.1 hx with rfl | hx
    · omega
    · exact h2 x hx

theorem foldl_max_mem (l : List Nat) (s : Nat) : l.foldl max s = s ∨ l.foldl max s ∈ l := by
  induction l generalizing s with
  | nil => simp
  | cons a l ih =>
    simp only [List.foldl_cons]
    rcases ih (max s a) with h | h
    · rw [h]
      by_cases hsa : a ≤ s
      · left; omega
      · right; simp; left; omega
    · right; exact List.mem_cons_of_mem _ h

/-! ### first start / last end of an exon layout -/

theorem head_is_min (bs : List Blk) (h : goodBlocks bs = true) (b0 : Blk) (hb : bs.head? = some b0) :
    ∀ e ∈ bs, b0.1 ≤ e.1 := by
  obtain ⟨hp, hpos⟩ := (good_iff bs).1 h
  cases bs with
  | nil => simp at hb
  | cons a rest =>
    simp only [List.head?_cons, Option.some.injEq] at hb; subst hb
    rw [List.pairwise_cons] at hp
    intro e he
    rcases List.mem_cons.1 he with rfl | he
    · exact Nat.le_refl _
    · have := hp.1 e he; have := hpos a (by simp); omega

theorem last_is_max : ∀ (bs : List Blk), goodBlocks bs = true → ∀ bl, bs.getLast? = some bl → ∀ e ∈ bs, e.2 ≤ bl.2
  | [], _, _, hl, _, _ => by simp at hl
  | [a], _, bl, hl, e, he => by simp at hl he; subst hl; subst he; exact Nat.le_refl _
  | a :: b :: rest, h, bl, hl, e, he => by
    obtain ⟨hp, hpos⟩ := (good_iff (a :: b :: rest)).1 h
    have hg : goodBlocks (b :: rest) = true := by
      simp only [goodBlocks, Bool.and_eq_true] at h; exact h.2
    have hl' : (b :: rest).getLast? = some bl := by simpa [List.getLast?_cons_cons] using hl
    have ih := last_is_max (b :: rest) hg bl hl'
    rcases List.mem_cons.1 he with rfl | he
    · rw [List.pairwise_cons] at hp
      have hb1 := hp.1 b (by simp)
      have hb2 := hpos b (by simp)
      have := ih b (by simp)
      omega
    · exact ih e he

/-- **gene span**: `geneSpan` is the smallest exon start and the largest exon end over all transcripts, both
    attained (every transcript with a good, non-empty exon layout) -/
theorem geneSpan_spec (txs : List Tx) (hne : txs ≠ [])
    (hgood : ∀ t ∈ txs, goodBlocks t.exons = true ∧ t.exons ≠ []) :
    ∃ a b, geneSpan txs = some (a, b) ∧
      (∀ t ∈ txs, ∀ e ∈ t.exons, a ≤ e.1 ∧ e.2 ≤ b) ∧
      (∃ t ∈ txs, ∃ e ∈ t.exons, e.1 = a) ∧ (∃ t ∈ txs, ∃ e ∈ t.exons, e.2 = b) := by
  -- every transcript contributes its first start and last end
  have hstarts : txs.filterMap (fun t => t.exons.head?.map (·.1)) = txs.map (fun t => (t.exons.head?.map (·.1)).getD 0)
      ∧ ∀ t ∈ txs, ∃ b0, t.exons.head? = some b0 := by
    constructor
    · clear hne
      induction txs with
      | nil => rfl
      | cons t ts ih =>
        have hx := (hgood t (by simp)).2
        cases he : t.exons with
        | nil => exact absurd he hx
        | cons a r =>
          simp only [List.filterMap_cons, he, List.head?_cons, Option.map_some, List.map_cons, Option.getD_some]
          rw [ih (fun x hx => hgood x (List.mem_cons_of_mem _ hx))]
    · intro t ht
      have hx := (hgood t ht).2
      cases he : t.exons with
      | nil => exact absurd he hx
      | cons a r => exact ⟨a, rfl⟩
  have hends : ∀ t ∈ txs, ∃ bl, t.exons.getLast? = some bl := by
    intro t ht
    have hx := (hgood t ht).2
    exact ⟨t.exons.getLast hx, List.getLast?_eq_some_getLast hx⟩
  cases txs with
  | nil => exact absurd rfl hne
  | cons t0 ts =>
    obtain ⟨h0, hh0⟩ := hstarts.2 t0 (by simp)
    obtain ⟨l0, hl0⟩ := hends t0 (by simp)
    -- the two lists the code folds over
    have hS : ∃ ss, (t0 :: ts).filterMap (fun t => t.exons.head?.map (·.1)) = h0.1 :: ss ∧
        (∀ t ∈ ts, ∀ b0, t.exons.head? = some b0 → b0.1 ∈ ss) ∧
        (∀ x ∈ ss, ∃ t ∈ ts, ∃ b0, t.exons.head? = some b0 ∧ b0.1 = x) := by
      refine ⟨ts.filterMap (fun t => t.exons.head?.map (·.1)), by simp [hh0], ?_, ?_⟩
      · intro t ht b0 hb0
        simp only [List.mem_filterMap]
        exact ⟨t, ht, by simp [hb0]⟩
      · intro x hx
        simp only [List.mem_filterMap] at hx
        obtain ⟨t, ht, hx⟩ := hx
        cases hh : t.exons.head? with
        | none => simp [hh] at hx
        | some b0 => simp [hh] at hx; exact ⟨t, ht, b0, hh, hx⟩
    have hE : ∃ es, (t0 :: ts).filterMap (fun t => t.exons.getLast?.map (·.2)) = l0.2 :: es ∧
        (∀ t ∈ ts, ∀ bl, t.exons.getLast? = some bl → bl.2 ∈ es) ∧
        (∀ x ∈ es, ∃ t ∈ ts, ∃ bl, t.exons.getLast? = some bl ∧ bl.2 = x) := by
      refine ⟨ts.filterMap (fun t => t.exons.getLast?.map (·.2)), by simp [hl0], ?_, ?_⟩
      · intro t ht bl hbl
        simp only [List.mem_filterMap]
        exact ⟨t, ht, by simp [hbl]⟩
      · intro x hx
        simp only [List.mem_filterMap] at hx
        obtain ⟨t, ht, hx⟩ := hx
        cases hh : t.exons.getLast? with
        | none => simp [hh] at hx
        | some bl => simp [hh] at hx; exact ⟨t, ht, bl, hh, hx⟩
    obtain ⟨ss, hss, hs1, hs2⟩ := hS
    obtain ⟨es, hes, he1, he2⟩ := hE
    refine ⟨ss.foldl min h0.1, es.foldl max l0.2, ?_, ?_, ?_, ?_⟩
    · unfold geneSpan; rw [hss, hes]
    · intro t ht e he
      obtain ⟨b0, hb0⟩ := hstarts.2 t ht
      obtain ⟨bl, hbl⟩ := hends t ht
      have hmin := head_is_min t.exons (hgood t ht).1 b0 hb0 e he
      have hmax := last_is_max t.exons (hgood t ht).1 bl hbl e he
      obtain ⟨f1, f2⟩ := foldl_min_le ss h0.1
      obtain ⟨g1, g2⟩ := foldl_max_ge es l0.2
      rcases List.mem_cons.1 ht with rfl | ht'
      · rw [hh0] at hb0; rw [hl0] at hbl
        simp only [Option.some.injEq] at hb0 hbl; subst hb0; subst hbl
        omega
      · have := f2 _ (hs1 t ht' b0 hb0)
        have := g2 _ (he1 t ht' bl hbl)
        omega
    · rcases foldl_min_mem ss h0.1 with h | h
      · refine ⟨t0, by simp, h0, List.mem_of_mem_head? hh0, h.symm⟩
      · obtain ⟨t, ht, b0, hb0, hx⟩ := hs2 _ h
        exact ⟨t, List.mem_cons_of_mem _ ht, b0, List.mem_of_mem_head? hb0, hx⟩
    · rcases foldl_max_mem es l0.2 with h | h
      · refine ⟨t0, by simp, l0, List.mem_of_getLast? hl0, h.symm⟩
      · obtain ⟨t, ht, bl, hbl, hx⟩ := he2 _ h
        exact ⟨t, List.mem_cons_of_mem _ ht, bl, List.mem_of_getLast? hbl, hx⟩

/-! ### RNA features -/

/-- `transcript.chromosome_location` of an exon layout: the blocks as given -/
theorem chromosomeBlocks_good (t : Tx) (h : goodBlocks t.exons = true) (hne : t.exons ≠ []) :
    chromosomeBlocks t = .ok t.exons := by
  obtain ⟨_, hpos⟩ := (good_iff t.exons).1 h
  have hmk := mkCompoundLoc_ok t.strand hne (fun b hb => Nat.le_of_lt (hpos b hb))
  rw [sortBlocks_of_fst_lt t.strand (fst_lt_of_good _ h)] at hmk
  unfold chromosomeBlocks
  simp [hmk, bind, Except.bind, pure, Except.pure]

/-- the RNA feature of a transcript of a non-coding gene: no partial marks, no `pseudo`, no `codon_start`; its rows
    are the blocks as given — or, with the repair of F-C17c switched on (`rnaRowsMerged`), the merged blocks -/
theorem rna_feature (g : Gene) (hnc : g.isCoding = false) (table : Int) (pseudo : Bool) (t : Tx)
    (h : goodBlocks t.exons = true) (hne : t.exons ≠ []) (mc : Option CDS) :
    ∃ key, txFeatures g table pseudo t (mergedBlocks t.exons) mc
        = .ok [⟨key, t.strand, if rnaRowsMerged then mergedBlocks t.exons else t.exons, false, false, false, none⟩] ∧
      (key = "rRNA".toList ∨ key = "tRNA".toList ∨ key = "ncRNA".toList) := by
  unfold txFeatures
  simp only [hnc, Bool.false_eq_true, if_false]
  cases hsw : rnaRowsMerged
  · simp only [Bool.false_eq_true, if_false, chromosomeBlocks_good t h hne, liftR, bind, Except.bind]
    by_cases h1 : g.gtype = bt "rRNA"
    · exact ⟨"rRNA".toList, by simp [h1, pure, Except.pure], Or.inl rfl⟩
    · by_cases h2 : g.gtype = bt "tRNA"
      · have h3 : ¬ (bt "tRNA" = bt "rRNA") := by decide
        exact ⟨"tRNA".toList, by simp [h2, h3, pure, Except.pure], Or.inr (Or.inl rfl)⟩
      · exact ⟨"ncRNA".toList, by simp [h1, h2, pure, Except.pure], Or.inr (Or.inr rfl)⟩
  · simp only [if_true, bind, Except.bind, pure, Except.pure]
    by_cases h1 : g.gtype = bt "rRNA"
    · exact ⟨"rRNA".toList, by simp [h1], Or.inl rfl⟩
    · by_cases h2 : g.gtype = bt "tRNA"
      · have h3 : ¬ (bt "tRNA" = bt "rRNA") := by decide
        exact ⟨"tRNA".toList, by simp [h2, h3], Or.inr (Or.inl rfl)⟩
      · exact ⟨"ncRNA".toList, by simp [h1, h2], Or.inr (Or.inr rfl)⟩

end BioCantor.Proofs.Tbl
