/-
  C03-T1: `extract_sequence` (single / compound / empty) is the base-by-base image of `Spec.bases`.
-/
import BioCantor.Proofs.SeqBasics
set_option linter.unusedSimpArgs false
namespace BioCantor.Proofs.Sq
open BioCantor BioCantor.Spec BioCantor.Model BioCantor.Spec.Sq BioCantor.Model.Sq BioCantor.Proofs

theorem mapOpt_map {α β γ} (f : β → Option γ) (g : α → β) (xs : List α) :
    mapOpt f (xs.map g) = mapOpt (fun x => f (g x)) xs := by
  induction xs with
  | nil => rfl
  | cons x xs ih => simp only [List.map_cons, mapOpt, ih]

theorem mapOpt_flatten {α β} (f : α → Option β) (xss : List (List α)) :
    mapOpt f xss.flatten = (mapOpt (mapOpt f) xss).map List.flatten := by
  induction xss with
  | nil => rfl
  | cons xs xss ih =>
    simp only [List.flatten_cons, mapOpt_append, ih, mapOpt]
    cases mapOpt f xs <;> cases mapOpt (mapOpt f) xss <;> simp [oapp]

theorem mapOpt_pure {α β} (g : α → β) (xs : List α) : mapOpt (fun x => some (g x)) xs = some (xs.map g) := by
  induction xs with
  | nil => rfl
  | cons x xs ih => simp only [mapOpt, ih, List.map_cons]

theorem foldl_append_flatten {α} (s : List α) (ss : List (List α)) :
    ss.foldl (fun acc x => acc ++ x) s = s ++ ss.flatten := by
  induction ss generalizing s with
  | nil => simp
  | cons x xs ih => simp [ih]

theorem reduceAppend_ok (ss : List (List Char)) (h : ss ≠ []) : reduceAppend ss = .ok ss.flatten := by
  cases ss with
  | nil => exact absurd rfl h
  | cons s ss => simp [reduceAppend, foldl_append_flatten, pure, Except.pure]

/-- the generator of block sequences, observed -/
theorem ans_extractBlocks (P alph : List Char) (st : Strand) (bs : List Blk) :
    ans (extractBlocks P alph st bs) = mapOpt (fun b => ans (extractSingle P alph b st)) bs := by
  induction bs with
  | nil => rfl
  | cons b bs ih =>
    simp only [extractBlocks, mapOpt, bind, Except.bind]
    cases hb : extractSingle P alph b st with
    | error e => rfl
    | ok s =>
      simp only [ans_ok]
      cases hr : extractBlocks P alph st bs with
      | error e => rw [hr] at ih; simp only [ans_error] at ih; rw [← ih]; rfl
      | ok r => rw [hr] at ih; simp only [ans_ok] at ih; rw [← ih]; rfl

theorem charsAt_basesPlus (P : List Char) (bs : List Blk) (hw : ∀ b ∈ bs, blkWithin P b) :
    charsAt P (basesPlus bs) = some (bs.map (sliceP P)).flatten := by
  induction bs with
  | nil => rfl
  | cons b bs ih =>
    simp only [basesPlus, charsAt_append, charsAt_blkAsc P b (hw b (by simp)),
      ih (fun x hx => hw x (List.mem_cons_of_mem _ hx)), oapp, List.map_cons, List.flatten_cons]

theorem charsAt_basesMinus (P : List Char) (bs : List Blk) (hw : ∀ b ∈ bs, blkWithin P b) :
    charsAt P (basesMinus bs) = some (bs.map (fun b => (sliceP P b).reverse)).flatten := by
  induction bs with
  | nil => rfl
  | cons b bs ih =>
    simp only [basesMinus, charsAt_append, charsAt_blkDesc P b (hw b (by simp)),
      ih (fun x hx => hw x (List.mem_cons_of_mem _ hx)), oapp, List.map_cons, List.flatten_cons]

theorem ans_bind_ok {α β} (x : Except Err α) (f : α → Except Err β) :
    ans (x >>= f) = Spec.Sq.optBind (ans x) (fun a => ans (f a)) := by
  cases x <;> rfl

/-- T1 for one block -/
theorem extractSingle_spec (P alph : List Char) (hnt : isNt alph = true) (b : Blk) (st : Strand)
    (hw : blkWithin P b) : ans (extractSingle P alph b st) = expectExtractLoc P alph ⟨[b], st⟩ := by
  unfold extractSingle expectExtractLoc readAt
  cases st with
  | plus =>
    simp only [bases, basesPlus, List.append_nil, charsAt_blkAsc P b hw]
    rfl
  | minus =>
    simp only [bases, List.reverse_cons, List.reverse_nil, List.nil_append, basesMinus, List.append_nil,
      charsAt_blkDesc P b hw, reduceCtorEq, if_false, if_true]
    rw [ans_rcData alph hnt]; rfl
  | unstranded => rfl

/-- T1 for a block list -/
theorem extractCompound_spec (P alph : List Char) (hnt : isNt alph = true) (bs : List Blk) (st : Strand)
    (hne : bs ≠ []) (hw : ∀ b ∈ bs, blkWithin P b) :
    ans (extractCompound P alph ⟨bs, st⟩) = expectExtractLoc P alph ⟨bs, st⟩ := by
  unfold extractCompound expectExtractLoc readAt assertDirectional
  cases st with
  | unstranded => rfl
  | plus =>
    simp only [true_or, if_true, bases, charsAt_basesPlus P bs hw, reduceCtorEq, if_false]
    have h1 : extractBlocks P alph .plus bs = .ok (bs.map (sliceP P)) := by
      have := ans_extractBlocks P alph .plus bs
      have h2 : (fun b => ans (extractSingle P alph b .plus)) = fun b => some (sliceP P b) := by
        funext b; rfl
      rw [h2, mapOpt_pure] at this
      cases hx : extractBlocks P alph .plus bs with
      | error e => rw [hx] at this; cases this
      | ok r => rw [hx] at this; simp only [ans_ok, Option.some.injEq] at this; rw [this]
    simp only [bind, Except.bind, pure, Except.pure, h1]
    rw [reduceAppend_ok _ (by simpa using hne)]
    rfl
  | minus =>
    have hw' : ∀ b ∈ bs.reverse, blkWithin P b := fun b hb => hw b (List.mem_reverse.1 hb)
    simp only [or_true, if_true, bases, charsAt_basesMinus P bs.reverse hw', reduceCtorEq, if_false]
    have h0 := ans_extractBlocks P alph .minus bs.reverse
    have h2 : (fun b => ans (extractSingle P alph b .minus)) = fun b => revcomp alph (sliceP P b) := by
      funext b
      simp only [extractSingle, reduceCtorEq, if_false, if_true]
      exact ans_rcData alph hnt _
    rw [h2] at h0
    -- expected side
    rw [compAll_eq, mapOpt_flatten, mapOpt_map]
    have h3 : (fun b => mapOpt (compOf alph) (sliceP P b).reverse) = fun b => revcomp alph (sliceP P b) := by
      funext b; unfold revcomp; rw [compAll_eq]
    rw [h3, ← h0]
    simp only [bind, Except.bind, pure, Except.pure]
    cases hx : extractBlocks P alph .minus bs.reverse with
    | error e => rfl
    | ok r =>
      have hlen : r ≠ [] := by
        rw [hx] at h0
        simp only [ans_ok] at h0
        have := mapOpt_some_length _ _ _ h0.symm
        intro hr; subst hr
        simp at this
        exact hne (List.length_eq_zero_iff.1 this.symm)
      simp only [ans_ok, Option.map_some]
      rw [reduceAppend_ok _ hlen]; rfl

/-- what the constructors guarantee about a location and its parent sequence -/
def Within (P : List Char) : Location → Prop
  | .single b _ => blkWithin P b
  | .compound l => ∀ b ∈ l.blocks, blkWithin P b
  | .empty => True

instance (P : List Char) (b : Blk) : Decidable (blkWithin P b) := by unfold blkWithin; infer_instance
instance (P : List Char) (l : Location) : Decidable (Within P l) := by
  cases l <;> unfold Within <;> infer_instance

theorem within_of_Within (P : List Char) (l : Location) (loc : Loc) (hl : toLoc l = some loc) :
    within P loc = true ↔ Within P l := by
  cases l with
  | single b st =>
    simp only [toLoc, Option.some.injEq] at hl; subst hl
    rw [within_iff]; simp [Within]
  | compound c =>
    simp only [toLoc, Option.some.injEq] at hl; subst hl
    obtain ⟨bs, st⟩ := c
    rw [within_iff]; rfl
  | empty => simp [toLoc] at hl

/-- T1 as an equation -/
theorem extract_eq (P alph : List Char) (hnt : isNt alph = true) (l : Location) (h : WF l) (hw : Within P l) :
    ans (extract P alph l) = expectExtract P alph l := by
  cases l with
  | single b st => exact extractSingle_spec P alph hnt b st hw
  | compound c =>
    obtain ⟨bs, st⟩ := c
    exact extractCompound_spec P alph hnt bs st h.1 hw
  | empty => rfl

/-- **C03-T1** -/
theorem extract_ok (P alph : List Char) (l : Location) (h : WF l) :
    okExtract P alph l (ans (extract P alph l)) = true := by
  unfold okExtract
  by_cases hnt : isNt alph = true
  · simp only [hnt, Bool.not_true, Bool.false_eq_true, if_false]
    cases hl : toLoc l with
    | none =>
      cases l with
      | empty => rfl
      | single b st => simp [toLoc] at hl
      | compound c => simp [toLoc] at hl
    | some loc =>
      simp only
      by_cases hw : within P loc = true
      · simp only [hw, if_true]
        rw [extract_eq P alph hnt l h ((within_of_Within P l loc hl).1 hw)]; simp
      · simp [hw]
  · simp [hnt]

end BioCantor.Proofs.Sq
