/-
  C12 — T2 for one gene: the records the writer model produces for a single-transcript gene are classified, converted
  (`_convert_seqfeature_to_gene`) and modelled (`to_gene_model`) into the gene model the documentation promises.
-/
import BioCantor.Proofs.GbConvert
namespace BioCantor.Proofs.Gb
open BioCantor BioCantor.Spec.Qual BioCantor.Spec.Gb BioCantor.Model BioCantor.Model.Gb

/-! ### classification and conversion of the three chain shapes -/

theorem gene_facts (r : Rec) (h : isGeneT r = true) : isTxT r = false ∧ isCdsT r = false := by
  unfold isGeneT at h
  have : r.type = tyGene := by simpa using h
  unfold isTxT isCdsT
  rw [this]; decide

theorem classify_A (gr c : Rec) (hg : isGeneT gr = true) (hc : c.type = tyCDS) :
    classifyGroup [gr, c] = ⟨some gr, [], [c]⟩ := by
  obtain ⟨g1, g2⟩ := gene_facts gr hg
  obtain ⟨c1, c2, c3, _⟩ := cds_facts c hc
  unfold classifyGroup
  simp [List.filter, hg, g1, g2, c1, c2, c3, keepFirstTx]

theorem classify_B (gr x c : Rec) (hg : isGeneT gr = true) (hx : x.type = tyMRNA) (hc : c.type = tyCDS) :
    classifyGroup [gr, x, c] = ⟨some gr, [x], [c]⟩ := by
  obtain ⟨g1, g2⟩ := gene_facts gr hg
  obtain ⟨x1, x2, x3, _, _⟩ := mrna_facts x hx
  obtain ⟨c1, c2, c3, _⟩ := cds_facts c hc
  unfold classifyGroup
  simp [List.filter, hg, g1, g2, x1, x2, x3, c1, c2, c3, keepFirstTx]

theorem classify_C (gr x : Rec) (hg : isGeneT gr = true) (hx : nonCodingTypes.contains x.type = true) :
    classifyGroup [gr, x] = ⟨some gr, [x], []⟩ := by
  obtain ⟨g1, g2⟩ := gene_facts gr hg
  obtain ⟨x1, x2, x3, _⟩ := noncoding_facts x hx
  unfold classifyGroup
  simp [List.filter, hg, g1, g2, x1, x2, x3, keepFirstTx]

theorem convert_A (gr c : Rec) (hc : c.type = tyCDS) :
    convertGroup ⟨some gr, [], [c]⟩ = .ok ⟨gr, [⟨{ c with type := tyMRNA }, some c⟩]⟩ := by
  obtain ⟨_, c2, c3, _⟩ := cds_facts c hc
  unfold convertGroup
  simp [mapMP, addChild, c2, c3, bind, Except.bind, pure, Except.pure]

theorem convert_B (gr x c : Rec) (hx : x.type = tyMRNA) :
    convertGroup ⟨some gr, [x], [c]⟩ = .ok ⟨gr, [⟨x, some c⟩]⟩ := by
  obtain ⟨_, x2, _, _, _⟩ := mrna_facts x hx
  unfold convertGroup
  simp [mapMP, addChild, x2, bind, Except.bind, pure, Except.pure]

theorem convert_C (gr x : Rec) (hx : nonCodingTypes.contains x.type = true) :
    convertGroup ⟨some gr, [x], []⟩ = .ok ⟨gr, [⟨x, none⟩]⟩ := by
  obtain ⟨_, x2, _, _⟩ := noncoding_facts x hx
  unfold convertGroup
  simp [mapMP, addChild, x2, bind, Except.bind, pure, Except.pure]

/-- `to_gene_model` of a gene feature with one child -/
theorem toGeneModel_one (prule : ParserRule) (gr : Rec) (ch : Child) (p : PTx) (gid sym tag : Option Str)
    (hp : txModel prule ch = .ok p) (h1 : firstOf "gene_id".toList gr.quals = .ok gid)
    (h2 : firstOf "gene".toList gr.quals = .ok sym) (h3 : firstOf "locus_tag".toList gr.quals = .ok tag) :
    toGeneModel prule ⟨gr, [ch]⟩ = .ok
      { geneId := gid, geneSymbol := sym, locusTag := tag, geneType := p.txType, txs := [p] } := by
  unfold toGeneModel
  simp only [mapMP, hp, bind, Except.bind, pure, Except.pure, h1, h2, h3, List.map_cons, List.map_nil, geneBiotype,
    List.foldl_nil, dedup]
  simp [dedup]

end BioCantor.Proofs.Gb

namespace BioCantor.Proofs.Gb
open BioCantor BioCantor.Spec.Qual BioCantor.Spec.Gb BioCantor.Model BioCantor.Model.Gb

/-! ### the clauses of (b) on a gene model with the promised fields -/

theorem geneViolations_nil (fl : Flavor) (g : Gene) (t : Tx) (p : PTx) (hone : g.txs = [t])
    (hs : p.strand = t.strand) (hex : p.exons = (expectedTx fl g t).exons) (hcds : p.cds = (expectedTx fl g t).cds)
    (hfr : if (expectedTx fl g t).cds.isEmpty then p.frames = []
           else okFramesOf t.strand (expectedTx fl g t).cds (startFrameNat t) p.frames = true ∧
                p.frames.length = (expectedTx fl g t).cds.length)
    (hid : p.txId = set? t.txId) (hsym : p.txSymbol = geneSymbolWritten g)
    (hprot : p.proteinId = (expectedTx fl g t).proteinId) (hty : p.txType = (expectedTx fl g t).txType)
    (hname : ∀ s, set? t.txSymbol = some s → hasQual p.quals kTranscriptName s = true) :
    geneViolations fl g
      { geneId := set? g.geneId, geneSymbol := geneSymbolWritten g, locusTag := geneTagWritten g,
        geneType := p.txType, txs := [p] } = [] := by
  have hexp : expectedGene fl g =
      { geneId := set? g.geneId, geneSymbol := geneSymbolWritten g, locusTag := geneTagWritten g,
        geneType := (expectedTx fl g t).txType, txs := [expectedTx fl g t] } := by
    unfold expectedGene
    rw [hone]
    rfl
  have htx : txViolations t (expectedTx fl g t) p = [] := by
    unfold txViolations
    have e1 : ((expectedTx fl g t).strand == p.strand) = true := by rw [hs]; simp [expectedTx]
    have e2 : ((expectedTx fl g t).exons == p.exons) = true := by rw [hex]; simp
    have e3 : ((expectedTx fl g t).cds == p.cds) = true := by rw [hcds]; simp
    have e4 : optEq (expectedTx fl g t).txId p.txId = true := by rw [hid]; simp [optEq, expectedTx]
    have e5 : optEq (expectedTx fl g t).txSymbol p.txSymbol = true := by rw [hsym]; simp [optEq, expectedTx]
    have e6 : optEq (expectedTx fl g t).proteinId p.proteinId = true := by rw [hprot]; simp [optEq]
    have e7 : ((expectedTx fl g t).txType == p.txType) = true := by rw [hty]; simp
    rw [if_pos e1, if_pos e2, if_pos e3, if_pos e4, if_pos e5, if_pos e6, if_pos e7]
    simp only [List.nil_append]
    have hframes : (if (expectedTx fl g t).cds.isEmpty = true then (if p.frames.isEmpty = true then [] else ["frames"])
        else if (okFramesOf t.strand (expectedTx fl g t).cds (startFrameNat t) p.frames &&
                  p.frames.length == (expectedTx fl g t).cds.length) = true then []
        else [s!"frames{cdsClass t}"]) = ([] : List String) := by
      by_cases hc : (expectedTx fl g t).cds.isEmpty = true
      · rw [if_pos hc] at hfr
        rw [if_pos hc, hfr]; rfl
      · rw [if_neg hc] at hfr
        rw [if_neg hc, if_pos (by rw [hfr.1, hfr.2]; simp)]
    rw [hframes, List.nil_append]
    cases hn : set? t.txSymbol with
    | none => rfl
    | some s => simp only []; rw [if_pos (hname s hn)]; rfl
  unfold geneViolations
  rw [hexp]
  simp only [optEq, beq_self_eq_true, if_true, List.nil_append, hty, List.length_cons, List.length_nil, hone,
    List.zip_cons_cons, List.zip_nil_right, List.flatMap_cons, List.flatMap_nil, List.append_nil, htx]

end BioCantor.Proofs.Gb

namespace BioCantor.Proofs.Gb
open BioCantor BioCantor.Spec.Qual BioCantor.Spec.Gb BioCantor.Model BioCantor.Model.Gb

/-! ### more consequences of well-formedness -/

theorem txWF_frames (t : Tx) (h : txWF t = true) : t.frames.length = t.cds.length ∧ ∀ f ∈ t.frames, f ≠ .NONE := by
  simp only [txWF, Bool.and_eq_true, List.all_eq_true, decide_eq_true_eq, Bool.not_eq_true',
    List.isEmpty_eq_false_iff, beq_iff_eq, bne_iff_ne] at h
  obtain ⟨⟨⟨⟨_, hlen⟩, hnn⟩, _⟩, _⟩ := h
  exact ⟨hlen, hnn⟩

theorem ft_mrna_coding (t : Tx) (h : txFeatureType t = sMRNA) : t.coding = true := by
  unfold txFeatureType at h
  have h1 : sMiscRNA ≠ sMRNA := by decide
  cases hm : (set? t.txType).map canonBiotype with
  | none =>
    rw [hm] at h
    simp only [] at h
    split at h
    · assumption
    · exact absurd h h1
  | some n =>
    rw [hm] at h
    simp only [] at h
    split at h
    · next hc =>
      rw [h] at hc
      exact absurd hc (by decide)
    · split at h
      · assumption
      · exact absurd h h1

theorem startFrame_some (t : Tx) (hwf : txWF t = true) (hc : t.cds ≠ []) :
    ∃ f, startFrame t = some f ∧ f ≠ .NONE := by
  obtain ⟨hlen, hnn⟩ := txWF_frames t hwf
  have hne : t.frames ≠ [] := by
    intro h; rw [h] at hlen
    exact hc (List.eq_nil_of_length_eq_zero hlen.symm)
  unfold startFrame
  cases t.strand with
  | minus =>
    simp only []
    cases hl : t.frames.getLast? with
    | none => exact absurd (List.getLast?_eq_none_iff.mp hl) hne
    | some f => exact ⟨f, rfl, hnn f (List.mem_of_getLast? hl)⟩
  | plus =>
    simp only []
    cases hf : t.frames with
    | nil => exact absurd hf hne
    | cons f _ => exact ⟨f, rfl, hnn f (by rw [hf]; exact List.mem_cons_self)⟩
  | unstranded =>
    simp only []
    cases hf : t.frames with
    | nil => exact absurd hf hne
    | cons f _ => exact ⟨f, rfl, hnn f (by rw [hf]; exact List.mem_cons_self)⟩

theorem fits_conv (t : Tx) (f : CDSFrame) (hsf : startFrame t = some f) (hf : f ≠ .NONE) (hfit : t.frameFits = true)
    (hc : t.cds ≠ []) (hdir : t.strand = .plus ∨ t.strand = .minus) :
    t.cds.length = 1 ∨ f.value ≤ (Proofs.firstLen ⟨t.cds, t.strand⟩ : Int) := by
  unfold Tx.frameFits at hfit
  simp only [Bool.or_eq_true, decide_eq_true_eq] at hfit
  rcases hfit with h | h
  · left
    cases hcd : t.cds with
    | nil => exact absurd hcd hc
    | cons b rest => rw [hcd] at h; simp at h ⊢; omega
  · right
    have hn : startFrameNat t = frameNat f := by unfold startFrameNat; rw [hsf]; rfl
    have hv : f.value = (frameNat f : Int) := by cases f <;> first | exact absurd rfl hf | rfl
    rw [hn] at h
    have hfl : Proofs.firstLen ⟨t.cds, t.strand⟩ = firstCdsLen t := by
      unfold Proofs.firstLen Proofs.scanOrder firstCdsLen
      rcases hdir with hd | hd
      · simp only [hd, if_true]
        cases t.cds <;> rfl
      · simp only [hd]
        rw [if_neg (by decide)]
        cases hr : t.cds.reverse with
        | nil =>
          have : t.cds = [] := by simpa using hr
          rw [this]; rfl
        | cons b rest =>
          have : t.cds.getLast? = some b := by
            rw [← List.head?_reverse, hr]; rfl
          rw [this]; rfl
    rw [hv, hfl]
    exact_mod_cast h

/-- facts about the CDS record of a transcript written with `/codon_start` -/
theorem cds_rec_facts (cfg : Cfg) (seq : Option Str) (t : Tx) (q2 : QDict) (strand : Strand) (cr : Rec)
    (hc : addCdsFeature cfg seq t q2 strand = .ok cr) (hem : cfg.rule.emitsCodonStart = true) :
    cr.type = tyCDS ∧ cr.strand = strand ∧ cr.parts = toBiopythonParts cfg.rule t.strand t.cds ∧
    qGet Model.Gb.kCodonStart cr.quals = some [frameDigit ((startFrame t).getD .ZERO)] ∧
    ∀ k, k ≠ "codon_start".toList → k ≠ "translation".toList → qGet k cr.quals = qGet k q2 := by
  have hbase : ∀ k, k ≠ "codon_start".toList → qGet k (cdsBaseQuals cfg t q2) = qGet k q2 := by
    intro k hk
    unfold cdsBaseQuals
    rw [if_pos hem]
    exact qGet_dictSet_other _ _ _ _ hk
  have hcs : qGet Model.Gb.kCodonStart (cdsBaseQuals cfg t q2) = some [frameDigit ((startFrame t).getD .ZERO)] := by
    unfold cdsBaseQuals
    rw [if_pos hem]
    exact qGet_dictSet_same _ _ _
  rcases addCds_shape cfg seq t q2 strand cr hc with rfl | ⟨p, _, _, rfl⟩
  · exact ⟨rfl, rfl, rfl, hcs, fun k h1 _ => hbase k h1⟩
  · refine ⟨rfl, rfl, rfl, ?_, ?_⟩
    · simp only [cdsRecord]
      rw [qGet_dictSet_other _ _ _ _ (by decide)]
      exact hcs
    · intro k h1 h2
      simp only [cdsRecord]
      rw [qGet_dictSet_other _ _ _ _ h2]
      exact hbase k h1

theorem txRecord_lookups (cfg : Cfg) (t : Tx) (ft : Str) (strand : Strand) (q2 : QDict) :
    qGet "protein_id".toList (txRecord cfg t ft strand q2).quals = none ∧
    ∀ k, k ≠ "protein_id".toList → k ≠ "translation".toList →
      qGet k (txRecord cfg t ft strand q2).quals = qGet k q2 := by
  refine ⟨?_, ?_⟩
  · simp only [txRecord]
    rw [qGet_dictDel_other _ _ _ (by decide)]
    exact qGet_dictDel_same _ _
  · intro k h1 h2
    simp only [txRecord]
    rw [qGet_dictDel_other _ _ _ h2, qGet_dictDel_other _ _ _ h1]

end BioCantor.Proofs.Gb

namespace BioCantor.Proofs.Gb
open BioCantor BioCantor.Spec.Qual BioCantor.Spec.Gb BioCantor.Model BioCantor.Model.Gb

/-- a gene of the round-trip claim -/
structure RtGene (prule : ParserRule) (g : Gene) (t : Tx) (tag : Str) : Prop where
  wf : geneWF g = true
  one : g.txs = [t]
  tag : geneTagOf g = some tag
  gq : NoReserved g.quals
  tq : NoReserved t.quals
  /-- a coding transcript is not typed with one of the RNA feature keys (its CDS record would not be written) -/
  rna : t.coding = true → t.writesCds = true
  inside : CdsInside t.exons t.cds
  /-- CDS blocks are separated by real gaps (F-C12c is the recorded exception of the code as it is) -/
  gaps : adjacentBlocks t.cds = false ∨ prule.clipsBlockwise = true
  fits : t.frameFits = true

/-- the transcript model of a (transcript record, CDS record) pair or of a lone transcript record -/
theorem child_model (cfg : Cfg) (seq : Option Str) (prule : ParserRule) (g : Gene) (t : Tx) (tag : Str)
    (h : RtGene prule g t tag) (hem : cfg.rule.emitsCodonStart = true) (q0 : QDict)
    (hq0 : txExportQuals t = .ok q0) (strand : Strand) (hst : t.strand = strand)
    (c : Child) (E : List Blk)
    (htp : c.tx.parts = toBiopythonParts cfg.rule t.strand E) (hts : c.tx.strand = strand)
    (hE : Asc E ∧ E ≠ []) (hEin : CdsInside E t.cds)
    (hcds : (c.cds = none ∧ t.writesCds = false) ∨
            (∃ cr, c.cds = some cr ∧ t.writesCds = true ∧
              addCdsFeature cfg seq t (txBaseQuals q0 (geneSymbolOf g) (geneTagOf g)) strand = .ok cr))
    (hqtx : ∀ k, k ≠ "protein_id".toList → k ≠ "translation".toList → k ≠ "codon_start".toList →
        qGet k c.tx.quals = qGet k (txBaseQuals q0 (geneSymbolOf g) (geneTagOf g)))
    (hprot : qGet "protein_id".toList c.tx.quals = none ∨
        (qGet "protein_id".toList c.tx.quals = qGet "protein_id".toList (txBaseQuals q0 (geneSymbolOf g) (geneTagOf g)) ∧
         t.writesCds = true)) :
    ∃ p, txModel prule c = .ok p ∧ p.strand = strand ∧ p.exons = E ∧
      p.cds = (if t.writesCds then t.cds else []) ∧
      (if t.writesCds then okFramesOf t.strand t.cds (startFrameNat t) p.frames = true ∧ p.frames.length = t.cds.length
       else p.frames = []) ∧
      p.txId = set? t.txId ∧ p.txSymbol = geneSymbolWritten g ∧
      p.proteinId = (if t.writesCds then set? t.proteinId else none) ∧
      p.txType = (if c.tx.type == tyMRNA then Model.Gb.sProteinCoding else c.tx.type) ∧
      (∀ s, set? t.txSymbol = some s → hasQual p.quals kTranscriptName s = true) := by
  obtain ⟨hwf0, hone, htag, _, htq, hrna, hinside, hgaps, hfits⟩ := h
  obtain ⟨t0, ts, hgt, hwfs, _⟩ := geneWF_facts g hwf0
  have htwf : txWF t = true := hwfs t (by rw [hone]; exact List.mem_cons_self)
  obtain ⟨hdir, _, _, hcasc⟩ := txWF_facts t htwf
  have hdir' : strand = .plus ∨ strand = .minus := by
    rw [← hst]
    cases hs : t.strand with
    | plus => exact Or.inl rfl
    | minus => exact Or.inr rfl
    | unstranded => rw [hs] at hdir; exact absurd hdir (by decide)
  obtain ⟨l1, l2, l3, l4, l5, l6⟩ := txBase_lookups t q0 hq0 htq (geneSymbolOf g) (geneTagOf g)
  have h1 := exonInterval_written cfg.rule c.tx strand t.strand E htp hts hE.1 hE.2
  have hpseudo : qGet "pseudo".toList c.tx.quals = none := by
    rw [hqtx _ (by decide) (by decide) (by decide)]; exact l4
  have hname : ∀ s, set? t.txSymbol = some s → hasQual (mergeCdsQualifiers c) kTranscriptName s = true := by
    intro s hs
    apply mergeCds_has c kTranscriptName s [s]
    · rw [show kTranscriptName = "transcript_name".toList from rfl, hqtx _ (by decide) (by decide) (by decide)]
      exact l6 s (by rw [truthy_eq_set?]; exact hs)
    · exact List.mem_cons_self
  have htid_tx : qGet "transcript_id".toList c.tx.quals = (truthy t.txId).map fun v => [v] := by
    rw [hqtx _ (by decide) (by decide) (by decide)]; exact l1
  have hprod_tx : qGet "product".toList c.tx.quals = (none : Option Str).map fun v => [v] := by
    rw [hqtx _ (by decide) (by decide) (by decide)]; exact l3
  have hgene_tx : qGet "gene".toList c.tx.quals = (geneSymbolOf g).map fun v => [v] := by
    rw [hqtx _ (by decide) (by decide) (by decide)]; exact l5
  rcases hcds with ⟨hcn, hw⟩ | ⟨cr, hcs, hw, hadd⟩
  · -- no CDS record
    have hprot_tx : qGet "protein_id".toList c.tx.quals = (none : Option Str).map fun v => [v] := by
      rcases hprot with h | ⟨_, h⟩
      · exact h
      · rw [hw] at h; exact absurd h (by simp)
    have hm := txModel_eval prule c E strand [] [] (truthy t.txId) (geneSymbolOf g) none h1
      (Or.inl ⟨hcn, rfl, rfl⟩) hpseudo (qualFrom_nocds c _ _ htid_tx hcn) (qualFrom_nocds c _ _ hprot_tx hcn)
      (qualFrom_nocds c _ _ hprod_tx hcn) (qualFrom_nocds c _ _ hgene_tx hcn)
    refine ⟨_, hm, hts, rfl, ?_, ?_, truthy_eq_set? _, geneSymbolOf_eq g, ?_, rfl, hname⟩
    · rw [hw]; rfl
    · rw [hw]; rfl
    · rw [hw]; rfl
  · -- with the CDS record
    obtain ⟨c1, c2, c3, c4, c5⟩ := cds_rec_facts cfg seq t _ strand cr hadd hem
    have hcoding : t.cds ≠ [] := by
      unfold Tx.writesCds Tx.coding at hw
      simp only [Bool.and_eq_true, Bool.not_eq_true', List.isEmpty_eq_false_iff] at hw
      exact hw.1
    obtain ⟨f, hsf, hfn⟩ := startFrame_some t htwf hcoding
    have hci := cdsInterval_written cfg.rule prule c.tx cr strand t.strand t.strand E t.cds htp hts c3 hE.1 hE.2
      hcasc hcoding hEin hgaps
    have hci' : cdsInterval prule c = .ok (some ⟨t.cds, strand⟩) := by
      have : c = ⟨c.tx, some cr⟩ := by cases c; simp_all
      rw [this]; exact hci
    have hq : qGet Model.Gb.kCodonStart cr.quals = some [frameDigit f] := by rw [c4, hsf]; rfl
    have hfit := fits_conv t f hsf hfn hfits hcoding (by rw [hst]; exact hdir')
    rw [hst] at hfit
    obtain ⟨frs, hfrs, hokf⟩ := constructFrames_written cr t.cds strand f hfn hq hdir' hcoding hfit
    have hlen : frs.length = t.cds.length := by
      unfold okFramesOf Spec.okFrames at hokf
      simp only [Bool.and_eq_true, beq_iff_eq, List.length_map] at hokf
      exact hokf.2.1.1
    have hprot_cd : qGet "protein_id".toList cr.quals = (truthy t.proteinId).map fun v => [v] := by
      rw [c5 _ (by decide) (by decide)]; exact l2
    have hprotq : qualFromTxOrCds c "protein_id".toList = .ok (truthy t.proteinId) := by
      rcases hprot with h | ⟨h, _⟩
      · exact qualFrom_cds c _ cr _ h hcs hprot_cd
      · exact qualFrom_same c _ cr _ (by rw [h]; exact l2) hcs hprot_cd
    have hm := txModel_eval prule c E strand t.cds frs (truthy t.txId) (geneSymbolOf g) (truthy t.proteinId) h1
      (Or.inr ⟨cr, hcs, hci', hfrs⟩) hpseudo
      (qualFrom_same c _ cr _ htid_tx hcs (by rw [c5 _ (by decide) (by decide)]; exact l1)) hprotq
      (qualFrom_same c _ cr _ hprod_tx hcs (by rw [c5 _ (by decide) (by decide)]; exact l3))
      (qualFrom_same c _ cr _ hgene_tx hcs (by rw [c5 _ (by decide) (by decide)]; exact l5))
    have hsn : startFrameNat t = frameNat f := by unfold startFrameNat; rw [hsf]; rfl
    refine ⟨_, hm, hts, rfl, ?_, ?_, truthy_eq_set? _, geneSymbolOf_eq g, ?_, rfl, hname⟩
    · rw [hw]; rfl
    · rw [hw]
      simp only [if_true]
      rw [hst, hsn]
      exact ⟨hokf, hlen⟩
    · rw [hw]; exact truthy_eq_set? _

end BioCantor.Proofs.Gb

namespace BioCantor.Proofs.Gb
open BioCantor BioCantor.Spec.Qual BioCantor.Spec.Gb BioCantor.Model BioCantor.Model.Gb

theorem cdsInside_self (cds : List Blk) (h : Asc cds) : CdsInside cds cds := by
  intro e0 el h0 hl b hb
  cases hc : cds with
  | nil => rw [hc] at hb; simp at hb
  | cons x rest =>
    rw [hc] at h0 hl hb h
    simp only [List.head?_cons, Option.some.injEq] at h0
    subst h0
    exact ⟨asc_head_le rest x h b hb, asc_le_last rest x h el hl b hb⟩

/-- from the transcript model to the gene model and its clauses -/
theorem finish_gene (fl : Flavor) (prule : ParserRule) (g : Gene) (t : Tx) (tag : Str) (hone : g.txs = [t])
    (htag : geneTagOf g = some tag) (gr : Rec) (c : Child) (p : PTx) (E : List Blk) (strand : Strand)
    (hst : t.strand = strand)
    (hl1 : firstOf "gene_id".toList gr.quals = .ok (truthy g.geneId))
    (hl2 : firstOf "gene".toList gr.quals = .ok (geneSymbolOf g))
    (hl3 : firstOf "locus_tag".toList gr.quals = .ok (some tag))
    (hp : txModel prule c = .ok p) (h1 : p.strand = strand) (h2 : p.exons = E)
    (hE : E = (expectedTx fl g t).exons)
    (h3 : p.cds = (if t.writesCds then t.cds else []))
    (h4 : if t.writesCds then okFramesOf t.strand t.cds (startFrameNat t) p.frames = true ∧ p.frames.length = t.cds.length
          else p.frames = [])
    (hcne : t.writesCds = true → t.cds ≠ [])
    (h5 : p.txId = set? t.txId) (h6 : p.txSymbol = geneSymbolWritten g)
    (h7 : p.proteinId = (if t.writesCds then set? t.proteinId else none))
    (h8 : p.txType = (expectedTx fl g t).txType)
    (h9 : ∀ s, set? t.txSymbol = some s → hasQual p.quals kTranscriptName s = true) :
    ∃ o, toGeneModel prule ⟨gr, [c]⟩ = .ok o ∧ geneViolations fl g o = [] ∧ o.locusTag = some tag := by
  refine ⟨_, toGeneModel_one prule gr c p _ _ _ hp hl1 hl2 hl3, ?_, rfl⟩
  have hcdsE : (expectedTx fl g t).cds = (if t.writesCds then t.cds else []) := rfl
  have hprotE : (expectedTx fl g t).proteinId = (if t.writesCds then set? t.proteinId else none) := rfl
  have := geneViolations_nil fl g t p hone (h1.trans hst.symm) (h2.trans hE) (h3.trans hcdsE.symm)
    (by
      rw [hcdsE]
      cases hw : t.writesCds with
      | false => rw [hw] at h4; simpa using h4
      | true =>
        rw [hw] at h4
        have : t.cds.isEmpty = false := by simpa using hcne hw
        simp only [if_true, this, Bool.false_eq_true, if_false]
        exact h4)
    h5 h6 (h7.trans hprotE.symm) h8 h9
  rw [truthy_eq_set?, geneSymbolOf_eq, ← htag, geneTagOf_eq]
  exact this

/-- **T2 for one gene**: the records written for a single-transcript gene are classified, converted and modelled into a
    gene model that satisfies every clause of (b) -/
theorem gene_roundtrip (cfg : Cfg) (seq : Option Str) (prule : ParserRule) (g : Gene) (t : Tx) (tag : Str)
    (h : RtGene prule g t tag) (hem : cfg.rule.emitsCodonStart = true) (ri : List Rec)
    (hri : geneToFeatures cfg seq g = .ok ri) :
    ∃ gf o, convertGroup (classifyGroup ri) = .ok gf ∧ ri.head? = some gf.gene ∧ toGeneModel prule gf = .ok o ∧
      geneViolations cfg.flavor g o = [] ∧ o.locusTag = some tag := by
  obtain ⟨strand, bounds, q0g, rest, hm, _, hqg, hmap, rfl⟩ := geneToFeatures_shape cfg seq g ri hri
  have hst : t.strand = strand := by
    have := majority_of_geneWF g h.wf t (by rw [h.one]; exact List.mem_cons_self)
    rw [hm] at this
    exact (Option.some.inj this).symm
  rw [h.one] at hmap
  obtain ⟨rt, rest', hrt, hrest', rfl⟩ := mapMR_cons_ok _ _ _ _ hmap
  have := mapMR_nil_ok _ _ hrest'
  subst this
  have hflat : [rt].flatten = rt := by simp
  rw [hflat]
  obtain ⟨t0, ts, hgt, hwfs, _⟩ := geneWF_facts g h.wf
  have htwf : txWF t = true := hwfs t (by rw [h.one]; exact List.mem_cons_self)
  obtain ⟨_, hexne, hexasc, hcasc⟩ := txWF_facts t htwf
  obtain ⟨hl1, hl2, hl3⟩ := geneRecord_lookups strand bounds q0g g hqg h.gq tag h.tag
  obtain ⟨q0, hq0, hcases⟩ := transcriptToFeatures_shape cfg seq strand _ _ t rt hrt hst
  have hgr : isGeneT (geneRecord strand bounds q0g g) = true := rfl
  rcases hcases with ⟨hft, hfl, cr, hcr, rfl⟩ | ⟨hft, hfl, cr, hcr, rfl⟩ | ⟨hft, rfl⟩
  · -- prokaryotic flavour, coding: gene, CDS
    have hw : t.writesCds = true := h.rna (ft_mrna_coding t hft)
    obtain ⟨c1, c2, c3, _, c5⟩ := cds_rec_facts cfg seq t _ strand cr hcr hem
    have hcne : t.cds ≠ [] := by
      have := ft_mrna_coding t hft
      unfold Tx.coding at this
      simpa using this
    obtain ⟨p, hp, p1, p2, p3, p4, p5, p6, p7, p8, p9⟩ := child_model cfg seq prule g t tag h hem q0 hq0 strand hst
      ⟨{ cr with type := tyMRNA }, some cr⟩ t.cds c3 c2 ⟨hcasc, hcne⟩ (cdsInside_self t.cds hcasc)
      (Or.inr ⟨cr, rfl, hw, hcr⟩) (fun k _ h2 h3 => c5 k h3 h2) (Or.inr ⟨c5 _ (by decide) (by decide), hw⟩)
    obtain ⟨o, ho, hv, htg⟩ := finish_gene cfg.flavor prule g t tag h.one h.tag (geneRecord strand bounds q0g g)
      ⟨{ cr with type := tyMRNA }, some cr⟩ p t.cds strand hst hl1 hl2 hl3 hp p1 p2
      (by unfold expectedTx; simp only [hw, hfl]; rfl) p3 p4 (fun _ => hcne) p5 p6 p7
      (by rw [p8]; unfold expectedTx; simp only [hft]; rfl) p9
    exact ⟨_, o, by rw [classify_A _ cr hgr c1, convert_A _ cr c1], rfl, ho, hv, htg⟩
  · -- eukaryotic flavour, coding: gene, mRNA, CDS
    have hw : t.writesCds = true := h.rna (ft_mrna_coding t hft)
    obtain ⟨c1, _, _, _, _⟩ := cds_rec_facts cfg seq t _ strand cr hcr hem
    have hcne : t.cds ≠ [] := by
      have := ft_mrna_coding t hft
      unfold Tx.coding at this
      simpa using this
    obtain ⟨lp, lo⟩ := txRecord_lookups cfg t (txFeatureType t) strand (txBaseQuals q0 (geneSymbolOf g) (geneTagOf g))
    have hxty : (txRecord cfg t (txFeatureType t) strand (txBaseQuals q0 (geneSymbolOf g) (geneTagOf g))).type = tyMRNA := hft
    obtain ⟨p, hp, p1, p2, p3, p4, p5, p6, p7, p8, p9⟩ := child_model cfg seq prule g t tag h hem q0 hq0 strand hst
      ⟨txRecord cfg t (txFeatureType t) strand (txBaseQuals q0 (geneSymbolOf g) (geneTagOf g)), some cr⟩ t.exons rfl rfl
      ⟨hexasc, hexne⟩ h.inside (Or.inr ⟨cr, rfl, hw, hcr⟩) (fun k h1 h2 _ => lo k h1 h2) (Or.inl lp)
    obtain ⟨o, ho, hv, htg⟩ := finish_gene cfg.flavor prule g t tag h.one h.tag (geneRecord strand bounds q0g g)
      _ p t.exons strand hst hl1 hl2 hl3 hp p1 p2
      (by unfold expectedTx; simp only [hw, hfl]; rfl) p3 p4 (fun _ => hcne) p5 p6 p7
      (by rw [p8]; unfold expectedTx; simp only [hxty, hft]; rfl) p9
    exact ⟨_, o, by rw [classify_B _ _ cr hgr hxty c1, convert_B _ _ cr hxty], rfl, ho, hv, htg⟩
  · -- non-coding transcript (either flavour): gene, <RNA key>
    have hnc : nonCodingTypes.contains (txFeatureType t) = true := by
      rcases txFeatureType_cases t with h1 | h1
      · exact absurd h1 hft
      · exact h1
    have hw : t.writesCds = false := by
      unfold Tx.writesCds
      have : (txFeatureType t == sMRNA) = false := by simpa using hft
      rw [this, Bool.and_false]
    obtain ⟨lp, lo⟩ := txRecord_lookups cfg t (txFeatureType t) strand (txBaseQuals q0 (geneSymbolOf g) (geneTagOf g))
    have hxty : (txRecord cfg t (txFeatureType t) strand (txBaseQuals q0 (geneSymbolOf g) (geneTagOf g))).type =
        txFeatureType t := rfl
    obtain ⟨p, hp, p1, p2, p3, p4, p5, p6, p7, p8, p9⟩ := child_model cfg seq prule g t tag h hem q0 hq0 strand hst
      ⟨txRecord cfg t (txFeatureType t) strand (txBaseQuals q0 (geneSymbolOf g) (geneTagOf g)), none⟩ t.exons rfl rfl
      ⟨hexasc, hexne⟩ h.inside (Or.inl ⟨rfl, hw⟩) (fun k h1 h2 _ => lo k h1 h2) (Or.inl lp)
    have hne : (txFeatureType t == tyMRNA) = false := by
      have : tyMRNA = sMRNA := rfl
      rw [this]; simpa using hft
    obtain ⟨o, ho, hv, htg⟩ := finish_gene cfg.flavor prule g t tag h.one h.tag (geneRecord strand bounds q0g g)
      _ p t.exons strand hst hl1 hl2 hl3 hp p1 p2
      (by unfold expectedTx; simp only [hw]; rfl) p3 p4 (fun hh => by rw [hw] at hh; exact absurd hh (by simp)) p5 p6 p7
      (by
        rw [p8]
        unfold expectedTx
        simp only [hxty, hne, Bool.false_eq_true, if_false]
        have : (txFeatureType t == sMRNA) = false := by simpa using hft
        simp only [this, Bool.false_eq_true, if_false]) p9
    exact ⟨_, o, by rw [classify_C _ _ hgr hnc, convert_C _ _ hnc], rfl, ho, hv, htg⟩

end BioCantor.Proofs.Gb
