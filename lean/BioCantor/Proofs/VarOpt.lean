/- C13: `optimize_blocks` on ascending block lists — what it keeps (everything that is additive over touching
   blocks: slices of a sequence, edited images; every predicate closed under merging) and its closed form. -/
import BioCantor.Proofs.RelInterval
import BioCantor.Proofs.AlgOptimize
import BioCantor.Proofs.VarAlt
namespace BioCantor.Proofs.Var
open BioCantor BioCantor.Model BioCantor.Proofs

/-- `f` reads nothing on an empty block and is additive over two touching blocks -/
structure Additive {α : Type} (f : Blk → List α) : Prop where
  empty : ∀ b : Blk, b.2 - b.1 = 0 → f b = []
  merge : ∀ a b : Blk, a.1 ≤ a.2 → a.2 = b.1 → b.1 ≤ b.2 → f (a.1, max a.2 b.2) = f a ++ f b

theorem comb_additive {α : Type} (f : Blk → List α) (hf : Additive f) (c : Blk) (bs : List Blk) (hc : c.1 ≤ c.2)
    (hv : ∀ b ∈ bs, b.1 ≤ b.2) : (comb c bs).flatMap f = f c ++ bs.flatMap f := by
  induction bs generalizing c with
  | nil => simp [comb]
  | cons b bs ih =>
    have hv' : ∀ x ∈ bs, x.1 ≤ x.2 := fun x hx => hv x (by simp [hx])
    have hb := hv b (by simp)
    unfold comb
    split
    · rename_i h0
      simp [ih c hc hv', hf.empty b h0]
    · split
      · rename_i h0 h1
        rw [ih (c.1, max c.2 b.2) (by simp only; omega) hv', hf.merge c b hc h1 hb]
        simp
      · simp [ih b hb hv']

theorem combStart_additive {α : Type} (f : Blk → List α) (hf : Additive f) (bs : List Blk)
    (hv : ∀ b ∈ bs, b.1 ≤ b.2) : (combStart bs).flatMap f = bs.flatMap f := by
  induction bs with
  | nil => rfl
  | cons b bs ih =>
    have hv' : ∀ x ∈ bs, x.1 ≤ x.2 := fun x hx => hv x (by simp [hx])
    unfold combStart
    split
    · rename_i h0
      simp [ih hv', hf.empty b h0]
    · simp [comb_additive f hf b bs (hv b (by simp)) hv']

theorem comb_forall (P : Blk → Prop)
    (hm : ∀ a b : Blk, P a → P b → a.2 = b.1 → b.1 < b.2 → P (a.1, max a.2 b.2))
    (c : Blk) (bs : List Blk) (hc : P c) (hbs : ∀ b ∈ bs, P b) : ∀ y ∈ comb c bs, P y := by
  induction bs generalizing c with
  | nil => intro y hy; simp only [comb, List.mem_singleton] at hy; subst hy; exact hc
  | cons b bs ih =>
    have hbs' : ∀ x ∈ bs, P x := fun x hx => hbs x (by simp [hx])
    unfold comb
    split
    · exact ih c hc hbs'
    · split
      · rename_i h0 h1
        exact ih _ (hm c b hc (hbs b (by simp)) h1 (by omega)) hbs'
      · intro y hy
        rcases List.mem_cons.mp hy with rfl | hy
        · exact hc
        · exact ih b (hbs b (by simp)) hbs' y hy

theorem combStart_forall (P : Blk → Prop)
    (hm : ∀ a b : Blk, P a → P b → a.2 = b.1 → b.1 < b.2 → P (a.1, max a.2 b.2))
    (bs : List Blk) (hbs : ∀ b ∈ bs, P b) : ∀ y ∈ combStart bs, P y := by
  induction bs with
  | nil => intro y hy; simp [combStart] at hy
  | cons b bs ih =>
    have hbs' : ∀ x ∈ bs, P x := fun x hx => hbs x (by simp [hx])
    unfold combStart
    split
    · exact ih hbs'
    · exact comb_forall P hm b bs (hbs b (by simp)) hbs'

theorem comb_ne_nil (c : Blk) (bs : List Blk) : comb c bs ≠ [] := by
  induction bs generalizing c with
  | nil => simp [comb]
  | cons b bs ih =>
    unfold comb
    split
    · exact ih c
    · split
      · exact ih _
      · simp

/-- ascending, pairwise disjoint, no empty block -/
def Asc (S : List Blk) : Prop := S.Pairwise (fun a b => a.2 ≤ b.1) ∧ ∀ b ∈ S, b.1 < b.2

theorem Asc.valid {S : List Blk} (h : Asc S) : ∀ b ∈ S, b.1 ≤ b.2 := fun b hb => Nat.le_of_lt (h.2 b hb)

theorem Asc.sorted {S : List Blk} (h : Asc S) (st : Strand) : sortBlocks st S = S :=
  sortBlocks_of_fst_lt st (fst_lt_of_asc S h.1 h.2)

theorem asc_combStart {S : List Blk} (h : Asc S) : Asc (combStart S) :=
  ⟨combStart_disjoint S h.valid h.1, normal_pos _ (combStart_normal S)⟩

theorem combStart_ne_nil {S : List Blk} (h : Asc S) (hne : S ≠ []) : combStart S ≠ [] := by
  cases S with
  | nil => exact absurd rfl hne
  | cons b r =>
    have := h.2 b (by simp)
    unfold combStart
    have h0 : ¬ (b.2 - b.1 = 0) := by omega
    simp only [h0, if_false]
    exact comb_ne_nil b r

/-- `optimize_blocks` of a compound built on an ascending list, in closed form -/
theorem optimizeLoc_asc (S : List Blk) (st : Strand) (h : Asc S) (hne : S ≠ []) :
    optimizeLoc true ⟨S, st⟩ = .ok (toSingleIfOne ⟨combStart S, st⟩) := by
  rw [optimizeLoc_true_ok S st (h.sorted st) (combStart_ne_nil h hne), (asc_combStart h).sorted st]

theorem mkCompoundLoc_asc (S : List Blk) (st : Strand) (h : Asc S) (hne : S ≠ []) :
    mkCompoundLoc S st = .ok ⟨S, st⟩ := by
  rw [mkCompoundLoc_ok st hne h.valid, h.sorted st]

theorem locBlocks_toSingleIfOne (X : Loc) : locBlocks (toSingleIfOne X) = X.blocks := by
  unfold toSingleIfOne
  split
  · rename_i b h; simp [locBlocks, h]
  · rfl

theorem locStrand_toSingleIfOne (X : Loc) : locStrand (toSingleIfOne X) = .ok X.strand := by
  unfold toSingleIfOne
  split <;> rfl

theorem toSingleIfOne_ne_empty (X : Loc) : toSingleIfOne X ≠ .empty := by
  unfold toSingleIfOne
  split <;> simp

/-! ### the two additive readings used for variants -/

open BioCantor.Model.Variants (slice Seq)

theorem slice_additive (s : Seq) : Additive (slice s) where
  empty := by intro b h; simp [slice, h]
  merge := by
    intro a b h1 h2 h3
    unfold slice
    have e1 : max a.2 b.2 - a.1 = (a.2 - a.1) + (b.2 - b.1) := by omega
    simp only [e1, List.take_add, List.drop_drop]
    congr 3
    omega

theorem image_additive (ref : Seq) (es : List BioCantor.Spec.Variants.Edit) (off : Nat) :
    Additive (fun b : Blk => BioCantor.Spec.Variants.image ref es (b.1 - off) (b.2 - off)) where
  empty := by
    intro b h
    have : b.2 - off - (b.1 - off) = 0 := by omega
    simp [BioCantor.Spec.Variants.image, this]
  merge := by
    intro a b h1 h2 h3
    have hm : max a.2 b.2 = b.2 := by omega
    simp only [hm]
    rw [image_split ref es (a.1 - off) (a.2 - off) (b.2 - off) (by omega) (by omega), h2]

end BioCantor.Proofs.Var
