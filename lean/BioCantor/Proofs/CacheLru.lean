/-
  C10 — helper lemmas for the LRU model (`Model.Cache` §1, §2): soundness of stored pairs, size bound,
  and the key list of the store as a function of the call history.
-/
import BioCantor.Model.Cache
namespace BioCantor.Proofs.Cache
open BioCantor BioCantor.Model.Cache
open BioCantor.Spec.Cache (Ev recent evOn expectEv expectEvs expectEvsObj)

set_option linter.unusedSectionVars false
variable {κ ν : Type} [DecidableEq κ]

/-- every stored pair is `(k, f k)` -/
def Sound (f : κ → ν) (s : Store κ ν) : Prop := ∀ p ∈ s, p.2 = f p.1

def keys (s : Store κ ν) : List κ := s.map (·.1)

theorem sound_nil (f : κ → ν) : Sound f ([] : Store κ ν) := by
  intro p hp; cases hp

theorem find?_mem {k : κ} {v : ν} : ∀ {s : Store κ ν}, find? k s = some v → (k, v) ∈ s
  | [], h => by simp [find?] at h
  | (k', v') :: rest, h => by
    unfold find? at h
    split at h
    · rename_i hk; cases h; subst hk; exact List.mem_cons_self
    · exact List.mem_cons_of_mem _ (find?_mem h)

theorem find?_sound {f : κ → ν} {s : Store κ ν} (hs : Sound f s) {k : κ} {v : ν}
    (h : find? k s = some v) : v = f k := hs (k, v) (find?_mem h)

theorem remove_subset {k : κ} : ∀ {s : Store κ ν} {p : κ × ν}, p ∈ remove k s → p ∈ s
  | [], _, h => by simp [remove] at h
  | (k', v') :: rest, p, h => by
    unfold remove at h
    split at h
    · exact List.mem_cons_of_mem _ h
    · rcases List.mem_cons.mp h with h | h
      · subst h; exact List.mem_cons_self
      · exact List.mem_cons_of_mem _ (remove_subset h)

theorem find?_none_iff (k : κ) : ∀ (s : Store κ ν), find? k s = none ↔ k ∉ keys s
  | [] => by simp [find?, keys]
  | (k', v') :: rest => by
    unfold find?
    have ih := find?_none_iff k rest
    by_cases hk : k' = k
    · simp [hk, keys]
    · simp only [hk, if_false, ih, keys, List.map_cons, List.mem_cons, not_or]
      constructor
      · intro h; exact ⟨fun e => hk e.symm, h⟩
      · intro h; exact h.2

theorem keys_remove {k : κ} : ∀ (s : Store κ ν), keys (remove k s) = (keys s).erase k
  | [] => by simp [remove, keys]
  | (k', v') :: rest => by
    unfold remove
    by_cases hk : k' = k
    · subst hk; simp [keys]
    · have ih := keys_remove (k := k) rest
      simp only [hk, if_false, keys, List.map_cons] at ih ⊢
      rw [List.erase_cons_tail (by simpa using hk), ih]

theorem length_remove_of_find {k : κ} {v : ν} : ∀ {s : Store κ ν}, find? k s = some v →
    (remove k s).length + 1 = s.length
  | [], h => by simp [find?] at h
  | (k', v') :: rest, h => by
    unfold find? at h
    unfold remove
    split at h
    · rename_i hk; simp [hk]
    · rename_i hk
      simp only [hk, if_false, List.length_cons]
      have := length_remove_of_find h
      omega

/-! ### answers and soundness -/

theorem step_sound {f : κ → ν} {cap : Nat} {s : Store κ ν} (hs : Sound f s) (k : κ) :
    Sound f (step f cap s k).1 := by
  unfold step
  split
  · exact hs
  · split
    · rename_i v hv
      intro p hp
      rcases List.mem_cons.mp hp with h | h
      · subst h; exact find?_sound hs hv
      · exact hs p (remove_subset h)
    · split
      · intro p hp
        rcases List.mem_cons.mp hp with h | h
        · subst h; rfl
        · exact hs p h
      · intro p hp
        rcases List.mem_cons.mp hp with h | h
        · subst h; rfl
        · exact hs p (List.mem_of_mem_take h)

theorem step_output {f : κ → ν} {cap : Nat} {s : Store κ ν} (hs : Sound f s) (k : κ) :
    (step f cap s k).2.1 = f k := by
  unfold step
  split
  · rfl
  · split
    · rename_i v hv; exact find?_sound hs hv
    · split <;> rfl

theorem run_outputs {f : κ → ν} {cap : Nat} : ∀ (ops : List κ) {s : Store κ ν}, Sound f s →
    outputs (run f cap s ops) = ops.map f ∧ Sound f (run f cap s ops).1
  | [], _, hs => ⟨rfl, hs⟩
  | k :: ks, s, hs => by
    have ih := run_outputs (f := f) (cap := cap) ks (s := (step f cap s k).1) (step_sound hs k)
    refine ⟨?_, ih.2⟩
    have := ih.1
    simp only [outputs, run, List.map_cons] at this ⊢
    rw [this, step_output hs k]

/-! ### size -/

theorem step_length {f : κ → ν} {cap : Nat} {s : Store κ ν} (hs : s.length ≤ cap) (k : κ) :
    (step f cap s k).1.length ≤ cap := by
  unfold step
  split
  · exact hs
  · split
    · rename_i v hv
      have := length_remove_of_find hv
      simp only [List.length_cons]; omega
    · split
      · simp only [List.length_cons]; omega
      · simp only [List.length_cons, List.length_take]; omega

theorem run_length {f : κ → ν} {cap : Nat} : ∀ (ops : List κ) {s : Store κ ν}, s.length ≤ cap →
    (run f cap s ops).1.length ≤ cap
  | [], _, hs => hs
  | k :: ks, _, hs => run_length ks (step_length hs k)

/-- dropping the oldest entry of a full store is `take (cap - 1)` -/
theorem take_eq_dropLast {α} (s : List α) (cap : Nat) (h : s.length = cap) : s.take (cap - 1) = s.dropLast := by
  rw [List.dropLast_eq_take, h]

/-! ### the key list as a function of the history -/

theorem erase_take_of_mem {α} [DecidableEq α] {k : α} : ∀ {l : List α} {n : Nat}, k ∈ l.take n →
    (l.take n).erase k = (l.erase k).take (n - 1)
  | [], n, h => by simp at h
  | a :: l, 0, h => by simp at h
  | a :: l, n + 1, h => by
    simp only [List.take_succ_cons] at h ⊢
    by_cases ha : a = k
    · subst ha; simp
    · have hk : k ∈ l.take n := by
        rcases List.mem_cons.mp h with h | h
        · exact absurd h.symm ha
        · exact h
      rw [List.erase_cons_tail (by simpa using ha), List.erase_cons_tail (by simpa using ha)]
      have ih := erase_take_of_mem hk
      have hn : 0 < n := by
        cases n with
        | zero => simp at hk
        | succ m => omega
      obtain ⟨m, rfl⟩ : ∃ m, n = m + 1 := ⟨n - 1, by omega⟩
      simp only [Nat.add_sub_cancel] at ih ⊢
      rw [List.take_succ_cons, ih]

theorem take_erase_of_not_mem {α} [DecidableEq α] {k : α} : ∀ {l : List α} {n : Nat}, k ∉ l.take n →
    (l.erase k).take n = l.take n
  | [], n, _ => by simp
  | a :: l, 0, _ => by simp
  | a :: l, n + 1, h => by
    simp only [List.take_succ_cons, List.mem_cons, not_or] at h
    have ha : ¬ a = k := fun e => h.1 e.symm
    rw [List.erase_cons_tail (by simpa using ha)]
    simp only [List.take_succ_cons]
    rw [take_erase_of_not_mem h.2]

theorem step_keys {f : κ → ν} {cap : Nat} {s : Store κ ν} {h : List κ} (k : κ)
    (inv : keys s = (recent h).take cap) :
    keys (step f cap s k).1 = (recent (k :: h)).take cap ∧ (step f cap s k).2.2 = expectEv cap h k := by
  have hlen : s.length = min cap (recent h).length := by
    have := congrArg List.length inv
    simpa [keys, List.length_take] using this
  unfold step expectEv evOn
  by_cases hc : cap = 0
  · subst hc
    simp only [List.take_zero, if_true] at inv ⊢
    refine ⟨inv, ?_⟩
    simp
  · simp only [hc, if_false, or_false]
    obtain ⟨c, rfl⟩ : ∃ c, cap = c + 1 := ⟨cap - 1, by omega⟩
    simp only [recent, List.take_succ_cons, Nat.add_sub_cancel]
    cases hf : find? k s with
    | some v =>
      have hk : k ∈ keys s := by
        by_cases hin : k ∈ keys s
        · exact hin
        · have := (find?_none_iff k s).mpr hin
          rw [hf] at this; cases this
      have hk' : k ∈ (recent h).take (c + 1) := inv ▸ hk
      simp only [hk', if_true, keys, List.map_cons, and_true]
      have := keys_remove (k := k) s
      simp only [keys] at this inv
      rw [this, inv, erase_take_of_mem hk']
      simp
    | none =>
      have hk : k ∉ keys s := (find?_none_iff k s).mp hf
      have hk' : k ∉ (recent h).take (c + 1) := inv ▸ hk
      simp only [hk', if_false]
      by_cases hfull : s.length < c + 1
      · have hR : (recent h).length < c + 1 := by omega
        simp only [hfull, hR, if_true, and_true, keys, List.map_cons]
        have hall : (recent h).take (c + 1) = recent h := List.take_of_length_le (by omega)
        have hnot : k ∉ recent h := hall ▸ hk'
        simp only [keys] at inv
        rw [inv, hall, List.erase_of_not_mem hnot, List.take_of_length_le (by omega)]
      · have hR : ¬ (recent h).length < c + 1 := by omega
        simp only [hfull, hR, if_false, and_true, keys, List.map_cons]
        have h1 : (s.take c).map (·.1) = (recent h).take c := by
          simp only [keys] at inv
          rw [List.map_take, inv, List.take_take, Nat.min_eq_left (Nat.le_succ c)]
        have h2 := take_erase_of_not_mem hk'
        have h3 : ((recent h).erase k).take c = (recent h).take c := by
          have := congrArg (List.take c) h2
          simpa [List.take_take, Nat.min_eq_left (Nat.le_succ c)] using this
        rw [h1, h3]

theorem expectEvs_cons (cap : Nat) (h : List κ) (k : κ) (ks : List κ) :
    expectEvs cap h (k :: ks) = expectEv cap h k :: expectEvs cap (k :: h) ks := rfl

theorem run_events {f : κ → ν} {cap : Nat} : ∀ (ops : List κ) {s : Store κ ν} {h : List κ},
    keys s = (recent h).take cap → events (run f cap s ops) = expectEvs cap h ops
  | [], _, _, _ => rfl
  | k :: ks, s, h, inv => by
    have hs := step_keys (f := f) k inv
    have ih := run_events (f := f) (cap := cap) ks hs.1
    rw [expectEvs_cons]
    simp only [events, run, List.map_cons] at ih ⊢
    rw [ih, hs.2]

/-! ### per-object tables -/

variable {ο : Type} [DecidableEq ο]

theorem runObj_outputs {f : ο → κ → ν} {cap : Nat} : ∀ (calls : List (ο × κ)) {t : Table ο κ ν},
    (∀ o, Sound (f o) (t o)) →
    outputs (runObj f cap t calls) = calls.map (fun c => f c.1 c.2)
  | [], _, _ => rfl
  | c :: cs, t, ht => by
    have hs : ∀ o, Sound (f o) ((stepObj f cap t c).1 o) := by
      intro o
      simp only [stepObj, Table.set]
      split
      · rename_i ho; subst ho; exact step_sound (ht _) _
      · exact ht o
    have ih := runObj_outputs (f := f) (cap := cap) cs hs
    simp only [outputs, runObj, List.map_cons] at ih ⊢
    rw [ih]
    simp only [stepObj, step_output (ht c.1) c.2]

theorem runObj_events {f : ο → κ → ν} {cap : Nat} : ∀ (calls : List (ο × κ)) {t : Table ο κ ν}
    {h : List (ο × κ)},
    (∀ o, keys (t o) = (recent ((h.filter (fun p => decide (p.1 = o))).map (·.2))).take cap) →
    events (runObj f cap t calls) = expectEvsObj cap h calls
  | [], _, _, _ => rfl
  | (o, k) :: cs, t, h, inv => by
    have hs := step_keys (f := f o) k (inv o)
    have inv' : ∀ o', keys ((stepObj f cap t (o, k)).1 o') =
        (recent ((((o, k) :: h).filter (fun p => decide (p.1 = o'))).map (·.2))).take cap := by
      intro o'
      simp only [stepObj, Table.set]
      by_cases ho : o' = o
      · subst ho
        simp only [if_true, List.filter_cons, decide_true, List.map_cons]
        exact hs.1
      · have ho' : ¬ o = o' := fun e => ho e.symm
        simp only [ho, if_false, List.filter_cons, ho', decide_false, Bool.false_eq_true]
        exact inv o'
    have ih := runObj_events (f := f) (cap := cap) cs inv'
    simp only [events, runObj, List.map_cons, expectEvsObj] at ih ⊢
    rw [ih]
    simp only [stepObj, hs.2]

end BioCantor.Proofs.Cache
