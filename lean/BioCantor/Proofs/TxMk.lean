/-
  C06: what the modelled constructor establishes (`WFT`).
-/
import BioCantor.Proofs.TxBasics
set_option linter.unusedSimpArgs false
namespace BioCantor.Proofs
open BioCantor BioCantor.Spec BioCantor.Model BioCantor.Model.Transcript

theorem mkCompoundLoc_strand {bs : List Blk} {s : Strand} {c : Loc} (h : mkCompoundLoc bs s = .ok c) :
    c.strand = s := by
  unfold mkCompoundLoc at h
  split at h
  · cases h
  · simp only at h
    split at h
    · cases h; rfl
    · cases h

/-- every transcript the modelled constructor returns is well formed, and its two locations are the
    constructor-sorted block lists it was given, on the given strand -/
theorem mkTranscript_wf (ex : List Blk) (st : Strand) (cds : Option (List Blk)) (pl : Option Nat)
    (t : Transcript) (h : mkTranscript ex st cds pl = .ok t) : WFT t ∧ t.exons.strand = st := by
  unfold mkTranscript Model.chromosomeLocation at h
  cases h0 : initializeLocation ex st with
  | error e => simp [h0, bind, Except.bind] at h
  | ok l0 =>
    cases h1 : mkCompoundLoc ex st with
    | error e => simp [h0, h1, bind, Except.bind] at h
    | ok E =>
      simp only [h0, h1, bind, Except.bind] at h
      have hE := mkCompoundLoc_canon h1
      have hEs := mkCompoundLoc_strand h1
      cases cds with
      | none =>
        simp only [pure, Except.pure, Except.ok.injEq] at h
        subst h
        exact ⟨⟨hE, by simp⟩, hEs⟩
      | some cb =>
        simp only at h
        split at h
        · split at h
          · cases h
          · split at h
            · cases h
            · cases h2 : initializeLocation cb st with
              | error e => simp [h2] at h
              | ok l1 =>
                cases h3 : mkCompoundLoc cb st with
                | error e => simp [h2, h3] at h
                | ok D =>
                  simp only [h2, h3] at h
                  split at h
                  · cases h
                  · simp only [pure, Except.pure, Except.ok.injEq] at h
                    subst h
                    refine ⟨⟨hE, ?_⟩, hEs⟩
                    intro d hd
                    simp only [Option.some.injEq] at hd
                    subst hd
                    exact ⟨mkCompoundLoc_canon h3, by rw [mkCompoundLoc_strand h3, hEs]⟩
        · cases h

end BioCantor.Proofs
