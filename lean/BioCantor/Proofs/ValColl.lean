/- C19 proofs, part 11: GeneInterval / FeatureIntervalCollection / AnnotationCollection constructors. -/
import BioCantor.Proofs.ValMore
set_option linter.unusedSimpArgs false
namespace BioCantor.Proofs.Val
open BioCantor BioCantor.Model BioCantor.Model.Validate
open BioCantor.Spec.Validate (Out)

def specChild (c : Child) : Spec.Validate.ChildS := (c.start, c.endp, c.guid, c.primary)
def spanOf (c : Child) : Spec.Validate.IBlk := (c.start, c.endp)

/-- children as the child constructors return them: `0 ≤ start ≤ end` -/
def ChildrenWF (cs : List Child) : Prop := ∀ c ∈ cs, 0 ≤ c.start ∧ c.start ≤ c.endp

theorem minStartC_eq (cs : List Child) : minStartC cs = Spec.Validate.minStartI (cs.map spanOf) := by
  induction cs with
  | nil => rfl
  | cons c t ih => cases t with
    | nil => rfl
    | cons d r => simp only [minStartC, List.map_cons, Spec.Validate.minStartI] at ih ⊢; rw [ih]; rfl

theorem maxEndC_eq (cs : List Child) : maxEndC cs = Spec.Validate.maxEndI (cs.map spanOf) := by
  induction cs with
  | nil => rfl
  | cons c t ih => cases t with
    | nil => rfl
    | cons d r => simp only [maxEndC, List.map_cons, Spec.Validate.maxEndI] at ih ⊢; rw [ih]; rfl

theorem minStartI_mem : ∀ (l : List Spec.Validate.IBlk), l ≠ [] → ∃ b ∈ l, Spec.Validate.minStartI l = b.1
  | [c], _ => ⟨c, by simp, rfl⟩
  | c :: d :: rest, _ => by
      obtain ⟨b, hb, hbe⟩ := minStartI_mem (d :: rest) (by simp)
      simp only [Spec.Validate.minStartI]
      by_cases hx : c.1 ≤ Spec.Validate.minStartI (d :: rest)
      · exact ⟨c, by simp, Int.min_eq_left hx⟩
      · exact ⟨b, List.mem_cons_of_mem _ hb, by rw [Int.min_eq_right (by omega)]; exact hbe⟩

/-- the span `[min start, max end)` of well-formed children is a valid interval -/
theorem span_valid (cs : List Child) (hne : cs ≠ []) (hwf : ChildrenWF cs) :
    0 ≤ minStartC cs ∧ minStartC cs ≤ maxEndC cs := by
  rw [minStartC_eq, maxEndC_eq]
  have hne' : cs.map spanOf ≠ [] := by simpa using hne
  obtain ⟨b, hb, hbe⟩ := minStartI_mem _ hne'
  obtain ⟨c, hc, hcb⟩ := List.mem_map.mp hb
  have h1 := hwf c hc
  have h2 := le_maxEndI _ b hb
  subst hcb
  simp only [spanOf] at hbe h2
  constructor
  · rw [hbe]; exact h1.1
  · rw [hbe]; omega

theorem checkGuids_eq : ∀ (gs seen : List Nat),
    checkGuids seen gs =
      if gs.all (fun g => !seen.contains g) && Spec.Validate.distinctNat gs then pure () else raise .InvalidAnnotation
  | [], seen => by simp [checkGuids, Spec.Validate.distinctNat]
  | g :: rest, seen => by
      simp only [checkGuids, List.all_cons, Spec.Validate.distinctNat]
      by_cases hs : seen.contains g = true
      · have hm : g ∈ seen := by simpa using hs
        simp [hs, hm]
      · have hs' : seen.contains g = false := by simpa using hs
        rw [checkGuids_eq rest (g :: seen)]
        simp only [hs', Bool.false_eq_true, ite_false, Bool.not_false, Bool.true_and]
        have hall : (rest.all fun x => !(g :: seen).contains x) =
            ((rest.all fun x => !seen.contains x) && !rest.contains g) := by
          rw [Bool.eq_iff_iff]
          simp only [List.all_eq_true, Bool.not_eq_true', Bool.and_eq_true, List.contains_eq_mem, List.mem_cons,
            decide_eq_false_iff_not, not_or]
          constructor
          · intro h; exact ⟨fun x hx => (h x hx).2, fun hg => (h g hg).1 rfl⟩
          · intro h x hx; exact ⟨fun hxg => h.2 (hxg ▸ hx), h.1 x hx⟩
        rw [hall]
        cases (rest.all fun x => !seen.contains x) <;> cases (rest.contains g) <;>
          cases (Spec.Validate.distinctNat rest) <;> rfl

theorem checkGuids_nil (gs : List Nat) :
    checkGuids [] gs = if Spec.Validate.distinctNat gs then pure () else raise .InvalidAnnotation := by
  rw [checkGuids_eq]
  have : (gs.all fun g => !([] : List Nat).contains g) = true := by simp
  rw [this, Bool.true_and]

/-- GeneInterval (`geneOrder = true`) / FeatureIntervalCollection (`false`) over well-formed children: refused ⇔ no
    children, bad qualifiers, two primary flags or a repeated guid; built ⇒ `start = min`, `end = max` -/
theorem mkColl_spec (geneOrder : Bool) (cs : List Child) (q : QualShape) (hwf : ChildrenWF cs) :
    Spec.Validate.okMkColl (cs.map specChild) (specQual q) (outOf id (mkColl geneOrder cs q)) = true := by
  have hmap1 : (cs.map specChild).map (fun c => (c.1, c.2.1)) = cs.map spanOf := by
    simp only [List.map_map]; rfl
  have hguid : (cs.map specChild).map (·.2.2.1) = cs.map (·.guid) := by
    simp only [List.map_map]; rfl
  have hprim : ((cs.map specChild).filter (·.2.2.2)).length = (cs.filter (·.primary)).length := by
    rw [List.filter_map, List.length_map]; rfl
  have hallwf : (cs.map specChild).all (fun c => decide (0 ≤ c.1) && decide (c.1 ≤ c.2.1)) = true := by
    simp only [List.all_map, List.all_eq_true, Function.comp, specChild, Bool.and_eq_true, decide_eq_true_eq]
    exact fun c hc => ⟨decide_eq_true (hwf c hc).1, decide_eq_true (hwf c hc).2⟩
  unfold mkColl Spec.Validate.okMkColl Spec.Validate.validColl
  rw [hmap1, hguid, hprim, hallwf, checkQualifiers_eq, checkGuids_nil]
  by_cases hne : cs = []
  · subst hne; simp [raise, bind, Except.bind, outOf]
  have hemp : cs.isEmpty = false := by simpa using hne
  have hemp' : (cs.map specChild).isEmpty = false := by simpa using hne
  obtain ⟨hs0, hse⟩ := span_valid cs hne hwf
  have hmk : mkSingle (minStartC cs) (maxEndC cs) .plus =
      .ok (.single ((minStartC cs).toNat, (maxEndC cs).toNat) .plus) := by
    simp [mkSingle, hs0, hse, pure, Except.pure]
  rw [← minStartC_eq, ← maxEndC_eq]
  simp only [hemp, hemp', hmk, liftR, checkPrimary]
  cases hq : Spec.Validate.validQual (specQual q) <;>
    cases hd : Spec.Validate.distinctNat (cs.map (·.guid)) <;>
    by_cases hp : (cs.filter (·.primary)).length > 1 <;>
    cases geneOrder <;>
    simp [hq, hd, hp, bind, Except.bind, pure, Except.pure, raise, outOf] <;> omega

theorem mkColl_noInternal (geneOrder : Bool) (cs : List Child) (q : QualShape) (hwf : ChildrenWF cs) :
    NoInternal (mkColl geneOrder cs q) := by
  intro c hc
  have := mkColl_spec geneOrder cs q hwf
  rw [hc] at this
  simp [outOf, Spec.Validate.okMkColl] at this

/-! ### AnnotationCollection -/

def projAnnot : AnnotOut → Option (Int × Int)
  | .empty => none
  | .bounds s e => some (s, e)

/-- full statement (fails: F-C19o): for ALL bounds and children.  Proved for children with distinct guids. -/
theorem mkAnnot_spec_partial (start endp : Option Int) (kids : List Child) (hwf : ChildrenWF kids)
    (hdist : Spec.Validate.distinctNat (kids.map (·.guid)) = true) :
    Spec.Validate.okMkAnnot start endp (kids.map specChild) (outOf projAnnot (mkAnnot start endp kids)) = true := by
  have hmap1 : (kids.map specChild).map (fun c => (c.1, c.2.1)) = kids.map spanOf := by
    simp only [List.map_map]; rfl
  have hguid : (kids.map specChild).map (·.2.2.1) = kids.map (·.guid) := by
    simp only [List.map_map]; rfl
  have hallwf : (kids.map specChild).all (fun c => decide (0 ≤ c.1) && decide (c.1 ≤ c.2.1)) = true := by
    simp only [List.all_map, List.all_eq_true, Function.comp, specChild, Bool.and_eq_true, decide_eq_true_eq]
    exact fun c hc => ⟨decide_eq_true (hwf c hc).1, decide_eq_true (hwf c hc).2⟩
  unfold mkAnnot Spec.Validate.okMkAnnot Spec.Validate.validAnnot
  rw [hmap1, hguid, hallwf, hdist]
  rcases start with _ | s <;> rcases endp with _ | e
  · by_cases hne : kids = []
    · subst hne; simp [pure, Except.pure, outOf, projAnnot]
    · have hemp : kids.isEmpty = false := by simpa using hne
      obtain ⟨hs0, hse⟩ := span_valid kids hne hwf
      have hmk : mkSingle (minStartC kids) (maxEndC kids) .plus =
          .ok (.single ((minStartC kids).toNat, (maxEndC kids).toNat) .plus) := by
        simp [mkSingle, hs0, hse, pure, Except.pure]
      rw [← minStartC_eq, ← maxEndC_eq]
      simp [hemp, hmk, liftR, bind, Except.bind, pure, Except.pure, outOf, projAnnot, hne]
  · simp [raise, outOf]
  · simp [raise, outOf]
  · by_cases h : 0 ≤ s ∧ s ≤ e
    · simp [mkSingle, h, liftR, bind, Except.bind, pure, Except.pure, outOf, projAnnot]
    · simp [mkSingle, h, liftR, bind, Except.bind, throw, throwThe, MonadExceptOf.throw, outOf]
      omega

theorem mkAnnot_noInternal (start endp : Option Int) (kids : List Child) : NoInternal (mkAnnot start endp kids) := by
  intro c hc
  unfold mkAnnot at hc
  rcases start with _ | s <;> rcases endp with _ | e <;> simp only [raise, pure, Except.pure] at hc <;> (try cases hc)
  · split at hc
    · cases hc
    · simp only [bind, Except.bind] at hc
      cases hm : liftR (mkSingle (minStartC kids) (maxEndC kids) .plus) with
      | ok v => rw [hm] at hc; cases hc
      | error er =>
          rw [hm] at hc
          cases er with
          | doc k => cases hc
          | internal c' => exact noInternal_liftR _ c' hm
  · simp only [bind, Except.bind] at hc
    cases hm : liftR (mkSingle s e .plus) with
    | ok v => rw [hm] at hc; cases hc
    | error er =>
        rw [hm] at hc
        cases er with
        | doc k => cases hc
        | internal c' => exact noInternal_liftR _ c' hm

/-- F-C19o witness: two children with the same guid are accepted -/
theorem mkAnnot_duplicate_witness :
    mkAnnot none none [⟨0, 3, 0, false⟩, ⟨0, 3, 0, false⟩] = .ok (.bounds 0 3) ∧
    Spec.Validate.okMkAnnot none none [(0, 3, 0, false), (0, 3, 0, false)] (.ok (some (0, 3))) = false := by
  constructor
  · simp [mkAnnot, minStartC, maxEndC, mkSingle, liftR, bind, Except.bind, pure, Except.pure]
  · decide

end BioCantor.Proofs.Val
