/-
  C03-T3 (split law) and T4 (derived sequence objects keep a consistent location): slices, indexing,
  reverse complement, and concatenation of single-interval operands.
-/
import BioCantor.Proofs.SeqSplit
set_option linter.unusedSimpArgs false
namespace BioCantor.Proofs.Sq
open BioCantor BioCantor.Spec BioCantor.Model BioCantor.Spec.Sq BioCantor.Model.Sq BioCantor.Proofs

theorem expect_length (P alph : List Char) (l : Location) (loc : Loc) (hl : toLoc l = some loc)
    (hd : loc.strand.isDirectional = true) (d : List Char) (h : expectExtract P alph l = some d) :
    d.length = loc.len := by
  rw [expectExtract_readAt P alph l loc hl hd] at h
  rw [readAt_length P alph _ _ d h, bases_length]

/-- **C03-T3** -/
theorem split_ok (P alph : List Char) (l : Location) (h : WF l) (k : Int) :
    okSplit P alph l k (ans (splitExtract P alph l k)) = true := by
  unfold okSplit
  by_cases hnt : isNt alph = true
  · simp only [hnt, Bool.not_true, Bool.false_eq_true, if_false]
    cases hl : toLoc l with
    | none =>
      cases l with
      | empty => rfl
      | single b st => simp [toLoc] at hl
      | compound c => simp [toLoc] at hl
    | some loc =>
      simp only
      by_cases hg : (within P loc && loc.strand.isDirectional && nonOverlap loc.blocks && decide (0 < loc.len) &&
          decide (0 ≤ k) && decide (k ≤ loc.len)) = true
      · rw [if_pos hg]
        simp only [Bool.and_eq_true, decide_eq_true_eq] at hg
        obtain ⟨⟨⟨⟨⟨hw, hd⟩, hno⟩, hlen⟩, hk0⟩, hk1⟩ := hg
        obtain ⟨kn, rfl⟩ := Int.eq_ofNat_of_zero_le hk0
        have hW := (within_of_Within P l loc hl).1 hw
        have hkn : kn ≤ loc.len := by omega
        obtain ⟨m1, hm1, hwf1, hW1, hs1, _, _, _, _, he1⟩ :=
          sub_extract_read P alph hnt l h loc hl hW hd hno hlen 0 kn (by omega) hkn
        obtain ⟨m2, hm2, hwf2, hW2, hs2, _, _, _, _, he2⟩ :=
          sub_extract_read P alph hnt l h loc hl hW hd hno hlen kn loc.len hkn (by omega)
        have hB : (bases loc).length = loc.len := bases_length loc
        simp only [List.drop_zero, Nat.sub_zero] at he1
        have he2' : ans (extract P alph m2) = readAt P alph loc.strand ((bases loc).drop kn) := by
          rw [he2]; congr 1
          apply List.take_of_length_le; simp; omega
        have hsplit : expectExtract P alph l =
            oapp (readAt P alph loc.strand ((bases loc).take kn)) (readAt P alph loc.strand ((bases loc).drop kn)) := by
          rw [expectExtract_readAt P alph l loc hl hd, ← readAt_append, List.take_append_drop]
        have hm1' : relInterval l 0 (kn : Int) .plus = .ok m1 := by simpa using hm1
        have hm2' : relInterval l (kn : Int) (locLen l : Int) .plus = .ok m2 := by
          rw [toLoc_len l loc hl]; exact hm2
        unfold splitExtract
        simp only [hm1', hm2', bind, Except.bind]
        rw [hsplit, ← he1, ← he2']
        cases hx1 : extract P alph m1 with
        | error e => simp [oapp]
        | ok a =>
          cases hx2 : extract P alph m2 with
          | error e => simp [oapp]
          | ok b =>
            simp only [ans_ok, oapp, pure, Except.pure, beq_self_eq_true, Bool.true_and, beq_iff_eq]
            rw [hx1] at he1
            simp only [ans_ok] at he1
            have := readAt_length P alph _ _ a he1.symm
            rw [this, List.length_take, hB]; simp; omega
      · rw [if_neg hg]
  · simp [hnt]

/-! ### Python slicing, plain case -/

theorem pick_range' (d : List Char) (s n : Nat) (h : s + n ≤ d.length) :
    pick d (List.range' s n) = (d.drop s).take n := by
  induction n generalizing s with
  | zero => simp [pick]
  | succ n ih =>
    have hs : s < d.length := by omega
    simp only [List.range'_succ, pick, List.getElem?_eq_getElem hs, ih (s + 1) (by omega)]
    rw [List.drop_eq_getElem_cons hs, List.take_succ_cons]

theorem adjust_bounds (x : Int) (n : Nat) : 0 ≤ adjust x n 0 n ∧ adjust x n 0 n ≤ n := by
  unfold adjust
  repeat' split
  all_goals omega

theorem startOf_bounds (n : Nat) (a : Option Int) : 0 ≤ startOf n a ∧ startOf n a ≤ n := by
  unfold startOf; cases a with
  | none => simp
  | some x => exact adjust_bounds x n

theorem stopOf_bounds (n : Nat) (b : Option Int) : 0 ≤ stopOf n b ∧ stopOf n b ≤ n := by
  unfold stopOf; cases b with
  | none => simp
  | some x => exact adjust_bounds x n

/-- normalised bounds of a unit-step slice: `rs = indices[0]`, `re = max(rs, indices[1])`, as naturals -/
def normStart (n : Nat) (a : Option Int) : Nat := (startOf n a).toNat
def normEnd (n : Nat) (a b : Option Int) : Nat := max (normStart n a) (stopOf n b).toNat

theorem norm_bounds (n : Nat) (a b : Option Int) : normStart n a ≤ normEnd n a b ∧ normEnd n a b ≤ n := by
  have h1 := startOf_bounds n a
  have h2 := stopOf_bounds n b
  unfold normEnd normStart
  omega

/-- Python's unit-step slice selects the contiguous indices `[rs, re)` -/
theorem sliceIndices_unit (n : Nat) (a b c : Option Int) (hc : c = none ∨ c = some 1) :
    sliceIndices n a b c = .ok (List.range' (normStart n a) (normEnd n a b - normStart n a)) := by
  have h1 := startOf_bounds n a
  have h2 := stopOf_bounds n b
  have hcnt : (if stopOf n b ≤ startOf n a then 0 else ((stopOf n b - startOf n a + 1 - 1) / 1).toNat) =
      normEnd n a b - normStart n a := by
    unfold normEnd normStart
    split <;> omega
  have hmap : (List.range (normEnd n a b - normStart n a)).map (fun (i : Nat) => (startOf n a + 1 * (i : Int)).toNat) =
      List.range' (normStart n a) (normEnd n a b - normStart n a) := by
    rw [List.range'_eq_map_range]
    apply List.map_congr_left
    intro i _
    unfold normStart
    omega
  rcases hc with rfl | rfl <;>
  · unfold sliceIndices
    simp only [show ¬ ((1 : Int) = 0) by decide, show (1 : Int) > 0 by decide, if_true, if_false, pure, Except.pure,
      hcnt, hmap]

theorem sliceIndices_plain (n s e : Nat) (hse : s ≤ e) (he : e ≤ n) :
    normStart n (some (s : Int)) = s ∧ normEnd n (some (s : Int)) (some (e : Int)) = e := by
  unfold normEnd normStart startOf stopOf adjust
  have h1 : ¬ ((s : Int) < 0) := by omega
  have h2 : ¬ ((s : Int) > (n : Int)) := by omega
  have h3 : ¬ ((e : Int) < 0) := by omega
  have h4 : ¬ ((e : Int) > (n : Int)) := by omega
  simp only [h1, h2, h3, h4, if_false]
  omega

/-- a located sequence object whose characters are the sequence of its location -/
structure Consistent (P alph : List Char) (x : SeqObj) (l : Location) (loc : Loc) : Prop where
  par : ∃ pst, x.par = some ⟨pst, some l⟩
  wf : WF l
  toLoc : toLoc l = some loc
  within : Within P l
  dir : loc.strand.isDirectional = true
  nonOverlap : nonOverlap loc.blocks = true
  data : expectExtract P alph l = some x.data

theorem resetLocation_ok (m : Location) (st : Strand) (hs : locationStrand? m = some st) :
    ∃ pst, resetLocation (some m) = .ok ⟨pst, some m⟩ := by
  unfold resetLocation
  cases m with
  | empty => simp [locationStrand?] at hs
  | single b s => simp only [locStrand]; split <;> exact ⟨_, rfl⟩
  | compound c => simp only [locStrand]; split <;> exact ⟨_, rfl⟩

/-- **C03-T4 (slices)**: EVERY unit-step slice `x[a:b]` (bounds `None`, negative, past the end or reversed,
    normalised like Python's `slice.indices`: `rs = normStart`, `re = max(rs, stop) = normEnd`) of a consistent
    object on a non-self-overlapping, non-empty location is answered, holds `str(x)[rs:re]`, and its recorded
    location extracts exactly those characters (an empty slice records a zero-length location) -/
theorem slice_consistent (P alph : List Char) (hnt : isNt alph = true) (x : SeqObj) (l : Location) (loc : Loc)
    (hc : Consistent P alph x l loc) (hlen : 0 < loc.len) (a b c : Option Int) (hstep : c = none ∨ c = some 1) :
    ∃ y m pst, getSlice x a b c = .ok y ∧
      y.data = (x.data.drop (normStart x.data.length a)).take
        (normEnd x.data.length a b - normStart x.data.length a) ∧
      y.par = some ⟨pst, some m⟩ ∧ WF m ∧ Within P m ∧
      locationStrand? m = some loc.strand ∧ ans (extract P alph m) = some y.data ∧
      nonOverlap (locationBlocks m) = true ∧
      ((∀ b ∈ locationBlocks m, b.1 < b.2) ∨ ∃ b t, m = .single b t) ∧
      locationBases m = ((bases loc).drop (normStart x.data.length a)).take
        (normEnd x.data.length a b - normStart x.data.length a) := by
  obtain ⟨pst, hp⟩ := hc.par
  have hdl := expect_length P alph l loc hc.toLoc hc.dir x.data hc.data
  have hb := norm_bounds x.data.length a b
  have h1 := startOf_bounds x.data.length a
  have h2 := stopOf_bounds x.data.length b
  generalize hrs : normStart x.data.length a = rs at hb
  generalize hre : normEnd x.data.length a b = re at hb
  obtain ⟨m, hm, hwf, hW, hs, hne, hnoM, hshape, hbm, hex⟩ :=
    sub_extract P alph hnt l hc.wf loc hc.toLoc hc.within hc.dir hc.nonOverlap hlen rs re hb.1 (by omega)
      x.data hc.data
  obtain ⟨pst', hr⟩ := resetLocation_ok m loc.strand hs
  have e1 : startOf x.data.length a = (rs : Int) := by rw [← hrs]; unfold normStart; omega
  have e2 : max (rs : Int) (stopOf x.data.length b) = (re : Int) := by
    rw [← hre, ← hrs]; unfold normEnd normStart; omega
  have hget : getSlice x a b c = .ok ⟨pick x.data (List.range' rs (re - rs)), some ⟨pst', some m⟩⟩ := by
    have hsi := sliceIndices_unit x.data.length a b c hstep
    rw [hrs, hre] at hsi
    rcases hstep with rfl | rfl <;>
    · unfold getSlice childPar
      simp only [hsi, hp, ne_eq, not_true_eq_false, if_false, e1, e2, hm, hr, bind, Except.bind, pure, Except.pure]
  refine ⟨_, m, pst', hget, ?_, rfl, hwf, hW, hs, ?_, hnoM, hshape, hbm⟩
  · exact pick_range' _ _ _ (by omega)
  · simp only [pick_range' x.data rs (re - rs) (by omega)]; exact hex

/-! ### reverse complement -/

theorem revcomp_of_consistent (P alph : List Char) (hnt : isNt alph = true) (l : Location) (loc : Loc)
    (h : WF l) (hl : toLoc l = some loc) (hW : Within P l) (hd : loc.strand.isDirectional = true)
    (hno : nonOverlap loc.blocks = true) (hinv : involutiveLetters P alph loc = true) :
    ans (extract P alph (reverseLoc l)) = Spec.Sq.optBind (expectExtract P alph l) (revcomp alph) := by
  have hw : within P loc = true := (within_of_Within P l loc hl).2 hW
  have := revStrand_ok P alph l h
  unfold okRevStrand at this
  simp only [hnt, hl, hw, Bool.not_true, Bool.false_eq_true, if_false, hno, hd, hinv, Bool.and_self, if_true,
    Bool.and_eq_true, beq_iff_eq] at this
  have hne : l ≠ .empty := by intro he; subst he; simp [toLoc] at hl
  unfold revStrandExtract at this
  rw [reverseStrand_eq l h hne] at this
  simp only [bind, Except.bind] at this
  exact this.2

theorem blocksLen_perm {xs ys : List Blk} (h : xs.Perm ys) : blocksLen xs = blocksLen ys := by
  induction h with
  | nil => rfl
  | cons x _ ih => simp [blocksLen, ih]
  | swap x y l => simp [blocksLen]; omega
  | trans _ _ ih1 ih2 => exact ih1.trans ih2

theorem locLen_pos (l : Location) (loc : Loc) (hl : toLoc l = some loc) (h : 0 < loc.len) : 0 < locLen l := by
  rw [toLoc_len l loc hl]; exact h

theorem locStrand_ok (l : Location) (loc : Loc) (hl : toLoc l = some loc) : locStrand l = .ok loc.strand := by
  cases l with
  | single b s => simp only [toLoc, Option.some.injEq] at hl; subst hl; rfl
  | compound c => simp only [toLoc, Option.some.injEq] at hl; subst hl; rfl
  | empty => simp [toLoc] at hl

/-- **C03-T4 (reverse complement)**: for a consistent object on a non-self-overlapping, non-empty location whose
    letters are complemented involutively (no `U`/`u`), `reverse_complement()` is answered with the reverse
    complement of the text, the re-stranded location and the reversed parent strand, and that location extracts
    exactly the new text -/
theorem rc_consistent (P alph : List Char) (hnt : isNt alph = true) (x : SeqObj) (l : Location) (loc : Loc)
    (hc : Consistent P alph x l loc) (hlen : 0 < loc.len) (hinv : involutiveLetters P alph loc = true) :
    ∃ d, reverseComplement alph x =
        .ok ⟨d, some ⟨some (Model.strandReverse loc.strand), some (reverseLoc l)⟩⟩ ∧
      revcomp alph x.data = some d ∧ ans (extract P alph (reverseLoc l)) = some d := by
  obtain ⟨pst, hp⟩ := hc.par
  obtain ⟨m, hm, hml⟩ := rcMap_ok alph hnt
  have hrc := revcomp_of_consistent P alph hnt l loc hc.wf hc.toLoc hc.within hc.dir hc.nonOverlap hinv
  rw [hc.data] at hrc
  simp only [Spec.Sq.optBind] at hrc
  -- the reverse complement of the text exists (the location's reading does)
  have hne : l ≠ .empty := by intro he; subst he; have := hc.toLoc; simp [toLoc] at this
  have hex := extract_eq P alph hnt (reverseLoc l) (WF_reverseLoc l hc.wf) (Within_reverseLoc P l hc.within)
  have hcd : ans (compData m x.data.reverse) = revcomp alph x.data := by
    rw [ans_compData]; unfold revcomp; rw [compAll_eq]
    exact mapOpt_congr _ _ _ (fun c _ => map_lookup_eq alph m hml c)
  cases hd' : compData m x.data.reverse with
  | error e =>
    -- impossible: the re-stranded location has a sequence, which equals revcomp of the text
    rw [hd'] at hcd
    simp only [ans_error] at hcd
    rw [← hcd] at hrc
    cases l with
    | empty => exact absurd rfl hne
    | single b st =>
      have h1 : toLoc (Location.single b st) = some loc := hc.toLoc
      simp only [toLoc, Option.some.injEq] at h1; subst h1
      exfalso
      have hread := expectExtract_readAt P alph (reverseLoc (.single b st)) ⟨[b], Spec.Tab.strandReverse st⟩ rfl
        (by have := hc.dir; cases st <;> simp_all [Strand.isDirectional, Spec.Tab.strandReverse])
      rw [hex] at hrc
      -- reading of the reversed location: letters exist and (by involutiveLetters) have complements
      have hi := hinv
      unfold involutiveLetters at hi
      cases hcs : charsAt P (bases ⟨[b], st⟩) with
      | none => simp [hcs] at hi
      | some cs =>
        simp only [hcs, Bool.and_eq_true] at hi
        have hd0 : st ≠ .unstranded := by
          intro hu; have := hc.dir; rw [hu] at this; simp [Strand.isDirectional] at this
        have hrevb := bases_single_reverse b st hd0
        have hcr : charsAt P (bases ⟨[b], Spec.Tab.strandReverse st⟩) = some cs.reverse := by
          rw [hrevb]; unfold charsAt at hcs ⊢; rw [mapOpt_reverse, hcs]; rfl
        rw [hread] at hrc
        unfold readAt at hrc
        simp only [hcr] at hrc
        split at hrc
        · rw [compAll_eq, mapOpt_reverse] at hrc
          rw [compAll_eq] at hi
          cases hq : mapOpt (compOf alph) cs with
          | none => simp [hq] at hi
          | some q => simp [hq] at hrc
        · cases hrc
    | compound c =>
      have h1 : toLoc (Location.compound c) = some loc := hc.toLoc
      simp only [toLoc, Option.some.injEq] at h1; subst h1
      obtain ⟨bs, st⟩ := c
      exfalso
      have hd0 : st ≠ .unstranded := by
        intro hu; have := hc.dir; simp only at this; rw [hu] at this; simp [Strand.isDirectional] at this
      have hdir' : (Spec.Tab.strandReverse st).isDirectional = true := by
        cases st <;> simp_all [Strand.isDirectional, Spec.Tab.strandReverse]
      have hread := expectExtract_readAt P alph (reverseLoc (.compound ⟨bs, st⟩))
        ⟨sortBlocks (Spec.Tab.strandReverse st) bs, Spec.Tab.strandReverse st⟩ rfl hdir'
      rw [hex] at hrc
      have hi := hinv
      unfold involutiveLetters at hi
      cases hcs : charsAt P (bases ⟨bs, st⟩) with
      | none => simp [hcs] at hi
      | some cs =>
        simp only [hcs, Bool.and_eq_true] at hi
        have hv : ∀ b ∈ bs, b.1 ≤ b.2 := (blocksValid_iff bs).1 hc.wf.2.1
        have hrevb := bases_reverse bs st hd0 hv hc.nonOverlap
        have hcr : charsAt P (bases ⟨sortBlocks (Spec.Tab.strandReverse st) bs, Spec.Tab.strandReverse st⟩) =
            some cs.reverse := by
          rw [hrevb]; unfold charsAt at hcs ⊢; rw [mapOpt_reverse, hcs]; rfl
        rw [hread] at hrc
        unfold readAt at hrc
        simp only [hcr] at hrc
        split at hrc
        · rw [compAll_eq, mapOpt_reverse] at hrc
          rw [compAll_eq] at hi
          cases hq : mapOpt (compOf alph) cs with
          | none => simp [hq] at hi
          | some q => simp [hq] at hrc
        · cases hrc
  | ok d =>
    rw [hd'] at hcd
    simp only [ans_ok] at hcd
    refine ⟨d, ?_, hcd.symm, ?_⟩
    · unfold reverseComplement
      have ht : truthy (some l) = true := by
        simp [truthy, locLen_pos l loc hc.toLoc hlen]
      have hps : parStrand ⟨pst, some l⟩ = .ok (some loc.strand) := by
        simp [parStrand, locLen_pos l loc hc.toLoc hlen, locStrand_ok l loc hc.toLoc, bind, Except.bind, pure,
          Except.pure]
      have hrt : truthy (some (reverseLoc l)) = true := by
        have : locLen (reverseLoc l) = locLen l := by
          cases l with
          | single b st => rfl
          | compound c =>
            obtain ⟨bs, st⟩ := c
            simp only [reverseLoc, locLen, Loc.len]
            exact blocksLen_perm (sortBlocks_perm _ bs)
          | empty => rfl
        simp [truthy, this, locLen_pos l loc hc.toLoc hlen]
      simp only [hm, hp, ht, if_true, reverseStrand_eq l hc.wf hne, hps, hd', bind, Except.bind, pure, Except.pure,
        Option.map_some, Option.isSome_some, Bool.true_or]
    · rw [← hcd] at hrc; exact hrc

/-! ### the model's answers in the vocabulary of the specification (for the witness theorems) -/

def toSpecStep : Model.Sq.Step → Spec.Sq.Step
  | .sl a b c => .sl a b c
  | .ix i => .ix i
  | .rc => .rc

/-- what the harness observes of a sequence object: text, `parent.strand`, `parent.location` -/
def observe (x : SeqObj) : R ObjAns := do
  match x.par with
  | none => pure ⟨x.data, none⟩
  | some p => do
    let st ← parStrand p
    pure ⟨x.data, some (st, p.loc)⟩

/-- run a program on `Sequence(extract(l), parent=Parent(location=l))` and observe the result -/
def progAns (P alph : List Char) (l : Location) (prog : List Model.Sq.Step) : Option ObjAns :=
  ans (do
    let x0 ← seqOf P alph l
    let y ← runProg alph x0 prog
    observe y)

end BioCantor.Proofs.Sq
