/-
  C12 — the gene / collection span the writer computes (min over the first exon starts, max over the last exon ends)
  is the span of ALL blocks (the spec's `spanOf`), for ascending non-overlapping block lists.
-/
import BioCantor.Model.GenbankWrite
namespace BioCantor.Proofs.Gb
open BioCantor BioCantor.Spec.Qual BioCantor.Spec.Gb BioCantor.Model.Gb

def IsLeast (m : Nat) (l : List Nat) : Prop := m ∈ l ∧ ∀ x ∈ l, m ≤ x
def IsGreatest (m : Nat) (l : List Nat) : Prop := m ∈ l ∧ ∀ x ∈ l, x ≤ m

theorem IsLeast.unique {m m' : Nat} {l : List Nat} (h : IsLeast m l) (h' : IsLeast m' l) : m = m' :=
  Nat.le_antisymm (h.2 _ h'.1) (h'.2 _ h.1)
theorem IsGreatest.unique {m m' : Nat} {l : List Nat} (h : IsGreatest m l) (h' : IsGreatest m' l) : m = m' :=
  Nat.le_antisymm (h'.2 _ h.1) (h.2 _ h'.1)

theorem foldl_min_isLeast : ∀ (l : List Nat) (a : Nat), IsLeast (l.foldl min a) (a :: l)
  | [], a => ⟨List.mem_cons_self, fun x hx => by simp only [List.mem_singleton] at hx; subst hx; exact Nat.le_refl _⟩
  | b :: l, a => by
    have ih := foldl_min_isLeast l (min a b)
    simp only [List.foldl_cons]
    refine ⟨?_, ?_⟩
    · rcases List.mem_cons.mp ih.1 with h | h
      · rw [h]
        by_cases hab : a ≤ b
        · simp [Nat.min_eq_left hab]
        · simp [Nat.min_eq_right (Nat.le_of_not_le hab)]
      · exact List.mem_cons_of_mem _ (List.mem_cons_of_mem _ h)
    · intro x hx
      have h0 := ih.2 (min a b) List.mem_cons_self
      rcases List.mem_cons.mp hx with rfl | hx
      · exact Nat.le_trans h0 (Nat.min_le_left _ _)
      · rcases List.mem_cons.mp hx with rfl | hx
        · exact Nat.le_trans h0 (Nat.min_le_right _ _)
        · exact ih.2 x (List.mem_cons_of_mem _ hx)

theorem foldl_max_isGreatest : ∀ (l : List Nat) (a : Nat), IsGreatest (l.foldl max a) (a :: l)
  | [], a => ⟨List.mem_cons_self, fun x hx => by simp only [List.mem_singleton] at hx; subst hx; exact Nat.le_refl _⟩
  | b :: l, a => by
    have ih := foldl_max_isGreatest l (max a b)
    simp only [List.foldl_cons]
    refine ⟨?_, ?_⟩
    · rcases List.mem_cons.mp ih.1 with h | h
      · rw [h]
        by_cases hab : a ≤ b
        · simp [Nat.max_eq_right hab]
        · simp [Nat.max_eq_left (Nat.le_of_not_le hab)]
      · exact List.mem_cons_of_mem _ (List.mem_cons_of_mem _ h)
    · intro x hx
      have h0 := ih.2 (max a b) List.mem_cons_self
      rcases List.mem_cons.mp hx with rfl | hx
      · exact Nat.le_trans (Nat.le_max_left _ _) h0
      · rcases List.mem_cons.mp hx with rfl | hx
        · exact Nat.le_trans (Nat.le_max_right _ _) h0
        · exact ih.2 x (List.mem_cons_of_mem _ hx)

theorem minStart_isLeast (bs : List Blk) (m : Nat) (h : minStart bs = some m) : IsLeast m (bs.map (·.1)) := by
  cases bs with
  | nil => simp [minStart] at h
  | cons b rest =>
    simp only [minStart, Option.some.injEq] at h
    subst h
    have := foldl_min_isLeast (rest.map (·.1)) b.1
    rw [List.foldl_map] at this
    simpa using this

theorem maxEnd_isGreatest (bs : List Blk) (m : Nat) (h : maxEnd bs = some m) : IsGreatest m (bs.map (·.2)) := by
  cases bs with
  | nil => simp [maxEnd] at h
  | cons b rest =>
    simp only [maxEnd, Option.some.injEq] at h
    subst h
    have := foldl_max_isGreatest (rest.map (·.2)) b.2
    rw [List.foldl_map] at this
    simpa using this

/-- ascending, non-overlapping blocks of positive length -/
def Asc (bs : List Blk) : Prop := (∀ b ∈ bs, b.1 < b.2) ∧ nonOverlap bs = true

theorem Asc.tail {b : Blk} {bs : List Blk} (h : Asc (b :: bs)) : Asc bs := by
  refine ⟨fun x hx => h.1 x (List.mem_cons_of_mem _ hx), ?_⟩
  cases bs with
  | nil => rfl
  | cons c rest =>
    have := h.2
    simp only [nonOverlap, Bool.and_eq_true, decide_eq_true_eq] at this
    exact this.2

theorem asc_head_le : ∀ (bs : List Blk) (a : Blk), Asc (a :: bs) → ∀ x ∈ a :: bs, a.1 ≤ x.1
  | [], a, _, x, hx => by simp at hx; subst hx; exact Nat.le_refl _
  | b :: rest, a, h, x, hx => by
    rcases List.mem_cons.mp hx with rfl | hx
    · exact Nat.le_refl _
    · have h2 := h.2
      simp only [nonOverlap, Bool.and_eq_true, decide_eq_true_eq] at h2
      have ha := h.1 a List.mem_cons_self
      have := asc_head_le rest b h.tail x hx
      omega

theorem asc_le_last : ∀ (bs : List Blk) (a : Blk), Asc (a :: bs) → ∀ l, (a :: bs).getLast? = some l →
    ∀ x ∈ a :: bs, x.2 ≤ l.2
  | [], a, _, l, hl, x, hx => by
    simp at hl hx; subst hl; subst hx; exact Nat.le_refl _
  | b :: rest, a, h, l, hl, x, hx => by
    have hl' : (b :: rest).getLast? = some l := by simpa [List.getLast?_cons_cons] using hl
    have ih := asc_le_last rest b h.tail l hl'
    rcases List.mem_cons.mp hx with rfl | hx
    · have h2 := h.2
      simp only [nonOverlap, Bool.and_eq_true, decide_eq_true_eq] at h2
      have hb := h.1 b (List.mem_cons_of_mem _ List.mem_cons_self)
      have := ih b List.mem_cons_self
      omega
    · exact ih x hx

/-- a family of ascending block lists: least of the heads = least of all starts; greatest of the last ends =
    greatest of all ends -/
theorem bounds_eq_span (fam : List (List Blk)) (hne : fam ≠ []) (hasc : ∀ bs ∈ fam, bs ≠ [] ∧ Asc bs) :
    ∃ s srest e erest,
      fam.filterMap (fun bs => bs.head?.map (·.1)) = s :: srest ∧
      fam.filterMap (fun bs => bs.getLast?.map (·.2)) = e :: erest ∧
      spanOf fam.flatten = some (srest.foldl min s, erest.foldl max e) := by
  -- the two filterMaps are total maps here
  have hheads : ∀ bs ∈ fam, ∃ h, bs.head? = some h := fun bs hbs => by
    cases bs with
    | nil => exact absurd rfl (hasc _ hbs).1
    | cons b _ => exact ⟨b, rfl⟩
  have hlasts : ∀ bs ∈ fam, ∃ l, bs.getLast? = some l := fun bs hbs => by
    cases hgl : bs.getLast? with
    | none => exact absurd (List.getLast?_eq_none_iff.mp hgl) (hasc _ hbs).1
    | some l => exact ⟨l, rfl⟩
  cases fam with
  | nil => exact absurd rfl hne
  | cons f0 frest =>
    obtain ⟨h0, hh0⟩ := hheads f0 List.mem_cons_self
    obtain ⟨l0, hl0⟩ := hlasts f0 List.mem_cons_self
    refine ⟨h0.1, frest.filterMap (fun bs => bs.head?.map (·.1)), l0.2,
            frest.filterMap (fun bs => bs.getLast?.map (·.2)), by simp [hh0],
            by simp [hl0], ?_⟩
    -- characterise both components as least / greatest of all starts / ends
    have hflat_ne : (f0 :: frest).flatten ≠ [] := by
      cases f0 with
      | nil => exact absurd rfl (hasc _ List.mem_cons_self).1
      | cons b _ => simp
    cases hms : minStart (f0 :: frest).flatten with
    | none => cases hf : (f0 :: frest).flatten with
      | nil => exact absurd hf hflat_ne
      | cons b bs => rw [hf] at hms; simp [minStart] at hms
    | some m =>
      cases hme : maxEnd (f0 :: frest).flatten with
      | none => cases hf : (f0 :: frest).flatten with
        | nil => exact absurd hf hflat_ne
        | cons b bs => rw [hf] at hme; simp [maxEnd] at hme
      | some M =>
        have hL := minStart_isLeast _ _ hms
        have hG := maxEnd_isGreatest _ _ hme
        have hL' : IsLeast ((frest.filterMap (fun bs => bs.head?.map (·.1))).foldl min h0.1)
            ((f0 :: frest).flatten.map (·.1)) := by
          have base := foldl_min_isLeast (frest.filterMap (fun bs => bs.head?.map (·.1))) h0.1
          refine ⟨?_, ?_⟩
          · -- a head start is a start
            rcases List.mem_cons.mp base.1 with h | h
            · rw [h]
              cases f0 with
              | nil => simp at hh0
              | cons b _ => simp at hh0; subst hh0; simp
            · obtain ⟨bs, hbs, hb⟩ := List.mem_filterMap.mp h
              obtain ⟨hd, hhd⟩ := hheads bs (List.mem_cons_of_mem _ hbs)
              rw [hhd] at hb
              simp only [Option.map_some, Option.some.injEq] at hb
              rw [← hb]
              refine List.mem_map.mpr ⟨hd, List.mem_flatten.mpr ⟨bs, List.mem_cons_of_mem _ hbs, ?_⟩, rfl⟩
              cases bs with
              | nil => simp at hhd
              | cons b _ => simp at hhd; subst hhd; exact List.mem_cons_self
          · intro x hx
            obtain ⟨blk, hblk, rfl⟩ := List.mem_map.mp hx
            obtain ⟨bs, hbs, hin⟩ := List.mem_flatten.mp hblk
            obtain ⟨hd, hhd⟩ := hheads bs hbs
            have hle : hd.1 ≤ blk.1 := by
              cases bs with
              | nil => simp at hhd
              | cons b rest =>
                simp at hhd; subst hhd
                exact asc_head_le rest b (hasc _ hbs).2 blk hin
            have hmem : hd.1 ∈ h0.1 :: frest.filterMap (fun bs => bs.head?.map (·.1)) := by
              rcases List.mem_cons.mp hbs with rfl | hbs'
              · rw [hh0] at hhd; simp at hhd; subst hhd; exact List.mem_cons_self
              · exact List.mem_cons_of_mem _ (List.mem_filterMap.mpr ⟨bs, hbs', by simp [hhd]⟩)
            exact Nat.le_trans (base.2 _ hmem) hle
        have hG' : IsGreatest ((frest.filterMap (fun bs => bs.getLast?.map (·.2))).foldl max l0.2)
            ((f0 :: frest).flatten.map (·.2)) := by
          have base := foldl_max_isGreatest (frest.filterMap (fun bs => bs.getLast?.map (·.2))) l0.2
          refine ⟨?_, ?_⟩
          · rcases List.mem_cons.mp base.1 with h | h
            · rw [h]
              exact List.mem_map.mpr ⟨l0, List.mem_flatten.mpr ⟨f0, List.mem_cons_self,
                List.mem_of_getLast? hl0⟩, rfl⟩
            · obtain ⟨bs, hbs, hb⟩ := List.mem_filterMap.mp h
              obtain ⟨la, hla⟩ := hlasts bs (List.mem_cons_of_mem _ hbs)
              rw [hla] at hb
              simp only [Option.map_some, Option.some.injEq] at hb
              rw [← hb]
              exact List.mem_map.mpr ⟨la, List.mem_flatten.mpr ⟨bs, List.mem_cons_of_mem _ hbs,
                List.mem_of_getLast? hla⟩, rfl⟩
          · intro x hx
            obtain ⟨blk, hblk, rfl⟩ := List.mem_map.mp hx
            obtain ⟨bs, hbs, hin⟩ := List.mem_flatten.mp hblk
            obtain ⟨la, hla⟩ := hlasts bs hbs
            have hle : blk.2 ≤ la.2 := by
              cases bs with
              | nil => simp at hin
              | cons b rest => exact asc_le_last rest b (hasc _ hbs).2 la hla blk hin
            have hmem : la.2 ∈ l0.2 :: frest.filterMap (fun bs => bs.getLast?.map (·.2)) := by
              rcases List.mem_cons.mp hbs with rfl | hbs'
              · rw [hl0] at hla; simp at hla; subst hla; exact List.mem_cons_self
              · exact List.mem_cons_of_mem _ (List.mem_filterMap.mpr ⟨bs, hbs', by simp [hla]⟩)
            exact Nat.le_trans hle (base.2 _ hmem)
        unfold spanOf
        rw [hms, hme, hL.unique hL', hG.unique hG']

end BioCantor.Proofs.Gb
