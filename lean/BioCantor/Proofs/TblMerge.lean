/-
  C17 helper lemmas, part 8: the CDS object `TblGene` builds for a coding transcript
  (`CDSInterval.optimize_and_combine_blocks` = merged blocks + regenerated frames + `from_location`) is a
  well-formed CDS in ONE uninterrupted reading frame whose first frame is the start frame — on the complement of
  F-C05h (the 5'-most merged block is at least as long as the start offset).
-/
import BioCantor.Proofs.TblCDS
import BioCantor.Proofs.TblRows
namespace BioCantor.Proofs.Tbl
open BioCantor BioCantor.Model BioCantor.Model.Tbl BioCantor.Spec BioCantor.Spec.Tbl BioCantor.Proofs

/-! ### the reference walk without re-synchronisation -/

def totalLen {α} (ex : List (WalkExon α)) : Nat := (ex.map (fun e => e.1.length)).sum

/-- every exon's frame equals the running frame -/
def noResync {α} : List (WalkExon α) → Nat → Bool
  | [], _ => true
  | (pos, f) :: rest, k => decide (f = k % 3) && noResync rest (k + pos.length)

theorem refKeptAux_le {α} : ∀ (ex : List (WalkExon α)) (kept : List α),
    (refKeptAux ex kept).length ≤ kept.length + totalLen ex
  | [], kept => by simp [refKeptAux, totalLen]
  | (pos, f) :: rest, kept => by
    simp only [refKeptAux, totalLen, List.map_cons, List.sum_cons]
    split
    · have := refKeptAux_le rest (kept ++ pos)
      simp only [List.length_append, totalLen] at this; omega
    · have := refKeptAux_le rest (kept.take (kept.length - kept.length % 3) ++ pos.drop f)
      simp only [List.length_append, List.length_take, List.length_drop, totalLen] at this
      omega

/-- a walk that loses nothing never re-synchronised (exons are non-empty, frames are 0/1/2) -/
theorem noResync_of_full {α} : ∀ (ex : List (WalkExon α)) (kept : List α),
    (∀ e ∈ ex, e.1 ≠ [] ∧ e.2 < 3) → (refKeptAux ex kept).length = kept.length + totalLen ex →
    noResync ex kept.length = true
  | [], _, _, _ => rfl
  | (pos, f) :: rest, kept, hne, h => by
    have hp := hne (pos, f) (by simp)
    have hpl : 0 < pos.length := List.length_pos_iff.mpr hp.1
    simp only [refKeptAux, totalLen, List.map_cons, List.sum_cons] at h
    simp only [noResync, Bool.and_eq_true, decide_eq_true_eq]
    by_cases hf : f = kept.length % 3
    · simp only [hf, if_true] at h
      refine ⟨hf, ?_⟩
      have := noResync_of_full rest (kept ++ pos) (fun e he => hne e (List.mem_cons_of_mem _ he))
        (by simp only [List.length_append, totalLen]; omega)
      simpa using this
    · exfalso
      simp only [hf, if_false] at h
      have := refKeptAux_le rest (kept.take (kept.length - kept.length % 3) ++ pos.drop f)
      simp only [List.length_append, List.length_take, List.length_drop, totalLen] at this
      have h3 := hp.2
      omega

theorem segsLen_pushSeg {α} (p : List α) (segs : List (List α)) : segsLen (pushSeg p segs) = p.length + segsLen segs := by
  unfold pushSeg segsLen
  split
  · rename_i h; have : p = [] := by simpa using h
    simp [this]
  · simp

theorem refSegs_of_noResync {α} : ∀ (ex : List (WalkExon α)) (segs : List (List α)),
    noResync ex (segsLen segs) = true → (refSegsAux ex segs).isSome = true
  | [], _, _ => rfl
  | (pos, f) :: rest, segs, h => by
    simp only [noResync, Bool.and_eq_true, decide_eq_true_eq] at h
    simp only [refSegsAux, h.1, if_true]
    apply refSegs_of_noResync rest
    rw [segsLen_pushSeg]
    have := h.2
    rwa [Nat.add_comm] at this

/-- a first exon with start offset `f`, then exons whose frames continue it: the walk is shallow -/
theorem shallow_of_walk {α} (pos0 : List α) (f : Nat) (rest : List (WalkExon α))
    (hne : ∀ e ∈ rest, e.1 ≠ [] ∧ e.2 < 3)
    (hfull : (refKeptAux rest (pos0.drop f)).length = (pos0.drop f).length + totalLen rest) :
    shallowTrim ((pos0, f) :: rest) = true := by
  have hnr := noResync_of_full rest (pos0.drop f) hne hfull
  unfold shallowTrim
  simp only [refSegsAux, segsLen, List.map_nil, List.sum_nil, Nat.zero_mod]
  by_cases h0 : f = 0
  · subst h0
    simp only [if_true]
    apply refSegs_of_noResync
    rw [segsLen_pushSeg]
    simpa [segsLen] using hnr
  · simp only [h0, if_false, trimLast, if_true]
    apply refSegs_of_noResync
    rw [segsLen_pushSeg]
    simpa [segsLen] using hnr

/-! ### merged blocks are again an exon layout -/

theorem comb_gapped' (c : Blk) (bs : List Blk) (hc : c.1 < c.2)
    (hle : ∀ b ∈ bs, c.2 ≤ b.1) (hp : bs.Pairwise (fun a b => a.2 ≤ b.1)) (hpos : ∀ b ∈ bs, b.1 < b.2) :
    (comb c bs).Pairwise (fun a b => a.2 < b.1) ∧ ∀ x ∈ comb c bs, c.1 ≤ x.1 := by
  induction bs generalizing c with
  | nil => simp [comb]
  | cons b bs ih =>
    rw [List.pairwise_cons] at hp
    have hle' : ∀ x ∈ bs, c.2 ≤ x.1 := fun x hx => hle x (List.mem_cons_of_mem _ hx)
    have hpos' : ∀ x ∈ bs, x.1 < x.2 := fun x hx => hpos x (List.mem_cons_of_mem _ hx)
    have hcb : c.2 ≤ b.1 := hle b (by simp)
    have hb : b.1 < b.2 := hpos b (by simp)
    unfold comb
    have h0 : ¬ (b.2 - b.1 = 0) := by omega
    simp only [h0, if_false]
    by_cases h1 : c.2 = b.1
    · simp only [h1, if_true]
      exact ih (c.1, max b.1 b.2) (by simp only; omega)
        (fun x hx => by have := hp.1 x hx; simp only; omega) hp.2 hpos'
    · simp only [h1, if_false]
      obtain ⟨g, lb⟩ := ih b hb (fun x hx => hp.1 x hx) hp.2 hpos'
      refine ⟨?_, ?_⟩
      · rw [List.pairwise_cons]
        exact ⟨fun x hx => by have := lb x hx; omega, g⟩
      · intro x hx
        rcases List.mem_cons.1 hx with rfl | hx
        · exact Nat.le_refl _
        · have := lb x hx; omega

/-- the merged blocks are ascending, non-empty and strictly separated: an exon layout again -/
theorem merged_good (src : List Blk) (h : goodBlocks src = true) : goodBlocks (mergedBlocks src) = true := by
  obtain ⟨hp, hpos⟩ := (good_iff src).1 h
  rw [good_iff]
  refine ⟨?_, merged_pos src h⟩
  rw [← combStart_runs src h]
  cases src with
  | nil => simp [combStart]
  | cons b bs =>
    rw [List.pairwise_cons] at hp
    have hb : b.1 < b.2 := hpos b (by simp)
    have h0 : ¬ (b.2 - b.1 = 0) := by omega
    simp only [combStart, h0, if_false]
    exact (comb_gapped' b bs hb (fun x hx => hp.1 x hx) hp.2
      (fun x hx => hpos x (List.mem_cons_of_mem _ hx))).1.imp (fun {a b} hab => Nat.le_of_lt hab)

theorem merged_ne_nil (src : List Blk) (h : goodBlocks src = true) (hne : src ≠ []) : mergedBlocks src ≠ [] := by
  intro he
  have := merged_same_bases src .plus h
  rw [he] at this
  obtain ⟨_, hpos⟩ := (good_iff src).1 h
  cases src with
  | nil => exact hne rfl
  | cons b bs =>
    have hb := hpos b (by simp)
    simp only [bases, basesPlus, blkAsc] at this
    have hl := congrArg List.length this
    simp at hl
    omega

/-! ### regenerated frames and `from_location` on an exon layout -/

/-- what `construct_frames_from_location` + `CDSInterval.from_location` give on an exon layout `m` -/
structure MergedCDS (m : List Blk) (st : Strand) (fr : CDSFrame) (seq : Option (List Char)) (c : CDS) : Prop where
  loc : c.loc = ⟨m, st⟩
  seq : c.seq = seq
  frameIter : ∃ rest, c.frameIter = fr :: rest
  wf : WFCDS c
  shallow : shallowTrim (exonWalk c.loc (specFrames c)) = true
  plain : PlainFrame c fr.value.toNat

theorem mkCDS_good (m : List Blk) (st : Strand) (fs : List CDSFrame) (chrom : List Char)
    (hg : goodBlocks m = true) (hne : m ≠ []) (hlen : fs.length = m.length)
    (hcov : ∀ b ∈ m, b.2 ≤ chrom.length) :
    ∃ s e, mkCDS m st (.frames fs) (some chrom) = .ok ⟨⟨m, st⟩, s, e, fs, some chrom⟩ := by
  obtain ⟨hp, hpos⟩ := (good_iff m).1 hg
  have hmk := mkCompoundLoc_ok st hne (fun b hb => Nat.le_of_lt (hpos b hb))
  rw [sortBlocks_of_fst_lt st (fst_lt_of_good _ hg)] at hmk
  have hlen0 : (⟨m, st⟩ : Loc).len ≠ 0 := by
    cases m with
    | nil => exact absurd rfl hne
    | cons b bs =>
      have := hpos b (by simp)
      simp only [Loc.len, blocksLen, Blk.len]; omega
  obtain ⟨b0, hb0⟩ : ∃ b0, m.head? = some b0 := by
    cases m with
    | nil => exact absurd rfl hne
    | cons b bs => exact ⟨b, rfl⟩
  obtain ⟨bl, hbl⟩ : ∃ bl, m.getLast? = some bl := ⟨m.getLast hne, List.getLast?_eq_some_getLast hne⟩
  refine ⟨b0.1, bl.2, ?_⟩
  unfold mkCDS
  have hfl : ¬ ((FramesOrPhases.frames fs).length ≠ m.length) := by simp [FramesOrPhases.length, hlen]
  cases m with
  | nil => exact absurd rfl hne
  | cons b bs =>
    cases bs with
    | nil =>
      have hb := hpos b (by simp)
      have hc := hcov b (by simp)
      have h1 : ¬ ¬ (b.1 ≤ b.2) := by omega
      have h2 : ¬ (b.2 > chrom.length) := by omega
      simp only [List.head?_cons, List.getLast?_singleton, Option.some.injEq] at hb0 hbl
      subst hb0; subst hbl
      simp only [h1, h2, if_false, bind, Except.bind, pure, Except.pure, List.head?_cons, List.getLast?_singleton,
        hfl, hmk, hlen0]
    | cons b' r =>
      simp only [List.head?_cons, Option.some.injEq] at hb0
      subst hb0
      simp only [hmk, bind, Except.bind, pure, Except.pure, List.head?_cons, hbl, hfl, if_false, hlen0]

theorem rd_ne_nil (st : Strand) (b : Blk) (h : b.1 < b.2) : rd st b ≠ [] := by
  intro he
  have := length_rd st b
  rw [he] at this
  simp only [List.length_nil, Blk.len] at this
  omega

/-- **the CDS object of a merged coding transcript** -/
theorem mergedCDS_exists (m : List Blk) (st : Strand) (hst : st = .plus ∨ st = .minus)
    (hg : goodBlocks m = true) (hne : m ≠ []) (fr : CDSFrame) (hfr : fr ≠ .NONE)
    (hfirst : m.length = 1 ∨ fr.value ≤ (firstLen ⟨m, st⟩ : Int))
    (chrom : List Char) (hcov : ∀ b ∈ m, b.2 ≤ chrom.length) :
    ∃ frames c, constructFramesFromLocation (toSingleIfOne ⟨m, st⟩) fr = .ok frames ∧
      mkCDS m st (.frames frames) (some chrom) = .ok c ∧ MergedCDS m st fr (some chrom) c := by
  obtain ⟨hp, hpos⟩ := (good_iff m).1 hg
  have hv : ∀ b ∈ m, b.1 ≤ b.2 := fun b hb => Nat.le_of_lt (hpos b hb)
  have hfv := frame_value_range fr hfr
  -- the frames, in 5'→3' order `fr :: gs`, and the walk over them
  have key : ∃ frames gs, constructFramesFromLocation (toSingleIfOne ⟨m, st⟩) fr = .ok frames ∧
      frames.length = m.length ∧ (∀ g ∈ frames, g ≠ .NONE) ∧
      (if st = .minus then frames.reverse else frames) = fr :: gs ∧
      shallowTrim (exonWalk ⟨m, st⟩ (frames.map (fun x => x.value.toNat))) = true := by
    by_cases h1 : m.length = 1
    · match m, h1 with
      | [b], _ =>
        refine ⟨[fr], [], by simp [toSingleIfOne, constructFramesFromLocation, pure, Except.pure], rfl,
          by simpa using hfr, by split <;> rfl, ?_⟩
        rw [exonWalk_scanOrder [b] st hst [fr] rfl]
        have h2 : (if st = .minus then [fr].reverse else [fr]) = [fr] := by split <;> rfl
        have h3 : scanOrder st [b] = [b] := by unfold scanOrder; split <;> rfl
        rw [h2, h3]
        simp only [List.zip_cons_cons, List.zip_nil_right, List.map_cons, List.map_nil]
        exact shallow_of_walk _ _ [] (by simp) (by simp [refKeptAux, totalLen])
    · have hfl : fr.value ≤ (firstLen ⟨m, st⟩ : Int) := by
        rcases hfirst with h | h
        · exact absurd h h1
        · exact h
      have hts : toSingleIfOne ⟨m, st⟩ = .compound ⟨m, st⟩ := by
        unfold toSingleIfOne
        split
        · rename_i b hb; simp only at hb; rw [hb] at h1; simp at h1
        · rfl
      have hsb : scanBlocks ⟨m, st⟩ = .ok (scanOrder st m) := by
        unfold scanBlocks assertDirectional scanOrder
        rcases hst with h | h <;> simp [h, bind, Except.bind, pure, Except.pure]
      have hlen : (scanOrder st m).length = m.length := by unfold scanOrder; split <;> simp
      cases hso : scanOrder st m with
      | nil => rw [hso] at hlen; cases m with
        | nil => exact absurd rfl hne
        | cons _ _ => simp at hlen
      | cons e0 es =>
        have hes : es ≠ [] := by
          intro he; rw [hso, he] at hlen; simp at hlen; exact h1 hlen.symm
        have hmem : ∀ e ∈ e0 :: es, e ∈ m := by
          intro e he; rw [← hso] at he; unfold scanOrder at he
          split at he
          · exact he
          · exact List.mem_reverse.1 he
        unfold firstLen at hfl
        simp only [hso] at hfl
        have he0 := hpos e0 (hmem e0 (by simp))
        -- the loop over the exons after the first
        have hk0 : ((CDSFrame.ZERO).value + ((e0.len : Int) - fr.value)) % 3
            = ((((rd st e0).drop fr.value.toNat).length : Nat) : Int) % 3 := by
          have hz0 : (CDSFrame.ZERO).value = 0 := rfl
          rw [hz0]
          simp only [List.length_drop, length_rd]
          omega
        obtain ⟨gs, hg1, hg2, hg3, hg4⟩ := framesLoop_walk st es ((e0.len : Int) - fr.value) .ZERO
          ((rd st e0).drop fr.value.toNat) hes (by simp) hk0
        have hdl : ((e0 :: es).map (fun b => (b.len : Int))).dropLast =
            (e0.len : Int) :: (es.map (fun b => (b.len : Int))).dropLast := by
          cases es with
          | nil => exact absurd rfl hes
          | cons a t => simp
        refine ⟨if st = .minus then (fr :: gs).reverse else fr :: gs, gs, ?_, ?_, ?_, ?_, ?_⟩
        · rw [hts]
          unfold constructFramesFromLocation
          simp only [h1, if_false, hsb, bind, Except.bind, hso, hdl, hg1, pure, Except.pure]
        · rw [← hlen, hso]; split <;> simp [hg2]
        · intro g hg
          have : g ∈ fr :: gs := by
            split at hg
            · exact List.mem_reverse.mp hg
            · exact hg
          rcases List.mem_cons.mp this with rfl | h
          · exact hfr
          · exact hg3 g h
        · split <;> simp
        · have hfsl : (if st = .minus then (fr :: gs).reverse else fr :: gs).length = m.length := by
            rw [← hlen, hso]; split <;> simp [hg2]
          have hrev : (if st = .minus then (if st = .minus then (fr :: gs).reverse else fr :: gs).reverse
              else (if st = .minus then (fr :: gs).reverse else fr :: gs)) = fr :: gs := by
            split <;> simp
          rw [exonWalk_scanOrder m st hst _ hfsl, hrev, hso]
          simp only [List.zip_cons_cons, List.map_cons]
          apply shallow_of_walk
          · intro e he
            obtain ⟨eg, heg, rfl⟩ := List.mem_map.1 he
            have h1' : eg.1 ∈ es := (List.of_mem_zip heg).1
            have h2' : eg.2 ∈ gs := (List.of_mem_zip heg).2
            have hvr := frame_value_range eg.2 (hg3 _ h2')
            exact ⟨rd_ne_nil st _ (hpos _ (hmem _ (List.mem_cons_of_mem _ h1'))), by simp only; omega⟩
          · have hz : ∀ (es : List Blk) (gs : List CDSFrame), gs.length = es.length →
                (readScan st es).length
                  = ((es.zip gs).map ((fun e : WalkExon Nat => e.1.length) ∘
                      (fun eg : Blk × CDSFrame => (rd st eg.1, eg.2.value.toNat)))).sum := by
              intro es
              induction es with
              | nil => intro gs _; simp
              | cons a t ih =>
                intro gs hl
                cases gs with
                | nil => simp at hl
                | cons g gt =>
                  simp only [readScan_cons, List.length_append, List.zip_cons_cons, List.map_cons, List.sum_cons,
                    Function.comp]
                  rw [ih gt (by simpa using hl)]
            rw [hg4]
            simp only [List.length_append, totalLen, List.map_map]
            rw [hz es gs hg2]
  obtain ⟨frames, gs, hcf, hfl, hfn, hiter, hsh⟩ := key
  obtain ⟨s, e, hmk⟩ := mkCDS_good m st frames chrom hg hne hfl hcov
  refine ⟨frames, _, hcf, hmk, ?_⟩
  have hwf : WFCDS ⟨⟨m, st⟩, s, e, frames, some chrom⟩ :=
    ⟨hst, (blocksValid_iff m).2 hv, pairwise_nonOverlap m hp, hpos, hfl, hfn⟩
  refine ⟨rfl, rfl, ⟨gs, ?_⟩, hwf, hsh, ?_⟩
  · unfold CDS.frameIter CDS.strand; exact hiter
  · -- one uninterrupted frame: C05-T4
    have hl : toLoc (toSingleIfOne ⟨m, st⟩) = some ⟨m, st⟩ := by
      unfold toSingleIfOne
      split
      · rename_i b hb; simp only at hb; simp [toLoc, hb]
      · rfl
    have hok := constructFrames_ok (toSingleIfOne ⟨m, st⟩) ⟨m, st⟩ hl hne hst fr hfr hfirst
    rw [hcf] at hok
    simp only [ans_ok, Option.map_some, okFrames, Bool.and_eq_true, beq_iff_eq] at hok
    unfold PlainFrame specFrames
    exact hok.2

/-- `CDSInterval.optimize_and_combine_blocks` of the CDS of a transcript with an exon-layout CDS `src` -/
theorem mergeCDS_spec (c0 : CDS) (src : List Blk) (st : Strand) (hloc : c0.loc = ⟨src, st⟩)
    (hst : st = .plus ∨ st = .minus) (hg : goodBlocks src = true) (hne : src ≠ [])
    (fr : CDSFrame) (rest0 : List CDSFrame) (hfi : c0.frameIter = fr :: rest0) (hfr : fr ≠ .NONE)
    (hfirst : (mergedBlocks src).length = 1 ∨ fr.value ≤ (firstLen ⟨mergedBlocks src, st⟩ : Int))
    (chrom : List Char) (hseq : c0.seq = some chrom) (hcov : ∀ b ∈ src, b.2 ≤ chrom.length) :
    ∃ c, mergeCDS c0 = .ok c ∧ MergedCDS (mergedBlocks src) st fr (some chrom) c := by
  have hmg := merged_good src hg
  have hmne := merged_ne_nil src hg hne
  have hcov' : ∀ b ∈ mergedBlocks src, b.2 ≤ chrom.length := by
    intro b hb
    -- the last position of `b` is a position of `src`
    have hbpos := merged_pos src hg b hb
    have hmem : b.2 - 1 ∈ basesPlus (mergedBlocks src) := by
      rw [basesPlus_eq_flatMap]
      simp only [List.mem_flatMap]
      exact ⟨b, hb, by simp only [blkAsc, List.mem_range']; exact ⟨b.2 - 1 - b.1, by omega, by omega⟩⟩
    have hsb : basesPlus (mergedBlocks src) = basesPlus src := by
      have := merged_same_bases src .plus hg
      simpa [bases] using this
    rw [hsb, basesPlus_eq_flatMap] at hmem
    simp only [List.mem_flatMap, blkAsc, List.mem_range'] at hmem
    obtain ⟨a, ha, i, hi, hia⟩ := hmem
    have := hcov a ha
    omega
  obtain ⟨frames, c, hcf, hmk, hM⟩ :=
    mergedCDS_exists (mergedBlocks src) st hst hmg hmne fr hfr hfirst chrom hcov'
  refine ⟨c, ?_, hM⟩
  unfold mergeCDS
  rw [hloc] at *
  simp only [hfi, hseq]
  by_cases h1 : src.length > 1
  · obtain ⟨l, hl, hbl⟩ := optimizeLoc_good' src st hg hne
    subst hbl
    simp only [h1, if_true, hl, bind, Except.bind, pure, Except.pure, hcf, locBlocks_toSingle, hmk]
  · have : ∃ b, src = [b] := by
      cases src with
      | nil => exact absurd rfl hne
      | cons b bs => cases bs with
        | nil => exact ⟨b, rfl⟩
        | cons _ _ => simp at h1
    obtain ⟨b, rfl⟩ := this
    have hmb : mergedBlocks [b] = [b] := by
      have := combStart_runs [b] hg
      rw [← this]
      have hb := ((good_iff [b]).1 hg).2 b (by simp)
      have h0 : ¬ (b.2 - b.1 = 0) := by omega
      simp [combStart, comb, h0]
    rw [hmb] at hcf hmk
    have hts : toSingleIfOne ⟨[b], st⟩ = .single b st := rfl
    rw [hts] at hcf
    simp only [h1, if_false, bind, Except.bind, pure, Except.pure, hcf, locBlocks, hmk]

theorem merged_cover (src : List Blk) (hg : goodBlocks src = true) (n : Nat) (hcov : ∀ b ∈ src, b.2 ≤ n) :
    ∀ b ∈ mergedBlocks src, b.2 ≤ n := by
  intro b hb
  have hbpos := merged_pos src hg b hb
  have hmem : b.2 - 1 ∈ basesPlus (mergedBlocks src) := by
    rw [basesPlus_eq_flatMap]
    simp only [List.mem_flatMap]
    exact ⟨b, hb, by simp only [blkAsc, List.mem_range']; exact ⟨b.2 - 1 - b.1, by omega, by omega⟩⟩
  have hsb : basesPlus (mergedBlocks src) = basesPlus src := by
    have := merged_same_bases src .plus hg
    simpa [bases] using this
  rw [hsb, basesPlus_eq_flatMap] at hmem
  simp only [List.mem_flatMap, blkAsc, List.mem_range'] at hmem
  obtain ⟨a, ha, i, hi, hia⟩ := hmem
  have := hcov a ha
  omega

theorem cdsIn_merged' (src : List Blk) (st : Strand) (f : Nat) (g : List Char) (h : goodBlocks src = true) (table : Nat) :
    (⟨mergedBlocks src, st, f, g⟩ : CdsIn).startPartial table = (⟨src, st, f, g⟩ : CdsIn).startPartial table ∧
    (⟨mergedBlocks src, st, f, g⟩ : CdsIn).endPartial = (⟨src, st, f, g⟩ : CdsIn).endPartial ∧
    (⟨mergedBlocks src, st, f, g⟩ : CdsIn).inFrameStop = (⟨src, st, f, g⟩ : CdsIn).inFrameStop := by
  have hl : (⟨mergedBlocks src, st, f, g⟩ : CdsIn).letters = (⟨src, st, f, g⟩ : CdsIn).letters := by
    unfold CdsIn.letters; simp only [merged_same_bases src st h]
  have hc : (⟨mergedBlocks src, st, f, g⟩ : CdsIn).codons = (⟨src, st, f, g⟩ : CdsIn).codons := by
    unfold CdsIn.codons; rw [hl]
  refine ⟨?_, ?_, ?_⟩
  · unfold CdsIn.startPartial; rw [hc]
  · unfold CdsIn.endPartial CdsIn.endsOnStop; rw [hl, hc]
  · unfold CdsIn.inFrameStop; rw [hc]

/-- hypotheses on the chromosome letters: every letter has a complement and is one `Codon` accepts -/
structure ChromOK (chrom : List Char) : Prop where
  compl : ∀ ch ∈ chrom, (complement ch).isSome = true
  alpha : ∀ ch ∈ chrom, ch.toUpper ∈ Gen.codonAlphabet

/-- **the CDS feature of a coding transcript, end to end**: merge the CDS blocks, regenerate the frames, rebuild
    the CDS object, compute `CDSTblFeature`'s values — they are the clauses of the property read off the SOURCE
    blocks and the chromosome letters. -/
theorem merged_cds_feature (c0 : CDS) (src : List Blk) (st : Strand) (hloc : c0.loc = ⟨src, st⟩)
    (hst : st = .plus ∨ st = .minus) (hg : goodBlocks src = true) (hne : src ≠ [])
    (fr : CDSFrame) (rest0 : List CDSFrame) (hfi : c0.frameIter = fr :: rest0) (hfr : fr ≠ .NONE)
    (hfirst : (mergedBlocks src).length = 1 ∨ fr.value ≤ (firstLen ⟨mergedBlocks src, st⟩ : Int))
    (chrom : List Char) (hseq : c0.seq = some chrom) (hcov : ∀ b ∈ src, b.2 ≤ chrom.length) (hch : ChromOK chrom)
    (table : Nat) (ht : table = 0 ∨ table = 1 ∨ table = 11)
    (hcod : (⟨src, st, fr.value.toNat, chrom⟩ : CdsIn).codons ≠ some []) :
    ∃ c si ei, mergeCDS c0 = .ok c ∧ c.loc = ⟨mergedBlocks src, st⟩ ∧
      cdsFlags c (table : Int) = .ok (fr.value.toNat + 1, si, ei) ∧
      (⟨src, st, fr.value.toNat, chrom⟩ : CdsIn).startPartial table = some si ∧
      (⟨src, st, fr.value.toNat, chrom⟩ : CdsIn).endPartial = some ei := by
  obtain ⟨c, hm, hM⟩ := mergeCDS_spec c0 src st hloc hst hg hne fr rest0 hfi hfr hfirst chrom hseq hcov
  obtain ⟨rest, hiter⟩ := hM.frameIter
  have hfv := frame_value_range fr hfr
  have hf : fr.value = ((fr.value.toNat : Nat) : Int) := by omega
  have hs : SeqOK c chrom :=
    ⟨hM.seq, by rw [hM.loc]; exact merged_cover src hg _ hcov, hch.compl⟩
  have hci : cdsInOf c fr.value.toNat chrom = ⟨mergedBlocks src, st, fr.value.toNat, chrom⟩ := by
    unfold cdsInOf; rw [hM.loc]
  obtain ⟨e1, e2, _⟩ := cdsIn_merged' src st fr.value.toNat chrom hg table
  have hcod' : (cdsInOf c fr.value.toNat chrom).codons ≠ some [] := by
    rw [hci]
    have : (⟨mergedBlocks src, st, fr.value.toNat, chrom⟩ : CdsIn).codons
        = (⟨src, st, fr.value.toNat, chrom⟩ : CdsIn).codons := by
      unfold CdsIn.codons CdsIn.letters; simp only [merged_same_bases src st hg]
    rw [this]; exact hcod
  have hkept : c.loc.blocks.length = 1 ∨ cdsKept c.loc (specFrames c) ≠ [] := by
    right
    intro hk
    obtain ⟨all, _, hlen, _, hcods, hcl⟩ := codons_eq c hM.wf fr.value.toNat hM.plain chrom hs
    have hp := hM.plain
    unfold PlainFrame at hp
    rw [hk] at hp
    have hle : (bases c.loc).length ≤ fr.value.toNat := by
      have := congrArg List.length hp
      simp only [List.length_nil, List.length_drop] at this
      omega
    have : (upperStr all).drop fr.value.toNat = [] := by
      apply List.drop_eq_nil_of_le
      unfold upperStr; rw [List.length_map, hlen]; exact hle
    rw [hcods, hcl, this] at hcod'
    exact hcod' rfl
  obtain ⟨si, ei, h1, h2, h3⟩ := cdsFlags_spec c hM.wf hM.shallow hkept chrom hs hch.alpha table ht fr rest hiter
    fr.value.toNat hf hM.plain hcod'
  rw [hci] at h2 h3
  exact ⟨c, si, ei, hm, hM.loc, h1, by rw [← e1]; exact h2, by rw [← e2]; exact h3⟩

/-- the same for `has_in_frame_stop` of the merged CDS (what `GeneTblFeature` turns into `pseudo`) -/
theorem merged_cds_in_frame_stop (c0 : CDS) (src : List Blk) (st : Strand) (hloc : c0.loc = ⟨src, st⟩)
    (hst : st = .plus ∨ st = .minus) (hg : goodBlocks src = true) (hne : src ≠ [])
    (fr : CDSFrame) (rest0 : List CDSFrame) (hfi : c0.frameIter = fr :: rest0) (hfr : fr ≠ .NONE)
    (hfirst : (mergedBlocks src).length = 1 ∨ fr.value ≤ (firstLen ⟨mergedBlocks src, st⟩ : Int))
    (chrom : List Char) (hseq : c0.seq = some chrom) (hcov : ∀ b ∈ src, b.2 ≤ chrom.length) (hch : ChromOK chrom)
    (hcod : (⟨src, st, fr.value.toNat, chrom⟩ : CdsIn).codons ≠ some [])
    (hacgt : ∀ cods, (⟨src, st, fr.value.toNat, chrom⟩ : CdsIn).codons = some cods →
      ∀ cod ∈ cods, (standardCode cod).isSome = true) :
    ∃ c b, mergeCDS c0 = .ok c ∧ hasInFrameStop c = .ok b ∧
      (⟨src, st, fr.value.toNat, chrom⟩ : CdsIn).inFrameStop = some b := by
  obtain ⟨c, hm, hM⟩ := mergeCDS_spec c0 src st hloc hst hg hne fr rest0 hfi hfr hfirst chrom hseq hcov
  have hs : SeqOK c chrom :=
    ⟨hM.seq, by rw [hM.loc]; exact merged_cover src hg _ hcov, hch.compl⟩
  have hci : cdsInOf c fr.value.toNat chrom = ⟨mergedBlocks src, st, fr.value.toNat, chrom⟩ := by
    unfold cdsInOf; rw [hM.loc]
  have hcc : (⟨mergedBlocks src, st, fr.value.toNat, chrom⟩ : CdsIn).codons
      = (⟨src, st, fr.value.toNat, chrom⟩ : CdsIn).codons := by
    unfold CdsIn.codons CdsIn.letters; simp only [merged_same_bases src st hg]
  have hcod' : (cdsInOf c fr.value.toNat chrom).codons ≠ some [] := by rw [hci, hcc]; exact hcod
  have hkept : c.loc.blocks.length = 1 ∨ cdsKept c.loc (specFrames c) ≠ [] := by
    right
    intro hk
    obtain ⟨all, _, hlen, _, hcods, hcl⟩ := codons_eq c hM.wf fr.value.toNat hM.plain chrom hs
    have hp := hM.plain
    unfold PlainFrame at hp
    rw [hk] at hp
    have hle : (bases c.loc).length ≤ fr.value.toNat := by
      have := congrArg List.length hp
      simp only [List.length_nil, List.length_drop] at this
      omega
    have : (upperStr all).drop fr.value.toNat = [] := by
      apply List.drop_eq_nil_of_le
      unfold upperStr; rw [List.length_map, hlen]; exact hle
    rw [hcods, hcl, this] at hcod'
    exact hcod' rfl
  obtain ⟨b, hb1, hb2⟩ := inFrameStop_spec c hM.wf hM.shallow hkept chrom hs hch.alpha fr.value.toNat hM.plain
    (by rw [hci, hcc]; exact hacgt)
  rw [hci] at hb2
  refine ⟨c, b, hm, hb1, ?_⟩
  have : (⟨mergedBlocks src, st, fr.value.toNat, chrom⟩ : CdsIn).inFrameStop
      = (⟨src, st, fr.value.toNat, chrom⟩ : CdsIn).inFrameStop := by
    unfold CdsIn.inFrameStop; rw [hcc]
  rw [← this]; exact hb2

end BioCantor.Proofs.Tbl
