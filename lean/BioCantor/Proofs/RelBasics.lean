/-
  Helper lemmas for C01-T3 (`RelInterval.lean`): multiset comparison (`sortNat`), the plus reading
  `basesPlus`, validity, and the constructor's sort (`sortBlocks` / `mkCompoundLoc`).
-/
import BioCantor.Proofs.Common
namespace BioCantor.Proofs
open BioCantor BioCantor.Spec BioCantor.Model

/-! ### `sortNat` only depends on the multiset -/

theorem insertSorted_comm (x y : Nat) (l : List Nat) :
    insertSorted x (insertSorted y l) = insertSorted y (insertSorted x l) := by
  induction l with
  | nil =>
    simp only [insertSorted]
    by_cases h1 : x ≤ y <;> by_cases h2 : y ≤ x <;> simp [h1, h2] <;> omega
  | cons z zs ih =>
    simp only [insertSorted]
    by_cases h1 : x ≤ y <;> by_cases h2 : y ≤ x <;> by_cases h3 : x ≤ z <;> by_cases h4 : y ≤ z <;>
      simp [h1, h2, h3, h4, insertSorted, ih] <;> omega

theorem sortNat_perm {l1 l2 : List Nat} (h : l1.Perm l2) : sortNat l1 = sortNat l2 := by
  induction h with
  | nil => rfl
  | cons x _ ih => simp [sortNat, ih]
  | swap x y l => simp [sortNat, insertSorted_comm]
  | trans _ _ ih1 ih2 => exact ih1.trans ih2

/-! ### readings -/

theorem basesPlus_eq_flatMap (bs : List Blk) : basesPlus bs = bs.flatMap blkAsc := by
  induction bs with
  | nil => rfl
  | cons b bs ih => simp [basesPlus, ih]

theorem basesMinus_eq_flatMap (bs : List Blk) : basesMinus bs = bs.flatMap blkDesc := by
  induction bs with
  | nil => rfl
  | cons b bs ih => simp [basesMinus, ih]

theorem basesPlus_append (xs ys : List Blk) : basesPlus (xs ++ ys) = basesPlus xs ++ basesPlus ys := by
  simp [basesPlus_eq_flatMap]

theorem basesMinus_append (xs ys : List Blk) : basesMinus (xs ++ ys) = basesMinus xs ++ basesMinus ys := by
  simp [basesMinus_eq_flatMap]

theorem basesMinus_reverse (bs : List Blk) : basesMinus bs.reverse = (basesPlus bs).reverse := by
  induction bs with
  | nil => rfl
  | cons b bs ih => simp [basesMinus_append, basesMinus, basesPlus, ih, blkDesc]

theorem bases_mk (bs : List Blk) (st : Strand) :
    bases ⟨bs, st⟩ = if st = .minus then (basesPlus bs).reverse else basesPlus bs := by
  cases st <;> simp [bases, basesMinus_reverse]

theorem basesPlus_perm {xs ys : List Blk} (h : xs.Perm ys) : (basesPlus xs).Perm (basesPlus ys) := by
  simpa [basesPlus_eq_flatMap] using h.flatMap_right blkAsc

/-! ### validity -/

theorem blocksValid_iff (bs : List Blk) : blocksValid bs = true ↔ ∀ b ∈ bs, b.1 ≤ b.2 := by
  induction bs with
  | nil => simp [blocksValid]
  | cons b bs ih => simp [blocksValid, ih]

theorem blocksLen_reverse (bs : List Blk) : blocksLen bs.reverse = blocksLen bs := by
  have app : ∀ xs ys : List Blk, blocksLen (xs ++ ys) = blocksLen xs + blocksLen ys := by
    intro xs ys
    induction xs with
    | nil => simp [blocksLen]
    | cons x xs ih => simp [blocksLen, ih]; omega
  induction bs with
  | nil => rfl
  | cons b bs ih => simp [app, blocksLen, ih]; omega

/-! ### the constructor's order -/

theorem blkLe_trans (s : Strand) (a b c : Blk) : blkLe s a b = true → blkLe s b c = true → blkLe s a c = true := by
  cases s <;> simp [blkLe, blkLePlus, blkLeOther] <;> omega

theorem blkLe_total (s : Strand) (a b : Blk) : (blkLe s a b || blkLe s b a) = true := by
  cases s <;> simp [blkLe, blkLePlus, blkLeOther] <;> omega

theorem blkLe_antisymm (s : Strand) (a b : Blk) : blkLe s a b = true → blkLe s b a = true → a = b := by
  obtain ⟨a1, a2⟩ := a
  obtain ⟨b1, b2⟩ := b
  cases s <;> simp [blkLe, blkLePlus, blkLeOther] <;> omega

theorem blkLe_of_fst_lt (s : Strand) (a b : Blk) (h : a.1 < b.1) : blkLe s a b = true := by
  cases s <;> simp [blkLe, blkLePlus, blkLeOther, h]

theorem sortedBy_of_pairwise (le : Blk → Blk → Bool) (l : List Blk)
    (h : l.Pairwise (fun a b => le a b = true)) : sortedBy le l = true := by
  induction l with
  | nil => rfl
  | cons a t ih =>
    cases t with
    | nil => rfl
    | cons b r =>
      rw [List.pairwise_cons] at h
      simp [sortedBy, h.1 b (by simp), ih h.2]

theorem sortBlocks_perm (s : Strand) (bs : List Blk) : (sortBlocks s bs).Perm bs :=
  List.mergeSort_perm bs (blkLe s)

theorem sortBlocks_pairwise (s : Strand) (bs : List Blk) :
    (sortBlocks s bs).Pairwise (fun a b => blkLe s a b = true) :=
  List.pairwise_mergeSort (blkLe_trans s) (blkLe_total s) bs

theorem sortBlocks_ne_nil (s : Strand) {bs : List Blk} (h : bs ≠ []) : sortBlocks s bs ≠ [] := by
  intro h'
  have := List.length_mergeSort (le := blkLe s) bs
  unfold sortBlocks at h'
  rw [h'] at this
  exact h (List.length_eq_zero_iff.mp this.symm)

theorem sortBlocks_valid (s : Strand) {bs : List Blk} (h : ∀ b ∈ bs, b.1 ≤ b.2) :
    ∀ b ∈ sortBlocks s bs, b.1 ≤ b.2 := by
  intro b hb
  exact h b ((sortBlocks_perm s bs).mem_iff.mp hb)

/-- A sorted permutation of the input *is* the sorted list. -/
theorem sortBlocks_eq_of_perm_sorted (s : Strand) {bs cs : List Blk} (hp : cs.Perm bs)
    (hs : cs.Pairwise (fun a b => blkLe s a b = true)) : sortBlocks s bs = cs :=
  List.Perm.eq_of_pairwise (le := fun a b => blkLe s a b = true)
    (fun a b _ _ => blkLe_antisymm s a b) (sortBlocks_pairwise s bs) hs
    ((sortBlocks_perm s bs).trans hp.symm)

/-- Strictly increasing starts: already in constructor order for every strand. -/
theorem sortBlocks_of_fst_lt (s : Strand) {bs : List Blk} (h : bs.Pairwise (fun a b => a.1 < b.1)) :
    sortBlocks s bs = bs :=
  List.mergeSort_of_pairwise (h.imp (fun {a b} hab => blkLe_of_fst_lt s a b hab))

theorem canon_sortBlocks (s : Strand) {bs : List Blk} (hne : bs ≠ []) (hv : ∀ b ∈ bs, b.1 ≤ b.2) :
    Loc.Canon ⟨sortBlocks s bs, s⟩ :=
  ⟨sortBlocks_ne_nil s hne, (blocksValid_iff _).mpr (sortBlocks_valid s hv),
    sortedBy_of_pairwise _ _ (sortBlocks_pairwise s bs)⟩

theorem mkCompoundLoc_ok (s : Strand) {bs : List Blk} (hne : bs ≠ []) (hv : ∀ b ∈ bs, b.1 ≤ b.2) :
    mkCompoundLoc bs s = .ok ⟨sortBlocks s bs, s⟩ := by
  unfold mkCompoundLoc
  have h1 : bs.isEmpty = false := by simpa using hne
  have h2 : blocksValid (sortBlocks s bs) = true := (blocksValid_iff _).mpr (sortBlocks_valid s hv)
  simp [h1, h2]
  rfl

end BioCantor.Proofs
