/-
  Towards C05-T2: the cleaned location built by `_prepare_multi_exon_window_for_scan_codon_locations`
  (`cleaned_blocks` through `relative_interval_to_parent_location`, `CompoundInterval.from_single_intervals`)
  is well formed, non-overlapping, and reads exactly the kept positions; `_calculate_frame_offset` of a
  location against itself is 0.
-/
import BioCantor.Proofs.CDSScan
import BioCantor.Proofs.CDSConstructFrames
namespace BioCantor.Proofs
open BioCantor BioCantor.Model BioCantor.Spec

/-! ### a location against itself: offset 0 -/

theorem maxEnd_asc : ∀ (L : List Blk) (x : Blk), L.Pairwise (fun a b => a.2 ≤ b.1) → (∀ b ∈ L, b.1 ≤ b.2) →
    L.getLast? = some x → maxEnd L = x.2
  | [], _, _, _, h => by simp at h
  | [a], x, _, _, h => by simp at h; subst h; simp [maxEnd]
  | a :: b :: r, x, hp, hv, h => by
    have hl : (b :: r).getLast? = some x := by simpa [List.getLast?_cons_cons] using h
    have ih := maxEnd_asc (b :: r) x (List.pairwise_cons.mp hp).2 (fun y hy => hv y (by simp [hy])) hl
    simp only [maxEnd] at ih ⊢
    rw [ih]
    have hx : x ∈ b :: r := List.mem_of_getLast? hl
    have h1 := (List.pairwise_cons.mp hp).1 x hx
    have h2 := hv x (by simp [hx])
    omega

theorem frameOffset_self (c : CDS) (L : List Blk) (hne : L ≠ [])
    (hst : c.strand = .plus ∨ c.strand = .minus)
    (hp : L.Pairwise (fun a b => a.2 ≤ b.1)) (hpos : ∀ b ∈ L, b.1 < b.2) :
    calculateFrameOffset c (.compound ⟨L, c.strand⟩) (.compound ⟨L, c.strand⟩) = .ok 0 := by
  have hvl : ∀ b ∈ L, b.1 ≤ b.2 := fun b hb => Nat.le_of_lt (hpos b hb)
  have hv : blocksValid L = true := (blocksValid_iff L).2 hvl
  have hlenpos : 0 < blocksLen L := by
    cases L with
    | nil => exact absurd rfl hne
    | cons a t => have := hpos a (by simp); simp only [blocksLen, Blk.len]; omega
  -- the anchor maps to relative position 0
  have hrel : ∃ anchor : Nat,
      ((if c.strand = .plus then do let s ← locStart (.compound ⟨L, c.strand⟩); pure (s : Int)
        else do let e ← locEnd (.compound ⟨L, c.strand⟩); pure ((e : Int) - 1)) : R Int) = .ok (anchor : Int) ∧
      p2r (.compound ⟨L, c.strand⟩) (anchor : Int) = .ok 0 := by
    rcases hst with h | h
    · -- plus: the start of the first block
      cases hL : L with
      | nil => exact absurd hL hne
      | cons e B =>
        refine ⟨e.1, by simp [h, locStart, bind, Except.bind, pure, Except.pure], ?_⟩
        have := compoundP2R_at (e :: B) .plus (Or.inl rfl) (by rw [← hL]; exact hv) [] e B
          (by simp [scanOrder]) (by simp) e.1 ⟨Nat.le_refl _, hpos e (by rw [hL]; simp)⟩
        simp only [p2r, h]
        rw [this]; simp [blocksLen]
    · -- minus: the last position of the last block
      cases hL : L.reverse with
      | nil => simp at hL; exact absurd hL hne
      | cons e B =>
        have hlast : L.getLast? = some e := by
          rw [← List.head?_reverse, hL]; rfl
        have hmax := maxEnd_asc L e hp hvl hlast
        have hemem : e ∈ L := List.mem_of_getLast? hlast
        have hepos := hpos e hemem
        refine ⟨e.2 - 1, ?_, ?_⟩
        · have hem : L.isEmpty = false := by simpa using hne
          simp [h, locEnd, hem, hmax, bind, Except.bind, pure, Except.pure]
          omega
        · have := compoundP2R_at L .minus (Or.inr rfl) hv [] e B
            (by simp [scanOrder, hL]) (by simp) (e.2 - 1) (by omega)
          simp only [p2r, h]
          rw [this]; simp [blocksLen]
  obtain ⟨anchor, ha1, ha2⟩ := hrel
  obtain ⟨q, hq⟩ := compoundRel_zero L c.strand hst 0 .plus (by omega) hlenpos
  unfold calculateFrameOffset
  rw [ha1]
  simp only [bind, Except.bind, ha2, relInterval]
  have hq' : compoundRelInterval ⟨L, c.strand⟩ 0 0 .plus = .ok (.single (q, q) (strandRelativeTo .plus c.strand)) := by
    simpa using hq
  rw [hq']
  have hl0 : ((locLen (.single (q, q) (strandRelativeTo .plus c.strand)) : Nat) : Int) % 3 = (0 : Int) % 3 := by
    simp [locLen, Blk.len]
  simp only [hl0]
  have := phase_frame_offset 0
  simpa [bind, Except.bind, pure, Except.pure] using this

/-! ### the 5'→3' reading of ordered disjoint blocks is strictly monotone -/

/-- `a` precedes `b` in 5'→3' order on strand `st` -/
def Before (st : Strand) (a b : Blk) : Prop := if st = .plus then a.2 ≤ b.1 else b.2 ≤ a.1
/-- position order along the strand -/
def PosLt (st : Strand) (x y : Nat) : Prop := if st = .plus then x < y else y < x

theorem mem_rd (st : Strand) (b : Blk) (x : Nat) : x ∈ rd st b ↔ b.1 ≤ x ∧ x < b.2 := by
  unfold rd blkDesc blkAsc
  split <;> simp [List.mem_range'] <;> constructor
  · rintro ⟨i, hi, rfl⟩; omega
  · intro h; exact ⟨x - b.1, by omega, by omega⟩
  · rintro ⟨i, hi, rfl⟩; omega
  · intro h; exact ⟨x - b.1, by omega, by omega⟩

theorem rd_pairwise (st : Strand) (b : Blk) : (rd st b).Pairwise (PosLt st) := by
  unfold rd PosLt blkDesc blkAsc
  split
  · exact List.pairwise_lt_range'
  · simp only [List.pairwise_reverse]
    exact List.pairwise_lt_range'

theorem readScan_pairwise (st : Strand) : ∀ (es : List Blk), es.Pairwise (Before st) →
    (readScan st es).Pairwise (PosLt st)
  | [], _ => by simp
  | e :: es, hp => by
    rw [readScan_cons, List.pairwise_append]
    refine ⟨rd_pairwise st e, readScan_pairwise st es (List.pairwise_cons.mp hp).2, ?_⟩
    intro x hx y hy
    simp only [readScan, List.mem_flatMap] at hy
    obtain ⟨b, hb, hyb⟩ := hy
    have hbe := (List.pairwise_cons.mp hp).1 b hb
    rw [mem_rd] at hx hyb
    unfold Before at hbe
    unfold PosLt
    split <;> simp_all <;> omega

/-! ### two ordered slices of a list form a sublist -/

theorem two_slices_sublist {α} (xs : List α) (s1 n1 s2 n2 : Nat) (h : s1 + n1 ≤ s2) :
    ((xs.drop s1).take n1 ++ (xs.drop s2).take n2).Sublist xs := by
  have e1 : (xs.drop s1).take n1 = ((xs.take s2).drop s1).take n1 := by
    rw [List.drop_take, List.take_take]
    congr 1; omega
  rw [e1]
  conv => rhs; rw [← List.take_append_drop s2 xs]
  exact List.Sublist.append ((List.take_sublist _ _).trans (List.drop_sublist _ _)) (List.take_sublist _ _)

/-! ### the block denoted by a contiguous run -/

/-- the block whose 5'→3' reading on `st` is the (contiguous) run `xs` — proof-side only -/
def blkOfRun (st : Strand) (xs : List Nat) : Blk :=
  match xs.head?, xs.getLast? with
  | some a, some b => if st = .plus then (a, b + 1) else (b, a + 1)
  | _, _ => (0, 0)

theorem blkOfRun_rd (st : Strand) (x : Blk) (hx : x.1 < x.2) : blkOfRun st (rd st x) = x := by
  obtain ⟨k, hk⟩ : ∃ k, x.2 - x.1 = k + 1 := ⟨x.2 - x.1 - 1, by omega⟩
  unfold blkOfRun rd blkDesc blkAsc
  by_cases hp : st = .plus
  · simp only [hp, if_true, hk]
    rw [List.range'_succ]
    simp only [List.head?_cons]
    rw [← List.range'_succ, List.range'_concat]
    simp
    ext <;> simp <;> omega
  · simp only [hp, if_false, hk, List.head?_reverse, List.getLast?_reverse]
    rw [List.range'_succ]
    simp only [List.head?_cons]
    rw [← List.range'_succ, List.range'_concat]
    simp
    ext <;> simp <;> omega

/-! ### one cleaned entry → one block -/

theorem range_split : ∀ (es : List Blk) (fs : List CDSFrame) (A0 : List Blk) (r : Int × Int),
    r ∈ (relInput (blocksLen A0) ((es.map Blk.len).zip fs)).map (·.1) →
    ∃ A e B, A0 ++ es = A ++ e :: B ∧ r = (((blocksLen A : Nat) : Int), ((blocksLen A + e.len : Nat) : Int))
  | [], _, _, r, h => by simp [relInput] at h
  | _ :: _, [], _, r, h => by simp [relInput] at h
  | e :: es, f :: fs, A0, r, h => by
    simp only [List.map_cons, List.zip_cons_cons, relInput, List.mem_cons] at h
    rcases h with rfl | h
    · exact ⟨A0, e, es, rfl, rfl⟩
    · have ih := range_split es fs (A0 ++ [e]) r (by
        rw [blocksLen_append]; simpa [blocksLen] using h)
      obtain ⟨A, e', B, h1, h2⟩ := ih
      exact ⟨A, e', B, by simpa using h1, h2⟩

theorem slice_in_middle {α} (X Y Z : List α) (s n : Nat) (h1 : X.length ≤ s) (h2 : s + n ≤ X.length + Y.length) :
    ((X ++ (Y ++ Z)).drop s).take n = (Y.drop (s - X.length)).take n := by
  rw [List.drop_append, List.drop_of_length_le h1, List.nil_append,
    List.drop_append_of_le_length (by omega), List.take_append_of_le_length (by rw [List.length_drop]; omega)]

/-- the block a cleaned entry denotes -/
def entryBlk (bs : List Blk) (st : Strand) (p : Int × Int) : Blk := blkOfRun st (sliceOf (bases ⟨bs, st⟩) p)

theorem entry_block (bs : List Blk) (st : Strand) (hst : st = .plus ∨ st = .minus)
    (hv : ∀ b ∈ bs, b.1 ≤ b.2) (A : List Blk) (e : Blk) (B : List Blk) (hsplit : scanOrder st bs = A ++ e :: B)
    (p : Int × Int) (h1 : ((blocksLen A : Nat) : Int) ≤ p.1) (h2 : p.1 < p.2)
    (h3 : p.2 ≤ ((blocksLen A + e.len : Nat) : Int)) :
    compoundRelInterval ⟨bs, st⟩ p.1 p.2 .plus = .ok (.single (entryBlk bs st p) st) ∧
      rd st (entryBlk bs st p) = sliceOf (bases ⟨bs, st⟩) p ∧ (entryBlk bs st p).1 < (entryBlk bs st p).2 := by
  obtain ⟨s, hs⟩ : ∃ s : Nat, p.1 = (s : Int) := ⟨p.1.toNat, by omega⟩
  obtain ⟨t, ht⟩ : ∃ t : Nat, p.2 = (t : Int) := ⟨p.2.toNat, by omega⟩
  have hrel := compoundRel_within bs st hst A e B hsplit s t (by omega) (by omega) (by omega)
  generalize hx : subBlk st e (s - blocksLen A) (t - blocksLen A) = x at hrel
  have hin := subBlk_inside st e (s - blocksLen A) (t - blocksLen A) (by omega) (by omega)
  rw [hx] at hin
  -- the reading of the sub-block is the slice
  have hslice : rd st x = sliceOf (bases ⟨bs, st⟩) p := by
    rw [← hx, rd_subBlk st e _ _ (by omega) (by omega)]
    unfold sliceOf
    rw [bases_scanOrder bs st hst, hsplit, hs, ht]
    have hx2 : readScan st (A ++ e :: B) = readScan st A ++ (rd st e ++ readScan st B) := by simp [readScan]
    rw [hx2]
    simp only [Int.toNat_natCast]
    have e1 : ((t : Int) - (s : Int)).toNat = t - s := by omega
    rw [e1, slice_in_middle _ _ _ s (t - s) (by rw [length_readScan]; omega)
      (by rw [length_readScan, length_rd]; omega), length_readScan]
    congr 1; omega
  have hent : entryBlk bs st p = x := by
    unfold entryBlk; rw [← hslice]; exact blkOfRun_rd st x hin.2.1
  rw [hent]
  refine ⟨?_, hslice, hin.2.1⟩
  rw [hs, ht]; exact hrel

/-! ### the cleaned location -/

theorem mapM_ok_of_forall {α β} (f : α → R β) (g : α → β) : ∀ (l : List α), (∀ a ∈ l, f a = .ok (g a)) →
    l.mapM f = .ok (l.map g)
  | [], _ => rfl
  | a :: l, h => by
    simp only [List.mapM_cons, h a (by simp), mapM_ok_of_forall f g l (fun x hx => h x (by simp [hx])),
      bind, Except.bind, pure, Except.pure, List.map_cons]

theorem sliceOf_empty (xs : List Nat) (p : Int × Int) (h : p.2 = p.1) : sliceOf xs p = [] := by
  unfold sliceOf; rw [h]; simp

theorem flatten_filter_slices (xs : List Nat) : ∀ (l : List (Int × Int)),
    ((l.filter (fun p => p.2 ≠ p.1)).map (sliceOf xs)).flatten = (l.map (sliceOf xs)).flatten
  | [] => rfl
  | p :: l => by
    rw [List.filter_cons]
    split
    · simp only [List.map_cons, List.flatten_cons, flatten_filter_slices xs l]
    · rename_i h
      have hp : p.2 = p.1 := by simpa using h
      simp only [List.map_cons, List.flatten_cons, sliceOf_empty xs p hp, List.nil_append,
        flatten_filter_slices xs l]

theorem mapM_locStrand_singles (st : Strand) : ∀ (subs : List Blk),
    (subs.map (fun b => Location.single b st)).mapM locStrand = .ok (subs.map (fun _ => st))
  | [] => rfl
  | b :: subs => by
    simp only [List.map_cons, List.mapM_cons, locStrand, mapM_locStrand_singles st subs, bind, Except.bind,
      pure, Except.pure]

/-- `(interval.start, interval.end)` -/
def startEnd (l : Location) : R Blk := do let s ← locStart l; let e ← locEnd l; pure ((s, e) : Blk)

theorem startEnd_single (b : Blk) (st : Strand) : startEnd (.single b st) = .ok b := rfl

theorem mapM_startEnd_singles (st : Strand) : ∀ (subs : List Blk),
    (subs.map (fun b => Location.single b st)).mapM startEnd = .ok subs
  | [] => rfl
  | b :: subs => by
    simp only [List.map_cons, List.mapM_cons, startEnd_single, mapM_startEnd_singles st subs, bind, Except.bind,
      pure, Except.pure]

/-- `CompoundInterval.from_single_intervals` on single blocks of one strand -/
theorem fromSingleIntervals_singles (subs : List Blk) (st : Strand) (hne : subs ≠ [])
    (hv : ∀ b ∈ subs, b.1 ≤ b.2) :
    fromSingleIntervals (subs.map (fun b => Location.single b st)) = .ok ⟨sortBlocks st subs, st⟩ := by
  have hS := mapM_locStrand_singles st subs
  have hB := mapM_startEnd_singles st subs
  cases hs : subs with
  | nil => exact absurd hs hne
  | cons b0 rest =>
    rw [hs] at hS hB
    simp only [List.map_cons] at hS hB ⊢
    show (do
      let st0 ← locStrand (Location.single b0 st)
      let sts ← (Location.single b0 st :: rest.map (fun b => Location.single b st)).mapM locStrand
      if sts.any (· ≠ st0) then throw Err.ValueError
      let blocks ← (Location.single b0 st :: rest.map (fun b => Location.single b st)).mapM startEnd
      mkCompoundLoc blocks st0 : R Loc) = _
    rw [hS, hB]
    have hany : ((st :: rest.map (fun _ => st)).any (fun x => decide (x ≠ st))) = false := by simp
    simp only [locStrand, bind, Except.bind, pure, Except.pure, hany, Bool.false_eq_true, if_false]
    rw [← hs]
    exact mkCompoundLoc_ok st hne hv

/-- blocks in 5'→3' order on `st`, sorted by the constructor -/
theorem sort_scan (st : Strand) (hst : st = .plus ∨ st = .minus) (subs : List Blk)
    (hp : subs.Pairwise (Before st)) (hpos : ∀ b ∈ subs, b.1 < b.2) :
    scanOrder st (sortBlocks st subs) = subs ∧ (sortBlocks st subs).Pairwise (fun a b => a.2 ≤ b.1) := by
  rcases hst with h | h
  · subst h
    have hp' : subs.Pairwise (fun a b => a.2 ≤ b.1) := hp.imp (fun h => by simpa [Before] using h)
    have := sortBlocks_of_fst_lt .plus (fst_lt_of_asc subs hp' hpos)
    rw [this]; exact ⟨by simp [scanOrder], hp'⟩
  · subst h
    have hp' : subs.reverse.Pairwise (fun a b => a.2 ≤ b.1) := by
      rw [List.pairwise_reverse]; exact hp.imp (fun h => by simpa [Before] using h)
    have hlt := fst_lt_of_asc subs.reverse hp' (fun a ha => hpos a (List.mem_reverse.mp ha))
    have : sortBlocks .minus subs = subs.reverse :=
      sortBlocks_eq_of_perm_sorted _ (List.reverse_perm subs) (fst_lt_blkLe _ _ hlt)
    rw [this]; exact ⟨by simp [scanOrder], hp'⟩

theorem cleanedLocation_ok (bs : List Blk) (st : Strand) (hst : st = .plus ∨ st = .minus)
    (hv : ∀ b ∈ bs, b.1 ≤ b.2) (hord : (scanOrder st bs).Pairwise (Before st))
    (fs5 : List CDSFrame) (stt : CleanSt) (T : Int)
    (hvalid : ∀ p ∈ stt.cleanedRev, 0 ≤ p.1 ∧ p.1 ≤ p.2)
    (hchain : Chain T stt.cleanedRev)
    (hwithin : AllWithin ((relInput 0 (((scanOrder st bs).map Blk.len).zip fs5)).map (·.1)) stt.cleanedRev)
    (hne : (stt.cleanedRev.reverse.map (sliceOf (bases ⟨bs, st⟩))).flatten ≠ []) :
    ∃ L, cleanedLocation ⟨bs, st⟩ stt = .ok ⟨L, st⟩ ∧ L ≠ [] ∧ (∀ b ∈ L, b.1 < b.2) ∧
      L.Pairwise (fun a b => a.2 ≤ b.1) ∧
      bases ⟨L, st⟩ = (stt.cleanedRev.reverse.map (sliceOf (bases ⟨bs, st⟩))).flatten := by
  generalize hE : stt.cleanedRev.reverse.filter (fun p => p.2 ≠ p.1) = E
  have hEmem : ∀ p ∈ E, p ∈ stt.cleanedRev ∧ p.2 ≠ p.1 := by
    intro p hp; rw [← hE] at hp
    simp only [List.mem_filter, List.mem_reverse, decide_eq_true_eq] at hp
    exact hp
  -- every entry is a stretch inside one exon
  have hent : ∀ p ∈ E,
      compoundRelInterval ⟨bs, st⟩ p.1 p.2 .plus = .ok (.single (entryBlk bs st p) st) ∧
      rd st (entryBlk bs st p) = sliceOf (bases ⟨bs, st⟩) p ∧ (entryBlk bs st p).1 < (entryBlk bs st p).2 := by
    intro p hp
    obtain ⟨hm, hnz⟩ := hEmem p hp
    obtain ⟨r, hr, hr1, hr2⟩ := hwithin p hm
    have hr' : r ∈ (relInput (blocksLen []) (((scanOrder st bs).map Blk.len).zip fs5)).map (·.1) := by
      simpa [blocksLen] using hr
    obtain ⟨A, e, B, hsplit, hreq⟩ := range_split (scanOrder st bs) fs5 [] r hr'
    simp only [List.nil_append] at hsplit
    have hvp := hvalid p hm
    subst hreq
    exact entry_block bs st hst hv A e B hsplit p hr1 (by omega) hr2
  generalize hsubs : E.map (entryBlk bs st) = subs
  -- E is not empty
  have hEne : E ≠ [] := by
    intro h0
    apply hne
    rw [← flatten_filter_slices, hE, h0]; rfl
  have hsne : subs ≠ [] := by rw [← hsubs]; simpa using hEne
  have hspos : ∀ b ∈ subs, b.1 < b.2 := by
    intro b hb; rw [← hsubs] at hb
    obtain ⟨p, hp, rfl⟩ := List.mem_map.mp hb
    exact (hent p hp).2.2
  -- order of the blocks
  have hbp : (bases ⟨bs, st⟩).Pairwise (PosLt st) := by
    rw [bases_scanOrder bs st hst]; exact readScan_pairwise st _ hord
  have hEpw : E.Pairwise (fun a b => a.2 ≤ b.1) := by
    rw [← hE]
    exact (chain_pairwise stt.cleanedRev T hchain (fun p hp => (hvalid p hp).2)).sublist List.filter_sublist
  have hsubpw : subs.Pairwise (Before st) := by
    rw [← hsubs, List.pairwise_map]
    refine hEpw.imp_of_mem ?_
    intro p q hp hq hpq
    obtain ⟨_, hp2, hp3⟩ := hent p hp
    obtain ⟨_, hq2, hq3⟩ := hent q hq
    have hvp := hvalid p (hEmem p hp).1
    have hvq := hvalid q (hEmem q hq).1
    have hsub := two_slices_sublist (bases ⟨bs, st⟩) p.1.toNat (p.2 - p.1).toNat q.1.toNat (q.2 - q.1).toNat (by omega)
    have hcross := (List.pairwise_append.mp (hbp.sublist hsub)).2.2
    have hx : ∀ a ∈ rd st (entryBlk bs st p), ∀ b ∈ rd st (entryBlk bs st q), PosLt st a b := by
      intro a ha b hb
      rw [hp2] at ha; rw [hq2] at hb
      exact hcross a ha b hb
    unfold Before
    rcases hst with h | h
    · subst h
      have := hx ((entryBlk bs .plus p).2 - 1) ((mem_rd _ _ _).2 (by omega)) (entryBlk bs .plus q).1
        ((mem_rd _ _ _).2 (by omega))
      simp only [PosLt, if_true] at this ⊢
      omega
    · subst h
      have := hx (entryBlk bs .minus p).1 ((mem_rd _ _ _).2 (by omega)) ((entryBlk bs .minus q).2 - 1)
        ((mem_rd _ _ _).2 (by omega))
      simp only [PosLt, show (Strand.minus = Strand.plus) = False by simp, if_false] at this ⊢
      omega
  obtain ⟨hscan, hLpw⟩ := sort_scan st hst subs hsubpw hspos
  refine ⟨sortBlocks st subs, ?_, sortBlocks_ne_nil st hsne, ?_, hLpw, ?_⟩
  · -- the model's computation
    unfold cleanedLocation
    simp only [hE]
    rw [mapM_ok_of_forall _ (fun p => Location.single (entryBlk bs st p) st) E (fun p hp => (hent p hp).1)]
    simp only [bind, Except.bind]
    have hmm : E.map (fun p => Location.single (entryBlk bs st p) st) =
        (E.map (entryBlk bs st)).map (fun b => Location.single b st) := by
      rw [List.map_map]; rfl
    rw [hmm, hsubs]
    exact fromSingleIntervals_singles subs st hsne (fun b hb => Nat.le_of_lt (hspos b hb))
  · intro b hb
    exact hspos b ((sortBlocks_perm st subs).mem_iff.mp hb)
  · rw [bases_scanOrder _ st hst, hscan, ← flatten_filter_slices, hE, ← hsubs]
    simp only [readScan, List.flatMap, List.map_map]
    congr 1
    apply List.map_congr_left
    intro p hp
    exact (hent p hp).2.1

end BioCantor.Proofs
