/- C13-T2: clauses of the single-interval lift kernel, stated about the GENERATED definition. -/
import BioCantor.Gen.Kernels
namespace BioCantor.Proofs.Var
open BioCantor BioCantor.GenP BioCantor.Gen

abbrev liftK := VariantInterval_lift_over_chromosome_location_single_interval

/-- a variant: at least one reference base, non-negative coordinates and alt length -/
def VarOk (v : VI) : Prop := 0 ≤ v.vstart ∧ v.vstart < v.vend ∧ 0 ≤ v.seqLen
/-- a non-empty block -/
def BlkOk (b : SI) : Prop := 0 ≤ b.start ∧ b.start < b.«end»

/-- δ = |alt| − (ve − vs) -/
def delta (v : VI) : Int := v.seqLen - (v.vend - v.vstart)

/-- the recipe: unfold the generated kernel, split every `if`/`match`, settle each leaf by linear arithmetic -/
macro "kernel_cases" : tactic => `(tactic| (
  unfold liftK VariantInterval_lift_over_chromosome_location_single_interval
    VariantInterval_length_difference_val VariantInterval_length_difference mkSI
  try unfold delta
  try simp only [ge_iff_le]
  repeat' split
  all_goals (try rfl)
  all_goals (try omega)
  all_goals (
    rename_i heq
    try simp only [Int.max_def] at heq
    repeat' split at heq
    all_goals first
      | omega
      | (simp only [reduceCtorEq] at heq)
      | (simp only [Except.ok.injEq] at heq
         subst heq
         simp only [Except.ok.injEq, Option.some.injEq, SI.mk.injEq, and_true, true_and]
         try omega))))

/-- T2a: variant wholly inside the block ⇒ `[bs, be + δ)` — unless the block IS the variant interval and the
    alt is empty (next theorem). -/
theorem k_inside (v : VI) (b : SI) (hv : VarOk v) (hb : BlkOk b)
    (h1 : b.start ≤ v.vstart) (h2 : v.vend ≤ b.«end»)
    (hne : ¬ (b.start = v.vstart ∧ b.«end» = v.vend ∧ v.seqLen = 0)) :
    liftK v b = .ok (some ⟨b.start, b.«end» + delta v, b.strand⟩) := by
  obtain ⟨hv1, hv2, hv3⟩ := hv
  obtain ⟨hb1, hb2⟩ := hb
  kernel_cases

/-- T2a': the block equal to the variant interval with an empty alt is deleted (EmptyLocation) -/
theorem k_exact_deletion (v : VI) (b : SI) (hv : VarOk v) (hb : BlkOk b)
    (h1 : b.start = v.vstart) (h2 : b.«end» = v.vend) (h0 : v.seqLen = 0) :
    liftK v b = .ok none := by
  obtain ⟨hv1, hv2, hv3⟩ := hv
  obtain ⟨hb1, hb2⟩ := hb
  kernel_cases

/-- T2b: variant wholly left of the block ⇒ the block is shifted by δ -/
theorem k_left (v : VI) (b : SI) (hv : VarOk v) (hb : BlkOk b) (h : v.vend ≤ b.start) :
    liftK v b = .ok (some ⟨b.start + delta v, b.«end» + delta v, b.strand⟩) := by
  obtain ⟨hv1, hv2, hv3⟩ := hv
  obtain ⟨hb1, hb2⟩ := hb
  kernel_cases

/-- T2c: variant wholly right of the block ⇒ unchanged -/
theorem k_right (v : VI) (b : SI) (hv : VarOk v) (hb : BlkOk b) (h : b.«end» ≤ v.vstart) :
    liftK v b = .ok (some b) := by
  obtain ⟨hv1, hv2, hv3⟩ := hv
  obtain ⟨hb1, hb2⟩ := hb
  obtain ⟨bs, be, st⟩ := b
  simp only at hb1 hb2 h
  kernel_cases

/-- T2d: block wholly inside the deleted part `[vs + |alt|, ve)` of a length-reducing variant ⇒ EmptyLocation -/
theorem k_in_deleted (v : VI) (b : SI) (hv : VarOk v) (hb : BlkOk b) (hd : delta v < 0)
    (h1 : v.vstart + v.seqLen ≤ b.start) (h2 : b.«end» ≤ v.vend) :
    liftK v b = .ok none := by
  obtain ⟨hv1, hv2, hv3⟩ := hv
  obtain ⟨hb1, hb2⟩ := hb
  unfold delta at hd
  kernel_cases

/-- T2e: a variant that does not change the length leaves every block where it is -/
theorem k_same_length (v : VI) (b : SI) (hd : delta v = 0) (h0 : 0 ≤ b.start) (h1 : b.start ≤ b.«end») :
    liftK v b = .ok (some b) := by
  unfold delta at hd
  obtain ⟨bs, be, st⟩ := b
  simp only at h0 h1
  kernel_cases

/-- the kernel never raises on a non-empty block that is clean w.r.t. the variant, and the only exception it can
    raise at all is `SingleInterval`'s InvalidPositionException -/
theorem k_error_kind (v : VI) (b : SI) (e : PyExc) (h : liftK v b = .error e) : e = .InvalidPositionException := by
  revert h
  unfold liftK VariantInterval_lift_over_chromosome_location_single_interval mkSI
  simp only [ge_iff_le]
  repeat' split
  all_goals (intro h; first | (simp only [reduceCtorEq] at h) | skip)
  all_goals (
    rename_i heq
    repeat' split at heq
    all_goals first
      | (simp only [reduceCtorEq] at heq)
      | (simp only [Except.error.injEq] at heq h; subst heq; exact h.symm))

-- non-vacuity
example : VarOk ⟨2, 6, 2⟩ ∧ BlkOk ⟨15, 24, .plus⟩ ∧ (6 : Int) ≤ 15 := by unfold VarOk BlkOk; decide
example : liftK ⟨2, 6, 2⟩ ⟨15, 24, .plus⟩ = .ok (some ⟨13, 22, .plus⟩) := by rfl
example : liftK ⟨2, 6, 0⟩ ⟨2, 6, .minus⟩ = .ok none := by rfl

end BioCantor.Proofs.Var
