/-
  C12 — T3 at the level of the three `_extract_seqfeatures_from_seqrecords` + grouping pipelines and of the whole
  parse: on tagged chains that are a fixed point of the parser's own position sort, Sorted, LocusTag and Hybrid
  produce the same groups, hence the same gene models.
-/
import BioCantor.Proofs.GbGroup
namespace BioCantor.Proofs.Gb
open BioCantor BioCantor.Spec.Qual BioCantor.Spec.Gb BioCantor.Model.Gb

theorem filter_id {α} (l : List α) (p : α → Bool) (h : ∀ a ∈ l, p a = true) : l.filter p = l :=
  List.filter_eq_self.mpr h

theorem filter_none {α} (l : List α) (p : α → Bool) (h : ∀ a ∈ l, p a = false) : l.filter p = [] := by
  rw [List.filter_eq_nil_iff]
  intro a ha
  rw [h a ha]; simp

theorem isGeneLike_of_gene (r : Rec) (h : isGeneT r = true) : isGeneLike r = true := by
  unfold isGeneT at h
  have : r.type = tyGene := by simpa using h
  unfold isGeneLike; rw [this]; decide

theorem isGeneLike_of_member (r : Rec) (h : IsCodingMember r ∨ nonCodingTypes.contains r.type = true) :
    isGeneLike r = true := by
  unfold isGeneLike
  rcases h with (h | h) | h
  · rw [h]; decide
  · rw [h]; decide
  · have hm : r.type ∈ nonCodingTypes := by simpa using h
    simp only [nonCodingTypes, List.mem_cons, List.not_mem_nil, or_false] at hm
    rcases hm with h | h | h | h | h <;> (rw [h]; decide)

theorem mem_chain_cases (ch : List Rec) (hc : IsChain ch) (r : Rec) (hr : r ∈ ch) :
    isGeneT r = true ∨ IsCodingMember r ∨ nonCodingTypes.contains r.type = true := by
  cases hch : ch with
  | nil => exact absurd hch hc.ne
  | cons g rest =>
    rw [hch] at hr
    rcases List.mem_cons.mp hr with rfl | hr
    · exact Or.inl (hc.head r (by rw [hch]; rfl))
    · have hrest : ChainRest rest := by have := hc.rest; rw [hch] at this; exact this
      rcases hrest with h | ⟨x, rfl, hx⟩
      · exact Or.inr (Or.inl (h r hr))
      · simp only [List.mem_singleton] at hr
        rw [hr]; exact Or.inr (Or.inr hx)

theorem isGeneLike_chain (ch : List Rec) (hc : IsChain ch) (r : Rec) (hr : r ∈ ch) : isGeneLike r = true := by
  rcases mem_chain_cases ch hc r hr with h | h | h
  · exact isGeneLike_of_gene r h
  · exact isGeneLike_of_member r (Or.inl h)
  · exact isGeneLike_of_member r (Or.inr h)

theorem hasKey_of_tag (r : Rec) (t : Str) (h : Model.Gb.tagOf r = .ok t) : hasKey Model.Gb.kLocusTag r.quals = true := by
  unfold Model.Gb.tagOf at h
  unfold hasKey
  cases hq : qGet Model.Gb.kLocusTag r.quals with
  | none => rw [hq] at h; exact absurd h (by simp [throw, throwThe, MonadExceptOf.throw])
  | some v => rfl

/-- records of a list of tagged chains -/
def recsOf (tch : List (Str × List Rec)) : List Rec := (tch.map (·.2)).flatten

theorem mem_recsOf {tch : List (Str × List Rec)} {r : Rec} (h : r ∈ recsOf tch) : ∃ p ∈ tch, r ∈ p.2 := by
  unfold recsOf at h
  obtain ⟨ch, hch, hr⟩ := List.mem_flatten.mp h
  obtain ⟨p, hp, rfl⟩ := List.mem_map.mp hch
  exact ⟨p, hp, hr⟩

/-! ### no locus-tag collision among chains -/

theorem gene_count_chain (ch : List Rec) (hc : IsChain ch) : (ch.filter isGeneT).length ≤ 1 := by
  cases hch : ch with
  | nil => simp
  | cons g rest =>
    have hrest : ChainRest rest := by have := hc.rest; rw [hch] at this; exact this
    have hmem := members_of_chainRest rest hrest
    have hnogene : rest.filter isGeneT = [] := by
      rw [List.filter_eq_nil_iff]
      intro r hr
      rcases hmem r hr with ⟨hk, _, _⟩ | ⟨hk, _, _⟩ <;>
        (intro hgr; rw [kindOf_eq, hgr] at hk; simp at hk)
    rw [List.filter_cons]
    split <;> simp [hnogene]

theorem tag_gene_count : ∀ (tch : List (Str × List Rec)), TaggedChains tch → ∀ (t : Str),
    ((pairsOf tch).filter fun q => decide (q.1 = t) && q.2.type == tyGene).length ≤ 1
  | [], _, _ => by simp [pairsOf]
  | p :: tch, h, t => by
    have htail : TaggedChains tch :=
      ⟨fun q hq => h.chains q (List.mem_cons_of_mem _ hq), fun q hq => h.tags q (List.mem_cons_of_mem _ hq),
       (List.pairwise_cons.mp (by have := h.ascending; rwa [List.map_cons] at this)).2⟩
    have hlt : ∀ a' ∈ tch.map (·.1), strLt p.1 a' = true :=
      (List.pairwise_cons.mp (by have := h.ascending; rwa [List.map_cons] at this)).1
    have hsplit : pairsOf (p :: tch) = p.2.map (fun r => (p.1, r)) ++ pairsOf tch := by simp [pairsOf]
    rw [hsplit, List.filter_append, List.length_append]
    by_cases hpt : p.1 = t
    · -- the other chains carry other tags
      have hrest : (pairsOf tch).filter (fun q => decide (q.1 = t) && q.2.type == tyGene) = [] := by
        apply filter_none
        intro q hq
        unfold pairsOf at hq
        obtain ⟨p', hp', hq'⟩ := List.mem_flatMap.mp hq
        obtain ⟨r, _, rfl⟩ := List.mem_map.mp hq'
        have : p'.1 ≠ t := by
          rw [← hpt]
          exact (ne_of_strLt _ _ (hlt p'.1 (List.mem_map.mpr ⟨p', hp', rfl⟩))).symm
        simp [this]
      rw [hrest, List.length_nil, Nat.add_zero]
      have : (p.2.map (fun r => (p.1, r))).filter (fun q => decide (q.1 = t) && q.2.type == tyGene) =
          (p.2.filter isGeneT).map (fun r => (p.1, r)) := by
        rw [List.filter_map]
        congr 1
        apply List.filter_congr
        intro r _
        simp [hpt, isGeneT]
      rw [this, List.length_map]
      exact gene_count_chain p.2 (h.chains p List.mem_cons_self)
    · have hthis : (p.2.map (fun r => (p.1, r))).filter (fun q => decide (q.1 = t) && q.2.type == tyGene) = [] := by
        apply filter_none
        intro q hq
        obtain ⟨r, _, rfl⟩ := List.mem_map.mp hq
        simp [hpt]
      rw [hthis, List.length_nil, Nat.zero_add]
      exact tag_gene_count tch htail t

theorem badTags_chains (tch : List (Str × List Rec)) (h : TaggedChains tch) : badTags (pairsOf tch) = [] := by
  unfold badTags
  rw [List.map_eq_nil_iff]
  apply filter_none
  intro p _
  have := tag_gene_count tch h p.1
  have hfalse : decide (((pairsOf tch).filter fun q => decide (q.1 = p.1) && q.2.type == tyGene).length > 1) = false := by
    simp only [decide_eq_false_iff_not]; omega
  rw [hfalse, Bool.and_false]

end BioCantor.Proofs.Gb

namespace BioCantor.Proofs.Gb
open BioCantor BioCantor.Spec.Qual BioCantor.Spec.Gb BioCantor.Model.Gb

/-- hypotheses of T3 on the record list: tagged chains, every record passes `validate_seqfeature`, and the list is a
    fixed point of the parser's own position/type sort -/
structure ModesInput (tch : List (Str × List Rec)) : Prop where
  tagged : TaggedChains tch
  valid : ∀ r ∈ recsOf tch, validFeature r = true
  sorted : sortByPositionAndType (recsOf tch) = recsOf tch

def chainGroups (tch : List (Str × List Rec)) : List GGroup := tch.map fun p => classifyGroup p.2

theorem geneLike_all (tch : List (Str × List Rec)) (h : TaggedChains tch) : ∀ r ∈ recsOf tch, isGeneLike r = true := by
  intro r hr
  obtain ⟨p, hp, hrp⟩ := mem_recsOf hr
  exact isGeneLike_chain p.2 (h.chains p hp) r hrp

theorem hasKey_all (tch : List (Str × List Rec)) (h : TaggedChains tch) :
    ∀ r ∈ recsOf tch, hasKey Model.Gb.kLocusTag r.quals = true := by
  intro r hr
  obtain ⟨p, hp, hrp⟩ := mem_recsOf hr
  exact hasKey_of_tag r p.1 (h.tags p hp r hrp)

theorem extractSorted_chains (tch : List (Str × List Rec)) (h : ModesInput tch) :
    extractSorted (recsOf tch) = ⟨chainGroups tch, 0⟩ := by
  unfold extractSorted
  simp only []
  rw [filter_id _ _ h.valid, filter_id _ _ (geneLike_all tch h.tagged), h.sorted]
  have hrest : (recsOf tch).filter (fun r => !isGeneLike r && r.type != tySource) = [] := by
    apply filter_none
    intro r hr
    rw [geneLike_all tch h.tagged r hr]; rfl
  rw [hrest]
  show (⟨groupByPosition (recsOf tch), 0⟩ : Extracted) = _
  rw [show recsOf tch = (tch.map (·.2)).flatten from rfl, groupByPosition_chains tch h.tagged]
  rfl

theorem extractLocusTag_chains (tch : List (Str × List Rec)) (h : ModesInput tch) :
    extractLocusTag (recsOf tch) = .ok ⟨chainGroups tch, 0⟩ := by
  unfold extractLocusTag
  simp only []
  rw [filter_id _ _ h.valid]
  have hg : (recsOf tch).filter (fun r => isGeneLike r && hasKey Model.Gb.kLocusTag r.quals) = recsOf tch := by
    apply filter_id
    intro r hr
    rw [geneLike_all tch h.tagged r hr, hasKey_all tch h.tagged r hr]; rfl
  have hrest : (recsOf tch).filter
      (fun r => !(isGeneLike r && hasKey Model.Gb.kLocusTag r.quals) && r.type != tySource) = [] := by
    apply filter_none
    intro r hr
    rw [geneLike_all tch h.tagged r hr, hasKey_all tch h.tagged r hr]; rfl
  rw [hg, hrest]
  rw [show recsOf tch = (tch.map (·.2)).flatten from rfl, groupByLocusTag_chains tch h.tagged]
  rfl

theorem extractHybrid_chains (tch : List (Str × List Rec)) (h : ModesInput tch) :
    extractHybrid (recsOf tch) = .ok ⟨chainGroups tch, 0⟩ := by
  unfold extractHybrid
  simp only []
  rw [filter_id _ _ h.valid]
  have hg : (recsOf tch).filter (fun r => isGeneLike r && hasKey Model.Gb.kLocusTag r.quals) = recsOf tch := by
    apply filter_id
    intro r hr
    rw [geneLike_all tch h.tagged r hr, hasKey_all tch h.tagged r hr]; rfl
  have hu : (recsOf tch).filter (fun r => isGeneLike r && !hasKey Model.Gb.kLocusTag r.quals) = [] := by
    apply filter_none
    intro r hr
    rw [geneLike_all tch h.tagged r hr, hasKey_all tch h.tagged r hr]; rfl
  have hrest : (recsOf tch).filter (fun r => !isGeneLike r && r.type != tySource) = [] := by
    apply filter_none
    intro r hr
    rw [geneLike_all tch h.tagged r hr]; rfl
  rw [hg, hu, hrest]
  rw [show recsOf tch = (tch.map (·.2)).flatten from rfl, tagPairs_chains tch h.tagged.tags]
  simp only [bind, Except.bind, sortPairs_chains tch h.tagged.ascending, badTags_chains tch h.tagged]
  have hgood : (pairsOf tch).filter (fun p => !([] : List Str).contains p.1) = pairsOf tch := by
    apply filter_id; intro p _; rfl
  have hbad : (pairsOf tch).filter (fun p => ([] : List Str).contains p.1) = [] := by
    apply filter_none; intro p _; rfl
  rw [hgood, hbad]
  have hpos : groupByPosition (sortByPositionAndType ([] ++ List.map (fun x => x.2) ([] : List TRec))) = [] := by
    simp [sortByPositionAndType, groupByPosition, groupSortedByType, groupByTypeAux]
  rw [hpos]
  unfold groupTagOrdered
  rw [groupRuns_chains tch (fun p hp => (h.tagged.chains p hp).ne) h.tagged.ascending,
    processRuns_chains tch h.tagged.chains]
  rfl

/-- **T3**: the three strategies extract the same groups (and no feature-collection leftovers) -/
theorem extract_modes_agree (tch : List (Str × List Rec)) (h : ModesInput tch) (m : Mode) :
    extract m (recsOf tch) = .ok ⟨chainGroups tch, 0⟩ := by
  cases m with
  | sorted => simp only [extract, pure, Except.pure]; rw [extractSorted_chains tch h]
  | locusTag => exact extractLocusTag_chains tch h
  | hybrid => exact extractHybrid_chains tch h

/-- consequently the whole parse does not depend on the strategy -/
theorem parse_modes_agree (rule : ParserRule) (tch : List (Str × List Rec)) (h : ModesInput tch) (m m' : Mode) :
    parseModelWith rule m (recsOf tch) = parseModelWith rule m' (recsOf tch) := by
  unfold parseModelWith
  rw [extract_modes_agree tch h m, extract_modes_agree tch h m']

end BioCantor.Proofs.Gb
