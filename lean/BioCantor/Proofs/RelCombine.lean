/-
  `_combine_blocks` with `preserve = true` (`combineLoop true`): accumulator-free description `comb`,
  and what it preserves (the plus reading, increasing starts) / establishes (`normalBlocks`).
-/
import BioCantor.Proofs.RelBasics
namespace BioCantor.Proofs
open BioCantor BioCantor.Spec BioCantor.Model

/-- `comb c bs`: `c` is the block currently being extended, `bs` the blocks still to be read. -/
def comb : Blk → List Blk → List Blk
  | c, [] => [c]
  | c, b :: bs =>
    if b.2 - b.1 = 0 then comb c bs
    else if c.2 = b.1 then comb (c.1, max c.2 b.2) bs
    else c :: comb b bs

def combStart : List Blk → List Blk
  | [] => []
  | b :: bs => if b.2 - b.1 = 0 then combStart bs else comb b bs

theorem combineLoop_cons (bs : List Blk) (c : Blk) (tl : List Blk) (nd : Bool) :
    (combineLoop true bs (some c.2) (c :: tl) nd).1 = tl.reverse ++ comb c bs := by
  induction bs generalizing c tl nd with
  | nil => simp [combineLoop, comb]
  | cons b bs ih =>
    unfold combineLoop comb
    by_cases h0 : b.2 - b.1 = 0
    · simp only [h0, if_true]
      exact ih c tl true
    · simp only [h0, if_false, if_true]
      by_cases h1 : c.2 = b.1
      · simp only [h1, if_true]
        have := ih (c.1, max c.2 b.2) tl true
        simpa [h1] using this
      · simp only [h1, if_false]
        have := ih b (c :: tl) nd
        simpa using this

theorem combineLoop_nil (bs : List Blk) (cur : Option Nat) (nd : Bool) :
    (combineLoop true bs cur [] nd).1 = combStart bs := by
  induction bs generalizing cur nd with
  | nil => simp [combineLoop, combStart]
  | cons b bs ih =>
    unfold combineLoop combStart
    by_cases h0 : b.2 - b.1 = 0
    · simp only [h0, if_true]
      exact ih cur true
    · simp only [h0, if_false]
      have := combineLoop_cons bs b [] nd
      cases cur <;> simpa using this

theorem combineLoop_needs_true (p : Bool) (bs : List Blk) (cur : Option Nat) (acc : List Blk) :
    (combineLoop p bs cur acc true).2 = true := by
  induction bs generalizing cur acc with
  | nil => simp [combineLoop]
  | cons b bs ih =>
    unfold combineLoop
    by_cases h0 : b.2 - b.1 = 0
    · simp only [h0, if_true]
      exact ih _ _
    · simp only [h0, if_false]
      cases cur with
      | none => exact ih _ _
      | some ce =>
        cases acc with
        | nil => exact ih _ _
        | cons last accTail =>
          dsimp only
          by_cases hcomb : (if p = true then ce = b.1 else ce ≥ b.1)
          · rw [if_pos hcomb]; exact ih _ _
          · rw [if_neg hcomb]; exact ih _ _

/-- "nothing needed combining" really means the list is returned unchanged. -/
theorem combineLoop_needs_false (p : Bool) (bs : List Blk) (cur : Option Nat) (acc : List Blk) (nd : Bool)
    (h : (combineLoop p bs cur acc nd).2 = false) :
    (combineLoop p bs cur acc nd).1 = acc.reverse ++ bs := by
  induction bs generalizing cur acc nd with
  | nil => simp [combineLoop]
  | cons b bs ih =>
    unfold combineLoop at h ⊢
    by_cases h0 : b.2 - b.1 = 0
    · simp only [h0, if_true] at h
      rw [combineLoop_needs_true] at h; cases h
    · simp only [h0, if_false] at h ⊢
      cases cur with
      | none => simpa using ih _ _ _ h
      | some ce =>
        cases acc with
        | nil => simpa using ih _ _ _ h
        | cons last accTail =>
          dsimp only at h ⊢
          by_cases hcomb : (if p = true then ce = b.1 else ce ≥ b.1)
          · rw [if_pos hcomb, combineLoop_needs_true] at h; cases h
          · rw [if_neg hcomb] at h ⊢
            simpa using ih _ _ _ h

/-! ### properties of `comb` -/

theorem comb_head (c : Blk) (bs : List Blk) (hc : c.1 < c.2) :
    ∃ e rest, comb c bs = (c.1, e) :: rest ∧ c.1 < e := by
  induction bs generalizing c with
  | nil => exact ⟨c.2, [], rfl, hc⟩
  | cons b bs ih =>
    unfold comb
    split
    · exact ih c hc
    · split
      · have := ih (c.1, max c.2 b.2) (by simp; omega)
        simpa using this
      · exact ⟨c.2, _, rfl, hc⟩

theorem comb_normal (c : Blk) (bs : List Blk) (hc : c.1 < c.2) : normalBlocks (comb c bs) = true := by
  induction bs generalizing c with
  | nil => simp [comb, normalBlocks, hc]
  | cons b bs ih =>
    unfold comb
    split
    · exact ih c hc
    · split
      · exact ih (c.1, max c.2 b.2) (by simp; omega)
      · rename_i h0 h1
        have hb : b.1 < b.2 := by omega
        obtain ⟨e, rest, he, _⟩ := comb_head b bs hb
        have := ih b hb
        rw [he] at this ⊢
        simp [normalBlocks, hc, h1, this]

theorem blkAsc_merge (c b : Blk) (hc : c.1 ≤ c.2) (hb : b.1 < b.2) (h : c.2 = b.1) :
    blkAsc (c.1, max c.2 b.2) = blkAsc c ++ blkAsc b := by
  simp only [blkAsc]
  have e1 : List.range' b.1 (b.2 - b.1) = List.range' (c.1 + (c.2 - c.1)) (b.2 - b.1) := by
    congr 1; omega
  rw [e1, List.range'_append_1]
  congr 1; omega

theorem comb_bases (c : Blk) (bs : List Blk) (hc : c.1 ≤ c.2) (hv : ∀ b ∈ bs, b.1 ≤ b.2) :
    basesPlus (comb c bs) = blkAsc c ++ basesPlus bs := by
  induction bs generalizing c with
  | nil => simp [comb, basesPlus]
  | cons b bs ih =>
    have hv' : ∀ x ∈ bs, x.1 ≤ x.2 := fun x hx => hv x (by simp [hx])
    unfold comb
    split
    · rename_i h0
      have : blkAsc b = [] := by simp [blkAsc, h0]
      simp [ih c hc hv', basesPlus, this]
    · split
      · rename_i h0 h1
        rw [ih (c.1, max c.2 b.2) (by simp; omega) hv']
        rw [blkAsc_merge c b hc (by omega) h1]
        simp [basesPlus]
      · rename_i h0 h1
        simp [basesPlus, ih b (hv b (by simp)) hv']

theorem comb_starts (c : Blk) (bs : List Blk) :
    ((comb c bs).map Prod.fst).Sublist (c.1 :: bs.map Prod.fst) := by
  induction bs generalizing c with
  | nil => simp [comb]
  | cons b bs ih =>
    unfold comb
    split
    · have := ih c
      simp only [List.map_cons]
      exact this.trans ((List.sublist_cons_self _ _).cons_cons _)
    · split
      · have := ih (c.1, max c.2 b.2)
        simp only [List.map_cons]
        exact this.trans ((List.sublist_cons_self _ _).cons_cons _)
      · simp only [List.map_cons]
        exact (ih b).cons_cons _

/-! ### the same for `combStart` -/

theorem combStart_normal (bs : List Blk) : normalBlocks (combStart bs) = true := by
  induction bs with
  | nil => rfl
  | cons b bs ih =>
    unfold combStart
    split
    · exact ih
    · exact comb_normal b bs (by omega)

theorem combStart_bases (bs : List Blk) (hv : ∀ b ∈ bs, b.1 ≤ b.2) :
    basesPlus (combStart bs) = basesPlus bs := by
  induction bs with
  | nil => rfl
  | cons b bs ih =>
    have hv' : ∀ x ∈ bs, x.1 ≤ x.2 := fun x hx => hv x (by simp [hx])
    unfold combStart
    split
    · rename_i h0
      have : blkAsc b = [] := by simp [blkAsc, h0]
      simp [ih hv', basesPlus, this]
    · simp [comb_bases b bs (hv b (by simp)) hv', basesPlus]

theorem combStart_starts (bs : List Blk) :
    ((combStart bs).map Prod.fst).Sublist (bs.map Prod.fst) := by
  induction bs with
  | nil => simp [combStart]
  | cons b bs ih =>
    unfold combStart
    split
    · simp only [List.map_cons]
      exact ih.trans (List.sublist_cons_self _ _)
    · simpa using comb_starts b bs

/-- no empty block, hence valid -/
theorem normal_pos : ∀ (bs : List Blk), normalBlocks bs = true → ∀ b ∈ bs, b.1 < b.2
  | [], _ => by simp
  | [a], h => by simpa [normalBlocks] using h
  | a :: b :: rest, h => by
    simp only [normalBlocks, Bool.and_eq_true, decide_eq_true_eq] at h
    have ih := normal_pos (b :: rest) h.2
    intro x hx
    rcases List.mem_cons.mp hx with rfl | hx
    · exact h.1.1
    · exact ih x hx

end BioCantor.Proofs
