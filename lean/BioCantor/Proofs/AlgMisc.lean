/-
  C02: reverse / reverse_strand / reset_strand / shift_position / union_preserve_overlaps.
-/
import BioCantor.Proofs.AlgOverlap
import BioCantor.Proofs.AlgOptimize
namespace BioCantor.Proofs.Misc
open BioCantor BioCantor.Spec BioCantor.Model BioCantor.Proofs

/-! ### constructors with a parent -/

theorem checkEnd_ok (e : Nat) (par : PKey) (h : ∀ n, parentSeqLen par = some n → e ≤ n) :
    checkEnd (e : Int) par = .ok () := by
  unfold checkEnd
  cases hn : parentSeqLen par with
  | none => rfl
  | some n =>
    have := h n hn
    have h2 : ¬ ((e : Int) > (n : Int)) := by omega
    simp only [h2, if_false]
    rfl

theorem checkEnd_err (e : Int) (par : PKey) (n : Nat) (hn : parentSeqLen par = some n) (h : e > n) :
    checkEnd e par = .error .InvalidPosition := by
  unfold checkEnd
  simp only [hn, h, if_true]
  rfl

theorem mkSingleP_ok (b : Blk) (st : Strand) (par : PKey) (hb : b.1 ≤ b.2)
    (h : ∀ n, parentSeqLen par = some n → b.2 ≤ n) :
    mkSingleP (b.1 : Int) (b.2 : Int) st par = .ok (.single b st, par) := by
  unfold mkSingleP mkSingle
  have h1 : (0 : Int) ≤ (b.1 : Int) ∧ (b.1 : Int) ≤ (b.2 : Int) := by omega
  simp only [h1, and_self, if_true]
  simp only [bind, Except.bind, pure, Except.pure, checkEnd_ok b.2 par h, Int.toNat_natCast]

theorem mkCompoundP_ok (bs : List Blk) (st : Strand) (par : PKey) (hne : bs ≠ []) (hv : ∀ b ∈ bs, b.1 ≤ b.2)
    (h : ∀ n, parentSeqLen par = some n → ∀ b ∈ bs, b.2 ≤ n) :
    mkCompoundP bs st par = .ok (.compound ⟨sortBlocks st bs, st⟩, par) := by
  unfold mkCompoundP
  rw [mkCompoundLoc_ok st hne hv]
  have : checkEnd ((maxEnd (sortBlocks st bs) : Nat) : Int) par = .ok () := by
    apply checkEnd_ok
    intro n hn
    rw [← maxEndOf_eq_maxEnd, maxEndOf_perm (sortBlocks_perm st bs), maxEndOf_le_iff]
    exact h n hn
  simp only [bind, Except.bind, pure, Except.pure, this]

/-- a non-empty well-formed result that keeps the parent and stays inside its bounds -/
theorem resultOk_mk (r : Location) (par : PKey) (hne : r ≠ .empty) (hwf : wfLocation r = true)
    (hb : ∀ n, parentSeqLen par = some n → ∀ b ∈ locationBlocks r, b.2 ≤ n) :
    resultOk (r, par) par = true := by
  have := resultOk_withPar r par par hwf hb (sameParent_refl par)
  have e : withPar r par = (r, par) := by cases r <;> first | rfl | exact absurd rfl hne
  rw [e] at this
  exact this

theorem wf_compound_sort (st : Strand) (bs : List Blk) (hne : bs ≠ []) (hv : ∀ b ∈ bs, b.1 ≤ b.2) :
    wfLocation (.compound ⟨sortBlocks st bs, st⟩) = true := by
  simp only [wfLocation, decide_eq_true_eq]
  exact canon_sortBlocks st hne hv

theorem sort_plus_sort (st : Strand) (bs : List Blk) : sortBlocks .plus (sortBlocks st bs) = sortBlocks .plus bs :=
  sortBlocks_eq_of_perm_sorted .plus ((sortBlocks_perm .plus bs).trans (sortBlocks_perm st bs).symm)
    (sortBlocks_pairwise .plus bs)

theorem flip_eq (s : Strand) : strandReverse s = flipStrand s := by cases s <;> rfl

theorem canon_valid (l : Loc) (h : l.Canon) : ∀ b ∈ l.blocks, b.1 ≤ b.2 := (blocksValid_iff _).mp h.2.1

end BioCantor.Proofs.Misc

namespace BioCantor.Proofs
open BioCantor BioCantor.Spec BioCantor.Model BioCantor.Proofs.Misc

theorem reverseStrandP_ok (a : PLoc) (ha : WFP a) : okReverseStrand a (ans (reverseStrandP a)) = true := by
  obtain ⟨l, par⟩ := a
  obtain ⟨hwf, hemp, hbd⟩ := ha
  cases l with
  | empty => simp [reverseStrandP, okReverseStrand, locationStrand?]
  | single b st =>
    have hb : b.1 ≤ b.2 := hwf
    simp only [reverseStrandP]
    rw [mkSingleP_ok b _ par hb (fun n hn => hbd n hn b (by simp [locationBlocks]))]
    simp only [ans_ok, okReverseStrand, locationStrand?, sameBlocksOn, locationBlocks, flip_eq,
      Bool.and_eq_true, beq_self_eq_true, and_true]
    exact resultOk_mk _ par (by simp) (by simpa [wfLocation] using hb) (fun n hn => hbd n hn)
  | compound la =>
    have hc : la.Canon := hwf
    simp only [reverseStrandP]
    rw [mkCompoundP_ok la.blocks _ par hc.1 (canon_valid la hc) (fun n hn => hbd n hn)]
    simp only [ans_ok, okReverseStrand, locationStrand?, sameBlocksOn, locationBlocks, flip_eq,
      Bool.and_eq_true, beq_self_eq_true, and_true, sort_plus_sort]
    refine resultOk_mk _ par (by simp) (wf_compound_sort _ _ hc.1 (canon_valid la hc)) ?_
    intro n hn b hb
    exact hbd n hn b ((sortBlocks_perm _ _).mem_iff.mp hb)

theorem resetStrandP_ok (a : PLoc) (ha : WFP a) (ns : Strand) : okResetStrand a ns (ans (resetStrandP a ns)) = true := by
  obtain ⟨l, par⟩ := a
  obtain ⟨hwf, hemp, hbd⟩ := ha
  cases l with
  | empty => simp [resetStrandP, okResetStrand]
  | single b st =>
    have hb : b.1 ≤ b.2 := hwf
    simp only [resetStrandP]
    rw [mkSingleP_ok b _ par hb (fun n hn => hbd n hn b (by simp [locationBlocks]))]
    simp only [ans_ok, okResetStrand, locationStrand?, sameBlocksOn, locationBlocks,
      Bool.and_eq_true, beq_self_eq_true, and_true]
    exact resultOk_mk _ par (by simp) (by simpa [wfLocation] using hb) (fun n hn => hbd n hn)
  | compound la =>
    have hc : la.Canon := hwf
    simp only [resetStrandP]
    rw [mkCompoundP_ok la.blocks _ par hc.1 (canon_valid la hc) (fun n hn => hbd n hn)]
    simp only [ans_ok, okResetStrand, locationStrand?, sameBlocksOn, locationBlocks,
      Bool.and_eq_true, beq_self_eq_true, and_true, sort_plus_sort]
    refine resultOk_mk _ par (by simp) (wf_compound_sort _ _ hc.1 (canon_valid la hc)) ?_
    intro n hn b hb
    exact hbd n hn b ((sortBlocks_perm _ _).mem_iff.mp hb)

end BioCantor.Proofs
