/-
  C02: reverse / reverse_strand / reset_strand / shift_position / union_preserve_overlaps.
-/
import BioCantor.Proofs.AlgOverlap
import BioCantor.Proofs.AlgOptimize
namespace BioCantor.Proofs.Misc
open BioCantor BioCantor.Spec BioCantor.Model BioCantor.Proofs

/-! ### constructors with a parent -/

theorem checkEnd_ok (e : Nat) (par : PKey) (h : ∀ n, parentSeqLen par = some n → e ≤ n) :
    checkEnd (e : Int) par = .ok () := by
  unfold checkEnd
  cases hn : parentSeqLen par with
  | none => rfl
  | some n =>
    have := h n hn
    have h2 : ¬ ((e : Int) > (n : Int)) := by omega
    simp only [h2, if_false]
    rfl

theorem checkEnd_err (e : Int) (par : PKey) (n : Nat) (hn : parentSeqLen par = some n) (h : e > n) :
    checkEnd e par = .error .InvalidPosition := by
  unfold checkEnd
  simp only [hn, h, if_true]
  rfl

theorem mkSingleP_ok (b : Blk) (st : Strand) (par : PKey) (hb : b.1 ≤ b.2)
    (h : ∀ n, parentSeqLen par = some n → b.2 ≤ n) :
    mkSingleP (b.1 : Int) (b.2 : Int) st par = .ok (.single b st, par) := by
  unfold mkSingleP mkSingle
  have h1 : (0 : Int) ≤ (b.1 : Int) ∧ (b.1 : Int) ≤ (b.2 : Int) := by omega
  simp only [h1, and_self, if_true]
  simp only [bind, Except.bind, pure, Except.pure, checkEnd_ok b.2 par h, Int.toNat_natCast]

theorem mkCompoundP_ok (bs : List Blk) (st : Strand) (par : PKey) (hne : bs ≠ []) (hv : ∀ b ∈ bs, b.1 ≤ b.2)
    (h : ∀ n, parentSeqLen par = some n → ∀ b ∈ bs, b.2 ≤ n) :
    mkCompoundP bs st par = .ok (.compound ⟨sortBlocks st bs, st⟩, par) := by
  unfold mkCompoundP
  rw [mkCompoundLoc_ok st hne hv]
  have : checkEnd ((maxEnd (sortBlocks st bs) : Nat) : Int) par = .ok () := by
    apply checkEnd_ok
    intro n hn
    rw [← maxEndOf_eq_maxEnd, maxEndOf_perm (sortBlocks_perm st bs), maxEndOf_le_iff]
    exact h n hn
  simp only [bind, Except.bind, pure, Except.pure, this]

/-- a non-empty well-formed result that keeps the parent and stays inside its bounds -/
theorem resultOk_mk (r : Location) (par : PKey) (hne : r ≠ .empty) (hwf : wfLocation r = true)
    (hb : ∀ n, parentSeqLen par = some n → ∀ b ∈ locationBlocks r, b.2 ≤ n) :
    resultOk (r, par) par = true := by
  have := resultOk_withPar r par par hwf hb (sameParent_refl par)
  have e : withPar r par = (r, par) := by cases r <;> first | rfl | exact absurd rfl hne
  rw [e] at this
  exact this

theorem wf_compound_sort (st : Strand) (bs : List Blk) (hne : bs ≠ []) (hv : ∀ b ∈ bs, b.1 ≤ b.2) :
    wfLocation (.compound ⟨sortBlocks st bs, st⟩) = true := by
  simp only [wfLocation, decide_eq_true_eq]
  exact canon_sortBlocks st hne hv

theorem sort_plus_sort (st : Strand) (bs : List Blk) : sortBlocks .plus (sortBlocks st bs) = sortBlocks .plus bs :=
  sortBlocks_eq_of_perm_sorted .plus ((sortBlocks_perm .plus bs).trans (sortBlocks_perm st bs).symm)
    (sortBlocks_pairwise .plus bs)

theorem flip_eq (s : Strand) : strandReverse s = flipStrand s := by cases s <;> rfl

theorem canon_valid (l : Loc) (h : l.Canon) : ∀ b ∈ l.blocks, b.1 ≤ b.2 := (blocksValid_iff _).mp h.2.1

/-! ### shift_position -/

theorem mkSingleP_eq (s e : Int) (st : Strand) (par : PKey) :
    mkSingleP s e st par = if 0 ≤ s ∧ s ≤ e then
      (match parentSeqLen par with
       | some n => if e > n then .error .InvalidPosition else .ok (.single (s.toNat, e.toNat) st, par)
       | none => .ok (.single (s.toNat, e.toNat) st, par))
      else .error .InvalidPosition := by
  unfold mkSingleP mkSingle checkEnd
  split
  · cases parentSeqLen par with
    | none => rfl
    | some n => simp only []; split <;> rfl
  · rfl

theorem shift_single (b : Blk) (st : Strand) (par : PKey) (hb : b.1 ≤ b.2) (k : Int) :
   okShift (.single b st, par) k (ans (shiftP (.single b st, par) k)) = true := by
  simp only [okShift, spanOf_single, shiftP, parLen_eq, mkSingleP_eq]
  by_cases h0 : (b.1 : Int) + k < 0
  · have : ¬ ((0:Int) ≤ (b.1 : Int) + k ∧ (b.1 : Int) + k ≤ (b.2 : Int) + k) := by omega
    rw [if_neg this]
    simp [h0]
  · have h1 : ((0:Int) ≤ (b.1 : Int) + k ∧ (b.1 : Int) + k ≤ (b.2 : Int) + k) := by omega
    rw [if_pos h1]
    have hres : ∀ n, parentSeqLen par = some n → (b.2 : Int) + k ≤ n →
        resultOk (Location.single ((↑b.fst + k).toNat, (↑b.snd + k).toNat) st, par) par = true := by
      intro n hn hle
      apply resultOk_mk _ par (by simp)
      · simp [wfLocation]; omega
      · intro m hm x hx
        simp only [locationBlocks, List.mem_singleton] at hx
        subst hx
        rw [hn] at hm; cases hm
        simp only; omega
    cases hn : parentSeqLen par with
    | none =>
      simp [h0, locationBlocks, locationStrand?]
      apply resultOk_mk _ par (by simp)
      · simp [wfLocation]; omega
      · intro m hm; rw [hn] at hm; cases hm
    | some n =>
      simp only [h0, decide_false, Bool.false_or]
      by_cases h2 : (b.2 : Int) + k > n
      · simp [h2]
      · simp [h2, locationBlocks, locationStrand?]
        exact hres n hn (by omega)

theorem mkCompoundP_eq (bs : List Blk) (st : Strand) (par : PKey) (hne : bs ≠ []) (hv : ∀ b ∈ bs, b.1 ≤ b.2) :
    mkCompoundP bs st par =
      (match parentSeqLen par with
       | some n => if maxEndOf bs > n then .error .InvalidPosition else .ok (.compound ⟨sortBlocks st bs, st⟩, par)
       | none => .ok (.compound ⟨sortBlocks st bs, st⟩, par)) := by
  unfold mkCompoundP
  rw [mkCompoundLoc_ok st hne hv]
  have e : maxEnd (sortBlocks st bs) = maxEndOf bs := by
    rw [← maxEndOf_eq_maxEnd, maxEndOf_perm (sortBlocks_perm st bs)]
  simp only [ok_bind, e]
  unfold checkEnd
  cases parentSeqLen par with
  | none => rfl
  | some n =>
    simp only []
    by_cases h : maxEndOf bs > n
    · have h' : ((maxEndOf bs : Nat) : Int) > (n : Int) := by omega
      simp only [h, h', if_true]; rfl
    · have h' : ¬ ((maxEndOf bs : Nat) : Int) > (n : Int) := by omega
      simp only [h, h', if_false]; rfl

theorem maxEndOf_mem (bs : List Blk) (hne : bs ≠ []) : ∃ b ∈ bs, b.2 = maxEndOf bs := by
  induction bs with
  | nil => exact absurd rfl hne
  | cons c cs ih =>
    by_cases hcs : cs = []
    · subst hcs; exact ⟨c, by simp, by simp [maxEndOf]⟩
    · obtain ⟨b, hb, he⟩ := ih hcs
      simp only [maxEndOf]
      by_cases h : c.2 ≤ maxEndOf cs
      · exact ⟨b, List.mem_cons_of_mem _ hb, by omega⟩
      · exact ⟨c, by simp, by omega⟩

theorem shift_compound (la : Loc) (par : PKey) (hc : la.Canon) (k : Int) :
   okShift (.compound la, par) k (ans (shiftP (.compound la, par) k)) = true := by
  obtain ⟨f, rest, hbl, hspan, _⟩ := spanOf_compound la hc
  have hv := canon_valid la hc
  have hsorted : sortedBy (blkLe la.strand) (f :: rest) = true := by rw [← hbl]; exact hc.2.2
  have hmin : ∀ x ∈ la.blocks, f.1 ≤ x.1 := by
    intro x hx
    rw [hbl] at hx
    rcases List.mem_cons.mp hx with rfl | hx
    · exact Nat.le_refl _
    · exact sortedBy_head_le la.strand f rest hsorted x hx
  simp only [okShift, hspan, shiftP, parLen_eq]
  by_cases h0 : (f.1 : Int) + k < 0
  · have : la.blocks.any (fun b => decide ((b.1 : Int) + k < 0)) = true := by
      rw [List.any_eq_true]; exact ⟨f, by simp [hbl], by simpa using h0⟩
    simp [h0, this, bind, Except.bind]
    rfl
  · have hany : la.blocks.any (fun b => decide ((b.1 : Int) + k < 0)) = false := by
      rw [Bool.eq_false_iff]; intro h
      rw [List.any_eq_true] at h
      obtain ⟨x, hx, h1⟩ := h
      have := hmin x hx
      simp at h1; omega
    have hge : ∀ x ∈ la.blocks, 0 ≤ (x.1 : Int) + k := by
      intro x hx; have := hmin x hx; omega
    have hne' : la.blocks.map (fun b : Blk => (((b.1 : Int) + k).toNat, ((b.2 : Int) + k).toNat)) ≠ [] := by
      simp [hbl]
    have hv' : ∀ b ∈ la.blocks.map (fun b : Blk => (((b.1 : Int) + k).toNat, ((b.2 : Int) + k).toNat)), b.1 ≤ b.2 := by
      intro b hb
      obtain ⟨x, hx, rfl⟩ := List.mem_map.mp hb
      have := hv x hx
      simp only; omega
    have hmax : ∀ n : Nat, maxEndOf (la.blocks.map (fun b : Blk => (((b.1 : Int) + k).toNat, ((b.2 : Int) + k).toNat))) > n ↔
        ((maxEnd la.blocks : Nat) : Int) + k > n := by
      intro n
      rw [← maxEndOf_eq_maxEnd]
      have h1 := maxEndOf_le_iff (la.blocks.map (fun b : Blk => (((b.1 : Int) + k).toNat, ((b.2 : Int) + k).toNat))) n
      have h2 : ((maxEndOf la.blocks : Nat) : Int) + k ≤ n ↔ ∀ b ∈ la.blocks, (b.2 : Int) + k ≤ n := by
        constructor
        · intro h b hb
          have := le_maxEndOf_of_mem _ b hb
          omega
        · intro h
          obtain ⟨b, hb, he⟩ := maxEndOf_mem la.blocks hc.1
          have := h b hb
          omega
      have h3 : (∀ b ∈ la.blocks.map (fun b : Blk => (((b.1 : Int) + k).toNat, ((b.2 : Int) + k).toNat)), b.2 ≤ n) ↔
          ∀ b ∈ la.blocks, (b.2 : Int) + k ≤ n := by
        constructor
        · intro h b hb
          have := h _ (List.mem_map.mpr ⟨b, hb, rfl⟩)
          have := hge b hb
          have := hv b hb
          simp only at *; omega
        · intro h b hb
          obtain ⟨x, hx, rfl⟩ := List.mem_map.mp hb
          have := h x hx
          simp only; omega
      rw [h3, ← h2] at h1
      omega
    rw [mkCompoundP_eq _ _ _ hne' hv']
    simp only [hany, Bool.false_eq_true, if_false, h0, decide_false, Bool.false_or]
    have hres : (∀ n, parentSeqLen par = some n → ¬ ((maxEnd la.blocks : Nat) : Int) + k > n) →
        resultOk (.compound ⟨sortBlocks la.strand (la.blocks.map (fun b : Blk => (((b.1 : Int) + k).toNat, ((b.2 : Int) + k).toNat))), la.strand⟩, par) par = true := by
      intro hh
      refine resultOk_mk _ par (by simp) (wf_compound_sort _ _ hne' hv') ?_
      intro n hn b hb
      have := mt (hmax n).mp (hh n hn)
      have h4 : maxEndOf (la.blocks.map (fun b : Blk => (((b.1 : Int) + k).toNat, ((b.2 : Int) + k).toNat))) ≤ n := by omega
      exact (maxEndOf_le_iff _ _).mp h4 b ((sortBlocks_perm _ _).mem_iff.mp hb)
    cases hn : parentSeqLen par with
    | none =>
      simp only [ans_ok, locationBlocks, locationStrand?, sort_plus_sort, beq_self_eq_true, Bool.and_true]
      exact hres (fun n h => by rw [hn] at h; cases h)
    | some n =>
      simp only []
      by_cases h2 : ((maxEnd la.blocks : Nat) : Int) + k > n
      · have h3 := (hmax n).mpr h2
        simp [h2, h3]
      · have h3 := mt (hmax n).mp h2
        simp only [h2, h3, if_false, decide_false, Bool.false_eq_true, ans_ok, locationBlocks, locationStrand?,
          sort_plus_sort, beq_self_eq_true, Bool.and_true]
        exact hres (fun m h => by rw [hn] at h; cases h; exact h2)

/-! ### reverse -/

theorem reverse_single (b : Blk) (st : Strand) (par : PKey) (hb : b.1 ≤ b.2)
    (hbd : ∀ n, parentSeqLen par = some n → b.2 ≤ n) :
    okReverse (.single b st, par) (ans (reverseP (.single b st, par))) = true := by
  simp only [reverseP]
  rw [mkSingleP_ok b _ par hb hbd]
  simp only [ans_ok, okReverse, spanOf_single, locationStrand?, locationBlocks, flip_eq, Option.map_some,
    beq_self_eq_true, Bool.and_true, Bool.and_eq_true]
  refine ⟨⟨?_, ?_⟩, ?_⟩
  · exact resultOk_mk _ par (by simp) (by simpa [wfLocation] using hb)
      (fun n hn x hx => by simp only [locationBlocks, List.mem_singleton] at hx; subst hx; exact hbd n hn)
  · simp [endsWithin, locationBlocks]
  · rw [allUpTo_iff]
    intro p _
    simp only [locationCovers, coversBlocks, List.any_cons, List.any_nil, Bool.or_false, beq_iff_eq]
    rw [Bool.eq_iff_iff]
    simp only [Bool.and_eq_true, decide_eq_true_eq]
    omega

theorem reverse_compound (la : Loc) (par : PKey) (hc : la.Canon)
    (hbd : ∀ n, parentSeqLen par = some n → ∀ b ∈ la.blocks, b.2 ≤ n) :
    okReverse (.compound la, par) (ans (reverseP (.compound la, par))) = true := by
  obtain ⟨f, rest, hbl, hspan, _⟩ := spanOf_compound la hc
  have hv := canon_valid la hc
  have hsorted : sortedBy (blkLe la.strand) (f :: rest) = true := by rw [← hbl]; exact hc.2.2
  have hmin : ∀ x ∈ la.blocks, f.1 ≤ x.1 := by
    intro x hx
    rw [hbl] at hx
    rcases List.mem_cons.mp hx with rfl | hx
    · exact Nat.le_refl _
    · exact sortedBy_head_le la.strand f rest hsorted x hx
  have hmax : ∀ x ∈ la.blocks, x.2 ≤ maxEnd la.blocks := by
    intro x hx; rw [← maxEndOf_eq_maxEnd]; exact le_maxEndOf_of_mem _ x hx
  have hs : locStart (.compound la) = .ok f.1 := by simp [locStart, hbl]; rfl
  have he : locEnd (.compound la) = .ok (maxEnd la.blocks) := by simp [locEnd, hbl]; rfl
  simp only [reverseP, hs, he, ok_bind]
  generalize hS : f.1 = S at *
  generalize hE : maxEnd la.blocks = E at *
  have hne' : la.blocks.map (fun b : Blk => (S + E - b.2, S + E - b.1)) ≠ [] := by simp [hbl]
  have hv' : ∀ b ∈ la.blocks.map (fun b : Blk => (S + E - b.2, S + E - b.1)), b.1 ≤ b.2 := by
    intro b hb
    obtain ⟨x, hx, rfl⟩ := List.mem_map.mp hb
    have := hv x hx
    simp only; omega
  have hE' : ∀ b ∈ la.blocks.map (fun b : Blk => (S + E - b.2, S + E - b.1)), b.2 ≤ E := by
    intro b hb
    obtain ⟨x, hx, rfl⟩ := List.mem_map.mp hb
    have := hmin x hx
    simp only; omega
  have hEn : ∀ n, parentSeqLen par = some n → E ≤ n := by
    intro n hn
    obtain ⟨b, hb, hbe⟩ := maxEndOf_mem la.blocks hc.1
    have := hbd n hn b hb
    rw [maxEndOf_eq_maxEnd, hE] at hbe
    omega
  rw [mkCompoundP_ok _ _ par hne' hv' (fun n hn b hb => Nat.le_trans (hE' b hb) (hEn n hn))]
  simp only [ans_ok, okReverse, hspan, locationStrand?, locationBlocks, flip_eq, Option.map_some,
    beq_self_eq_true, Bool.and_true, Bool.and_eq_true]
  refine ⟨⟨⟨?_, ?_⟩, ?_⟩, ?_⟩
  · refine resultOk_mk _ par (by simp) (wf_compound_sort _ _ hne' hv') ?_
    intro n hn b hb
    exact Nat.le_trans (hE' b ((sortBlocks_perm _ _).mem_iff.mp hb)) (hEn n hn)
  · simp only [endsWithin, locationBlocks, List.all_eq_true, decide_eq_true_eq]
    intro b hb
    exact hE' b ((sortBlocks_perm _ _).mem_iff.mp hb)
  · rw [allUpTo_iff]
    intro p _
    simp only [locationCovers, covers, coversBlocks_sort, beq_iff_eq]
    rw [Bool.eq_iff_iff]
    simp only [Bool.and_eq_true, decide_eq_true_eq, coversBlocks_iff]
    constructor
    · rintro ⟨b, hb, h1, h2⟩
      obtain ⟨x, hx, rfl⟩ := List.mem_map.mp hb
      have := hmin x hx
      have := hmax x hx
      have := hv x hx
      simp only at h1 h2
      exact ⟨⟨by omega, by omega⟩, x, hx, by omega, by omega⟩
    · rintro ⟨⟨h1, h2⟩, x, hx, h3, h4⟩
      have := hmin x hx
      have := hmax x hx
      have := hv x hx
      exact ⟨_, List.mem_map.mpr ⟨x, hx, rfl⟩, by simp only; omega, by simp only; omega⟩
  · simp [(sortBlocks_perm _ _).length_eq]

end BioCantor.Proofs.Misc

namespace BioCantor.Proofs
open BioCantor BioCantor.Spec BioCantor.Model BioCantor.Proofs.Misc

theorem reverseStrandP_ok (a : PLoc) (ha : WFP a) : okReverseStrand a (ans (reverseStrandP a)) = true := by
  obtain ⟨l, par⟩ := a
  obtain ⟨hwf, hemp, hbd⟩ := ha
  cases l with
  | empty => simp [reverseStrandP, okReverseStrand, locationStrand?]
  | single b st =>
    have hb : b.1 ≤ b.2 := hwf
    simp only [reverseStrandP]
    rw [mkSingleP_ok b _ par hb (fun n hn => hbd n hn b (by simp [locationBlocks]))]
    simp only [ans_ok, okReverseStrand, locationStrand?, sameBlocksOn, locationBlocks, flip_eq,
      Bool.and_eq_true, beq_self_eq_true, and_true]
    exact resultOk_mk _ par (by simp) (by simpa [wfLocation] using hb) (fun n hn => hbd n hn)
  | compound la =>
    have hc : la.Canon := hwf
    simp only [reverseStrandP]
    rw [mkCompoundP_ok la.blocks _ par hc.1 (canon_valid la hc) (fun n hn => hbd n hn)]
    simp only [ans_ok, okReverseStrand, locationStrand?, sameBlocksOn, locationBlocks, flip_eq,
      Bool.and_eq_true, beq_self_eq_true, and_true, sort_plus_sort]
    refine resultOk_mk _ par (by simp) (wf_compound_sort _ _ hc.1 (canon_valid la hc)) ?_
    intro n hn b hb
    exact hbd n hn b ((sortBlocks_perm _ _).mem_iff.mp hb)

theorem resetStrandP_ok (a : PLoc) (ha : WFP a) (ns : Strand) : okResetStrand a ns (ans (resetStrandP a ns)) = true := by
  obtain ⟨l, par⟩ := a
  obtain ⟨hwf, hemp, hbd⟩ := ha
  cases l with
  | empty => simp [resetStrandP, okResetStrand]
  | single b st =>
    have hb : b.1 ≤ b.2 := hwf
    simp only [resetStrandP]
    rw [mkSingleP_ok b _ par hb (fun n hn => hbd n hn b (by simp [locationBlocks]))]
    simp only [ans_ok, okResetStrand, locationStrand?, sameBlocksOn, locationBlocks,
      Bool.and_eq_true, beq_self_eq_true, and_true]
    exact resultOk_mk _ par (by simp) (by simpa [wfLocation] using hb) (fun n hn => hbd n hn)
  | compound la =>
    have hc : la.Canon := hwf
    simp only [resetStrandP]
    rw [mkCompoundP_ok la.blocks _ par hc.1 (canon_valid la hc) (fun n hn => hbd n hn)]
    simp only [ans_ok, okResetStrand, locationStrand?, sameBlocksOn, locationBlocks,
      Bool.and_eq_true, beq_self_eq_true, and_true, sort_plus_sort]
    refine resultOk_mk _ par (by simp) (wf_compound_sort _ _ hc.1 (canon_valid la hc)) ?_
    intro n hn b hb
    exact hbd n hn b ((sortBlocks_perm _ _).mem_iff.mp hb)

theorem shiftP_ok (a : PLoc) (ha : WFP a) (k : Int) : okShift a k (ans (shiftP a k)) = true := by
  obtain ⟨l, par⟩ := a
  obtain ⟨hwf, hemp, hbd⟩ := ha
  cases l with
  | empty => simp [shiftP, okShift, spanOf, locationBlocks]
  | single b st => exact shift_single b st par hwf k
  | compound la => exact shift_compound la par hwf k

theorem reverseP_ok (a : PLoc) (ha : WFP a) : okReverse a (ans (reverseP a)) = true := by
  obtain ⟨l, par⟩ := a
  obtain ⟨hwf, hemp, hbd⟩ := ha
  cases l with
  | empty => simp [reverseP, okReverse, spanOf, locationBlocks]
  | single b st => exact reverse_single b st par hwf (fun n hn => hbd n hn b (by simp [locationBlocks]))
  | compound la => exact reverse_compound la par hwf (fun n hn => hbd n hn)

end BioCantor.Proofs
