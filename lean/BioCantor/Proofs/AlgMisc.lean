/-
  C02: reverse / reverse_strand / reset_strand / shift_position / union_preserve_overlaps.
-/
import BioCantor.Proofs.AlgOverlap
import BioCantor.Proofs.AlgOptimize
namespace BioCantor.Proofs.Misc
open BioCantor BioCantor.Spec BioCantor.Model BioCantor.Proofs

/-! ### constructors with a parent -/

theorem checkEnd_ok (e : Nat) (par : PKey) (h : ∀ n, parentSeqLen par = some n → e ≤ n) :
    checkEnd (e : Int) par = .ok () := by
  unfold checkEnd
  cases hn : parentSeqLen par with
  | none => rfl
  | some n =>
    have := h n hn
    have h2 : ¬ ((e : Int) > (n : Int)) := by omega
    simp only [h2, if_false]
    rfl

theorem checkEnd_err (e : Int) (par : PKey) (n : Nat) (hn : parentSeqLen par = some n) (h : e > n) :
    checkEnd e par = .error .InvalidPosition := by
  unfold checkEnd
  simp only [hn, h, if_true]
  rfl

theorem mkSingleP_ok (b : Blk) (st : Strand) (par : PKey) (hb : b.1 ≤ b.2)
    (h : ∀ n, parentSeqLen par = some n → b.2 ≤ n) :
    mkSingleP (b.1 : Int) (b.2 : Int) st par = .ok (.single b st, par) := by
  unfold mkSingleP mkSingle
  have h1 : (0 : Int) ≤ (b.1 : Int) ∧ (b.1 : Int) ≤ (b.2 : Int) := by omega
  simp only [h1, and_self, if_true]
  simp only [bind, Except.bind, pure, Except.pure, checkEnd_ok b.2 par h, Int.toNat_natCast]

theorem mkCompoundP_ok (bs : List Blk) (st : Strand) (par : PKey) (hne : bs ≠ []) (hv : ∀ b ∈ bs, b.1 ≤ b.2)
    (h : ∀ n, parentSeqLen par = some n → ∀ b ∈ bs, b.2 ≤ n) :
    mkCompoundP bs st par = .ok (.compound ⟨sortBlocks st bs, st⟩, par) := by
  unfold mkCompoundP
  rw [mkCompoundLoc_ok st hne hv]
  have : checkEnd ((maxEnd (sortBlocks st bs) : Nat) : Int) par = .ok () := by
    apply checkEnd_ok
    intro n hn
    rw [← maxEndOf_eq_maxEnd, maxEndOf_perm (sortBlocks_perm st bs), maxEndOf_le_iff]
    exact h n hn
  simp only [bind, Except.bind, pure, Except.pure, this]

/-- a non-empty well-formed result that keeps the parent and stays inside its bounds -/
theorem resultOk_mk (r : Location) (par : PKey) (hne : r ≠ .empty) (hwf : wfLocation r = true)
    (hb : ∀ n, parentSeqLen par = some n → ∀ b ∈ locationBlocks r, b.2 ≤ n) :
    resultOk (r, par) par = true := by
  have := resultOk_withPar r par par hwf hb (sameParent_refl par)
  have e : withPar r par = (r, par) := by cases r <;> first | rfl | exact absurd rfl hne
  rw [e] at this
  exact this

theorem wf_compound_sort (st : Strand) (bs : List Blk) (hne : bs ≠ []) (hv : ∀ b ∈ bs, b.1 ≤ b.2) :
    wfLocation (.compound ⟨sortBlocks st bs, st⟩) = true := by
  simp only [wfLocation, decide_eq_true_eq]
  exact canon_sortBlocks st hne hv

theorem sort_plus_sort (st : Strand) (bs : List Blk) : sortBlocks .plus (sortBlocks st bs) = sortBlocks .plus bs :=
  sortBlocks_eq_of_perm_sorted .plus ((sortBlocks_perm .plus bs).trans (sortBlocks_perm st bs).symm)
    (sortBlocks_pairwise .plus bs)

theorem flip_eq (s : Strand) : strandReverse s = flipStrand s := by cases s <;> rfl

theorem canon_valid (l : Loc) (h : l.Canon) : ∀ b ∈ l.blocks, b.1 ≤ b.2 := (blocksValid_iff _).mp h.2.1

/-! ### shift_position -/

theorem mkSingleP_eq (s e : Int) (st : Strand) (par : PKey) :
    mkSingleP s e st par = if 0 ≤ s ∧ s ≤ e then
      (match parentSeqLen par with
       | some n => if e > n then .error .InvalidPosition else .ok (.single (s.toNat, e.toNat) st, par)
       | none => .ok (.single (s.toNat, e.toNat) st, par))
      else .error .InvalidPosition := by
  unfold mkSingleP mkSingle checkEnd
  split
  · cases parentSeqLen par with
    | none => rfl
    | some n => simp only []; split <;> rfl
  · rfl

theorem shift_single (b : Blk) (st : Strand) (par : PKey) (hb : b.1 ≤ b.2) (k : Int) :
   okShift (.single b st, par) k (ans (shiftP (.single b st, par) k)) = true := by
  simp only [okShift, spanOf_single, shiftP, parLen_eq, mkSingleP_eq]
  by_cases h0 : (b.1 : Int) + k < 0
  · have : ¬ ((0:Int) ≤ (b.1 : Int) + k ∧ (b.1 : Int) + k ≤ (b.2 : Int) + k) := by omega
    rw [if_neg this]
    simp [h0]
  · have h1 : ((0:Int) ≤ (b.1 : Int) + k ∧ (b.1 : Int) + k ≤ (b.2 : Int) + k) := by omega
    rw [if_pos h1]
    have hres : ∀ n, parentSeqLen par = some n → (b.2 : Int) + k ≤ n →
        resultOk (Location.single ((↑b.fst + k).toNat, (↑b.snd + k).toNat) st, par) par = true := by
      intro n hn hle
      apply resultOk_mk _ par (by simp)
      · simp [wfLocation]; omega
      · intro m hm x hx
        simp only [locationBlocks, List.mem_singleton] at hx
        subst hx
        rw [hn] at hm; cases hm
        simp only; omega
    cases hn : parentSeqLen par with
    | none =>
      simp [h0, locationBlocks, locationStrand?]
      apply resultOk_mk _ par (by simp)
      · simp [wfLocation]; omega
      · intro m hm; rw [hn] at hm; cases hm
    | some n =>
      simp only [h0, decide_false, Bool.false_or]
      by_cases h2 : (b.2 : Int) + k > n
      · simp [h2]
      · simp [h2, locationBlocks, locationStrand?]
        exact hres n hn (by omega)

theorem mkCompoundP_eq (bs : List Blk) (st : Strand) (par : PKey) (hne : bs ≠ []) (hv : ∀ b ∈ bs, b.1 ≤ b.2) :
    mkCompoundP bs st par =
      (match parentSeqLen par with
       | some n => if maxEndOf bs > n then .error .InvalidPosition else .ok (.compound ⟨sortBlocks st bs, st⟩, par)
       | none => .ok (.compound ⟨sortBlocks st bs, st⟩, par)) := by
  unfold mkCompoundP
  rw [mkCompoundLoc_ok st hne hv]
  have e : maxEnd (sortBlocks st bs) = maxEndOf bs := by
    rw [← maxEndOf_eq_maxEnd, maxEndOf_perm (sortBlocks_perm st bs)]
  simp only [ok_bind, e]
  unfold checkEnd
  cases parentSeqLen par with
  | none => rfl
  | some n =>
    simp only []
    by_cases h : maxEndOf bs > n
    · have h' : ((maxEndOf bs : Nat) : Int) > (n : Int) := by omega
      simp only [h, h', if_true]; rfl
    · have h' : ¬ ((maxEndOf bs : Nat) : Int) > (n : Int) := by omega
      simp only [h, h', if_false]; rfl

theorem maxEndOf_mem (bs : List Blk) (hne : bs ≠ []) : ∃ b ∈ bs, b.2 = maxEndOf bs := by
  induction bs with
  | nil => exact absurd rfl hne
  | cons c cs ih =>
    by_cases hcs : cs = []
    · subst hcs; exact ⟨c, by simp, by simp [maxEndOf]⟩
    · obtain ⟨b, hb, he⟩ := ih hcs
      simp only [maxEndOf]
      by_cases h : c.2 ≤ maxEndOf cs
      · exact ⟨b, List.mem_cons_of_mem _ hb, by omega⟩
      · exact ⟨c, by simp, by omega⟩

theorem shift_compound (la : Loc) (par : PKey) (hc : la.Canon) (k : Int) :
   okShift (.compound la, par) k (ans (shiftP (.compound la, par) k)) = true := by
  obtain ⟨f, rest, hbl, hspan, _⟩ := spanOf_compound la hc
  have hv := canon_valid la hc
  have hsorted : sortedBy (blkLe la.strand) (f :: rest) = true := by rw [← hbl]; exact hc.2.2
  have hmin : ∀ x ∈ la.blocks, f.1 ≤ x.1 := by
    intro x hx
    rw [hbl] at hx
    rcases List.mem_cons.mp hx with rfl | hx
    · exact Nat.le_refl _
    · exact sortedBy_head_le la.strand f rest hsorted x hx
  simp only [okShift, hspan, shiftP, parLen_eq]
  by_cases h0 : (f.1 : Int) + k < 0
  · have : la.blocks.any (fun b => decide ((b.1 : Int) + k < 0)) = true := by
      rw [List.any_eq_true]; exact ⟨f, by simp [hbl], by simpa using h0⟩
    simp [h0, this, bind, Except.bind]
    rfl
  · have hany : la.blocks.any (fun b => decide ((b.1 : Int) + k < 0)) = false := by
      rw [Bool.eq_false_iff]; intro h
      rw [List.any_eq_true] at h
      obtain ⟨x, hx, h1⟩ := h
      have := hmin x hx
      simp at h1; omega
    have hge : ∀ x ∈ la.blocks, 0 ≤ (x.1 : Int) + k := by
      intro x hx; have := hmin x hx; omega
    have hne' : la.blocks.map (fun b : Blk => (((b.1 : Int) + k).toNat, ((b.2 : Int) + k).toNat)) ≠ [] := by
      simp [hbl]
    have hv' : ∀ b ∈ la.blocks.map (fun b : Blk => (((b.1 : Int) + k).toNat, ((b.2 : Int) + k).toNat)), b.1 ≤ b.2 := by
      intro b hb
      obtain ⟨x, hx, rfl⟩ := List.mem_map.mp hb
      have := hv x hx
      simp only; omega
    have hmax : ∀ n : Nat, maxEndOf (la.blocks.map (fun b : Blk => (((b.1 : Int) + k).toNat, ((b.2 : Int) + k).toNat))) > n ↔
        ((maxEnd la.blocks : Nat) : Int) + k > n := by
      intro n
      rw [← maxEndOf_eq_maxEnd]
      have h1 := maxEndOf_le_iff (la.blocks.map (fun b : Blk => (((b.1 : Int) + k).toNat, ((b.2 : Int) + k).toNat))) n
      have h2 : ((maxEndOf la.blocks : Nat) : Int) + k ≤ n ↔ ∀ b ∈ la.blocks, (b.2 : Int) + k ≤ n := by
        constructor
        · intro h b hb
          have := le_maxEndOf_of_mem _ b hb
          omega
        · intro h
          obtain ⟨b, hb, he⟩ := maxEndOf_mem la.blocks hc.1
          have := h b hb
          omega
      have h3 : (∀ b ∈ la.blocks.map (fun b : Blk => (((b.1 : Int) + k).toNat, ((b.2 : Int) + k).toNat)), b.2 ≤ n) ↔
          ∀ b ∈ la.blocks, (b.2 : Int) + k ≤ n := by
        constructor
        · intro h b hb
          have := h _ (List.mem_map.mpr ⟨b, hb, rfl⟩)
          have := hge b hb
          have := hv b hb
          simp only at *; omega
        · intro h b hb
          obtain ⟨x, hx, rfl⟩ := List.mem_map.mp hb
          have := h x hx
          simp only; omega
      rw [h3, ← h2] at h1
      omega
    rw [mkCompoundP_eq _ _ _ hne' hv']
    simp only [hany, Bool.false_eq_true, if_false, h0, decide_false, Bool.false_or]
    have hres : (∀ n, parentSeqLen par = some n → ¬ ((maxEnd la.blocks : Nat) : Int) + k > n) →
        resultOk (.compound ⟨sortBlocks la.strand (la.blocks.map (fun b : Blk => (((b.1 : Int) + k).toNat, ((b.2 : Int) + k).toNat))), la.strand⟩, par) par = true := by
      intro hh
      refine resultOk_mk _ par (by simp) (wf_compound_sort _ _ hne' hv') ?_
      intro n hn b hb
      have := mt (hmax n).mp (hh n hn)
      have h4 : maxEndOf (la.blocks.map (fun b : Blk => (((b.1 : Int) + k).toNat, ((b.2 : Int) + k).toNat))) ≤ n := by omega
      exact (maxEndOf_le_iff _ _).mp h4 b ((sortBlocks_perm _ _).mem_iff.mp hb)
    cases hn : parentSeqLen par with
    | none =>
      simp only [ans_ok, locationBlocks, locationStrand?, sort_plus_sort, beq_self_eq_true, Bool.and_true]
      exact hres (fun n h => by rw [hn] at h; cases h)
    | some n =>
      simp only []
      by_cases h2 : ((maxEnd la.blocks : Nat) : Int) + k > n
      · have h3 := (hmax n).mpr h2
        simp [h2, h3]
      · have h3 := mt (hmax n).mp h2
        simp only [h2, h3, if_false, decide_false, Bool.false_eq_true, ans_ok, locationBlocks, locationStrand?,
          sort_plus_sort, beq_self_eq_true, Bool.and_true]
        exact hres (fun m h => by rw [hn] at h; cases h; exact h2)

/-! ### reverse -/

theorem reverse_single (b : Blk) (st : Strand) (par : PKey) (hb : b.1 ≤ b.2)
    (hbd : ∀ n, parentSeqLen par = some n → b.2 ≤ n) :
    okReverse (.single b st, par) (ans (reverseP (.single b st, par))) = true := by
  simp only [reverseP]
  rw [mkSingleP_ok b _ par hb hbd]
  simp only [ans_ok, okReverse, spanOf_single, locationStrand?, locationBlocks, flip_eq, Option.map_some,
    beq_self_eq_true, Bool.and_true, Bool.and_eq_true]
  refine ⟨⟨?_, ?_⟩, ?_⟩
  · exact resultOk_mk _ par (by simp) (by simpa [wfLocation] using hb)
      (fun n hn x hx => by simp only [locationBlocks, List.mem_singleton] at hx; subst hx; exact hbd n hn)
  · simp [endsWithin, locationBlocks]
  · rw [allUpTo_iff]
    intro p _
    simp only [locationCovers, coversBlocks, List.any_cons, List.any_nil, Bool.or_false, beq_iff_eq]
    rw [Bool.eq_iff_iff]
    simp only [Bool.and_eq_true, decide_eq_true_eq]
    omega

theorem reverse_compound (la : Loc) (par : PKey) (hc : la.Canon)
    (hbd : ∀ n, parentSeqLen par = some n → ∀ b ∈ la.blocks, b.2 ≤ n) :
    okReverse (.compound la, par) (ans (reverseP (.compound la, par))) = true := by
  obtain ⟨f, rest, hbl, hspan, _⟩ := spanOf_compound la hc
  have hv := canon_valid la hc
  have hsorted : sortedBy (blkLe la.strand) (f :: rest) = true := by rw [← hbl]; exact hc.2.2
  have hmin : ∀ x ∈ la.blocks, f.1 ≤ x.1 := by
    intro x hx
    rw [hbl] at hx
    rcases List.mem_cons.mp hx with rfl | hx
    · exact Nat.le_refl _
    · exact sortedBy_head_le la.strand f rest hsorted x hx
  have hmax : ∀ x ∈ la.blocks, x.2 ≤ maxEnd la.blocks := by
    intro x hx; rw [← maxEndOf_eq_maxEnd]; exact le_maxEndOf_of_mem _ x hx
  have hs : locStart (.compound la) = .ok f.1 := by simp [locStart, hbl]; rfl
  have he : locEnd (.compound la) = .ok (maxEnd la.blocks) := by simp [locEnd, hbl]; rfl
  simp only [reverseP, hs, he, ok_bind]
  generalize hS : f.1 = S at *
  generalize hE : maxEnd la.blocks = E at *
  have hne' : la.blocks.map (fun b : Blk => (S + E - b.2, S + E - b.1)) ≠ [] := by simp [hbl]
  have hv' : ∀ b ∈ la.blocks.map (fun b : Blk => (S + E - b.2, S + E - b.1)), b.1 ≤ b.2 := by
    intro b hb
    obtain ⟨x, hx, rfl⟩ := List.mem_map.mp hb
    have := hv x hx
    simp only; omega
  have hE' : ∀ b ∈ la.blocks.map (fun b : Blk => (S + E - b.2, S + E - b.1)), b.2 ≤ E := by
    intro b hb
    obtain ⟨x, hx, rfl⟩ := List.mem_map.mp hb
    have := hmin x hx
    simp only; omega
  have hEn : ∀ n, parentSeqLen par = some n → E ≤ n := by
    intro n hn
    obtain ⟨b, hb, hbe⟩ := maxEndOf_mem la.blocks hc.1
    have := hbd n hn b hb
    rw [maxEndOf_eq_maxEnd, hE] at hbe
    omega
  rw [mkCompoundP_ok _ _ par hne' hv' (fun n hn b hb => Nat.le_trans (hE' b hb) (hEn n hn))]
  simp only [ans_ok, okReverse, hspan, locationStrand?, locationBlocks, flip_eq, Option.map_some,
    beq_self_eq_true, Bool.and_true, Bool.and_eq_true]
  refine ⟨⟨⟨?_, ?_⟩, ?_⟩, ?_⟩
  · refine resultOk_mk _ par (by simp) (wf_compound_sort _ _ hne' hv') ?_
    intro n hn b hb
    exact Nat.le_trans (hE' b ((sortBlocks_perm _ _).mem_iff.mp hb)) (hEn n hn)
  · simp only [endsWithin, locationBlocks, List.all_eq_true, decide_eq_true_eq]
    intro b hb
    exact hE' b ((sortBlocks_perm _ _).mem_iff.mp hb)
  · rw [allUpTo_iff]
    intro p _
    simp only [locationCovers, covers, coversBlocks_sort, beq_iff_eq]
    rw [Bool.eq_iff_iff]
    simp only [Bool.and_eq_true, decide_eq_true_eq, coversBlocks_iff]
    constructor
    · rintro ⟨b, hb, h1, h2⟩
      obtain ⟨x, hx, rfl⟩ := List.mem_map.mp hb
      have := hmin x hx
      have := hmax x hx
      have := hv x hx
      simp only at h1 h2
      exact ⟨⟨by omega, by omega⟩, x, hx, by omega, by omega⟩
    · rintro ⟨⟨h1, h2⟩, x, hx, h3, h4⟩
      have := hmin x hx
      have := hmax x hx
      have := hv x hx
      exact ⟨_, List.mem_map.mpr ⟨x, hx, rfl⟩, by simp only; omega, by simp only; omega⟩
  · simp [(sortBlocks_perm _ _).length_eq]


/-! ### `optimize_blocks` on layouts whose non-empty blocks are disjoint -/

def nonEmptyB (b : Blk) : Bool := decide (b.1 < b.2)

theorem comb_cons (c b : Blk) (bs : List Blk) : comb c (b :: bs) =
    if b.2 - b.1 = 0 then comb c bs else if c.2 = b.1 then comb (c.1, max c.2 b.2) bs else c :: comb b bs := by
  rw [comb]

theorem combStart_cons (b : Blk) (bs : List Blk) : combStart (b :: bs) =
    if b.2 - b.1 = 0 then combStart bs else comb b bs := by
  rw [combStart]

theorem comb_filter (c : Blk) (bs : List Blk) : comb c bs = comb c (bs.filter nonEmptyB) := by
  induction bs generalizing c with
  | nil => rfl
  | cons b bs ih =>
    by_cases h0 : b.2 - b.1 = 0
    · have : nonEmptyB b = false := by simp [nonEmptyB]; omega
      rw [List.filter_cons_of_neg (by simp [this])]
      rw [comb_cons]
      simp only [h0, if_true]
      exact ih c
    · have : nonEmptyB b = true := by simp [nonEmptyB]; omega
      rw [List.filter_cons_of_pos this]
      rw [comb_cons, comb_cons]
      simp only [h0, if_false]
      split
      · exact ih _
      · rw [ih b]

theorem combStart_filter (bs : List Blk) : combStart bs = combStart (bs.filter nonEmptyB) := by
  induction bs with
  | nil => rfl
  | cons b bs ih =>
    by_cases h0 : b.2 - b.1 = 0
    · have : nonEmptyB b = false := by simp [nonEmptyB]; omega
      rw [List.filter_cons_of_neg (by simp [this])]
      rw [combStart_cons]
      simp only [h0, if_true]
      exact ih
    · have : nonEmptyB b = true := by simp [nonEmptyB]; omega
      rw [List.filter_cons_of_pos this]
      rw [combStart_cons, combStart_cons]
      simp only [h0, if_false]
      exact comb_filter b bs

theorem comb_disjoint (c : Blk) (bs : List Blk) (hne : ∀ b ∈ bs, b.1 < b.2)
    (hp : (c :: bs).Pairwise (fun a b => a.2 ≤ b.1)) :
    (comb c bs).Pairwise (fun a b => a.2 ≤ b.1) := by
  induction bs generalizing c with
  | nil => simp [comb]
  | cons b bs ih =>
    have hb := hne b (by simp)
    have hne' : ∀ x ∈ bs, x.1 < x.2 := fun x hx => hne x (List.mem_cons_of_mem _ hx)
    rw [List.pairwise_cons] at hp
    obtain ⟨hc, hp2⟩ := hp
    have hp2' := List.pairwise_cons.mp hp2
    unfold comb
    have h0 : ¬ (b.2 - b.1 = 0) := by omega
    simp only [h0, if_false]
    split
    · rename_i h1
      apply ih _ hne'
      rw [List.pairwise_cons]
      refine ⟨?_, hp2'.2⟩
      intro x hx
      have := hp2'.1 x hx
      have := hc b (by simp)
      simp only; omega
    · rw [List.pairwise_cons]
      refine ⟨?_, ih b hne' hp2⟩
      intro x hx
      have hsub := comb_starts b bs
      have hx1 : x.1 ∈ (comb b bs).map Prod.fst := List.mem_map.mpr ⟨x, hx, rfl⟩
      have hx2 := hsub.subset hx1
      rcases List.mem_cons.mp hx2 with h | h
      · have := hc b (by simp); omega
      · obtain ⟨y, hy, hy1⟩ := List.mem_map.mp h
        have := hc y (List.mem_cons_of_mem _ hy)
        omega

theorem combStart_disjoint (bs : List Blk) (hne : ∀ b ∈ bs, b.1 < b.2)
    (hp : bs.Pairwise (fun a b => a.2 ≤ b.1)) :
    (combStart bs).Pairwise (fun a b => a.2 ≤ b.1) := by
  cases bs with
  | nil => simp [combStart]
  | cons b bs =>
    have hb := hne b (by simp)
    have h0 : ¬ (b.2 - b.1 = 0) := by omega
    unfold combStart
    simp only [h0, if_false]
    exact comb_disjoint b bs (fun x hx => hne x (List.mem_cons_of_mem _ hx)) hp

/-- the normal-form clause: the layout is judged on the plus-sorted blocks, the library sorts for its strand -/
theorem opt_normal_of_plus (L : List Blk) (st : Strand) (hv : ∀ b ∈ L, b.1 ≤ b.2)
    (hno : nonOverlap (sortBlocks .plus L) = true) (r : Location)
    (hr : optimizeLoc true ⟨sortBlocks st L, st⟩ = .ok r) (hspec : OptSpec true (sortBlocks st L) st r) :
    normalBlocks (locationBlocks r) = true := by
  have hPp := nonOverlap_pairwise _ (sortBlocks_valid .plus hv) hno
  have hF : ((sortBlocks .plus L).filter nonEmptyB).Pairwise (fun a b => a.2 ≤ b.1) :=
    hPp.sublist List.filter_sublist
  have hFne : ∀ b ∈ (sortBlocks .plus L).filter nonEmptyB, b.1 < b.2 := by
    intro b hb
    have := (List.mem_filter.mp hb).2
    simpa [nonEmptyB] using this
  have hFlt := fst_lt_of_asc _ hF hFne
  have hSF : (sortBlocks st L).filter nonEmptyB = (sortBlocks .plus L).filter nonEmptyB :=
    List.Perm.eq_of_pairwise (le := fun a b => blkLe st a b = true)
      (fun a b _ _ => blkLe_antisymm st a b)
      ((sortBlocks_pairwise st L).sublist List.filter_sublist) (fst_lt_blkLe st _ hFlt)
      (((sortBlocks_perm st L).filter _).trans ((sortBlocks_perm .plus L).filter _).symm)
  have hcs : combStart (sortBlocks st L) = combStart ((sortBlocks .plus L).filter nonEmptyB) := by
    rw [combStart_filter, hSF]
  have hCn := combStart_normal (sortBlocks st L)
  have hCpos := normal_pos _ hCn
  have hCd : (combStart (sortBlocks st L)).Pairwise (fun a b => a.2 ≤ b.1) := by
    rw [hcs]; exact combStart_disjoint _ hFne hF
  have hClt := fst_lt_of_asc _ hCd hCpos
  by_cases hC : combStart (sortBlocks st L) = []
  · have hb0 : basesPlus (sortBlocks st L) = [] := by
      rw [← combStart_bases _ (sortBlocks_valid st hv), hC]; rfl
    have hb1 := hspec.bases rfl
    rw [hb0] at hb1
    have hb2 := List.Perm.eq_nil hb1
    cases hbl : locationBlocks r with
    | nil => rfl
    | cons b t =>
      have hpos := hspec.pos b (by simp [hbl])
      rw [hbl] at hb2
      simp only [basesPlus, blkAsc, List.append_eq_nil_iff, List.range'_eq_nil_iff] at hb2
      omega
  · have hs : sortBlocks st (sortBlocks st L) = sortBlocks st L :=
      sortBlocks_eq_of_perm_sorted st (List.Perm.refl _) (sortBlocks_pairwise st L)
    rw [optimizeLoc_true_ok _ st hs hC] at hr
    cases hr
    rw [locationBlocks_toSingleIfOne]
    simp only
    rw [sortBlocks_of_fst_lt st hClt]
    exact hCn

theorem locationBases_perm (l : Location) : (locationBases l).Perm (basesPlus (locationBlocks l)) := by
  cases l with
  | empty => exact List.Perm.refl _
  | single b s =>
    simp only [locationBases, locationBlocks, bases_mk]
    split
    · exact List.reverse_perm _
    · exact List.Perm.refl _
  | compound l =>
    obtain ⟨bs, st⟩ := l
    simp only [locationBases, locationBlocks, bases_mk]
    split
    · exact List.reverse_perm _
    · exact List.Perm.refl _

theorem strand_of_ne (l : Location) (h : l ≠ .empty) :
    ∃ s, locStrand l = .ok s ∧ locationStrand? l = some s := by
  cases l with
  | empty => exact absurd rfl h
  | single b s => exact ⟨s, rfl, rfl⟩
  | compound l => exact ⟨l.strand, rfl, rfl⟩

theorem blocks_ne_of_ne (l : Location) (hw : WF l) (h : l ≠ .empty) : locationBlocks l ≠ [] := by
  cases l with
  | empty => exact absurd rfl h
  | single b s => simp [locationBlocks]
  | compound l => exact hw.1

theorem blocks_valid_of_wf (l : Location) (hw : WF l) : ∀ b ∈ locationBlocks l, b.1 ≤ b.2 := by
  cases l with
  | empty => simp [locationBlocks]
  | single b s => intro x hx; simp only [locationBlocks, List.mem_singleton] at hx; subst hx; exact hw
  | compound l => exact canon_valid l hw


end BioCantor.Proofs.Misc

namespace BioCantor.Proofs
open BioCantor BioCantor.Spec BioCantor.Model BioCantor.Proofs.Misc

theorem reverseStrandP_ok (a : PLoc) (ha : WFP a) : okReverseStrand a (ans (reverseStrandP a)) = true := by
  obtain ⟨l, par⟩ := a
  obtain ⟨hwf, hemp, hbd⟩ := ha
  cases l with
  | empty => simp [reverseStrandP, okReverseStrand, locationStrand?]
  | single b st =>
    have hb : b.1 ≤ b.2 := hwf
    simp only [reverseStrandP]
    rw [mkSingleP_ok b _ par hb (fun n hn => hbd n hn b (by simp [locationBlocks]))]
    simp only [ans_ok, okReverseStrand, locationStrand?, sameBlocksOn, locationBlocks, flip_eq,
      Bool.and_eq_true, beq_self_eq_true, and_true]
    exact resultOk_mk _ par (by simp) (by simpa [wfLocation] using hb) (fun n hn => hbd n hn)
  | compound la =>
    have hc : la.Canon := hwf
    simp only [reverseStrandP]
    rw [mkCompoundP_ok la.blocks _ par hc.1 (canon_valid la hc) (fun n hn => hbd n hn)]
    simp only [ans_ok, okReverseStrand, locationStrand?, sameBlocksOn, locationBlocks, flip_eq,
      Bool.and_eq_true, beq_self_eq_true, and_true, sort_plus_sort]
    refine resultOk_mk _ par (by simp) (wf_compound_sort _ _ hc.1 (canon_valid la hc)) ?_
    intro n hn b hb
    exact hbd n hn b ((sortBlocks_perm _ _).mem_iff.mp hb)

theorem resetStrandP_ok (a : PLoc) (ha : WFP a) (ns : Strand) : okResetStrand a ns (ans (resetStrandP a ns)) = true := by
  obtain ⟨l, par⟩ := a
  obtain ⟨hwf, hemp, hbd⟩ := ha
  cases l with
  | empty => simp [resetStrandP, okResetStrand]
  | single b st =>
    have hb : b.1 ≤ b.2 := hwf
    simp only [resetStrandP]
    rw [mkSingleP_ok b _ par hb (fun n hn => hbd n hn b (by simp [locationBlocks]))]
    simp only [ans_ok, okResetStrand, locationStrand?, sameBlocksOn, locationBlocks,
      Bool.and_eq_true, beq_self_eq_true, and_true]
    exact resultOk_mk _ par (by simp) (by simpa [wfLocation] using hb) (fun n hn => hbd n hn)
  | compound la =>
    have hc : la.Canon := hwf
    simp only [resetStrandP]
    rw [mkCompoundP_ok la.blocks _ par hc.1 (canon_valid la hc) (fun n hn => hbd n hn)]
    simp only [ans_ok, okResetStrand, locationStrand?, sameBlocksOn, locationBlocks,
      Bool.and_eq_true, beq_self_eq_true, and_true, sort_plus_sort]
    refine resultOk_mk _ par (by simp) (wf_compound_sort _ _ hc.1 (canon_valid la hc)) ?_
    intro n hn b hb
    exact hbd n hn b ((sortBlocks_perm _ _).mem_iff.mp hb)

theorem shiftP_ok (a : PLoc) (ha : WFP a) (k : Int) : okShift a k (ans (shiftP a k)) = true := by
  obtain ⟨l, par⟩ := a
  obtain ⟨hwf, hemp, hbd⟩ := ha
  cases l with
  | empty => simp [shiftP, okShift, spanOf, locationBlocks]
  | single b st => exact shift_single b st par hwf k
  | compound la => exact shift_compound la par hwf k

theorem reverseP_ok (a : PLoc) (ha : WFP a) : okReverse a (ans (reverseP a)) = true := by
  obtain ⟨l, par⟩ := a
  obtain ⟨hwf, hemp, hbd⟩ := ha
  cases l with
  | empty => simp [reverseP, okReverse, spanOf, locationBlocks]
  | single b st => exact reverse_single b st par hwf (fun n hn => hbd n hn b (by simp [locationBlocks]))
  | compound la => exact reverse_compound la par hwf (fun n hn => hbd n hn)

/-- union_preserve_overlaps: the multiset of covered positions is the sum of the operands'; refused for EmptyLocation
    operands, different strands, incompatible parents (two-sided test since the repair of F-C19j) -/
theorem unionPreserveP_ok (a b : PLoc) (ha : WFP a) (hb : WFP b) :
    okUnionPreserve a b (ans (unionPreserveP a b)) = true := by
  obtain ⟨la, pa⟩ := a
  obtain ⟨lb, pb⟩ := b
  obtain ⟨hwa, _, hbda⟩ := ha
  obtain ⟨hwb, _, hbdb⟩ := hb
  simp only at hwa hwb hbda hbdb
  by_cases hea : la = .empty
  · subst hea; simp [unionPreserveP, okUnionPreserve, unionRefused]
  have heq : unionPreserveP (la, pa) (lb, pb) = (do
      let sa ← locStrand la
      let sb ← locStrand lb
      if sa ≠ sb then throw .InvalidStrand
      if !pa.isEmpty || !pb.isEmpty then requireParentsEq pa pb
      let c ← mkCompoundP (locBlocks la ++ locBlocks lb) sa pa
      optimizeBlocksP c) := by
    cases la with
    | empty => exact absurd rfl hea
    | single _ _ => rfl
    | compound _ => rfl
  obtain ⟨sa, hls, hss⟩ := strand_of_ne la hea
  have hea' : (la == Location.empty) = false := by simpa using hea
  by_cases heb : lb = .empty
  · subst heb
    have : locStrand Location.empty = .error .EmptyLocation := rfl
    rw [heq, hls, this]
    simp [okUnionPreserve, unionRefused]
    rfl
  obtain ⟨sb, hls', hss'⟩ := strand_of_ne lb heb
  have heb' : (lb == Location.empty) = false := by simpa using heb
  rw [heq, hls, hls']
  simp only [ok_bind]
  by_cases hst : ¬ sa = sb
  · have : strandEq la lb = false := by simp [strandEq, hss, hss', hst]
    simp [okUnionPreserve, unionRefused, this, hst]
    rfl
  have hst := Decidable.not_not.mp hst
  subst hst
  have hse : strandEq la lb = true := by simp [strandEq, hss, hss']
  cases hsp : sameParent pa pb with
  | false =>
    have hpe : (!pa.isEmpty || !pb.isEmpty) = true := by
      cases pa <;> cases pb <;> simp_all [sameParent]
    simp [okUnionPreserve, unionRefused, hsp, hpe, requireParentsEq_eq]
    rfl
  | true =>
    rw [requireParentsEq_eq, hsp]
    simp only [ne_eq, not_true_eq_false, if_false, if_true, ok_bind, ite_self]
    rw [locBlocks_eq, locBlocks_eq]
    have hseq := sameParent_seqLen pa pb hsp
    have hLne : locationBlocks la ++ locationBlocks lb ≠ [] := by
      have := blocks_ne_of_ne la hwa hea
      simp [this]
    have hLv : ∀ x ∈ locationBlocks la ++ locationBlocks lb, x.1 ≤ x.2 := by
      intro x hx
      rcases List.mem_append.mp hx with h | h
      · exact blocks_valid_of_wf la hwa x h
      · exact blocks_valid_of_wf lb hwb x h
    have hLb : ∀ n, parentSeqLen pa = some n → ∀ x ∈ locationBlocks la ++ locationBlocks lb, x.2 ≤ n := by
      intro n hn x hx
      rcases List.mem_append.mp hx with h | h
      · exact hbda n hn x h
      · exact hbdb n (hseq ▸ hn) x h
    rw [mkCompoundP_ok _ sa pa hLne hLv hLb]
    obtain ⟨r, hr, hspec⟩ := optimizeLoc_spec true _ sa (canon_sortBlocks sa hLne hLv)
    simp only [ok_bind, optimizeBlocksP, optimizeBlocks, hr, pure, Except.pure, ans_ok]
    simp only [okUnionPreserve, unionRefused, hea', heb', hse, hsp, Bool.not_true, Bool.or_false, Bool.false_eq_true,
      if_false, withPar_fst, Bool.and_eq_true]
    refine ⟨⟨⟨⟨⟨?_, ?_⟩, ?_⟩, ?_⟩, ?_⟩, ?_⟩
    · apply resultOk_withPar r pa pa hspec.wf _ (sameParent_refl pa)
      intro n hn x hx
      have h1 := hspec.ends_le x hx
      have h2 : maxEndOf (sortBlocks sa (locationBlocks la ++ locationBlocks lb)) ≤ n := by
        rw [maxEndOf_perm (sortBlocks_perm _ _), maxEndOf_le_iff]
        exact hLb n hn
      omega
    · rw [beq_iff_eq]
      apply sortNat_perm
      refine (locationBases_perm r).trans ((hspec.bases rfl).trans ?_)
      refine (basesPlus_perm (sortBlocks_perm _ _)).trans ?_
      rw [basesPlus_append]
      exact ((locationBases_perm la).symm).append ((locationBases_perm lb).symm)
    · rw [hss]; exact hspec.strandIs
    · exact hspec.noEmptyBlock
    · exact hspec.kind
    · split
      · rename_i hno
        exact opt_normal_of_plus _ sa hLv hno r hr hspec
      · rfl


/-! ### the hypotheses are satisfiable -/

example : WFP ((.compound ⟨[(0, 2), (2, 2), (3, 5)], .minus⟩), [(some "chrA", none, some ['A','C','G','T','A'])]) := by
  decide

example : WFP ((.single (1, 4) .minus), [(some "chrA", none, some ['A','C','G','T','A'])]) := by
  decide

end BioCantor.Proofs
