/-
  C04: lifting through nested coordinate systems is composition of the level maps and preserves the
  letters read; the chunk-down map returns exactly the part of a location inside the chunk.
-/
import BioCantor.Proofs.LiftDefs
import BioCantor.Proofs.RelInterval
import BioCantor.Proofs.LiftChunk
namespace BioCantor.Proofs
open BioCantor BioCantor.Spec BioCantor.Model

theorem liftToType_ok (t : List Char) (c : Location) (ch : Chain) (hc : WF c) (hch : ChainWF ch)
    (hcons : Consistent (ch.map toSLevel)) :
    okLiftType t c (ch.map toSLevel) (ans (Prod.fst <$> liftToType t c ch)) = true := by
  sorry

theorem liftToSeq_ok (k : SeqKey) (c : Location) (ch : Chain) (hc : WF c) (hch : ChainWF ch)
    (hcons : Consistent (ch.map toSLevel)) :
    okLiftSeq k c (ch.map toSLevel) (ans (Prod.fst <$> liftToSeq k c ch)) = true := by
  sorry

theorem chunkDown_ok (l : Location) (hl : WF l) (w : Blk) (wst : Strand) :
    okChunkDown l w wst (ans (chunkDown l w wst)) = true :=
  chunkDown_spec l hl w wst

end BioCantor.Proofs
