/-
  C04: lifting through nested coordinate systems is composition of the level maps and preserves the
  letters read; the chunk-down map returns exactly the part of a location inside the chunk.
-/
import BioCantor.Proofs.LiftDefs
import BioCantor.Proofs.RelInterval
import BioCantor.Proofs.LiftChunk
import BioCantor.Proofs.LiftSteps
namespace BioCantor.Proofs
open BioCantor BioCantor.Spec BioCantor.Model

namespace Lift

theorem ans_map {α β} (f : α → β) (x : Except Err α) : ans (f <$> x) = (ans x).map f := by
  cases x <;> rfl

theorem ans_none_iff {α} (x : Except Err α) : ans x = none ↔ ∃ e, x = .error e := by
  cases x <;> simp [ans]

theorem hasAncestorOfType_eq (t : List Char) (ch : Chain) :
    hasAncestorOfType t ch = (findType t (ch.map toSLevel)).isSome := by
  induction ch with
  | nil => rfl
  | cons l ch ih =>
    unfold hasAncestorOfType at ih ⊢
    simp only [List.any_cons, List.map_cons, findType, toSLevel]
    by_cases h : (l.type == t) = true
    · simp [h]
    · simp only [h, Bool.false_or]
      simpa [toSLevel] using ih

theorem chainWF_tail (l : Level) (ch : Chain) (h : ChainWF (l :: ch)) : ChainWF ch :=
  fun x hx p hp => h x (by simp [hx]) p hp

theorem liftToType_prop (t : List Char) : ∀ (ch : Chain) (c : Location), WF c → c ≠ .empty → ChainWF ch →
    match findType t (ch.map toSLevel) with
    | none => ans (Prod.fst <$> liftToType t c ch) = none
    | some k => LiftedProp c ((((ch.map toSLevel).drop 1).take k).map (·.place))
        (ans (Prod.fst <$> liftToType t c ch)) := by
  intro ch
  induction ch with
  | nil => intro c _ _ _; simp [findType, liftToType, ans_map]
  | cons l0 rest ih =>
    intro c hc hce hch
    have hb : (c == Location.empty) = false := by simpa using hce
    rw [liftToType.eq_def]
    simp only [hb, Bool.false_eq_true, if_false, hasAncestorOfType_eq]
    have hft : findType t (List.map toSLevel (l0 :: rest)) =
        if (l0.type == t) = true then some 0 else (findType t (rest.map toSLevel)).map (· + 1) := rfl
    rw [hft]
    by_cases h0 : (l0.type == t) = true
    · simp only [h0, if_true, Option.isSome_some, not_true, if_false, List.take_zero, List.map_nil]
      exact lifted_base c hc hce
    simp only [h0, if_false, Bool.false_eq_true]
    have hch' := chainWF_tail l0 rest hch
    cases rest with
    | nil => simp [findType, ans_map, throw, throwThe, MonadExceptOf.throw]
    | cons l1 up =>
      cases hf : findType t ((l1 :: up).map toSLevel) with
      | none => simp [ans_map, throw, throwThe, MonadExceptOf.throw]
      | some k' =>
        simp only [Option.map_some, Option.isSome_some, not_true, if_false]
        have hplaces : List.map (fun x => x.place)
              (List.take (k' + 1) (List.drop 1 (List.map toSLevel (l0 :: l1 :: up)))) =
            l1.place :: List.map (fun x => x.place)
              (List.take k' (List.drop 1 (List.map toSLevel (l1 :: up)))) := by
          simp [toSLevel]
        rw [hplaces]
        cases hp : l1.place with
        | none =>
          simp only [ans_map, throw, throwThe, MonadExceptOf.throw, ans_error, Option.map_none]
          exact lifted_none c _
        | some p =>
          simp only []
          have hpw : WF p := hch l1 (by simp) p hp
          rcases lift_step c p hc hpw hce with ⟨hfail, hwhy⟩ | ⟨m, ys, hm, hth, hcne, hmw, hmne, hmst, hmp, hmex, _⟩
          · obtain ⟨e, he⟩ := (ans_none_iff _).mp hfail
            rw [he]
            simp only [bind, Except.bind, ans_map, ans_error, Option.map_none]
            exact lifted_fail c p _ hwhy
          · rw [hm]
            simp only [bind, Except.bind]
            have ih' := ih m hmw hmne hch'
            rw [hf] at ih'
            exact lifted_step c p m ys _ _ hth hcne hmst hmp hmex ih'

end Lift
open Lift

theorem liftToType_ok (t : List Char) (c : Location) (ch : Chain) (hc : WF c) (hch : ChainWF ch)
    (hcons : Consistent (ch.map toSLevel)) :
    okLiftType t c (ch.map toSLevel) (ans (Prod.fst <$> liftToType t c ch)) = true := by
  unfold okLiftType
  by_cases hce : c = .empty
  · subst hce
    have hnone : ans (Prod.fst <$> liftToType t .empty ch) = none := by
      rw [liftToType.eq_def]
      cases ch <;> simp [ans_map, throw, throwThe, MonadExceptOf.throw]
    rw [hnone]
    cases findType t (ch.map toSLevel) with
    | none => rfl
    | some k => exact okLifted_empty _ k
  · have h := liftToType_prop t ch c hc hce hch
    cases hf : findType t (ch.map toSLevel) with
    | none => rw [hf] at h; simp [h]
    | some k => rw [hf] at h; exact okLifted_of c _ k _ hcons hce h

/-! ### lift_over_to_sequence -/

namespace Lift

theorem isContiguous_ok (c : Location) (hce : c ≠ .empty) :
    ∃ b, isContiguous c = .ok b ∧ (b = false → ¬ (locationBlocks c).length ≤ 1) := by
  cases c with
  | empty => exact absurd rfl hce
  | single b s => exact ⟨true, rfl, by simp⟩
  | compound l =>
    refine ⟨isContiguous.go l.blocks, rfl, ?_⟩
    intro h hlen
    simp only [locationBlocks] at hlen
    match hl : l.blocks, hlen with
    | [], _ => rw [hl] at h; simp [isContiguous.go] at h
    | [_], _ => rw [hl] at h; simp [isContiguous.go] at h

theorem liftToSeq_false (k : SeqKey) (c : Location) (ch : Chain) (h : isContiguous c = .ok false) :
    ans (Prod.fst <$> liftToSeq k c ch) = none := by
  rw [liftToSeq.eq_def]
  simp [h, bind, Except.bind, throw, throwThe, MonadExceptOf.throw, ans_map]

theorem liftToSeq_true (k : SeqKey) (c : Location) (ch : Chain) (h : isContiguous c = .ok true) :
    liftToSeq k c ch =
      (match ch with
        | [] => throw Err.NoSuchAncestor
        | l0 :: rest =>
          if ¬hasAncestorSeq k (l0 :: rest) = true then throw Err.NoSuchAncestor
          else
            if (levelSeqKey l0 == some k) = true then pure (c, l0 :: rest)
            else
              match rest with
              | [] => throw Err.NullParent
              | l1 :: up =>
                match l1.place with
                | none => throw Err.NullParent
                | some p => do
                  let lifted ← liftOnce c p
                  liftToSeq k lifted (l1 :: up)) := by
  rw [liftToSeq.eq_def]
  simp only [h, bind, Except.bind]
  rfl

theorem hasAncestorSeq_eq (k : SeqKey) (ch : Chain) :
    hasAncestorSeq k ch = (findSeq k (ch.map toSLevel)).isSome := by
  induction ch with
  | nil => rfl
  | cons l ch ih =>
    unfold hasAncestorSeq at ih ⊢
    simp only [List.any_cons, List.map_cons, findSeq, toSLevel, levelSeqKey]
    by_cases h : (Option.map (fun s => (l.id, l.type, s)) l.seq == some k) = true
    · simp [h]
    · simp only [h, Bool.false_or]
      simpa [toSLevel, levelSeqKey] using ih

def oneBlockAll (places : List (Option Location)) : Bool :=
  places.all (fun q => match q with | some p => decide ((locationBlocks p).length ≤ 1) | none => true)

def SeqLiftProp (c : Location) (places : List (Option Location)) (a : Option Location) : Prop :=
  (a = none ∧ ¬ ((locationBlocks c).length ≤ 1 ∧ oneBlockAll places = true)) ∨ LiftedProp c places a

theorem liftToSeq_prop (key : SeqKey) : ∀ (ch : Chain) (c : Location), WF c → c ≠ .empty → ChainWF ch →
    match findSeq key (ch.map toSLevel) with
    | none => ans (Prod.fst <$> liftToSeq key c ch) = none
    | some k => SeqLiftProp c ((((ch.map toSLevel).drop 1).take k).map (·.place))
        (ans (Prod.fst <$> liftToSeq key c ch)) := by
  intro ch
  induction ch with
  | nil =>
    intro c _ hce _
    obtain ⟨b, hb, _⟩ := isContiguous_ok c hce
    cases b with
    | false => simpa [findSeq] using liftToSeq_false key c [] hb
    | true => rw [liftToSeq_true key c [] hb]; simp [findSeq, ans_map, throw, throwThe, MonadExceptOf.throw]
  | cons l0 rest ih =>
    intro c hc hce hch
    obtain ⟨b, hb, hbl⟩ := isContiguous_ok c hce
    cases b with
    | false =>
      rw [liftToSeq_false key c _ hb]
      split
      · rfl
      · left; exact ⟨rfl, fun h => hbl rfl h.1⟩
    | true =>
    rw [liftToSeq_true key c _ hb]
    simp only [hasAncestorSeq_eq]
    have hft : findSeq key (List.map toSLevel (l0 :: rest)) =
        if (levelSeqKey l0 == some key) = true then some 0
        else (findSeq key (rest.map toSLevel)).map (· + 1) := rfl
    rw [hft]
    by_cases h0 : (levelSeqKey l0 == some key) = true
    · simp only [h0, if_true, Option.isSome_some, not_true, if_false, List.take_zero, List.map_nil]
      right
      exact lifted_base c hc hce
    simp only [h0, if_false, Bool.false_eq_true]
    have hch' := chainWF_tail l0 rest hch
    cases rest with
    | nil => simp [findSeq, ans_map, throw, throwThe, MonadExceptOf.throw]
    | cons l1 up =>
      cases hf : findSeq key ((l1 :: up).map toSLevel) with
      | none => simp [ans_map, throw, throwThe, MonadExceptOf.throw]
      | some k' =>
        simp only [Option.map_some, Option.isSome_some, not_true, if_false]
        have hplaces : List.map (fun x => x.place)
              (List.take (k' + 1) (List.drop 1 (List.map toSLevel (l0 :: l1 :: up)))) =
            l1.place :: List.map (fun x => x.place)
              (List.take k' (List.drop 1 (List.map toSLevel (l1 :: up)))) := by
          simp [toSLevel]
        rw [hplaces]
        cases hp : l1.place with
        | none =>
          simp only [ans_map, throw, throwThe, MonadExceptOf.throw, ans_error, Option.map_none]
          right
          exact lifted_none c _
        | some p =>
          simp only []
          have hpw : WF p := hch l1 (by simp) p hp
          rcases lift_step c p hc hpw hce with ⟨hfail, hwhy⟩ | ⟨m, ys, hm, hth, hcne, hmw, hmne, hmst, hmp, hmex, hone⟩
          · obtain ⟨e, he⟩ := (ans_none_iff _).mp hfail
            rw [he]
            simp only [bind, Except.bind, ans_map, ans_error, Option.map_none]
            right
            exact lifted_fail c p _ hwhy
          · rw [hm]
            simp only [bind, Except.bind]
            have ih' := ih m hmw hmne hch'
            rw [hf] at ih'
            rcases ih' with ⟨ha, hnot⟩ | ih'
            · left
              refine ⟨ha, ?_⟩
              intro hall
              apply hnot
              simp only [oneBlockAll, List.all_cons, Bool.and_eq_true, decide_eq_true_eq] at hall
              exact ⟨hone hall.1 hall.2.1, hall.2.2⟩
            · right
              exact lifted_step c p m ys _ _ hth hcne hmst hmp hmex ih'

end Lift

theorem liftToSeq_ok (k : SeqKey) (c : Location) (ch : Chain) (hc : WF c) (hch : ChainWF ch)
    (hcons : Consistent (ch.map toSLevel)) :
    okLiftSeq k c (ch.map toSLevel) (ans (Prod.fst <$> liftToSeq k c ch)) = true := by
  unfold okLiftSeq
  by_cases hce : c = .empty
  · subst hce
    have hnone : ans (Prod.fst <$> liftToSeq k .empty ch) = none := by
      rw [liftToSeq.eq_def]
      simp [isContiguous, bind, Except.bind, ans_map, throw, throwThe, MonadExceptOf.throw]
    rw [hnone]
    cases findSeq k (ch.map toSLevel) with
    | none => rfl
    | some n =>
      simp only []
      split
      · rfl
      · exact okLifted_empty _ n
  · have h := liftToSeq_prop k ch c hc hce hch
    cases hf : findSeq k (ch.map toSLevel) with
    | none => rw [hf] at h; simp [h]
    | some n =>
      rw [hf] at h
      simp only []
      rcases h with ⟨ha, hnot⟩ | h
      · rw [if_pos]
        refine ⟨by simp [ha], ?_⟩
        intro hall
        apply hnot
        refine ⟨hall.1, ?_⟩
        simp only [oneBlockAll, List.all_map]
        exact hall.2
      · split
        · rfl
        · exact okLifted_of c _ n _ hcons hce h

theorem chunkDown_ok (l : Location) (hl : WF l) (w : Blk) (wst : Strand) :
    okChunkDown l w wst (ans (chunkDown l w wst)) = true :=
  chunkDown_spec l hl w wst

end BioCantor.Proofs
