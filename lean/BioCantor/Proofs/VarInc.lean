/- C13: `incorporate_variants` of FeatureInterval / CDSInterval / TranscriptInterval for one variant. -/
import BioCantor.Proofs.VarFull
namespace BioCantor.Proofs.Var
open BioCantor BioCantor.Spec.Variants BioCantor.Model
open BioCantor.Model.Variants (Var altSeq1 lift1 Par slice Ver rebuild Shown incorporateFeature incorporateCDS
  incorporateTranscript Variants)

theorem extract_dir (s : Seq) (bs : List Blk) (st : Strand) (hst : st ≠ .unstranded) :
    Model.Variants.extract s bs st = .ok (onStrand st (bs.flatMap (slice s))) := by
  cases st with
  | plus => rfl
  | minus => simp only [Model.Variants.extract, onStrand, complement_eq, pure, Except.pure]
  | unstranded => exact absurd rfl hst

/-- what the rebuilt interval shows -/
def ShownOk (par : Par) (alt : Seq) (st : Strand) (target : Seq) (sh : Shown) : Prop :=
  sh.strand = st ∧ sh.seq = onStrand st target ∧ Asc sh.rel ∧ sh.rel ≠ [] ∧ (∀ y ∈ sh.rel, y.2 ≤ alt.length)
  ∧ sh.chrom = sh.rel.map (fun b => (b.1 + par.off, b.2 + par.off))
  ∧ sh.rel.flatMap (slice alt) = target

/-- `from_location` / `from_chunk_relative_location` on a lifted location that reads `target` -/
theorem rebuild_reads (par : Par) (alt : Seq) (st : Strand) (target : Seq) (r : Location) (hst : st ≠ .unstranded)
    (h : Reads alt st target r) (hr : r ≠ .empty) : ∃ sh, rebuild par alt r = .ok sh ∧ ShownOk par alt st target sh := by
  rcases h with ⟨he, _⟩ | ⟨_, hs, ha, hnn, hb, hread⟩
  · exact absurd he hr
  · cases par with
    | whole =>
      refine ⟨⟨st, locBlocks r, locBlocks r, onStrand st target⟩, ?_, rfl, rfl, ha, hnn, hb, ?_, hread⟩
      · simp only [rebuild, hs, bind, Except.bind, extract_dir alt _ st hst, hread, pure, Except.pure]
      · simp [Par.off]
    | chunk cs =>
      cases r with
      | empty => exact absurd rfl hr
      | single b s =>
        have hs' : s = st := by simpa [locStrand, pure, Except.pure] using hs
        subst hs'
        refine ⟨⟨s, [(b.1 + cs, b.2 + cs)], [b], onStrand s target⟩, ?_, rfl, rfl, ha, hnn, hb, rfl, hread⟩
        simp only [locBlocks] at hread
        simp only [rebuild, locStrand, bind, Except.bind, pure, Except.pure, locBlocks, List.map_cons, List.map_nil,
          extract_dir alt _ s hst, hread]
      | compound l =>
        have hs' : l.strand = st := by simpa [locStrand, pure, Except.pure] using hs
        simp only [locBlocks] at ha hnn hb hread
        have hl : l = ⟨l.blocks, st⟩ := by cases l; simp only at hs'; rw [hs']
        have hopt := optimizeLoc_asc l.blocks st ha hnn
        rw [← hl] at hopt
        have hadd := combStart_additive _ (slice_additive alt) l.blocks ha.valid
        refine ⟨⟨st, (combStart l.blocks).map (fun b => (b.1 + cs, b.2 + cs)), combStart l.blocks,
          onStrand st target⟩, ?_, rfl, rfl, asc_combStart ha, combStart_ne_nil ha hnn, ?_, rfl, ?_⟩
        · simp only [rebuild, locStrand, hs', bind, Except.bind, pure, Except.pure, hopt, locBlocks_toSingleIfOne,
            extract_dir alt _ st hst, hadd, hread]
        · exact combStart_forall (fun y => y.2 ≤ alt.length) (by intro a b ha hb _ _; simp only; omega) _ hb
        · rw [hadd]; exact hread

theorem asc_flatMap_ne_nil (alt : Seq) (M : List Blk) (hasc : Asc M) (hne : M ≠ []) (hb : ∀ y ∈ M, y.2 ≤ alt.length) :
    M.flatMap (slice alt) ≠ [] := by
  cases M with
  | nil => exact absurd rfl hne
  | cons b r =>
    have h1 := hasc.2 b (by simp)
    have h2 := hb b (by simp)
    intro h
    have hl := congrArg List.length h
    simp only [List.flatMap_cons, List.length_append, slice, List.length_take, List.length_drop, List.length_nil] at hl
    omega

/-- the common body of `incorporate_variants`: lift, refuse an EmptyLocation, rebuild -/
theorem incorporateFeature_clean (par : Par) (ref : Seq) (v : Var) (st : Strand) (bs : List Blk) (hst : st ≠ .unstranded)
    (hw : InWin par.off ref.length v) (hasc : Asc bs) (hbs : BlocksOk par.off ref.length v bs) (hne : bs ≠ []) :
    let target := bs.flatMap fun b => image ref [toEdit par.off v] (b.1 - par.off) (b.2 - par.off)
    (target = [] ∧ incorporateFeature .current par ref (.one v) (toSingleIfOne ⟨bs, st⟩) = .error .EmptyLocation)
    ∨ (target ≠ [] ∧ ∃ sh, incorporateFeature .current par ref (.one v) (toSingleIfOne ⟨bs, st⟩) = .ok sh
          ∧ ShownOk par (altSeq1 par.off ref v) st target sh) := by
  intro target
  obtain ⟨r, h1, h2⟩ := lift1_clean_full par ref v st bs hw hasc hbs hne
  simp only [incorporateFeature, Variants.lift, Variants.altSeq, h1, bind, Except.bind]
  cases r with
  | empty =>
    rcases h2 with ⟨_, ht⟩ | ⟨hr, _⟩
    · exact Or.inl ⟨ht, rfl⟩
    · exact absurd rfl hr
  | single b s =>
    obtain ⟨sh, hsh, hok⟩ := rebuild_reads par _ st target _ hst h2 (by simp)
    right
    refine ⟨?_, sh, hsh, hok⟩
    rw [← hok.2.2.2.2.2.2]; exact asc_flatMap_ne_nil _ _ hok.2.2.1 hok.2.2.2.1 hok.2.2.2.2.1
  | compound l =>
    obtain ⟨sh, hsh, hok⟩ := rebuild_reads par _ st target _ hst h2 (by simp)
    right
    refine ⟨?_, sh, hsh, hok⟩
    rw [← hok.2.2.2.2.2.2]; exact asc_flatMap_ne_nil _ _ hok.2.2.1 hok.2.2.2.1 hok.2.2.2.2.1

/-! ### CDS and transcript -/

theorem incorporateCDS_eq (ver : Ver) (par : Par) (ref : Seq) (vs : Variants) (loc : Location) :
    incorporateCDS ver par ref vs loc =
      (incorporateFeature ver par ref vs loc).bind
        (fun sh => if blocksLen sh.chrom = 0 then .error .InvalidCDSInterval else .ok sh) := by
  unfold incorporateCDS incorporateFeature
  simp only [bind, Except.bind]
  cases vs.lift ver par ref loc with
  | error e => rfl
  | ok nl =>
    cases nl with
    | empty => rfl
    | single b s => first | rfl | cases rebuild par (vs.altSeq par ref) (.single b s) <;> rfl
    | compound l => first | rfl | cases rebuild par (vs.altSeq par ref) (.compound l) <;> rfl

theorem blocksLen_pos (M : List Blk) (hasc : Asc M) (hne : M ≠ []) : blocksLen M ≠ 0 := by
  cases M with
  | nil => exact absurd rfl hne
  | cons b r =>
    have := hasc.2 b (by simp)
    simp only [blocksLen, Blk.len]; omega

theorem blocksLen_shift (M : List Blk) (k : Nat) : blocksLen (M.map fun b => (b.1 + k, b.2 + k)) = blocksLen M := by
  induction M with
  | nil => rfl
  | cons b r ih => simp only [List.map_cons, blocksLen, Blk.len, ih]; omega

/-- `CDSInterval.incorporate_variants` (location part) for one variant -/
theorem incorporateCDS_clean (par : Par) (ref : Seq) (v : Var) (st : Strand) (bs : List Blk) (hst : st ≠ .unstranded)
    (hw : InWin par.off ref.length v) (hasc : Asc bs) (hbs : BlocksOk par.off ref.length v bs) (hne : bs ≠ []) :
    let target := bs.flatMap fun b => image ref [toEdit par.off v] (b.1 - par.off) (b.2 - par.off)
    (target = [] ∧ incorporateCDS .current par ref (.one v) (toSingleIfOne ⟨bs, st⟩) = .error .EmptyLocation)
    ∨ (target ≠ [] ∧ ∃ sh, incorporateCDS .current par ref (.one v) (toSingleIfOne ⟨bs, st⟩) = .ok sh
          ∧ ShownOk par (altSeq1 par.off ref v) st target sh) := by
  intro target
  rw [incorporateCDS_eq]
  rcases incorporateFeature_clean par ref v st bs hst hw hasc hbs hne with ⟨h1, h2⟩ | ⟨h1, sh, h2, h3⟩
  · left; exact ⟨h1, by rw [h2]; rfl⟩
  · right
    refine ⟨h1, sh, ?_, h3⟩
    rw [h2]
    have : blocksLen sh.chrom ≠ 0 := by
      rw [h3.2.2.2.2.2.1, blocksLen_shift]; exact blocksLen_pos _ h3.2.2.1 h3.2.2.2.1
    simp only [Except.bind, this, if_false]

/-- `TranscriptInterval.incorporate_variants`: CDS first, then the exons (the body of the feature method), then the
    constructor's CDS-bounds check -/
theorem incorporateTranscript_eq (ver : Ver) (par : Par) (ref : Seq) (vs : Variants) (exons : Location)
    (cds : Option Location) :
    incorporateTranscript ver par ref vs exons cds =
      ((match cds with
        | some c => (incorporateCDS ver par ref vs c).bind (fun s => .ok (some s))
        | none => .ok none) : R (Option Shown)).bind (fun newCds =>
      (incorporateFeature ver par ref vs exons).bind (fun sh =>
        match newCds with
        | none => .ok (sh, none)
        | some c =>
          match sh.chrom.head?, sh.chrom.getLast?, c.chrom.head?, c.chrom.getLast? with
          | some e0, some eN, some c0, some cN =>
            if c0.1 < e0.1 then .error .InvalidCDSInterval
            else if cN.2 > eN.2 then .error .InvalidCDSInterval
            else .ok (sh, some c)
          | _, _, _, _ => .error .Location)) := by
  unfold incorporateTranscript incorporateFeature
  simp only [bind, Except.bind, pure, Except.pure]
  cases cds with
  | none =>
    cases vs.lift ver par ref exons with
    | error e => rfl
    | ok nl =>
      cases nl with
      | empty => rfl
      | single b s => first | rfl | cases rebuild par (vs.altSeq par ref) (.single b s) <;> rfl
      | compound l => first | rfl | cases rebuild par (vs.altSeq par ref) (.compound l) <;> rfl
  | some c =>
    dsimp only
    cases incorporateCDS ver par ref vs c with
    | error e => rfl
    | ok sc =>
      dsimp only [Except.bind]
      cases vs.lift ver par ref exons with
      | error e => rfl
      | ok nl =>
        cases nl with
        | empty => rfl
        | single b s => first | rfl | cases rebuild par (vs.altSeq par ref) (.single b s) <;> rfl
        | compound l => first | rfl | cases rebuild par (vs.altSeq par ref) (.compound l) <;> rfl

/-- non-coding transcript: exactly the feature statement -/
theorem incorporateTranscript_noncoding (ver : Ver) (par : Par) (ref : Seq) (vs : Variants) (exons : Location) :
    incorporateTranscript ver par ref vs exons none =
      (incorporateFeature ver par ref vs exons).bind (fun sh => .ok (sh, none)) := by
  rw [incorporateTranscript_eq]; rfl

/-- coding transcript: whenever the call returns, the exon part and the CDS part are the results of the feature /
    CDS methods (so each spliced sequence is the reference spliced sequence with the edit applied) -/
theorem incorporateTranscript_parts (ver : Ver) (par : Par) (ref : Seq) (vs : Variants) (exons c : Location)
    (sh : Shown) (oc : Option Shown) (h : incorporateTranscript ver par ref vs exons (some c) = .ok (sh, oc)) :
    incorporateFeature ver par ref vs exons = .ok sh ∧
      ∃ sc, oc = some sc ∧ incorporateCDS ver par ref vs c = .ok sc := by
  rw [incorporateTranscript_eq] at h
  simp only at h
  cases hc : incorporateCDS ver par ref vs c with
  | error e => rw [hc] at h; simp [Except.bind] at h
  | ok sc =>
    rw [hc] at h
    simp only [Except.bind] at h
    cases hf : incorporateFeature ver par ref vs exons with
    | error e => rw [hf] at h; simp at h
    | ok sh' =>
      rw [hf] at h
      simp only at h
      split at h
      · split at h
        · simp at h
        · split at h
          · simp at h
          · simp only [Except.ok.injEq, Prod.mk.injEq] at h
            exact ⟨by rw [h.1], sc, h.2.symm, rfl⟩
      · simp at h

end BioCantor.Proofs.Var
