/-
  The first half of every loop iteration of `_prepare_multi_exon_window_for_scan_codon_locations`:
  `rel_start` / `rel_end` of an exon, obtained through `parent_to_relative_pos` of the CDS location, are the
  running sums of the exon lengths — for exons of positive length that do not overlap (0-bp gaps included),
  on either strand.  Hence the loop over the exons is the loop of `Proofs/CDSClean.lean`.
-/
import BioCantor.Proofs.CDSClean
import BioCantor.Proofs.PointMaps
import BioCantor.Proofs.RelInterval
namespace BioCantor.Proofs
open BioCantor BioCantor.Model BioCantor.Spec

/-- blocks in 5'→3' order -/
def scanOrder (st : Strand) (bs : List Blk) : List Blk := if st = .plus then bs else bs.reverse

theorem idxOf?_rd (st : Strand) (e : Blk) (he : e.1 ≤ e.2) (p : Nat) :
    idxOf? p (rd st e) =
      if e.1 ≤ p ∧ p < e.2 then some (if st = .plus then p - e.1 else e.2 - 1 - p) else none := by
  unfold rd
  by_cases hs : st = .plus
  · simp only [hs, if_true]; exact idxOf?_blkAsc p e he
  · simp only [hs, if_false]; exact idxOf?_blkDesc p e he

theorem idxOf?_readScan_skip (st : Strand) (A : List Blk) (hv : ∀ a ∈ A, a.1 ≤ a.2) (p : Nat)
    (h : ∀ a ∈ A, ¬ (a.1 ≤ p ∧ p < a.2)) (R : List Nat) :
    idxOf? p (readScan st A ++ R) = (idxOf? p R).map (· + blocksLen A) := by
  induction A with
  | nil => simp [blocksLen]
  | cons a A ih =>
    have ha := h a (by simp)
    have hva := hv a (by simp)
    rw [readScan_cons, List.append_assoc, idxOf?_append, idxOf?_rd st a hva]
    simp only [ha, if_false]
    rw [ih (fun x hx => hv x (by simp [hx])) (fun x hx => h x (by simp [hx]))]
    cases idxOf? p R with
    | none => simp
    | some i => simp [blocksLen, length_rd]; omega

theorem blocksValid_scanOrder (st : Strand) (bs : List Blk) (hv : blocksValid bs = true) :
    ∀ a ∈ scanOrder st bs, a.1 ≤ a.2 := by
  intro a ha
  have := (blocksValid_iff bs).1 hv
  unfold scanOrder at ha
  split at ha
  · exact this a ha
  · exact this a (List.mem_reverse.mp ha)

/-- `parent_to_relative_pos` of a position inside the exon `e` that follows the exons `A` in 5'→3' order -/
theorem compoundP2R_at (bs : List Blk) (st : Strand) (hst : st = .plus ∨ st = .minus)
    (hv : blocksValid bs = true) (A : List Blk) (e : Blk) (B : List Blk)
    (hsplit : scanOrder st bs = A ++ e :: B) (hdis : ∀ a ∈ A, a.2 ≤ e.1 ∨ e.2 ≤ a.1)
    (p : Nat) (hp : e.1 ≤ p ∧ p < e.2) :
    compoundP2R ⟨bs, st⟩ (p : Int) =
      .ok (((blocksLen A + (if st = .plus then p - e.1 else e.2 - 1 - p) : Nat) : Int)) := by
  have hsu : st ≠ .unstranded := by rcases hst with h | h <;> simp [h]
  have hspec := compoundP2R_spec ⟨bs, st⟩ hv (p : Int)
  have hall := blocksValid_scanOrder st bs hv
  rw [hsplit] at hall
  have hbases : bases ⟨bs, st⟩ = readScan st A ++ (rd st e ++ readScan st B) := by
    rw [bases_eq_readScan bs st hsu]
    have : (if st = .plus then bs else bs.reverse) = A ++ e :: B := hsplit
    rw [this]; simp [readScan]
  have hidx : idxOf? p (bases ⟨bs, st⟩) = some (blocksLen A + (if st = .plus then p - e.1 else e.2 - 1 - p)) := by
    rw [hbases, idxOf?_readScan_skip st A (fun a ha => hall a (by simp [ha])) p
      (fun a ha => by have := hdis a ha; omega)]
    rw [idxOf?_append, idxOf?_rd st e (hall e (by simp))]
    simp only [hp, and_self, if_true, Option.map_some]
    congr 1; omega
  unfold expectP2R toLoc at hspec
  simp only [hsu, if_false] at hspec
  have hnn : ¬ ((p : Int) < 0) := by omega
  simp only [hnn, if_false, Int.toNat_natCast, hidx, Option.map_some] at hspec
  exact (ans_eq_some _ _).1 hspec

/-- `rel_start`, `rel_end` of the exon `e` -/
theorem exonRel_at (bs : List Blk) (st : Strand) (hst : st = .plus ∨ st = .minus)
    (hv : blocksValid bs = true) (A : List Blk) (e : Blk) (B : List Blk)
    (hsplit : scanOrder st bs = A ++ e :: B) (hdis : ∀ a ∈ A, a.2 ≤ e.1 ∨ e.2 ≤ a.1) (hpos : e.1 < e.2) :
    exonRel ⟨bs, st⟩ e = .ok (((blocksLen A : Nat) : Int), ((blocksLen A + e.len : Nat) : Int)) := by
  unfold exonRel
  have h1 := compoundP2R_at bs st hst hv A e B hsplit hdis e.1 (by omega)
  have h2 := compoundP2R_at bs st hst hv A e B hsplit hdis (e.2 - 1) (by omega)
  have e2 : ((e.2 : Int) - 1) = ((e.2 - 1 : Nat) : Int) := by omega
  rw [h1, e2, h2]
  simp only [bind, Except.bind, pure, Except.pure, Except.ok.injEq, Prod.mk.injEq]
  unfold Blk.len
  rcases hst with h | h <;> simp [h] <;> omega

/-- The loop over the exons is the loop over their consecutive relative intervals. -/
theorem cleanExons_eq_cleanLoop (bs : List Blk) (st : Strand) (hst : st = .plus ∨ st = .minus)
    (hv : blocksValid bs = true)
    (hpw : (scanOrder st bs).Pairwise (fun a b => a.2 ≤ b.1 ∨ b.2 ≤ a.1))
    (hpos : ∀ e ∈ scanOrder st bs, e.1 < e.2) :
    ∀ (es A : List Blk) (fs : List CDSFrame) (cst : CleanSt), scanOrder st bs = A ++ es →
      cleanExons ⟨bs, st⟩ cst (es.zip fs) =
        cleanLoop cst (relInput (blocksLen A) ((es.map Blk.len).zip fs))
  | [], A, fs, cst, _ => by simp [cleanExons, relInput, cleanLoop]
  | e :: es, A, [], cst, _ => by simp [cleanExons, relInput, cleanLoop]
  | e :: es, A, f :: fs, cst, hsplit => by
    have hdis : ∀ a ∈ A, a.2 ≤ e.1 ∨ e.2 ≤ a.1 := by
      rw [hsplit] at hpw
      have := List.pairwise_append.mp hpw
      intro a ha
      exact this.2.2 a ha e (by simp)
    have hpe : e.1 < e.2 := hpos e (by rw [hsplit]; simp)
    have hrel := exonRel_at bs st hst hv A e es hsplit hdis hpe
    have hnext : scanOrder st bs = (A ++ [e]) ++ es := by rw [hsplit]; simp
    have ih := cleanExons_eq_cleanLoop bs st hst hv hpw hpos es (A ++ [e]) fs
    simp only [List.zip_cons_cons, List.map_cons, cleanExons, relInput, cleanLoop, hrel, bind, Except.bind]
    cases hs : cleanStep cst (((blocksLen A : Nat) : Int), ((blocksLen A + e.len : Nat) : Int)) f with
    | error err => rfl
    | ok st1 =>
      simp only []
      rw [ih st1 hnext, blocksLen_append]
      simp [blocksLen]

end BioCantor.Proofs
