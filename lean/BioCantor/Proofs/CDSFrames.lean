/-
  Facts about the generated frame kernels (Gen.CDSFrame_shift, Gen.CDSPhase_to_frame, Gen.CDSFrame_to_phase)
  as the CDS model calls them.
-/
import BioCantor.Model.CDS
namespace BioCantor.Proofs
open BioCantor BioCantor.Model BioCantor.GenP

theorem frameOfInt_mod (x : Int) :
    ∃ g, frameOfInt (x % 3) = .ok g ∧ g.value = x % 3 ∧ g ≠ .NONE := by
  have h : x % 3 = 0 ∨ x % 3 = 1 ∨ x % 3 = 2 := by omega
  rcases h with h | h | h <;> rw [h] <;> simp [frameOfInt, CDSFrame.value]

/-- `CDSFrame.shift` on a real frame is addition modulo three, for every integer shift (also ≤ 0). -/
theorem frameShift_ok (f : CDSFrame) (hf : f ≠ .NONE) (n : Int) :
    ∃ g, frameShift f n = .ok g ∧ g.value = (f.value + n) % 3 ∧ g ≠ .NONE := by
  unfold frameShift Gen.CDSFrame_shift
  simp only [hf, if_false]
  by_cases hn : n > 0
  · simp only [hn, if_true]
    obtain ⟨g, h1, h2, h3⟩ := frameOfInt_mod (f.value + n)
    rw [h1]; exact ⟨g, rfl, h2, h3⟩
  · simp only [hn, if_false]
    obtain ⟨g, h1, h2, h3⟩ := frameOfInt_mod (f.value - (n - -n % 3))
    rw [h1]; refine ⟨g, rfl, ?_, h3⟩
    rw [h2]; omega

/-- two real frames with the same value are the same frame -/
theorem frame_eq_of_value {a b : CDSFrame} (h : a.value = b.value) : a = b := by
  cases a <;> cases b <;> simp [CDSFrame.value] at h <;> rfl

theorem frame_value_range (f : CDSFrame) (hf : f ≠ .NONE) : 0 ≤ f.value ∧ f.value < 3 := by
  cases f <;> simp [CDSFrame.value] at * 

/-- `CDSPhase(m).to_frame().value` for `m = d % 3` is `(-d) % 3`: the offset that keeps the frame after
    `d` bases were cut from the 5' end. -/
theorem phase_frame_offset (d : Int) :
    (do let ph ← Model.phaseOfInt (d % 3); let fr ← phaseToFrame ph; pure fr.value : R Int) = .ok ((-d) % 3) := by
  have h : d % 3 = 0 ∨ d % 3 = 1 ∨ d % 3 = 2 := by omega
  rcases h with h | h | h <;> rw [h] <;>
    simp [Model.phaseOfInt, GenP.phaseOfInt, liftPy, phaseToFrame, Gen.CDSPhase_to_frame, dictGet, CDSPhase.value,
      frameOfInt, CDSFrame.value, bind, Except.bind, pure, Except.pure] <;> omega

end BioCantor.Proofs
