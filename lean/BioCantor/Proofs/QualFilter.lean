/-
  C18 helper lemmas, part 8: filter_and_sort_qualifiers (gff3/parser.py).
-/
import BioCantor.Proofs.QualGroup
namespace BioCantor.Proofs.Qual
open BioCantor BioCantor.Spec.Qual BioCantor.Model.Qual

/-- TIE: the regex alternatives computed from the GENERATED enums
    (`{name.lower(), value}` over the non-alias members of BioCantorQualifiers ∪ BioCantorGFF3ReservedQualifiers)
    are exactly the documented reserved keys of the spec.  A changed / added member in /repo breaks this. -/
theorem terms_tie : sameSet biocantorQualifierTerms reservedKeys = true := by decide +kernel

theorem reservedMatch_exact (k : Str) : reservedMatch true k = reservedKeys.contains k := by
  unfold reservedMatch
  simp only [if_true]
  have hp := sameSet_iff.mp terms_tie
  rw [Bool.eq_iff_iff, List.any_eq_true, List.contains_iff_mem]
  constructor
  · rintro ⟨t, ht, he⟩
    rw [← beq_iff_eq.mp he]; exact (hp t).mp ht
  · intro hk
    exact ⟨k, (hp k).mpr hk, beq_self_eq_true k⟩

theorem sortedWeak_of_pairwise : ∀ {l : List Str}, l.Pairwise (fun a b => strLe a b = true) → sortedWeak l = true
  | [], _ => rfl
  | [_], _ => rfl
  | a :: b :: rest, h => by
    rw [List.pairwise_cons] at h
    simp only [sortedWeak, Bool.and_eq_true]
    exact ⟨h.1 b List.mem_cons_self, sortedWeak_of_pairwise h.2⟩

theorem okSortedVals_sort (vs : List Str) : okSortedVals vs (sortStrs vs) = true := by
  simp only [okSortedVals, Bool.and_eq_true]
  exact ⟨sortedWeak_of_pairwise (List.pairwise_mergeSort strLe_trans strLe_total vs),
    List.isPerm_iff.mpr (List.mergeSort_perm vs strLe)⟩

theorem zip_map_all (l : QDict) :
    ((l.map fun e => (e.1, sortStrs e.2)).zip l).all (fun p => okSortedVals p.2.2 p.1.2) = true := by
  induction l with
  | nil => rfl
  | cons e es ih =>
    simp only [List.map_cons, List.zip_cons_cons, List.all_cons, Bool.and_eq_true]
    exact ⟨okSortedVals_sort e.2, ih⟩

/-- MAIN LEMMA for filter_and_sort_qualifiers (exact matching) -/
theorem filterSort_exact_ok (q : QDict) : okFilterSort q (some (filterSortWith true q)) = true := by
  unfold okFilterSort filterSortWith
  have hf : (q.filter fun e => !reservedMatch true e.1) = q.filter fun e => !(reservedKeys.contains e.1) := by
    apply List.filter_congr; intro e _; rw [reservedMatch_exact]
  simp only [hf]
  cases hk : q.filter (fun e => !(reservedKeys.contains e.1)) with
  | nil => rfl
  | cons e es =>
    simp only [List.map_cons, List.isEmpty_cons, Bool.false_eq_true, if_false, Bool.not_false, Bool.true_and,
      Bool.and_eq_true, beq_iff_eq]
    refine ⟨?_, ?_⟩
    · simp only [List.map_map, List.cons.injEq, true_and]
      apply List.map_congr_left; intro x _; rfl
    · have := zip_map_all (e :: es)
      simpa using this

/-- as coded (prefix match) = exact match when no key merely starts with a reserved term -/
theorem filterSort_coded_eq (q : QDict)
    (h : ∀ e ∈ q, ∀ t ∈ biocantorQualifierTerms, t.isPrefixOf e.1 = true → t = e.1) :
    filterSortWith false q = filterSortWith true q := by
  unfold filterSortWith
  have hf : (q.filter fun e => !reservedMatch false e.1) = q.filter fun e => !reservedMatch true e.1 := by
    apply List.filter_congr
    intro e he
    congr 1
    unfold reservedMatch
    rw [Bool.eq_iff_iff, List.any_eq_true, List.any_eq_true]
    simp only [Bool.false_eq_true, if_false, if_true]
    constructor
    · rintro ⟨t, ht, hp⟩; exact ⟨t, ht, by rw [h e he t ht hp]; exact beq_self_eq_true _⟩
    · rintro ⟨t, ht, hp⟩
      refine ⟨t, ht, ?_⟩
      rw [beq_iff_eq.mp hp]
      exact List.isPrefixOf_iff_prefix.mpr (List.prefix_refl _)
  rw [hf]

end BioCantor.Proofs.Qual
