/-
  C11 / T5 (complete) — the feature-collection half of `gffDecode … = expected c`, and the final equation for
  arbitrary well-formed collections.
-/
import BioCantor.Proofs.GffFull
import BioCantor.Proofs.GffQualsFc
namespace BioCantor.Proofs.GffFullFc
open BioCantor BioCantor.Model.Gff BioCantor.Proofs.GffRows BioCantor.Proofs.GffIds BioCantor.Proofs.GffDecode
open BioCantor.Proofs.GffPRow BioCantor.Proofs.GffSort BioCantor.Proofs.GffAttrEq BioCantor.Proofs.GffQuals
open BioCantor.Proofs.GffFull BioCantor.Proofs.GffQualsFc
open BioCantor.Spec.Gff (Str Quals SCds STx SGene SFeat SFc SChild SColl PRow Info uuidShaped allGuids expectAttrs)

def fcHead (cx : Ctx) (c : SFc) : Row :=
  { seqid := cx.seqid, type := .featureCollection,
    start := minNat (c.feats.map fun f => firstStart f.blocks) - cx.off + 1,
    stop := maxNat (c.feats.map fun f => lastEnd f.blocks) - cx.off, strand := .plus, phase := .NONE,
    attrs := ⟨c.guid, none, c.name, fcExportQuals c, cx.raise⟩ }

abbrev fqOf (c : SFc) (f : SFeat) : Quals := featExportQuals f (fcExportQuals c)

def featHead (cx : Ctx) (c : SFc) (f : SFeat) : Row :=
  { seqid := cx.seqid, type := .featureInterval, start := firstStart f.blocks - cx.off + 1,
    stop := lastEnd f.blocks - cx.off, strand := f.strand, phase := .NONE,
    attrs := ⟨f.guid, some c.guid, f.name, fqOf c f, cx.raise⟩ }

def regionRowsOf (cx : Ctx) (f : SFeat) (q : Quals) : List Row :=
  (enumFrom1 f.blocks).map fun p =>
    ({ seqid := cx.seqid, type := .subregion, start := p.2.1 - cx.off + 1, stop := p.2.2 - cx.off,
       strand := f.strand, phase := .NONE,
       attrs := ⟨['f', 'e', 'a', 't', 'u', 'r', 'e', '-'] ++ f.guid ++ '-' :: natStr p.1, some f.guid, f.name, q,
                 cx.raise⟩ } : Row)

theorem featRows_eq (cx : Ctx) (c : SFc) (f : SFeat) :
    featRows cx f c.guid (fcExportQuals c) = featHead cx c f :: regionRowsOf cx f (fqOf c f) := rfl

theorem fcRows_eq (cx : Ctx) (c : SFc) :
    fcRows cx c = fcHead cx c :: c.feats.flatMap fun f => featRows cx f c.guid (fcExportQuals c) := rfl

theorem regionRowsOf_facts {cx : Ctx} {f : SFeat} {q : Quals} {r : Row} (h : r ∈ regionRowsOf cx f q) :
    r.type = .subregion ∧ r.attrs.parent = some f.guid := by
  obtain ⟨p, _, rfl⟩ := List.mem_map.mp h
  exact ⟨rfl, rfl⟩

theorem featWF_parts {off : Nat} {f : SFeat} (h : featWF off f = true) :
    f.blocks ≠ [] ∧ goodBlocks f.blocks = true ∧ off ≤ firstStart f.blocks := by
  unfold featWF at h
  simp only [Bool.and_eq_true, Bool.not_eq_true', decide_eq_true_eq] at h
  exact ⟨by intro e; rw [e] at h; simp at h, h.1.2, h.2⟩

theorem fcWF_feat {off : Nat} {c : SFc} {f : SFeat} (h : fcWF off c = true) (hf : f ∈ c.feats) : featWF off f = true := by
  unfold fcWF at h
  simp only [Bool.and_eq_true, List.all_eq_true] at h
  exact h.2 f hf

theorem collWF_fc {off : Nat} {c : SColl} {f : SFc} (h : collWF off c = true) (hf : SChild.fc f ∈ c.children) :
    fcWF off f = true := by
  unfold collWF at h
  exact List.all_eq_true.mp h _ hf

theorem regionRowsOf_sorted {cx : Ctx} {f : SFeat} (q : Quals) (hg : goodBlocks f.blocks = true) :
    (regionRowsOf cx f q).Pairwise (fun a b => rowLe a b = true) := by
  unfold regionRowsOf
  rw [List.pairwise_map]
  refine (enumFrom1_pairwise_snd (goodBlocks_pairwise hg)).imp ?_
  intro p r h
  simp only [rowLe, decide_eq_true_eq]
  omega

theorem regionRowsOf_blocks {cx : Ctx} {f : SFeat} (q : Quals) (hwf : featWF cx.off f = true) :
    (regionRowsOf cx f q).map (rowBlk cx.off) = f.blocks := by
  obtain ⟨_, hgood, hoff⟩ := featWF_parts hwf
  unfold regionRowsOf
  rw [List.map_map]
  conv => rhs; rw [← enumFrom1_snd f.blocks]
  apply List.map_congr_left
  intro p hp
  have hb := goodBlocks_bounds hgood p.2 (mem_enumFrom1 hp).1
  simp only [Function.comp, rowBlk]
  ext <;> simp <;> omega

/-! ### a GUID names one feature / one feature collection -/

theorem featGuid_mem_child {c : SFc} {f : SFeat} (hf : f ∈ c.feats) : f.guid ∈ childGuids (.fc c) := by
  unfold childGuids
  exact List.mem_cons_of_mem _ (List.mem_map.mpr ⟨f, hf, rfl⟩)

theorem fc_unique {c : SColl} (hnd : (allGuids c).Nodup) {f f' : SFc}
    (hf : SChild.fc f ∈ c.children) (hf' : SChild.fc f' ∈ c.children) (e : f'.guid = f.guid) : f' = f := by
  rw [allGuids_eq] at hnd
  have hpw := List.pairwise_flatMap.mp (List.nodup_iff_pairwise_ne.mp hnd)
  have m1 : f.guid ∈ childGuids (.fc f) := List.mem_cons_self
  have m2 : f'.guid ∈ childGuids (.fc f') := List.mem_cons_self
  rcases pairwise_mem hpw.2 hf' hf with h | h | h
  · exact SChild.fc.inj h
  · exact absurd e (h _ m2 _ m1)
  · exact absurd e.symm (h _ m1 _ m2)

theorem feat_unique {c : SColl} (hnd : (allGuids c).Nodup) {fc fc' : SFc} {f f' : SFeat}
    (hc : SChild.fc fc ∈ c.children) (hf : f ∈ fc.feats) (hc' : SChild.fc fc' ∈ c.children) (hf' : f' ∈ fc'.feats)
    (e : f'.guid = f.guid) : fc' = fc ∧ f' = f := by
  rw [allGuids_eq] at hnd
  have hpw := List.pairwise_flatMap.mp (List.nodup_iff_pairwise_ne.mp hnd)
  have hcc : fc' = fc := by
    rcases pairwise_mem hpw.2 hc' hc with h | h | h
    · exact SChild.fc.inj h
    · exact absurd e (h _ (featGuid_mem_child hf') _ (featGuid_mem_child hf))
    · exact absurd e.symm (h _ (featGuid_mem_child hf) _ (featGuid_mem_child hf'))
  subst hcc
  refine ⟨rfl, ?_⟩
  have hn : (childGuids (.fc fc')).Nodup := List.nodup_iff_pairwise_ne.mpr (hpw.1 _ hc)
  unfold childGuids at hn
  simp only at hn
  have htail := (List.nodup_cons.mp hn).2
  have hp2 := List.pairwise_map.mp (List.nodup_iff_pairwise_ne.mp htail)
  rcases pairwise_mem hp2 hf' hf with h | h | h
  · exact h
  · exact absurd e h
  · exact absurd e.symm h

theorem fcRows_sub_unsorted {cx : Ctx} {c : SColl} {f : SFc} (hf : SChild.fc f ∈ c.children) :
    (fcRows cx f).Sublist (unsortedRows cx c) :=
  sublist_flatMap_of_mem (f := childRows cx) (mem_sortedChildren.mpr hf)

theorem featRows_sub_unsorted {cx : Ctx} {c : SColl} {fc : SFc} {f : SFeat} (hc : SChild.fc fc ∈ c.children)
    (hf : f ∈ fc.feats) : (featRows cx f fc.guid (fcExportQuals fc)).Sublist (unsortedRows cx c) := by
  have h1 : (featRows cx f fc.guid (fcExportQuals fc)).Sublist (fcRows cx fc) := by
    rw [fcRows_eq]
    exact List.Sublist.cons _ (sublist_flatMap_of_mem (f := fun f => featRows cx f fc.guid (fcExportQuals fc)) hf)
  exact h1.trans (fcRows_sub_unsorted hc)

theorem gene_row_types {cx : Ctx} {g : SGene} {r : Row} (h : r ∈ geneRows cx g) :
    r.type = .gene ∨ r.type = .transcript ∨ r.type = .exon ∨ r.type = .cds := by
  rcases geneRows_origin h with h | ⟨t, _, h | h | h⟩
  · exact Or.inl h.1
  · exact Or.inr (Or.inl h.1)
  · exact Or.inr (Or.inr (Or.inl h.1))
  · exact Or.inr (Or.inr (Or.inr h.1))

/-- the subregion rows naming a feature, in file order -/
theorem feat_children_in_sorted {cx : Ctx} {c : SColl} (H : Hyp cx c) {fc : SFc} {f : SFeat}
    (hc : SChild.fc fc ∈ c.children) (hf : f ∈ fc.feats) :
    (sortedRows cx c).filter (isChildOf .subregion f.guid) = regionRowsOf cx f (fqOf fc f) := by
  obtain ⟨hne, hgood, hoff⟩ := featWF_parts (fcWF_feat (collWF_fc H.wf hc) hf)
  refine filter_eq_of_sublist ?_ ?_ ?_ (sortedRows_nodup cx c H.nd H.uu)
  · unfold sortedRows
    apply List.sublist_mergeSort rowLe_trans rowLe_total (regionRowsOf_sorted _ hgood)
    have := featRows_sub_unsorted (cx := cx) hc hf
    rw [featRows_eq] at this
    exact (List.sublist_cons_self _ _).trans this
  · intro r hr
    have := regionRowsOf_facts hr
    simp [isChildOf, this.1, this.2]
  · intro r hr hp
    simp only [isChildOf, decide_eq_true_eq] at hp
    rw [mem_sortedRows] at hr
    unfold unsortedRows at hr
    obtain ⟨x, hx, hrx⟩ := List.mem_flatMap.mp hr
    have hxc : x ∈ c.children := mem_sortedChildren.mp hx
    cases x with
    | gene g =>
      exfalso
      have hrx' : r ∈ geneRows cx g := hrx
      rcases gene_row_types hrx' with h | h | h | h <;> rw [h] at hp <;> exact absurd hp.1 (by decide)
    | fc fc' =>
      have hrx' : r ∈ fcRows cx fc' := hrx
      rw [fcRows_eq] at hrx'
      rcases List.mem_cons.mp hrx' with rfl | hrest
      · exact absurd hp.1 (by simp [fcHead])
      · obtain ⟨f', hf', hrf⟩ := List.mem_flatMap.mp hrest
        rw [featRows_eq] at hrf
        rcases List.mem_cons.mp hrf with rfl | hin
        · exact absurd hp.1 (by simp [featHead])
        · have hfa := regionRowsOf_facts hin
          have e : f'.guid = f.guid := by
            have := hp.2; rw [hfa.2] at this; exact Option.some.inj this
          obtain ⟨rfl, rfl⟩ := feat_unique H.nd hc hf hxc hf' e
          exact hin

theorem featRows_mem_sorted {cx : Ctx} {c : SColl} {fc : SFc} {f : SFeat} (hc : SChild.fc fc ∈ c.children)
    (hf : f ∈ fc.feats) {r : Row} (hr : r ∈ featRows cx f fc.guid (fcExportQuals fc)) : r ∈ sortedRows cx c := by
  rw [mem_sortedRows]
  exact (featRows_sub_unsorted (cx := cx) hc hf).subset hr

/-- the source's qualifier dictionaries have distinct keys (they are Python dicts) -/
def SrcKeysDistinct (c : SColl) : Prop :=
  ∀ f, SChild.fc f ∈ c.children → KeysDistinct f.quals ∧ ∀ t ∈ f.feats, KeysDistinct t.quals

/-- the feature read back from the parsed, sorted export is the Spec's expected feature -/
theorem decodeFeat_eq {cx : Ctx} {c : SColl} (H : Hyp cx c) (hR : Rendered cx c) (hD : SrcKeysDistinct c)
    {fc : SFc} {f : SFeat} (hc : SChild.fc fc ∈ c.children) (hf : f ∈ fc.feats) :
    Spec.Gff.decodeFeat cx.off ((sortedRows cx c).map toPRow) (toPRow (featHead cx fc f)) = Spec.Gff.expectFeat fc f := by
  have hfw := fcWF_feat (collWF_fc H.wf hc) hf
  obtain ⟨hne, hgood, hoff⟩ := featWF_parts hfw
  have hhd : featHead cx fc f ∈ sortedRows cx c :=
    featRows_mem_sorted hc hf (by rw [featRows_eq]; exact List.mem_cons_self)
  have hrm : ∀ r ∈ regionRowsOf cx f (fqOf fc f), r ∈ sortedRows cx c := fun r hr =>
    featRows_mem_sorted hc hf (by rw [featRows_eq]; exact List.mem_cons_of_mem _ hr)
  have hattr : ∀ r ∈ sortedRows cx c, r.attrs.quals = fqOf fc f →
      (toPRow r).info.attrs = expectAttrs (Spec.Gff.featQuals fc f) := by
    intro r hr hq
    obtain ⟨line, hl⟩ := hR r hr
    rw [toPRow_info_attrs r line hl, hq]
    exact expectAttrs_congr (feat_quals_rel fc f (hD fc hc).1 ((hD fc hc).2 f hf))
  unfold Spec.Gff.decodeFeat Spec.Gff.expectFeat
  rw [toPRow_id' H hhd]
  have hid : (featHead cx fc f).attrs.id = f.guid := rfl
  rw [hid, tSub_eq, filter_children H, feat_children_in_sorted H hc hf]
  have hs : Spec.Gff.sortBy (fun a b : PRow => Spec.Gff.blkLe2 (a.blk cx.off) (b.blk cx.off))
      ((regionRowsOf cx f (fqOf fc f)).map toPRow) = (regionRowsOf cx f (fqOf fc f)).map toPRow := by
    apply sortBy_of_sorted
    rw [List.pairwise_map]
    have hb := regionRowsOf_blocks (cx := cx) (fqOf fc f) hfw
    have hp : ((regionRowsOf cx f (fqOf fc f)).map (rowBlk cx.off)).Pairwise (fun a b => a.1 < b.1) := by
      rw [hb]; exact goodBlocks_strict hgood
    exact (List.pairwise_map.mp hp).imp (fun h => blkLe2_of_lt h)
  rw [hs]
  have hinfo : (toPRow (featHead cx fc f)).info =
      ⟨some f.guid, Spec.Gff.optName f.name, expectAttrs (Spec.Gff.featQuals fc f)⟩ := by
    unfold PRow.info
    rw [toPRow_id' H hhd, toPRow_name]
    have := hattr _ hhd rfl
    unfold PRow.info at this
    simp only at this
    rw [this]
    rfl
  have hspan : (toPRow (featHead cx fc f)).blk cx.off = Spec.Gff.spanOf f.blocks := by
    rw [spanOf_good hgood hne, toPRow_blk]
    have := goodBlocks_span hgood hne
    simp only [rowBlk, featHead, Prod.mk.injEq]
    omega
  have hreg : ((regionRowsOf cx f (fqOf fc f)).map toPRow).map (fun r => (r.blk cx.off, r.strand, r.info)) =
      (Spec.Gff.zipIdx f.blocks).map fun p =>
        (p.2, f.strand, (⟨some (['f', 'e', 'a', 't', 'u', 'r', 'e', '-'] ++ f.guid ++ ['-'] ++ Spec.Gff.natStr p.1),
          Spec.Gff.optName f.name, expectAttrs (Spec.Gff.featQuals fc f)⟩ : Info)) := by
    unfold regionRowsOf
    rw [List.map_map, List.map_map]
    show (enumFrom1 f.blocks).map _ = (enumFrom1 f.blocks).map _
    apply List.map_congr_left
    intro p hp
    have hb := goodBlocks_bounds hgood p.2 (mem_enumFrom1 hp).1
    have hm : _ ∈ sortedRows cx c := hrm _ (List.mem_map.mpr ⟨p, hp, rfl⟩)
    simp only [Function.comp]
    refine Prod.ext ?_ (Prod.ext rfl ?_)
    · simp only [toPRow_blk, rowBlk]
      ext <;> simp <;> omega
    · simp only
      unfold PRow.info
      rw [toPRow_id' H hm, toPRow_name]
      have := hattr _ hm rfl
      unfold PRow.info at this
      simp only at this
      rw [this]
      simp only [Info.mk.injEq, Option.some.injEq, and_true, natStr_agree, Spec.Gff.optName]
      simp
  dsimp only
  rw [hinfo, hspan, hreg]
  rfl

/-! ### one feature collection -/

def isFeatOf (c : SFc) : Row → Bool := isChildOf .featureInterval c.guid

theorem feat_heads_unsorted {cx : Ctx} {c : SColl} (H : Hyp cx c) {fc : SFc} (hc : SChild.fc fc ∈ c.children) :
    (unsortedRows cx c).filter (isFeatOf fc) = fc.feats.map (featHead cx fc) := by
  refine filter_eq_of_sublist ?_ ?_ ?_ (unsorted_nodup H)
  · have h1 : (fc.feats.map (featHead cx fc)).Sublist (fc.feats.flatMap fun f => featRows cx f fc.guid (fcExportQuals fc)) :=
      map_head_sublist_flatMap _ (featHead cx fc) (fun f => regionRowsOf cx f (fqOf fc f))
        (fun f => featRows_eq cx fc f) fc.feats
    have h2 : (fc.feats.flatMap fun f => featRows cx f fc.guid (fcExportQuals fc)).Sublist (fcRows cx fc) := by
      rw [fcRows_eq]; exact List.sublist_cons_self _ _
    exact (h1.trans h2).trans (fcRows_sub_unsorted hc)
  · intro r hr
    obtain ⟨t, _, rfl⟩ := List.mem_map.mp hr
    simp [isFeatOf, isChildOf, featHead]
  · intro r hr hp
    simp only [isFeatOf, isChildOf, decide_eq_true_eq] at hp
    unfold unsortedRows at hr
    obtain ⟨x, hx, hrx⟩ := List.mem_flatMap.mp hr
    have hxc : x ∈ c.children := mem_sortedChildren.mp hx
    cases x with
    | gene g =>
      exfalso
      have hrx' : r ∈ geneRows cx g := hrx
      rcases gene_row_types hrx' with h | h | h | h <;> rw [h] at hp <;> exact absurd hp.1 (by decide)
    | fc fc' =>
      have hrx' : r ∈ fcRows cx fc' := hrx
      rw [fcRows_eq] at hrx'
      rcases List.mem_cons.mp hrx' with rfl | hrest
      · exact absurd hp.1 (by simp [fcHead])
      · obtain ⟨f', hf', hrf⟩ := List.mem_flatMap.mp hrest
        rw [featRows_eq] at hrf
        rcases List.mem_cons.mp hrf with rfl | hin
        · have e : fc'.guid = fc.guid := by
            have := hp.2; simp only [featHead, Option.some.injEq] at this; exact this
          have := fc_unique H.nd hc hxc e
          subst this
          exact List.mem_map.mpr ⟨f', hf', rfl⟩
        · exfalso
          rw [(regionRowsOf_facts hin).1] at hp; exact absurd hp.1 (by decide)

def featLe (a b : SFeat) : Bool := decide (firstStart a.blocks ≤ firstStart b.blocks)

theorem feat_heads_sorted {cx : Ctx} {c : SColl} (H : Hyp cx c) {fc : SFc} (hc : SChild.fc fc ∈ c.children) :
    (sortedRows cx c).filter (isFeatOf fc) = (Spec.Gff.sortBy featLe fc.feats).map (featHead cx fc) := by
  unfold sortedRows
  rw [mergeSort_filter rowLe rowLe_trans rowLe_total, feat_heads_unsorted H hc,
    ← sortBy_eq_mergeSort rowLe rowLe_trans rowLe_total]
  apply sortBy_map
  intro a ha b hb
  have wa := (featWF_parts (fcWF_feat (collWF_fc H.wf hc) ha)).2.2
  have wb := (featWF_parts (fcWF_feat (collWF_fc H.wf hc) hb)).2.2
  simp only [rowLe, featLe, featHead]
  apply decide_eq_decide.mpr
  constructor <;> intro h <;> omega

theorem featLe_spec {cx : Ctx} {c : SColl} (H : Hyp cx c) {fc : SFc} (hc : SChild.fc fc ∈ c.children) :
    Spec.Gff.sortBy (fun a b : SFeat => decide ((Spec.Gff.spanOf a.blocks).1 ≤ (Spec.Gff.spanOf b.blocks).1)) fc.feats =
      Spec.Gff.sortBy featLe fc.feats := by
  apply sortBy_congr
  intro a ha b hb
  obtain ⟨na, ga, _⟩ := featWF_parts (fcWF_feat (collWF_fc H.wf hc) ha)
  obtain ⟨nb, gb, _⟩ := featWF_parts (fcWF_feat (collWF_fc H.wf hc) hb)
  rw [spanOf_good ga na, spanOf_good gb nb]
  rfl

theorem decodeFc_eq {cx : Ctx} {c : SColl} (H : Hyp cx c) (hR : Rendered cx c) (hD : SrcKeysDistinct c)
    {fc : SFc} (hc : SChild.fc fc ∈ c.children) :
    ({ info := (toPRow (fcHead cx fc)).info, strand := (toPRow (fcHead cx fc)).strand,
       span := (toPRow (fcHead cx fc)).blk cx.off,
       feats := (Spec.Gff.childrenOf ((sortedRows cx c).map toPRow) Spec.Gff.tFeat (toPRow (fcHead cx fc)).id).map
                (Spec.Gff.decodeFeat cx.off ((sortedRows cx c).map toPRow)) } : Spec.Gff.DFc) = Spec.Gff.expectFc fc := by
  have hcw := collWF_fc H.wf hc
  have hcw' := hcw
  unfold fcWF at hcw'
  simp only [Bool.and_eq_true, Bool.not_eq_true', List.all_eq_true] at hcw'
  have hne : fc.feats ≠ [] := by intro e; rw [e] at hcw'; simp at hcw'
  have hhd : fcHead cx fc ∈ sortedRows cx c := by
    rw [mem_sortedRows]
    exact (fcRows_sub_unsorted hc).subset (by rw [fcRows_eq]; exact List.mem_cons_self)
  unfold Spec.Gff.expectFc
  rw [toPRow_id' H hhd]
  have hid : (fcHead cx fc).attrs.id = fc.guid := rfl
  rw [hid, tFeat_eq, filter_children H]
  have hfl : (sortedRows cx c).filter (isChildOf .featureInterval fc.guid) =
      (Spec.Gff.sortBy featLe fc.feats).map (featHead cx fc) := feat_heads_sorted H hc
  rw [hfl, featLe_spec H hc, List.map_map, List.map_map]
  have hft : (Spec.Gff.sortBy featLe fc.feats).map
      ((Spec.Gff.decodeFeat cx.off ((sortedRows cx c).map toPRow) ∘ toPRow) ∘ featHead cx fc) =
      (Spec.Gff.sortBy featLe fc.feats).map (Spec.Gff.expectFeat fc) := by
    apply List.map_congr_left
    intro t ht
    exact decodeFeat_eq H hR hD hc ((mem_sortBy featLe t fc.feats).mp ht)
  rw [hft]
  have hinfo : (toPRow (fcHead cx fc)).info =
      ⟨some fc.guid, Spec.Gff.optName fc.name, expectAttrs (Spec.Gff.fcQuals fc)⟩ := by
    unfold PRow.info
    rw [toPRow_id' H hhd, toPRow_name]
    obtain ⟨line, hl⟩ := hR _ hhd
    have := toPRow_info_attrs _ line hl
    unfold PRow.info at this
    simp only at this
    rw [this]
    have : (fcHead cx fc).attrs.quals = fcExportQuals fc := rfl
    rw [this, expectAttrs_congr (fc_quals_rel fc (hD fc hc).1)]
    rfl
  have hspan : (toPRow (fcHead cx fc)).blk cx.off = Spec.Gff.spanOf (fc.feats.map fun f => Spec.Gff.spanOf f.blocks) := by
    rw [spanOf_spans _ (by simpa using hne), List.map_map, List.map_map]
    have e1 : fc.feats.map ((fun b : Blk => b.1) ∘ fun f => Spec.Gff.spanOf f.blocks) = fc.feats.map fun f => firstStart f.blocks := by
      apply List.map_congr_left
      intro t ht
      obtain ⟨nt, gt, _⟩ := featWF_parts (hcw'.2 t ht)
      simp only [Function.comp, spanOf_good gt nt]
    have e2 : fc.feats.map ((fun b : Blk => b.2) ∘ fun f => Spec.Gff.spanOf f.blocks) = fc.feats.map fun f => lastEnd f.blocks := by
      apply List.map_congr_left
      intro t ht
      obtain ⟨nt, gt, _⟩ := featWF_parts (hcw'.2 t ht)
      simp only [Function.comp, spanOf_good gt nt]
    rw [e1, e2, toPRow_blk]
    have hf := fc_row_facts hcw (fcRows_origin (by rw [fcRows_eq]; exact List.mem_cons_self : fcHead cx fc ∈ fcRows cx fc))
    have hne' : (fc.feats.map fun f => firstStart f.blocks) ≠ [] := by simpa using hne
    obtain ⟨t0, ht0, hmin⟩ := List.mem_map.mp (minNat_mem hne')
    have hoff0 := (featWF_parts (hcw'.2 t0 ht0)).2.2
    simp only [rowBlk, fcHead, Prod.mk.injEq] at hf ⊢
    omega
  rw [hinfo, hspan]
  rfl

/-! ### all feature collections, and the final equation -/

def fcOf? : SChild → Option SFc
  | .fc f => some f
  | .gene _ => none

def fcsIn (l : List SChild) : List SFc := l.filterMap fcOf?

theorem mem_fcsIn {l : List SChild} {f : SFc} : f ∈ fcsIn l ↔ SChild.fc f ∈ l := by
  unfold fcsIn
  rw [List.mem_filterMap]
  constructor
  · rintro ⟨x, hx, hg⟩
    cases x with
    | fc f' => simp only [fcOf?, Option.some.injEq] at hg; subst hg; exact hx
    | gene g => simp [fcOf?] at hg
  · intro h; exact ⟨_, h, rfl⟩

theorem fc_heads_sublist (cx : Ctx) : ∀ l : List SChild,
    ((fcsIn l).map (fcHead cx)).Sublist (l.flatMap (childRows cx))
  | [] => by simp [fcsIn]
  | x :: l => by
    have ih := fc_heads_sublist cx l
    cases x with
    | fc f =>
      simp only [fcsIn, List.filterMap_cons, fcOf?, List.map_cons, List.flatMap_cons, childRows]
      rw [fcRows_eq, List.cons_append]
      exact List.Sublist.cons_cons _ (ih.trans (List.sublist_append_right _ _))
    | gene g =>
      simp only [fcsIn, List.filterMap_cons, fcOf?, List.flatMap_cons]
      exact ih.trans (List.sublist_append_right _ _)

theorem fc_heads_sorted {cx : Ctx} {c : SColl} (H : Hyp cx c) :
    (sortedRows cx c).filter (isTop .featureCollection) = (fcsIn (sortedChildren c)).map (fcHead cx) := by
  refine filter_eq_of_sublist ?_ ?_ ?_ (sortedRows_nodup cx c H.nd H.uu)
  · unfold sortedRows
    apply List.sublist_mergeSort rowLe_trans rowLe_total
    · rw [List.pairwise_map]
      unfold fcsIn
      rw [List.pairwise_filterMap]
      have hs : (sortedChildren c).Pairwise (fun a b => decide (Model.Gff.childStart a ≤ Model.Gff.childStart b) = true) :=
        List.pairwise_mergeSort childLe_trans childLe_total c.children
      refine hs.imp ?_
      intro a b hab ga hga gb hgb
      cases a with
      | gene g => simp [fcOf?] at hga
      | fc f1 =>
        cases b with
        | gene g => simp [fcOf?] at hgb
        | fc f2 =>
          simp only [fcOf?, Option.mem_def, Option.some.injEq] at hga hgb
          subst hga; subst hgb
          simp only [Model.Gff.childStart] at hab
          simp only [rowLe, fcHead]
          have hab' := of_decide_eq_true hab
          apply decide_eq_true
          omega
    · exact fc_heads_sublist cx (sortedChildren c)
  · intro r hr
    obtain ⟨g, _, rfl⟩ := List.mem_map.mp hr
    simp [isTop, fcHead]
  · intro r hr hp
    simp only [isTop, decide_eq_true_eq] at hp
    rw [mem_sortedRows] at hr
    unfold unsortedRows at hr
    obtain ⟨x, hx, hrx⟩ := List.mem_flatMap.mp hr
    cases x with
    | gene g =>
      exfalso
      have hrx' : r ∈ geneRows cx g := hrx
      rcases gene_row_types hrx' with h | h | h | h <;> rw [h] at hp <;> exact absurd hp.1 (by decide)
    | fc fc' =>
      have hrx' : r ∈ fcRows cx fc' := hrx
      rw [fcRows_eq] at hrx'
      rcases List.mem_cons.mp hrx' with rfl | hrest
      · exact List.mem_map.mpr ⟨fc', mem_fcsIn.mpr hx, rfl⟩
      · exfalso
        obtain ⟨f', _, hrf⟩ := List.mem_flatMap.mp hrest
        rw [featRows_eq] at hrf
        rcases List.mem_cons.mp hrf with rfl | hin
        · exact absurd hp.1 (by simp [featHead])
        · rw [(regionRowsOf_facts hin).1] at hp; exact absurd hp.1 (by decide)

theorem decoded_fcs {cx : Ctx} {c : SColl} (H : Hyp cx c) (hR : Rendered cx c) (hD : SrcKeysDistinct c) :
    (Spec.Gff.gffDecode cx.off ((sortedRows cx c).map toPRow)).fcs =
      (fcsIn (sortedChildren c)).map Spec.Gff.expectFc := by
  unfold Spec.Gff.gffDecode
  simp only
  rw [tFc_eq, filter_top H, fc_heads_sorted H, List.map_map, List.map_map]
  apply List.map_congr_left
  intro f hf
  have hfc : SChild.fc f ∈ c.children := mem_sortedChildren.mp (mem_fcsIn.mp hf)
  exact decodeFc_eq H hR hD hfc

theorem expected_fcs {cx : Ctx} {c : SColl} (H : Hyp cx c) :
    (Spec.Gff.expected c).fcs = (fcsIn (sortedChildren c)).map Spec.Gff.expectFc := by
  unfold Spec.Gff.expected
  simp only
  rw [expected_children H]
  unfold fcsIn
  rw [List.map_filterMap]
  congr 1
  funext x
  cases x <;> rfl

/-- T5 (complete): decoding the parsed export of ANY well-formed collection gives exactly `expected c` -/
theorem decode_eq_all {cx : Ctx} {c : SColl} (H : Hyp cx c) (hR : Rendered cx c) (hF : FramesKept cx c)
    (hD : SrcKeysDistinct c) :
    Spec.Gff.gffDecode cx.off ((sortedRows cx c).map toPRow) = Spec.Gff.expected c := by
  have hg := decode_genes_eq H hR hF
  have hf : (Spec.Gff.gffDecode cx.off ((sortedRows cx c).map toPRow)).fcs = (Spec.Gff.expected c).fcs := by
    rw [decoded_fcs H hR hD, expected_fcs H]
  cases hd : Spec.Gff.gffDecode cx.off ((sortedRows cx c).map toPRow) with
  | mk g1 f1 =>
    cases he : Spec.Gff.expected c with
    | mk g2 f2 =>
      rw [hd] at hg hf
      rw [he] at hg hf
      simp only at hg hf
      rw [hg, hf]

theorem export_decodes_all {c : SColl} {chromRel raise : Bool} {lines : List Str} {cx : Ctx}
    (h : toGffLines c chromRel raise = .ok lines) (hne : c.children ≠ []) (hcx : mkCtx c chromRel raise = .ok cx)
    (H : Hyp cx c) (hF : FramesKept cx c) (hk : SrcKeysOk c) (hD : SrcKeysDistinct c) (hseq : noSep cx.seqid) :
    ∃ prows, lines.mapM Spec.Gff.parseLine = some prows ∧ Spec.Gff.gffDecode cx.off prows = Spec.Gff.expected c := by
  obtain ⟨cx', hcx', hrows⟩ := export_parses c chromRel raise lines h hne
  rw [hcx] at hcx'
  cases hcx'
  have hR : Rendered cx c := mapM_ok_mem rowStr _ _ hrows
  exact ⟨_, export_lines_parse H hrows hseq (mkCtx_seqid hcx).2 hk, decode_eq_all H hR hF hD⟩

end BioCantor.Proofs.GffFullFc
