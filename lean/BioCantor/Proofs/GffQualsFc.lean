/-
  C11 / T5 (attributes, feature collections) — `setKey` (Python `d[key] = value`) on dictionaries with distinct
  keys; the export dictionaries of feature collections / features against the Spec's `fcQuals` / `featQuals`.
-/
import BioCantor.Proofs.GffQuals
namespace BioCantor.Proofs.GffQualsFc
open BioCantor BioCantor.Model.Gff BioCantor.Proofs.GffCanon BioCantor.Proofs.GffAttrEq BioCantor.Proofs.GffQuals
open BioCantor.Spec.Gff (Str Quals SFeat SFc optVal)

/-- a Python dict: keys pairwise distinct -/
def KeysDistinct (q : Quals) : Prop := (q.map (·.1)).Nodup

theorem hasKey_addToSet (key val : Str) : ∀ (q : Quals) (k : Str), k ∈ (addToSet key val q).map (·.1) ↔ k = key ∨ k ∈ q.map (·.1)
  | [], k => by simp [addToSet]
  | (k0, vs) :: rest, k => by
    rw [addToSet]
    split
    · rename_i h; subst h
      simp only [List.map_cons, List.mem_cons]
      constructor
      · rintro (h | h); exact Or.inr (Or.inl h); exact Or.inr (Or.inr h)
      · rintro (h | h | h); exact Or.inl h; exact Or.inl h; exact Or.inr h
    · simp only [List.map_cons, List.mem_cons, hasKey_addToSet key val rest]
      constructor
      · rintro (h | h | h); exact Or.inr (Or.inl h); exact Or.inl h; exact Or.inr (Or.inr h)
      · rintro (h | h | h); exact Or.inr (Or.inl h); exact Or.inl h; exact Or.inr (Or.inr h)

theorem distinct_addToSet (key val : Str) : ∀ {q : Quals}, KeysDistinct q → KeysDistinct (addToSet key val q)
  | [], _ => by simp [addToSet, KeysDistinct]
  | (k0, vs) :: rest, h => by
    unfold KeysDistinct at h ⊢
    rw [List.map_cons, List.nodup_cons] at h
    rw [addToSet]
    split
    · simp only [List.map_cons]; exact List.nodup_cons.mpr h
    · rename_i hk
      simp only [List.map_cons]
      refine List.nodup_cons.mpr ⟨?_, distinct_addToSet key val h.2⟩
      intro hm
      rcases (hasKey_addToSet key val rest k0).mp hm with e | e
      · exact hk e
      · exact h.1 e

theorem distinct_addOpt (key : Str) (val : Option Str) {q : Quals} (h : KeysDistinct q) : KeysDistinct (addOpt key val q) := by
  unfold addOpt
  cases val with
  | none => exact h
  | some s =>
    simp only
    split
    · exact h
    · exact distinct_addToSet key s h

theorem hasKey_updateSet (key : Str) (vals : List Str) : ∀ (q : Quals) (k : Str),
    k ∈ (updateSet key vals q).map (·.1) ↔ k = key ∨ k ∈ q.map (·.1)
  | [], k => by simp [updateSet]
  | (k0, vs) :: rest, k => by
    rw [updateSet]
    split
    · rename_i h; subst h
      simp only [List.map_cons, List.mem_cons]
      constructor
      · rintro (h | h); exact Or.inr (Or.inl h); exact Or.inr (Or.inr h)
      · rintro (h | h | h); exact Or.inl h; exact Or.inl h; exact Or.inr h
    · simp only [List.map_cons, List.mem_cons, hasKey_updateSet key vals rest]
      constructor
      · rintro (h | h | h); exact Or.inr (Or.inl h); exact Or.inl h; exact Or.inr (Or.inr h)
      · rintro (h | h | h); exact Or.inr (Or.inl h); exact Or.inl h; exact Or.inr (Or.inr h)

theorem distinct_updateSet (key : Str) (vals : List Str) : ∀ {q : Quals}, KeysDistinct q → KeysDistinct (updateSet key vals q)
  | [], _ => by simp [updateSet, KeysDistinct]
  | (k0, vs) :: rest, h => by
    unfold KeysDistinct at h ⊢
    rw [List.map_cons, List.nodup_cons] at h
    rw [updateSet]
    split
    · simp only [List.map_cons]; exact List.nodup_cons.mpr h
    · rename_i hk
      simp only [List.map_cons]
      refine List.nodup_cons.mpr ⟨?_, distinct_updateSet key vals h.2⟩
      intro hm
      rcases (hasKey_updateSet key vals rest k0).mp hm with e | e
      · exact hk e
      · exact h.1 e

theorem distinct_mergeQuals {own : Quals} (other : Quals) (h : KeysDistinct own) : KeysDistinct (mergeQuals own other) := by
  unfold mergeQuals
  induction other generalizing own with
  | nil => exact h
  | cons e rest ih => rw [List.foldl_cons]; exact ih (distinct_updateSet e.1 e.2 h)

/-- `d[key] = vals` on a dict: the key now carries exactly `vals`, every other key is untouched -/
theorem brel_setKey (key : Str) (vals : List Str) : ∀ (q : Quals), KeysDistinct q → ∀ (k v : Str),
    BRel (setKey key vals q) k v ↔ (k = key ∧ v ∈ vals) ∨ (k ≠ key ∧ BRel q k v)
  | [], _, k, v => by
    rw [setKey, brel_cons, brel_nil]
    simp [brel_nil]
  | (k0, vs) :: rest, h, k, v => by
    unfold KeysDistinct at h
    rw [List.map_cons, List.nodup_cons] at h
    rw [setKey]
    split
    · rename_i hk
      subst hk
      rw [brel_cons, brel_cons]
      simp only
      constructor
      · rintro (h1 | ⟨vs', hm, hv⟩)
        · exact Or.inl h1
        · refine Or.inr ⟨?_, Or.inr ⟨vs', hm, hv⟩⟩
          intro e
          exact h.1 (List.mem_map.mpr ⟨(k, vs'), hm, e⟩)
      · rintro (h1 | ⟨hne, h2 | h2⟩)
        · exact Or.inl h1
        · exact absurd h2.1 hne
        · exact Or.inr h2
    · rename_i hk
      rw [brel_cons, brel_cons, brel_setKey key vals rest h.2]
      simp only
      constructor
      · rintro (⟨h1, h2⟩ | h1 | ⟨hne, h2⟩)
        · exact Or.inr ⟨fun e => hk (by rw [← h1]; exact e), Or.inl ⟨h1, h2⟩⟩
        · exact Or.inl h1
        · exact Or.inr ⟨hne, Or.inr h2⟩
      · rintro (h1 | ⟨hne, h2 | h2⟩)
        · exact Or.inr (Or.inl h1)
        · exact Or.inl h2
        · exact Or.inr (Or.inr ⟨hne, h2⟩)

theorem brel_filter_key (p : Str → Bool) (q : Quals) (k v : Str) :
    BRel (q.filter fun kv => p kv.1) k v ↔ p k = true ∧ BRel q k v := by
  unfold BRel
  constructor
  · rintro ⟨vs, hm, hv⟩
    rw [List.mem_filter] at hm
    exact ⟨hm.2, vs, hm.1, hv⟩
  · rintro ⟨hp, vs, hm, hv⟩
    exact ⟨vs, List.mem_filter.mpr ⟨hm, hp⟩, hv⟩

theorem mem_dedup (l : List Str) (v : Str) : v ∈ dedup l ↔ v ∈ l := by
  unfold dedup
  rw [mem_unionFold]; simp

theorem mem_unionFold2 (xs : List Str) : ∀ (acc : List Str) (v : Str),
    v ∈ xs.foldl (fun a v => if a.contains v then a else a ++ [v]) acc ↔ v ∈ acc ∨ v ∈ xs := mem_unionFold xs

theorem mem_fcTypes (c : SFc) (v : Str) : v ∈ Model.Gff.fcTypes c ↔ v ∈ Spec.Gff.fcTypes c := by
  unfold Model.Gff.fcTypes Spec.Gff.fcTypes
  have : ∀ (fs : List SFeat) (acc : List Str),
      v ∈ fs.foldl (fun acc f => f.ftypes.foldl (fun a v => if a.contains v then a else a ++ [v]) acc) acc ↔
        v ∈ acc ∨ v ∈ fs.flatMap (·.ftypes) := by
    intro fs
    induction fs with
    | nil => intro acc; simp
    | cons f rest ih =>
      intro acc
      rw [List.foldl_cons, ih, mem_unionFold2, List.flatMap_cons, List.mem_append]
      constructor
      · rintro ((h | h) | h); exact Or.inl h; exact Or.inr (Or.inl h); exact Or.inr (Or.inr h)
      · rintro (h | h | h); exact Or.inl (Or.inl h); exact Or.inl (Or.inr h); exact Or.inr h
  rw [this]; simp

theorem fcTypes_empty (c : SFc) : (Model.Gff.fcTypes c).isEmpty = (Spec.Gff.fcTypes c).isEmpty := by
  cases h1 : Model.Gff.fcTypes c with
  | nil =>
    cases h2 : Spec.Gff.fcTypes c with
    | nil => rfl
    | cons a r =>
      have := (mem_fcTypes c a).mpr (by rw [h2]; exact List.mem_cons_self)
      rw [h1] at this; simp at this
  | cons a r =>
    cases h2 : Spec.Gff.fcTypes c with
    | nil =>
      have := (mem_fcTypes c a).mp (by rw [h1]; exact List.mem_cons_self)
      rw [h2] at this; simp at this
    | cons b r' => rfl

theorem optVal_key_ne (key : Str) (val : Option Str) (k v : Str) (h : BRel (optVal key val) k v) : k = key := by
  rw [brel_optVal] at h
  obtain ⟨_, _, _, hk, _⟩ := h
  exact hk

theorem fc_quals_rel (c : SFc) (hd : KeysDistinct c.quals) (k v : Str) :
    BRel (fcExportQuals c) k v ↔ BRel (Spec.Gff.fcQuals c) k v := by
  unfold fcExportQuals Spec.Gff.fcQuals
  simp only
  have hq : KeysDistinct (c.quals |> addOpt kFcId c.fcid |> addOpt kFcName c.name |> addOpt kLocusTag c.locus
      |> addOpt kFcType c.fctype) :=
    distinct_addOpt _ _ (distinct_addOpt _ _ (distinct_addOpt _ _ (distinct_addOpt _ _ hd)))
  have hbase : ∀ k v, BRel (c.quals |> addOpt kFcId c.fcid |> addOpt kFcName c.name |> addOpt kLocusTag c.locus
      |> addOpt kFcType c.fctype) k v ↔
      (((BRel c.quals k v ∨ BRel (optVal kFcId c.fcid) k v) ∨ BRel (optVal kFcName c.name) k v) ∨
        BRel (optVal kLocusTag c.locus) k v) ∨ BRel (optVal kFcType c.fctype) k v := by
    intro k v; simp only [brel_addOpt]
  rw [fcTypes_empty]
  cases he : (Spec.Gff.fcTypes c).isEmpty with
  | true =>
    simp only [if_true, Bool.true_or, brel_append, brel_nil, or_false, hbase]
    have : (c.quals.filter fun kv => true) = c.quals := List.filter_eq_self.mpr (fun _ _ => rfl)
    rw [this]
    rfl
  | false =>
    simp only [Bool.false_eq_true, if_false, Bool.false_or]
    rw [brel_setKey _ _ _ hq, hbase]
    simp only [brel_append, brel_cons, brel_nil, or_false]
    rw [brel_filter_key (fun key => decide (key ≠ Spec.Gff.kFeatureType))]
    have hkk : Model.Gff.kFeatureType = Spec.Gff.kFeatureType := rfl
    have n1 : Spec.Gff.kFcId ≠ Spec.Gff.kFeatureType := by decide
    have n2 : Spec.Gff.kFcName ≠ Spec.Gff.kFeatureType := by decide
    have n3 : Spec.Gff.kLocusTag ≠ Spec.Gff.kFeatureType := by decide
    have n4 : Spec.Gff.kFcType ≠ Spec.Gff.kFeatureType := by decide
    constructor
    · rintro (⟨h1, h2⟩ | ⟨hne, ((((h | h) | h) | h) | h)⟩)
      · exact Or.inr ⟨h1, (mem_fcTypes c v).mp h2⟩
      · exact Or.inl (Or.inl (Or.inl (Or.inl (Or.inl ⟨decide_eq_true (show k ≠ Spec.Gff.kFeatureType from hne), h⟩))))
      · exact Or.inl (Or.inl (Or.inl (Or.inl (Or.inr h))))
      · exact Or.inl (Or.inl (Or.inl (Or.inr h)))
      · exact Or.inl (Or.inl (Or.inr h))
      · exact Or.inl (Or.inr h)
    · rintro (((((⟨hp, h⟩ | h) | h) | h) | h) | ⟨h1, h2⟩)
      · exact Or.inr ⟨(show k ≠ Model.Gff.kFeatureType from of_decide_eq_true hp), Or.inl (Or.inl (Or.inl (Or.inl h)))⟩
      · exact Or.inr ⟨by rw [optVal_key_ne _ _ _ _ h]; exact n1, Or.inl (Or.inl (Or.inl (Or.inr h)))⟩
      · exact Or.inr ⟨by rw [optVal_key_ne _ _ _ _ h]; exact n2, Or.inl (Or.inl (Or.inr h))⟩
      · exact Or.inr ⟨by rw [optVal_key_ne _ _ _ _ h]; exact n3, Or.inl (Or.inr h)⟩
      · exact Or.inr ⟨by rw [optVal_key_ne _ _ _ _ h]; exact n4, Or.inr h⟩
      · exact Or.inl ⟨h1, (mem_fcTypes c v).mpr h2⟩

theorem feat_quals_rel (c : SFc) (f : SFeat) (hc : KeysDistinct c.quals) (hf : KeysDistinct f.quals) (k v : Str) :
    BRel (featExportQuals f (fcExportQuals c)) k v ↔ BRel (Spec.Gff.featQuals c f) k v := by
  unfold featExportQuals Spec.Gff.featQuals
  simp only
  have hq : KeysDistinct (mergeQuals f.quals (fcExportQuals c) |> addOpt kFeatureName f.name |> addOpt kFeatureId f.fid) :=
    distinct_addOpt _ _ (distinct_addOpt _ _ (distinct_mergeQuals _ hf))
  have hbase : ∀ k v, BRel (mergeQuals f.quals (fcExportQuals c) |> addOpt kFeatureName f.name |> addOpt kFeatureId f.fid) k v ↔
      ((BRel f.quals k v ∨ BRel (Spec.Gff.fcQuals c) k v) ∨ BRel (optVal kFeatureName f.name) k v) ∨
        BRel (optVal kFeatureId f.fid) k v := by
    intro k v; simp only [brel_addOpt, brel_mergeQuals, fc_quals_rel c hc]
  cases he : f.ftypes.isEmpty with
  | true =>
    simp only [if_true, Bool.true_or, brel_append, brel_nil, or_false, hbase]
    have : ((f.quals ++ Spec.Gff.fcQuals c).filter fun kv => true) = f.quals ++ Spec.Gff.fcQuals c :=
      List.filter_eq_self.mpr (fun _ _ => rfl)
    rw [this, brel_append]
    rfl
  | false =>
    simp only [Bool.false_eq_true, if_false, Bool.false_or]
    rw [brel_setKey _ _ _ hq, hbase]
    simp only [brel_append, brel_cons, brel_nil, or_false]
    rw [brel_filter_key (fun key => decide (key ≠ Spec.Gff.kFeatureType)), brel_append]
    have n1 : Spec.Gff.kFeatureName ≠ Spec.Gff.kFeatureType := by decide
    have n2 : Spec.Gff.kFeatureId ≠ Spec.Gff.kFeatureType := by decide
    constructor
    · rintro (⟨h1, h2⟩ | ⟨hne, (((h | h) | h) | h)⟩)
      · exact Or.inr ⟨h1, (mem_dedup _ v).mp h2⟩
      · exact Or.inl (Or.inl (Or.inl ⟨decide_eq_true (show k ≠ Spec.Gff.kFeatureType from hne), Or.inl h⟩))
      · exact Or.inl (Or.inl (Or.inl ⟨decide_eq_true (show k ≠ Spec.Gff.kFeatureType from hne), Or.inr h⟩))
      · exact Or.inl (Or.inl (Or.inr h))
      · exact Or.inl (Or.inr h)
    · rintro (((⟨hp, h | h⟩ | h) | h) | ⟨h1, h2⟩)
      · exact Or.inr ⟨(show k ≠ Model.Gff.kFeatureType from of_decide_eq_true hp), Or.inl (Or.inl (Or.inl h))⟩
      · exact Or.inr ⟨(show k ≠ Model.Gff.kFeatureType from of_decide_eq_true hp), Or.inl (Or.inl (Or.inr h))⟩
      · exact Or.inr ⟨by rw [optVal_key_ne _ _ _ _ h]; exact n1, Or.inl (Or.inr h)⟩
      · exact Or.inr ⟨by rw [optVal_key_ne _ _ _ _ h]; exact n2, Or.inr h⟩
      · exact Or.inl ⟨h1, (mem_dedup _ v).mpr h2⟩

end BioCantor.Proofs.GffQualsFc
