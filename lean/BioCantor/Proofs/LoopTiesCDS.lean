/-
  Tie between the GENERATED `CDSInterval.construct_frames_from_location` (`Gen/Kernels.lean`, re-translated from
  /repo's gene/cds.py on every run: list comprehension over `scan_blocks()`, `sizes[0] -= …`, the
  `frames.append(frames[-1].shift(s))` loop, `frames[0] = …`, the minus-strand reversal) and the hand-written
  `Model.constructFramesFromLocation` (Model/CDS.lean) that the C05 / C12 theorems use.
-/
import BioCantor.Proofs.LoopTies
import BioCantor.Model.CDS
set_option autoImplicit false
namespace BioCantor.Proofs.LoopTiesCDS
open BioCantor BioCantor.GenP BioCantor.Proofs.Ties BioCantor.Proofs.LoopTies

theorem frameOfInt_mod3 (x : Int) : ∃ g, frameOfInt (x % 3) = .ok g := by
  have h : x % 3 = 0 ∨ x % 3 = 1 ∨ x % 3 = 2 := by omega
  rcases h with h | h | h <;> rw [h] <;> simp [frameOfInt]

/-- the generated `CDSFrame.shift` never raises -/
theorem shift_total (f : CDSFrame) (n : Int) : ∃ g, Gen.CDSFrame_shift f n = .ok g := by
  unfold Gen.CDSFrame_shift
  by_cases hf : f = .NONE
  · exact ⟨f, by simp [hf]⟩
  · simp only [hf, if_false]
    by_cases hn : n > 0
    · simp only [hn, if_true]
      obtain ⟨g, hg⟩ := frameOfInt_mod3 (f.value + n)
      exact ⟨g, by rw [hg]⟩
    · simp only [hn, if_false]
      obtain ⟨g, hg⟩ := frameOfInt_mod3 (f.value - (n - -n % 3))
      exact ⟨g, by rw [hg]⟩

theorem getLast_snoc {α : Type} (pre : List α) (x : α) : listGetLast (pre ++ [x]) = .ok x := by
  unfold listGetLast
  simp

/-- loop invariant: `frames = pre ++ [last]` ↔ the model's `framesLoop last`; neither side raises -/
theorem frames_loop :
    ∀ (sizes : List Int) (pre : List CDSFrame) (last : CDSFrame),
      ∃ more, Model.framesLoop last sizes = .ok more ∧
        Gen.CDSInterval_construct_frames_from_location_loop1 sizes (pre ++ [last])
          = .ok (.done (pre ++ [last] ++ more)) := by
  intro sizes
  induction sizes with
  | nil => intro pre last; exact ⟨[], rfl, by simp [Gen.CDSInterval_construct_frames_from_location_loop1]⟩
  | cons s rest ih =>
    intro pre last
    obtain ⟨g, hg⟩ := shift_total last s
    obtain ⟨more, hm, hl⟩ := ih (pre ++ [last]) g
    refine ⟨g :: more, ?_, ?_⟩
    · simp only [Model.framesLoop, Model.frameShift, hg, Model.liftPy, bind, Except.bind, hm]
      rfl
    · simp only [Gen.CDSInterval_construct_frames_from_location_loop1, getLast_snoc, hg, hl]
      simp

theorem sizes_eq (bs : List Blk) (st : Strand) (hv : blocksValid bs = true) :
    List.map (fun x : SI => x.«end» - x.start) (bs.map (fun b => si b st)) = bs.map (fun b => (b.len : Int)) := by
  induction bs with
  | nil => rfl
  | cons b bs ih =>
    obtain ⟨hb, hv'⟩ := (blocksValid_cons' b bs).1 hv
    simp only [List.map_cons, si_len, ih hv', blkLen_cast b hb]

theorem construct_frames_tie (l : Loc) (hne : l.blocks ≠ []) (hv : blocksValid l.blocks = true) (sf : CDSFrame) :
    Agree id (Gen.CDSInterval_construct_frames_from_location (toCI l) sf)
      (Model.constructFramesFromLocation (.compound l) sf) := by
  unfold Agree Gen.CDSInterval_construct_frames_from_location Model.constructFramesFromLocation
  have hnb : (toCI l).numBlocks = (l.blocks.length : Int) := by simp [toCI, CI.numBlocks]
  by_cases h1 : l.blocks.length = 1
  · have : (toCI l).numBlocks = 1 := by rw [hnb, h1]; rfl
    simp [this, h1, view]
    rfl
  · have : ¬ (toCI l).numBlocks = 1 := by rw [hnb]; omega
    simp only [this, h1, if_false]
    by_cases hu : l.strand = .unstranded
    · rw [scan_unstranded l hu]
      unfold Model.scanBlocks Model.assertDirectional
      simp [hu, view, mapExc, bind, Except.bind, throw, throwThe, MonadExceptOf.throw]
    · rw [scan_eq l hu]
      have hm : Model.scanBlocks l = .ok (scanList l) := by
        unfold Model.scanBlocks Model.assertDirectional scanList
        cases hs : l.strand
        · rfl
        · rfl
        · exact absurd hs hu
      have hv' : blocksValid (scanList l) = true := by
        unfold scanList
        split
        · exact hv
        · exact blocksValid_reverse' _ hv
      have hlen : (scanList l).length = l.blocks.length := by
        unfold scanList; split <;> simp
      simp only [hm, sizes_eq _ _ hv', bind, Except.bind]
      -- the scanned list has at least two blocks, so `sizes` is non-empty
      have h2 : 2 ≤ (scanList l).length := by
        rw [hlen]
        cases hb : l.blocks with
        | nil => exact absurd hb hne
        | cons x xs =>
          cases xs with
          | nil => rw [hb] at h1; simp at h1
          | cons y ys => simp
      cases hsz : (List.map (fun b : Blk => (b.len : Int)) (scanList l)).dropLast with
      | nil =>
        have := congrArg List.length hsz
        simp at this
        omega
      | cons s0 rest =>
        obtain ⟨more, hfl, hloop⟩ := frames_loop ((s0 - sf.value) :: rest) [] .ZERO
        simp only [List.nil_append] at hloop
        simp only [listGetFirst, listSetFirst, hloop, hfl, List.singleton_append]
        by_cases hmi : l.strand = .minus
        · simp [hmi, view, toCI]; rfl
        · simp [hmi, view, toCI]; rfl

end BioCantor.Proofs.LoopTiesCDS
