/-
  C11 / T5 — sorting facts: the Spec's stable insertion sort `sortBy` is `List.mergeSort` (the model's `sorted`),
  and it commutes with filtering and with order-preserving maps.
-/
import BioCantor.Spec.Gff
namespace BioCantor.Proofs.GffSort
open BioCantor BioCantor.Spec.Gff

variable {α : Type}

theorem insertBy_split (le : α → α → Bool) (x : α) : ∀ (pre post : List α),
    (∀ b ∈ pre, le x b = false) → (∀ y, post.head? = some y → le x y = true) →
    insertBy le x (pre ++ post) = pre ++ x :: post
  | [], [], _, _ => rfl
  | [], y :: ys, _, h => by simp [insertBy, h y rfl]
  | b :: pre, post, hpre, hpost => by
    have hb : le x b = false := hpre b List.mem_cons_self
    simp only [List.cons_append, insertBy, hb, Bool.false_eq_true, if_false]
    rw [insertBy_split le x pre post (fun c hc => hpre c (List.mem_cons_of_mem _ hc)) hpost]

/-- inserting into a sorted list: everything before the insertion point is strictly smaller, everything after is
    not smaller -/
theorem insertBy_decomp (le : α → α → Bool) (htrans : ∀ a b c, le a b = true → le b c = true → le a c = true)
    (x : α) : ∀ (s : List α), s.Pairwise (fun a b => le a b = true) →
    ∃ pre post, s = pre ++ post ∧ insertBy le x s = pre ++ x :: post ∧
      (∀ b ∈ pre, le x b = false) ∧ (∀ y ∈ post, le x y = true)
  | [], _ => ⟨[], [], rfl, rfl, by simp, by simp⟩
  | y :: ys, hs => by
    rw [List.pairwise_cons] at hs
    cases hxy : le x y with
    | true =>
      refine ⟨[], y :: ys, rfl, by simp [insertBy, hxy], by simp, ?_⟩
      intro z hz
      rcases List.mem_cons.mp hz with rfl | hz'
      · exact hxy
      · exact htrans _ _ _ hxy (hs.1 z hz')
    | false =>
      obtain ⟨pre, post, h1, h2, h3, h4⟩ := insertBy_decomp le htrans x ys hs.2
      refine ⟨y :: pre, post, by rw [h1]; rfl, by simp [insertBy, hxy, h2], ?_, h4⟩
      intro b hb
      rcases List.mem_cons.mp hb with rfl | hb'
      · exact hxy
      · exact h3 b hb'

theorem sortBy_cons (le : α → α → Bool) (a : α) (l : List α) : sortBy le (a :: l) = insertBy le a (sortBy le l) := rfl

/-- the Spec's insertion sort is the stable merge sort of the library (Python's `sorted`) -/
theorem sortBy_eq_mergeSort (le : α → α → Bool) (htrans : ∀ a b c, le a b = true → le b c = true → le a c = true)
    (htotal : ∀ a b, (le a b || le b a) = true) : ∀ l : List α, sortBy le l = l.mergeSort le
  | [] => by simp [sortBy]
  | a :: l => by
    rw [sortBy_cons, sortBy_eq_mergeSort le htrans htotal l]
    obtain ⟨l₁, l₂, h1, h2, h3⟩ := List.mergeSort_cons htrans htotal a l
    rw [h1, h2]
    have hsorted := List.pairwise_mergeSort htrans htotal (a :: l)
    rw [h1, List.pairwise_append] at hsorted
    apply insertBy_split
    · intro b hb
      have := h3 b hb
      simpa using this
    · intro y hy
      have hmem : y ∈ l₂ := List.mem_of_head? hy
      exact (List.pairwise_cons.mp hsorted.2.1).1 y hmem

theorem sortBy_pairwise (le : α → α → Bool) (htrans : ∀ a b c, le a b = true → le b c = true → le a c = true)
    (htotal : ∀ a b, (le a b || le b a) = true) (l : List α) : (sortBy le l).Pairwise (fun a b => le a b = true) := by
  rw [sortBy_eq_mergeSort le htrans htotal]; exact List.pairwise_mergeSort htrans htotal l

theorem mem_insertBy (le : α → α → Bool) (x y : α) : ∀ l : List α, y ∈ insertBy le x l ↔ y = x ∨ y ∈ l
  | [] => by simp [insertBy]
  | z :: zs => by
    simp only [insertBy]
    split
    · simp
    · simp only [List.mem_cons, mem_insertBy le x y zs]
      constructor
      · rintro (h | h | h)
        · exact Or.inr (Or.inl h)
        · exact Or.inl h
        · exact Or.inr (Or.inr h)
      · rintro (h | h | h)
        · exact Or.inr (Or.inl h)
        · exact Or.inl h
        · exact Or.inr (Or.inr h)

theorem mem_sortBy (le : α → α → Bool) (y : α) : ∀ l : List α, y ∈ sortBy le l ↔ y ∈ l
  | [] => by simp [sortBy]
  | a :: l => by rw [sortBy_cons, mem_insertBy, mem_sortBy le y l]; simp

/-- a stable sort commutes with filtering -/
theorem sortBy_filter (le : α → α → Bool) (htrans : ∀ a b c, le a b = true → le b c = true → le a c = true)
    (htotal : ∀ a b, (le a b || le b a) = true) (p : α → Bool) :
    ∀ l : List α, (sortBy le l).filter p = sortBy le (l.filter p)
  | [] => by simp [sortBy]
  | a :: l => by
    rw [sortBy_cons]
    obtain ⟨pre, post, h1, h2, h3, h4⟩ := insertBy_decomp le htrans a (sortBy le l) (sortBy_pairwise le htrans htotal l)
    have ih := sortBy_filter le htrans htotal p l
    rw [h1, List.filter_append] at ih
    rw [h2, List.filter_append, List.filter_cons]
    cases hp : p a with
    | false =>
      simp only [Bool.false_eq_true, if_false, List.filter_cons, hp]
      exact ih
    | true =>
      simp only [if_true, List.filter_cons, hp, sortBy_cons]
      rw [← ih]
      symm
      apply insertBy_split
      · intro b hb; exact h3 b (List.mem_filter.mp hb).1
      · intro y hy; exact h4 y (List.mem_filter.mp (List.mem_of_head? hy)).1

theorem insertBy_congr (le le' : α → α → Bool) (x : α) : ∀ l : List α, (∀ b ∈ l, le x b = le' x b) →
    insertBy le x l = insertBy le' x l
  | [], _ => rfl
  | y :: ys, h => by
    simp only [insertBy, h y List.mem_cons_self]
    rw [insertBy_congr le le' x ys (fun b hb => h b (List.mem_cons_of_mem _ hb))]

theorem sortBy_congr (le le' : α → α → Bool) : ∀ l : List α, (∀ a ∈ l, ∀ b ∈ l, le a b = le' a b) →
    sortBy le l = sortBy le' l
  | [], _ => rfl
  | a :: l, h => by
    rw [sortBy_cons, sortBy_cons,
      sortBy_congr le le' l (fun x hx y hy => h x (List.mem_cons_of_mem _ hx) y (List.mem_cons_of_mem _ hy))]
    apply insertBy_congr
    intro b hb
    exact h a List.mem_cons_self b (List.mem_cons_of_mem _ ((mem_sortBy le' b l).mp hb))

theorem insertBy_map {β : Type} (f : α → β) (le : α → α → Bool) (le' : β → β → Bool) (x : α) :
    ∀ l : List α, (∀ b ∈ l, le' (f x) (f b) = le x b) → insertBy le' (f x) (l.map f) = (insertBy le x l).map f
  | [], _ => rfl
  | y :: ys, h => by
    simp only [List.map_cons, insertBy, h y List.mem_cons_self]
    split
    · rfl
    · rw [List.map_cons, insertBy_map f le le' x ys (fun b hb => h b (List.mem_cons_of_mem _ hb))]

theorem sortBy_map {β : Type} (f : α → β) (le : α → α → Bool) (le' : β → β → Bool) :
    ∀ l : List α, (∀ a ∈ l, ∀ b ∈ l, le' (f a) (f b) = le a b) → sortBy le' (l.map f) = (sortBy le l).map f
  | [], _ => rfl
  | a :: l, h => by
    rw [List.map_cons, sortBy_cons, sortBy_cons,
      sortBy_map f le le' l (fun x hx y hy => h x (List.mem_cons_of_mem _ hx) y (List.mem_cons_of_mem _ hy))]
    apply insertBy_map
    intro b hb
    exact h a List.mem_cons_self b (List.mem_cons_of_mem _ ((mem_sortBy le b l).mp hb))

/-- sorting a sorted list changes nothing -/
theorem sortBy_of_sorted (le : α → α → Bool) : ∀ l : List α, l.Pairwise (fun a b => le a b = true) → sortBy le l = l
  | [], _ => rfl
  | a :: l, h => by
    rw [List.pairwise_cons] at h
    rw [sortBy_cons, sortBy_of_sorted le l h.2]
    cases l with
    | nil => rfl
    | cons y ys => simp [insertBy, h.1 y List.mem_cons_self]

theorem mergeSort_filter (le : α → α → Bool) (htrans : ∀ a b c, le a b = true → le b c = true → le a c = true)
    (htotal : ∀ a b, (le a b || le b a) = true) (p : α → Bool) (l : List α) :
    (l.mergeSort le).filter p = (l.filter p).mergeSort le := by
  rw [← sortBy_eq_mergeSort le htrans htotal, ← sortBy_eq_mergeSort le htrans htotal]
  exact sortBy_filter le htrans htotal p l

end BioCantor.Proofs.GffSort
