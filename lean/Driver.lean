/-
  Model driver: `lake env lean --run Driver.lean < ops.txt > out.txt`
  One answer line per input line.  Imports only Base/Spec/Gen/Model (no Mathlib, no Props).
-/
import BioCantor.Driver.All
open BioCantor

def table : List (String × Proto.Op) := Driver.table

partial def loop (h : IO.FS.Stream) (out : IO.FS.Stream) : IO Unit := do
  let line ← h.getLine
  if line.isEmpty then return ()
  let l := String.ofList (line.toList.filter (fun c => c != '\n' && c != '\r'))
  out.putStrLn (Proto.runOp table l)
  loop h out

def main : IO Unit := do
  let i ← IO.getStdin
  let o ← IO.getStdout
  loop i o
