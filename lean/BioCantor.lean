import BioCantor.Base
import BioCantor.Spec.Location
import BioCantor.Model.Location
import BioCantor.GenPrelude
import BioCantor.Gen.Tables
import BioCantor.Gen.Kernels
