import BioCantor.Base
import BioCantor.Spec.Location
import BioCantor.Model.Location
