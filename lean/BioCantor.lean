import BioCantor.Base
